import MorfuseModel.Conc.Model
import MorfuseModel.BlockAlloc.Model
/-!
# C20 — contexts sharing one locked pool

N OS threads, each a script context with its own state, sharing one process-wide entry pool
(`BlockAllocSafe_set<T>::allocator`).  The pool is the C19 model of `BlockAlloc` (`alloc`, `free`,
`liveOf`); around it sits the mutex of `BlockAllocSafe`, taken in mode `mode` (the lock kind the
translator reads from the source: `shared` in the code as found, `exclusive` after the repair).

A call `Alloc()` / `Free(p)` is *not* atomic in this model: it is a read-modify-write of the pool
state with the lock held in between —
  * `enter`: acquire the mutex in `mode`, read the pool state (`snap`),
  * `exit` : compute `alloc`/`free` on what was read, write the result back, release.
So whether calls are serialised is a consequence of the mutex model, not an assumption: with
`exclusive` the snapshot is always the current pool (proved), with `shared` two calls can overlap
and the second write-back loses the first (witness).

The payload of a slot (`heap`) is read and written by the context that holds the slot without any
lock, exactly like the entries of a `con::set`.  A context's observable result is `out`.
`alloc v` folds the placement-new that follows `Alloc()` into the exit step (the slot is private to
the caller from that step on).
-/
namespace Morfuse.Conc.Pool
open Morfuse.BlockAlloc (Slot State alloc free liveOf)

/-- what a context does with the shared pool -/
inductive POp
  /-- `new (pool) Entry(v)`: `Alloc()` under the lock, then construct the element -/
  | alloc (v : Nat)
  /-- destroy and `Free()` the `k`-th element the context holds (no-op when it holds fewer) -/
  | free (k : Nat)
  /-- write the `k`-th element the context holds (no lock: the context owns it) -/
  | put (k : Nat) (v : Nat)
  /-- read the `k`-th element into the context's output (`0` when it holds fewer) -/
  | get (k : Nat)
  deriving Repr

structure PThread where
  todo : List POp
  /-- ghost: the operations completed so far, oldest first -/
  done : List POp
  /-- the slots this context holds, in allocation order -/
  handles : List Slot
  /-- the context's output -/
  out : List Nat
  /-- inside `Alloc`/`Free`: the pool state read when the lock was taken -/
  snap : Option State

structure PSt where
  mtx : Mtx
  pool : State
  heap : Slot → Nat
  thr : List PThread

def upd (f : Slot → Nat) (h : Slot) (v : Nat) : Slot → Nat := fun x => if x = h then v else f x

/-- one step of context `i`; `none` = not enabled (blocked on the mutex, finished, no such context) -/
def step (bs : Nat) (mode : LockKind) (s : PSt) (i : Nat) : Option PSt :=
  match s.thr[i]? with
  | none => none
  | some t =>
    match t.todo with
    | [] => none
    | .alloc v :: rest =>
      match t.snap with
      | none =>
        if s.mtx.canAcquire mode then
          some { s with mtx := s.mtx.acquire mode, thr := s.thr.set i { t with snap := some s.pool } }
        else none
      | some p =>
        let r := alloc bs p
        some { mtx := s.mtx.release mode, pool := r.1, heap := upd s.heap r.2 v,
               thr := s.thr.set i { todo := rest, done := t.done ++ [.alloc v], handles := t.handles ++ [r.2],
                                    out := t.out, snap := none } }
    | .free k :: rest =>
      match t.snap with
      | none =>
        if s.mtx.canAcquire mode then
          some { s with mtx := s.mtx.acquire mode, thr := s.thr.set i { t with snap := some s.pool } }
        else none
      | some p =>
        match t.handles[k]? with
        | none =>
          some { s with mtx := s.mtx.release mode,
                        thr := s.thr.set i { todo := rest, done := t.done ++ [.free k], handles := t.handles,
                                             out := t.out, snap := none } }
        | some h =>
          some { mtx := s.mtx.release mode, pool := free bs p h, heap := s.heap,
                 thr := s.thr.set i { todo := rest, done := t.done ++ [.free k], handles := t.handles.eraseIdx k,
                                      out := t.out, snap := none } }
    | .put k v :: rest =>
      some { s with heap := (match t.handles[k]? with | none => s.heap | some h => upd s.heap h v),
                    thr := s.thr.set i { t with todo := rest, done := t.done ++ [.put k v] } }
    | .get k :: rest =>
      some { s with thr := s.thr.set i { t with todo := rest, done := t.done ++ [.get k],
                                                out := t.out ++ [match t.handles[k]? with | none => 0 | some h => s.heap h] } }

/-- schedules as in the lock model: any list of context ids, disabled choices are skipped -/
def run (bs : Nat) (mode : LockKind) (s : PSt) : List Nat → PSt
  | [] => s
  | i :: is => run bs mode ((step bs mode s i).getD s) is

def initSt (P : List (List POp)) : PSt :=
  { mtx := Mtx.idle, pool := Morfuse.BlockAlloc.init, heap := fun _ => 0,
    thr := P.map fun ops => { todo := ops, done := [], handles := [], out := [], snap := none } }

/-! ### what the same context computes when it is alone (the specification) -/

structure SpecSt where
  /-- the value of each element the context holds -/
  vals : List Nat
  out : List Nat

def specStep (σ : SpecSt) : POp → SpecSt
  | .alloc v => { σ with vals := σ.vals ++ [v] }
  | .free k => { σ with vals := σ.vals.eraseIdx k }
  | .put k v => { σ with vals := σ.vals.set k v }
  | .get k => { σ with out := σ.out ++ [σ.vals[k]?.getD 0] }

def specRun (ops : List POp) : SpecSt := ops.foldl specStep ⟨[], []⟩

end Morfuse.Conc.Pool
