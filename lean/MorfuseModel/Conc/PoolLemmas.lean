import MorfuseModel.Conc.Pool
import MorfuseModel.Props.C19
/-!
# C20 — invariant of the locked pool (mode = exclusive)

`PInv`: the pool state is a state of the sequential allocator (C19's `Reachable`: it is the result
of a *sequential* history of `Alloc`/`Free`), at most one context is inside a pool call and its
snapshot is the current pool, every handle a context holds is live in the pool, no slot is held
twice (across contexts or within one), and every context's private view (`Sim`) equals what the
specification `specRun` computes from the operations it has completed.
-/
namespace Morfuse.Conc.Pool
open Morfuse.BlockAlloc (Slot State alloc free liveOf Reachable)

theorem get_set_cases {α : Type} {l : List α} {i j : Nat} {a u : α} (hi : i < l.length)
    (h : (l.set i a)[j]? = some u) : (j = i ∧ u = a) ∨ (j ≠ i ∧ l[j]? = some u) := by
  by_cases hij : i = j
  · subst hij
    rw [List.getElem?_set_self hi] at h
    exact Or.inl ⟨rfl, (Option.some.inj h).symm⟩
  · rw [List.getElem?_set_ne hij] at h
    exact Or.inr ⟨fun e => hij e.symm, h⟩

theorem specRun_snoc (d : List POp) (op : POp) : specRun (d ++ [op]) = specStep (specRun d) op := by
  simp [specRun, List.foldl_append]

/-- the context's private view agrees with the specification -/
def Sim (heap : Slot → Nat) (t : PThread) : Prop :=
  t.out = (specRun t.done).out ∧ t.handles.length = (specRun t.done).vals.length ∧
  ∀ (k : Nat) (h : Slot), t.handles[k]? = some h → (specRun t.done).vals[k]? = some (heap h)

structure PInv (bs : Nat) (s : PSt) : Prop where
  reach : Reachable bs s.pool
  readers0 : s.mtx.readers = 0
  lock : (s.mtx.writer = false ∧ ∀ (i : Nat) (t : PThread), s.thr[i]? = some t → t.snap = none) ∨
         (s.mtx.writer = true ∧ ∃ (i : Nat) (t : PThread), s.thr[i]? = some t ∧ t.snap = some s.pool ∧
            ∀ (j : Nat) (u : PThread), j ≠ i → s.thr[j]? = some u → u.snap = none)
  live : ∀ (i : Nat) (t : PThread) (k : Nat) (h : Slot), s.thr[i]? = some t → t.handles[k]? = some h → h ∈ liveOf bs s.pool
  inj : ∀ (i j : Nat) (ti tj : PThread) (k k' : Nat) (h : Slot), s.thr[i]? = some ti → s.thr[j]? = some tj →
    ti.handles[k]? = some h → tj.handles[k']? = some h → i = j ∧ k = k'
  sim : ∀ (i : Nat) (t : PThread), s.thr[i]? = some t → Sim s.heap t

theorem pinv_init (bs : Nat) (P : List (List POp)) : PInv bs (initSt P) := by
  have hth : ∀ (i : Nat) (t : PThread), (initSt P).thr[i]? = some t → t.snap = none ∧ t.handles = [] ∧ t.done = [] ∧ t.out = [] := by
    intro i t h
    simp only [initSt, List.getElem?_map, Option.map_eq_some_iff] at h
    obtain ⟨ops, _, rfl⟩ := h
    exact ⟨rfl, rfl, rfl, rfl⟩
  refine ⟨⟨[], rfl⟩, rfl, Or.inl ⟨rfl, fun i t h => (hth i t h).1⟩, ?_, ?_, ?_⟩
  · intro i t k h ht hk
    rw [(hth i t ht).2.1] at hk; simp at hk
  · intro i j ti tj k k' h hi _ hk _
    rw [(hth i ti hi).2.1] at hk; simp at hk
  · intro i t ht
    obtain ⟨_, hh, hd, ho⟩ := hth i t ht
    refine ⟨by rw [ho, hd]; rfl, by rw [hh, hd]; rfl, ?_⟩
    intro k h hk; rw [hh] at hk; simp at hk

/-- a context that is inside a pool call reads the current pool, holds the writer flag, and is the
    only one inside -/
theorem snap_current {bs : Nat} {s : PSt} (hinv : PInv bs s) {i : Nat} {t : PThread} {p : State}
    (ht : s.thr[i]? = some t) (hs : t.snap = some p) :
    p = s.pool ∧ s.mtx.writer = true ∧ ∀ (j : Nat) (u : PThread), j ≠ i → s.thr[j]? = some u → u.snap = none := by
  rcases hinv.lock with ⟨_, hnone⟩ | ⟨hw, i0, t0, ht0, hs0, hoth⟩
  · rw [hnone i t ht] at hs; cases hs
  · by_cases e : i = i0
    · subst e
      rw [ht] at ht0; cases ht0
      rw [hs] at hs0
      exact ⟨Option.some.inj hs0, hw, hoth⟩
    · rw [hoth i t e ht] at hs; cases hs

/-! ### steps that leave handles / completed operations / output of every context unchanged -/

def SameObs (u u' : PThread) : Prop := u.handles = u'.handles ∧ u.done = u'.done ∧ u.out = u'.out

theorem set_sameobs {l : List PThread} {i : Nat} {t tnew : PThread} (ht : l[i]? = some t)
    (hso : SameObs tnew t) {j : Nat} {u : PThread} (hu : (l.set i tnew)[j]? = some u) :
    ∃ u', l[j]? = some u' ∧ SameObs u u' := by
  have hi : i < l.length := (List.getElem?_eq_some_iff.mp ht).1
  rcases get_set_cases hi hu with ⟨rfl, rfl⟩ | ⟨_, h⟩
  · exact ⟨t, ht, hso⟩
  · exact ⟨u, h, rfl, rfl, rfl⟩

theorem sim_sameobs {heap : Slot → Nat} {u u' : PThread} (h : SameObs u u') (hs : Sim heap u') : Sim heap u := by
  obtain ⟨hh, hd, ho⟩ := h
  unfold Sim at *
  rw [hh, hd, ho]; exact hs

/-- frame: pool, heap and every context's observables unchanged -/
theorem frame {bs : Nat} {s : PSt} (hinv : PInv bs s) {i : Nat} {t tnew : PThread}
    (ht : s.thr[i]? = some t) (hso : SameObs tnew t) :
    (∀ (j : Nat) (u : PThread) (k : Nat) (h : Slot), (s.thr.set i tnew)[j]? = some u → u.handles[k]? = some h → h ∈ liveOf bs s.pool) ∧
    (∀ (a b : Nat) (ua ub : PThread) (k k' : Nat) (h : Slot), (s.thr.set i tnew)[a]? = some ua → (s.thr.set i tnew)[b]? = some ub →
      ua.handles[k]? = some h → ub.handles[k']? = some h → a = b ∧ k = k') ∧
    (∀ (j : Nat) (u : PThread), (s.thr.set i tnew)[j]? = some u → Sim s.heap u) := by
  refine ⟨?_, ?_, ?_⟩
  · intro j u k h hu hk
    obtain ⟨u', hu', hso'⟩ := set_sameobs ht hso hu
    rw [hso'.1] at hk
    exact hinv.live j u' k h hu' hk
  · intro a b ua ub k k' h hua hub hka hkb
    obtain ⟨ua', hua', hsa⟩ := set_sameobs ht hso hua
    obtain ⟨ub', hub', hsb⟩ := set_sameobs ht hso hub
    rw [hsa.1] at hka; rw [hsb.1] at hkb
    exact hinv.inj a b ua' ub' k k' h hua' hub' hka hkb
  · intro j u hu
    obtain ⟨u', hu', hso'⟩ := set_sameobs ht hso hu
    exact sim_sameobs hso' (hinv.sim j u' hu')

/-! ### enter: take the lock, read the pool -/

theorem pinv_enter {bs : Nat} {s : PSt} (hinv : PInv bs s) {i : Nat} {t : PThread}
    (ht : s.thr[i]? = some t) (hcan : s.mtx.canAcquire .exclusive = true)
    (tnew : PThread) (hso : SameObs tnew t) (hsnap : tnew.snap = some s.pool) :
    PInv bs { s with mtx := s.mtx.acquire .exclusive, thr := s.thr.set i tnew } := by
  have hi : i < s.thr.length := (List.getElem?_eq_some_iff.mp ht).1
  simp only [Mtx.canAcquire, Bool.and_eq_true, Bool.not_eq_true', beq_iff_eq] at hcan
  obtain ⟨hl, hi2, hs⟩ := frame hinv (tnew := tnew) ht hso
  have hnone : ∀ (j : Nat) (u : PThread), s.thr[j]? = some u → u.snap = none := by
    rcases hinv.lock with ⟨_, h⟩ | ⟨hw, _⟩
    · exact h
    · rw [hcan.1] at hw; cases hw
  refine ⟨hinv.reach, hinv.readers0, Or.inr ⟨rfl, i, tnew, List.getElem?_set_self hi, hsnap, ?_⟩, hl, hi2, hs⟩
  intro j u hj hu
  rw [List.getElem?_set_ne (fun e => hj e.symm)] at hu
  exact hnone j u hu

/-! ### exit of `Alloc` -/

theorem pinv_exit_alloc {bs : Nat} (hbs : 2 ≤ bs) {s : PSt} (hinv : PInv bs s) {i : Nat} {t : PThread}
    {p : State} {v : Nat} {rest : List POp}
    (ht : s.thr[i]? = some t) (hsn : t.snap = some p) :
    PInv bs { mtx := s.mtx.release .exclusive, pool := (alloc bs p).1, heap := upd s.heap (alloc bs p).2 v,
              thr := s.thr.set i { todo := rest, done := t.done ++ [.alloc v], handles := t.handles ++ [(alloc bs p).2],
                                   out := t.out, snap := none } } := by
  have hi : i < s.thr.length := (List.getElem?_eq_some_iff.mp ht).1
  obtain ⟨rfl, _, hoth⟩ := snap_current hinv ht hsn
  have hfresh := Morfuse.BlockAlloc.C19_alloc_fresh hbs hinv.reach
  have hadds := Morfuse.BlockAlloc.C19_alloc_adds hbs hinv.reach
  -- every handle held before the call is live, hence different from the new slot
  have hne : ∀ (j : Nat) (u : PThread) (k : Nat) (h : Slot), s.thr[j]? = some u → u.handles[k]? = some h → h ≠ (alloc bs s.pool).2 := by
    intro j u k h hu hk e
    exact hfresh (e ▸ hinv.live j u k h hu hk)
  have hlen := (hinv.sim i t ht).2.1
  refine ⟨Morfuse.BlockAlloc.reachable_alloc hinv.reach, hinv.readers0, Or.inl ⟨rfl, ?_⟩, ?_, ?_, ?_⟩
  · intro j u hu
    rcases get_set_cases hi hu with ⟨_, rfl⟩ | ⟨hj, h⟩
    · rfl
    · exact hoth j u hj h
  · -- live
    intro j u k h hu hk
    apply (hadds.mem_iff).mpr
    rcases get_set_cases hi hu with ⟨_, rfl⟩ | ⟨_, hu'⟩
    · by_cases hk' : k < t.handles.length
      · rw [List.getElem?_append_left hk'] at hk
        exact List.mem_cons_of_mem _ (hinv.live i t k h ht hk)
      · rw [List.getElem?_append_right (by omega)] at hk
        have : (k - t.handles.length) = 0 := by
          cases hkk : k - t.handles.length with
          | zero => rfl
          | succ n => simp [hkk] at hk
        simp only [this, List.getElem?_cons_zero, Option.some.injEq] at hk
        exact hk ▸ List.mem_cons_self
    · exact List.mem_cons_of_mem _ (hinv.live j u k h hu' hk)
  · -- no slot twice
    intro a b ua ub k k' h hua hub hka hkb
    -- where a handle of the updated list comes from
    have src : ∀ {c : Nat} {uc : PThread} {kc : Nat}, (s.thr.set i { todo := rest, done := t.done ++ [.alloc v], handles := t.handles ++ [(alloc bs s.pool).2], out := t.out, snap := none })[c]? = some uc → uc.handles[kc]? = some h → (∃ u', s.thr[c]? = some u' ∧ u'.handles[kc]? = some h) ∨ (c = i ∧ kc = t.handles.length ∧ h = (alloc bs s.pool).2) := by
      intro c uc kc huc hkc
      rcases get_set_cases hi huc with ⟨rfl, rfl⟩ | ⟨_, hu'⟩
      · by_cases hk' : kc < t.handles.length
        · rw [List.getElem?_append_left hk'] at hkc
          exact Or.inl ⟨t, ht, hkc⟩
        · rw [List.getElem?_append_right (by omega)] at hkc
          have h0 : (kc - t.handles.length) = 0 := by
            cases hkk : kc - t.handles.length with
            | zero => rfl
            | succ n => simp [hkk] at hkc
          simp only [h0, List.getElem?_cons_zero, Option.some.injEq] at hkc
          exact Or.inr ⟨rfl, by omega, hkc.symm⟩
      · exact Or.inl ⟨uc, hu', hkc⟩
    rcases src hua hka with ⟨ua', hua', hka'⟩ | ⟨rfl, rfl, rfl⟩
    · rcases src hub hkb with ⟨ub', hub', hkb'⟩ | ⟨rfl, rfl, rfl⟩
      · exact hinv.inj a b ua' ub' k k' h hua' hub' hka' hkb'
      · exact absurd rfl (hne a ua' k _ hua' hka')
    · rcases src hub hkb with ⟨ub', hub', hkb'⟩ | ⟨rfl, rfl, _⟩
      · exact absurd rfl (hne b ub' k' _ hub' hkb')
      · exact ⟨rfl, rfl⟩
  · -- the private views
    intro j u hu
    rcases get_set_cases hi hu with ⟨_, rfl⟩ | ⟨_, hu'⟩
    · obtain ⟨ho, hl, hv⟩ := hinv.sim i t ht
      refine ⟨?_, ?_, ?_⟩
      · simp only [specRun_snoc, specStep]; exact ho
      · simp only [specRun_snoc, specStep, List.length_append, List.length_singleton]; omega
      · intro k h hk
        simp only [specRun_snoc, specStep]
        by_cases hk' : k < t.handles.length
        · rw [List.getElem?_append_left hk'] at hk
          rw [List.getElem?_append_left (by omega)]
          have := hv k h hk
          have hneq := hne i t k h ht hk
          simp only [upd, hneq, if_false]; exact this
        · rw [List.getElem?_append_right (by omega)] at hk
          have h0 : (k - t.handles.length) = 0 := by
            cases hkk : k - t.handles.length with
            | zero => rfl
            | succ n => simp [hkk] at hk
          simp only [h0, List.getElem?_cons_zero, Option.some.injEq] at hk
          subst hk
          rw [List.getElem?_append_right (by omega)]
          have : k - (specRun t.done).vals.length = 0 := by omega
          simp [this, upd]
    · obtain ⟨ho, hl, hv⟩ := hinv.sim j u hu'
      refine ⟨ho, hl, ?_⟩
      intro k h hk
      have hneq := hne j u k h hu' hk
      simp only [upd, hneq, if_false]; exact hv k h hk

/-! ### index shift of `eraseIdx` -/

theorem eraseIdx_get {α : Type} {l : List α} {k j : Nat} {x : α} (h : (l.eraseIdx k)[j]? = some x) :
    ∃ j', l[j']? = some x ∧ j' ≠ k ∧ (j' = if j < k then j else j + 1) := by
  rw [List.getElem?_eraseIdx] at h
  by_cases hjk : j < k
  · simp only [hjk, if_true] at h ⊢
    exact ⟨j, h, by omega, rfl⟩
  · simp only [hjk, if_false] at h ⊢
    exact ⟨j + 1, h, by omega, rfl⟩

/-! ### exit of `Free` -/

theorem pinv_exit_free {bs : Nat} (hbs : 2 ≤ bs) {s : PSt} (hinv : PInv bs s) {i : Nat} {t : PThread}
    {p : State} {k : Nat} {h : Slot} {rest : List POp}
    (ht : s.thr[i]? = some t) (hsn : t.snap = some p) (hk : t.handles[k]? = some h) :
    PInv bs { mtx := s.mtx.release .exclusive, pool := free bs p h, heap := s.heap,
              thr := s.thr.set i { todo := rest, done := t.done ++ [.free k], handles := t.handles.eraseIdx k,
                                   out := t.out, snap := none } } := by
  have hi : i < s.thr.length := (List.getElem?_eq_some_iff.mp ht).1
  obtain ⟨rfl, _, hoth⟩ := snap_current hinv ht hsn
  have hlive : h ∈ liveOf bs s.pool := hinv.live i t k h ht hk
  have hrem := Morfuse.BlockAlloc.C19_free_removes_only hbs hinv.reach hlive
  have hnd := (Morfuse.BlockAlloc.C19_live_distinct hbs hinv.reach).1
  have hmem : ∀ x, x ∈ liveOf bs (free bs s.pool h) ↔ x ≠ h ∧ x ∈ liveOf bs s.pool := by
    intro x; rw [hrem.mem_iff]; exact hnd.mem_erase_iff
  have hreach : Reachable bs (free bs s.pool h) :=
    hinv.reach.step (.free h) (by simp [Morfuse.BlockAlloc.step, hlive])
  have hklt : k < t.handles.length := (List.getElem?_eq_some_iff.mp hk).1
  -- where a handle of the updated list comes from
  have src : ∀ {c : Nat} {uc : PThread} {kc : Nat} {x : Slot}, (s.thr.set i { todo := rest, done := t.done ++ [.free k], handles := t.handles.eraseIdx k, out := t.out, snap := none })[c]? = some uc → uc.handles[kc]? = some x → ∃ u' kc', s.thr[c]? = some u' ∧ u'.handles[kc']? = some x ∧ (c = i → kc' ≠ k ∧ kc' = if kc < k then kc else kc + 1) ∧ (c ≠ i → kc' = kc) := by
    intro c uc kc x huc hkc
    rcases get_set_cases hi huc with ⟨rfl, rfl⟩ | ⟨hc, hu'⟩
    · obtain ⟨j', hj', hne, hsh⟩ := eraseIdx_get hkc
      exact ⟨t, j', ht, hj', fun _ => ⟨hne, hsh⟩, fun e => absurd rfl e⟩
    · exact ⟨uc, kc, hu', hkc, fun e => absurd e hc, fun _ => rfl⟩
  refine ⟨hreach, hinv.readers0, Or.inl ⟨rfl, ?_⟩, ?_, ?_, ?_⟩
  · intro j u hu
    rcases get_set_cases hi hu with ⟨_, rfl⟩ | ⟨hj, hu'⟩
    · rfl
    · exact hoth j u hj hu'
  · intro j u kc x hu hkc
    obtain ⟨u', kc', hu', hx, hci, _⟩ := src hu hkc
    rw [hmem]
    refine ⟨?_, hinv.live j u' kc' x hu' hx⟩
    intro e; subst e
    have := hinv.inj j i u' t kc' k x hu' ht hx hk
    exact (hci this.1).1 this.2
  · intro a b ua ub ka kb x hua hub hka hkb
    obtain ⟨ua', ka', hua', hxa, hai, hani⟩ := src hua hka
    obtain ⟨ub', kb', hub', hxb, hbi, hbni⟩ := src hub hkb
    obtain ⟨hab, hkk⟩ := hinv.inj a b ua' ub' ka' kb' x hua' hub' hxa hxb
    refine ⟨hab, ?_⟩
    subst hab
    by_cases hc : a = i
    · have h1 := (hai hc).2; have h2 := (hbi hc).2
      by_cases c1 : ka < k <;> by_cases c2 : kb < k <;> simp only [c1, c2, if_true, if_false] at h1 h2 <;> omega
    · rw [hani hc] at hkk; rw [hbni hc] at hkk; exact hkk
  · intro j u hu
    rcases get_set_cases hi hu with ⟨_, rfl⟩ | ⟨_, hu'⟩
    · obtain ⟨ho, hl, hv⟩ := hinv.sim i t ht
      refine ⟨?_, ?_, ?_⟩
      · simp only [specRun_snoc, specStep]; exact ho
      · simp only [specRun_snoc, specStep, List.length_eraseIdx]
        rw [← hl]
      · intro kc x hkc
        simp only [specRun_snoc, specStep]
        rw [List.getElem?_eraseIdx] at hkc ⊢
        by_cases c : kc < k
        · simp only [c, if_true] at hkc ⊢; exact hv kc x hkc
        · simp only [c, if_false] at hkc ⊢; exact hv (kc + 1) x hkc
    · exact hinv.sim j u hu'

/-- `Free` of an element the context does not hold: only the lock is released -/
theorem pinv_exit_free_none {bs : Nat} {s : PSt} (hinv : PInv bs s) {i : Nat} {t : PThread}
    {p : State} {k : Nat} {rest : List POp}
    (ht : s.thr[i]? = some t) (hsn : t.snap = some p) (hk : t.handles[k]? = none) :
    PInv bs { s with mtx := s.mtx.release .exclusive,
                     thr := s.thr.set i { todo := rest, done := t.done ++ [.free k], handles := t.handles,
                                          out := t.out, snap := none } } := by
  have hi : i < s.thr.length := (List.getElem?_eq_some_iff.mp ht).1
  obtain ⟨_, _, hoth⟩ := snap_current hinv ht hsn
  have hkl : t.handles.length ≤ k := by
    rcases Nat.lt_or_ge k t.handles.length with h | h
    · rw [List.getElem?_eq_getElem h] at hk; cases hk
    · exact h
  have hsrc : ∀ {c : Nat} {uc : PThread}, (s.thr.set i { todo := rest, done := t.done ++ [.free k], handles := t.handles, out := t.out, snap := none })[c]? = some uc → ∃ u', s.thr[c]? = some u' ∧ uc.handles = u'.handles := by
    intro c uc huc
    rcases get_set_cases hi huc with ⟨rfl, rfl⟩ | ⟨_, hu'⟩
    · exact ⟨t, ht, rfl⟩
    · exact ⟨uc, hu', rfl⟩
  refine ⟨hinv.reach, hinv.readers0, Or.inl ⟨rfl, ?_⟩, ?_, ?_, ?_⟩
  · intro j u hu
    rcases get_set_cases hi hu with ⟨_, rfl⟩ | ⟨hj, hu'⟩
    · rfl
    · exact hoth j u hj hu'
  · intro j u kc x hu hkc
    obtain ⟨u', hu', hh⟩ := hsrc hu
    rw [hh] at hkc; exact hinv.live j u' kc x hu' hkc
  · intro a b ua ub ka kb x hua hub hka hkb
    obtain ⟨ua', hua', hha⟩ := hsrc hua
    obtain ⟨ub', hub', hhb⟩ := hsrc hub
    rw [hha] at hka; rw [hhb] at hkb
    exact hinv.inj a b ua' ub' ka kb x hua' hub' hka hkb
  · intro j u hu
    rcases get_set_cases hi hu with ⟨_, rfl⟩ | ⟨_, hu'⟩
    · obtain ⟨ho, hl, hv⟩ := hinv.sim i t ht
      have he : (specRun t.done).vals.eraseIdx k = (specRun t.done).vals :=
        List.eraseIdx_of_length_le (by omega)
      refine ⟨?_, ?_, ?_⟩
      · simp only [specRun_snoc, specStep]; exact ho
      · simp only [specRun_snoc, specStep, he]; exact hl
      · intro kc x hkc; simp only [specRun_snoc, specStep, he]; exact hv kc x hkc
    · exact hinv.sim j u hu'

/-! ### `put` and `get` (no lock: the context owns the slot) -/

theorem pinv_put {bs : Nat} {s : PSt} (hinv : PInv bs s) {i : Nat} {t : PThread} {k v : Nat} {rest : List POp}
    (ht : s.thr[i]? = some t) :
    PInv bs { s with heap := (match t.handles[k]? with | none => s.heap | some h => upd s.heap h v),
                     thr := s.thr.set i { t with todo := rest, done := t.done ++ [.put k v] } } := by
  have hi : i < s.thr.length := (List.getElem?_eq_some_iff.mp ht).1
  have hsrc : ∀ {c : Nat} {uc : PThread}, (s.thr.set i { t with todo := rest, done := t.done ++ [.put k v] })[c]? = some uc → ∃ u', s.thr[c]? = some u' ∧ uc.handles = u'.handles ∧ uc.snap = u'.snap := by
    intro c uc huc
    rcases get_set_cases hi huc with ⟨rfl, rfl⟩ | ⟨_, hu'⟩
    · exact ⟨t, ht, rfl, rfl⟩
    · exact ⟨uc, hu', rfl, rfl⟩
  refine ⟨hinv.reach, hinv.readers0, ?_, ?_, ?_, ?_⟩
  · rcases hinv.lock with ⟨hw, hnone⟩ | ⟨hw, i0, t0, ht0, hs0, hoth⟩
    · refine Or.inl ⟨hw, ?_⟩
      intro j u hu
      obtain ⟨u', hu', _, hs⟩ := hsrc hu
      rw [hs]; exact hnone j u' hu'
    · refine Or.inr ⟨hw, ?_⟩
      by_cases e : i0 = i
      · subst e
        rw [ht] at ht0; cases ht0
        refine ⟨i0, _, List.getElem?_set_self hi, hs0, ?_⟩
        intro j u hj hu
        rw [List.getElem?_set_ne (fun e => hj e.symm)] at hu
        exact hoth j u hj hu
      · refine ⟨i0, t0, ?_, hs0, ?_⟩
        · rw [List.getElem?_set_ne (fun e' => e e'.symm)]; exact ht0
        · intro j u hj hu
          obtain ⟨u', hu', _, hs⟩ := hsrc hu
          rw [hs]; exact hoth j u' hj hu'
  · intro j u kc x hu hkc
    obtain ⟨u', hu', hh, _⟩ := hsrc hu
    rw [hh] at hkc; exact hinv.live j u' kc x hu' hkc
  · intro a b ua ub ka kb x hua hub hka hkb
    obtain ⟨ua', hua', hha, _⟩ := hsrc hua
    obtain ⟨ub', hub', hhb, _⟩ := hsrc hub
    rw [hha] at hka; rw [hhb] at hkb
    exact hinv.inj a b ua' ub' ka kb x hua' hub' hka hkb
  · intro j u hu
    cases hk : t.handles[k]? with
    | none =>
      have hkl : t.handles.length ≤ k := by
        rcases Nat.lt_or_ge k t.handles.length with h | h
        · rw [List.getElem?_eq_getElem h] at hk; cases hk
        · exact h
      rcases get_set_cases hi hu with ⟨_, rfl⟩ | ⟨_, hu'⟩
      · obtain ⟨ho, hl, hv⟩ := hinv.sim i t ht
        have he : (specRun t.done).vals.set k v = (specRun t.done).vals := List.set_eq_of_length_le (by omega)
        refine ⟨?_, ?_, ?_⟩
        · simp only [specRun_snoc, specStep]; exact ho
        · simp only [specRun_snoc, specStep, he]; exact hl
        · intro kc x hkc; simp only [specRun_snoc, specStep, he]; exact hv kc x hkc
      · exact hinv.sim j u hu'
    | some h =>
      simp only []
      rcases get_set_cases hi hu with ⟨_, rfl⟩ | ⟨hj, hu'⟩
      · obtain ⟨ho, hl, hv⟩ := hinv.sim i t ht
        have hklt : k < t.handles.length := (List.getElem?_eq_some_iff.mp hk).1
        refine ⟨?_, ?_, ?_⟩
        · simp only [specRun_snoc, specStep]; exact ho
        · simp only [specRun_snoc, specStep, List.length_set]; exact hl
        · intro kc x hkc
          simp only [specRun_snoc, specStep]
          by_cases e : kc = k
          · subst e
            rw [hk] at hkc; cases hkc
            rw [List.getElem?_set_self (by omega)]; simp [upd]
          · rw [List.getElem?_set_ne (fun e' => e e'.symm)]
            have hx : x ≠ h := by
              intro e'; subst e'
              exact e (hinv.inj i i t t kc k x ht ht hkc hk).2
            simp only [upd, hx, if_false]; exact hv kc x hkc
      · obtain ⟨ho, hl, hv⟩ := hinv.sim j u hu'
        refine ⟨ho, hl, ?_⟩
        intro kc x hkc
        have hx : x ≠ h := by
          intro e'; subst e'
          exact hj (hinv.inj j i u t kc k x hu' ht hkc hk).1
        simp only [upd, hx, if_false]; exact hv kc x hkc

theorem pinv_get {bs : Nat} {s : PSt} (hinv : PInv bs s) {i : Nat} {t : PThread} {k : Nat} {rest : List POp}
    (ht : s.thr[i]? = some t) :
    PInv bs { s with thr := s.thr.set i { t with todo := rest, done := t.done ++ [.get k], out := t.out ++ [match t.handles[k]? with | none => 0 | some h => s.heap h] } } := by
  have hi : i < s.thr.length := (List.getElem?_eq_some_iff.mp ht).1
  have hsrc : ∀ {c : Nat} {uc : PThread}, (s.thr.set i { t with todo := rest, done := t.done ++ [.get k], out := t.out ++ [match t.handles[k]? with | none => 0 | some h => s.heap h] })[c]? = some uc → ∃ u', s.thr[c]? = some u' ∧ uc.handles = u'.handles ∧ uc.snap = u'.snap := by
    intro c uc huc
    rcases get_set_cases hi huc with ⟨rfl, rfl⟩ | ⟨_, hu'⟩
    · exact ⟨t, ht, rfl, rfl⟩
    · exact ⟨uc, hu', rfl, rfl⟩
  refine ⟨hinv.reach, hinv.readers0, ?_, ?_, ?_, ?_⟩
  · rcases hinv.lock with ⟨hw, hnone⟩ | ⟨hw, i0, t0, ht0, hs0, hoth⟩
    · refine Or.inl ⟨hw, ?_⟩
      intro j u hu
      obtain ⟨u', hu', _, hs⟩ := hsrc hu
      rw [hs]; exact hnone j u' hu'
    · refine Or.inr ⟨hw, ?_⟩
      by_cases e : i0 = i
      · subst e
        rw [ht] at ht0; cases ht0
        refine ⟨i0, _, List.getElem?_set_self hi, hs0, ?_⟩
        intro j u hj hu
        rw [List.getElem?_set_ne (fun e => hj e.symm)] at hu
        exact hoth j u hj hu
      · refine ⟨i0, t0, ?_, hs0, ?_⟩
        · rw [List.getElem?_set_ne (fun e' => e e'.symm)]; exact ht0
        · intro j u hj hu
          obtain ⟨u', hu', _, hs⟩ := hsrc hu
          rw [hs]; exact hoth j u' hj hu'
  · intro j u kc x hu hkc
    obtain ⟨u', hu', hh, _⟩ := hsrc hu
    rw [hh] at hkc; exact hinv.live j u' kc x hu' hkc
  · intro a b ua ub ka kb x hua hub hka hkb
    obtain ⟨ua', hua', hha, _⟩ := hsrc hua
    obtain ⟨ub', hub', hhb, _⟩ := hsrc hub
    rw [hha] at hka; rw [hhb] at hkb
    exact hinv.inj a b ua' ub' ka kb x hua' hub' hka hkb
  · intro j u hu
    rcases get_set_cases hi hu with ⟨_, rfl⟩ | ⟨_, hu'⟩
    · obtain ⟨ho, hl, hv⟩ := hinv.sim i t ht
      refine ⟨?_, ?_, ?_⟩
      · simp only [specRun_snoc, specStep]
        rw [ho]
        congr 2
        cases hk : t.handles[k]? with
        | none =>
          have hkl : t.handles.length ≤ k := by
            rcases Nat.lt_or_ge k t.handles.length with h | h
            · rw [List.getElem?_eq_getElem h] at hk; cases hk
            · exact h
          have : (specRun t.done).vals[k]? = none := List.getElem?_eq_none (by omega)
          simp [this]
        | some h => simp [hv k h hk]
      · simp only [specRun_snoc, specStep]; exact hl
      · intro kc x hkc; simp only [specRun_snoc, specStep]; exact hv kc x hkc
    · exact hinv.sim j u hu'

/-! ### every step, every schedule -/

theorem pinv_step {bs : Nat} (hbs : 2 ≤ bs) {s s' : PSt} {i : Nat} (hinv : PInv bs s)
    (h : step bs .exclusive s i = some s') : PInv bs s' := by
  unfold step at h
  cases ht : s.thr[i]? with
  | none => simp [ht] at h
  | some t =>
    simp only [ht] at h
    cases htd : t.todo with
    | nil => simp [htd] at h
    | cons op rest =>
      simp only [htd] at h
      cases op with
      | alloc v =>
        simp only [] at h
        cases hsn : t.snap with
        | none =>
          simp only [hsn] at h
          cases hc : s.mtx.canAcquire .exclusive with
          | false => simp [hc] at h
          | true =>
            simp only [hc, if_true, Option.some.injEq] at h
            subst h; exact pinv_enter hinv ht hc _ ⟨rfl, rfl, rfl⟩ rfl
        | some p =>
          simp only [hsn, Option.some.injEq] at h
          subst h; exact pinv_exit_alloc hbs hinv ht hsn
      | free k =>
        simp only [] at h
        cases hsn : t.snap with
        | none =>
          simp only [hsn] at h
          cases hc : s.mtx.canAcquire .exclusive with
          | false => simp [hc] at h
          | true =>
            simp only [hc, if_true, Option.some.injEq] at h
            subst h; exact pinv_enter hinv ht hc _ ⟨rfl, rfl, rfl⟩ rfl
        | some p =>
          simp only [hsn] at h
          cases hk : t.handles[k]? with
          | none =>
            simp only [hk, Option.some.injEq] at h
            subst h; exact pinv_exit_free_none hinv ht hsn hk
          | some x =>
            simp only [hk, Option.some.injEq] at h
            subst h; exact pinv_exit_free hbs hinv ht hsn hk
      | put k v =>
        simp only [Option.some.injEq] at h
        subst h; exact pinv_put hinv ht
      | get k =>
        simp only [Option.some.injEq] at h
        subst h; exact pinv_get hinv ht

theorem pinv_run {bs : Nat} (hbs : 2 ≤ bs) {s : PSt} (hinv : PInv bs s) :
    ∀ sched, PInv bs (run bs .exclusive s sched)
  | [] => hinv
  | i :: is => by
    simp only [run]
    cases h : step bs .exclusive s i with
    | none => simpa using pinv_run hbs hinv is
    | some s' => simpa using pinv_run hbs (pinv_step hbs hinv h) is

/-! ### progress bookkeeping: `done ++ todo` is the program -/

def Prog (P : List (List POp)) (s : PSt) : Prop :=
  ∀ (i : Nat) (t : PThread), s.thr[i]? = some t → P[i]? = some (t.done ++ t.todo)

theorem prog_init (P : List (List POp)) : Prog P (initSt P) := by
  intro i t h
  simp only [initSt, List.getElem?_map, Option.map_eq_some_iff] at h
  obtain ⟨ops, hp, rfl⟩ := h
  simpa using hp

theorem prog_step {bs : Nat} {mode : LockKind} {P : List (List POp)} {s s' : PSt} {i : Nat} (hp : Prog P s)
    (h : step bs mode s i = some s') : Prog P s' := by
  unfold step at h
  cases ht : s.thr[i]? with
  | none => simp [ht] at h
  | some t =>
    have hi : i < s.thr.length := (List.getElem?_eq_some_iff.mp ht).1
    have hpt := hp i t ht
    simp only [ht] at h
    -- every branch rewrites context `i` only, moving at most the head of `todo` to the end of `done`
    have key : ∀ tnew : PThread, (tnew.done ++ tnew.todo = t.done ++ t.todo) →
        ∀ (j : Nat) (u : PThread), (s.thr.set i tnew)[j]? = some u → P[j]? = some (u.done ++ u.todo) := by
      intro tnew he j u hu
      rcases get_set_cases hi hu with ⟨rfl, rfl⟩ | ⟨_, hu'⟩
      · rw [he]; exact hpt
      · exact hp j u hu'
    cases htd : t.todo with
    | nil => simp [htd] at h
    | cons op rest =>
      simp only [htd] at h
      cases op with
      | alloc v =>
        simp only [] at h
        cases hsn : t.snap with
        | none =>
          simp only [hsn] at h
          cases hc : s.mtx.canAcquire mode with
          | false => simp [hc] at h
          | true =>
            simp only [hc, if_true, Option.some.injEq] at h
            subst h; exact key _ (by simp [htd])
        | some p =>
          simp only [hsn, Option.some.injEq] at h
          subst h; exact key _ (by simp [htd])
      | free k =>
        simp only [] at h
        cases hsn : t.snap with
        | none =>
          simp only [hsn] at h
          cases hc : s.mtx.canAcquire mode with
          | false => simp [hc] at h
          | true =>
            simp only [hc, if_true, Option.some.injEq] at h
            subst h; exact key _ (by simp [htd])
        | some p =>
          simp only [hsn] at h
          cases hk : t.handles[k]? with
          | none =>
            simp only [hk, Option.some.injEq] at h
            subst h; exact key _ (by simp [htd])
          | some x =>
            simp only [hk, Option.some.injEq] at h
            subst h; exact key _ (by simp [htd])
      | put k v =>
        simp only [Option.some.injEq] at h
        subst h; exact key _ (by simp [htd])
      | get k =>
        simp only [Option.some.injEq] at h
        subst h; exact key _ (by simp [htd])

theorem prog_run {bs : Nat} {mode : LockKind} {P : List (List POp)} {s : PSt} (hp : Prog P s) :
    ∀ sched, Prog P (run bs mode s sched)
  | [] => hp
  | i :: is => by
    simp only [run]
    cases h : step bs mode s i with
    | none => simpa using prog_run hp is
    | some s' => simpa using prog_run (prog_step hp h) is

end Morfuse.Conc.Pool
