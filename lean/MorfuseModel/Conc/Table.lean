/-!
# C20 — the tables the translator regenerates, and the decidable obligations over them

`tools/vlib/concgen.py` writes `MorfuseModel/Gen/ConcGen.lean` from the source and the freshly built
object files on every run: one `MethodRow` per `BlockAllocSafe` method, one `GlobalRow` per writable
object with static storage duration.  The obligations below are `Bool` functions so that the check
can discharge each of them by `decide` on the regenerated table; `Props/C20.lean` lifts
`writersExclusive`/`readersLocked` to the semantic statement (no overlapping conflicting critical
sections in any interleaving, for any number of threads).
-/
namespace Morfuse.Conc

/-- how a method takes `BlockAllocSafe::mutex` (a `std::shared_mutex`) around the wrapped call -/
inductive LockKind
  | none        -- no lock at all
  | shared      -- `std::shared_lock` / `lock_shared()`
  | exclusive   -- `std::unique_lock` / `std::lock_guard` / `lock()`
  deriving DecidableEq, Repr, Inhabited

structure MethodRow where
  method : String
  lock : LockKind
  /-- the `BlockAlloc` method it forwards to -/
  wraps : String
  /-- does the wrapped method (transitively) assign pool state? -/
  writes : Bool
  /-- called by the facade `BlockAllocSafe_set` (the only way the engine reaches the pool) -/
  reachable : Bool
  deriving Repr, Inhabited

/-- the reviewed classes of `tools/vlib/conc_globals.json` -/
inductive GClass
  | threadLocal
  | initOnly
  | guarded
  | readOnly
  | racy        -- class `unsafe` of the reviewed file: written after initialisation, unsynchronised
  | unknown     -- not in the reviewed file, or the build contradicts its class
  deriving DecidableEq, Repr, Inhabited

structure GlobalRow where
  name : String
  tls : Bool
  cls : GClass
  deriving Repr, Inhabited

/-- every method that writes pool state holds the mutex exclusively -/
def writersExclusive (t : List MethodRow) : Bool :=
  t.all fun r => !r.writes || r.lock == .exclusive

/-- every method the engine can reach holds the mutex in some mode -/
def readersLocked (t : List MethodRow) : Bool :=
  t.all fun r => !r.reachable || r.lock != .none

/-- the facade reaches at least the two methods the containers need -/
def facadeComplete (t : List MethodRow) : Bool :=
  (t.any fun r => r.method == "Alloc" && r.reachable) && (t.any fun r => r.method == "Free" && r.reachable)

def allClassified (g : List GlobalRow) : Bool := g.all fun r => r.cls != .unknown
def noneRacy (g : List GlobalRow) : Bool := g.all fun r => r.cls != .racy
/-- storage agrees with the class: thread-local exactly when the object file says TLS -/
def tlsConsistent (g : List GlobalRow) : Bool := g.all fun r => r.cls == .unknown || (r.tls == (r.cls == .threadLocal))
/-- at least one pool is guarded (the table (i) obligations would be vacuous otherwise) -/
def someGuarded (g : List GlobalRow) : Bool := g.any fun r => r.cls == .guarded

theorem allClassified_append (a b : List GlobalRow) :
    allClassified (a ++ b) = (allClassified a && allClassified b) := by
  simp [allClassified, List.all_append]

theorem noneRacy_append (a b : List GlobalRow) : noneRacy (a ++ b) = (noneRacy a && noneRacy b) := by
  simp [noneRacy, List.all_append]

theorem tlsConsistent_append (a b : List GlobalRow) :
    tlsConsistent (a ++ b) = (tlsConsistent a && tlsConsistent b) := by
  simp [tlsConsistent, List.all_append]

end Morfuse.Conc
