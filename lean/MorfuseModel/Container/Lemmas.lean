import MorfuseModel.Container.Model
import MorfuseModel.Container.Spec
/-!
# Lemmas for the `con::Container` model

Closed forms of the primitives and loops on buffers of the shape `pre ++ xs.map some ++ post`
(`bufOf vs k = vs.map some ++ raw k` is a well-formed container buffer), then one lemma per member
function: under the representation invariant `WF s vs` it does not fault (except through its stated
guard), re-establishes `WF` for the obvious list, and moves the ledger by as many constructions /
destructions as the list grew / shrank.
-/
namespace Morfuse.Container
variable {α : Type}

@[simp] theorem ok_bind {β γ : Type} (a : β) (f : β → R γ) : (Except.ok a >>= f) = f a := rfl
@[simp] theorem error_bind {β γ : Type} (e : Fault) (f : β → R γ) : ((Except.error e : R β) >>= f) = .error e := rfl

/-! ### primitives at a split point -/

theorem getElem?_mid (pre : Buf α) (x : Option α) (post : Buf α) (i : Nat) (h : i = pre.length) :
    (pre ++ x :: post)[i]? = some x := by
  subst h; simp

theorem set_mid (pre : Buf α) (x y : Option α) (post : Buf α) (i : Nat) (h : i = pre.length) :
    (pre ++ x :: post).set i y = pre ++ y :: post := by
  subst h; simp

theorem bRead_mid (pre : Buf α) (v : α) (post : Buf α) (i : Nat) (h : i = pre.length) :
    bRead (pre ++ some v :: post) i = .ok v := by
  simp [bRead, getElem?_mid _ _ _ _ h]

theorem bConstruct_mid (pre : Buf α) (v : α) (post : Buf α) (i : Nat) (l : Led) (h : i = pre.length) :
    bConstruct (pre ++ none :: post) i v l = .ok (pre ++ some v :: post, { l with ctor := l.ctor + 1 }) := by
  simp [bConstruct, getElem?_mid _ _ _ _ h, set_mid _ _ _ _ _ h]

theorem bDestroy_mid (pre : Buf α) (v : α) (post : Buf α) (i : Nat) (l : Led) (h : i = pre.length) :
    bDestroy (pre ++ some v :: post) i l = .ok (pre ++ none :: post, { l with dtor := l.dtor + 1 }) := by
  simp [bDestroy, getElem?_mid _ _ _ _ h, set_mid _ _ _ _ _ h]

theorem bAssign_mid (pre : Buf α) (x v : α) (post : Buf α) (i : Nat) (h : i = pre.length) :
    bAssign (pre ++ some x :: post) i v = .ok (pre ++ some v :: post) := by
  simp [bAssign, getElem?_mid _ _ _ _ h, set_mid _ _ _ _ _ h]

theorem raw_succ (n : Nat) : (raw (n + 1) : Buf α) = none :: raw n := by
  simp [raw, List.replicate_succ]

theorem raw_add (m n : Nat) : (raw (m + n) : Buf α) = raw m ++ raw n := by
  simp [raw, List.replicate_append_replicate]

theorem raw_succ' (n : Nat) : (raw (n + 1) : Buf α) = raw n ++ [none] := by
  rw [raw_add]; simp [raw]

@[simp] theorem raw_zero : (raw 0 : Buf α) = [] := rfl
@[simp] theorem length_raw (n : Nat) : (raw n : Buf α).length = n := by simp [raw]

/-! ### loops -/

theorem destroyLoop_spec (xs : List α) : ∀ (pre post : Buf α) (i : Nat) (l : Led), i = pre.length →
    destroyLoop xs.length i (pre ++ xs.map some ++ post) l =
      .ok (pre ++ raw xs.length ++ post, { l with dtor := l.dtor + xs.length }) := by
  induction xs with
  | nil => intro pre post i l _; simp [destroyLoop]
  | cons x xs ih =>
    intro pre post i l h
    simp only [List.length_cons, destroyLoop, List.map_cons, List.append_assoc, List.cons_append]
    rw [bDestroy_mid _ _ _ _ _ h]
    simp only [bind, Except.bind]
    have := ih (pre ++ [none]) post (i + 1) { l with dtor := l.dtor + 1 } (by simp [h])
    simp only [List.append_assoc, List.cons_append, List.nil_append] at this
    rw [this, raw_succ]
    simp [Nat.add_assoc, Nat.add_comm 1]

theorem defaultLoop_spec [Inhabited α] : ∀ (k : Nat) (pre post : Buf α) (i : Nat) (l : Led), i = pre.length →
    defaultLoop k i (pre ++ raw k ++ post) l =
      .ok (pre ++ (List.replicate k (default : α)).map some ++ post, { l with ctor := l.ctor + k }) := by
  intro k
  induction k with
  | zero => intro pre post i l _; simp [defaultLoop]
  | succ k ih =>
    intro pre post i l h
    simp only [defaultLoop, raw_succ, List.append_assoc, List.cons_append]
    rw [bConstruct_mid _ _ _ _ _ h]
    simp only [bind, Except.bind]
    have := ih (pre ++ [some default]) post (i + 1) { l with ctor := l.ctor + 1 } (by simp [h])
    simp only [List.append_assoc, List.cons_append, List.nil_append] at this
    rw [this]
    simp [List.replicate_succ, Nat.add_assoc, Nat.add_comm 1]

theorem moveLoop_spec (off : Nat) (xs : List α) : ∀ (pre post pre' post' : Buf α) (i : Nat) (l : Led),
    i = pre.length → i + off = pre'.length →
    moveLoop off xs.length i (pre ++ xs.map some ++ post) (pre' ++ raw xs.length ++ post') l =
      .ok (pre ++ raw xs.length ++ post, pre' ++ xs.map some ++ post',
           { ctor := l.ctor + xs.length, dtor := l.dtor + xs.length }) := by
  induction xs with
  | nil => intro pre post pre' post' i l _ _; simp [moveLoop]
  | cons x xs ih =>
    intro pre post pre' post' i l h h'
    simp only [List.length_cons, moveLoop, List.map_cons, List.append_assoc, List.cons_append, raw_succ]
    rw [bRead_mid _ _ _ _ h]
    simp only [bind, Except.bind]
    rw [bConstruct_mid _ _ _ _ _ h']
    simp only
    rw [bDestroy_mid _ _ _ _ _ h]
    simp only
    have := ih (pre ++ [none]) post (pre' ++ [some x]) post' (i + 1)
      { ctor := l.ctor + 1, dtor := l.dtor + 1 } (by simp [h]) (by simp [← h']; omega)
    simp only [List.append_assoc, List.cons_append, List.nil_append] at this
    rw [this]
    simp [Nat.add_assoc, Nat.add_comm 1]

theorem copyLoop_spec (xs : List α) : ∀ (pre post pre' post' : Buf α) (i : Nat) (l : Led),
    i = pre.length → i = pre'.length →
    copyLoop xs.length i (pre ++ xs.map some ++ post) (pre' ++ raw xs.length ++ post') l =
      .ok (pre' ++ xs.map some ++ post', { l with ctor := l.ctor + xs.length }) := by
  induction xs with
  | nil => intro pre post pre' post' i l _ _; simp [copyLoop]
  | cons x xs ih =>
    intro pre post pre' post' i l h h'
    simp only [List.length_cons, copyLoop, List.map_cons, List.append_assoc, List.cons_append, raw_succ]
    rw [bRead_mid _ _ _ _ h]
    simp only [bind, Except.bind]
    rw [bConstruct_mid _ _ _ _ _ h']
    simp only
    have := ih (pre ++ [some x]) post (pre' ++ [some x]) post' (i + 1)
      { l with ctor := l.ctor + 1 } (by simp [h]) (by simp [h'])
    simp only [List.append_assoc, List.cons_append, List.nil_append, List.map_cons] at this
    rw [this]
    simp [Nat.add_assoc, Nat.add_comm 1]

/-- after `shiftDown` over `y :: ys` the slots hold `ys` followed by the (moved-from) last element -/
theorem shiftDown_spec (ys : List α) : ∀ (y : α) (pre post : Buf α) (i : Nat), i = pre.length →
    shiftDown ys.length i (pre ++ (y :: ys).map some ++ post) =
      .ok (pre ++ (ys ++ [(y :: ys).getLast (by simp)]).map some ++ post) := by
  induction ys with
  | nil => intro y pre post i _; simp [shiftDown]
  | cons z zs ih =>
    intro y pre post i h
    simp only [List.length_cons, shiftDown, List.map_cons, List.append_assoc, List.cons_append]
    have h1 : bRead (pre ++ some y :: some z :: (zs.map some ++ post)) (i + 1) = .ok z := by
      have := bRead_mid (pre ++ [some y]) z (zs.map some ++ post) (i + 1) (by simp [h])
      simpa using this
    rw [h1]
    simp only [bind, Except.bind]
    rw [bAssign_mid _ _ _ _ _ h]
    simp only
    have := ih z (pre ++ [some z]) post (i + 1) (by simp [h])
    simp only [List.map_cons, List.append_assoc, List.cons_append, List.nil_append] at this
    rw [this]
    simp [List.getLast_cons]

/-- after `shiftUp` over `ws` (one more slot than iterations) the slots hold `ws.head :: ws.dropLast` -/
theorem shiftUp_spec : ∀ (k : Nat) (ws : List α) (w : α) (pre post : Buf α) (lo : Nat), lo = pre.length →
    ws.length = k →
    shiftUp k lo (pre ++ (w :: ws).map some ++ post) =
      .ok (pre ++ (w :: (w :: ws).dropLast).map some ++ post) := by
  intro k
  induction k with
  | zero =>
    intro ws w pre post lo _ hk
    have : ws = [] := List.eq_nil_of_length_eq_zero hk
    subst this; simp [shiftUp]
  | succ k ih =>
    intro ws w pre post lo h hk
    -- ws = ws' ++ [z]
    obtain ⟨ws', z, rfl⟩ : ∃ ws' z, ws = ws' ++ [z] := by
      have hne : ws ≠ [] := by intro e; subst e; simp at hk
      exact ⟨ws.dropLast, ws.getLast hne, (List.dropLast_concat_getLast hne).symm⟩
    have hk' : ws'.length = k := by simpa using hk
    simp only [shiftUp]
    -- the element read is the last of `w :: ws'`
    obtain ⟨us, u, hu⟩ : ∃ us u, w :: ws' = us ++ [u] :=
      ⟨(w :: ws').dropLast, (w :: ws').getLast (by simp), (List.dropLast_concat_getLast (by simp)).symm⟩
    have hul : us.length = k := by
      have := congrArg List.length hu; simp [hk'] at this; omega
    have e1 : pre ++ (w :: (ws' ++ [z])).map some ++ post
        = (pre ++ us.map some) ++ some u :: (some z :: post) := by
      rw [← List.cons_append, hu]; simp
    rw [e1, bRead_mid _ _ _ _ (by simp [h, hul])]
    simp only [bind, Except.bind]
    have e2 : (pre ++ us.map some) ++ some u :: (some z :: post)
        = (pre ++ us.map some ++ [some u]) ++ some z :: post := by simp
    rw [e2, bAssign_mid _ _ _ _ _ (by simp [h, hul]; omega)]
    simp only
    have e3 : (pre ++ us.map some ++ [some u]) ++ some u :: post
        = pre ++ (w :: ws').map some ++ (some u :: post) := by
      rw [hu]; simp
    rw [e3, ih ws' w pre (some u :: post) lo h hk']
    congr 1
    have hd : (w :: (ws' ++ [z])).dropLast = w :: ws' := by
      rw [← List.cons_append, List.dropLast_concat]
    rw [hd]
    have : (w :: ws').dropLast ++ [u] = w :: ws' := by
      rw [hu]; simp
    have e4 : (w :: (w :: ws').dropLast).map some ++ (some u :: post)
        = (w :: ((w :: ws').dropLast ++ [u])).map some ++ post := by simp
    rw [List.append_assoc, e4, this]
    simp

theorem findLoop_spec [DecidableEq α] (v : α) (xs : List α) : ∀ (pre post : Buf α) (i : Nat), i = pre.length →
    findLoop (pre ++ xs.map some ++ post) v xs.length i =
      .ok (if v ∈ xs then i + xs.idxOf v + 1 else 0) := by
  induction xs with
  | nil => intro pre post i _; simp [findLoop]
  | cons x xs ih =>
    intro pre post i h
    simp only [List.length_cons, findLoop, List.map_cons, List.append_assoc, List.cons_append]
    rw [bRead_mid _ _ _ _ h]
    simp only [bind, Except.bind]
    by_cases hx : x = v
    · subst hx; simp
    · have := ih (pre ++ [some x]) post (i + 1) (by simp [h])
      simp only [List.append_assoc, List.cons_append, List.nil_append] at this
      rw [if_neg hx, this]
      have hv : v ≠ x := fun e => hx e.symm
      have hb : (x == v) = false := by simp [hx]
      simp only [List.mem_cons, hv, false_or, List.idxOf_cons, hb, cond_false]
      split
      · simp; omega
      · rfl

end Morfuse.Container

namespace Morfuse.Container
variable {α : Type}

/-! ### normal forms of a well-formed container -/

/-- the buffer of a container that holds `vs` and has `k` unused slots -/
def bufOf (vs : List α) (k : Nat) : Buf α := vs.map some ++ raw k

/-- a container with a buffer: holds `vs`, capacity `m` -/
def mk (vs : List α) (m : Nat) (l : Led) : Cs α :=
  { objlist := some (bufOf vs (m - vs.length)), num := vs.length, max := m, led := l }

/-- a container without a buffer -/
def mk0 (l : Led) : Cs α := { objlist := none, num := 0, max := 0, led := l }

/-- representation invariant: `s` holds exactly the elements `vs` -/
def WF (s : Cs α) (vs : List α) : Prop :=
  (∃ l, s = mk0 l ∧ vs = []) ∨ (∃ m l, s = mk vs m l ∧ vs.length ≤ m ∧ 0 < m)

/-- the live objects in the container's storage, in storage order -/
def contents (s : Cs α) : List α := (s.objlist.getD []).filterMap id

theorem contents_bufOf (vs : List α) (k : Nat) : (bufOf vs k).filterMap id = vs := by
  simp [bufOf, raw, List.filterMap_append]

theorem WF.contents {s : Cs α} {vs : List α} (h : WF s vs) : contents s = vs := by
  rcases h with ⟨l, rfl, rfl⟩ | ⟨m, l, rfl, _, _⟩
  · simp [Morfuse.Container.contents, mk0]
  · simp [Morfuse.Container.contents, mk, contents_bufOf]

theorem WF.num {s : Cs α} {vs : List α} (h : WF s vs) : s.num = vs.length := by
  rcases h with ⟨l, rfl, rfl⟩ | ⟨m, l, rfl, _, _⟩ <;> simp [mk0, mk]

theorem WF.le {s : Cs α} {vs : List α} (h : WF s vs) : s.num ≤ s.max := by
  rcases h with ⟨l, rfl, rfl⟩ | ⟨m, l, rfl, hle, _⟩ <;> simp [mk0, mk]; exact hle

theorem wf_mk0 (l : Led) : WF (mk0 l : Cs α) [] := Or.inl ⟨l, rfl, rfl⟩
theorem wf_mk (vs : List α) (m : Nat) (l : Led) (h : vs.length ≤ m) (hm : 0 < m) : WF (mk vs m l) vs :=
  Or.inr ⟨m, l, rfl, h, hm⟩

theorem bufOf_split (vs : List α) (k : Nat) (h : 0 < k) :
    bufOf vs k = vs.map some ++ none :: raw (k - 1) := by
  obtain ⟨k', rfl⟩ : ∃ k', k = k' + 1 := ⟨k - 1, by omega⟩
  simp [bufOf, raw_succ]

theorem bufOf_snoc (vs : List α) (v : α) (k : Nat) :
    vs.map some ++ some v :: raw k = bufOf (vs ++ [v]) k := by
  simp [bufOf]

theorem length_bufOf (vs : List α) (k : Nat) : (bufOf vs k).length = vs.length + k := by
  simp [bufOf]

/-- placement-new into the first unused slot -/
theorem construct_mk (vs : List α) (v : α) (m : Nat) (l : Led) (h : vs.length < m) :
    bConstruct (bufOf vs (m - vs.length)) vs.length v l =
      .ok (bufOf (vs ++ [v]) (m - (vs ++ [v]).length), { l with ctor := l.ctor + 1 }) := by
  rw [bufOf_split _ _ (by omega), bConstruct_mid _ _ _ _ _ (by simp), bufOf_snoc]
  simp; rfl

/-! ### FreeObjectList / ClearObjectList / Resize / Shrink -/

theorem free_mk0 (l : Led) : freeObjectList (mk0 l : Cs α) = .ok (mk0 l) := rfl

theorem free_mk (vs : List α) (m : Nat) (l : Led) :
    freeObjectList (mk vs m l) = .ok (mk0 { l with dtor := l.dtor + vs.length }) := by
  have := destroyLoop_spec vs [] (raw (m - vs.length)) 0 l rfl
  simp only [List.nil_append] at this
  simp [freeObjectList, mk, bufOf, this, mk0, bind, Except.bind]

theorem clear_mk0 (l : Led) : clearObjectList (mk0 l : Cs α) = .ok (mk0 l) := rfl

theorem clear_mk (vs : List α) (m : Nat) (l : Led) (h : vs.length ≤ m) :
    clearObjectList (mk vs m l) = .ok (mk [] m { l with dtor := l.dtor + vs.length }) := by
  have := destroyLoop_spec vs [] (raw (m - vs.length)) 0 l rfl
  simp only [List.nil_append] at this
  by_cases hv : vs = []
  · subst hv; simp [clearObjectList, mk]
  · have hl : vs.length ≠ 0 := by simpa using hv
    have hr : raw vs.length ++ raw (m - vs.length) = (raw m : Buf α) := by
      rw [← raw_add]; congr 1; omega
    simp [clearObjectList, mk, bufOf, this, hl, bind, Except.bind, hr]

theorem resize_zero (s : Cs α) : resize s 0 = freeObjectList s := by simp [resize]

theorem resize_mk0 (l : Led) (n : Nat) (hn : 0 < n) : resize (mk0 l : Cs α) n = .ok (mk [] n l) := by
  have : n ≠ 0 := by omega
  simp [resize, this, mk0, mk, bufOf]

theorem resize_mk (vs : List α) (m : Nat) (l : Led) (n : Nat) (hn : 0 < n) :
    resize (mk vs m l) n = .ok (mk vs (if n < vs.length then vs.length else n)
      { ctor := l.ctor + vs.length, dtor := l.dtor + vs.length }) := by
  have hn' : n ≠ 0 := by omega
  let m' := if n < vs.length then vs.length else n
  have hm' : vs.length ≤ m' := by simp only [m']; split <;> omega
  have hr : (raw m' : Buf α) = raw vs.length ++ raw (m' - vs.length) := by
    rw [← raw_add]; congr 1; omega
  have := moveLoop_spec 0 vs [] (raw (m - vs.length)) [] (raw (m' - vs.length)) 0 l rfl rfl
  simp only [List.nil_append] at this
  simp only [resize, hn', if_false, mk, bufOf]
  show (do
    let (_, new, l') ← moveLoop 0 vs.length 0 (vs.map some ++ raw (m - vs.length)) (raw m') l
    Except.ok ({ objlist := some new, num := vs.length, max := m', led := l' } : Cs α)) = _
  rw [hr, this]
  rfl

theorem shrink_mk0 (l : Led) : shrink (mk0 l : Cs α) = .ok (mk0 l) := rfl

theorem shrink_mk (vs : List α) (m : Nat) (l : Led) (hv : vs ≠ []) :
    shrink (mk vs m l) = .ok (mk vs vs.length { ctor := l.ctor + vs.length, dtor := l.dtor + vs.length }) := by
  have hl : vs.length ≠ 0 := by simpa using hv
  have := moveLoop_spec 0 vs [] (raw (m - vs.length)) [] [] 0 l rfl rfl
  simp only [List.nil_append, List.append_nil] at this
  simp [shrink, mk, bufOf, hl, this, bind, Except.bind]

theorem shrink_mk_nil (m : Nat) (l : Led) : shrink (mk ([] : List α) m l) = .ok (mk [] m l) := by
  simp [shrink, mk]

end Morfuse.Container

namespace Morfuse.Container
variable {α : Type}

/-! ### AddObject / AddObject() / operator new -/

theorem onBuf_mk (vs : List α) (m : Nat) (l : Led) : onBuf (mk vs m l) = .ok (bufOf vs (m - vs.length)) := rfl

theorem addObject_mk0 (l : Led) (v : α) :
    addObject (mk0 l : Cs α) v = .ok (mk [v] 2 { l with ctor := l.ctor + 1 }, 1) := by
  have h := construct_mk ([] : List α) v 2 l (by simp)
  simp only [addObject, mk0, ge_iff_le, Nat.le_refl, if_true, bind, Except.bind]
  have hr := resize_mk0 (α := α) l 2 (by omega)
  simp only [mk0] at hr
  simp only [Nat.zero_add, Nat.reduceMul, hr, mk, onBuf]
  simp only [List.length_nil, Nat.sub_zero] at h ⊢
  rw [h]; rfl

theorem addObject_mk_full (vs : List α) (l : Led) (v : α) (m : Nat) (hm : m = vs.length) (hpos : 0 < m) :
    addObject (mk vs m l) v =
      .ok (mk (vs ++ [v]) ((vs.length + 1) * 2) { ctor := l.ctor + vs.length + 1, dtor := l.dtor + vs.length },
           vs.length + 1) := by
  subst hm
  have hr := resize_mk vs vs.length l ((vs.length + 1) * 2) (by omega)
  have hlt : ¬ (vs.length + 1) * 2 < vs.length := by omega
  simp only [hlt, if_false] at hr
  have hc := construct_mk vs v ((vs.length + 1) * 2)
    { ctor := l.ctor + vs.length, dtor := l.dtor + vs.length } (by omega)
  simp only [addObject, bind, Except.bind]
  have e : (mk vs vs.length l).num ≥ (mk vs vs.length l).max := by simp [mk]
  rw [if_pos e]
  have e2 : (mk vs vs.length l).num = vs.length := rfl
  rw [e2, hr]
  simp only [onBuf_mk]
  have e3 : (mk vs ((vs.length + 1) * 2) { ctor := l.ctor + vs.length, dtor := l.dtor + vs.length } : Cs α).num
      = vs.length := rfl
  have e4 : (mk vs ((vs.length + 1) * 2) { ctor := l.ctor + vs.length, dtor := l.dtor + vs.length } : Cs α).led
      = { ctor := l.ctor + vs.length, dtor := l.dtor + vs.length } := rfl
  rw [e3, e4, hc]
  simp [mk]

theorem addObject_mk_room (vs : List α) (m : Nat) (l : Led) (v : α) (h : vs.length < m) :
    addObject (mk vs m l) v = .ok (mk (vs ++ [v]) m { l with ctor := l.ctor + 1 }, vs.length + 1) := by
  have hc := construct_mk vs v m l h
  simp only [addObject, bind, Except.bind]
  have e : ¬ (mk vs m l).num ≥ (mk vs m l).max := by simp [mk]; omega
  rw [if_neg e]
  simp only [onBuf_mk]
  have e3 : (mk vs m l).num = vs.length := rfl
  have e4 : (mk vs m l).led = l := rfl
  rw [e3, e4, hc]
  simp [mk]

/-- what `AddObject(v)` does to the capacity and the ledger -/
def addCap (n m : Nat) : Nat := if n ≥ m then (n + 1) * 2 else m
def addLed (n m : Nat) (l : Led) : Led :=
  if n ≥ m then { ctor := l.ctor + n + 1, dtor := l.dtor + n } else { l with ctor := l.ctor + 1 }

theorem addObject_wf {s : Cs α} {vs : List α} (h : WF s vs) (v : α) :
    ∃ s', addObject s v = .ok (s', vs.length + 1) ∧ WF s' (vs ++ [v]) ∧
      s'.led = addLed vs.length s.max s.led := by
  rcases h with ⟨l, rfl, rfl⟩ | ⟨m, l, rfl, hle, hpos⟩
  · exact ⟨_, addObject_mk0 l v, wf_mk _ _ _ (by simp) (by omega), by simp [addLed, mk0, mk]⟩
  · by_cases hf : vs.length < m
    · refine ⟨_, addObject_mk_room vs m l v hf, wf_mk _ _ _ (by simp; omega) hpos, ?_⟩
      have : ¬ vs.length ≥ m := by omega
      simp [addLed, mk, this]
    · have hm : m = vs.length := by omega
      refine ⟨_, addObject_mk_full vs l v m hm hpos, wf_mk _ _ _ (by simp; omega) (by omega), ?_⟩
      simp [addLed, mk, hm]

theorem addUninit_mk0 (l : Led) :
    addObjectUninitialized (mk0 l : Cs α) =
      .ok ({ objlist := some (bufOf [] 10), num := 1, max := 10, led := l }, 1) := by
  have hr := resize_mk0 (α := α) l 10 (by omega)
  simp only [addObjectUninitialized, mk0, Option.isNone_none, if_true, bind, Except.bind] at hr ⊢
  rw [hr]
  simp [mk]

theorem addUninit_mk (vs : List α) (m : Nat) (l : Led) (hle : vs.length ≤ m) (hpos : 0 < m) :
    addObjectUninitialized (mk vs m l) =
      .ok ({ objlist := some (bufOf vs ((if vs.length ≥ m then vs.length * 2 else m) - vs.length)),
             num := vs.length + 1, max := if vs.length ≥ m then vs.length * 2 else m,
             led := if vs.length ≥ m then { ctor := l.ctor + vs.length, dtor := l.dtor + vs.length } else l },
           vs.length + 1) := by
  simp only [addObjectUninitialized, bind, Except.bind]
  have e0 : (mk vs m l).objlist.isNone = false := rfl
  simp only [e0, Bool.false_eq_true, if_false]
  have e1 : (mk vs m l).num = vs.length := rfl
  have e2 : (mk vs m l).max = m := rfl
  rw [e1, e2]
  by_cases hf : vs.length ≥ m
  · have hm : m = vs.length := by omega
    subst hm
    have hr := resize_mk vs vs.length l (vs.length * 2) (by omega)
    have hlt : ¬ vs.length * 2 < vs.length := by omega
    simp only [hlt, if_false] at hr
    simp only [hf, if_true, hr]
    simp [mk]
  · simp only [hf, if_false]
    simp [mk]

/-- `AddObject()` and `new (c) Type(v)` share everything but the value and the return value -/
theorem addSlot_wf {s : Cs α} {vs : List α} (h : WF s vs) (v : α) :
    ∃ s' b, addObjectUninitialized s = .ok (s', vs.length + 1) ∧ onBuf s' = .ok b ∧
      bConstruct b vs.length v s'.led =
        .ok (bufOf (vs ++ [v]) (s'.max - (vs.length + 1)), { s'.led with ctor := s'.led.ctor + 1 }) ∧
      vs.length + 1 ≤ s'.max ∧ s'.num = vs.length + 1 ∧
      s'.led.ctor + s.led.dtor = s.led.ctor + s'.led.dtor := by
  rcases h with ⟨l, rfl, rfl⟩ | ⟨m, l, rfl, hle, hpos⟩
  · refine ⟨_, _, addUninit_mk0 l, rfl, ?_, by simp, rfl, ?_⟩
    · have := construct_mk ([] : List α) v 10 l (by simp)
      simpa using this
    · simp [mk0]
  · refine ⟨_, _, addUninit_mk vs m l hle hpos, rfl, ?_, ?_, rfl, ?_⟩
    · have hc := construct_mk vs v (if vs.length ≥ m then vs.length * 2 else m)
        (if vs.length ≥ m then { ctor := l.ctor + vs.length, dtor := l.dtor + vs.length } else l)
        (by split <;> omega)
      simpa using hc
    · simp only; split <;> omega
    · simp only [mk]; split <;> simp <;> omega

theorem addDefault_wf [Inhabited α] {s : Cs α} {vs : List α} (h : WF s vs) :
    ∃ s', addDefault s = .ok (s', vs.length) ∧ WF s' (vs ++ [default]) ∧
      s'.led.ctor + s.led.dtor = s.led.ctor + 1 + s'.led.dtor := by
  obtain ⟨s1, b, h1, h2, h3, h4, h5, h6⟩ := addSlot_wf h (default : α)
  refine ⟨{ s1 with objlist := some (bufOf (vs ++ [default]) (s1.max - (vs.length + 1))),
                    led := { s1.led with ctor := s1.led.ctor + 1 } }, ?_, ?_, by simp; omega⟩
  · simp [addDefault, h1, h2, h3, bind, Except.bind]
  · refine Or.inr ⟨s1.max, { s1.led with ctor := s1.led.ctor + 1 }, ?_, by simpa using h4, by omega⟩
    cases s1; simp_all [mk]

theorem newIn_wf {s : Cs α} {vs : List α} (h : WF s vs) (v : α) :
    ∃ s', newIn s v = .ok s' ∧ WF s' (vs ++ [v]) ∧
      s'.led.ctor + s.led.dtor = s.led.ctor + 1 + s'.led.dtor := by
  obtain ⟨s1, b, h1, h2, h3, h4, h5, h6⟩ := addSlot_wf h v
  refine ⟨{ s1 with objlist := some (bufOf (vs ++ [v]) (s1.max - (vs.length + 1))),
                    led := { s1.led with ctor := s1.led.ctor + 1 } }, ?_, ?_, by simp; omega⟩
  · simp [newIn, h1, h2, h3, bind, Except.bind]
  · refine Or.inr ⟨s1.max, { s1.led with ctor := s1.led.ctor + 1 }, ?_, by simpa using h4, by omega⟩
    cases s1; simp_all [mk]

end Morfuse.Container

namespace Morfuse.Container
variable {α : Type}

/-! ### lookups -/

theorem indexOf_wf [DecidableEq α] {s : Cs α} {vs : List α} (h : WF s vs) (v : α) :
    indexOfObject s v = .ok (posOf vs v) := by
  rcases h with ⟨l, rfl, rfl⟩ | ⟨m, l, rfl, hle, hpos⟩
  · simp [indexOfObject, mk0, posOf]
  · have := findLoop_spec v vs [] (raw (m - vs.length)) 0 rfl
    simp only [List.nil_append, Nat.zero_add] at this
    simp [indexOfObject, mk, bufOf, this, posOf]

theorem bufOf_get_lt (vs : List α) (k i : Nat) (h : i < vs.length) :
    (bufOf vs k)[i]? = some (some vs[i]) := by
  simp [bufOf, List.getElem?_append_left, h]

theorem bufOf_get_ge (vs : List α) (k i : Nat) (h : vs.length ≤ i) :
    (bufOf vs k)[i]? = if i < vs.length + k then some none else none := by
  simp only [bufOf]
  rw [List.getElem?_append_right (by simpa using h)]
  simp only [List.length_map, raw]
  split
  · rw [List.getElem?_replicate]; simp; omega
  · rw [List.getElem?_replicate]; simp; omega

theorem objectAt_ok {s : Cs α} {vs : List α} (h : WF s vs) (i : Nat) (h1 : 0 < i) (h2 : i ≤ vs.length) :
    objectAt s i = .ok (vs[i - 1]'(by omega)) := by
  rcases h with ⟨l, rfl, rfl⟩ | ⟨m, l, rfl, hle, hpos⟩
  · simp at h2; omega
  · have hi : i ≠ 0 := by omega
    simp [objectAt, hi, onBuf_mk, bRead, bufOf_get_lt vs _ (i - 1) (by omega), bind, Except.bind]

theorem objectAt_ub {s : Cs α} {vs : List α} (h : WF s vs) (i : Nat) (hi : i = 0 ∨ vs.length < i) :
    ∃ f, objectAt s i = .error f := by
  rcases h with ⟨l, rfl, rfl⟩ | ⟨m, l, rfl, hle, hpos⟩
  · by_cases h0 : i = 0
    · exact ⟨.oob, by simp [objectAt, h0]⟩
    · exact ⟨.oob, by simp [objectAt, h0, onBuf, mk0, bind, Except.bind]⟩
  · by_cases h0 : i = 0
    · exact ⟨.oob, by simp [objectAt, h0]⟩
    · have hlt : vs.length ≤ i - 1 := by omega
      by_cases hc : i - 1 < vs.length + (m - vs.length)
      · exact ⟨.rawRead, by simp [objectAt, h0, onBuf_mk, bind, Except.bind, bRead, bufOf_get_ge vs _ _ hlt, hc]⟩
      · exact ⟨.oob, by simp [objectAt, h0, onBuf_mk, bind, Except.bind, bRead, bufOf_get_ge vs _ _ hlt, hc]⟩

theorem setObjectAt_ok {s : Cs α} {vs : List α} (h : WF s vs) (i : Nat) (v : α) (h1 : 0 < i) (h2 : i ≤ vs.length) :
    ∃ s', setObjectAt s i v = .ok s' ∧ WF s' (vs.set (i - 1) v) ∧ s'.led = s.led ∧ s'.max = s.max := by
  rcases h with ⟨l, rfl, rfl⟩ | ⟨m, l, rfl, hle, hpos⟩
  · simp at h2; omega
  · have hi : i ≠ 0 := by omega
    refine ⟨mk (vs.set (i - 1) v) m l, ?_, wf_mk _ _ _ (by simpa using hle) hpos, rfl, rfl⟩
    have hg := bufOf_get_lt vs (m - vs.length) (i - 1) (by omega)
    simp only [setObjectAt, hi, if_false, onBuf_mk, bind, Except.bind, bAssign, hg]
    simp only [mk, List.length_set, bufOf]
    congr 2
    rw [List.set_append_left _ _ (by simp; omega), List.map_set]

theorem setObjectAt_ub {s : Cs α} {vs : List α} (h : WF s vs) (i : Nat) (v : α) (hi : i = 0 ∨ vs.length < i) :
    ∃ f, setObjectAt s i v = .error f := by
  rcases h with ⟨l, rfl, rfl⟩ | ⟨m, l, rfl, hle, hpos⟩
  · by_cases h0 : i = 0
    · exact ⟨.oob, by simp [setObjectAt, h0]⟩
    · exact ⟨.oob, by simp [setObjectAt, h0, onBuf, mk0, bind, Except.bind]⟩
  · by_cases h0 : i = 0
    · exact ⟨.oob, by simp [setObjectAt, h0]⟩
    · have hlt : vs.length ≤ i - 1 := by omega
      by_cases hc : i - 1 < vs.length + (m - vs.length)
      · exact ⟨.rawAssign, by simp [setObjectAt, h0, onBuf_mk, bind, Except.bind, bAssign, bufOf_get_ge vs _ _ hlt, hc]⟩
      · exact ⟨.oob, by simp [setObjectAt, h0, onBuf_mk, bind, Except.bind, bAssign, bufOf_get_ge vs _ _ hlt, hc]⟩

theorem addUnique_wf [DecidableEq α] {s : Cs α} {vs : List α} (h : WF s vs) (v : α) :
    ∃ s', addUniqueObject s v = .ok (s', if v ∈ vs then posOf vs v else vs.length + 1) ∧
      WF s' (if v ∈ vs then vs else vs ++ [v]) ∧
      s'.led.ctor + s.led.dtor + vs.length = s.led.ctor + s'.led.dtor + (if v ∈ vs then vs else vs ++ [v]).length := by
  by_cases hv : v ∈ vs
  · refine ⟨s, ?_, by simpa [hv] using h, by simp [hv]⟩
    have hp : posOf vs v ≠ 0 := by simp [posOf, hv]
    simp [addUniqueObject, indexOf_wf h, hv, hp, bind, Except.bind]
  · obtain ⟨s', h1, h2, h3⟩ := addObject_wf h v
    refine ⟨s', ?_, by simpa [hv] using h2, ?_⟩
    · have hp : posOf vs v = 0 := by simp [posOf, hv]
      simp [addUniqueObject, indexOf_wf h, hv, hp, h1, bind, Except.bind]
    · simp only [hv, if_false, List.length_append, List.length_singleton, h3, addLed]
      split <;> simp <;> omega

end Morfuse.Container
