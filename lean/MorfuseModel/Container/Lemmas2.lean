import MorfuseModel.Container.Lemmas
/-!
# Lemmas for the `con::Container` model, part 2:
`AddObjectAt`, `RemoveObjectAt`, `RemoveObject`, `SetNumObjects`, `InsertObjectAt`, `Copy`, `AddObject(ObjectAt(i))`
-/
namespace Morfuse.Container
variable {α : Type}

/-- ledger balance between two states of one container object whose list went from `n` to `n'` elements -/
def Bal (s s' : Cs α) (n n' : Nat) : Prop :=
  s'.led.ctor + s.led.dtor + n = s.led.ctor + s'.led.dtor + n'

theorem resize_wf {s : Cs α} {vs : List α} (h : WF s vs) (n : Nat) (hn : 0 < n) :
    ∃ l', resize s n = .ok (mk vs (if n < vs.length then vs.length else n) l') ∧
      l'.ctor + s.led.dtor = s.led.ctor + l'.dtor := by
  rcases h with ⟨l, rfl, rfl⟩ | ⟨m, l, rfl, hle, hpos⟩
  · refine ⟨l, ?_, by simp [mk0]⟩
    have : ¬ n < 0 := by omega
    simpa using resize_mk0 (α := α) l n hn
  · exact ⟨_, resize_mk vs m l n hn, by simp [mk]; omega⟩

theorem defaultLoop_mk [Inhabited α] (vs : List α) (m k : Nat) (l : Led) (h : vs.length + k ≤ m) :
    defaultLoop k vs.length (bufOf vs (m - vs.length)) l =
      .ok (bufOf (vs ++ List.replicate k default) (m - (vs.length + k)), { l with ctor := l.ctor + k }) := by
  have hs : (raw (m - vs.length) : Buf α) = raw k ++ raw (m - (vs.length + k)) := by
    rw [← raw_add]; congr 1; omega
  have := defaultLoop_spec (α := α) k (vs.map some) (raw (m - (vs.length + k))) vs.length l (by simp)
  simp only [bufOf, hs, ← List.append_assoc] at this ⊢
  rw [this]
  simp [List.append_assoc]

theorem destroyLoop_mk (vs : List α) (m n : Nat) (l : Led) (hn : n ≤ vs.length) (hm : vs.length ≤ m) :
    destroyLoop (vs.length - n) n (bufOf vs (m - vs.length)) l =
      .ok (bufOf (vs.take n) (m - (vs.take n).length), { l with dtor := l.dtor + (vs.length - n) }) := by
  have hv : vs = vs.take n ++ vs.drop n := (List.take_append_drop n vs).symm
  have hl : (vs.drop n).length = vs.length - n := by simp
  have := destroyLoop_spec (vs.drop n) ((vs.take n).map some) (raw (m - vs.length)) n l (by simp; omega)
  rw [hl] at this
  have e : bufOf vs (m - vs.length) = (vs.take n).map some ++ (vs.drop n).map some ++ raw (m - vs.length) := by
    conv => lhs; rw [hv]
    simp [bufOf]
  rw [e, this]
  have : (raw (vs.length - n) : Buf α) ++ raw (m - vs.length) = raw (m - (vs.take n).length) := by
    rw [← raw_add]; congr 1; simp; omega
  simp [bufOf, List.append_assoc, this]

/-! ### growTo / fillTo / cutTo, AddObjectAt, SetNumObjects -/

theorem growTo_wf {s : Cs α} {vs : List α} (h : WF s vs) (n : Nat) (hn : 0 < n) :
    ∃ m1 l1, growTo s n = .ok (mk vs m1 l1) ∧ vs.length ≤ m1 ∧ n ≤ m1 ∧ 0 < m1 ∧
      l1.ctor + s.led.dtor = s.led.ctor + l1.dtor := by
  by_cases hgt : n > s.max
  · obtain ⟨l', h1, h2⟩ := resize_wf h n hn
    have hle := h.le; rw [h.num] at hle
    refine ⟨_, l', by simpa [growTo, hgt] using h1, ?_, ?_, ?_, h2⟩ <;> split <;> omega
  · rcases h with ⟨l, rfl, rfl⟩ | ⟨m, l, rfl, hle, hpos⟩
    · simp [mk0] at hgt; omega
    · exact ⟨m, l, by simp [growTo, hgt], hle, by simpa [mk] using hgt, hpos, by simp [mk]⟩

theorem growTo_zero {s : Cs α} : growTo s 0 = .ok s := by simp [growTo]

theorem fillTo_mk [Inhabited α] (vs : List α) (m : Nat) (l : Led) (index : Nat) (hi : index ≤ m) :
    fillTo (mk vs m l) index =
      .ok (mk (vs ++ List.replicate (index - vs.length) default) m { l with ctor := l.ctor + (index - vs.length) }) := by
  by_cases hgt : index > vs.length
  · have hd := defaultLoop_mk vs m (index - vs.length) l (by omega)
    have en : (mk vs m l).num = vs.length := rfl
    have el : (mk vs m l).led = l := rfl
    simp only [fillTo, en, el, hgt, if_true, onBuf_mk, ok_bind, hd]
    simp only [mk, List.length_append, List.length_replicate]
    congr 3 <;> omega
  · have e : index - vs.length = 0 := by omega
    have en : (mk vs m l).num = vs.length := rfl
    simp [fillTo, en, hgt, e]

theorem fillTo_mk0 [Inhabited α] (l : Led) : fillTo (mk0 l : Cs α) 0 = .ok (mk0 l) := by
  simp [fillTo, mk0]

theorem cutTo_mk (vs : List α) (m : Nat) (l : Led) (n : Nat) (hm : vs.length ≤ m) :
    cutTo (mk vs m l) n = .ok (mk (vs.take n) m { l with dtor := l.dtor + (vs.length - n) }) := by
  by_cases hlt : n < vs.length
  · have hd := destroyLoop_mk vs m n l (by omega) hm
    have en : (mk vs m l).num = vs.length := rfl
    have el : (mk vs m l).led = l := rfl
    simp only [cutTo, en, el, hlt, if_true, onBuf_mk, ok_bind, hd]
    simp only [mk, List.length_take]
    congr 2; omega
  · have e : vs.length - n = 0 := by omega
    have en : (mk vs m l).num = vs.length := rfl
    have ht : vs.take n = vs := List.take_of_length_le (by omega)
    simp [cutTo, en, hlt, e, ht]

theorem cutTo_mk0 (l : Led) (n : Nat) : cutTo (mk0 l : Cs α) n = .ok (mk0 l) := by
  simp [cutTo, mk0]

theorem addObjectAt_wf [Inhabited α] {s : Cs α} {vs : List α} (h : WF s vs) (index : Nat) (v : α) (hi : 0 < index) :
    ∃ s', addObjectAt s index v = .ok s' ∧
      WF s' ((vs ++ List.replicate (index - vs.length) default).set (index - 1) v) ∧
      Bal s s' vs.length (vs ++ List.replicate (index - vs.length) (default : α)).length := by
  obtain ⟨m1, l1, e1, hle1, hidx, hpos1, hb1⟩ := growTo_wf h index hi
  have e2 := fillTo_mk vs m1 l1 index hidx
  have hwl : (vs ++ List.replicate (index - vs.length) (default : α)).length
      = if index > vs.length then index else vs.length := by
    simp only [List.length_append, List.length_replicate]; split <;> omega
  have hwf2 := wf_mk (vs ++ List.replicate (index - vs.length) (default : α)) m1
    { l1 with ctor := l1.ctor + (index - vs.length) } (by rw [hwl]; split <;> omega) hpos1
  obtain ⟨s3, e3, hwf3, hl3, _⟩ := setObjectAt_ok hwf2 index v hi (by rw [hwl]; split <;> omega)
  refine ⟨s3, ?_, hwf3, ?_⟩
  · unfold addObjectAt
    rw [e1]; simp only [ok_bind]
    rw [e2]; simp only [ok_bind]
    exact e3
  · simp only [Bal, hl3, hwl, mk]
    split <;> omega

theorem setNumObjects_wf [Inhabited α] {s : Cs α} {vs : List α} (h : WF s vs) (n : Nat) :
    ∃ s', setNumObjects s n = .ok s' ∧ WF s' (vs.take n ++ List.replicate (n - vs.length) default) ∧
      Bal s s' vs.length (vs.take n ++ List.replicate (n - vs.length) (default : α)).length := by
  by_cases hn : n = 0
  · subst hn
    rcases h with ⟨l, rfl, rfl⟩ | ⟨m, l, rfl, hle, hpos⟩
    · refine ⟨mk0 l, ?_, by simpa using wf_mk0 l, by simp [Bal]⟩
      unfold setNumObjects
      rw [growTo_zero]; simp only [ok_bind]
      rw [cutTo_mk0]; simp only [ok_bind]
      exact fillTo_mk0 l
    · refine ⟨mk [] m { l with dtor := l.dtor + vs.length }, ?_, by simpa using wf_mk [] m _ (by simp) hpos, ?_⟩
      · unfold setNumObjects
        rw [growTo_zero]; simp only [ok_bind]
        rw [cutTo_mk vs m l 0 hle]; simp only [ok_bind]
        have := fillTo_mk ([] : List α) m { l with dtor := l.dtor + vs.length } 0 (by omega)
        simpa using this
      · simp [Bal, mk]; omega
  · obtain ⟨m1, l1, e1, hle1, hidx, hpos1, hb1⟩ := growTo_wf h n (by omega)
    have e2 := cutTo_mk vs m1 l1 n hle1
    have e3 := fillTo_mk (vs.take n) m1 { l1 with dtor := l1.dtor + (vs.length - n) } n hidx
    have hk : n - (vs.take n).length = n - vs.length := by simp; omega
    rw [hk] at e3
    refine ⟨mk (vs.take n ++ List.replicate (n - vs.length) default) m1
      { ctor := l1.ctor + (n - vs.length), dtor := l1.dtor + (vs.length - n) }, ?_, wf_mk _ _ _ ?_ hpos1, ?_⟩
    · unfold setNumObjects
      rw [e1]; simp only [ok_bind]
      rw [e2]; simp only [ok_bind]
      exact e3
    · simp; omega
    · simp only [Bal, mk, List.length_append, List.length_take, List.length_replicate]; omega

/-! ### RemoveObjectAt / RemoveObject -/

theorem removeObjectAt_threw (s : Cs α) (i : Nat) (h : i = 0 ∨ i > s.num) :
    removeObjectAt s i = .ok (s, true) := by
  simp [removeObjectAt, h]

theorem removeObjectAt_ok {s : Cs α} {vs : List α} (h : WF s vs) (i : Nat) (h1 : 0 < i) (h2 : i ≤ vs.length) :
    ∃ s', removeObjectAt s i = .ok (s', false) ∧ WF s' (vs.eraseIdx (i - 1)) ∧
      s'.led = { s.led with dtor := s.led.dtor + 1 } ∧ s'.max = s.max := by
  rcases h with ⟨l, rfl, rfl⟩ | ⟨m, l, rfl, hle, hpos⟩
  · simp at h2; omega
  · have hlt : i - 1 < vs.length := by omega
    obtain ⟨pre, hpre⟩ : ∃ pre, pre = vs.take (i - 1) := ⟨_, rfl⟩
    obtain ⟨x, hx⟩ : ∃ x, x = vs[i - 1] := ⟨_, rfl⟩
    obtain ⟨xs, hxs⟩ : ∃ xs, xs = vs.drop i := ⟨_, rfl⟩
    have hv : vs = pre ++ x :: xs := by
      have := List.take_append_drop (i - 1) vs
      rw [List.drop_eq_getElem_cons hlt] at this
      have e : i - 1 + 1 = i := by omega
      rw [e, ← hpre, ← hx, ← hxs] at this; exact this.symm
    have hpl : pre.length = i - 1 := by simp [hpre]; omega
    have hxl : xs.length = vs.length - i := by simp [hxs]
    have her : vs.eraseIdx (i - 1) = pre ++ xs := by
      rw [List.eraseIdx_eq_take_drop_succ]
      have e : i - 1 + 1 = i := by omega
      rw [e, ← hpre, ← hxs]
    refine ⟨mk (pre ++ xs) m { l with dtor := l.dtor + 1 }, ?_, ?_, rfl, rfl⟩
    · have hg : ¬ (i = 0 ∨ i > (mk vs m l).num) := by simp [mk]; omega
      simp only [removeObjectAt, hg, if_false, onBuf_mk, bind, Except.bind]
      have en : (mk vs m l).num = vs.length := rfl
      have el : (mk vs m l).led = l := rfl
      rw [en, el]
      have ek : vs.length - 1 - (i - 1) = xs.length := by omega
      have hb : bufOf vs (m - vs.length) = pre.map some ++ (x :: xs).map some ++ raw (m - vs.length) := by
        simp only [bufOf]; congr 1; rw [hv]; simp
      rw [ek, hb, shiftDown_spec xs x (pre.map some) (raw (m - vs.length)) (i - 1) (by simp [hpl])]
      simp only
      -- destroy the last slot
      have hlast : pre.map some ++ (xs ++ [(x :: xs).getLast (by simp)]).map some ++ raw (m - vs.length)
          = (pre ++ xs).map some ++ some ((x :: xs).getLast (by simp)) :: raw (m - vs.length) := by simp
      rw [hlast, bDestroy_mid _ _ _ _ _ (by simp [hpl, hxl]; omega)]
      simp only [mk, bufOf]
      have e1 : (pre ++ xs).length = vs.length - 1 := by simp [hpl, hxl]; omega
      have e2 : (none : Option α) :: raw (m - vs.length) = raw (m - (pre ++ xs).length) := by
        rw [← raw_succ]; congr 1; omega
      simp only [e2, e1]
    · rw [her]; exact wf_mk _ _ _ (by simp [hpl, hxl]; omega) hpos

theorem removeObject_wf [DecidableEq α] {s : Cs α} {vs : List α} (h : WF s vs) (v : α) :
    ∃ s', removeObject s v = .ok s' ∧ WF s' (vs.erase v) ∧ Bal s s' vs.length (vs.erase v).length := by
  by_cases hv : v ∈ vs
  · have hp : posOf vs v = vs.idxOf v + 1 := by simp [posOf, hv]
    have hlt : vs.idxOf v < vs.length := List.idxOf_lt_length_iff.mpr hv
    obtain ⟨s', h1, h2, h3, _⟩ := removeObjectAt_ok h (posOf vs v) (by omega) (by omega)
    refine ⟨s', ?_, ?_, ?_⟩
    · have hp0 : posOf vs v ≠ 0 := by omega
      simp [removeObject, indexOf_wf h, hp0, h1, bind, Except.bind]
    · have : vs.erase v = vs.eraseIdx (posOf vs v - 1) := by
        rw [hp]; exact List.erase_eq_eraseIdx_of_idxOf rfl
      rw [this]; exact h2
    · simp only [Bal, h3, List.length_erase_of_mem hv]; omega
  · refine ⟨s, ?_, by rwa [List.erase_of_not_mem hv], by simp [Bal, List.erase_of_not_mem hv]⟩
    have hp : posOf vs v = 0 := by simp [posOf, hv]
    simp [removeObject, indexOf_wf h, hp, bind, Except.bind]

theorem removeObjectPtr_wf {s : Cs α} {vs : List α} (h : WF s vs) (off : Nat) :
    ∃ s', removeObjectPtr s off = .ok s' ∧ WF s' (vs.eraseIdx off) ∧
      Bal s s' vs.length (vs.eraseIdx off).length := by
  by_cases ho : off ≥ vs.length
  · refine ⟨s, by simp [removeObjectPtr, h.num, ho], ?_, ?_⟩
    · rwa [List.eraseIdx_of_length_le ho]
    · simp [Bal, List.eraseIdx_of_length_le ho]
  · obtain ⟨s', h1, h2, h3, _⟩ := removeObjectAt_ok h (off + 1) (by omega) (by omega)
    refine ⟨s', ?_, by simpa using h2, ?_⟩
    · have : ¬ off ≥ s.num := by rw [h.num]; exact ho
      simp [removeObjectPtr, this, h1, bind, Except.bind]
    · simp only [Bal, h3, List.length_eraseIdx]
      have : off < vs.length := by omega
      simp [this]; omega

end Morfuse.Container

namespace Morfuse.Container
variable {α : Type}

/-! ### InsertObjectAt -/

theorem insertObjectAt_noop (s : Cs α) (i : Nat) (v : α) (h : i = 0 ∨ i > s.num + 1) :
    insertObjectAt s i v = .ok s := by
  simp [insertObjectAt, h]

theorem insertRealloc_spec (pre post : List α) (v : α) (l : Led) :
    insertRealloc (mk (pre ++ post) (pre ++ post).length l) (bufOf (pre ++ post) 0) pre.length v =
      .ok (mk (pre ++ v :: post) ((pre ++ post).length + 1)
        { ctor := l.ctor + (pre ++ post).length + 1, dtor := l.dtor + (pre ++ post).length }) := by
  have en : (mk (pre ++ post) (pre ++ post).length l).num = pre.length + post.length := by simp [mk]
  have el : (mk (pre ++ post) (pre ++ post).length l).led = l := rfl
  have hb : bufOf (pre ++ post) 0 = [] ++ pre.map some ++ (post.map some ++ []) := by simp [bufOf]
  have hr : (raw (pre.length + post.length + 1) : Buf α) = [] ++ raw pre.length ++ raw (post.length + 1) := by
    rw [List.nil_append, ← raw_add, Nat.add_assoc]
  have m1 := moveLoop_spec 0 pre [] (post.map some ++ []) [] (raw (post.length + 1)) 0 l rfl rfl
  have hr2 : ([] : Buf α) ++ pre.map some ++ raw (post.length + 1)
      = pre.map some ++ none :: raw post.length := by simp [raw_succ]
  have hk : pre.length + post.length - pre.length = post.length := by omega
  have hsrc : ([] : Buf α) ++ raw pre.length ++ (post.map some ++ [])
      = raw pre.length ++ post.map some ++ [] := by simp
  have hdst : pre.map some ++ some v :: raw post.length
      = (pre.map some ++ [some v]) ++ raw post.length ++ [] := by simp
  have m2 := moveLoop_spec 1 post (raw pre.length) [] (pre.map some ++ [some v]) [] pre.length
    { ctor := l.ctor + pre.length + 1, dtor := l.dtor + pre.length } (by simp) (by simp)
  unfold insertRealloc
  simp only [en, el]
  rw [hb, hr, m1]
  simp only [ok_bind]
  rw [hr2, bConstruct_mid _ _ _ _ _ (by simp)]
  simp only [ok_bind]
  rw [hk, hsrc, hdst, m2]
  simp only [ok_bind, mk, bufOf, List.length_append, List.length_cons]
  have e1 : pre.length + post.length + 1 - (pre.length + (post.length + 1)) = 0 := by omega
  simp only [e1, raw_zero, List.append_nil, List.map_append, List.map_cons, List.append_assoc,
    List.cons_append, List.nil_append]
  have a1 : pre.length + (post.length + 1) = pre.length + post.length + 1 := by omega
  have a2 : l.ctor + pre.length + 1 + post.length = l.ctor + (pre.length + post.length) + 1 := by omega
  have a3 : l.dtor + pre.length + post.length = l.dtor + (pre.length + post.length) := by omega
  rw [a1, a2, a3]

theorem insertShift_spec (pre post : List α) (v : α) (m : Nat) (l : Led) (hne : post ≠ [])
    (hm : (pre ++ post).length + 1 ≤ m) :
    insertShift (mk (pre ++ post) m l) (bufOf (pre ++ post) (m - (pre ++ post).length)) pre.length v =
      .ok (mk (pre ++ v :: post) m { l with ctor := l.ctor + 1 }) := by
  obtain ⟨w, ws, hws⟩ : ∃ w ws, post = w :: ws := by
    cases post with
    | nil => exact absurd rfl hne
    | cons w ws => exact ⟨w, ws, rfl⟩
  obtain ⟨lst, hlst⟩ : ∃ lst, lst = post.getLast hne := ⟨_, rfl⟩
  have hdl : post.dropLast ++ [lst] = post := by rw [hlst]; exact List.dropLast_concat_getLast hne
  have hpl : post.length = ws.length + 1 := by rw [hws]; simp
  have hlen : (pre ++ post).length = pre.length + post.length := by simp
  have en : (mk (pre ++ post) m l).num = pre.length + post.length := by simp [mk]
  have el : (mk (pre ++ post) m l).led = l := rfl
  obtain ⟨k, hk⟩ : ∃ k, m - (pre.length + post.length) = k + 1 := ⟨m - (pre.length + post.length) - 1, by omega⟩
  have hb : bufOf (pre ++ post) (m - (pre ++ post).length)
      = (pre ++ post.dropLast).map some ++ some lst :: (none :: raw k) := by
    rw [bufOf, hlen, hk, raw_succ]
    conv => lhs; rw [← hdl]
    simp
  have hdlen : (pre ++ post.dropLast).length = pre.length + post.length - 1 := by simp; omega
  have hb2 : (pre ++ post.dropLast).map some ++ some lst :: (none :: raw k)
      = ((pre ++ post.dropLast).map some ++ [some lst]) ++ none :: raw k := by simp
  have hb3 : ((pre ++ post.dropLast).map some ++ [some lst]) ++ some lst :: raw k
      = pre.map some ++ (w :: ws).map some ++ (some lst :: raw k) := by
    rw [← hws]
    conv => rhs; rw [← hdl]
    simp
  have hkk : pre.length + post.length - 1 - pre.length = ws.length := by omega
  have hb4 : pre.map some ++ (w :: (w :: ws).dropLast).map some ++ (some lst :: raw k)
      = pre.map some ++ some w :: ((post.map some) ++ raw k) := by
    rw [← hws]
    conv => rhs; rw [← hdl]
    simp
  unfold insertShift
  simp only [en, el]
  rw [hb, bRead_mid _ _ _ _ (by simp; omega)]
  simp only [ok_bind]
  rw [hb2, bConstruct_mid _ _ _ _ _ (by simp; omega)]
  simp only [ok_bind]
  rw [hb3, hkk, shiftUp_spec ws.length ws w (pre.map some) _ pre.length (by simp) rfl]
  simp only [ok_bind]
  rw [hb4, bAssign_mid _ _ _ _ _ (by simp)]
  simp only [ok_bind, mk, bufOf, List.length_append, List.length_cons, List.map_append, List.map_cons,
    List.append_assoc, List.cons_append]
  have : m - (pre.length + (post.length + 1)) = k := by omega
  rw [this, Nat.add_assoc]

theorem insertObjectAt_ok {s : Cs α} {vs : List α} (h : WF s vs) (i : Nat) (v : α) (h1 : 0 < i) (h2 : i ≤ vs.length + 1) :
    ∃ s', insertObjectAt s i v = .ok s' ∧ WF s' (vs.take (i - 1) ++ v :: vs.drop (i - 1)) ∧
      Bal s s' vs.length (vs.length + 1) := by
  rcases h with ⟨l, rfl, rfl⟩ | ⟨m, l, rfl, hle, hpos⟩
  · -- no buffer yet
    have hi : i = 1 := by simp at h2; omega
    subst hi
    refine ⟨mk [v] 1 { l with ctor := l.ctor + 1 }, ?_, by simpa using wf_mk [v] 1 _ (by simp) (by omega),
      by simp [Bal, mk0, mk]; omega⟩
    have hc := bConstruct_mid ([] : Buf α) v [] 0 l rfl
    simp only [List.nil_append] at hc
    simp [insertObjectAt, mk0, raw_succ, hc, mk, bufOf]
  · obtain ⟨pre, hpre⟩ : ∃ pre, pre = vs.take (i - 1) := ⟨_, rfl⟩
    obtain ⟨post, hpost⟩ : ∃ post, post = vs.drop (i - 1) := ⟨_, rfl⟩
    have hv : vs = pre ++ post := by rw [hpre, hpost, List.take_append_drop]
    have hpl : pre.length = i - 1 := by simp [hpre]; omega
    rw [← hpre, ← hpost]
    subst hv
    have hlen : (pre ++ post).length = pre.length + post.length := by simp
    have hg : ¬ (i = 0 ∨ i > (mk (pre ++ post) m l).num + 1) := by simp [mk]; omega
    have en : (mk (pre ++ post) m l).num = (pre ++ post).length := rfl
    have em : (mk (pre ++ post) m l).max = m := rfl
    have el : (mk (pre ++ post) m l).led = l := rfl
    have eo : (mk (pre ++ post) m l).objlist = some (bufOf (pre ++ post) (m - (pre ++ post).length)) := rfl
    by_cases hgrow : (pre ++ post).length + 1 > m
    · have hm : m = (pre ++ post).length := by omega
      subst hm
      refine ⟨mk (pre ++ v :: post) ((pre ++ post).length + 1)
          { ctor := l.ctor + (pre ++ post).length + 1, dtor := l.dtor + (pre ++ post).length }, ?_,
        wf_mk (pre ++ v :: post) ((pre ++ post).length + 1) _ (by simp; omega) (by omega), ?_⟩
      · unfold insertObjectAt
        rw [if_neg hg]
        simp only [en, em, hgrow, if_true, eo, ← hpl, Nat.sub_self]
        exact insertRealloc_spec pre post v l
      · simp [Bal, mk]; omega
    · unfold insertObjectAt
      rw [if_neg hg]
      simp only [en, em, hgrow, if_false, onBuf_mk, ok_bind, el, ← hpl]
      by_cases hend : pre.length = (pre ++ post).length
      · have hpost0 : post = [] := by
          have : post.length = 0 := by omega
          exact List.eq_nil_of_length_eq_zero this
        subst hpost0
        simp only [List.append_nil] at *
        refine ⟨mk (pre ++ [v]) m { l with ctor := l.ctor + 1 }, ?_, wf_mk _ _ _ (by simp; omega) hpos,
          by simp [Bal, mk]; omega⟩
        have hc := construct_mk pre v m l (by omega)
        simp only [if_true, hc, ok_bind]
        simp [mk]
      · have hne : post ≠ [] := by
          intro e; subst e; simp at hend
        refine ⟨mk (pre ++ v :: post) m { l with ctor := l.ctor + 1 }, ?_,
          wf_mk (pre ++ v :: post) m _ (by simp; omega) hpos, by simp [Bal, mk]; omega⟩
        simp only [hend, if_false]
        exact insertShift_spec pre post v m l hne (by omega)

end Morfuse.Container
