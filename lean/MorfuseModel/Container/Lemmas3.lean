import MorfuseModel.Container.Lemmas2
/-!
# Lemmas for the `con::Container` model, part 3: `Copy`, `AddObject(ObjectAt(i))`, and the step
theorem for histories over two containers.
-/
namespace Morfuse.Container
variable {α : Type}

/-! ### Copy -/

theorem free_wf {s : Cs α} {vs : List α} (h : WF s vs) :
    freeObjectList s = .ok (mk0 { s.led with dtor := s.led.dtor + vs.length }) := by
  rcases h with ⟨l, rfl, rfl⟩ | ⟨m, l, rfl, _, _⟩
  · simpa [mk0] using free_mk0 (α := α) l
  · exact free_mk vs m l

theorem clear_wf {s : Cs α} {vs : List α} (h : WF s vs) :
    ∃ s', clearObjectList s = .ok s' ∧ WF s' [] ∧ s'.led = { s.led with dtor := s.led.dtor + vs.length } ∧
      s'.max = s.max := by
  rcases h with ⟨l, rfl, rfl⟩ | ⟨m, l, rfl, hle, hpos⟩
  · exact ⟨_, clear_mk0 l, wf_mk0 l, by simp [mk0], rfl⟩
  · exact ⟨_, clear_mk vs m l hle, wf_mk _ _ _ (by simp) hpos, rfl, rfl⟩

theorem shrink_wf {s : Cs α} {vs : List α} (h : WF s vs) :
    ∃ s', shrink s = .ok s' ∧ WF s' vs ∧ Bal s s' vs.length vs.length := by
  rcases h with ⟨l, rfl, rfl⟩ | ⟨m, l, rfl, hle, hpos⟩
  · exact ⟨_, shrink_mk0 l, wf_mk0 l, by simp [Bal]⟩
  · by_cases hv : vs = []
    · subst hv; exact ⟨_, shrink_mk_nil m l, wf_mk _ _ _ (by simp) hpos, by simp [Bal]⟩
    · have : 0 < vs.length := List.length_pos_iff.mpr hv
      exact ⟨_, shrink_mk vs m l hv, wf_mk _ _ _ (Nat.le_refl _) this, by simp [Bal, mk]; omega⟩

theorem resize_wf' {s : Cs α} {vs : List α} (h : WF s vs) (n : Nat) :
    ∃ s', resize s n = .ok s' ∧ WF s' (if n = 0 then [] else vs) ∧
      Bal s s' vs.length (if n = 0 then [] else vs).length := by
  by_cases hn : n = 0
  · subst hn
    refine ⟨_, by rw [resize_zero]; exact free_wf h, by simpa using wf_mk0 _, by simp [Bal, mk0]; omega⟩
  · obtain ⟨l', h1, h2⟩ := resize_wf h n (by omega)
    have hle := h.le; rw [h.num] at hle
    refine ⟨_, h1, by simpa [hn] using wf_mk vs _ l' (by split <;> omega) (by split <;> omega), ?_⟩
    simp only [Bal, hn, if_false, mk]; omega

theorem copyFrom_wf {s o : Cs α} {vs ws : List α} (h : WF s vs) (ho : WF o ws) :
    ∃ s', copyFrom s o = .ok s' ∧ WF s' ws ∧ Bal s s' vs.length ws.length := by
  unfold copyFrom
  rw [free_wf h]; simp only [ok_bind]
  rcases ho with ⟨lo, rfl, rfl⟩ | ⟨m, lo, rfl, hle, hpos⟩
  · exact ⟨mk0 { s.led with dtor := s.led.dtor + vs.length }, by simp [mk0], wf_mk0 _, by simp [Bal, mk0]; omega⟩
  · have hm : m ≠ 0 := by omega
    have eo : (mk ws m lo).objlist = some (bufOf ws (m - ws.length)) := rfl
    have em : (mk ws m lo).max = m := rfl
    have en : (mk ws m lo).num = ws.length := rfl
    simp only [eo, em, en, hm, if_false]
    -- `Resize(maxobjects)` with a null objlist allocates `m` raw slots and leaves numobjects alone
    have hr : ∀ (k : Nat) (l : Led), resize ({ objlist := none, num := k, max := m, led := l } : Cs α) m
        = .ok { objlist := some (raw m), num := k, max := m, led := l } := by
      intro k l; simp [resize, hm]
    simp only [mk0]
    rw [hr]; simp only [ok_bind]
    by_cases hw : ws.length = 0
    · have : ws = [] := List.eq_nil_of_length_eq_zero hw
      subst this
      refine ⟨mk [] m { s.led with dtor := s.led.dtor + vs.length }, by simp [mk, bufOf], wf_mk _ _ _ (by simp) hpos,
        by simp [Bal, mk]; omega⟩
    · simp only [hw, if_false, onBuf, ok_bind]
      have hsplit : (raw m : Buf α) = [] ++ raw ws.length ++ raw (m - ws.length) := by
        rw [List.nil_append, ← raw_add]; congr 1; omega
      have hsrc : bufOf ws (m - ws.length) = [] ++ ws.map some ++ raw (m - ws.length) := by simp [bufOf]
      have hc := copyLoop_spec ws [] (raw (m - ws.length)) [] (raw (m - ws.length)) 0
        { s.led with dtor := s.led.dtor + vs.length } rfl rfl
      rw [hsplit, hsrc, hc]
      refine ⟨mk ws m { ctor := s.led.ctor + ws.length, dtor := s.led.dtor + vs.length }, by simp [mk, bufOf],
        wf_mk _ _ _ hle hpos, by simp [Bal, mk]; omega⟩

/-! ### AddObject(ObjectAt(i)) -/

theorem addDup_ok {s : Cs α} {vs : List α} (h : WF s vs) (i : Nat) (h1 : 0 < i) (h2 : i ≤ vs.length)
    (h3 : vs.length < s.max) :
    ∃ s', addDup s i = .ok (s', vs.length + 1) ∧ WF s' (vs ++ [vs[i - 1]'(by omega)]) ∧
      Bal s s' vs.length (vs.length + 1) := by
  obtain ⟨s', e1, e2, e3⟩ := addObject_wf h (vs[i - 1]'(by omega))
  refine ⟨s', ?_, e2, ?_⟩
  · have : ¬ s.num ≥ s.max := by rw [h.num]; omega
    simp [addDup, objectAt_ok h i h1 h2, this, e1]
  · have : ¬ vs.length ≥ s.max := by omega
    simp only [Bal, e3, addLed, this, if_false]; omega

theorem addDup_ub {s : Cs α} {vs : List α} (h : WF s vs) (i : Nat)
    (hg : i = 0 ∨ vs.length < i ∨ s.max ≤ vs.length) : ∃ f, addDup s i = .error f := by
  by_cases hi : i = 0 ∨ vs.length < i
  · obtain ⟨f, hf⟩ := objectAt_ub h i hi
    exact ⟨f, by simp [addDup, hf]⟩
  · have h1 : 0 < i := by omega
    have h2 : i ≤ vs.length := by omega
    have h3 : s.num ≥ s.max := by rw [h.num]; omega
    exact ⟨.alias, by simp [addDup, objectAt_ok h i h1 h2, h3]⟩

end Morfuse.Container
