/-!
# Model of `con::Container<Type, Allocator>` (include/morfuse/Container/Container.h)

Transcribed statement by statement.  A container is `{objlist, numobjects, maxobjects}`; `objlist`
is `none` (a null pointer) or an allocation of exactly as many **slots** as were asked from the
allocator.  A slot is `none` (raw storage: no object lives there) or `some v` (a constructed
`Type` with value `v`).  The four things the C++ does with a slot are explicit primitives

* `bConstruct` — placement `new (objlist + i) Type(...)`: one construction in the ledger;
* `bDestroy`   — `objlist[i].~Type()`: one destruction in the ledger;
* `bAssign`    — `objlist[i] = ...`  (`operator=` of an existing object: no ledger event);
* `bRead`      — any use of `objlist[i]` as an object.

Each of them **faults** (`Except.error`) when the C++ statement has no defined meaning or breaks
the lifetime discipline: index outside the allocation or through a null `objlist` (`oob`), use of
raw storage as an object (`rawRead`, `rawAssign`, `rawDestroy`), construction on top of a live
object whose destructor therefore never runs (`overwrite`).  Nothing is totalised away: the
theorems in `Props/C18.lean` prove that, from the empty container, no operation sequence ever
faults except through the three guards that the C++ states only as `assert`s (compiled out under
`NDEBUG`) or not at all: `ObjectAt / SetObjectAt / operator[]` with `index = 0 ∨ index > numobjects`,
`AddObjectAt(0, _)`, and `AddObject(ObjectAt(i))` when the call has to grow the array (the argument
then refers into the buffer that `Resize` frees).

`std::move_if_noexcept(x)` followed by construction/assignment is modelled as a copy of the value:
in every place the container uses it the moved-from object is either destroyed or assigned over
before anything reads it again, so its state is unobservable.

`Type()` is `default`.  `Allocator::Alloc(n * sizeof(Type))` is `raw n`; `Allocator::Free` drops the
buffer (objects still alive in it would be lost: the ledger theorem shows there never are any).
Loops are structural recursions `loop k i` = "k more iterations, current index i".

Not modelled (POD-only / raw-storage API, outside the ledger discipline by design):
`AddressOfObjectAt`, `SetNumObjectsUninitialized`, `Sort` (`qsort` on the bytes), `Data()/begin()/end()`,
and archiving.  `AddObjectUninitialized` is modelled as the first half of `AddObject()` and of
`operator new(size_t, Container&)`, the two callers that immediately construct the new slot.
-/
namespace Morfuse.Container

inductive Fault
  | oob          -- outside the allocation, or through a null `objlist`
  | rawRead      -- storage that holds no object is read as an object
  | rawAssign    -- `operator=` on storage that holds no object
  | rawDestroy   -- destructor call on storage that holds no object
  | overwrite    -- placement-new on top of a live object (its destructor never runs)
  | alias        -- the argument refers to an element of the buffer the operation frees first
  deriving DecidableEq, Repr

abbrev R (β : Type) := Except Fault β

/-- the lifetime ledger: how many `Type` objects the container code constructed / destroyed -/
structure Led where
  ctor : Nat := 0
  dtor : Nat := 0
  deriving DecidableEq, Repr

abbrev Buf (α : Type) := List (Option α)

variable {α : Type}

/-- `Allocator::Alloc(n * sizeof(Type))`: `n` slots of raw storage -/
def raw (n : Nat) : Buf α := List.replicate n none

def bRead (b : Buf α) (i : Nat) : R α :=
  match b[i]? with
  | some (some v) => .ok v
  | some none => .error .rawRead
  | none => .error .oob

def bConstruct (b : Buf α) (i : Nat) (v : α) (l : Led) : R (Buf α × Led) :=
  match b[i]? with
  | some none => .ok (b.set i (some v), { l with ctor := l.ctor + 1 })
  | some (some _) => .error .overwrite
  | none => .error .oob

def bDestroy (b : Buf α) (i : Nat) (l : Led) : R (Buf α × Led) :=
  match b[i]? with
  | some (some _) => .ok (b.set i none, { l with dtor := l.dtor + 1 })
  | some none => .error .rawDestroy
  | none => .error .oob

def bAssign (b : Buf α) (i : Nat) (v : α) : R (Buf α) :=
  match b[i]? with
  | some (some _) => .ok (b.set i (some v))
  | some none => .error .rawAssign
  | none => .error .oob

/-- `Container` object; `led` counts what *this* object's member functions constructed/destroyed -/
structure Cs (α : Type) where
  objlist : Option (Buf α) := none
  num : Nat := 0
  max : Nat := 0
  led : Led := {}

/-- `Container()` -/
def Cs.empty : Cs α := {}

/-- dereferencing `objlist` -/
def onBuf (s : Cs α) : R (Buf α) :=
  match s.objlist with
  | some b => .ok b
  | none => .error .oob

/-! ### loops -/

/-- `for (i …; k more) objlist[i].~Type();` -/
def destroyLoop : Nat → Nat → Buf α → Led → R (Buf α × Led)
  | 0, _, b, l => .ok (b, l)
  | k + 1, i, b, l => do
    let (b, l) ← bDestroy b i l
    destroyLoop k (i + 1) b l

/-- `for (i …; k more) new (objlist + i) Type();` -/
def defaultLoop [Inhabited α] : Nat → Nat → Buf α → Led → R (Buf α × Led)
  | 0, _, b, l => .ok (b, l)
  | k + 1, i, b, l => do
    let (b, l) ← bConstruct b i default l
    defaultLoop k (i + 1) b l

/-- `for (i …; k more) { new (dst + i + off) Type(std::move_if_noexcept(src[i])); src[i].~Type(); }` -/
def moveLoop (off : Nat) : Nat → Nat → Buf α → Buf α → Led → R (Buf α × Buf α × Led)
  | 0, _, src, dst, l => .ok (src, dst, l)
  | k + 1, i, src, dst, l => do
    let v ← bRead src i
    let (dst, l) ← bConstruct dst (i + off) v l
    let (src, l) ← bDestroy src i l
    moveLoop off k (i + 1) src dst l

/-- `for (i …; k more) new (dst + i) Type(src[i]);` -/
def copyLoop : Nat → Nat → Buf α → Buf α → Led → R (Buf α × Led)
  | 0, _, _, dst, l => .ok (dst, l)
  | k + 1, i, src, dst, l => do
    let v ← bRead src i
    let (dst, l) ← bConstruct dst i v l
    copyLoop k (i + 1) src dst l

/-- `for (i …; k more) objlist[i] = std::move_if_noexcept(objlist[i + 1]);` -/
def shiftDown : Nat → Nat → Buf α → R (Buf α)
  | 0, _, b => .ok b
  | k + 1, i, b => do
    let v ← bRead b (i + 1)
    let b ← bAssign b i v
    shiftDown k (i + 1) b

/-- `for (i = hi; i > lo; i--) objlist[i] = std::move_if_noexcept(objlist[i - 1]);` with `k = hi - lo` -/
def shiftUp : Nat → Nat → Buf α → R (Buf α)
  | 0, _, b => .ok b
  | k + 1, lo, b => do
    let v ← bRead b (lo + k)
    let b ← bAssign b (lo + k + 1) v
    shiftUp k lo b

/-- `for (data = start; data != end; ++data) if (*data == obj) return data - start + 1; return 0;` -/
def findLoop [DecidableEq α] (b : Buf α) (v : α) : Nat → Nat → R Nat
  | 0, _ => .ok 0
  | k + 1, i => do
    let x ← bRead b i
    if x = v then .ok (i + 1) else findLoop b v k (i + 1)

/-! ### member functions -/

/-- `FreeObjectList()` -/
def freeObjectList (s : Cs α) : R (Cs α) :=
  match s.objlist with
  | some b => do
    let (_, l) ← destroyLoop s.num 0 b s.led
    .ok { objlist := none, num := 0, max := 0, led := l }
  | none => .ok { s with objlist := none, num := 0, max := 0 }

/-- `ClearObjectList()` -/
def clearObjectList (s : Cs α) : R (Cs α) :=
  match s.objlist with
  | some b =>
    if s.num ≠ 0 then do
      let (b, l) ← destroyLoop s.num 0 b s.led
      .ok { s with objlist := some b, num := 0, led := l }
    else .ok s
  | none => .ok s

/-- `Resize(maxelements)` -/
def resize (s : Cs α) (maxelements : Nat) : R (Cs α) :=
  if maxelements = 0 then freeObjectList s
  else
    match s.objlist with
    | none => .ok { s with max := maxelements, objlist := some (raw maxelements) }
    | some temp => do
      let max := if maxelements < s.num then s.num else maxelements
      let (_, new, l) ← moveLoop 0 s.num 0 temp (raw max) s.led
      .ok { s with objlist := some new, max := max, led := l }

/-- `Shrink()` -/
def shrink (s : Cs α) : R (Cs α) :=
  match s.objlist with
  | none => .ok s
  | some b =>
    if s.num = 0 then .ok s
    else do
      let (_, new, l) ← moveLoop 0 s.num 0 b (raw s.num) s.led
      .ok { s with objlist := some new, max := s.num, led := l }

/-- `AddObject(args...)`: returns the new `numobjects` -/
def addObject (s : Cs α) (v : α) : R (Cs α × Nat) := do
  let s ← if s.num ≥ s.max then resize s ((s.num + 1) * 2) else .ok s
  let b ← onBuf s
  let (b, l) ← bConstruct b s.num v s.led
  .ok ({ s with objlist := some b, num := s.num + 1, led := l }, s.num + 1)

/-- `AddObjectUninitialized()`: the slot `numobjects - 1` is raw storage on return -/
def addObjectUninitialized (s : Cs α) : R (Cs α × Nat) := do
  let s ← if s.objlist.isNone then resize s 10 else .ok s
  let s ← if s.num ≥ s.max then resize s (s.num * 2) else .ok s
  .ok ({ s with num := s.num + 1 }, s.num + 1)

/-- `AddObject()`: returns the zero-based index of the new element -/
def addDefault [Inhabited α] (s : Cs α) : R (Cs α × Nat) := do
  let (s, n) ← addObjectUninitialized s
  let index := n - 1
  let b ← onBuf s
  let (b, l) ← bConstruct b index default s.led
  .ok ({ s with objlist := some b, led := l }, index)

/-- `new (container) Type(v)` = `operator new(size_t, Container&)` + the constructor call -/
def newIn (s : Cs α) (v : α) : R (Cs α) := do
  let (s, n) ← addObjectUninitialized s
  -- `&container.ObjectAt(n)`: `n = numobjects`, inside the assert
  let b ← onBuf s
  let (b, l) ← bConstruct b (n - 1) v s.led
  .ok { s with objlist := some b, led := l }

/-- `IndexOfObject(obj)` -/
def indexOfObject [DecidableEq α] (s : Cs α) (v : α) : R Nat :=
  match s.objlist with
  | none => .ok 0
  | some b => findLoop b v s.num 0

/-- `ObjectInList(obj)` -/
def objectInList [DecidableEq α] (s : Cs α) (v : α) : R Bool := do
  let i ← indexOfObject s v
  .ok (i != 0)

/-- `ObjectAt(index)` / `operator[](index - 1)`; the `assert` is compiled out -/
def objectAt (s : Cs α) (index : Nat) : R α :=
  if index = 0 then .error .oob            -- `objlist[size_t(-1)]`
  else do
    let b ← onBuf s
    bRead b (index - 1)

/-- `SetObjectAt(index, obj)`; the `assert` is compiled out -/
def setObjectAt (s : Cs α) (index : Nat) (v : α) : R (Cs α) :=
  if index = 0 then .error .oob
  else do
    let b ← onBuf s
    let b ← bAssign b (index - 1) v
    .ok { s with objlist := some b }

/-- `AddUniqueObject(obj)` -/
def addUniqueObject [DecidableEq α] (s : Cs α) (v : α) : R (Cs α × Nat) := do
  let index ← indexOfObject s v
  if index = 0 then addObject s v else .ok (s, index)

/-- `if (n > maxobjects) Resize(n);` -/
def growTo (s : Cs α) (n : Nat) : R (Cs α) :=
  if n > s.max then resize s n else .ok s

/-- `if (index > numobjects) { for (i = numobjects; i < index; i++) new (objlist + i) Type(); numobjects = index; }` -/
def fillTo [Inhabited α] (s : Cs α) (index : Nat) : R (Cs α) :=
  if index > s.num then do
    let b ← onBuf s
    let (b, l) ← defaultLoop (index - s.num) s.num b s.led
    .ok { s with objlist := some b, num := index, led := l }
  else .ok s

/-- `AddObjectAt(index, obj)` -/
def addObjectAt [Inhabited α] (s : Cs α) (index : Nat) (v : α) : R (Cs α) := do
  let s ← growTo s index
  let s ← fillTo s index
  setObjectAt s index v

/-- `RemoveObjectAt(index)`; `true` = `OutOfRangeContainerException` thrown (nothing changed) -/
def removeObjectAt (s : Cs α) (index : Nat) : R (Cs α × Bool) :=
  if index = 0 ∨ index > s.num then .ok (s, true)
  else do
    let b ← onBuf s
    let num := s.num - 1
    let b ← shiftDown (num - (index - 1)) (index - 1) b
    let (b, l) ← bDestroy b num s.led
    .ok ({ s with objlist := some b, num := num, led := l }, false)

/-- `RemoveObject(const Type& obj)` -/
def removeObject [DecidableEq α] (s : Cs α) (v : α) : R (Cs α) := do
  let index ← indexOfObject s v
  if index = 0 then .ok s
  else do
    let (s, _) ← removeObjectAt s index
    .ok s

/-- `RemoveObject(const Type* obj)` with `off = obj - objlist` (as `uintptr_t`) -/
def removeObjectPtr (s : Cs α) (off : Nat) : R (Cs α) :=
  if off ≥ s.num then .ok s
  else do
    let (s, _) ← removeObjectAt s (off + 1)
    .ok s

/-- `for (i = numelements; i < numobjects; ++i) objlist[i].~Type();  numobjects = numelements;` -/
def cutTo (s : Cs α) (numelements : Nat) : R (Cs α) :=
  if numelements < s.num then do
    let b ← onBuf s
    let (b, l) ← destroyLoop (s.num - numelements) numelements b s.led
    .ok { s with objlist := some b, num := numelements, led := l }
  else .ok s

/-- `SetNumObjects(numelements)` (`resize` of the STL-style interface) -/
def setNumObjects [Inhabited α] (s : Cs α) (numelements : Nat) : R (Cs α) := do
  let s ← growTo s numelements
  -- startNum = numobjects; destroy what is cut off; numobjects = numelements; default-construct what is new
  let s ← cutTo s numelements
  fillTo s numelements

/-- `InsertObjectAt`, the reallocating branch with an existing buffer `temp`
    (`maxobjects = numobjects` after the increment: exactly one more slot) -/
def insertRealloc (s : Cs α) (temp : Buf α) (arrayIndex : Nat) (v : α) : R (Cs α) := do
  let numobjects := s.num + 1
  -- for (i = 0; i < arrayIndex; ++i) { new (objlist + i) Type(move(temp[i])); temp[i].~Type(); }
  let (temp, new, l) ← moveLoop 0 arrayIndex 0 temp (raw numobjects) s.led
  -- new (objlist + arrayIndex) Type(obj);
  let (new, l) ← bConstruct new arrayIndex v l
  -- for (i = arrayIndex; i < numobjects - 1; ++i) { new (objlist + i + 1) Type(move(temp[i])); temp[i].~Type(); }
  let (_, new, l) ← moveLoop 1 (s.num - arrayIndex) arrayIndex temp new l
  .ok { s with objlist := some new, num := numobjects, max := numobjects, led := l }

/-- `InsertObjectAt`, the in-place branch for `arrayIndex < numobjects - 1` (after the increment) -/
def insertShift (s : Cs α) (b : Buf α) (arrayIndex : Nat) (v : α) : R (Cs α) := do
  -- new (objlist + numobjects - 1) Type(std::move_if_noexcept(objlist[numobjects - 2]));
  let x ← bRead b (s.num - 1)
  let (b, l) ← bConstruct b s.num x s.led
  -- for (i = numobjects - 2; i > arrayIndex; i--) objlist[i] = std::move_if_noexcept(objlist[i - 1]);
  let b ← shiftUp (s.num - 1 - arrayIndex) arrayIndex b
  -- objlist[arrayIndex] = obj;
  let b ← bAssign b arrayIndex v
  .ok { s with objlist := some b, num := s.num + 1, led := l }

/-- `InsertObjectAt(index, obj)` -/
def insertObjectAt (s : Cs α) (index : Nat) (v : α) : R (Cs α) :=
  if index = 0 ∨ index > s.num + 1 then .ok s
  else
    let arrayIndex := index - 1
    let numobjects := s.num + 1
    if numobjects > s.max then
      -- maxobjects = numobjects
      match s.objlist with
      | none => do
        -- arrayIndex = 0 here; `for (i = 0; i < arrayIndex; ++i) new (objlist + i) Type();` runs 0 times
        let (b, l) ← bConstruct (raw numobjects) arrayIndex v s.led
        .ok { s with objlist := some b, num := numobjects, max := numobjects, led := l }
      | some temp => insertRealloc s temp arrayIndex v
    else do
      let b ← onBuf s
      if arrayIndex = s.num then do
        -- appending: new (objlist + arrayIndex) Type(obj);
        let (b, l) ← bConstruct b arrayIndex v s.led
        .ok { s with objlist := some b, num := numobjects, led := l }
      else insertShift s b arrayIndex v

/-- `Copy(container)` for `&container != this` (callers: copy constructor, `operator=(const&)`) -/
def copyFrom (s o : Cs α) : R (Cs α) := do
  let s ← freeObjectList s
  let s := { s with num := o.num, max := o.max, objlist := none }
  match o.objlist with
  | none => .ok s
  | some ob =>
    if o.max = 0 then .ok s
    else do
      let s ← resize s s.max
      if o.num = 0 then .ok s
      else do
        let b ← onBuf s
        let (b, l) ← copyLoop o.num 0 ob b s.led
        .ok { s with objlist := some b, led := l }

/-- `c.AddObject(c.ObjectAt(i))`: the argument is a reference into `objlist` -/
def addDup (s : Cs α) (i : Nat) : R (Cs α × Nat) := do
  let v ← objectAt s i
  if s.num ≥ s.max then .error .alias      -- `Resize` destroys and frees what `args` refers to
  else addObject s v

/-! ### two containers (copy / move need a second one) -/

structure World (α : Type) where
  a : Cs α := {}
  b : Cs α := {}

def World.get (w : World α) (c : Bool) : Cs α := if c then w.b else w.a
def World.put (w : World α) (c : Bool) (s : Cs α) : World α := if c then { w with b := s } else { w with a := s }

inductive Op (α : Type)
  | add (c : Bool) (v : α)            -- c.AddObject(v)
  | addDefault (c : Bool)             -- c.AddObject()
  | newIn (c : Bool) (v : α)          -- new (c) Type(v)
  | addUnique (c : Bool) (v : α)
  | addAt (c : Bool) (i : Nat) (v : α)
  | insertAt (c : Bool) (i : Nat) (v : α)
  | removeAt (c : Bool) (i : Nat)
  | remove (c : Bool) (v : α)
  | removePtr (c : Bool) (off : Nat)
  | setAt (c : Bool) (i : Nat) (v : α)
  | objectAt (c : Bool) (i : Nat)
  | indexOf (c : Bool) (v : α)
  | inList (c : Bool) (v : α)
  | resize (c : Bool) (n : Nat)
  | setNum (c : Bool) (n : Nat)
  | shrink (c : Bool)
  | clear (c : Bool)
  | free (c : Bool)
  | copyAssign (c d : Bool)           -- c = d
  | moveAssign (c d : Bool)           -- c = std::move(d)
  | copyCtor (c d : Bool)             -- c.~Container(); new (&c) Container(d)          (c ≠ d)
  | moveCtor (c d : Bool)             -- c.~Container(); new (&c) Container(std::move(d))  (c ≠ d)
  | addDup (c : Bool) (i : Nat)       -- c.AddObject(c.ObjectAt(i))

/-- what an operation returns -/
inductive Ret (α : Type)
  | unit
  | nat (n : Nat)
  | bool (b : Bool)
  | val (v : α)
  | threw                             -- OutOfRangeContainerException
  deriving DecidableEq, Repr

/-- the fields `{objlist, numobjects, maxobjects}` of `d` are taken over by `c`, `d` is reset;
    the ledgers stay with the objects whose member functions did the counting -/
def steal (c d : Cs α) : Cs α × Cs α :=
  ({ c with objlist := d.objlist, num := d.num, max := d.max },
   { d with objlist := none, num := 0, max := 0 })

variable [DecidableEq α] [Inhabited α]

def step (w : World α) : Op α → R (World α × Ret α)
  | .add c v => do let (s, n) ← addObject (w.get c) v; .ok (w.put c s, .nat n)
  | .addDefault c => do let (s, n) ← addDefault (w.get c); .ok (w.put c s, .nat n)
  | .newIn c v => do let s ← newIn (w.get c) v; .ok (w.put c s, .unit)
  | .addUnique c v => do let (s, n) ← addUniqueObject (w.get c) v; .ok (w.put c s, .nat n)
  | .addAt c i v => do let s ← addObjectAt (w.get c) i v; .ok (w.put c s, .unit)
  | .insertAt c i v => do let s ← insertObjectAt (w.get c) i v; .ok (w.put c s, .unit)
  | .removeAt c i => do
    let (s, t) ← removeObjectAt (w.get c) i
    .ok (w.put c s, if t then .threw else .unit)
  | .remove c v => do let s ← removeObject (w.get c) v; .ok (w.put c s, .unit)
  | .removePtr c off => do let s ← removeObjectPtr (w.get c) off; .ok (w.put c s, .unit)
  | .setAt c i v => do let s ← setObjectAt (w.get c) i v; .ok (w.put c s, .unit)
  | .objectAt c i => do let v ← objectAt (w.get c) i; .ok (w, .val v)
  | .indexOf c v => do let n ← indexOfObject (w.get c) v; .ok (w, .nat n)
  | .inList c v => do let r ← objectInList (w.get c) v; .ok (w, .bool r)
  | .resize c n => do let s ← resize (w.get c) n; .ok (w.put c s, .unit)
  | .setNum c n => do let s ← setNumObjects (w.get c) n; .ok (w.put c s, .unit)
  | .shrink c => do let s ← shrink (w.get c); .ok (w.put c s, .unit)
  | .clear c => do let s ← clearObjectList (w.get c); .ok (w.put c s, .unit)
  | .free c => do let s ← freeObjectList (w.get c); .ok (w.put c s, .unit)
  | .copyAssign c d =>
    if c = d then .ok (w, .unit)          -- `if (&container == this) return;`
    else do let s ← copyFrom (w.get c) (w.get d); .ok (w.put c s, .unit)
  | .moveAssign c d => do
    -- FreeObjectList(); then take the (possibly own, now null) fields
    let s ← freeObjectList (w.get c)
    let w := w.put c s
    let (s, t) := steal (w.get c) (w.get d)
    .ok ((w.put d t).put c s, .unit)
  | .copyCtor c d =>
    if c = d then .ok (w, .unit)
    else do
      let s ← freeObjectList (w.get c)                -- ~Container()
      -- Container(const Container&): objlist = nullptr; Copy(container)
      let s ← copyFrom { s with objlist := none } (w.get d)
      .ok (w.put c s, .unit)
  | .moveCtor c d =>
    if c = d then .ok (w, .unit)
    else do
      let s ← freeObjectList (w.get c)                -- ~Container()
      let (s, t) := steal s (w.get d)
      .ok ((w.put d t).put c s, .unit)
  | .addDup c i => do let (s, n) ← addDup (w.get c) i; .ok (w.put c s, .nat n)

/-- run a whole history, collecting what every operation returned; a fault ends it -/
def runR : World α → List (Op α) → R (World α × List (Ret α))
  | w, [] => .ok (w, [])
  | w, op :: ops => do
    let (w, r) ← step w op
    let (w, rs) ← runR w ops
    .ok (w, r :: rs)

/-- run a whole history; a fault ends it -/
def run (w : World α) (ops : List (Op α)) : R (World α) := do
  let (w, _) ← runR w ops
  .ok w

/-- states of two containers that start empty -/
def Reachable (w : World α) : Prop := ∃ ops, run {} ops = .ok w

end Morfuse.Container
