import MorfuseModel.Container.Lemmas3
/-!
# `con::Container`: every step of a history over two containers refines the list specification,
keeps the representation invariant and the lifetime ledger, and faults exactly under its guard
-/
namespace Morfuse.Container
variable {α : Type}

/-- the abstract value of a world -/
def abs (w : World α) : AW α := { a := contents w.a, b := contents w.b }

/-- invariant of a world: both containers well formed, and the ledger balanced:
    constructions = destructions + live elements -/
def WInvF (w : World α) (f : Bool → List α) : Prop :=
  (∀ c, WF (w.get c) (f c)) ∧
  w.a.led.ctor + w.b.led.ctor = w.a.led.dtor + w.b.led.dtor + (f false).length + (f true).length

def WInv (w : World α) : Prop := ∃ f, WInvF w f

/-- the guards under which the C++ has undefined behaviour -/
def UB (w : World α) : Op α → Prop
  | .setAt c i _ => i = 0 ∨ i > (w.get c).num
  | .objectAt c i => i = 0 ∨ i > (w.get c).num
  | .addAt _ i _ => i = 0
  | .addDup c i => i = 0 ∨ i > (w.get c).num ∨ (w.get c).num ≥ (w.get c).max
  | _ => False

def upd (f : Bool → List α) (c : Bool) (l : List α) : Bool → List α := fun x => if x = c then l else f x

@[simp] theorem get_put_same (w : World α) (c : Bool) (s : Cs α) : (w.put c s).get c = s := by
  cases c <;> simp [World.get, World.put]

theorem get_put_other (w : World α) (c d : Bool) (s : Cs α) (h : d ≠ c) : (w.put c s).get d = w.get d := by
  cases c <;> cases d <;> simp_all [World.get, World.put]

theorem abs_get (w : World α) (c : Bool) : (abs w).get c = contents (w.get c) := by
  cases c <;> simp [abs, AW.get, World.get]

theorem abs_put (w : World α) (c : Bool) (s : Cs α) : abs (w.put c s) = (abs w).put c (contents s) := by
  cases c <;> simp [abs, AW.put, World.put]

theorem WInvF.get_eq {w : World α} {f} (h : WInvF w f) (c : Bool) : (abs w).get c = f c := by
  rw [abs_get]; exact (h.1 c).contents

/-- an operation on one container that keeps `WF` and the balance keeps the world invariant -/
theorem winv_put {w : World α} {f} (hw : WInvF w f) (c : Bool) {s' : Cs α} {vs' : List α}
    (hs : WF s' vs') (hb : Bal (w.get c) s' (f c).length vs'.length) :
    WInvF (w.put c s') (upd f c vs') ∧ abs (w.put c s') = (abs w).put c vs' := by
  refine ⟨⟨?_, ?_⟩, by rw [abs_put, hs.contents]⟩
  · intro d
    by_cases hd : d = c
    · subst hd; simpa [upd] using hs
    · rw [get_put_other _ _ _ _ hd]; simpa [upd, hd] using hw.1 d
  · have h2 := hw.2
    cases c <;> simp [World.put, World.get, upd, Bal] at hb ⊢ <;> omega

theorem wf_transplant {o : Cs α} {ws : List α} (h : WF o ws) (s : Cs α) :
    WF ({ s with objlist := o.objlist, num := o.num, max := o.max } : Cs α) ws := by
  rcases h with ⟨l, rfl, rfl⟩ | ⟨m, l, rfl, hle, hpos⟩
  · exact Or.inl ⟨s.led, rfl, rfl⟩
  · exact Or.inr ⟨m, s.led, rfl, hle, hpos⟩

theorem wf_reset (s : Cs α) : WF ({ s with objlist := none, num := 0, max := 0 } : Cs α) [] :=
  Or.inl ⟨s.led, rfl, rfl⟩

theorem put_put_comm (w : World α) (c d : Bool) (sc sd : Cs α) (h : c ≠ d) :
    (w.put c sc).put d sd = (w.put d sd).put c sc := by
  cases c <;> cases d <;> simp_all [World.put]

theorem put_put_same (w : World α) (c : Bool) (s s' : Cs α) : (w.put c s).put c s' = w.put c s' := by
  cases c <;> simp [World.put]

/-- an operation that replaces both containers -/
theorem winv_put2 {w : World α} {f} (hw : WInvF w f) {c d : Bool} (hcd : c ≠ d) {sc sd : Cs α} {vc vd : List α}
    (hc : WF sc vc) (hd : WF sd vd)
    (hb : sc.led.ctor + sd.led.ctor + (w.get c).led.dtor + (w.get d).led.dtor + (f c).length + (f d).length
        = (w.get c).led.ctor + (w.get d).led.ctor + sc.led.dtor + sd.led.dtor + vc.length + vd.length) :
    WInvF ((w.put d sd).put c sc) (upd (upd f d vd) c vc) ∧
      abs ((w.put d sd).put c sc) = ((abs w).put d vd).put c vc := by
  have h2 := hw.2
  refine ⟨⟨?_, ?_⟩, by rw [abs_put, abs_put, hc.contents, hd.contents]⟩
  · intro x
    by_cases hx : x = c
    · subst hx; simpa [upd] using hc
    · have hxd : x = d := by cases x <;> cases c <;> cases d <;> simp_all
      subst hxd
      rw [get_put_other _ _ _ _ hx]; simpa [upd, hx] using hd
  · cases c <;> cases d <;> simp_all [World.put, World.get, upd] <;> omega

variable [DecidableEq α] [Inhabited α]

/-- one step, single-container operations: packaged result -/
theorem step_one {w : World α} {f} (hw : WInvF w f) (c : Bool) {s' : Cs α} {vs' : List α} {r : Ret α}
    {op : Op α} (hstep : step w op = .ok (w.put c s', r)) (hs : WF s' vs')
    (hb : Bal (w.get c) s' (f c).length vs'.length)
    (hspec : Spec.step (abs w) op = some ((abs w).put c vs', r)) :
    ∃ w' r, step w op = .ok (w', r) ∧ WInv w' ∧ Spec.step (abs w) op = some (abs w', r) := by
  obtain ⟨h1, h2⟩ := winv_put hw c hs hb
  exact ⟨_, r, hstep, ⟨_, h1⟩, by rw [hspec, h2]⟩

theorem bal_refl (s : Cs α) (n : Nat) : Bal s s n n := by simp [Bal]

theorem put_get_self (w : World α) (c : Bool) : w.put c (w.get c) = w := by
  cases c <;> simp [World.put, World.get]

theorem aw_put_get_self (w : AW α) (c : Bool) : w.put c (w.get c) = w := by
  cases c <;> simp [AW.put, AW.get]

/-- The refinement theorem for one step. -/
theorem step_refines {w : World α} (hw : WInv w) (op : Op α) :
    (UB w op ∧ ∃ e, step w op = .error e) ∨
    (¬ UB w op ∧ ∃ w' r, step w op = .ok (w', r) ∧ WInv w' ∧ Spec.step (abs w) op = some (abs w', r)) := by
  obtain ⟨f, hf⟩ := hw
  have hg : ∀ c, (abs w).get c = f c := hf.get_eq
  have hn : ∀ c, (w.get c).num = (f c).length := fun c => (hf.1 c).num
  cases op with
  | add c v =>
    obtain ⟨s', e1, e2, e3⟩ := addObject_wf (hf.1 c) v
    refine Or.inr ⟨id, step_one hf c (s' := s') (r := .nat ((f c).length + 1)) ?_ e2 ?_ ?_⟩
    · simp [step, e1]
    · simp only [Bal, e3, addLed]; split <;> simp <;> omega
    · simp [Spec.step, hg]
  | addDefault c =>
    obtain ⟨s', e1, e2, e3⟩ := addDefault_wf (hf.1 c)
    refine Or.inr ⟨id, step_one hf c (s' := s') (r := .nat (f c).length) ?_ e2 ?_ ?_⟩
    · simp [step, e1]
    · simp only [Bal, List.length_append, List.length_singleton]; omega
    · simp [Spec.step, hg]
  | newIn c v =>
    obtain ⟨s', e1, e2, e3⟩ := newIn_wf (hf.1 c) v
    refine Or.inr ⟨id, step_one hf c (s' := s') (r := .unit) ?_ e2 ?_ ?_⟩
    · simp [step, e1]
    · simp only [Bal, List.length_append, List.length_singleton]; omega
    · simp [Spec.step, hg]
  | addUnique c v =>
    obtain ⟨s', e1, e2, e3⟩ := addUnique_wf (hf.1 c) v
    refine Or.inr ⟨id, step_one hf c (s' := s') (r := .nat (if v ∈ f c then posOf (f c) v else (f c).length + 1))
      ?_ e2 ?_ ?_⟩
    · simp [step, e1]
    · simpa [Bal] using e3
    · simp only [Spec.step, hg]
      split
      · simp [*, aw_put_get_self]
        rw [← hg c, aw_put_get_self]
      · simp [*]
  | addAt c i v =>
    by_cases hi : i = 0
    · subst hi
      refine Or.inl ⟨rfl, ?_⟩
      have h0 : growTo (w.get c) 0 = .ok (w.get c) := growTo_zero
      have h1 : fillTo (w.get c) 0 = .ok (w.get c) := by simp [fillTo]
      obtain ⟨e, he⟩ := setObjectAt_ub (hf.1 c) 0 v (Or.inl rfl)
      exact ⟨e, by simp [step, addObjectAt, h0, h1, he]⟩
    · obtain ⟨s', e1, e2, e3⟩ := addObjectAt_wf (hf.1 c) i v (by omega)
      refine Or.inr ⟨hi, step_one hf c (s' := s') (r := .unit) ?_ e2 ?_ ?_⟩
      · simp [step, e1]
      · simpa [Bal] using e3
      · simp [Spec.step, hg, hi]
  | insertAt c i v =>
    by_cases hi : i = 0 ∨ i > (f c).length + 1
    · refine Or.inr ⟨id, step_one hf c (s' := w.get c) (vs' := f c) (r := .unit) ?_ (hf.1 c) (bal_refl _ _) ?_⟩
      · have := insertObjectAt_noop (w.get c) i v (by rw [hn]; exact hi)
        simp [step, this, put_get_self]
      · simp [Spec.step, hg, hi]; rw [← hg c, aw_put_get_self]
    · obtain ⟨s', e1, e2, e3⟩ := insertObjectAt_ok (hf.1 c) i v (by omega) (by omega)
      refine Or.inr ⟨id, step_one hf c (s' := s') (r := .unit) ?_ e2 ?_ ?_⟩
      · simp [step, e1]
      · have : (List.take (i - 1) (f c) ++ v :: List.drop (i - 1) (f c)).length = (f c).length + 1 := by
          simp; omega
        rw [this]; exact e3
      · simp [Spec.step, hg, hi]
  | removeAt c i =>
    by_cases hi : i = 0 ∨ i > (f c).length
    · refine Or.inr ⟨id, step_one hf c (s' := w.get c) (vs' := f c) (r := .threw) ?_ (hf.1 c) (bal_refl _ _) ?_⟩
      · have := removeObjectAt_threw (w.get c) i (by rw [hn]; exact hi)
        simp [step, this, put_get_self]
      · simp [Spec.step, hg, hi]; rw [← hg c, aw_put_get_self]
    · obtain ⟨s', e1, e2, e3, _⟩ := removeObjectAt_ok (hf.1 c) i (by omega) (by omega)
      refine Or.inr ⟨id, step_one hf c (s' := s') (r := .unit) ?_ e2 ?_ ?_⟩
      · simp [step, e1]
      · simp only [Bal, e3, List.length_eraseIdx]
        have : i - 1 < (f c).length := by omega
        simp [this]; omega
      · simp [Spec.step, hg, hi]
  | remove c v =>
    obtain ⟨s', e1, e2, e3⟩ := removeObject_wf (hf.1 c) v
    refine Or.inr ⟨id, step_one hf c (s' := s') (r := .unit) ?_ e2 e3 ?_⟩
    · simp [step, e1]
    · simp [Spec.step, hg]
  | removePtr c off =>
    obtain ⟨s', e1, e2, e3⟩ := removeObjectPtr_wf (hf.1 c) off
    refine Or.inr ⟨id, step_one hf c (s' := s') (r := .unit) ?_ e2 e3 ?_⟩
    · simp [step, e1]
    · simp [Spec.step, hg]
  | setAt c i v =>
    by_cases hi : i = 0 ∨ i > (f c).length
    · obtain ⟨e, he⟩ := setObjectAt_ub (hf.1 c) i v (by omega)
      exact Or.inl ⟨by simpa [UB, hn] using hi, e, by simp [step, he]⟩
    · obtain ⟨s', e1, e2, e3, _⟩ := setObjectAt_ok (hf.1 c) i v (by omega) (by omega)
      refine Or.inr ⟨by simpa [UB, hn] using hi, step_one hf c (s' := s') (r := .unit) ?_ e2 ?_ ?_⟩
      · simp [step, e1]
      · simp [Bal, e3]
      · simp [Spec.step, hg, hi]
  | objectAt c i =>
    by_cases hi : i = 0 ∨ i > (f c).length
    · obtain ⟨e, he⟩ := objectAt_ub (hf.1 c) i (by omega)
      exact Or.inl ⟨by simpa [UB, hn] using hi, e, by simp [step, he]⟩
    · have h1 : 0 < i := by omega
      have h2 : i ≤ (f c).length := by omega
      refine Or.inr ⟨by simpa [UB, hn] using hi, w, .val ((f c)[i - 1]'(by omega)), ?_, ⟨f, hf⟩, ?_⟩
      · simp [step, objectAt_ok (hf.1 c) i h1 h2]
      · have : (f c)[i - 1]? = some ((f c)[i - 1]'(by omega)) := List.getElem?_eq_getElem (by omega)
        have hi0 : i ≠ 0 := by omega
        simp [Spec.step, hg, this, hi0]
  | indexOf c v =>
    refine Or.inr ⟨id, w, .nat (posOf (f c) v), ?_, ⟨f, hf⟩, ?_⟩
    · simp [step, indexOf_wf (hf.1 c)]
    · simp [Spec.step, hg]
  | inList c v =>
    refine Or.inr ⟨id, w, .bool (decide (v ∈ f c)), ?_, ⟨f, hf⟩, ?_⟩
    · simp only [step, objectInList, indexOf_wf (hf.1 c), ok_bind]
      congr 3
      by_cases hv : v ∈ f c <;> simp [posOf, hv]
    · simp [Spec.step, hg]
  | resize c n =>
    obtain ⟨s', e1, e2, e3⟩ := resize_wf' (hf.1 c) n
    refine Or.inr ⟨id, step_one hf c (s' := s') (r := .unit) ?_ e2 e3 ?_⟩
    · simp [step, e1]
    · simp [Spec.step, hg]
  | setNum c n =>
    obtain ⟨s', e1, e2, e3⟩ := setNumObjects_wf (hf.1 c) n
    refine Or.inr ⟨id, step_one hf c (s' := s') (r := .unit) ?_ e2 e3 ?_⟩
    · simp [step, e1]
    · simp [Spec.step, hg]
  | shrink c =>
    obtain ⟨s', e1, e2, e3⟩ := shrink_wf (hf.1 c)
    refine Or.inr ⟨id, step_one hf c (s' := s') (r := .unit) ?_ e2 e3 ?_⟩
    · simp [step, e1]
    · simp [Spec.step]; rw [← hg c, aw_put_get_self]
  | clear c =>
    obtain ⟨s', e1, e2, e3, _⟩ := clear_wf (hf.1 c)
    refine Or.inr ⟨id, step_one hf c (s' := s') (r := .unit) ?_ e2 ?_ ?_⟩
    · simp [step, e1]
    · simp [Bal, e3]; omega
    · simp [Spec.step]
  | free c =>
    refine Or.inr ⟨id, step_one hf c
      (s' := mk0 { (w.get c).led with dtor := (w.get c).led.dtor + (f c).length }) (vs' := []) (r := .unit)
      ?_ (wf_mk0 _) ?_ ?_⟩
    · simp [step, free_wf (hf.1 c)]
    · simp [Bal, mk0]; omega
    · simp [Spec.step]
  | copyAssign c d =>
    by_cases hcd : c = d
    · subst hcd
      refine Or.inr ⟨id, w, .unit, by simp [step], ⟨f, hf⟩, ?_⟩
      simp [Spec.step, aw_put_get_self]
    · obtain ⟨s', e1, e2, e3⟩ := copyFrom_wf (hf.1 c) (hf.1 d)
      refine Or.inr ⟨id, step_one hf c (s' := s') (r := .unit) ?_ e2 e3 ?_⟩
      · simp [step, hcd, e1]
      · simp [Spec.step, hg]
  | moveAssign c d =>
    refine Or.inr ⟨id, ?_⟩
    have hfree := free_wf (hf.1 c)
    by_cases hcd : c = d
    · subst hcd
      refine step_one hf c (s' := mk0 { (w.get c).led with dtor := (w.get c).led.dtor + (f c).length })
        (vs' := []) (r := .unit) ?_ (wf_mk0 _) ?_ ?_
      · simp only [step, hfree, ok_bind, get_put_same, steal, mk0]
        cases c <;> simp [World.put]
      · simp [Bal, mk0]; omega
      · simp [Spec.step]
        cases c <;> simp [AW.put]
    · obtain ⟨h1, h2⟩ := winv_put2 hf hcd
        (sc := { mk0 { (w.get c).led with dtor := (w.get c).led.dtor + (f c).length } with
                 objlist := (w.get d).objlist, num := (w.get d).num, max := (w.get d).max })
        (sd := { w.get d with objlist := none, num := 0, max := 0 })
        (wf_transplant (hf.1 d) _) (wf_reset (w.get d)) (by simp [mk0]; omega)
      refine ⟨_, .unit, ?_, ⟨_, h1⟩, ?_⟩
      · have hd : d ≠ c := fun e => hcd e.symm
        simp only [step, hfree, ok_bind, get_put_same, get_put_other _ _ _ _ hd, steal]
        rw [put_put_comm _ _ _ _ _ hcd, put_put_same]
      · simp [Spec.step, hcd, hg, h2]
  | copyCtor c d =>
    refine Or.inr ⟨id, ?_⟩
    by_cases hcd : c = d
    · subst hcd
      exact ⟨w, .unit, by simp [step], ⟨f, hf⟩, by simp [Spec.step, aw_put_get_self]⟩
    · have hfree := free_wf (hf.1 c)
      obtain ⟨s', e1, e2, e3⟩ := copyFrom_wf
        (wf_mk0 { (w.get c).led with dtor := (w.get c).led.dtor + (f c).length }) (hf.1 d)
      refine step_one hf c (s' := s') (r := .unit) ?_ e2 ?_ ?_
      · simp only [step, hcd, if_false, hfree, ok_bind]
        have : ∀ l : Led, ({ (mk0 l : Cs α) with objlist := none } : Cs α) = mk0 l := fun _ => rfl
        rw [this, e1]; rfl
      · simp only [Bal, mk0, List.length_nil] at e3 ⊢; omega
      · simp [Spec.step, hg]
  | moveCtor c d =>
    refine Or.inr ⟨id, ?_⟩
    by_cases hcd : c = d
    · subst hcd
      exact ⟨w, .unit, by simp [step], ⟨f, hf⟩, by simp [Spec.step]⟩
    · have hfree := free_wf (hf.1 c)
      obtain ⟨h1, h2⟩ := winv_put2 hf hcd
        (sc := { mk0 { (w.get c).led with dtor := (w.get c).led.dtor + (f c).length } with
                 objlist := (w.get d).objlist, num := (w.get d).num, max := (w.get d).max })
        (sd := { w.get d with objlist := none, num := 0, max := 0 })
        (wf_transplant (hf.1 d) _) (wf_reset (w.get d)) (by simp [mk0]; omega)
      refine ⟨_, .unit, ?_, ⟨_, h1⟩, ?_⟩
      · simp only [step, hcd, if_false, hfree, ok_bind, steal]
      · simp [Spec.step, hcd, hg, h2]
  | addDup c i =>
    by_cases hi : i = 0 ∨ (f c).length < i ∨ (w.get c).max ≤ (f c).length
    · obtain ⟨e, he⟩ := addDup_ub (hf.1 c) i hi
      refine Or.inl ⟨?_, e, by simp [step, he]⟩
      simp only [UB, hn]; omega
    · have h1 : 0 < i := by omega
      have h2 : i ≤ (f c).length := by omega
      obtain ⟨s', e1, e2, e3⟩ := addDup_ok (hf.1 c) i h1 h2 (by omega)
      refine Or.inr ⟨?_, step_one hf c (s' := s') (r := .nat ((f c).length + 1)) ?_ e2 ?_ ?_⟩
      · simp only [UB, hn]; omega
      · simp [step, e1]
      · simpa using e3
      · have : (f c)[i - 1]? = some ((f c)[i - 1]'(by omega)) := List.getElem?_eq_getElem (by omega)
        have hi0 : i ≠ 0 := by omega
        simp [Spec.step, hg, this, hi0]

end Morfuse.Container

namespace Morfuse.Container
variable {α : Type} [DecidableEq α] [Inhabited α]

theorem winv_init : WInv ({} : World α) :=
  ⟨fun _ => [], fun c => by cases c <;> exact wf_mk0 {}, by simp⟩

theorem abs_init : abs ({} : World α) = {} := by simp [abs, contents]

/-- histories: invariant and refinement lifted from one step by induction over the operation list -/
theorem runR_refines : ∀ (ops : List (Op α)) {w w' : World α} {rs : List (Ret α)}, WInv w →
    runR w ops = .ok (w', rs) → WInv w' ∧ Spec.runR (abs w) ops = some (abs w', rs) := by
  intro ops
  induction ops with
  | nil => intro w w' rs hw h; simp [runR] at h; obtain ⟨rfl, rfl⟩ := h; exact ⟨hw, rfl⟩
  | cons op ops ih =>
    intro w w' rs hw h
    rcases step_refines hw op with ⟨_, e, he⟩ | ⟨_, w1, r, h1, hw1, hs1⟩
    · simp [runR, he] at h
    · simp only [runR, h1, ok_bind] at h
      cases h2 : runR w1 ops with
      | error e => simp [h2] at h
      | ok p =>
        obtain ⟨w2, rs2⟩ := p
        simp only [h2, ok_bind, Except.ok.injEq, Prod.mk.injEq] at h
        obtain ⟨rfl, rfl⟩ := h
        obtain ⟨hw2, hs2⟩ := ih hw1 h2
        exact ⟨hw2, by simp [Spec.runR, hs1, hs2]⟩

theorem reachable_winv {w : World α} (h : Reachable w) : WInv w := by
  obtain ⟨ops, h⟩ := h
  simp only [run] at h
  cases h2 : runR ({} : World α) ops with
  | error e => simp [h2] at h
  | ok p =>
    simp only [h2, ok_bind, Except.ok.injEq] at h
    subst h
    exact (runR_refines ops winv_init h2).1

end Morfuse.Container
