import MorfuseModel.Container.Model
/-!
# Abstract specification of `con::Container`: a container is the list of its elements

`Spec.step` is "the obvious list operation" for every member function; `none` where the C++ has
undefined behaviour that can be told from the abstract state alone (index 0 / index past the end).
-/
namespace Morfuse.Container

/-- abstract state: the two sequences -/
structure AW (α : Type) where
  a : List α := []
  b : List α := []

variable {α : Type}

def AW.get (w : AW α) (c : Bool) : List α := if c then w.b else w.a
def AW.put (w : AW α) (c : Bool) (l : List α) : AW α := if c then { w with b := l } else { w with a := l }

/-- one-based position of the first occurrence, `0` when absent -/
def posOf [DecidableEq α] (vs : List α) (v : α) : Nat := if v ∈ vs then vs.idxOf v + 1 else 0

namespace Spec
variable [DecidableEq α] [Inhabited α]

def step (w : AW α) : Op α → Option (AW α × Ret α)
  | .add c v => some (w.put c (w.get c ++ [v]), .nat ((w.get c).length + 1))
  | .addDefault c => some (w.put c (w.get c ++ [default]), .nat (w.get c).length)
  | .newIn c v => some (w.put c (w.get c ++ [v]), .unit)
  | .addUnique c v =>
    if v ∈ w.get c then some (w, .nat (posOf (w.get c) v))
    else some (w.put c (w.get c ++ [v]), .nat ((w.get c).length + 1))
  | .addAt c i v =>
    if i = 0 then none
    else some (w.put c ((w.get c ++ List.replicate (i - (w.get c).length) default).set (i - 1) v), .unit)
  | .insertAt c i v =>
    if i = 0 ∨ i > (w.get c).length + 1 then some (w, .unit)
    else some (w.put c ((w.get c).take (i - 1) ++ v :: (w.get c).drop (i - 1)), .unit)
  | .removeAt c i =>
    if i = 0 ∨ i > (w.get c).length then some (w, .threw)
    else some (w.put c ((w.get c).eraseIdx (i - 1)), .unit)
  | .remove c v => some (w.put c ((w.get c).erase v), .unit)
  | .removePtr c off => some (w.put c ((w.get c).eraseIdx off), .unit)
  | .setAt c i v =>
    if i = 0 ∨ i > (w.get c).length then none
    else some (w.put c ((w.get c).set (i - 1) v), .unit)
  | .objectAt c i =>
    match (w.get c)[i - 1]? with
    | some v => if i = 0 then none else some (w, .val v)
    | none => none
  | .indexOf c v => some (w, .nat (posOf (w.get c) v))
  | .inList c v => some (w, .bool (decide (v ∈ w.get c)))
  | .resize c n => some (w.put c (if n = 0 then [] else w.get c), .unit)
  | .setNum c n => some (w.put c ((w.get c).take n ++ List.replicate (n - (w.get c).length) default), .unit)
  | .shrink _ => some (w, .unit)
  | .clear c => some (w.put c [], .unit)
  | .free c => some (w.put c [], .unit)
  | .copyAssign c d => some (w.put c (w.get d), .unit)
  | .moveAssign c d => some ((w.put d []).put c (if c = d then [] else w.get d), .unit)
  | .copyCtor c d => some (w.put c (w.get d), .unit)
  | .moveCtor c d => if c = d then some (w, .unit) else some ((w.put d []).put c (w.get d), .unit)
  | .addDup c i =>
    match (w.get c)[i - 1]? with
    | some v => if i = 0 then none else some (w.put c (w.get c ++ [v]), .nat ((w.get c).length + 1))
    | none => none

/-- the abstract history, with the abstract return values -/
def runR : AW α → List (Op α) → Option (AW α × List (Ret α))
  | w, [] => some (w, [])
  | w, op :: ops =>
    match step w op with
    | none => none
    | some (w, r) =>
      match runR w ops with
      | none => none
      | some (w, rs) => some (w, r :: rs)

end Spec
end Morfuse.Container
