import MorfuseModel.Dict.Model
/-!
# Invariant of the arrayset / StringDictionary model and its preservation

`Inv hash s ks B`: `ks` is the list of interned texts in id order (ghost), `B b` is the list of
entries on the chain of bucket `b` (ghost).  Everything holds for an arbitrary `hash`.
-/
namespace Morfuse.Dict
set_option linter.unusedSectionVars false
variable {κ : Type} [DecidableEq κ]

/-! ### generic facts -/

/-- a null-terminated singly linked chain starting at `e` visits exactly `L` -/
def Chain (nx : Nat → Nat) : Nat → List Nat → Prop
  | e, [] => e = 0
  | e, a :: t => e = a ∧ a ≠ 0 ∧ Chain nx (nx a) t

theorem Chain.congr {nx nx' : Nat → Nat} : ∀ {L : List Nat} {e : Nat}, Chain nx e L →
    (∀ x ∈ L, nx' x = nx x) → Chain nx' e L
  | [], _, h, _ => h
  | a :: t, e, ⟨h1, h2, h3⟩, hx => by
    refine ⟨h1, h2, ?_⟩
    rw [hx a (by simp)]
    exact Chain.congr h3 (fun x hm => hx x (by simp [hm]))

theorem Chain.zero_not_mem {nx : Nat → Nat} : ∀ {L : List Nat} {e : Nat}, Chain nx e L → 0 ∉ L
  | [], _, _ => by simp
  | a :: t, e, ⟨_, h2, h3⟩ => by
    intro hm
    rcases List.mem_cons.1 hm with h | h
    · exact h2 h.symm
    · exact Chain.zero_not_mem h3 h

/-- pigeonhole: a duplicate-free list of numbers in `1..n` has at most `n` elements -/
theorem nodup_length_le : ∀ (n : Nat) (l : List Nat), l.Nodup → (∀ x ∈ l, 1 ≤ x ∧ x ≤ n) → l.length ≤ n
  | 0, l, _, h => by
    cases l with
    | nil => simp
    | cons a t => have := h a (by simp); omega
  | n + 1, l, hnd, h => by
    have h1 : (l.erase (n + 1)).length ≤ n := by
      apply nodup_length_le n _ (hnd.erase _)
      intro x hx
      have hx' := (List.Nodup.mem_erase_iff hnd).1 hx
      have := h x hx'.2
      have := hx'.1
      omega
    by_cases hm : n + 1 ∈ l
    · have := List.length_erase_of_mem hm
      omega
    · rw [List.erase_of_not_mem hm] at h1; omega

/-- the text with id `e` (`e ≥ 1`) in the ghost list -/
def keyAt (ks : List κ) (e : Nat) : Option κ := if e = 0 then none else ks[e - 1]?

theorem keyAt_some_range {ks : List κ} {e : Nat} {k : κ} (h : keyAt ks e = some k) :
    1 ≤ e ∧ e ≤ ks.length := by
  unfold keyAt at h
  split at h
  · cases h
  · have := (List.getElem?_eq_some_iff.1 h).1
    omega

theorem keyAt_mem {ks : List κ} {e : Nat} {k : κ} (h : keyAt ks e = some k) : k ∈ ks := by
  unfold keyAt at h
  split at h
  · cases h
  · exact List.mem_of_getElem? h

theorem keyAt_inj {ks : List κ} (hnd : ks.Nodup) {e e' : Nat} {k : κ}
    (h : keyAt ks e = some k) (h' : keyAt ks e' = some k) : e = e' := by
  have r := keyAt_some_range h
  have r' := keyAt_some_range h'
  unfold keyAt at h h'
  rw [if_neg (by omega)] at h h'
  obtain ⟨h1, h2⟩ := List.getElem?_eq_some_iff.1 h
  obtain ⟨h1', h2'⟩ := List.getElem?_eq_some_iff.1 h'
  have := (List.getElem_inj hnd).1 (h2.trans h2'.symm)
  omega

theorem keyAt_of_mem {ks : List κ} {k : κ} (h : k ∈ ks) : ∃ e, keyAt ks e = some k := by
  obtain ⟨i, hi, hk⟩ := List.getElem_of_mem h
  refine ⟨i + 1, ?_⟩
  simp [keyAt, List.getElem?_eq_getElem hi, hk]

theorem keyAt_append_old {ks : List κ} {k : κ} {e : Nat} (h : e ≤ ks.length) :
    keyAt (ks ++ [k]) e = keyAt ks e := by
  unfold keyAt
  split
  · rfl
  · rw [List.getElem?_append_left (by omega)]

theorem keyAt_append_new {ks : List κ} {k : κ} : keyAt (ks ++ [k]) (ks.length + 1) = some k := by
  simp [keyAt]

theorem keyAt_none_of_gt {ks : List κ} {e : Nat} (h : ks.length < e) : keyAt ks e = none := by
  unfold keyAt
  split
  · rfl
  · exact List.getElem?_eq_none (by omega)

/-! ### the invariant -/

structure Inv (hash : κ → Nat) (s : State κ) (ks : List κ) (B : Nat → List Nat) : Prop where
  count_eq : s.count = ks.length
  nodup : ks.Nodup
  key_eq : ∀ e, s.key.get? e = keyAt ks e
  idx_eq : ∀ e, 1 ≤ e → e ≤ s.count → s.idx.get e = e
  rev_eq : ∀ i, 1 ≤ i → i ≤ s.count → revGet s i = i
  tl_pos : 0 < s.tableLength
  thr : s.threshold = s.tableLength
  le : s.count ≤ s.tableLength
  inl_tl : s.inl = true → s.tableLength = 1
  dflt : s.defaultEntry = 0 ↔ s.count = 0
  chain : ∀ b, b < s.tableLength → Chain s.next.get (tableGet s b) (B b)
  bnodup : ∀ b, b < s.tableLength → (B b).Nodup
  mem : ∀ b, b < s.tableLength → ∀ e, e ∈ B b ↔ ∃ k, keyAt ks e = some k ∧ hash k % s.tableLength = b

theorem Inv.bucket_len {hash : κ → Nat} {s : State κ} {ks : List κ} {B : Nat → List Nat}
    (h : Inv hash s ks B) {b : Nat} (hb : b < s.tableLength) : (B b).length ≤ s.count := by
  apply nodup_length_le _ _ (h.bnodup b hb)
  intro x hx
  obtain ⟨k, hk, _⟩ := (h.mem b hb x).1 hx
  have := keyAt_some_range hk
  rw [h.count_eq]; exact this

theorem init_inv (hash : κ → Nat) : Inv hash (init : State κ) [] (fun _ => []) := by
  refine ⟨rfl, List.nodup_nil, ?_, ?_, ?_, ?_, rfl, ?_, ?_, ?_, ?_, ?_, ?_⟩
  · intro e; simp [init, keyAt]
  · intro e h1 h2; simp [init] at h2; omega
  · intro e h1 h2; simp [init] at h2; omega
  · simp [init]
  · simp [init]
  · simp [init]
  · simp [init]
  · intro b _; simp [init, tableGet, Chain]
  · intro b _; simp
  · intro b _ e; simp [keyAt]

/-! ### lookup -/

theorem findLoop_spec (s : State κ) (key : κ) : ∀ (L : List Nat) (fuel e : Nat),
    Chain s.next.get e L → L.length ≤ fuel →
    (findLoop s key fuel e ≠ 0 → findLoop s key fuel e ∈ L ∧ s.key.get? (findLoop s key fuel e) = some key) ∧
    (findLoop s key fuel e = 0 → ∀ x ∈ L, s.key.get? x ≠ some key)
  | [], fuel, e, hc, _ => by
    have he : e = 0 := hc
    subst he
    cases fuel <;> simp [findLoop]
  | a :: t, 0, e, _, hl => by simp at hl
  | a :: t, fuel + 1, e, ⟨h1, h2, h3⟩, hl => by
    subst h1
    simp only [findLoop, if_neg h2]
    by_cases hk : s.key.get? e = some key
    · simp [hk, h2]
    · simp only [if_neg hk]
      have ih := findLoop_spec s key t fuel (s.next.get e) h3 (by simpa using hl)
      refine ⟨fun hne => ⟨List.mem_cons_of_mem _ (ih.1 hne).1, (ih.1 hne).2⟩, ?_⟩
      intro h0 x hx
      rcases List.mem_cons.1 hx with h | h
      · subst h; exact hk
      · exact ih.2 h0 x h

/-- `findKeyEntry` returns the entry whose key is `key`, or null when `key` was never interned -/
theorem findKeyEntry_spec {hash : κ → Nat} {s : State κ} {ks : List κ} {B : Nat → List Nat}
    (h : Inv hash s ks B) (key : κ) :
    (findKeyEntry hash s key ≠ 0 → keyAt ks (findKeyEntry hash s key) = some key) ∧
    (findKeyEntry hash s key = 0 → key ∉ ks) := by
  have hb : hash key % s.tableLength < s.tableLength := Nat.mod_lt _ h.tl_pos
  have sp := findLoop_spec s key (B (hash key % s.tableLength)) (s.count + 1)
    (tableGet s (hash key % s.tableLength)) (h.chain _ hb) (by have := h.bucket_len hb; omega)
  refine ⟨fun hne => ?_, fun h0 hm => ?_⟩
  · have := (sp.1 hne).2
    rw [h.key_eq] at this
    exact this
  · obtain ⟨e, he⟩ := keyAt_of_mem hm
    have hmem : e ∈ B (hash key % s.tableLength) := (h.mem _ hb e).2 ⟨key, he, rfl⟩
    have := sp.2 h0 e hmem
    rw [h.key_eq] at this
    exact this he

/-! ### `resize` -/

theorem moveChain_frame (hash : κ → Nat) : ∀ (fuel e : Nat) (s : State κ),
    (moveChain hash fuel e s).key = s.key ∧ (moveChain hash fuel e s).idx = s.idx ∧
    (moveChain hash fuel e s).rev = s.rev ∧ (moveChain hash fuel e s).inl = s.inl ∧
    (moveChain hash fuel e s).tableLength = s.tableLength ∧
    (moveChain hash fuel e s).threshold = s.threshold ∧ (moveChain hash fuel e s).count = s.count ∧
    (moveChain hash fuel e s).tableLengthIndex = s.tableLengthIndex ∧
    (moveChain hash fuel e s).defaultEntry = s.defaultEntry
  | 0, _, _ => by simp [moveChain]
  | fuel + 1, e, s => by
    unfold moveChain
    split
    · simp
    · split
      · simp
      · exact moveChain_frame hash fuel _ _

theorem moveChain_spec (hash : κ → Nat) (ks : List κ) (n : Nat) (hn : 0 < n) :
    ∀ (L : List Nat) (fuel e : Nat) (s : State κ) (Bn : Nat → List Nat),
    L.length ≤ fuel → s.tableLength = n →
    (∀ x, s.key.get? x = keyAt ks x) →
    Chain s.next.get e L → L.Nodup →
    (∀ x ∈ L, ∃ k, keyAt ks x = some k) →
    (∀ b, b < n → Chain s.next.get (s.table.get b) (Bn b)) →
    (∀ b, b < n → (Bn b).Nodup) →
    (∀ b, b < n → ∀ x ∈ Bn b, x ∉ L) →
    ∃ Bn' : Nat → List Nat,
      (∀ b, b < n → Chain (moveChain hash fuel e s).next.get ((moveChain hash fuel e s).table.get b) (Bn' b)) ∧
      (∀ b, b < n → (Bn' b).Nodup) ∧
      (∀ b, b < n → ∀ x, x ∈ Bn' b ↔ x ∈ Bn b ∨ (x ∈ L ∧ ∃ k, keyAt ks x = some k ∧ hash k % n = b)) ∧
      (∀ x, x ∉ L → (moveChain hash fuel e s).next.get x = s.next.get x)
  | [], fuel, e, s, Bn, _, _, _, hc, _, _, hB, hBn, _ => by
    have he : e = 0 := hc
    subst he
    have : moveChain hash fuel 0 s = s := by cases fuel <;> simp [moveChain]
    rw [this]
    exact ⟨Bn, hB, hBn, by simp, fun _ _ => rfl⟩
  | a :: t, 0, _, _, _, hl, _, _, _, _, _, _, _, _ => by simp at hl
  | a :: t, fuel + 1, e, s, Bn, hl, htl, hkey, ⟨h1, h2, h3⟩, hnd, hval, hB, hBn, hdisj => by
    subst h1
    obtain ⟨k, hk⟩ := hval e (by simp)
    have hke : s.key.get? e = some k := by rw [hkey]; exact hk
    have hat : e ∉ t := (List.nodup_cons.1 hnd).1
    have htnd : t.Nodup := (List.nodup_cons.1 hnd).2
    have hidx : hash k % n < n := Nat.mod_lt _ hn
    -- one iteration
    have hstep : moveChain hash (fuel + 1) e s =
        moveChain hash fuel (s.next.get e)
          { s with next := s.next.set e (s.table.get (hash k % n)), table := s.table.set (hash k % n) e } := by
      conv => lhs; unfold moveChain
      simp only [if_neg h2, hke, htl]
    rw [hstep]
    let s' : State κ :=
      { s with next := s.next.set e (s.table.get (hash k % n)), table := s.table.set (hash k % n) e }
    let Bn1 : Nat → List Nat := fun b => if b = hash k % n then e :: Bn b else Bn b
    have hnx : ∀ x, x ≠ e → s'.next.get x = s.next.get x := fun x hx => Mem.get_set_ne _ _ _ _ hx
    have heB : ∀ b, b < n → e ∉ Bn b := fun b hb hm => hdisj b hb e hm (by simp)
    have ih := moveChain_spec hash ks n hn t fuel (s.next.get e) s' Bn1 (by simpa using hl) htl hkey
      (Chain.congr h3 (fun x hx => hnx x (fun hxe => hat (hxe ▸ hx)))) htnd
      (fun x hx => hval x (by simp [hx]))
      (by
        intro b hb
        by_cases hbi : b = hash k % n
        · subst hbi
          simp only [Bn1, if_true]
          refine ⟨by simp [s'], h2, ?_⟩
          have : s'.next.get e = s.table.get (hash k % n) := by simp [s']
          rw [this]
          exact Chain.congr (hB _ hb) (fun x hx => hnx x (fun hxe => heB _ hb (hxe ▸ hx)))
        · simp only [Bn1, if_neg hbi]
          have : s'.table.get b = s.table.get b := Mem.get_set_ne _ _ _ _ hbi
          rw [this]
          exact Chain.congr (hB _ hb) (fun x hx => hnx x (fun hxe => heB _ hb (hxe ▸ hx))))
      (by
        intro b hb
        by_cases hbi : b = hash k % n
        · simp only [Bn1, if_pos hbi]
          exact List.nodup_cons.2 ⟨heB b hb, hBn b hb⟩
        · simp only [Bn1, if_neg hbi]; exact hBn b hb)
      (by
        intro b hb x hx
        by_cases hbi : b = hash k % n
        · simp only [Bn1, if_pos hbi] at hx
          rcases List.mem_cons.1 hx with h | h
          · subst h; exact hat
          · exact fun hxt => hdisj b hb x h (by simp [hxt])
        · simp only [Bn1, if_neg hbi] at hx
          exact fun hxt => hdisj b hb x hx (by simp [hxt]))
    obtain ⟨Bn', c1, c2, c3, c4⟩ := ih
    refine ⟨Bn', c1, c2, ?_, ?_⟩
    · intro b hb x
      rw [c3 b hb x]
      by_cases hbi : b = hash k % n
      · simp only [Bn1, if_pos hbi, List.mem_cons]
        constructor
        · rintro ((h | h) | ⟨h, hh⟩)
          · exact Or.inr ⟨Or.inl h, k, h ▸ hk, hbi.symm⟩
          · exact Or.inl h
          · exact Or.inr ⟨Or.inr h, hh⟩
        · rintro (h | ⟨h | h, hh⟩)
          · exact Or.inl (Or.inr h)
          · exact Or.inl (Or.inl h)
          · exact Or.inr ⟨h, hh⟩
      · simp only [Bn1, if_neg hbi, List.mem_cons]
        constructor
        · rintro (h | ⟨h, hh⟩)
          · exact Or.inl h
          · exact Or.inr ⟨Or.inr h, hh⟩
        · rintro (h | ⟨h | h, hh⟩)
          · exact Or.inl h
          · obtain ⟨k', hk', hb'⟩ := hh
            subst h
            rw [hk] at hk'
            cases hk'
            exact absurd hb'.symm hbi
          · exact Or.inr ⟨h, hh⟩
    · intro x hx
      have hxe : x ≠ e := fun h => hx (by simp [h])
      have hxt : x ∉ t := fun h => hx (by simp [h])
      rw [c4 x hxt]
      exact hnx x hxe

theorem resizeOuter_frame (hash : κ → Nat) (oldT oldR : Nat → Nat) : ∀ (i : Nat) (s : State κ),
    (resizeOuter hash oldT oldR i s).key = s.key ∧ (resizeOuter hash oldT oldR i s).idx = s.idx ∧
    (resizeOuter hash oldT oldR i s).inl = s.inl ∧
    (resizeOuter hash oldT oldR i s).tableLength = s.tableLength ∧
    (resizeOuter hash oldT oldR i s).threshold = s.threshold ∧
    (resizeOuter hash oldT oldR i s).count = s.count ∧
    (resizeOuter hash oldT oldR i s).tableLengthIndex = s.tableLengthIndex ∧
    (resizeOuter hash oldT oldR i s).defaultEntry = s.defaultEntry
  | 0, _ => by simp [resizeOuter]
  | i + 1, s => by
    unfold resizeOuter
    have f := moveChain_frame hash (s.count + 1) (oldT i) s
    have r := resizeOuter_frame hash oldT oldR i
      { moveChain hash (s.count + 1) (oldT i) s with
        rev := (moveChain hash (s.count + 1) (oldT i) s).rev.set (i + 1) (oldR (i + 1)) }
    simp only at r
    obtain ⟨f1, f2, _, f4, f5, f6, f7, f8, f9⟩ := f
    obtain ⟨r1, r2, r3, r4, r5, r6, r7, r8⟩ := r
    exact ⟨r1.trans f1, r2.trans f2, r3.trans f4, r4.trans f5, r5.trans f6, r6.trans f7, r7.trans f8, r8.trans f9⟩

theorem resizeOuter_rev (hash : κ → Nat) (oldT oldR : Nat → Nat) : ∀ (i : Nat) (s : State κ) (j : Nat),
    (resizeOuter hash oldT oldR i s).rev.get j = if 1 ≤ j ∧ j ≤ i then oldR j else s.rev.get j
  | 0, s, j => by
    have : ¬ (1 ≤ j ∧ j ≤ 0) := by omega
    rw [if_neg this]; rfl
  | i + 1, s, j => by
    unfold resizeOuter
    rw [resizeOuter_rev hash oldT oldR i _ j]
    simp only [Mem.get_set, (moveChain_frame hash (s.count + 1) (oldT i) s).2.2.1]
    by_cases h1 : 1 ≤ j ∧ j ≤ i
    · have : 1 ≤ j ∧ j ≤ i + 1 := by omega
      simp [h1, this]
    · by_cases h2 : j = i + 1
      · subst h2; simp
      · have : ¬ (1 ≤ j ∧ j ≤ i + 1) := by omega
        simp [h1, h2, this]

theorem keyAt_fun {ks : List κ} {x : Nat} {k k' : κ} (h : keyAt ks x = some k) (h' : keyAt ks x = some k') :
    k = k' := by
  rw [h] at h'; cases h'; rfl

theorem resizeOuter_spec (hash : κ → Nat) (ks : List κ) (n m : Nat) (hn : 0 < n)
    (oldT oldR : Nat → Nat) (Bo : Nat → List Nat)
    (hBoNd : ∀ b, b < m → (Bo b).Nodup)
    (hBoMem : ∀ b, b < m → ∀ x, x ∈ Bo b ↔ ∃ k, keyAt ks x = some k ∧ hash k % m = b) :
    ∀ (i : Nat) (s : State κ) (Bn : Nat → List Nat), i ≤ m → s.tableLength = n → s.count = ks.length →
    (∀ x, s.key.get? x = keyAt ks x) →
    (∀ b, b < i → Chain s.next.get (oldT b) (Bo b)) →
    (∀ b, b < n → Chain s.next.get (s.table.get b) (Bn b)) →
    (∀ b, b < n → (Bn b).Nodup) →
    (∀ b, b < n → ∀ x, x ∈ Bn b ↔ ∃ k, keyAt ks x = some k ∧ hash k % n = b ∧ i ≤ hash k % m) →
    ∃ Bn' : Nat → List Nat,
      (∀ b, b < n → Chain (resizeOuter hash oldT oldR i s).next.get
          ((resizeOuter hash oldT oldR i s).table.get b) (Bn' b)) ∧
      (∀ b, b < n → (Bn' b).Nodup) ∧
      (∀ b, b < n → ∀ x, x ∈ Bn' b ↔ ∃ k, keyAt ks x = some k ∧ hash k % n = b)
  | 0, s, Bn, _, _, _, _, _, hB, hBn, hmem => by
    refine ⟨Bn, hB, hBn, ?_⟩
    intro b hb x
    rw [hmem b hb x]
    constructor
    · rintro ⟨k, h1, h2, _⟩; exact ⟨k, h1, h2⟩
    · rintro ⟨k, h1, h2⟩; exact ⟨k, h1, h2, Nat.zero_le _⟩
  | i + 1, s, Bn, him, htl, hcnt, hkey, hold, hB, hBn, hmem => by
    have hi : i < m := by omega
    have hlen : (Bo i).length ≤ s.count + 1 := by
      have := nodup_length_le ks.length (Bo i) (hBoNd i hi) (by
        intro x hx
        obtain ⟨k, hk, _⟩ := (hBoMem i hi x).1 hx
        exact keyAt_some_range hk)
      omega
    obtain ⟨Bn1, c1, c2, c3, c4⟩ := moveChain_spec hash ks n hn (Bo i) (s.count + 1) (oldT i) s Bn hlen htl hkey
      (hold i (by omega)) (hBoNd i hi)
      (fun x hx => by obtain ⟨k, hk, _⟩ := (hBoMem i hi x).1 hx; exact ⟨k, hk⟩) hB hBn
      (by
        intro b hb x hx hxo
        obtain ⟨k, hk, _, hge⟩ := (hmem b hb x).1 hx
        obtain ⟨k', hk', hi'⟩ := (hBoMem i hi x).1 hxo
        have := keyAt_fun hk hk'
        subst this
        omega)
    have f := moveChain_frame hash (s.count + 1) (oldT i) s
    unfold resizeOuter
    apply resizeOuter_spec hash ks n m hn oldT oldR Bo hBoNd hBoMem i _ Bn1 (by omega)
    · exact f.2.2.2.2.1.trans htl
    · exact f.2.2.2.2.2.2.1.trans hcnt
    · intro x
      show (moveChain hash (s.count + 1) (oldT i) s).key.get? x = _
      rw [f.1]; exact hkey x
    · intro b hb
      refine Chain.congr (hold b (by omega)) (fun x hx => c4 x ?_)
      intro hxo
      obtain ⟨k, hk, hkb⟩ := (hBoMem b (by omega) x).1 hx
      obtain ⟨k', hk', hi'⟩ := (hBoMem i hi x).1 hxo
      have := keyAt_fun hk hk'
      subst this
      omega
    · exact c1
    · exact c2
    · intro b hb x
      rw [c3 b hb x, hmem b hb x]
      constructor
      · rintro (⟨k, h1, h2, h3⟩ | ⟨hxo, k, h1, h2⟩)
        · exact ⟨k, h1, h2, by omega⟩
        · obtain ⟨k', hk', hi'⟩ := (hBoMem i hi x).1 hxo
          have := keyAt_fun h1 hk'
          subst this
          exact ⟨k, h1, h2, by omega⟩
      · rintro ⟨k, h1, h2, h3⟩
        by_cases he : hash k % m = i
        · exact Or.inr ⟨(hBoMem i hi x).2 ⟨k, h1, he⟩, k, h1, h2⟩
        · exact Or.inl ⟨k, h1, h2, by omega⟩

theorem resize_fields (hash : κ → Nat) (s : State κ) (n : Nat) :
    (resize hash s n).key = s.key ∧ (resize hash s n).idx = s.idx ∧ (resize hash s n).inl = false ∧
    (resize hash s n).tableLength = n ∧ (resize hash s n).threshold = n ∧
    (resize hash s n).count = s.count ∧ (resize hash s n).tableLengthIndex = s.tableLengthIndex ∧
    (resize hash s n).defaultEntry = s.defaultEntry := by
  unfold resize
  exact resizeOuter_frame hash _ _ _ _

/-- growing `resize` (the only kind `rehash` and `AllocateMoreString` perform) keeps every entry -/
theorem resize_inv {hash : κ → Nat} {s : State κ} {ks : List κ} {B : Nat → List Nat}
    (h : Inv hash s ks B) {n : Nat} (hge : s.tableLength ≤ n) :
    ∃ B', Inv hash (resize hash s n) ks B' := by
  have hn : 0 < n := Nat.lt_of_lt_of_le h.tl_pos hge
  have hmin : min s.tableLength n = s.tableLength := Nat.min_eq_left hge
  obtain ⟨f1, f2, f3, f4, f5, f6, f7, f8⟩ := resize_fields hash s n
  have hrev : ∀ j, (resize hash s n).rev.get j = if 1 ≤ j ∧ j ≤ s.tableLength then revGet s j else 0 := by
    intro j
    unfold resize
    rw [resizeOuter_rev, hmin]
    simp
  obtain ⟨B', c1, c2, c3⟩ := resizeOuter_spec hash ks n s.tableLength hn (tableGet s) (revGet s) B
    h.bnodup h.mem s.tableLength
    { s with tableLength := n, threshold := n, table := .empty, rev := .empty, inl := false }
    (fun _ => []) (Nat.le_refl _) rfl h.count_eq h.key_eq
    (fun b hb => h.chain b hb)
    (fun b _ => by simp [Chain])
    (fun b _ => List.nodup_nil)
    (by
      intro b _ x
      simp only [List.not_mem_nil, false_iff]
      rintro ⟨k, _, _, hk⟩
      have := Nat.mod_lt (hash k) h.tl_pos
      omega)
  have hres : resize hash s n = resizeOuter hash (tableGet s) (revGet s) s.tableLength
      { s with tableLength := n, threshold := n, table := .empty, rev := .empty, inl := false } := by
    unfold resize; simp only [hmin]
  refine ⟨B', ?_⟩
  refine ⟨f6.trans h.count_eq, h.nodup, ?_, ?_, ?_, ?_, ?_, ?_, ?_, ?_, ?_, ?_, ?_⟩
  · intro e; rw [f1]; exact h.key_eq e
  · intro e h1 h2; rw [f2]; rw [f6] at h2; exact h.idx_eq e h1 h2
  · intro i h1 h2
    rw [f6] at h2
    have hle := h.le
    have hr : revGet (resize hash s n) i = (resize hash s n).rev.get i := by simp [revGet, f3]
    rw [hr, hrev i, if_pos ⟨h1, by omega⟩]
    exact h.rev_eq i h1 h2
  · rw [f4]; exact hn
  · rw [f4, f5]
  · rw [f4, f6]; exact Nat.le_trans h.le hge
  · rw [f3]; intro hc; cases hc
  · rw [f8, f6]; exact h.dflt
  · intro b hb
    rw [f4] at hb
    have := c1 b hb
    rw [← hres] at this
    simpa [tableGet, f3] using this
  · intro b hb; rw [f4] at hb; exact c2 b hb
  · intro b hb e; rw [f4] at hb ⊢; exact c3 b hb e

/-! ### `addNewKeyEntry` -/

theorem addNewCore_heap (s : State κ) (key : κ) (index : Nat) (hinl : s.inl = false)
    (hd : s.defaultEntry = 0 → s.table.get index = 0) :
    (addNewCore s key index).2 = s.count + 1 ∧
    (addNewCore s key index).1.count = s.count + 1 ∧
    (addNewCore s key index).1.tableLength = s.tableLength ∧
    (addNewCore s key index).1.threshold = s.threshold ∧
    (addNewCore s key index).1.tableLengthIndex = s.tableLengthIndex ∧
    (addNewCore s key index).1.inl = false ∧
    (addNewCore s key index).1.key = s.key.set (s.count + 1) key ∧
    (addNewCore s key index).1.idx = s.idx.set (s.count + 1) (s.count + 1) ∧
    (∀ x, (addNewCore s key index).1.next.get x = if x = s.count + 1 then s.table.get index else s.next.get x) ∧
    (addNewCore s key index).1.table = s.table.set index (s.count + 1) ∧
    (addNewCore s key index).1.rev = s.rev.set (s.count + 1) (s.count + 1) ∧
    (addNewCore s key index).1.defaultEntry = (if s.defaultEntry = 0 then s.count + 1 else s.defaultEntry) := by
  by_cases h0 : s.defaultEntry = 0
  · have := hd h0
    simp [addNewCore, tableSet, revSet, hinl, h0, Mem.get_set, this]
  · simp [addNewCore, tableSet, revSet, tableGet, hinl, h0, Mem.get_set]
    intro x; split <;> rfl

theorem addNewCore_inl (s : State κ) (key : κ) (index : Nat) (hinl : s.inl = true)
    (hd : s.defaultEntry = 0) (hc : s.count = 0) :
    (addNewCore s key index).2 = 1 ∧
    (addNewCore s key index).1.count = 1 ∧
    (addNewCore s key index).1.tableLength = s.tableLength ∧
    (addNewCore s key index).1.threshold = s.threshold ∧
    (addNewCore s key index).1.tableLengthIndex = s.tableLengthIndex ∧
    (addNewCore s key index).1.inl = true ∧
    (addNewCore s key index).1.key = s.key.set 1 key ∧
    (addNewCore s key index).1.idx = s.idx.set 1 1 ∧
    (∀ x, (addNewCore s key index).1.next.get x = if x = 1 then 0 else s.next.get x) ∧
    (addNewCore s key index).1.defaultEntry = 1 := by
  simp [addNewCore, tableSet, revSet, hinl, hd, hc, Mem.get_set]

theorem key_eq_append {m : OMem κ} {ks : List κ} (h : ∀ x, m.get? x = keyAt ks x) (key : κ) :
    ∀ x, (m.set (ks.length + 1) key).get? x = keyAt (ks ++ [key]) x := by
  intro x
  rw [OMem.get?_set]
  by_cases hx : x = ks.length + 1
  · subst hx; simp [keyAt_append_new]
  · rw [if_neg hx, h x]
    by_cases hle : x ≤ ks.length
    · rw [keyAt_append_old hle]
    · rw [keyAt_none_of_gt (by omega), keyAt_none_of_gt (by simp; omega)]

theorem mem_append_iff {hash : κ → Nat} {ks : List κ} {key : κ} {tl b : Nat} {Bb : List Nat}
    (hm : ∀ e, e ∈ Bb ↔ ∃ k, keyAt ks e = some k ∧ hash k % tl = b) (e : Nat) :
    (∃ k, keyAt (ks ++ [key]) e = some k ∧ hash k % tl = b) ↔
      (e = ks.length + 1 ∧ hash key % tl = b) ∨ e ∈ Bb := by
  constructor
  · rintro ⟨k, hk, hb⟩
    by_cases he : e = ks.length + 1
    · subst he
      rw [keyAt_append_new] at hk; cases hk
      exact Or.inl ⟨rfl, hb⟩
    · have := keyAt_some_range hk
      simp at this
      have hle : e ≤ ks.length := by omega
      rw [keyAt_append_old hle] at hk
      exact Or.inr ((hm e).2 ⟨k, hk, hb⟩)
  · rintro (⟨he, hb⟩ | he)
    · subst he; exact ⟨key, keyAt_append_new, hb⟩
    · obtain ⟨k, hk, hb⟩ := (hm e).1 he
      have := keyAt_some_range hk
      exact ⟨k, by rw [keyAt_append_old this.2]; exact hk, hb⟩

theorem addNewCore_inv {hash : κ → Nat} {s : State κ} {ks : List κ} {B : Nat → List Nat}
    (h : Inv hash s ks B) {key : κ} (hk : key ∉ ks) (hlt : s.count < s.tableLength) :
    (∃ B', Inv hash (addNewCore s key (hash key % s.tableLength)).1 (ks ++ [key]) B') ∧
    (addNewCore s key (hash key % s.tableLength)).2 = s.count + 1 ∧
    (addNewCore s key (hash key % s.tableLength)).1.tableLength = s.tableLength := by
  have hidx : hash key % s.tableLength < s.tableLength := Nat.mod_lt _ h.tl_pos
  have hnd : (ks ++ [key]).Nodup := by
    rw [List.nodup_append]
    refine ⟨h.nodup, by simp, ?_⟩
    intro a ha b hb
    simp at hb; subst hb
    exact fun e => hk (e ▸ ha)
  have hle_of_mem : ∀ b, b < s.tableLength → ∀ x ∈ B b, x ≠ s.count + 1 := by
    intro b hb x hx
    obtain ⟨k, hk', _⟩ := (h.mem b hb x).1 hx
    have := keyAt_some_range hk'
    rw [h.count_eq]; omega
  cases hinl : s.inl with
  | true =>
    have htl := h.inl_tl hinl
    have hc : s.count = 0 := by omega
    have hd : s.defaultEntry = 0 := h.dflt.2 hc
    have hks : ks = [] := List.eq_nil_of_length_eq_zero (by rw [← h.count_eq]; exact hc)
    obtain ⟨g0, g1, g2, g3, g4, g5, g6, g7, g8, g9⟩ := addNewCore_inl s key (hash key % s.tableLength) hinl hd hc
    refine ⟨⟨fun _ => [1], ?_⟩, by rw [g0, hc], g2⟩
    refine ⟨by rw [g1]; simp [hks], hnd, ?_, ?_, ?_, ?_, ?_, ?_, ?_, ?_, ?_, ?_, ?_⟩
    · rw [g6]
      have := key_eq_append h.key_eq key
      rw [hks] at this ⊢
      simpa using this
    · intro e h1 h2; rw [g1] at h2
      have : e = 1 := by omega
      subst this; rw [g7]; simp
    · intro i h1 h2; rw [g1] at h2
      have : i = 1 := by omega
      subst this; simp [revGet, g5, g9]
    · rw [g2]; exact h.tl_pos
    · rw [g2, g3]; exact h.thr
    · rw [g1, g2, htl]; exact Nat.le_refl _
    · intro _; rw [g2]; exact htl
    · rw [g9, g1]
    · intro b hb
      simp only [tableGet, g5, g9, if_true]
      exact ⟨rfl, by decide, by rw [g8]; simp [Chain]⟩
    · intro b _; simp
    · intro b hb e
      rw [g2, htl] at hb ⊢
      have hb0 : b = 0 := by omega
      subst hb0
      rw [mem_append_iff (Bb := B 0) (by
        intro e'
        have := h.mem 0 (by omega) e'
        rw [htl] at this
        exact this)]
      have hB0 : ∀ e', e' ∉ B 0 := by
        intro e' he'
        obtain ⟨k, hk', _⟩ := (h.mem 0 (by omega) e').1 he'
        rw [hks] at hk'
        simp [keyAt] at hk'
      simp [hks, hB0, Nat.mod_one]
  | false =>
    have hd : s.defaultEntry = 0 → s.table.get (hash key % s.tableLength) = 0 := by
      intro hd0
      have hc : s.count = 0 := h.dflt.1 hd0
      have hchain := h.chain _ hidx
      have hnil : B (hash key % s.tableLength) = [] := by
        apply List.eq_nil_iff_forall_not_mem.2
        intro x hx
        obtain ⟨k, hk', _⟩ := (h.mem _ hidx x).1 hx
        have := keyAt_some_range hk'
        rw [← h.count_eq] at this; omega
      rw [hnil] at hchain
      simpa [tableGet, hinl, Chain] using hchain
    obtain ⟨g0, g1, g2, g3, g4, g5, g6, g7, g8, g9, g10, g11⟩ :=
      addNewCore_heap s key (hash key % s.tableLength) hinl hd
    refine ⟨⟨fun b => if b = hash key % s.tableLength then (s.count + 1) :: B b else B b, ?_⟩, g0, g2⟩
    have htg : ∀ b, tableGet s b = s.table.get b := by intro b; simp [tableGet, hinl]
    have hnx : ∀ b, b < s.tableLength → ∀ x ∈ B b,
        (addNewCore s key (hash key % s.tableLength)).1.next.get x = s.next.get x := by
      intro b hb x hx
      rw [g8 x, if_neg (hle_of_mem b hb x hx)]
    refine ⟨by rw [g1, h.count_eq]; simp, hnd, ?_, ?_, ?_, ?_, ?_, ?_, ?_, ?_, ?_, ?_, ?_⟩
    · rw [g6, h.count_eq]; exact key_eq_append h.key_eq key
    · intro e h1 h2
      rw [g1] at h2
      rw [g7, Mem.get_set]
      split
      · omega
      · exact h.idx_eq e h1 (by omega)
    · intro i h1 h2
      rw [g1] at h2
      simp only [revGet, g5, g10, Mem.get_set]
      split
      · simp_all
      · split
        · omega
        · have := h.rev_eq i h1 (by omega)
          simpa [revGet, hinl] using this
    · rw [g2]; exact h.tl_pos
    · rw [g2, g3]; exact h.thr
    · rw [g1, g2]; omega
    · rw [g5]; intro hc; cases hc
    · rw [g11, g1]
      constructor
      · intro h0
        split at h0 <;> omega
      · intro h0; omega
    · intro b hb
      rw [g2] at hb
      have hcb := h.chain b hb
      rw [htg] at hcb
      simp only [tableGet, g5, g9, Mem.get_set]
      by_cases hbi : b = hash key % s.tableLength
      · subst hbi
        simp only [if_true]
        refine ⟨by simp, by omega, ?_⟩
        rw [g8, if_pos rfl]
        exact Chain.congr hcb (hnx _ hb)
      · simp only [if_neg hbi]
        simp only [Bool.false_eq_true, if_false]
        exact Chain.congr hcb (hnx _ hb)
    · intro b hb
      rw [g2] at hb
      by_cases hbi : b = hash key % s.tableLength
      · simp only [if_pos hbi]
        exact List.nodup_cons.2 ⟨fun hm => hle_of_mem b hb _ hm rfl, h.bnodup b hb⟩
      · simp only [if_neg hbi]; exact h.bnodup b hb
    · intro b hb e
      rw [g2] at hb ⊢
      rw [mem_append_iff (h.mem b hb), ← h.count_eq]
      by_cases hbi : b = hash key % s.tableLength
      · simp only [if_pos hbi, List.mem_cons]
        constructor
        · rintro (he | he)
          · exact Or.inl ⟨he, hbi.symm⟩
          · exact Or.inr he
        · rintro (⟨he, _⟩ | he)
          · exact Or.inl he
          · exact Or.inr he
      · simp only [if_neg hbi]
        constructor
        · intro he; exact Or.inr he
        · rintro (⟨_, hb'⟩ | he)
          · exact absurd hb'.symm hbi
          · exact he

end Morfuse.Dict
