import MorfuseModel.Dict.Model
import MorfuseModel.Dict.Spec
/-!
# Invariant of the arrayset / StringDictionary model and its preservation

`Inv hash s ks B`: `ks` is the list of interned texts in id order (ghost), `B b` is the list of
entries on the chain of bucket `b` (ghost).  Everything holds for an arbitrary `hash`.
-/
namespace Morfuse.Dict
set_option linter.unusedSectionVars false
variable {κ : Type} [DecidableEq κ]

/-! ### generic facts -/

/-- a null-terminated singly linked chain starting at `e` visits exactly `L` -/
def Chain (nx : Nat → Nat) : Nat → List Nat → Prop
  | e, [] => e = 0
  | e, a :: t => e = a ∧ a ≠ 0 ∧ Chain nx (nx a) t

theorem Chain.congr {nx nx' : Nat → Nat} : ∀ {L : List Nat} {e : Nat}, Chain nx e L →
    (∀ x ∈ L, nx' x = nx x) → Chain nx' e L
  | [], _, h, _ => h
  | a :: t, e, ⟨h1, h2, h3⟩, hx => by
    refine ⟨h1, h2, ?_⟩
    rw [hx a (by simp)]
    exact Chain.congr h3 (fun x hm => hx x (by simp [hm]))

theorem Chain.zero_not_mem {nx : Nat → Nat} : ∀ {L : List Nat} {e : Nat}, Chain nx e L → 0 ∉ L
  | [], _, _ => by simp
  | a :: t, e, ⟨_, h2, h3⟩ => by
    intro hm
    rcases List.mem_cons.1 hm with h | h
    · exact h2 h.symm
    · exact Chain.zero_not_mem h3 h

/-- pigeonhole: a duplicate-free list of numbers in `1..n` has at most `n` elements -/
theorem nodup_length_le : ∀ (n : Nat) (l : List Nat), l.Nodup → (∀ x ∈ l, 1 ≤ x ∧ x ≤ n) → l.length ≤ n
  | 0, l, _, h => by
    cases l with
    | nil => simp
    | cons a t => have := h a (by simp); omega
  | n + 1, l, hnd, h => by
    have h1 : (l.erase (n + 1)).length ≤ n := by
      apply nodup_length_le n _ (hnd.erase _)
      intro x hx
      have hx' := (List.Nodup.mem_erase_iff hnd).1 hx
      have := h x hx'.2
      have := hx'.1
      omega
    by_cases hm : n + 1 ∈ l
    · have := List.length_erase_of_mem hm
      omega
    · rw [List.erase_of_not_mem hm] at h1; omega

/-- the text with id `e` (`e ≥ 1`) in the ghost list -/
def keyAt (ks : List κ) (e : Nat) : Option κ := if e = 0 then none else ks[e - 1]?

theorem keyAt_some_range {ks : List κ} {e : Nat} {k : κ} (h : keyAt ks e = some k) :
    1 ≤ e ∧ e ≤ ks.length := by
  unfold keyAt at h
  split at h
  · cases h
  · have := (List.getElem?_eq_some_iff.1 h).1
    omega

theorem keyAt_mem {ks : List κ} {e : Nat} {k : κ} (h : keyAt ks e = some k) : k ∈ ks := by
  unfold keyAt at h
  split at h
  · cases h
  · exact List.mem_of_getElem? h

theorem keyAt_inj {ks : List κ} (hnd : ks.Nodup) {e e' : Nat} {k : κ}
    (h : keyAt ks e = some k) (h' : keyAt ks e' = some k) : e = e' := by
  have r := keyAt_some_range h
  have r' := keyAt_some_range h'
  unfold keyAt at h h'
  rw [if_neg (by omega)] at h h'
  obtain ⟨h1, h2⟩ := List.getElem?_eq_some_iff.1 h
  obtain ⟨h1', h2'⟩ := List.getElem?_eq_some_iff.1 h'
  have := (List.getElem_inj hnd).1 (h2.trans h2'.symm)
  omega

theorem keyAt_of_mem {ks : List κ} {k : κ} (h : k ∈ ks) : ∃ e, keyAt ks e = some k := by
  obtain ⟨i, hi, hk⟩ := List.getElem_of_mem h
  refine ⟨i + 1, ?_⟩
  simp [keyAt, List.getElem?_eq_getElem hi, hk]

theorem keyAt_append_old {ks : List κ} {k : κ} {e : Nat} (h : e ≤ ks.length) :
    keyAt (ks ++ [k]) e = keyAt ks e := by
  unfold keyAt
  split
  · rfl
  · rw [List.getElem?_append_left (by omega)]

theorem keyAt_append_new {ks : List κ} {k : κ} : keyAt (ks ++ [k]) (ks.length + 1) = some k := by
  simp [keyAt]

theorem keyAt_none_of_gt {ks : List κ} {e : Nat} (h : ks.length < e) : keyAt ks e = none := by
  unfold keyAt
  split
  · rfl
  · exact List.getElem?_eq_none (by omega)

/-! ### the invariant -/

structure Inv (hash : κ → Nat) (s : State κ) (ks : List κ) (B : Nat → List Nat) : Prop where
  count_eq : s.count = ks.length
  nodup : ks.Nodup
  key_eq : ∀ e, s.key.get? e = keyAt ks e
  idx_eq : ∀ e, 1 ≤ e → e ≤ s.count → s.idx.get e = e
  rev_eq : ∀ i, 1 ≤ i → i ≤ s.count → revGet s i = i
  tl_pos : 0 < s.tableLength
  thr : s.threshold = s.tableLength
  le : s.count ≤ s.tableLength
  inl_tl : s.inl = true → s.tableLength = 1
  dflt : s.defaultEntry = 0 ↔ s.count = 0
  chain : ∀ b, b < s.tableLength → Chain s.next.get (tableGet s b) (B b)
  bnodup : ∀ b, b < s.tableLength → (B b).Nodup
  mem : ∀ b, b < s.tableLength → ∀ e, e ∈ B b ↔ ∃ k, keyAt ks e = some k ∧ hash k % s.tableLength = b

theorem Inv.bucket_len {hash : κ → Nat} {s : State κ} {ks : List κ} {B : Nat → List Nat}
    (h : Inv hash s ks B) {b : Nat} (hb : b < s.tableLength) : (B b).length ≤ s.count := by
  apply nodup_length_le _ _ (h.bnodup b hb)
  intro x hx
  obtain ⟨k, hk, _⟩ := (h.mem b hb x).1 hx
  have := keyAt_some_range hk
  rw [h.count_eq]; exact this

theorem init_inv (hash : κ → Nat) : Inv hash (init : State κ) [] (fun _ => []) := by
  refine ⟨rfl, List.nodup_nil, ?_, ?_, ?_, ?_, rfl, ?_, ?_, ?_, ?_, ?_, ?_⟩
  · intro e; simp [init, keyAt]
  · intro e h1 h2; simp [init] at h2; omega
  · intro e h1 h2; simp [init] at h2; omega
  · simp [init]
  · simp [init]
  · simp [init]
  · simp [init]
  · intro b _; simp [init, tableGet, Chain]
  · intro b _; simp
  · intro b _ e; simp [keyAt]

/-! ### lookup -/

theorem findLoop_spec (s : State κ) (key : κ) : ∀ (L : List Nat) (fuel e : Nat),
    Chain s.next.get e L → L.length ≤ fuel →
    (findLoop s key fuel e ≠ 0 → findLoop s key fuel e ∈ L ∧ s.key.get? (findLoop s key fuel e) = some key) ∧
    (findLoop s key fuel e = 0 → ∀ x ∈ L, s.key.get? x ≠ some key)
  | [], fuel, e, hc, _ => by
    have he : e = 0 := hc
    subst he
    cases fuel <;> simp [findLoop]
  | a :: t, 0, e, _, hl => by simp at hl
  | a :: t, fuel + 1, e, ⟨h1, h2, h3⟩, hl => by
    subst h1
    simp only [findLoop, if_neg h2]
    by_cases hk : s.key.get? e = some key
    · simp [hk, h2]
    · simp only [if_neg hk]
      have ih := findLoop_spec s key t fuel (s.next.get e) h3 (by simpa using hl)
      refine ⟨fun hne => ⟨List.mem_cons_of_mem _ (ih.1 hne).1, (ih.1 hne).2⟩, ?_⟩
      intro h0 x hx
      rcases List.mem_cons.1 hx with h | h
      · subst h; exact hk
      · exact ih.2 h0 x h

/-- `findKeyEntry` returns the entry whose key is `key`, or null when `key` was never interned -/
theorem findKeyEntry_spec {hash : κ → Nat} {s : State κ} {ks : List κ} {B : Nat → List Nat}
    (h : Inv hash s ks B) (key : κ) :
    (findKeyEntry hash s key ≠ 0 → keyAt ks (findKeyEntry hash s key) = some key) ∧
    (findKeyEntry hash s key = 0 → key ∉ ks) := by
  have hb : hash key % s.tableLength < s.tableLength := Nat.mod_lt _ h.tl_pos
  have sp := findLoop_spec s key (B (hash key % s.tableLength)) (s.count + 1)
    (tableGet s (hash key % s.tableLength)) (h.chain _ hb) (by have := h.bucket_len hb; omega)
  refine ⟨fun hne => ?_, fun h0 hm => ?_⟩
  · have := (sp.1 hne).2
    rw [h.key_eq] at this
    exact this
  · obtain ⟨e, he⟩ := keyAt_of_mem hm
    have hmem : e ∈ B (hash key % s.tableLength) := (h.mem _ hb e).2 ⟨key, he, rfl⟩
    have := sp.2 h0 e hmem
    rw [h.key_eq] at this
    exact this he

/-! ### `resize` -/

theorem moveChain_frame (hash : κ → Nat) : ∀ (fuel e : Nat) (s : State κ),
    (moveChain hash fuel e s).key = s.key ∧ (moveChain hash fuel e s).idx = s.idx ∧
    (moveChain hash fuel e s).rev = s.rev ∧ (moveChain hash fuel e s).inl = s.inl ∧
    (moveChain hash fuel e s).tableLength = s.tableLength ∧
    (moveChain hash fuel e s).threshold = s.threshold ∧ (moveChain hash fuel e s).count = s.count ∧
    (moveChain hash fuel e s).tableLengthIndex = s.tableLengthIndex ∧
    (moveChain hash fuel e s).defaultEntry = s.defaultEntry
  | 0, _, _ => by simp [moveChain]
  | fuel + 1, e, s => by
    unfold moveChain
    split
    · simp
    · split
      · simp
      · exact moveChain_frame hash fuel _ _

theorem moveChain_spec (hash : κ → Nat) (ks : List κ) (n : Nat) (hn : 0 < n) :
    ∀ (L : List Nat) (fuel e : Nat) (s : State κ) (Bn : Nat → List Nat),
    L.length ≤ fuel → s.tableLength = n →
    (∀ x, s.key.get? x = keyAt ks x) →
    Chain s.next.get e L → L.Nodup →
    (∀ x ∈ L, ∃ k, keyAt ks x = some k) →
    (∀ b, b < n → Chain s.next.get (s.table.get b) (Bn b)) →
    (∀ b, b < n → (Bn b).Nodup) →
    (∀ b, b < n → ∀ x ∈ Bn b, x ∉ L) →
    ∃ Bn' : Nat → List Nat,
      (∀ b, b < n → Chain (moveChain hash fuel e s).next.get ((moveChain hash fuel e s).table.get b) (Bn' b)) ∧
      (∀ b, b < n → (Bn' b).Nodup) ∧
      (∀ b, b < n → ∀ x, x ∈ Bn' b ↔ x ∈ Bn b ∨ (x ∈ L ∧ ∃ k, keyAt ks x = some k ∧ hash k % n = b)) ∧
      (∀ x, x ∉ L → (moveChain hash fuel e s).next.get x = s.next.get x)
  | [], fuel, e, s, Bn, _, _, _, hc, _, _, hB, hBn, _ => by
    have he : e = 0 := hc
    subst he
    have : moveChain hash fuel 0 s = s := by cases fuel <;> simp [moveChain]
    rw [this]
    exact ⟨Bn, hB, hBn, by simp, fun _ _ => rfl⟩
  | a :: t, 0, _, _, _, hl, _, _, _, _, _, _, _, _ => by simp at hl
  | a :: t, fuel + 1, e, s, Bn, hl, htl, hkey, ⟨h1, h2, h3⟩, hnd, hval, hB, hBn, hdisj => by
    subst h1
    obtain ⟨k, hk⟩ := hval e (by simp)
    have hke : s.key.get? e = some k := by rw [hkey]; exact hk
    have hat : e ∉ t := (List.nodup_cons.1 hnd).1
    have htnd : t.Nodup := (List.nodup_cons.1 hnd).2
    have hidx : hash k % n < n := Nat.mod_lt _ hn
    -- one iteration
    have hstep : moveChain hash (fuel + 1) e s =
        moveChain hash fuel (s.next.get e)
          { s with next := s.next.set e (s.table.get (hash k % n)), table := s.table.set (hash k % n) e } := by
      conv => lhs; unfold moveChain
      simp only [if_neg h2, hke, htl]
    rw [hstep]
    let s' : State κ :=
      { s with next := s.next.set e (s.table.get (hash k % n)), table := s.table.set (hash k % n) e }
    let Bn1 : Nat → List Nat := fun b => if b = hash k % n then e :: Bn b else Bn b
    have hnx : ∀ x, x ≠ e → s'.next.get x = s.next.get x := fun x hx => Mem.get_set_ne _ _ _ _ hx
    have heB : ∀ b, b < n → e ∉ Bn b := fun b hb hm => hdisj b hb e hm (by simp)
    have ih := moveChain_spec hash ks n hn t fuel (s.next.get e) s' Bn1 (by simpa using hl) htl hkey
      (Chain.congr h3 (fun x hx => hnx x (fun hxe => hat (hxe ▸ hx)))) htnd
      (fun x hx => hval x (by simp [hx]))
      (by
        intro b hb
        by_cases hbi : b = hash k % n
        · subst hbi
          simp only [Bn1, if_true]
          refine ⟨by simp [s'], h2, ?_⟩
          have : s'.next.get e = s.table.get (hash k % n) := by simp [s']
          rw [this]
          exact Chain.congr (hB _ hb) (fun x hx => hnx x (fun hxe => heB _ hb (hxe ▸ hx)))
        · simp only [Bn1, if_neg hbi]
          have : s'.table.get b = s.table.get b := Mem.get_set_ne _ _ _ _ hbi
          rw [this]
          exact Chain.congr (hB _ hb) (fun x hx => hnx x (fun hxe => heB _ hb (hxe ▸ hx))))
      (by
        intro b hb
        by_cases hbi : b = hash k % n
        · simp only [Bn1, if_pos hbi]
          exact List.nodup_cons.2 ⟨heB b hb, hBn b hb⟩
        · simp only [Bn1, if_neg hbi]; exact hBn b hb)
      (by
        intro b hb x hx
        by_cases hbi : b = hash k % n
        · simp only [Bn1, if_pos hbi] at hx
          rcases List.mem_cons.1 hx with h | h
          · subst h; exact hat
          · exact fun hxt => hdisj b hb x h (by simp [hxt])
        · simp only [Bn1, if_neg hbi] at hx
          exact fun hxt => hdisj b hb x hx (by simp [hxt]))
    obtain ⟨Bn', c1, c2, c3, c4⟩ := ih
    refine ⟨Bn', c1, c2, ?_, ?_⟩
    · intro b hb x
      rw [c3 b hb x]
      by_cases hbi : b = hash k % n
      · simp only [Bn1, if_pos hbi, List.mem_cons]
        constructor
        · rintro ((h | h) | ⟨h, hh⟩)
          · exact Or.inr ⟨Or.inl h, k, h ▸ hk, hbi.symm⟩
          · exact Or.inl h
          · exact Or.inr ⟨Or.inr h, hh⟩
        · rintro (h | ⟨h | h, hh⟩)
          · exact Or.inl (Or.inr h)
          · exact Or.inl (Or.inl h)
          · exact Or.inr ⟨h, hh⟩
      · simp only [Bn1, if_neg hbi, List.mem_cons]
        constructor
        · rintro (h | ⟨h, hh⟩)
          · exact Or.inl h
          · exact Or.inr ⟨Or.inr h, hh⟩
        · rintro (h | ⟨h | h, hh⟩)
          · exact Or.inl h
          · obtain ⟨k', hk', hb'⟩ := hh
            subst h
            rw [hk] at hk'
            cases hk'
            exact absurd hb'.symm hbi
          · exact Or.inr ⟨h, hh⟩
    · intro x hx
      have hxe : x ≠ e := fun h => hx (by simp [h])
      have hxt : x ∉ t := fun h => hx (by simp [h])
      rw [c4 x hxt]
      exact hnx x hxe

theorem resizeOuter_frame (hash : κ → Nat) (oldT oldR : Nat → Nat) : ∀ (i : Nat) (s : State κ),
    (resizeOuter hash oldT oldR i s).key = s.key ∧ (resizeOuter hash oldT oldR i s).idx = s.idx ∧
    (resizeOuter hash oldT oldR i s).inl = s.inl ∧
    (resizeOuter hash oldT oldR i s).tableLength = s.tableLength ∧
    (resizeOuter hash oldT oldR i s).threshold = s.threshold ∧
    (resizeOuter hash oldT oldR i s).count = s.count ∧
    (resizeOuter hash oldT oldR i s).tableLengthIndex = s.tableLengthIndex ∧
    (resizeOuter hash oldT oldR i s).defaultEntry = s.defaultEntry
  | 0, _ => by simp [resizeOuter]
  | i + 1, s => by
    unfold resizeOuter
    have f := moveChain_frame hash (s.count + 1) (oldT i) s
    have r := resizeOuter_frame hash oldT oldR i
      { moveChain hash (s.count + 1) (oldT i) s with
        rev := (moveChain hash (s.count + 1) (oldT i) s).rev.set (i + 1) (oldR (i + 1)) }
    simp only at r
    obtain ⟨f1, f2, _, f4, f5, f6, f7, f8, f9⟩ := f
    obtain ⟨r1, r2, r3, r4, r5, r6, r7, r8⟩ := r
    exact ⟨r1.trans f1, r2.trans f2, r3.trans f4, r4.trans f5, r5.trans f6, r6.trans f7, r7.trans f8, r8.trans f9⟩

theorem resizeOuter_rev (hash : κ → Nat) (oldT oldR : Nat → Nat) : ∀ (i : Nat) (s : State κ) (j : Nat),
    (resizeOuter hash oldT oldR i s).rev.get j = if 1 ≤ j ∧ j ≤ i then oldR j else s.rev.get j
  | 0, s, j => by
    have : ¬ (1 ≤ j ∧ j ≤ 0) := by omega
    rw [if_neg this]; rfl
  | i + 1, s, j => by
    unfold resizeOuter
    rw [resizeOuter_rev hash oldT oldR i _ j]
    simp only [Mem.get_set, (moveChain_frame hash (s.count + 1) (oldT i) s).2.2.1]
    by_cases h1 : 1 ≤ j ∧ j ≤ i
    · have : 1 ≤ j ∧ j ≤ i + 1 := by omega
      simp [h1, this]
    · by_cases h2 : j = i + 1
      · subst h2; simp
      · have : ¬ (1 ≤ j ∧ j ≤ i + 1) := by omega
        simp [h1, h2, this]

theorem keyAt_fun {ks : List κ} {x : Nat} {k k' : κ} (h : keyAt ks x = some k) (h' : keyAt ks x = some k') :
    k = k' := by
  rw [h] at h'; cases h'; rfl

theorem resizeOuter_spec (hash : κ → Nat) (ks : List κ) (n m : Nat) (hn : 0 < n)
    (oldT oldR : Nat → Nat) (Bo : Nat → List Nat)
    (hBoNd : ∀ b, b < m → (Bo b).Nodup)
    (hBoMem : ∀ b, b < m → ∀ x, x ∈ Bo b ↔ ∃ k, keyAt ks x = some k ∧ hash k % m = b) :
    ∀ (i : Nat) (s : State κ) (Bn : Nat → List Nat), i ≤ m → s.tableLength = n → s.count = ks.length →
    (∀ x, s.key.get? x = keyAt ks x) →
    (∀ b, b < i → Chain s.next.get (oldT b) (Bo b)) →
    (∀ b, b < n → Chain s.next.get (s.table.get b) (Bn b)) →
    (∀ b, b < n → (Bn b).Nodup) →
    (∀ b, b < n → ∀ x, x ∈ Bn b ↔ ∃ k, keyAt ks x = some k ∧ hash k % n = b ∧ i ≤ hash k % m) →
    ∃ Bn' : Nat → List Nat,
      (∀ b, b < n → Chain (resizeOuter hash oldT oldR i s).next.get
          ((resizeOuter hash oldT oldR i s).table.get b) (Bn' b)) ∧
      (∀ b, b < n → (Bn' b).Nodup) ∧
      (∀ b, b < n → ∀ x, x ∈ Bn' b ↔ ∃ k, keyAt ks x = some k ∧ hash k % n = b)
  | 0, s, Bn, _, _, _, _, _, hB, hBn, hmem => by
    refine ⟨Bn, hB, hBn, ?_⟩
    intro b hb x
    rw [hmem b hb x]
    constructor
    · rintro ⟨k, h1, h2, _⟩; exact ⟨k, h1, h2⟩
    · rintro ⟨k, h1, h2⟩; exact ⟨k, h1, h2, Nat.zero_le _⟩
  | i + 1, s, Bn, him, htl, hcnt, hkey, hold, hB, hBn, hmem => by
    have hi : i < m := by omega
    have hlen : (Bo i).length ≤ s.count + 1 := by
      have := nodup_length_le ks.length (Bo i) (hBoNd i hi) (by
        intro x hx
        obtain ⟨k, hk, _⟩ := (hBoMem i hi x).1 hx
        exact keyAt_some_range hk)
      omega
    obtain ⟨Bn1, c1, c2, c3, c4⟩ := moveChain_spec hash ks n hn (Bo i) (s.count + 1) (oldT i) s Bn hlen htl hkey
      (hold i (by omega)) (hBoNd i hi)
      (fun x hx => by obtain ⟨k, hk, _⟩ := (hBoMem i hi x).1 hx; exact ⟨k, hk⟩) hB hBn
      (by
        intro b hb x hx hxo
        obtain ⟨k, hk, _, hge⟩ := (hmem b hb x).1 hx
        obtain ⟨k', hk', hi'⟩ := (hBoMem i hi x).1 hxo
        have := keyAt_fun hk hk'
        subst this
        omega)
    have f := moveChain_frame hash (s.count + 1) (oldT i) s
    unfold resizeOuter
    apply resizeOuter_spec hash ks n m hn oldT oldR Bo hBoNd hBoMem i _ Bn1 (by omega)
    · exact f.2.2.2.2.1.trans htl
    · exact f.2.2.2.2.2.2.1.trans hcnt
    · intro x
      show (moveChain hash (s.count + 1) (oldT i) s).key.get? x = _
      rw [f.1]; exact hkey x
    · intro b hb
      refine Chain.congr (hold b (by omega)) (fun x hx => c4 x ?_)
      intro hxo
      obtain ⟨k, hk, hkb⟩ := (hBoMem b (by omega) x).1 hx
      obtain ⟨k', hk', hi'⟩ := (hBoMem i hi x).1 hxo
      have := keyAt_fun hk hk'
      subst this
      omega
    · exact c1
    · exact c2
    · intro b hb x
      rw [c3 b hb x, hmem b hb x]
      constructor
      · rintro (⟨k, h1, h2, h3⟩ | ⟨hxo, k, h1, h2⟩)
        · exact ⟨k, h1, h2, by omega⟩
        · obtain ⟨k', hk', hi'⟩ := (hBoMem i hi x).1 hxo
          have := keyAt_fun h1 hk'
          subst this
          exact ⟨k, h1, h2, by omega⟩
      · rintro ⟨k, h1, h2, h3⟩
        by_cases he : hash k % m = i
        · exact Or.inr ⟨(hBoMem i hi x).2 ⟨k, h1, he⟩, k, h1, h2⟩
        · exact Or.inl ⟨k, h1, h2, by omega⟩

theorem resize_fields (hash : κ → Nat) (s : State κ) (n : Nat) :
    (resize hash s n).key = s.key ∧ (resize hash s n).idx = s.idx ∧ (resize hash s n).inl = false ∧
    (resize hash s n).tableLength = n ∧ (resize hash s n).threshold = n ∧
    (resize hash s n).count = s.count ∧ (resize hash s n).tableLengthIndex = s.tableLengthIndex ∧
    (resize hash s n).defaultEntry = s.defaultEntry := by
  unfold resize
  exact resizeOuter_frame hash _ _ _ _

/-- growing `resize` (the only kind `rehash` and `AllocateMoreString` perform) keeps every entry -/
theorem resize_inv {hash : κ → Nat} {s : State κ} {ks : List κ} {B : Nat → List Nat}
    (h : Inv hash s ks B) {n : Nat} (hge : s.tableLength ≤ n) :
    ∃ B', Inv hash (resize hash s n) ks B' := by
  have hn : 0 < n := Nat.lt_of_lt_of_le h.tl_pos hge
  have hmin : min s.tableLength n = s.tableLength := Nat.min_eq_left hge
  obtain ⟨f1, f2, f3, f4, f5, f6, f7, f8⟩ := resize_fields hash s n
  have hrev : ∀ j, (resize hash s n).rev.get j = if 1 ≤ j ∧ j ≤ s.tableLength then revGet s j else 0 := by
    intro j
    unfold resize
    rw [resizeOuter_rev, hmin]
    simp
  obtain ⟨B', c1, c2, c3⟩ := resizeOuter_spec hash ks n s.tableLength hn (tableGet s) (revGet s) B
    h.bnodup h.mem s.tableLength
    { s with tableLength := n, threshold := n, table := .empty, rev := .empty, inl := false }
    (fun _ => []) (Nat.le_refl _) rfl h.count_eq h.key_eq
    (fun b hb => h.chain b hb)
    (fun b _ => by simp [Chain])
    (fun b _ => List.nodup_nil)
    (by
      intro b _ x
      simp only [List.not_mem_nil, false_iff]
      rintro ⟨k, _, _, hk⟩
      have := Nat.mod_lt (hash k) h.tl_pos
      omega)
  have hres : resize hash s n = resizeOuter hash (tableGet s) (revGet s) s.tableLength
      { s with tableLength := n, threshold := n, table := .empty, rev := .empty, inl := false } := by
    unfold resize; simp only [hmin]
  refine ⟨B', ?_⟩
  refine ⟨f6.trans h.count_eq, h.nodup, ?_, ?_, ?_, ?_, ?_, ?_, ?_, ?_, ?_, ?_, ?_⟩
  · intro e; rw [f1]; exact h.key_eq e
  · intro e h1 h2; rw [f2]; rw [f6] at h2; exact h.idx_eq e h1 h2
  · intro i h1 h2
    rw [f6] at h2
    have hle := h.le
    have hr : revGet (resize hash s n) i = (resize hash s n).rev.get i := by simp [revGet, f3]
    rw [hr, hrev i, if_pos ⟨h1, by omega⟩]
    exact h.rev_eq i h1 h2
  · rw [f4]; exact hn
  · rw [f4, f5]
  · rw [f4, f6]; exact Nat.le_trans h.le hge
  · rw [f3]; intro hc; cases hc
  · rw [f8, f6]; exact h.dflt
  · intro b hb
    rw [f4] at hb
    have := c1 b hb
    rw [← hres] at this
    simpa [tableGet, f3] using this
  · intro b hb; rw [f4] at hb; exact c2 b hb
  · intro b hb e; rw [f4] at hb ⊢; exact c3 b hb e

/-! ### `addNewKeyEntry` -/

theorem addNewCore_heap (s : State κ) (key : κ) (index : Nat) (hinl : s.inl = false)
    (hd : s.defaultEntry = 0 → s.table.get index = 0) :
    (addNewCore s key index).2 = s.count + 1 ∧
    (addNewCore s key index).1.count = s.count + 1 ∧
    (addNewCore s key index).1.tableLength = s.tableLength ∧
    (addNewCore s key index).1.threshold = s.threshold ∧
    (addNewCore s key index).1.tableLengthIndex = s.tableLengthIndex ∧
    (addNewCore s key index).1.inl = false ∧
    (addNewCore s key index).1.key = s.key.set (s.count + 1) key ∧
    (addNewCore s key index).1.idx = s.idx.set (s.count + 1) (s.count + 1) ∧
    (∀ x, (addNewCore s key index).1.next.get x = if x = s.count + 1 then s.table.get index else s.next.get x) ∧
    (addNewCore s key index).1.table = s.table.set index (s.count + 1) ∧
    (addNewCore s key index).1.rev = s.rev.set (s.count + 1) (s.count + 1) ∧
    (addNewCore s key index).1.defaultEntry = (if s.defaultEntry = 0 then s.count + 1 else s.defaultEntry) := by
  by_cases h0 : s.defaultEntry = 0
  · have := hd h0
    simp [addNewCore, tableSet, revSet, hinl, h0, Mem.get_set, this]
  · simp [addNewCore, tableSet, revSet, tableGet, hinl, h0, Mem.get_set]
    intro x; split <;> rfl

theorem addNewCore_inl (s : State κ) (key : κ) (index : Nat) (hinl : s.inl = true)
    (hd : s.defaultEntry = 0) (hc : s.count = 0) :
    (addNewCore s key index).2 = 1 ∧
    (addNewCore s key index).1.count = 1 ∧
    (addNewCore s key index).1.tableLength = s.tableLength ∧
    (addNewCore s key index).1.threshold = s.threshold ∧
    (addNewCore s key index).1.tableLengthIndex = s.tableLengthIndex ∧
    (addNewCore s key index).1.inl = true ∧
    (addNewCore s key index).1.key = s.key.set 1 key ∧
    (addNewCore s key index).1.idx = s.idx.set 1 1 ∧
    (∀ x, (addNewCore s key index).1.next.get x = if x = 1 then 0 else s.next.get x) ∧
    (addNewCore s key index).1.defaultEntry = 1 := by
  simp [addNewCore, tableSet, revSet, hinl, hd, hc, Mem.get_set]

theorem key_eq_append {m : OMem κ} {ks : List κ} (h : ∀ x, m.get? x = keyAt ks x) (key : κ) :
    ∀ x, (m.set (ks.length + 1) key).get? x = keyAt (ks ++ [key]) x := by
  intro x
  rw [OMem.get?_set]
  by_cases hx : x = ks.length + 1
  · subst hx; simp [keyAt_append_new]
  · rw [if_neg hx, h x]
    by_cases hle : x ≤ ks.length
    · rw [keyAt_append_old hle]
    · rw [keyAt_none_of_gt (by omega), keyAt_none_of_gt (by simp; omega)]

theorem mem_append_iff {hash : κ → Nat} {ks : List κ} {key : κ} {tl b : Nat} {Bb : List Nat}
    (hm : ∀ e, e ∈ Bb ↔ ∃ k, keyAt ks e = some k ∧ hash k % tl = b) (e : Nat) :
    (∃ k, keyAt (ks ++ [key]) e = some k ∧ hash k % tl = b) ↔
      (e = ks.length + 1 ∧ hash key % tl = b) ∨ e ∈ Bb := by
  constructor
  · rintro ⟨k, hk, hb⟩
    by_cases he : e = ks.length + 1
    · subst he
      rw [keyAt_append_new] at hk; cases hk
      exact Or.inl ⟨rfl, hb⟩
    · have := keyAt_some_range hk
      simp at this
      have hle : e ≤ ks.length := by omega
      rw [keyAt_append_old hle] at hk
      exact Or.inr ((hm e).2 ⟨k, hk, hb⟩)
  · rintro (⟨he, hb⟩ | he)
    · subst he; exact ⟨key, keyAt_append_new, hb⟩
    · obtain ⟨k, hk, hb⟩ := (hm e).1 he
      have := keyAt_some_range hk
      exact ⟨k, by rw [keyAt_append_old this.2]; exact hk, hb⟩

theorem addNewCore_inv {hash : κ → Nat} {s : State κ} {ks : List κ} {B : Nat → List Nat}
    (h : Inv hash s ks B) {key : κ} (hk : key ∉ ks) (hlt : s.count < s.tableLength) :
    (∃ B', Inv hash (addNewCore s key (hash key % s.tableLength)).1 (ks ++ [key]) B') ∧
    (addNewCore s key (hash key % s.tableLength)).2 = s.count + 1 ∧
    (addNewCore s key (hash key % s.tableLength)).1.tableLength = s.tableLength := by
  have hidx : hash key % s.tableLength < s.tableLength := Nat.mod_lt _ h.tl_pos
  have hnd : (ks ++ [key]).Nodup := by
    rw [List.nodup_append]
    refine ⟨h.nodup, by simp, ?_⟩
    intro a ha b hb
    simp at hb; subst hb
    exact fun e => hk (e ▸ ha)
  have hle_of_mem : ∀ b, b < s.tableLength → ∀ x ∈ B b, x ≠ s.count + 1 := by
    intro b hb x hx
    obtain ⟨k, hk', _⟩ := (h.mem b hb x).1 hx
    have := keyAt_some_range hk'
    rw [h.count_eq]; omega
  cases hinl : s.inl with
  | true =>
    have htl := h.inl_tl hinl
    have hc : s.count = 0 := by omega
    have hd : s.defaultEntry = 0 := h.dflt.2 hc
    have hks : ks = [] := List.eq_nil_of_length_eq_zero (by rw [← h.count_eq]; exact hc)
    obtain ⟨g0, g1, g2, g3, g4, g5, g6, g7, g8, g9⟩ := addNewCore_inl s key (hash key % s.tableLength) hinl hd hc
    refine ⟨⟨fun _ => [1], ?_⟩, by rw [g0, hc], g2⟩
    refine ⟨by rw [g1]; simp [hks], hnd, ?_, ?_, ?_, ?_, ?_, ?_, ?_, ?_, ?_, ?_, ?_⟩
    · rw [g6]
      have := key_eq_append h.key_eq key
      rw [hks] at this ⊢
      simpa using this
    · intro e h1 h2; rw [g1] at h2
      have : e = 1 := by omega
      subst this; rw [g7]; simp
    · intro i h1 h2; rw [g1] at h2
      have : i = 1 := by omega
      subst this; simp [revGet, g5, g9]
    · rw [g2]; exact h.tl_pos
    · rw [g2, g3]; exact h.thr
    · rw [g1, g2, htl]; exact Nat.le_refl _
    · intro _; rw [g2]; exact htl
    · rw [g9, g1]
    · intro b hb
      simp only [tableGet, g5, g9, if_true]
      exact ⟨rfl, by decide, by rw [g8]; simp [Chain]⟩
    · intro b _; simp
    · intro b hb e
      rw [g2, htl] at hb ⊢
      have hb0 : b = 0 := by omega
      subst hb0
      rw [mem_append_iff (Bb := B 0) (by
        intro e'
        have := h.mem 0 (by omega) e'
        rw [htl] at this
        exact this)]
      have hB0 : ∀ e', e' ∉ B 0 := by
        intro e' he'
        obtain ⟨k, hk', _⟩ := (h.mem 0 (by omega) e').1 he'
        rw [hks] at hk'
        simp [keyAt] at hk'
      simp [hks, hB0, Nat.mod_one]
  | false =>
    have hd : s.defaultEntry = 0 → s.table.get (hash key % s.tableLength) = 0 := by
      intro hd0
      have hc : s.count = 0 := h.dflt.1 hd0
      have hchain := h.chain _ hidx
      have hnil : B (hash key % s.tableLength) = [] := by
        apply List.eq_nil_iff_forall_not_mem.2
        intro x hx
        obtain ⟨k, hk', _⟩ := (h.mem _ hidx x).1 hx
        have := keyAt_some_range hk'
        rw [← h.count_eq] at this; omega
      rw [hnil] at hchain
      simpa [tableGet, hinl, Chain] using hchain
    obtain ⟨g0, g1, g2, g3, g4, g5, g6, g7, g8, g9, g10, g11⟩ :=
      addNewCore_heap s key (hash key % s.tableLength) hinl hd
    refine ⟨⟨fun b => if b = hash key % s.tableLength then (s.count + 1) :: B b else B b, ?_⟩, g0, g2⟩
    have htg : ∀ b, tableGet s b = s.table.get b := by intro b; simp [tableGet, hinl]
    have hnx : ∀ b, b < s.tableLength → ∀ x ∈ B b,
        (addNewCore s key (hash key % s.tableLength)).1.next.get x = s.next.get x := by
      intro b hb x hx
      rw [g8 x, if_neg (hle_of_mem b hb x hx)]
    refine ⟨by rw [g1, h.count_eq]; simp, hnd, ?_, ?_, ?_, ?_, ?_, ?_, ?_, ?_, ?_, ?_, ?_⟩
    · rw [g6, h.count_eq]; exact key_eq_append h.key_eq key
    · intro e h1 h2
      rw [g1] at h2
      rw [g7, Mem.get_set]
      split
      · omega
      · exact h.idx_eq e h1 (by omega)
    · intro i h1 h2
      rw [g1] at h2
      simp only [revGet, g5, g10, Mem.get_set]
      split
      · simp_all
      · split
        · omega
        · have := h.rev_eq i h1 (by omega)
          simpa [revGet, hinl] using this
    · rw [g2]; exact h.tl_pos
    · rw [g2, g3]; exact h.thr
    · rw [g1, g2]; omega
    · rw [g5]; intro hc; cases hc
    · rw [g11, g1]
      constructor
      · intro h0
        split at h0 <;> omega
      · intro h0; omega
    · intro b hb
      rw [g2] at hb
      have hcb := h.chain b hb
      rw [htg] at hcb
      simp only [tableGet, g5, g9, Mem.get_set]
      by_cases hbi : b = hash key % s.tableLength
      · subst hbi
        simp only [if_true]
        refine ⟨by simp, by omega, ?_⟩
        rw [g8, if_pos rfl]
        exact Chain.congr hcb (hnx _ hb)
      · simp only [if_neg hbi]
        simp only [Bool.false_eq_true, if_false]
        exact Chain.congr hcb (hnx _ hb)
    · intro b hb
      rw [g2] at hb
      by_cases hbi : b = hash key % s.tableLength
      · simp only [if_pos hbi]
        exact List.nodup_cons.2 ⟨fun hm => hle_of_mem b hb _ hm rfl, h.bnodup b hb⟩
      · simp only [if_neg hbi]; exact h.bnodup b hb
    · intro b hb e
      rw [g2] at hb ⊢
      rw [mem_append_iff (h.mem b hb), ← h.count_eq]
      by_cases hbi : b = hash key % s.tableLength
      · simp only [if_pos hbi, List.mem_cons]
        constructor
        · rintro (he | he)
          · exact Or.inl ⟨he, hbi.symm⟩
          · exact Or.inr he
        · rintro (⟨he, _⟩ | he)
          · exact Or.inl he
          · exact Or.inr he
      · simp only [if_neg hbi]
        constructor
        · intro he; exact Or.inr he
        · rintro (⟨_, hb'⟩ | he)
          · exact absurd hb'.symm hbi
          · exact he

/-! ### `rehash` -/

theorem scanPrimes_found (tl : Nat) : ∀ (ps : List Nat) (i nl : Nat), (∃ p ∈ ps, tl < p) →
    ∃ p i', scanPrimes tl ps i nl = (p, some i') ∧ tl < p
  | [], _, _, h => by obtain ⟨p, hp, _⟩ := h; simp at hp
  | q :: ps, i, nl, h => by
    unfold scanPrimes
    by_cases hq : q > tl
    · exact ⟨q, i, by simp [hq], hq⟩
    · rw [if_neg hq]
      apply scanPrimes_found tl ps (i + 1) q
      obtain ⟨p, hp, hlt⟩ := h
      rcases List.mem_cons.1 hp with e | e
      · subst e; exact absurd hlt hq
      · exact ⟨p, e, hlt⟩

theorem Inv.set_tli {hash : κ → Nat} {s : State κ} {ks : List κ} {B : Nat → List Nat}
    (h : Inv hash s ks B) (i : Nat) : Inv hash { s with tableLengthIndex := i } ks B :=
  ⟨h.count_eq, h.nodup, h.key_eq, h.idx_eq, h.rev_eq, h.tl_pos, h.thr, h.le, h.inl_tl, h.dflt,
    h.chain, h.bnodup, h.mem⟩

theorem rehash_count (hash : κ → Nat) (primes : List Nat) (s : State κ) :
    (rehash hash primes s).count = s.count := by
  unfold rehash
  split
  · rw [(resize_fields hash _ _).2.2.2.2.2.1]
  · rw [(resize_fields hash _ _).2.2.2.2.2.1]

theorem rehash_inv {hash : κ → Nat} {primes : List Nat} {s : State κ} {ks : List κ} {B : Nat → List Nat}
    (h : Inv hash s ks B) (hge : s.tableLength ≤ (rehash hash primes s).tableLength) :
    ∃ B', Inv hash (rehash hash primes s) ks B' := by
  unfold rehash at hge ⊢
  split at hge
  · rename_i newLen i _
    rw [(resize_fields hash _ _).2.2.2.1] at hge
    exact resize_inv (h.set_tli i) hge
  · rename_i newLen _
    rw [(resize_fields hash _ _).2.2.2.1] at hge
    exact resize_inv h hge

theorem rehash_grows {hash : κ → Nat} {primes : List Nat} (s : State κ)
    (hp : ∃ p ∈ primes, s.tableLength < p) : s.tableLength < (rehash hash primes s).tableLength := by
  obtain ⟨p, i, he, hlt⟩ := scanPrimes_found s.tableLength primes 0 0 hp
  unfold rehash
  rw [he]
  simp only
  rw [(resize_fields hash _ _).2.2.2.1]
  exact hlt

/-! ### `Add`, `AllocateMoreString`, `InitConstStrings` -/

theorem addNewKeyEntry_spec {hash : κ → Nat} {primes : List Nat} {s s' : State κ} {ks : List κ}
    {B : Nat → List Nat} {t : κ} {e : Nat} (h : Inv hash s ks B) (hnk : t ∉ ks)
    (ha : addNewKeyEntry hash primes s t (hash t % s.tableLength) = some (s', e)) :
    (∃ B', Inv hash s' (ks ++ [t]) B') ∧ e = ks.length + 1 ∧ s.tableLength ≤ s'.tableLength := by
  unfold addNewKeyEntry at ha
  by_cases hthr : s.count ≥ s.threshold
  · rw [if_pos hthr] at ha
    simp only at ha
    by_cases hguard : (rehash hash primes s).tableLength = 0 ∨
        (rehash hash primes s).tableLength < (rehash hash primes s).count + 1
    · rw [if_pos hguard] at ha; cases ha
    · rw [if_neg hguard] at ha
      have hcnt := rehash_count hash primes s
      have hg : s.tableLength ≤ (rehash hash primes s).tableLength := by
        have := h.thr; omega
      obtain ⟨B1, h1⟩ := rehash_inv (primes := primes) h hg
      have hlt : (rehash hash primes s).count < (rehash hash primes s).tableLength := by omega
      obtain ⟨⟨B', hB'⟩, he, htl⟩ := addNewCore_inv h1 hnk hlt
      simp only [Option.some.injEq] at ha
      rw [ha] at hB' he htl
      simp only at hB' he htl
      exact ⟨⟨B', hB'⟩, by rw [he, hcnt, h.count_eq], by rw [htl]; exact hg⟩
  · rw [if_neg hthr] at ha
    have hlt : s.count < s.tableLength := by have := h.thr; omega
    obtain ⟨⟨B', hB'⟩, he, htl⟩ := addNewCore_inv h hnk hlt
    simp only [Option.some.injEq] at ha
    rw [ha] at hB' he htl
    simp only at hB' he htl
    exact ⟨⟨B', hB'⟩, by rw [he, h.count_eq], by rw [htl]; exact Nat.le_refl _⟩

/-- what `StringDictionary::Add` does, in terms of the ghost list of texts -/
theorem add_spec {hash : κ → Nat} {primes : List Nat} {s s' : State κ} {ks : List κ} {B : Nat → List Nat}
    {t : κ} {i : Nat} (h : Inv hash s ks B) (ha : add hash primes s t = some (s', i)) :
    (t ∈ ks → s' = s ∧ keyAt ks i = some t) ∧
    (t ∉ ks → (∃ B', Inv hash s' (ks ++ [t]) B') ∧ i = ks.length + 1 ∧ s.tableLength ≤ s'.tableLength) := by
  have fk := findKeyEntry_spec h t
  unfold findKeyEntry at fk
  unfold add addKeyIndex addKeyEntry at ha
  simp only at ha
  by_cases hf : findLoop s t (s.count + 1) (tableGet s (hash t % s.tableLength)) ≠ 0
  · rw [if_pos hf] at ha
    simp only [Option.some.injEq, Prod.mk.injEq] at ha
    obtain ⟨hs, hi⟩ := ha
    subst hs
    have hkt := fk.1 hf
    have hr := keyAt_some_range hkt
    have : s.idx.get (findLoop s t (s.count + 1) (tableGet s (hash t % s.tableLength))) =
        findLoop s t (s.count + 1) (tableGet s (hash t % s.tableLength)) :=
      h.idx_eq _ hr.1 (Nat.le_trans hr.2 (Nat.le_of_eq h.count_eq.symm))
    rw [this] at hi
    subst hi
    exact ⟨fun _ => ⟨rfl, hkt⟩, fun hn => absurd (keyAt_mem hkt) hn⟩
  · rw [if_neg hf] at ha
    have hnk : t ∉ ks := fk.2 (by simpa using hf)
    refine ⟨fun hm => absurd hm hnk, fun _ => ?_⟩
    cases hr : addNewKeyEntry hash primes s t (hash t % s.tableLength) with
    | none => rw [hr] at ha; cases ha
    | some p =>
      obtain ⟨s1, e⟩ := p
      rw [hr] at ha
      simp only [Option.some.injEq, Prod.mk.injEq] at ha
      obtain ⟨hs, hi⟩ := ha
      subst hs
      obtain ⟨⟨B', hB'⟩, he, htl⟩ := addNewKeyEntry_spec h hnk hr
      refine ⟨⟨B', hB'⟩, ?_, htl⟩
      rw [← hi, he]
      exact hB'.idx_eq _ (by omega) (by rw [hB'.count_eq]; simp)

/-- `Add` is defined (no undefined behaviour) whenever the text is already interned, the table has
    room, or `set_primes` still holds a larger length -/
theorem add_defined {hash : κ → Nat} {primes : List Nat} {s : State κ} {ks : List κ} {B : Nat → List Nat}
    (h : Inv hash s ks B) (t : κ)
    (hp : t ∈ ks ∨ s.count < s.tableLength ∨ ∃ p ∈ primes, s.tableLength < p) :
    ∃ r, add hash primes s t = some r := by
  unfold add addKeyIndex addKeyEntry
  simp only
  by_cases hf : findLoop s t (s.count + 1) (tableGet s (hash t % s.tableLength)) ≠ 0
  · rw [if_pos hf]; exact ⟨_, rfl⟩
  · rw [if_neg hf]
    have hnk : t ∉ ks := (findKeyEntry_spec h t).2 (by simpa [findKeyEntry] using hf)
    unfold addNewKeyEntry
    by_cases hthr : s.count ≥ s.threshold
    · rw [if_pos hthr]
      have hthr' : ¬ s.count < s.tableLength := by have := h.thr; omega
      rcases hp with hp | hp | hp
      · exact absurd hp hnk
      · exact absurd hp hthr'
      · have hg := rehash_grows (hash := hash) s hp
        have hcnt := rehash_count hash primes s
        have hle := h.le
        simp only
        rw [if_neg (by omega)]
        exact ⟨_, rfl⟩
    · rw [if_neg hthr]; exact ⟨_, rfl⟩

theorem allocateMoreString_inv {hash : κ → Nat} {s : State κ} {ks : List κ} {B : Nat → List Nat}
    (h : Inv hash s ks B) (n : Nat) :
    (∃ B', Inv hash (allocateMoreString hash s n) ks B') ∧
    s.count + n ≤ (allocateMoreString hash s n).tableLength ∧
    s.tableLength ≤ (allocateMoreString hash s n).tableLength := by
  unfold allocateMoreString
  split
  · rename_i hgt
    refine ⟨resize_inv h (by omega), ?_, ?_⟩
    · rw [(resize_fields hash _ _).2.2.2.1]; exact Nat.le_refl _
    · rw [(resize_fields hash _ _).2.2.2.1]; omega
  · exact ⟨⟨B, h⟩, by omega, Nat.le_refl _⟩

/-! ### observations and refinement to `Spec` -/

theorem keyAt_eq_spec (ks : List κ) (i : Nat) : keyAt ks i = Spec.textOf ks i := rfl

theorem textOf_spec {hash : κ → Nat} {s : State κ} {ks : List κ} {B : Nat → List Nat}
    (h : Inv hash s ks B) (i : Nat) : textOf s i = Spec.textOf ks i := by
  rw [← keyAt_eq_spec]
  unfold textOf
  split
  · rename_i hi
    rw [h.rev_eq i hi.1 hi.2, h.key_eq]
  · rename_i hi
    by_cases h0 : i = 0
    · subst h0; simp [keyAt]
    · rw [keyAt_none_of_gt (by rw [← h.count_eq]; omega)]

theorem spec_idOf_of_keyAt {ks : List κ} (hnd : ks.Nodup) {e : Nat} {t : κ} (h : keyAt ks e = some t) :
    Spec.idOf ks t = e := by
  have hr := keyAt_some_range h
  unfold keyAt at h
  rw [if_neg (by omega)] at h
  obtain ⟨h1, h2⟩ := List.getElem?_eq_some_iff.1 h
  unfold Spec.idOf
  rw [if_pos (by rw [← h2]; exact List.getElem_mem h1)]
  have := List.Nodup.idxOf_getElem hnd (e - 1) h1
  rw [h2] at this
  omega

theorem keyAt_of_spec_idOf {ks : List κ} {t : κ} {i : Nat} (h : Spec.idOf ks t = i) (hi : i ≠ 0) :
    keyAt ks i = some t := by
  unfold Spec.idOf at h
  split at h
  · rename_i hm
    have hlt := List.idxOf_lt_length_of_mem hm
    subst h
    simp only [keyAt, Nat.add_sub_cancel, if_neg (Nat.succ_ne_zero _)]
    rw [List.getElem?_eq_getElem hlt, List.getElem_idxOf hlt]
  · exact absurd h.symm hi

theorem idOf_spec {hash : κ → Nat} {s : State κ} {ks : List κ} {B : Nat → List Nat}
    (h : Inv hash s ks B) (t : κ) : idOf hash s t = Spec.idOf ks t := by
  have fk := findKeyEntry_spec h t
  unfold idOf findKeyIndex
  simp only
  by_cases hf : findKeyEntry hash s t ≠ 0
  · rw [if_pos hf]
    have hk := fk.1 hf
    have hr := keyAt_some_range hk
    rw [h.idx_eq _ hr.1 (by rw [h.count_eq]; exact hr.2)]
    exact (spec_idOf_of_keyAt h.nodup hk).symm
  · rw [if_neg hf]
    have := fk.2 (by simpa using hf)
    simp [Spec.idOf, this]

theorem filterMap_range_take (l : List κ) : ∀ n, n ≤ l.length →
    (List.range n).filterMap (fun i => l[i]?) = l.take n
  | 0, _ => by simp
  | n + 1, hn => by
    rw [List.range_succ, List.filterMap_append, filterMap_range_take l n (by omega), List.take_add_one]
    have : l[n]? = some l[n] := List.getElem?_eq_getElem (by omega)
    simp [this]

/-- the computed abstraction `texts s` is the ghost list -/
theorem texts_eq {hash : κ → Nat} {s : State κ} {ks : List κ} {B : Nat → List Nat}
    (h : Inv hash s ks B) : texts s = ks := by
  unfold texts
  have : (fun i => textOf s (i + 1)) = fun i => ks[i]? := by
    funext i
    rw [textOf_spec h]
    simp [Spec.textOf]
  rw [this, h.count_eq, filterMap_range_take ks ks.length (Nat.le_refl _), List.take_length]

theorem spec_add_nodup {ks : List κ} (h : ks.Nodup) (t : κ) : (Spec.add ks t).Nodup := by
  unfold Spec.add
  split
  · exact h
  · rename_i hn
    rw [List.nodup_append]
    refine ⟨h, by simp, ?_⟩
    intro a ha b hb
    simp at hb; subst hb
    exact fun e => hn (e ▸ ha)

/-- `add` refines `Spec.add`; the id returned is the spec's id of the text afterwards -/
theorem add_refines {hash : κ → Nat} {primes : List Nat} {s s' : State κ} {ks : List κ} {B : Nat → List Nat}
    {t : κ} {i : Nat} (h : Inv hash s ks B) (ha : add hash primes s t = some (s', i)) :
    (∃ B', Inv hash s' (Spec.add ks t) B') ∧ i = Spec.idOf (Spec.add ks t) t ∧
    s.tableLength ≤ s'.tableLength ∧ (t ∈ ks → s' = s) := by
  obtain ⟨a1, a2⟩ := add_spec h ha
  by_cases hm : t ∈ ks
  · obtain ⟨hs, hk⟩ := a1 hm
    subst hs
    have : Spec.add ks t = ks := by simp [Spec.add, hm]
    rw [this]
    exact ⟨⟨B, h⟩, (spec_idOf_of_keyAt h.nodup hk).symm, Nat.le_refl _, fun _ => rfl⟩
  · obtain ⟨⟨B', hB'⟩, hi, htl⟩ := a2 hm
    have : Spec.add ks t = ks ++ [t] := by simp [Spec.add, hm]
    rw [this]
    refine ⟨⟨B', hB'⟩, ?_, htl, fun h' => absurd h' hm⟩
    rw [hi]
    exact (spec_idOf_of_keyAt hB'.nodup keyAt_append_new).symm

theorem addAll_refines {hash : κ → Nat} {primes : List Nat} : ∀ (ts : List κ) {s s' : State κ} {ks : List κ}
    {B : Nat → List Nat}, Inv hash s ks B → addAll hash primes s ts = some s' →
    ∃ B', Inv hash s' (ts.foldl Spec.add ks) B'
  | [], s, s', ks, B, h, ha => by
    simp only [addAll, Option.some.injEq] at ha
    subst ha
    exact ⟨B, h⟩
  | t :: ts, s, s', ks, B, h, ha => by
    unfold addAll at ha
    cases hr : add hash primes s t with
    | none => rw [hr] at ha; cases ha
    | some p =>
      obtain ⟨s1, i⟩ := p
      rw [hr] at ha
      simp only at ha
      obtain ⟨⟨B1, h1⟩, _⟩ := add_refines h hr
      exact addAll_refines ts h1 ha

/-- every operation refines the specification (and keeps the invariant) -/
theorem step_refines {hash : κ → Nat} {primes : List Nat} {P : List κ} {s s' : State κ} {ks : List κ}
    {B : Nat → List Nat} {op : Op κ} (h : Inv hash s ks B) (hs : step hash primes P s op = some s') :
    ∃ ks' B', Inv hash s' ks' B' ∧ Spec.step P ks op = some ks' := by
  cases op with
  | add t =>
    simp only [step, Option.map_eq_some_iff] at hs
    obtain ⟨⟨s1, i⟩, ha, hs1⟩ := hs
    simp only at hs1
    subst hs1
    obtain ⟨⟨B', hB'⟩, _⟩ := add_refines h ha
    exact ⟨_, B', hB', rfl⟩
  | get t =>
    simp only [step, Option.some.injEq] at hs
    subst hs
    exact ⟨ks, B, h, rfl⟩
  | str i =>
    simp only [step] at hs
    split at hs
    · rename_i hsome
      simp only [Option.some.injEq] at hs
      subst hs
      refine ⟨ks, B, h, ?_⟩
      rw [textOf_spec h] at hsome
      simp [Spec.step, hsome]
    · cases hs
  | more n =>
    simp only [step, Option.some.injEq] at hs
    subst hs
    obtain ⟨⟨B', hB'⟩, _⟩ := allocateMoreString_inv h n
    exact ⟨ks, B', hB', rfl⟩
  | reset =>
    simp only [step, Option.some.injEq, clear] at hs
    subst hs
    exact ⟨[], _, init_inv hash, rfl⟩
  | resetMaster =>
    simp only [step, clear, initConstStrings] at hs
    obtain ⟨⟨B1, h1⟩, _⟩ := allocateMoreString_inv (init_inv hash (κ := κ)) P.length
    obtain ⟨B', hB'⟩ := addAll_refines P h1 hs
    exact ⟨_, B', hB', rfl⟩

theorem run_refines {hash : κ → Nat} {primes : List Nat} {P : List κ} : ∀ (ops : List (Op κ))
    {s s' : State κ} {ks : List κ} {B : Nat → List Nat}, Inv hash s ks B →
    run hash primes P s ops = some s' →
    ∃ ks' B', Inv hash s' ks' B' ∧ Spec.run P ks ops = some ks'
  | [], s, s', ks, B, h, hr => by
    simp only [run, Option.some.injEq] at hr
    subst hr
    exact ⟨ks, B, h, rfl⟩
  | op :: ops, s, s', ks, B, h, hr => by
    simp only [run, Option.bind_eq_some_iff] at hr
    obtain ⟨s1, hs1, hr1⟩ := hr
    obtain ⟨ks1, B1, h1, hsp⟩ := step_refines h hs1
    obtain ⟨ks', B', h', hsp'⟩ := run_refines ops h1 hr1
    refine ⟨ks', B', h', ?_⟩
    simp [Spec.run, hsp, hsp']

theorem reachable_inv {hash : κ → Nat} {primes : List Nat} {P : List κ} {s : State κ}
    (h : Reachable hash primes P s) : ∃ ks B, Inv hash s ks B := by
  obtain ⟨ops, hr⟩ := h
  obtain ⟨ks, B, hi, _⟩ := run_refines ops (init_inv hash) hr
  exact ⟨ks, B, hi⟩

/-! ### facts about the specification used by the property theorems -/

/-- `reset` / `resetMaster` -/
def Op.isReset : Op κ → Bool
  | .reset => true
  | .resetMaster => true
  | _ => false

theorem spec_step_prefix {P l l' : List κ} {op : Op κ} (h : Spec.step P l op = some l')
    (hr : op.isReset = false) : ∃ r, l' = l ++ r := by
  cases op with
  | add t =>
    simp only [Spec.step, Option.some.injEq] at h
    subst h
    unfold Spec.add
    split
    · exact ⟨[], by simp⟩
    · exact ⟨[t], rfl⟩
  | get t => simp only [Spec.step, Option.some.injEq] at h; subst h; exact ⟨[], by simp⟩
  | str i =>
    simp only [Spec.step] at h
    split at h
    · simp only [Option.some.injEq] at h; subst h; exact ⟨[], by simp⟩
    · cases h
  | more n => simp only [Spec.step, Option.some.injEq] at h; subst h; exact ⟨[], by simp⟩
  | reset => simp [Op.isReset] at hr
  | resetMaster => simp [Op.isReset] at hr

theorem spec_run_prefix {P : List κ} : ∀ (ops : List (Op κ)) {l l' : List κ}, Spec.run P l ops = some l' →
    (∀ op ∈ ops, op.isReset = false) → ∃ r, l' = l ++ r
  | [], l, l', h, _ => by
    simp only [Spec.run, Option.some.injEq] at h; subst h; exact ⟨[], by simp⟩
  | op :: ops, l, l', h, hr => by
    simp only [Spec.run, Option.bind_eq_some_iff] at h
    obtain ⟨l1, h1, h2⟩ := h
    obtain ⟨r1, e1⟩ := spec_step_prefix h1 (hr op (by simp))
    obtain ⟨r2, e2⟩ := spec_run_prefix ops h2 (fun o ho => hr o (by simp [ho]))
    exact ⟨r1 ++ r2, by rw [e2, e1, List.append_assoc]⟩

theorem spec_textOf_append {l r : List κ} {i : Nat} {t : κ} (h : Spec.textOf l i = some t) :
    Spec.textOf (l ++ r) i = some t := by
  have hr := keyAt_some_range h
  unfold Spec.textOf at h ⊢
  rw [if_neg (by omega)] at h ⊢
  rw [List.getElem?_append_left (by omega)]
  exact h

theorem spec_foldl_add_nodup : ∀ (P l : List κ), (l ++ P).Nodup → P.foldl Spec.add l = l ++ P
  | [], l, _ => by simp
  | t :: P, l, h => by
    have hnm : t ∉ l := by
      intro hm
      rw [List.nodup_append] at h
      exact h.2.2 t hm t (by simp) rfl
    have : Spec.add l t = l ++ [t] := by simp [Spec.add, hnm]
    rw [List.foldl_cons, this, spec_foldl_add_nodup P (l ++ [t]) (by simpa using h)]
    simp

theorem spec_mem_add {l : List κ} {t x : κ} : x ∈ Spec.add l t ↔ x ∈ l ∨ x = t := by
  unfold Spec.add
  split
  · rename_i hm
    constructor
    · exact Or.inl
    · rintro (h | h)
      · exact h
      · subst h; exact hm
  · simp

theorem spec_mem_foldl_add : ∀ (P l : List κ) (x : κ), x ∈ P.foldl Spec.add l ↔ x ∈ l ∨ x ∈ P
  | [], l, x => by simp
  | t :: P, l, x => by
    rw [List.foldl_cons, spec_mem_foldl_add P _ x, spec_mem_add]
    simp only [List.mem_cons]
    constructor
    · rintro ((h | h) | h)
      · exact Or.inl h
      · exact Or.inr (Or.inl h)
      · exact Or.inr (Or.inr h)
    · rintro (h | h | h)
      · exact Or.inl (Or.inl h)
      · exact Or.inl (Or.inr h)
      · exact Or.inr h

/-- a text enters the dictionary only through `add t` or the predefined list -/
theorem spec_run_not_mem {P : List κ} {t : κ} (hP : t ∉ P) : ∀ (ops : List (Op κ)) {l l' : List κ},
    Spec.run P l ops = some l' → t ∉ l → (∀ op ∈ ops, op ≠ Op.add t) → t ∉ l'
  | [], l, l', h, hl, _ => by
    simp only [Spec.run, Option.some.injEq] at h; subst h; exact hl
  | op :: ops, l, l', h, hl, hne => by
    simp only [Spec.run, Option.bind_eq_some_iff] at h
    obtain ⟨l1, h1, h2⟩ := h
    refine spec_run_not_mem hP ops h2 ?_ (fun o ho => hne o (by simp [ho]))
    cases op with
    | add u =>
      simp only [Spec.step, Option.some.injEq] at h1
      subst h1
      rw [spec_mem_add]
      rintro (h | h)
      · exact hl h
      · exact hne (Op.add u) (by simp) (by rw [h])
    | get u => simp only [Spec.step, Option.some.injEq] at h1; subst h1; exact hl
    | str i =>
      simp only [Spec.step] at h1
      split at h1
      · simp only [Option.some.injEq] at h1; subst h1; exact hl
      · cases h1
    | more n => simp only [Spec.step, Option.some.injEq] at h1; subst h1; exact hl
    | reset => simp only [Spec.step, Option.some.injEq] at h1; subst h1; simp
    | resetMaster =>
      simp only [Spec.step, Option.some.injEq] at h1
      subst h1
      rw [spec_mem_foldl_add]
      simp [hP]

theorem spec_add_length_le (l : List κ) (t : κ) : (Spec.add l t).length ≤ l.length + 1 := by
  unfold Spec.add; split <;> simp

/-- with room for all of them, interning a list of texts never rehashes and never fails -/
theorem addAll_defined {hash : κ → Nat} {primes : List Nat} : ∀ (ts : List κ) {s : State κ} {ks : List κ}
    {B : Nat → List Nat}, Inv hash s ks B → s.count + ts.length ≤ s.tableLength →
    ∃ s', addAll hash primes s ts = some s'
  | [], s, _, _, _, _ => ⟨s, rfl⟩
  | t :: ts, s, ks, B, h, hroom => by
    simp only [List.length_cons] at hroom
    obtain ⟨⟨s1, i⟩, hr⟩ := add_defined (primes := primes) h t (Or.inr (Or.inl (by omega)))
    obtain ⟨⟨B1, h1⟩, _, htl, _⟩ := add_refines h hr
    have hc : s1.count ≤ s.count + 1 := by
      rw [h1.count_eq, h.count_eq]; exact spec_add_length_le ks t
    obtain ⟨s', hs'⟩ := addAll_defined (primes := primes) ts h1 (by omega)
    exact ⟨s', by unfold addAll; rw [hr]; exact hs'⟩

end Morfuse.Dict
