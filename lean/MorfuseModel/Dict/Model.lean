import MorfuseModel.Common.Mem
/-!
# Model of `con::arrayset` and `StringDictionary`
(include/morfuse/Container/arrayset.h, src/Common/StringDictionary.cpp,
 `ScriptMaster::InitConstStrings` / `ClearAll` in src/Script/ScriptMaster.cpp)

Transcribed statement by statement.  `κ` is the key type (`str`), `hash : κ → Nat` is
`HashT()(key)` read as `size_t` (the C++ computes `intptr_t % size_t`, i.e. an unsigned remainder)
and `primes` is the array `con::set_primes` *as the compiler lays it out* (24 slots, the last one
zero-filled).  Both are parameters: nothing below depends on which hash function is used.

Pointers.  An `EntryArraySet*` is a `Nat`, `0` is `nullptr`.  Entries are only ever created by
`addNewKeyEntry` (`NewEntry(key, count)`) and only ever destroyed all together by `clear`
(`StringDictionary` never calls `remove`), so the canonical address of an entry is the ordinal of
its allocation since the last `clear`, which is the value of `count` at that moment.
`key next idx` are the three fields of an entry keyed by that address.

Aliasing.  A fresh / cleared set has `table = &defaultEntry` and
`reverseTable = &defaultEntry - 1`, so `table[0]`, `reverseTable[1]` and `defaultEntry` are one
and the same word.  `inl = true` is that situation; `tableGet/tableSet/revGet/revSet` route the
accesses.  `resize` always moves to a heap table (`inl = false`, zero-initialised by `new T*[n]()`).

Undefined behaviour.  Two things end in `none` (the C++ would divide by zero, resp. write one slot
past the reverse table): `addNewKeyEntry` after a `rehash` that did not find a larger prime.
Everything else is total.  Freed memory is not modelled (the harness runs under ASan for that).
-/
namespace Morfuse.Dict

/-- a store `Nat → Option κ` (entry address ↦ the `value` field) -/
structure OMem (κ : Type) where
  m : Std.HashMap Nat κ

namespace OMem
variable {κ : Type}
def empty : OMem κ := ⟨∅⟩
def get? (s : OMem κ) (a : Nat) : Option κ := s.m[a]?
def set (s : OMem κ) (a : Nat) (v : κ) : OMem κ := ⟨s.m.insert a v⟩

@[simp] theorem get?_empty (a : Nat) : (empty : OMem κ).get? a = none := by
  simp [empty, get?]

theorem get?_set (s : OMem κ) (a : Nat) (v : κ) (x : Nat) :
    (s.set a v).get? x = if x = a then some v else s.get? x := by
  simp only [get?, set, Std.HashMap.getElem?_insert]
  by_cases h : x = a
  · subst h; simp
  · have : (a == x) = false := by simp; exact fun e => h e.symm
    simp [this, h]
end OMem

structure State (κ : Type) where
  key : OMem κ               -- EntryArraySet::value
  next : Mem                 -- EntryArraySet::next
  idx : Mem                  -- EntryArraySet::index
  table : Mem                -- heap bucket array (when `inl = false`)
  rev : Mem                  -- heap reverse table, 1-based (when `inl = false`)
  inl : Bool                 -- `table == &defaultEntry`
  tableLength : Nat
  threshold : Nat
  count : Nat
  tableLengthIndex : Nat
  defaultEntry : Nat

variable {κ : Type} [DecidableEq κ]

/-- `arrayset::arrayset()` -/
def init : State κ :=
  { key := .empty, next := .empty, idx := .empty, table := .empty, rev := .empty, inl := true,
    tableLength := 1, threshold := 1, count := 0, tableLengthIndex := 0, defaultEntry := 0 }

/-- `table[b]` -/
def tableGet (s : State κ) (b : Nat) : Nat := if s.inl then s.defaultEntry else s.table.get b
/-- `table[b] = v` -/
def tableSet (s : State κ) (b v : Nat) : State κ :=
  if s.inl then { s with defaultEntry := v } else { s with table := s.table.set b v }
/-- `reverseTable[i]` -/
def revGet (s : State κ) (i : Nat) : Nat := if s.inl then s.defaultEntry else s.rev.get i
/-- `reverseTable[i] = v` -/
def revSet (s : State κ) (i v : Nat) : State κ :=
  if s.inl then { s with defaultEntry := v } else { s with rev := s.rev.set i v }

/-- `for (; entry; entry = entry->next) if (KeyEqT()(entry->Key(), key)) return entry; return nullptr;`
    with explicit fuel -/
def findLoop (s : State κ) (key : κ) : Nat → Nat → Nat
  | 0, _ => 0
  | fuel + 1, e =>
    if e = 0 then 0
    else if s.key.get? e = some key then e
    else findLoop s key fuel (s.next.get e)

/-- `arrayset::findKeyEntry` -/
def findKeyEntry (hash : κ → Nat) (s : State κ) (key : κ) : Nat :=
  findLoop s key (s.count + 1) (tableGet s (hash key % s.tableLength))

/-- `arrayset::findKeyIndex`: `entry ? entry->Index() : 0` -/
def findKeyIndex (hash : κ → Nat) (s : State κ) (key : κ) : Nat :=
  let e := findKeyEntry hash s key
  if e ≠ 0 then s.idx.get e else 0

/-- inner loop of `resize`: `for (e = oldTable[i-1]; e; e = old) { old = e->Next();
    index = Hash(e->Value()) % tableLength; e->SetNext(table[index]); table[index] = e; }` -/
def moveChain (hash : κ → Nat) : Nat → Nat → State κ → State κ
  | 0, _, s => s
  | fuel + 1, e, s =>
    if e = 0 then s
    else
      match s.key.get? e with
      | none => s                                   -- dangling entry pointer: never reached
      | some k =>
        let old := s.next.get e
        let index := hash k % s.tableLength
        let s' := { s with next := s.next.set e (s.table.get index), table := s.table.set index e }
        moveChain hash fuel old s'

/-- outer loop of `resize`: `for (i = min(old,new); i > 0; i--) { …chain oldTable[i-1]…;
    reverseTable[i] = oldReverseTable[i]; }` -/
def resizeOuter (hash : κ → Nat) (oldT oldR : Nat → Nat) : Nat → State κ → State κ
  | 0, s => s
  | i + 1, s =>
    let s1 := moveChain hash (s.count + 1) (oldT i) s
    let s2 := { s1 with rev := s1.rev.set (i + 1) (oldR (i + 1)) }
    resizeOuter hash oldT oldR i s2

/-- `arrayset::resize(newCount)` -/
def resize (hash : κ → Nat) (s : State κ) (newCount : Nat) : State κ :=
  let oldTableLength := s.tableLength
  let oldTable := tableGet s
  let oldReverseTable := revGet s
  let s1 := { s with tableLength := newCount, threshold := newCount,
                     table := .empty, rev := .empty, inl := false }
  resizeOuter hash oldTable oldReverseTable (min oldTableLength newCount) s1

/-- the `for` loop of `rehash` over `set_primes`: returns `(newLen, some i)` when it broke out at
    slot `i`, `(last slot read, none)` when it ran off the end -/
def scanPrimes (tl : Nat) : List Nat → Nat → Nat → Nat × Option Nat
  | [], _, newLen => (newLen, none)
  | p :: ps, i, _ => if p > tl then (p, some i) else scanPrimes tl ps (i + 1) p

/-- `arrayset::rehash` -/
def rehash (hash : κ → Nat) (primes : List Nat) (s : State κ) : State κ :=
  match scanPrimes s.tableLength primes 0 0 with
  | (newLen, some i) => resize hash { s with tableLengthIndex := i } newLen
  | (newLen, none) => resize hash s newLen

/-- second half of `arrayset::addNewKeyEntry` (from `count++` on); returns the new entry -/
def addNewCore (s : State κ) (key : κ) (index : Nat) : State κ × Nat :=
  let s := { s with count := s.count + 1 }
  let e := s.count                                            -- NewEntry(key, count)
  let s := { s with key := s.key.set e key, next := s.next.set e 0, idx := s.idx.set e s.count }
  let s :=
    if s.defaultEntry = 0 then { s with defaultEntry := e, next := s.next.set e 0 }
    else { s with next := s.next.set e (tableGet s index) }
  let s := tableSet s index e
  let s := revSet s s.count e
  (s, e)

/-- `arrayset::addNewKeyEntry(key, index)` -/
def addNewKeyEntry (hash : κ → Nat) (primes : List Nat) (s : State κ) (key : κ) (index : Nat) :
    Option (State κ × Nat) :=
  if s.count ≥ s.threshold then
    let s1 := rehash hash primes s
    -- `Hash % 0`, or `reverseTable[count]` past the end: undefined behaviour
    if s1.tableLength = 0 ∨ s1.tableLength < s1.count + 1 then none
    else some (addNewCore s1 key (hash key % s1.tableLength))
  else some (addNewCore s key index)

/-- `arrayset::addKeyEntry(key)` -/
def addKeyEntry (hash : κ → Nat) (primes : List Nat) (s : State κ) (key : κ) : Option (State κ × Nat) :=
  let index := hash key % s.tableLength
  let e := findLoop s key (s.count + 1) (tableGet s index)
  if e ≠ 0 then some (s, e) else addNewKeyEntry hash primes s key index

/-- `arrayset::addKeyIndex(key)` -/
def addKeyIndex (hash : κ → Nat) (primes : List Nat) (s : State κ) (key : κ) : Option (State κ × Nat) :=
  match addKeyEntry hash primes s key with
  | none => none
  | some (s', e) => some (s', s'.idx.get e)

/-- `arrayset::clear()`: every entry is deleted, the heap table is freed, all fields are reset -/
def clear (_ : State κ) : State κ := init

/-! ### `StringDictionary` -/

/-- `StringDictionary::Add` -/
def add (hash : κ → Nat) (primes : List Nat) (s : State κ) (t : κ) : Option (State κ × Nat) :=
  addKeyIndex hash primes s t

/-- `StringDictionary::Get(const rawchar_t*)`; `0` is `const_str::None()` -/
def idOf (hash : κ → Nat) (s : State κ) (t : κ) : Nat := findKeyIndex hash s t

/-- `StringDictionary::Get(const_str)` = `reverseTable[index]->Value()`; `none` when the index is
    not one the dictionary has handed out (the C++ dereferences whatever is there) -/
def textOf (s : State κ) (i : Nat) : Option κ :=
  if 1 ≤ i ∧ i ≤ s.count then s.key.get? (revGet s i) else none

/-- `StringDictionary::AllocateMoreString` -/
def allocateMoreString (hash : κ → Nat) (s : State κ) (n : Nat) : State κ :=
  if s.count + n > s.tableLength then resize hash s (s.count + n) else s

/-- the `for` loop of `ScriptMaster::InitConstStrings` -/
def addAll (hash : κ → Nat) (primes : List Nat) : State κ → List κ → Option (State κ)
  | s, [] => some s
  | s, t :: ts =>
    match add hash primes s t with
    | none => none
    | some (s', _) => addAll hash primes s' ts

/-- `ScriptMaster::InitConstStrings` over the registered predefined strings `P` -/
def initConstStrings (hash : κ → Nat) (primes : List Nat) (P : List κ) (s : State κ) : Option (State κ) :=
  addAll hash primes (allocateMoreString hash s P.length) P

inductive Op (κ : Type)
  | add (t : κ)          -- dict.Add(t)
  | get (t : κ)          -- dict.Get(t)  (const)
  | str (i : Nat)        -- dict.Get(const_str(i))  (const)
  | more (n : Nat)       -- dict.AllocateMoreString(n)
  | reset                -- dict.Reset()
  | resetMaster          -- ScriptMaster::ClearAll: dict.Reset(); InitConstStrings()

/-- one operation; `none` = illegal (`str` of an id never handed out) or undefined behaviour -/
def step (hash : κ → Nat) (primes : List Nat) (P : List κ) (s : State κ) : Op κ → Option (State κ)
  | .add t => (add hash primes s t).map (·.1)
  | .get _ => some s
  | .str i => if (textOf s i).isSome then some s else none
  | .more n => some (allocateMoreString hash s n)
  | .reset => some (clear s)
  | .resetMaster => initConstStrings hash primes P (clear s)

def run (hash : κ → Nat) (primes : List Nat) (P : List κ) : State κ → List (Op κ) → Option (State κ)
  | s, [] => some s
  | s, op :: ops => (step hash primes P s op).bind (run hash primes P · ops)

/-- states of a stand-alone `StringDictionary` -/
def Reachable (hash : κ → Nat) (primes : List Nat) (P : List κ) (s : State κ) : Prop :=
  ∃ ops, run hash primes P init ops = some s

/-- the texts the dictionary denotes, in id order (`textOf` for `1..count`) -/
def texts (s : State κ) : List κ :=
  (List.range s.count).filterMap fun i => textOf s (i + 1)

end Morfuse.Dict
