import MorfuseModel.Dict.Model
/-!
# Abstract specification of the string dictionary

The whole dictionary is the list of interned texts in id order: id `i ≥ 1` denotes `l[i-1]`,
`0` is "absent" (`const_str::None()`).
-/
namespace Morfuse.Dict.Spec
variable {κ : Type} [DecidableEq κ]

/-- lookup by text: position + 1, or `0` when absent -/
def idOf (l : List κ) (t : κ) : Nat := if t ∈ l then l.idxOf t + 1 else 0

/-- lookup by id -/
def textOf (l : List κ) (i : Nat) : Option κ := if i = 0 then none else l[i - 1]?

/-- interning appends the text unless it is already there -/
def add (l : List κ) (t : κ) : List κ := if t ∈ l then l else l ++ [t]

def step (P : List κ) (l : List κ) : Op κ → Option (List κ)
  | .add t => some (add l t)
  | .get _ => some l
  | .str i => if (textOf l i).isSome then some l else none
  | .more _ => some l
  | .reset => some []
  | .resetMaster => some (P.foldl add [])

def run (P : List κ) : List κ → List (Op κ) → Option (List κ)
  | l, [] => some l
  | l, op :: ops => (step P l op).bind (run P · ops)

end Morfuse.Dict.Spec
