import MorfuseModel.Dispatch.Spec
/-!
# Lemmas for the command-dispatch model (property C16)

Part 1: list utilities.  Part 2: the event numbering (`EvInv`).  Part 3: the name table and
`LoadEvents` (`LoadInv`).  Part 4: the response tables (`rowSpec`, `Good`, `Nearest`).
Part 5: the state invariant over all operation sequences and the facts the property theorems use.
-/
namespace Morfuse.Dispatch

/-! ### list utilities -/

theorem mem_enumFrom1 {α : Type} {l : List α} {i : Nat} {p : Nat × α} :
    p ∈ enumFrom1 i l ↔ ∃ k, l[k]? = some p.2 ∧ p.1 = i + k := by
  induction l generalizing i with
  | nil => simp [enumFrom1]
  | cons a t ih =>
    simp only [enumFrom1, List.mem_cons, ih]
    constructor
    · rintro (h | ⟨k, hk, hp⟩)
      · exact ⟨0, by simp [h], by simp [h]⟩
      · exact ⟨k + 1, by simpa using hk, by omega⟩
    · rintro ⟨k, hk, hp⟩
      cases k with
      | zero =>
        left
        simp at hk
        cases p; simp_all
      | succ k => right; exact ⟨k, by simpa using hk, by omega⟩

theorem enumFrom1_map_snd {α : Type} (l : List α) (i : Nat) : (enumFrom1 i l).map (·.2) = l := by
  induction l generalizing i with
  | nil => rfl
  | cons a t ih => simp [enumFrom1, ih]

theorem enumFrom1_filter_map_snd {α : Type} (l : List α) (i : Nat) (f : α → Bool) :
    ((enumFrom1 i l).filter (fun p => f p.2)).map (·.2) = l.filter f := by
  induction l generalizing i with
  | nil => rfl
  | cons a t ih =>
    simp only [enumFrom1, List.filter_cons]
    by_cases h : f a = true <;> simp [h, ih]

theorem nodup_map_inj {α β : Type} {f : α → β} {l : List α} (h : (l.map f).Nodup) {a b : α}
    (ha : a ∈ l) (hb : b ∈ l) (e : f a = f b) : a = b := by
  induction l with
  | nil => cases ha
  | cons x t ih =>
    simp only [List.map_cons, List.nodup_cons, List.mem_map, not_exists, not_and] at h
    simp only [List.mem_cons] at ha hb
    rcases ha with rfl | ha <;> rcases hb with rfl | hb
    · rfl
    · exact absurd e.symm (h.1 b hb)
    · exact absurd e (h.1 a ha)
    · exact ih h.2 ha hb



/-! ### the event numbering -/

/-- the `EventDef` objects that entered the global list, in construction order -/
def linkedEvs (r : Reg) : List EvObj := r.evs.filter (·.linked)

theorem linkedList_map_snd (r : Reg) : (linkedList r).map (·.2) = (linkedEvs r).reverse := by
  simp only [linkedList, List.map_reverse, linkedEvs]
  rw [enumFrom1_filter_map_snd r.evs 1 (·.linked)]

theorem mem_linkedList {r : Reg} {p : Nat × EvObj} :
    p ∈ linkedList r ↔ evAt r p.1 = some p.2 ∧ p.2.linked = true := by
  simp only [linkedList, List.mem_reverse, List.mem_filter, mem_enumFrom1, evAt]
  constructor
  · rintro ⟨⟨k, hk, hp⟩, hl⟩
    refine ⟨?_, hl⟩
    have : p.1 ≠ 0 := by omega
    simp only [this, if_false]
    rw [show p.1 - 1 = k by omega]; exact hk
  · rintro ⟨h, hl⟩
    refine ⟨?_, hl⟩
    by_cases h0 : p.1 = 0
    · simp [h0] at h
    · simp only [h0, if_false] at h
      exact ⟨p.1 - 1, h, by omega⟩

theorem evAt_mem {r : Reg} {i : Nat} {e : EvObj} (h : evAt r i = some e) : e ∈ r.evs := by
  unfold evAt at h
  split at h
  · cases h
  · exact List.mem_of_getElem? h

theorem snd_mem_linkedEvs {r : Reg} {p : Nat × EvObj} (h : p ∈ linkedList r) : p.2 ∈ linkedEvs r := by
  have := mem_linkedList.1 h
  exact List.mem_filter.2 ⟨evAt_mem this.1, by simpa using this.2⟩

theorem linkedEvs_has_id {r : Reg} {e : EvObj} (h : e ∈ linkedEvs r) : ∃ i, (i, e) ∈ linkedList r := by
  have : e ∈ (linkedList r).map (·.2) := by rw [linkedList_map_snd]; simpa using h
  obtain ⟨p, hp, rfl⟩ := List.mem_map.1 this
  exact ⟨p.1, hp⟩

structure EvInv (r : Reg) : Prop where
  nums : (linkedEvs r).map (·.num) = List.range' 1 r.defCount
  keys : ((linkedEvs r).map key).Nodup
  rep : ∀ e ∈ r.evs, ∃ d ∈ r.evs, d.linked = true ∧ d.num = e.num ∧ d.name = e.name ∧ d.kind = e.kind

theorem evInv_init : EvInv init.reg := by
  refine ⟨?_, ?_, ?_⟩ <;> simp [init, linkedEvs]

theorem key_eq_iff (a b : EvObj) : key a = key b ↔ (icmpEq a.name b.name = true ∧ a.kind = b.kind) := by
  simp [key, icmpEq, Prod.ext_iff]

theorem evInv_newEvent {r : Reg} (h : EvInv r) (name : Name) (kind : Kind) (ns : Nat) :
    EvInv (newEvent r name kind ns) := by
  unfold newEvent
  split
  · rename_i p hp
    have hmem := List.mem_of_find?_eq_some hp
    have hpred := List.find?_some hp
    have hl : linkedEvs { r with evs := r.evs ++ [{ name := p.2.name, kind := p.2.kind, num := p.2.num, ns := ns, linked := false }] }
        = linkedEvs r := by simp [linkedEvs, List.filter_append]
    refine ⟨by rw [hl]; exact h.nums, by rw [hl]; exact h.keys, ?_⟩
    intro e he
    simp only [List.mem_append, List.mem_singleton] at he
    rcases he with he | rfl
    · obtain ⟨d, hd, h1⟩ := h.rep e he
      exact ⟨d, by simp [hd], h1⟩
    · have := mem_linkedList.1 hmem
      exact ⟨p.2, by simp [evAt_mem this.1], this.2, rfl, rfl, rfl⟩
  · rename_i hnone
    have hl : linkedEvs { r with evs := r.evs ++ [{ name := name, kind := kind, num := r.defCount + 1, ns := ns, linked := true }], defCount := r.defCount + 1 }
        = linkedEvs r ++ [{ name := name, kind := kind, num := r.defCount + 1, ns := ns, linked := true }] := by
      simp [linkedEvs, List.filter_append]
    refine ⟨?_, ?_, ?_⟩
    · rw [hl]; simp only [List.map_append, h.nums, List.map_cons, List.map_nil]
      rw [List.range'_concat]; simp [Nat.add_comm]
    · rw [hl]; simp only [List.map_append, List.map_cons, List.map_nil]
      refine List.nodup_append.2 ⟨h.keys, by simp, ?_⟩
      intro a ha b hb
      simp only [List.mem_singleton] at hb
      subst hb
      obtain ⟨d, hd, rfl⟩ := List.mem_map.1 ha
      obtain ⟨i, hi⟩ := linkedEvs_has_id hd
      have := List.find?_eq_none.1 hnone (i, d) hi
      intro e
      apply this
      have := (key_eq_iff d { name := name, kind := kind, num := r.defCount + 1, ns := ns, linked := true }).1 e
      simpa using this
    · intro e he
      simp only [List.mem_append, List.mem_singleton] at he
      rcases he with he | rfl
      · obtain ⟨d, hd, h1⟩ := h.rep e he
        exact ⟨d, by simp [hd], h1⟩
      · exact ⟨_, by simp, rfl, rfl, rfl, rfl⟩

theorem evInv_newClass {r : Reg} (h : EvInv r) (super ns : Nat) (decls : List Decl) :
    EvInv (newClass r super ns decls) := ⟨h.nums, h.keys, h.rep⟩

/-- the first registrant of an event object -/
theorem EvInv.rep_linked {r : Reg} (h : EvInv r) {e : EvObj} (he : e ∈ r.evs) :
    ∃ d ∈ linkedEvs r, d.num = e.num ∧ d.name = e.name ∧ d.kind = e.kind := by
  obtain ⟨d, hd, hl, h1⟩ := h.rep e he
  exact ⟨d, List.mem_filter.2 ⟨hd, by simpa using hl⟩, h1⟩

theorem EvInv.range {r : Reg} (h : EvInv r) {e : EvObj} (he : e ∈ r.evs) : 1 ≤ e.num ∧ e.num ≤ r.defCount := by
  obtain ⟨d, hd, hn, _⟩ := h.rep_linked he
  have : d.num ∈ (linkedEvs r).map (·.num) := List.mem_map.2 ⟨d, hd, rfl⟩
  rw [h.nums, List.mem_range'_1] at this
  omega

theorem EvInv.num_eq_iff {r : Reg} (h : EvInv r) {e1 e2 : EvObj} (h1 : e1 ∈ r.evs) (h2 : e2 ∈ r.evs) :
    e1.num = e2.num ↔ key e1 = key e2 := by
  obtain ⟨d1, hd1, n1, nm1, k1⟩ := h.rep_linked h1
  obtain ⟨d2, hd2, n2, nm2, k2⟩ := h.rep_linked h2
  have hk1 : key d1 = key e1 := by simp [key, nm1, k1]
  have hk2 : key d2 = key e2 := by simp [key, nm2, k2]
  constructor
  · intro e
    have : d1 = d2 := nodup_map_inj (f := (·.num)) (by rw [h.nums]; exact List.nodup_range') hd1 hd2 (by omega)
    rw [← hk1, ← hk2, this]
  · intro e
    have : d1 = d2 := nodup_map_inj h.keys hd1 hd2 (by rw [hk1, hk2, e])
    rw [← n1, ← n2, this]

theorem EvInv.full {r : Reg} (h : EvInv r) {n : Nat} (h1 : 1 ≤ n) (h2 : n ≤ r.defCount) :
    ∃ d ∈ linkedEvs r, d.num = n := by
  have : n ∈ (linkedEvs r).map (·.num) := by rw [h.nums, List.mem_range'_1]; omega
  obtain ⟨d, hd, rfl⟩ := List.mem_map.1 this
  exact ⟨d, hd, rfl⟩

theorem EvInv.length {r : Reg} (h : EvInv r) : (linkedList r).length = r.defCount := by
  have : ((linkedList r).map (·.2)).length = (linkedEvs r).reverse.length := by rw [linkedList_map_snd]
  have h2 : ((linkedEvs r).map (·.num)).length = r.defCount := by rw [h.nums]; simp
  simp at this h2; omega



/-! ### the name table -/

theorem icmpEq_iff (a b : Name) : icmpEq a b = true ↔ fold a = fold b := by simp [icmpEq]

theorem fkif_range (i : Nat) (names : List Name) (n : Name) :
    findKeyIndexFrom i names n = 0 ∨ (i ≤ findKeyIndexFrom i names n ∧ findKeyIndexFrom i names n < i + names.length) := by
  induction names generalizing i with
  | nil => simp [findKeyIndexFrom]
  | cons k t ih =>
    simp only [findKeyIndexFrom]
    split
    · right; simp
    · rcases ih (i + 1) with h | h
      · left; exact h
      · right; simp only [List.length_cons]; omega

theorem fkif_append {i : Nat} (hi : 1 ≤ i) (names : List Name) (m n : Name) :
    findKeyIndexFrom i (names ++ [m]) n =
      if findKeyIndexFrom i names n ≠ 0 then findKeyIndexFrom i names n
      else if icmpEq m n then i + names.length else 0 := by
  induction names generalizing i with
  | nil => simp [findKeyIndexFrom]
  | cons k t ih =>
    simp only [List.cons_append, findKeyIndexFrom]
    split
    · have : i ≠ 0 := by omega
      simp [this]
    · rw [ih (by omega)]
      simp only [List.length_cons]
      split
      · rfl
      · split
        · omega
        · rfl

theorem fkif_get {i : Nat} (hi : 1 ≤ i) {names : List Name} {n : Name} (h : findKeyIndexFrom i names n ≠ 0) :
    ∃ k, names[findKeyIndexFrom i names n - i]? = some k ∧ fold k = fold n := by
  induction names generalizing i with
  | nil => simp [findKeyIndexFrom] at h
  | cons k t ih =>
    simp only [findKeyIndexFrom] at h ⊢
    split
    · rename_i hk
      exact ⟨k, by simp, (icmpEq_iff _ _).1 hk⟩
    · rename_i hk
      simp only [hk] at h
      obtain ⟨k', h1, h2⟩ := ih (i := i + 1) (by omega) (by simpa using h)
      have hr := fkif_range (i + 1) t n
      refine ⟨k', ?_, h2⟩
      have : findKeyIndexFrom (i + 1) t n - i = (findKeyIndexFrom (i + 1) t n - (i + 1)) + 1 := by
        rcases hr with hr | hr
        · simp [hr] at h
        · omega
      rw [this]; simpa using h1

theorem fkif_congr {a b : Name} (h : fold a = fold b) (i : Nat) (names : List Name) :
    findKeyIndexFrom i names a = findKeyIndexFrom i names b := by
  induction names generalizing i with
  | nil => rfl
  | cons k t ih => simp only [findKeyIndexFrom, icmpEq, h, ih]; rfl

theorem findKeyIndex_congr {a b : Name} (h : fold a = fold b) (names : List Name) :
    findKeyIndex names a = findKeyIndex names b := fkif_congr h 1 names

theorem findKeyIndex_inj {names : List Name} {a b : Name} (ha : findKeyIndex names a ≠ 0)
    (e : findKeyIndex names a = findKeyIndex names b) : fold a = fold b := by
  obtain ⟨k, h1, h2⟩ := fkif_get (i := 1) (by omega) ha
  obtain ⟨k', h1', h2'⟩ := fkif_get (i := 1) (n := b) (names := names) (by omega) (by unfold findKeyIndex at e ha; omega)
  unfold findKeyIndex at e
  rw [e] at h1
  rw [h1] at h1'
  cases h1'
  rw [← h2, h2']

theorem findKeyIndex_le (names : List Name) (n : Name) : findKeyIndex names n ≤ names.length := by
  rcases fkif_range 1 names n with h | h <;> unfold findKeyIndex <;> omega

theorem addKeyIndex_idx (names : List Name) (n : Name) :
    (addKeyIndex names n).2 = findKeyIndex (addKeyIndex names n).1 n ∧ (addKeyIndex names n).2 ≠ 0 := by
  unfold addKeyIndex
  split
  · rename_i h; exact ⟨rfl, h⟩
  · rename_i h
    simp only [ne_eq, Decidable.not_not] at h
    refine ⟨?_, by simp⟩
    unfold findKeyIndex at h ⊢
    rw [fkif_append (by omega)]
    simp [h, icmpEq, Nat.add_comm]

theorem addKeyIndex_keep (names : List Name) (n m : Name) (h : findKeyIndex names m ≠ 0) :
    findKeyIndex (addKeyIndex names n).1 m = findKeyIndex names m := by
  unfold addKeyIndex
  split
  · rfl
  · unfold findKeyIndex at h ⊢
    rw [fkif_append (by omega)]; simp [h]

theorem addKeyIndex_known (names : List Name) (n m : Name) :
    findKeyIndex (addKeyIndex names n).1 m ≠ 0 ↔ (findKeyIndex names m ≠ 0 ∨ fold n = fold m) := by
  unfold addKeyIndex
  split
  · rename_i h
    constructor
    · intro h'; exact Or.inl h'
    · rintro (h' | h')
      · exact h'
      · rw [← findKeyIndex_congr h']; exact h
  · unfold findKeyIndex
    rw [fkif_append (by omega)]
    by_cases h' : findKeyIndexFrom 1 names m = 0
    · simp [h', icmpEq_iff]
    · simp [h']

theorem addKeyIndex_length (names : List Name) (n : Name) :
    names.length ≤ (addKeyIndex names n).1.length := by
  unfold addKeyIndex; split <;> simp

/-! ### `commandList` -/

theorem info_setInfo (es : ES) (k k' : Kind) (idx v i : Nat) :
    (es.setInfo k idx v).info k' i = if k' = k ∧ k ≠ .none ∧ i = idx then v else es.info k' i := by
  cases k <;> cases k' <;> simp [ES.setInfo, ES.info, Arr.get_set]

@[simp] theorem setInfo_names (es : ES) (k : Kind) (idx v : Nat) : (es.setInfo k idx v).names = es.names := by
  cases k <;> rfl
@[simp] theorem setInfo_defList (es : ES) (k : Kind) (idx v : Nat) : (es.setInfo k idx v).defList = es.defList := by
  cases k <;> rfl
@[simp] theorem setInfo_numEvents (es : ES) (k : Kind) (idx v : Nat) : (es.setInfo k idx v).numEvents = es.numEvents := by
  cases k <;> rfl

/-! ### `LoadEvents` -/

structure LoadInv (es : ES) (done : List (Nat × EvObj)) : Prop where
  defs : ∀ p ∈ done, es.defList.get p.2.num = p.1
  known : ∀ n, findKeyIndex es.names n ≠ 0 ↔ ∃ p ∈ done, fold p.2.name = fold n
  info : ∀ p ∈ done, p.2.kind ≠ .none → es.info p.2.kind (findKeyIndex es.names p.2.name) = p.2.num
  back : ∀ k i, es.info k i ≠ 0 →
    ∃ p ∈ done, p.2.kind = k ∧ findKeyIndex es.names p.2.name = i ∧ p.2.num = es.info k i

theorem loadInv_empty (n : Nat) : LoadInv { ES.empty with numEvents := n } [] := by
  refine ⟨by simp, ?_, by simp, ?_⟩
  · intro m; simp [ES.empty, findKeyIndex, findKeyIndexFrom]
  · intro k i h; cases k <;> simp [ES.empty, ES.info] at h

theorem loadInv_step {es : ES} {done : List (Nat × EvObj)} (h : LoadInv es done) (p : Nat × EvObj)
    (hnum : ∀ q ∈ done, q.2.num ≠ p.2.num) (hkey : ∀ q ∈ done, key q.2 ≠ key p.2) :
    LoadInv (loadOne es p) (done ++ [p]) := by
  have hidx := addKeyIndex_idx es.names p.2.name
  refine ⟨?_, ?_, ?_, ?_⟩
  · intro q hq
    simp only [loadOne, setInfo_defList, Arr.get_set]
    simp only [List.mem_append, List.mem_singleton] at hq
    rcases hq with hq | rfl
    · simp [hnum q hq, h.defs q hq]
    · simp
  · intro n
    simp only [loadOne, setInfo_names, addKeyIndex_known, h.known n]
    constructor
    · rintro (⟨q, hq, e⟩ | e)
      · exact ⟨q, by simp [hq], e⟩
      · exact ⟨p, by simp, e⟩
    · rintro ⟨q, hq, e⟩
      simp only [List.mem_append, List.mem_singleton] at hq
      rcases hq with hq | rfl
      · exact Or.inl ⟨q, hq, e⟩
      · exact Or.inr e
  · intro q hq hk
    simp only [loadOne, setInfo_names, info_setInfo]
    simp only [List.mem_append, List.mem_singleton] at hq
    rcases hq with hq | rfl
    · have hq0 : findKeyIndex es.names q.2.name ≠ 0 := (h.known q.2.name).2 ⟨q, hq, rfl⟩
      rw [addKeyIndex_keep _ _ _ hq0]
      split
      · rename_i hc
        exfalso
        obtain ⟨hk1, _, hi⟩ := hc
        have hi' : findKeyIndex (addKeyIndex es.names p.2.name).1 q.2.name = findKeyIndex (addKeyIndex es.names p.2.name).1 p.2.name := by
          rw [addKeyIndex_keep _ _ _ hq0, hi, hidx.1]
        have := findKeyIndex_inj (by rw [addKeyIndex_keep _ _ _ hq0]; exact hq0) hi'
        exact hkey q hq (by simp [key, this, hk1])
      · exact h.info q hq hk
    · simp [hk, hidx.1]
  · intro k i hne
    simp only [loadOne, info_setInfo, setInfo_names] at hne ⊢
    split at hne
    · rename_i hc
      obtain ⟨hk1, hk2, hi⟩ := hc
      refine ⟨p, by simp, hk1.symm, ?_, ?_⟩
      · rw [hi, hidx.1]
      · simp [hk1, hk2, hi]
    · rename_i hc
      obtain ⟨q, hq, h1, h2, h3⟩ := h.back k i hne
      have hq0 : findKeyIndex es.names q.2.name ≠ 0 := (h.known q.2.name).2 ⟨q, hq, rfl⟩
      refine ⟨q, by simp [hq], h1, ?_, ?_⟩
      · rw [addKeyIndex_keep _ _ _ hq0, h2]
      · simp only [hc, if_false]; exact h3

theorem loadInv_foldl (l : List (Nat × EvObj)) : ∀ (es : ES) (done : List (Nat × EvObj)), LoadInv es done →
    ((done ++ l).map (·.2.num)).Nodup → ((done ++ l).map (fun p => key p.2)).Nodup →
    LoadInv (l.foldl loadOne es) (done ++ l) := by
  induction l with
  | nil => intro es done h _ _; simpa using h
  | cons p t ih =>
    intro es done h hn hk
    have h' : LoadInv (loadOne es p) (done ++ [p]) := by
      apply loadInv_step h
      · intro q hq e
        rw [List.map_append, List.map_cons] at hn
        have := (List.nodup_append.1 hn).2.2 q.2.num (List.mem_map.2 ⟨q, hq, rfl⟩) p.2.num (by simp)
        exact this e
      · intro q hq e
        rw [List.map_append, List.map_cons] at hk
        have := (List.nodup_append.1 hk).2.2 (key q.2) (List.mem_map.2 ⟨q, hq, rfl⟩) (key p.2) (by simp)
        exact this e
    have := ih (loadOne es p) (done ++ [p]) h' (by simpa using hn) (by simpa using hk)
    simpa using this

theorem loadOne_numEvents (es : ES) (p : Nat × EvObj) : (loadOne es p).numEvents = es.numEvents := by
  simp [loadOne]

theorem loadEvents_numEvents (l : List (Nat × EvObj)) (es : ES) : (loadEvents es l).numEvents = es.numEvents := by
  unfold loadEvents
  induction l generalizing es with
  | nil => rfl
  | cons p t ih => simp only [List.foldl_cons]; rw [ih, loadOne_numEvents]

theorem countUnique_fst {l : List (Nat × EvObj)} (h : (l.map (·.2.num)).Nodup) : (countUnique l).1 = l.length := by
  induction l with
  | nil => rfl
  | cons p t ih =>
    simp only [List.map_cons, List.nodup_cons] at h
    simp only [countUnique, List.length_cons]
    split
    · simp [ih h.2]
    · rename_i e2 he
      have hm := List.mem_of_find?_eq_some he
      have : p.2.num ≠ e2.2.num := fun e => h.1 (List.mem_map.2 ⟨e2, hm, e.symm⟩)
      simp [this, ih h.2]



/-! ### response tables -/

/-- what `GetResponse` reads in a row -/
def slotOf (row : Row) (n : Nat) : Option (Nat × Nat) :=
  if row.c.get n = 0 then none else some (row.c.get n, row.i.get n)

@[simp] theorem slotOf_zero (n : Nat) : slotOf Row.zero n = none := by simp [slotOf, Row.zero]

theorem slotOf_set (row : Row) (m c i n : Nat) :
    slotOf (row.set m c i) n = if n = m then (if c = 0 then none else some (c, i)) else slotOf row n := by
  simp only [slotOf, Row.set, Arr.get_set]
  by_cases h : n = m <;> simp [h]

theorem slotOf_patch (r : Reg) (c : Nat) (hc : c ≠ 0) (decls : List Decl) (i0 : Nat) (base : Row) (n : Nat) :
    slotOf (patch r c decls i0 base) n =
      match ownDecl r c n decls i0 with
      | some x => x
      | none => slotOf base n := by
  induction decls generalizing i0 base with
  | nil => simp [patch, ownDecl]
  | cons d ds ih =>
    simp only [patch, ownDecl]
    rw [ih]
    cases h : ownDecl r c n ds (i0 + 1) with
    | some x => rfl
    | none =>
      simp only
      by_cases hd : d.has = true
      · simp only [hd, if_true, slotOf_set, hc, if_false]
        by_cases e : evNum r d.ev = n
        · simp [e]
        · have : ¬ n = evNum r d.ev := fun x => e x.symm
          simp [e, this]
      · have hd' : d.has = false := by simpa using hd
        simp only [hd']
        by_cases e : evNum r d.ev = n
        · simp [e, slotOf_set]
        · have : ¬ n = evNum r d.ev := fun x => e x.symm
          simp [e, this, slotOf_set]

/-- the row of class `c` as a function of the registry alone -/
def rowSpec (r : Reg) : Nat → Nat → Row
  | 0, _ => Row.zero
  | f + 1, c =>
    match clsAt r c with
    | none => Row.zero
    | some cd => patch r c cd.decls 0 (if cd.super ≠ 0 then rowSpec r f cd.super else Row.zero)

theorem rowSpec_succ (r : Reg) (f c : Nat) : rowSpec r (f + 1) c =
    match clsAt r c with
    | none => Row.zero
    | some cd => patch r c cd.decls 0 (if cd.super ≠ 0 then rowSpec r f cd.super else Row.zero) := rfl

theorem clsAt_ne_zero {r : Reg} {c : Nat} {cd : ClsObj} (h : clsAt r c = some cd) : c ≠ 0 := by
  intro e; simp [clsAt, e] at h

theorem reaches_succ {r : Reg} : ∀ {f c : Nat}, reaches r f c = true →
    reaches r (f + 1) c = true ∧ rowSpec r (f + 1) c = rowSpec r f c := by
  intro f
  induction f with
  | zero =>
    intro c h
    cases c with
    | zero => simp [reaches, rowSpec, clsAt]
    | succ c => simp [reaches] at h
  | succ f ih =>
    intro c h
    cases c with
    | zero => simp [reaches, rowSpec, clsAt]
    | succ c =>
      simp only [reaches] at h ⊢
      cases hc : clsAt r (c + 1) with
      | none => simp [hc] at h
      | some cd =>
        simp only [hc] at h ⊢
        have := ih h
        refine ⟨this.1, ?_⟩
        rw [rowSpec_succ r (f + 1), rowSpec_succ r f]
        simp only [hc]
        by_cases hs : cd.super = 0
        · simp [hs]
        · simp only [ne_eq, hs, not_false_eq_true, if_true]
          rw [this.2]

theorem reaches_mono {r : Reg} {f c : Nat} (h : reaches r f c = true) (g : Nat) :
    reaches r (f + g) c = true ∧ rowSpec r (f + g) c = rowSpec r f c := by
  induction g with
  | zero => exact ⟨h, rfl⟩
  | succ g ih =>
    have := reaches_succ ih.1
    exact ⟨this.1, by rw [← ih.2]; exact this.2⟩

theorem rowSpec_unique {r : Reg} {f g c : Nat} (hf : reaches r f c = true) (hg : reaches r g c = true) :
    rowSpec r f c = rowSpec r g c := by
  have h1 := (reaches_mono hf g).2
  have h2 := (reaches_mono hg f).2
  rw [← h1, ← h2, Nat.add_comm]

/-- every built table is the one the registry determines -/
def Good (r : Reg) (T : Tables) : Prop :=
  ∀ c row, tget T c = some row → c ≠ 0 ∧ ∃ f, reaches r f c = true ∧ row = rowSpec r f c

theorem tget_cons (c : Nat) (row : Row) (T : Tables) (x : Nat) :
    tget ((c, row) :: T) x = if x = c then some row else tget T x := rfl

theorem buildOne_ok (r : Reg) : ∀ (f : Nat) (T : Tables) (c : Nat), Good r T → reaches r f c = true → c ≠ 0 →
    Good r (buildOne r f T c) ∧ (∃ row, tget (buildOne r f T c) c = some row) ∧
    (∀ c' row', tget T c' = some row' → tget (buildOne r f T c) c' = some row') := by
  intro f
  induction f with
  | zero =>
    intro T c _ h hc
    cases c with
    | zero => exact absurd rfl hc
    | succ c => simp [reaches] at h
  | succ f ih =>
    intro T c hT h hc
    cases c with
    | zero => exact absurd rfl hc
    | succ c =>
    simp only [buildOne]
    cases ht : tget T (c + 1) with
    | some row => exact ⟨hT, ⟨row, ht⟩, fun _ _ h' => h'⟩
    | none =>
      simp only [reaches] at h
      cases hcd : clsAt r (c + 1) with
      | none => simp [hcd] at h
      | some cd =>
        simp only [hcd] at h ⊢
        by_cases hs : cd.super = 0
        · simp only [hs, ne_eq, not_true_eq_false, if_false]
          refine ⟨?_, ⟨_, by rw [tget_cons, if_pos rfl]⟩, ?_⟩
          · intro x row hx
            rw [tget_cons] at hx
            split at hx
            · rename_i e
              cases hx; subst e
              refine ⟨by omega, 1, ?_, ?_⟩
              · simp [reaches, hcd, hs]
              · simp [rowSpec, hcd, hs]
            · exact hT x row hx
          · intro c' row' h'
            rw [tget_cons]
            split
            · rename_i e; rw [e, ht] at h'; cases h'
            · exact h'
        · simp only [ne_eq, hs, not_false_eq_true, if_true]
          obtain ⟨g1, ⟨srow, hsrow⟩, g3⟩ := ih T cd.super hT h hs
          obtain ⟨_, g, hg, hrow⟩ := g1 cd.super srow hsrow
          refine ⟨?_, ⟨_, by rw [tget_cons, if_pos rfl]⟩, ?_⟩
          · intro x row hx
            rw [tget_cons] at hx
            split at hx
            · rename_i e
              cases hx; subst e
              refine ⟨by omega, g + 1, ?_, ?_⟩
              · simp [reaches, hcd, hg]
              · simp [rowSpec, hcd, hs, hsrow, hrow]
            · exact g1 x row hx
          · intro c' row' h'
            rw [tget_cons]
            split
            · rename_i e; rw [e, ht] at h'; cases h'
            · exact g3 c' row' h'

theorem buildAll_ok (r : Reg) (fuel : Nat) : ∀ (n c : Nat) (T : Tables), Good r T → c ≠ 0 →
    (∀ x, c ≤ x → x < c + n → reaches r fuel x = true) →
    Good r (buildAll r fuel n c T) ∧
    (∀ x, c ≤ x → x < c + n → ∃ row, tget (buildAll r fuel n c T) x = some row) ∧
    (∀ c' row', tget T c' = some row' → ∃ row'', tget (buildAll r fuel n c T) c' = some row'') := by
  intro n
  induction n with
  | zero =>
    intro c T hT _ _
    exact ⟨hT, fun x h1 h2 => by omega, fun c' row' h => ⟨row', h⟩⟩
  | succ n ih =>
    intro c T hT hc hr
    simp only [buildAll]
    obtain ⟨g1, ⟨row, g2⟩, g3⟩ := buildOne_ok r fuel T c hT (hr c (by omega) (by omega)) hc
    obtain ⟨k1, k2, k3⟩ := ih (c + 1) (buildOne r fuel T c) g1 (by omega) (fun x h1 h2 => hr x (by omega) (by omega))
    refine ⟨k1, ?_, ?_⟩
    · intro x h1 h2
      by_cases e : x = c
      · subst e; exact k3 x row g2
      · exact k2 x (by omega) (by omega)
    · intro c' row' h'
      exact k3 c' row' (g3 c' row' h')

theorem chainsOk_reaches {r : Reg} (h : chainsOk r = true) {c : Nat} (h1 : 1 ≤ c) (h2 : c ≤ r.clss.length) :
    reaches r r.clss.length c = true := by
  unfold chainsOk at h
  rw [List.all_eq_true] at h
  have := h (c - 1) (by simp; omega)
  rwa [show c - 1 + 1 = c by omega] at this

theorem clsAt_bound {r : Reg} {c : Nat} {cd : ClsObj} (h : clsAt r c = some cd) : 1 ≤ c ∧ c ≤ r.clss.length := by
  unfold clsAt at h
  split at h
  · cases h
  · have := (List.getElem?_eq_some_iff.1 h).1
    omega

/-- the tables `InitEvents` builds: every registered class has its registry-determined row -/
theorem buildTables_ok {r : Reg} (h : chainsOk r = true) {c : Nat} {cd : ClsObj} (hc : clsAt r c = some cd) :
    ∃ row f, tget (buildTables r []) c = some row ∧ reaches r f c = true ∧ row = rowSpec r f c := by
  have hb := clsAt_bound hc
  have hg : Good r [] := by intro c row h; simp [tget] at h
  obtain ⟨k1, k2, _⟩ := buildAll_ok r (r.clss.length + 1) r.clss.length 1 [] hg (by omega)
    (fun x h1 h2 => (reaches_succ (chainsOk_reaches h h1 (by omega))).1)
  obtain ⟨row, hrow⟩ := k2 c hb.1 (by omega)
  obtain ⟨_, f, hf, e⟩ := k1 c row hrow
  exact ⟨row, f, hrow, hf, e⟩

/-- a registry-determined row holds, in every slot, the nearest declaration -/
theorem rowSpec_nearest (r : Reg) (n : Nat) : ∀ (f c : Nat), reaches r f c = true →
    Nearest r n c (slotOf (rowSpec r f c) n) := by
  intro f
  induction f with
  | zero =>
    intro c h
    cases c with
    | zero => simpa [rowSpec] using Nearest.root
    | succ c => simp [reaches] at h
  | succ f ih =>
    intro c h
    cases c with
    | zero => simpa [rowSpec, clsAt] using Nearest.root
    | succ c =>
      simp only [reaches] at h
      cases hcd : clsAt r (c + 1) with
      | none => simp [hcd] at h
      | some cd =>
        simp only [hcd] at h
        simp only [rowSpec, hcd]
        rw [slotOf_patch r (c + 1) (by omega)]
        cases ho : ownDecl r (c + 1) n cd.decls 0 with
        | some x => exact Nearest.own hcd ho
        | none =>
          simp only
          apply Nearest.inherit hcd ho
          by_cases hs : cd.super = 0
          · simpa [hs] using Nearest.root
          · simp only [ne_eq, hs, not_false_eq_true, if_true]
            exact ih cd.super h

/-- `Nearest` is a function of the class -/
theorem Nearest.unique {r : Reg} {n c : Nat} {a b : Option (Nat × Nat)} (ha : Nearest r n c a) (hb : Nearest r n c b) :
    a = b := by
  induction ha generalizing b with
  | root =>
    cases hb with
    | root => rfl
    | own h _ => simp [clsAt] at h
    | inherit h _ _ => simp [clsAt] at h
  | own h1 h2 =>
    cases hb with
    | root => simp [clsAt] at h1
    | own h1' h2' => rw [h1] at h1'; cases h1'; rw [h2] at h2'; cases h2'; rfl
    | inherit h1' h2' _ => rw [h1] at h1'; cases h1'; rw [h2] at h2'; cases h2'
  | inherit h1 h2 _ ih =>
    cases hb with
    | root => simp [clsAt] at h1
    | own h1' h2' => rw [h1] at h1'; cases h1'; rw [h2] at h2'; cases h2'
    | inherit h1' h2' h3' => rw [h1] at h1'; cases h1'; exact ih h3'



/-! ### the state invariant, by induction over all operation sequences -/

structure Inv (s : State) : Prop where
  ev : EvInv s.reg
  decl : ∀ cd ∈ s.reg.clss, ∀ d ∈ cd.decls, 1 ≤ d.ev ∧ d.ev ≤ s.reg.evs.length
  notBuilt : s.numClassesBuilt = 0 → s.tables = []
  built : s.built = true → chainsOk s.reg = true ∧ s.es = buildES s.reg ∧ s.tables = buildTables s.reg []

theorem inv_init : Inv init :=
  ⟨evInv_init, by simp [init], fun _ => rfl, by simp [init]⟩

theorem newEvent_clss (r : Reg) (name : Name) (kind : Kind) (ns : Nat) : (newEvent r name kind ns).clss = r.clss := by
  unfold newEvent; split <;> rfl

theorem newEvent_length (r : Reg) (name : Name) (kind : Kind) (ns : Nat) :
    (newEvent r name kind ns).evs.length = r.evs.length + 1 := by
  unfold newEvent; split <;> simp

theorem buildTables_nil (r : Reg) (h : r.clss.length = 0) : buildTables r [] = [] := by
  simp [buildTables, h, buildAll]

theorem step_inv {s s' : State} {op : Op} (h : Inv s) (hs : step s op = some s') : Inv s' := by
  cases op with
  | newEvent name kind ns =>
    simp only [step, Option.some.injEq] at hs
    subst hs
    refine ⟨evInv_newEvent h.ev name kind ns, ?_, h.notBuilt, by simp⟩
    intro cd hcd d hd
    simp only [newEvent_clss] at hcd
    have := h.decl cd hcd d hd
    simp only [newEvent_length]
    omega
  | newClass super ns decls =>
    simp only [step] at hs
    split at hs
    · rename_i hc
      cases hs
      refine ⟨evInv_newClass h.ev super ns decls, ?_, h.notBuilt, by simp⟩
      intro cd hcd d hd
      simp only [newClass, List.mem_append, List.mem_singleton] at hcd
      rcases hcd with hcd | rfl
      · exact h.decl cd hcd d hd
      · have := List.all_eq_true.1 hc.2 d hd
        simp only [newClass]
        simp only [ne_eq, Bool.decide_and, Bool.and_eq_true, decide_eq_true_eq] at this
        omega
    · cases hs
  | initEvents =>
    simp only [step] at hs
    split at hs
    · rename_i hc
      cases hs
      have ht : (if s.numClassesBuilt ≠ 0 then [] else s.tables) = ([] : Tables) := by
        split
        · rfl
        · rename_i h0; exact h.notBuilt (by simpa using h0)
      refine ⟨h.ev, h.decl, ?_, ?_⟩
      · intro h0
        simp only [initEvents] at h0 ⊢
        rw [ht]; exact buildTables_nil _ h0
      · intro _
        show chainsOk s.reg = true ∧ buildES s.reg = buildES s.reg ∧
          buildTables s.reg (if s.numClassesBuilt ≠ 0 then [] else s.tables) = buildTables s.reg []
        rw [ht]
        exact ⟨hc, rfl, rfl⟩
    · cases hs
  | setFilter mode l =>
    simp only [step] at hs
    split at hs
    · cases hs
      exact ⟨h.ev, h.decl, h.notBuilt, h.built⟩
    · cases hs

theorem run_inv {ops : List Op} : ∀ {s s' : State}, Inv s → run s ops = some s' → Inv s' := by
  induction ops with
  | nil => intro s s' h hr; simp only [run, Option.some.injEq] at hr; exact hr ▸ h
  | cons op ops ih =>
    intro s s' h hr
    simp only [run] at hr
    cases hs : step s op with
    | none => simp [hs] at hr
    | some s1 =>
      simp only [hs, Option.bind_some] at hr
      exact ih (step_inv h hs) hr

theorem reachable_inv {s : State} (h : Reachable s) : Inv s := by
  obtain ⟨ops, hr⟩ := h
  exact run_inv inv_init hr

/-! ### what a built state holds -/

theorem nodup_reverse' {α : Type} {l : List α} (h : l.Nodup) : l.reverse.Nodup :=
  List.pairwise_reverse.2 (h.imp Ne.symm)

theorem linkedList_nums_nodup {r : Reg} (h : EvInv r) : ((linkedList r).map (·.2.num)).Nodup := by
  have : (linkedList r).map (·.2.num) = ((linkedList r).map (·.2)).map (·.num) := by simp
  rw [this, linkedList_map_snd, List.map_reverse, h.nums]
  exact nodup_reverse' List.nodup_range'

theorem linkedList_keys_nodup {r : Reg} (h : EvInv r) : ((linkedList r).map (fun p => key p.2)).Nodup := by
  have : (linkedList r).map (fun p => key p.2) = ((linkedList r).map (·.2)).map key := by simp
  rw [this, linkedList_map_snd, List.map_reverse]
  exact nodup_reverse' h.keys

theorem buildES_loadInv {r : Reg} (h : EvInv r) : LoadInv (buildES r) (linkedList r) := by
  have := loadInv_foldl (linkedList r) _ [] (loadInv_empty (countUnique (linkedList r)).1)
    (by simpa using linkedList_nums_nodup h) (by simpa using linkedList_keys_nodup h)
  simpa [buildES, loadEvents] using this

theorem buildES_numEvents {r : Reg} (h : EvInv r) : (buildES r).numEvents = r.defCount := by
  simp only [buildES, loadEvents_numEvents]
  rw [countUnique_fst (linkedList_nums_nodup h), h.length]

structure Built (s : State) : Prop where
  inv : Inv s
  chains : chainsOk s.reg = true
  es : s.es = buildES s.reg
  tables : s.tables = buildTables s.reg []

theorem built_of {s : State} (h : Reachable s) (hb : s.built = true) : Built s := by
  have hi := reachable_inv h
  obtain ⟨a, b, c⟩ := hi.built hb
  exact ⟨hi, a, b, c⟩

theorem getResponse_eq (s : State) (c n : Nat) :
    getResponse s c n = match tget s.tables c with
      | none => none
      | some row => slotOf row n := rfl

/-- every slot of every registered class's table is the nearest declaration -/
theorem Built.nearest {s : State} (h : Built s) {c : Nat} {cd : ClsObj} (hc : clsAt s.reg c = some cd) (n : Nat) :
    Nearest s.reg n c (getResponse s c n) := by
  obtain ⟨row, f, h1, h2, h3⟩ := buildTables_ok h.chains hc
  rw [getResponse_eq, h.tables, h1, h3]
  exact rowSpec_nearest s.reg n f c h2

theorem Built.numEvents {s : State} (h : Built s) : s.es.numEvents = s.reg.defCount := by
  rw [h.es, buildES_numEvents h.inv.ev]

/-- the name-based look-up of a declared command, in any spelling -/
theorem Built.findNum_declared {s : State} (h : Built s) {e : EvObj} (he : e ∈ s.reg.evs) (hk : e.kind ≠ .none)
    {name : Name} (hn : fold name = fold e.name) : findNum s name e.kind = e.num := by
  obtain ⟨d, hd, n1, nm1, k1⟩ := h.inv.ev.rep_linked he
  obtain ⟨i, hi⟩ := linkedEvs_has_id hd
  have L := buildES_loadInv h.inv.ev
  have := L.info (i, d) hi (by simpa [k1] using hk)
  simp only [findNum, infoNum, constName, h.es]
  rw [findKeyIndex_congr (show fold name = fold d.name by rw [nm1, hn])]
  simp only at this
  rw [← k1, this, n1]

/-- the name-based look-up of a (name, kind) no event carries -/
theorem Built.findNum_undeclared {s : State} (h : Built s) {name : Name} {k : Kind}
    (hno : ∀ e ∈ s.reg.evs, key e ≠ (fold name, k)) : findNum s name k = 0 := by
  have L := buildES_loadInv h.inv.ev
  apply Classical.byContradiction
  intro hne
  simp only [findNum, infoNum, constName, h.es] at hne
  obtain ⟨p, hp, h1, h2, _⟩ := L.back k _ hne
  have hpe : p.2 ∈ s.reg.evs := evAt_mem (mem_linkedList.1 hp).1
  have hp0 : findKeyIndex (buildES s.reg).names p.2.name ≠ 0 := (L.known p.2.name).2 ⟨p, hp, rfl⟩
  have := findKeyIndex_inj hp0 h2
  exact hno p.2 hpe (by simp [key, this, h1])

/-- a declared name has a non-zero index in the name table -/
theorem Built.constName_ne_zero {s : State} (h : Built s) {e : EvObj} (he : e ∈ s.reg.evs)
    {name : Name} (hn : fold name = fold e.name) : constName s name ≠ 0 ∧ constName s name ≤ s.es.names.length := by
  obtain ⟨d, hd, _, nm1, _⟩ := h.inv.ev.rep_linked he
  obtain ⟨i, hi⟩ := linkedEvs_has_id hd
  have L := buildES_loadInv h.inv.ev
  refine ⟨?_, findKeyIndex_le _ _⟩
  simp only [constName, h.es]
  exact (L.known name).2 ⟨(i, d), hi, by simp [nm1, hn]⟩

/-- `GetEventDef` of a declared command's number is its first registrant -/
theorem Built.getEventDef {s : State} (h : Built s) {e : EvObj} (he : e ∈ s.reg.evs) :
    ∃ d, getEventDef s e.num = some d ∧ d ∈ linkedEvs s.reg ∧ d.num = e.num ∧ d.name = e.name ∧ d.kind = e.kind := by
  obtain ⟨d, hd, n1, nm1, k1⟩ := h.inv.ev.rep_linked he
  obtain ⟨i, hi⟩ := linkedEvs_has_id hd
  have L := buildES_loadInv h.inv.ev
  have hdef := L.defs (i, d) hi
  have hr := h.inv.ev.range he
  refine ⟨d, ?_, hd, n1, nm1, k1⟩
  simp only [Morfuse.Dispatch.getEventDef, h.numEvents, hr.2, if_true]
  rw [h.es, ← n1]
  simp only at hdef
  rw [hdef]
  exact (mem_linkedList.1 hi).1

/-- the first registrant of a number is unique -/
theorem EvInv.linked_unique {r : Reg} (h : EvInv r) {d1 d2 : EvObj} (h1 : d1 ∈ linkedEvs r) (h2 : d2 ∈ linkedEvs r)
    (e : d1.num = d2.num) : d1 = d2 :=
  nodup_map_inj (f := (·.num)) (by rw [h.nums]; exact List.nodup_range') h1 h2 e


/-! ### class extensions -/

theorem patchExt_get_other (r : Reg) (x : Nat) (ds : List Decl) (i : Nat) (row : Row) (n : Nat)
    (hn : ∀ d ∈ ds, d.has = true → evNum r d.ev ≠ n) :
    (patchExt r x ds i row).c.get n = row.c.get n ∧ (patchExt r x ds i row).i.get n = row.i.get n := by
  induction ds generalizing i row with
  | nil => exact ⟨rfl, rfl⟩
  | cons d t ih =>
    have ht : ∀ d' ∈ t, d'.has = true → evNum r d'.ev ≠ n := fun d' hd' => hn d' (by simp [hd'])
    simp only [patchExt]
    by_cases hh : d.has = true
    · have hne : n ≠ evNum r d.ev := fun e => hn d (by simp) hh e.symm
      have := ih (i + 1) (row.set (evNum r d.ev) x i) ht
      simp only [hh, if_true]
      rw [this.1, this.2]
      simp [Row.set, Arr.get_set, hne]
    · simp only [hh]
      exact ih (i + 1) row ht

end Morfuse.Dispatch
