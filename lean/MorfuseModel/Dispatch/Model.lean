import MorfuseModel.Gen.DispatchGen
/-!
# Model of the class / event registry and of command dispatch  (property C16)

Transcribed statement by statement from
`src/Script/Event.cpp` (`EventDef::EventDef`, `GetNewAttributes`),
`src/Script/ClassDef.cpp` (`ClassDef::ClassDef`, `BuildResponseList`, `GetResponse`, `GetDef`),
`src/Script/ClassSystem.cpp` (`BuildEventResponses`, `ClearEventResponses`),
`src/Script/EventSystem.cpp` (`InitEvents`, `GetRequiredLength`, `LoadEvents`, `GetEventDef`,
`GetEventConstName`, `FindEventInfoChecked`, `FindEventInfo`, `Find*EventNum`),
`src/Script/NamespaceManager.cpp` (`IsNamespaceAllowed`) and
`src/Script/Listener.cpp` (`ProcessScriptEvent`, `ProcessEventReturn`, `ProcessEvent`).

Conventions.  Ids are `Nat`, `0` is `nullptr`.  Event *objects* (every constructed `EventDef`,
including the duplicates that never enter `EventDef::head`) and classes are numbered in
construction order from 1.  A C array indexed by a number is an `Arr` (total store `Nat → Nat`,
default 0); a `ResponseDef*` is the pair (declaring class id, index in that class's `Responses[]`).
Names are lists of character codes so that everything reduces in the kernel.

Not modelled: the byte sizes handed to the `PreAllocator` arena (`GetRequiredLength`'s byte
arithmetic), the hash-bucket structure of `eventDefName` (it is a `con::arrayset`: modelled as the
list of its keys in index order, key equality = `EventNameCompare`), un-registration (`~EventDef`,
`~ClassDef`).  `ClassDefExt` (unused by the engine) is transcribed as the public API behaves
(`applyExt` / `initClassDef` at the end of this file) but is NOT an `Op`: the `Reachable` theorems speak
about extension-free histories, `C16_ext_*` about what an extension may touch.

An `EventDef` that is MOVED (`EventDef(EventDef&&)`, `operator=(EventDef&&)`: a command table kept in a
`std::vector` / `con::Container` that reallocates) is the same object of the model at a new address: the
move carries every field — name / kind / number (`attributes`), the namespace (`ObjectInNamespace` base)
and the place in `EventDef::head` (`head.Move(this, &other)`) — and leaves an unregistered shell
(`evType_e::None`, number 0, unlinked) that never enters a table.  So a move is the identity on `Reg`; the
harness creates part of its events that way (`event … v|c|a`) and the model answers as for `event …`.
-/
namespace Morfuse.Dispatch

/-! ## C arrays -/

/-- a zero-initialised C array / pointer-keyed field, as an association list (newest first) -/
structure Arr where
  l : List (Nat × Nat)

namespace Arr
def empty : Arr := ⟨[]⟩

def getL : List (Nat × Nat) → Nat → Nat
  | [], _ => 0
  | (k, v) :: t, a => if a = k then v else getL t a

def get (s : Arr) (a : Nat) : Nat := getL s.l a
def set (s : Arr) (a v : Nat) : Arr := ⟨(a, v) :: s.l⟩

@[simp] theorem get_empty (a : Nat) : empty.get a = 0 := rfl

theorem get_set (s : Arr) (a v x : Nat) : (s.set a v).get x = if x = a then v else s.get x := rfl

@[simp] theorem get_set_same (s : Arr) (a v : Nat) : (s.set a v).get a = v := by simp [get_set]

theorem get_set_ne (s : Arr) (a v x : Nat) (h : x ≠ a) : (s.set a v).get x = s.get x := by
  simp [get_set, h]
end Arr

/-! ## names -/

/-- a command name: the character codes of its spelling -/
abbrev Name := List Nat

/-- `str::icmp` upper-cases `'a'..'z'` before comparing -/
def foldC (c : Nat) : Nat := if 97 ≤ c ∧ c ≤ 122 then c - 32 else c

def fold (n : Name) : Name := n.map foldC

/-- `!str::icmp(a, b)` -/
def icmpEq (a b : Name) : Bool := fold a == fold b

/-! ## registry -/

/-- `evType_e` -/
inductive Kind
  | none | normal | ret | getter | setter
  deriving DecidableEq, Repr

/-- one `EventDef` object -/
structure EvObj where
  name : Name          -- `attributes.name` (a duplicate points at the first registrant's spelling)
  kind : Kind          -- `attributes.type`
  num : Nat            -- `attributes.eventNum`
  ns : Nat             -- `ObjectInNamespace::namespaceDef` of THIS object (0 = global)
  linked : Bool        -- entered `EventDef::head`
  deriving DecidableEq, Repr

/-- one entry of a class's `Responses[]` -/
structure Decl where
  ev : Nat             -- event object id (`r->event`)
  has : Bool           -- `r->response != nullptr`
  deriving DecidableEq, Repr

/-- one `ClassDef` -/
structure ClsObj where
  super : Nat          -- class id, 0 = no parent
  ns : Nat
  decls : List Decl
  deriving DecidableEq, Repr

/-- a response-lookup table (`ClassDef::responseLookup`, indexed by event number from 1):
    declaring class id (0 = `nullptr`) and index inside that class's `Responses[]` -/
structure Row where
  c : Arr
  i : Arr

def Row.zero : Row := ⟨.empty, .empty⟩
def Row.set (r : Row) (n c i : Nat) : Row := ⟨r.c.set n c, r.i.set n i⟩

/-- `responseLookup` of every class: absent = `nullptr` -/
abbrev Tables := List (Nat × Row)

def tget : Tables → Nat → Option Row
  | [], _ => none
  | (k, r) :: t, c => if c = k then some r else tget t c

/-- the `EventSystem` singleton's tables -/
structure ES where
  numEvents : Nat        -- `EventSystem::numEvents`
  defList : Arr          -- `eventDefList[num - 1]` ↦ event object id
  names : List Name      -- `eventDefName`: key with index `i` is at position `i - 1`
  cN : Arr               -- `commandList[idx].normalNum`
  cR : Arr               -- `commandList[idx].returnNum`
  cG : Arr               -- `commandList[idx].getterNum`
  cS : Arr               -- `commandList[idx].setterNum`

def ES.empty : ES := ⟨0, .empty, [], .empty, .empty, .empty, .empty⟩

/-- what the static / run-time registrations have produced: the `EventDef` objects and the class list -/
structure Reg where
  evs : List EvObj           -- every constructed `EventDef`, id = position + 1
  defCount : Nat             -- `EventDef::defCount`
  clss : List ClsObj         -- `ClassDef::classlist` (`Add` appends), id = position + 1

structure State where
  reg : Reg
  started : Bool             -- `bEventSystemStarted`
  es : ES
  tables : Tables
  numClassesBuilt : Nat      -- `ClassSystem::numClassesBuilt`
  fmode : Nat                -- `namespaceFilterMode_e`: 0 None, 1 Inclusive, 2 Exclusive
  flist : List Nat           -- `NamespaceManager::defList`
  built : Bool               -- ghost: the tables were built and nothing was registered since

def init : State :=
  { reg := ⟨[], 0, []⟩, started := false, es := .empty, tables := [],
    numClassesBuilt := 0, fmode := 0, flist := [], built := false }

/-- the event object with id `i` -/
def evAt (r : Reg) (i : Nat) : Option EvObj := if i = 0 then none else r.evs[i - 1]?
/-- the class with id `c` -/
def clsAt (r : Reg) (c : Nat) : Option ClsObj := if c = 0 then none else r.clss[c - 1]?

/-- pairs (id, object) in construction order -/
def enumFrom1 {α : Type} : Nat → List α → List (Nat × α)
  | _, [] => []
  | i, a :: t => (i, a) :: enumFrom1 (i + 1) t

/-- `EventDef::head` → `next` → …: `AddFirst` puts the most recent registrant at the head -/
def linkedList (r : Reg) : List (Nat × EvObj) :=
  ((enumFrom1 1 r.evs).filter (fun p => p.2.linked)).reverse

/-- `EventDef::GetNewAttributes` + the constructor around it -/
def newEvent (r : Reg) (name : Name) (kind : Kind) (ns : Nat) : Reg :=
  match (linkedList r).find? (fun p => icmpEq p.2.name name && p.2.kind == kind) with
  | some p =>
    -- `next = prev = nullptr; return eAttr;`  (the object is not linked, it shares the attributes)
    { r with evs := r.evs ++ [{ name := p.2.name, kind := p.2.kind, num := p.2.num, ns := ns, linked := false }] }
  | none =>
    -- `head.AddFirst(this); return EventDefAttributes(command, type, ++defCount);`
    { r with evs := r.evs ++ [{ name := name, kind := kind, num := r.defCount + 1, ns := ns, linked := true }],
             defCount := r.defCount + 1 }

/-- `ClassDef::ClassDef`: `responseLookup = nullptr; classlist.Add(this)` -/
def newClass (r : Reg) (super ns : Nat) (decls : List Decl) : Reg :=
  { r with clss := r.clss ++ [{ super := super, ns := ns, decls := decls }] }

/-! ## `EventSystem::InitEvents` -/

/-- the two counters of `EventSystem::GetRequiredLength` that matter afterwards:
    (`numUniqueEvents`, `numUniqueNameEvents`).  For each `e1` the inner loop stops at the first
    later event with the same name. -/
def countUnique : List (Nat × EvObj) → Nat × Nat
  | [] => (0, 0)
  | e1 :: rest =>
    let r := countUnique rest
    match rest.find? (fun e2 => icmpEq e1.2.name e2.2.name) with
    | none => (r.1 + 1, r.2 + 1)
    | some e2 => (if e1.2.num = e2.2.num then r.1 else r.1 + 1, r.2)

/-- position + `i` of the first key equal to `n` under `EventNameCompare`, 0 when absent -/
def findKeyIndexFrom : Nat → List Name → Name → Nat
  | _, [], _ => 0
  | i, k :: t, n => if icmpEq k n then i else findKeyIndexFrom (i + 1) t n

/-- `arrayset::findKeyIndex` -/
def findKeyIndex (names : List Name) (n : Name) : Nat := findKeyIndexFrom 1 names n

/-- `arrayset::addKeyIndex`: existing index, or `++count` for a new key -/
def addKeyIndex (names : List Name) (n : Name) : List Name × Nat :=
  if findKeyIndex names n ≠ 0 then (names, findKeyIndex names n)
  else (names ++ [n], names.length + 1)

/-- `commandList[idx].<kind>Num = num` -/
def ES.setInfo (es : ES) (k : Kind) (idx num : Nat) : ES :=
  match k with
  | .normal => { es with cN := es.cN.set idx num }
  | .ret => { es with cR := es.cR.set idx num }
  | .getter => { es with cG := es.cG.set idx num }
  | .setter => { es with cS := es.cS.set idx num }
  | .none => es

/-- `commandList[idx].<kind>Num` (`evType_e::None` has no field) -/
def ES.info (es : ES) (k : Kind) (idx : Nat) : Nat :=
  match k with
  | .normal => es.cN.get idx
  | .ret => es.cR.get idx
  | .getter => es.cG.get idx
  | .setter => es.cS.get idx
  | .none => 0

/-- one iteration of the loop in `EventSystem::LoadEvents` -/
def loadOne (es : ES) (p : Nat × EvObj) : ES :=
  let r := addKeyIndex es.names p.2.name
  -- `eventDefList[eventNum - 1] = e;` then the `switch` on the type
  ({ es with defList := es.defList.set p.2.num p.1, names := r.1 } : ES).setInfo p.2.kind r.2 p.2.num

/-- `EventSystem::LoadEvents` -/
def loadEvents (es : ES) (l : List (Nat × EvObj)) : ES := l.foldl loadOne es

/-- `r->event->GetEventNum()` -/
def evNum (r : Reg) (ev : Nat) : Nat :=
  match evAt r ev with
  | some e => e.num
  | none => 0

/-- the loop over `responses` at the end of `ClassDef::BuildResponseList`; `i` is the index of the
    entry the C++ pointer `r` points at -/
def patch (r : Reg) (c : Nat) : List Decl → Nat → Row → Row
  | [], _, row => row
  | d :: ds, i, row =>
    -- `responseLookup[ev] = r->response ? r : nullptr`
    patch r c ds (i + 1) (if d.has then row.set (evNum r d.ev) c i else row.set (evNum r d.ev) 0 0)

/-- `ClassDef::BuildResponseList`.  The C++ recursion into `super` is unbounded; the model gives it
    fuel (the number of classes + 1 is enough when the parent chain is acyclic, which `step`
    checks before it lets `InitEvents` run). -/
def buildOne (r : Reg) : Nat → Tables → Nat → Tables
  | 0, T, _ => T
  | fuel + 1, T, c =>
    match tget T c with
    | some _ => T                       -- `if (responseLookup) return;`
    | none =>
      match clsAt r c with
      | none => T
      | some cd =>
        if cd.super ≠ 0 then
          -- `super->BuildResponseList(allocator); std::copy(super->responseLookup …)`
          let T1 := buildOne r fuel T cd.super
          let base := match tget T1 cd.super with
            | some row => row
            | none => Row.zero
          (c, patch r c cd.decls 0 base) :: T1
        else
          -- `std::fill(responseLookup, responseLookup + num, nullptr)`
          (c, patch r c cd.decls 0 Row.zero) :: T

/-- the loop of `ClassSystem::BuildEventResponses` over class ids `c, c+1, …` -/
def buildAll (r : Reg) (fuel : Nat) : Nat → Nat → Tables → Tables
  | 0, _, T => T
  | n + 1, c, T => buildAll r fuel n (c + 1) (buildOne r fuel T c)

/-- `LoadEvents` into the freshly pre-allocated arrays (`numEvents = numUniqueEvents`) -/
def buildES (r : Reg) : ES :=
  loadEvents { ES.empty with numEvents := (countUnique (linkedList r)).1 } (linkedList r)

/-- `BuildEventResponses` from cleared tables -/
def buildTables (r : Reg) (T0 : Tables) : Tables :=
  buildAll r (r.clss.length + 1) r.clss.length 1 T0

/-- `EventSystem::InitEvents` (+ `UnloadEvents` when rebuilding, which only frees) -/
def initEvents (s : State) : State :=
  { s with
    started := true
    es := buildES s.reg
    -- `BuildEventResponses`: `if (numClassesBuilt) ClearEventResponses(allocator);`
    tables := buildTables s.reg (if s.numClassesBuilt ≠ 0 then [] else s.tables)
    numClassesBuilt := s.reg.clss.length
    built := true }

/-- does the parent chain of class `c` end at "no parent" within `fuel` steps, through registered
    classes only?  (True for every C++ class hierarchy.) -/
def reaches (r : Reg) : Nat → Nat → Bool
  | _, 0 => true
  | 0, _ + 1 => false
  | fuel + 1, c + 1 =>
    match clsAt r (c + 1) with
    | none => false
    | some cd => reaches r fuel cd.super

def chainsOk (r : Reg) : Bool :=
  (List.range r.clss.length).all fun i => reaches r r.clss.length (i + 1)

/-! ## operations -/

inductive Op
  | newEvent (name : Name) (kind : Kind) (ns : Nat)
  | newClass (super ns : Nat) (decls : List Decl)
  | initEvents
  | setFilter (mode : Nat) (l : List Nat)
  deriving Repr

/-- One host operation; `none` when it is not a legal C++ program fragment (a response that points
    at no event object, a class that is its own parent, building over a cyclic hierarchy). -/
def step (s : State) : Op → Option State
  | .newEvent name kind ns => some { s with reg := newEvent s.reg name kind ns, built := false }
  | .newClass super ns decls =>
    if super ≠ s.reg.clss.length + 1 ∧ decls.all (fun d => d.ev ≠ 0 ∧ d.ev ≤ s.reg.evs.length) then
      some { s with reg := newClass s.reg super ns decls, built := false }
    else none
  | .initEvents => if chainsOk s.reg then some (initEvents s) else none
  | .setFilter mode l => if mode ≤ 2 then some { s with fmode := mode, flist := l } else none

def run : State → List Op → Option State
  | s, [] => some s
  | s, op :: ops => (step s op).bind (run · ops)

def Reachable (s : State) : Prop := ∃ ops, run init ops = some s

/-! ## look-ups and dispatch -/

/-- `ClassDef::GetResponse` (a null `responseLookup` is a crash in C++; `none` here) -/
def getResponse (s : State) (c n : Nat) : Option (Nat × Nat) :=
  match tget s.tables c with
  | none => none
  | some r => if r.c.get n = 0 then none else some (r.c.get n, r.i.get n)

/-- `EventSystem::GetEventConstName` -/
def constName (s : State) (name : Name) : Nat := findKeyIndex s.es.names name

/-- `FindEventInfoChecked(idx).<kind>Num` -/
def infoNum (s : State) (idx : Nat) (k : Kind) : Nat := s.es.info k idx

/-- `EventSystem::Find{Normal,Return,Getter,Setter}EventNum(const rawchar_t*)` -/
def findNum (s : State) (name : Name) (k : Kind) : Nat := infoNum s (constName s name) k

/-- `EventSystem::FindEventInfo(eventName_t s)`: `s > 0 && s < eventDefName.size()`; the comparison
    operator is read from the source on every run (`Gen.findEventInfoInclusive`: `<=` instead of `<`) -/
def findEventInfoOk (s : State) (idx : Nat) : Bool :=
  0 < idx ∧ (if Gen.findEventInfoInclusive then idx ≤ s.es.names.length else idx < s.es.names.length)

/-- `EventSystem::Find*EventNum(eventName_t)` -/
def findNumByIndex (s : State) (idx : Nat) (k : Kind) : Nat :=
  if findEventInfoOk s idx then infoNum s idx k else 0

/-- `EventSystem::GetEventDef`: `eventNum <= numEvents ? eventDefList[eventNum - 1] : nullptr` -/
def getEventDef (s : State) (num : Nat) : Option EvObj :=
  if num ≤ s.es.numEvents then evAt s.reg (s.es.defList.get num) else none

/-- `NamespaceManager::IsNamespaceAllowed` -/
def nsAllowed (s : State) (ns : Nat) : Bool :=
  if s.fmode = 1 then ns = 0 ∨ ns ∈ s.flist
  else if s.fmode = 2 then ns = 0 ∨ ns ∉ s.flist
  else true

inductive Outcome
  | ran (c i : Nat)      -- the handler of declaration `i` of class `c` ran
  | notFound             -- `ListenerErrors::EventNotFound`
  | failed               -- `ListenerErrors::EventListenerFailed`
  | silent               -- returned without running anything and without an error
  | retFalse             -- `ProcessEvent` returned false
  | crash                -- null dereference in the C++
  deriving DecidableEq, Repr

/-- `Listener::ProcessScriptEvent(Event&)` on an instance of class `c` -/
def processScriptEvent (s : State) (c num : Nat) : Outcome :=
  if num = 0 then .notFound else
  match getEventDef s num with
  | none => .crash
  | some d =>
    if ¬ nsAllowed s d.ns then .notFound else
    match getResponse s c num with
    | none => .failed
    | some r => .ran r.1 r.2

/-- `Listener::ProcessEventReturn(Event&)` -/
def processEventReturn (s : State) (c num : Nat) : Outcome :=
  if num = 0 then .silent else
  match getEventDef s num with
  | none => .crash
  | some d =>
    if ¬ nsAllowed s d.ns then .notFound else
    match getResponse s c num with
    | none => .silent
    | some r => .ran r.1 r.2

/-- `Listener::ProcessEvent(Event&)`: `ProcessScriptEvent` with every exception turned into `false` -/
def processEvent (s : State) (c num : Nat) : Outcome :=
  match processScriptEvent s c num with
  | .notFound => .retFalse
  | .failed => .retFalse
  | o => o

inductive Entry
  | script | ret | proc
  deriving DecidableEq, Repr

/-- a command invocation by name and kind on an instance of class `c`, the way a host or the
    compiler resolves it: `Find<Kind>EventNum(name)`, `Event(num)`, then the entry point -/
def invoke (s : State) (e : Entry) (c : Nat) (name : Name) (k : Kind) : Outcome :=
  match e with
  | .script => processScriptEvent s c (findNum s name k)
  | .ret => processEventReturn s c (findNum s name k)
  | .proc => processEvent s c (findNum s name k)

/-- The script command `commanddelay <seconds> <command>` on an instance of class `c`
    (`Listener::CommandDelay`, `Listener::PostEventInternal`, then the queue's `ProcessEvent`):
    the number of the posted event (0: nothing was posted) and what its delivery does. -/
def commandDelay (s : State) (c : Nat) (name : Name) : Nat × Option Outcome :=
  let idx := constName s name
  -- `const eventInfo_t* const eventInfo = eventSystem.FindEventInfo(eventName); if (eventInfo)`
  if ¬ findEventInfoOk s idx then (0, none) else
  let num :=
    if infoNum s idx .normal ≠ 0 then infoNum s idx .normal
    else if infoNum s idx .ret ≠ 0 then infoNum s idx .ret
    else if infoNum s idx .setter ≠ 0 then infoNum s idx .setter
    else infoNum s idx .getter
  -- `PostEventInternal`: `if (!ev->Num() || !classinfo().GetResponse(ev->Num())) { delete ev; return; }`
  if num = 0 then (0, none) else
  match getResponse s c num with
  | none => (0, none)
  | some _ => (num, some (processEvent s c num))

/-! ## `ClassDefExt` (class extensions), as the public API behaves

`ClassDefExt(ClassDef*, const ResponseDefClass*)` front-inserts the extension into the static list
`ClassDefExt::list`; `ClassSystem::BuildEventResponses` calls `ClassDefExt::InitClassDef()` after every
class's table has been built.  An extension response is identified in a `Row` by the pseudo class id
`x` the driver gives the extension (≥ 1000000, disjoint from class ids) and its index in the extension's
own response array. -/

/-- the inner loop of `InitClassDef`: `if (r->response) lookup[ev] = r;` (a null response is skipped,
    it does not erase) -/
def patchExt (r : Reg) (x : Nat) : List Decl → Nat → Row → Row
  | [], _, row => row
  | d :: ds, i, row => patchExt r x ds (i + 1) (if d.has then row.set (evNum r d.ev) x i else row)

/-- one extension applied: `lookup = ext->classDef->GetResponseLookupList(); if (lookup) …` writes into
    the table OF THAT CLASS (`responseLookup` is per class: `BuildResponseList` allocates one for every
    class, also for a class with an empty response list) -/
def applyExt (s : State) (c x : Nat) (decls : List Decl) : State :=
  match tget s.tables c with
  | none => s
  | some row => { s with tables := (c, patchExt s.reg x decls 0 row) :: s.tables }

/-- `ClassDefExt::InitClassDef` as written: `for (const ClassDefExt* ext = list; list; list = list->next)`.
    `ext` is never advanced and the STATIC `list` is: the extension at the head (the most recently
    constructed one) is applied once per list element, no other extension is applied, and the list is
    empty afterwards (a rebuild applies nothing).  `exts`: (pseudo id, class, responses), head first. -/
def initClassDef (s : State) (exts : List (Nat × Nat × List Decl)) : State × List (Nat × Nat × List Decl) :=
  match exts with
  | [] => (s, [])
  | (x, c, ds) :: _ => (exts.foldl (fun st _ => applyExt st c x ds) s, [])

end Morfuse.Dispatch
