import MorfuseModel.Dispatch.Model
/-!
# Abstract specification of command dispatch (property C16)

"The handler declared by the nearest class in the receiver's inheritance chain that declares one
for that command", stated without any table: a walk up the `super` links.
-/
namespace Morfuse.Dispatch

/-- What class `c` itself declares for event number `n`: the LAST entry of its `Responses[]` whose
    event carries that number.  `none`: no declaration; `some none`: declared with a null handler
    (the class switches the command off); `some (some (c, i))`: entry `i` handles it. -/
def ownDecl (s : Reg) (c : Nat) (n : Nat) : List Decl → Nat → Option (Option (Nat × Nat))
  | [], _ => none
  | d :: ds, i =>
    match ownDecl s c n ds (i + 1) with
    | some r => some r
    | none => if evNum s d.ev = n then some (if d.has then some (c, i) else none) else none

/-- The nearest declaration for event number `n` seen from class `c`, as a relation
    (no fuel, no table): the simple specification the tables are proved against. -/
inductive Nearest (s : Reg) (n : Nat) : Nat → Option (Nat × Nat) → Prop
  | root : Nearest s n 0 none
  | own {c cd r} : clsAt s c = some cd → ownDecl s c n cd.decls 0 = some r → Nearest s n c r
  | inherit {c cd r} : clsAt s c = some cd → ownDecl s c n cd.decls 0 = none →
      Nearest s n cd.super r → Nearest s n c r

/-- executable version of `Nearest` (used by the driver to re-check every dumped slot) -/
def nearest (s : Reg) : Nat → Nat → Nat → Option (Nat × Nat)
  | 0, _, _ => none
  | fuel + 1, c, n =>
    match clsAt s c with
    | none => none
    | some cd =>
      match ownDecl s c n cd.decls 0 with
      | some r => r
      | none => nearest s fuel cd.super n

/-- the spelling-independent identity of a command: (case-folded name, kind) -/
def key (e : EvObj) : Name × Kind := (fold e.name, e.kind)

end Morfuse.Dispatch
