import MorfuseModel.Emit.Wp
/-!
# Arena accounting: what the counting pass counts and what the program pass takes from the arena are both
determined by the shape of the parse tree
-/
namespace Morfuse.Emit
open Morfuse.Gen.EmitConsts

/-- what a sub-tree contributes: labels (all / those that land in the set current at its root), switch and
catch blocks, arena bytes taken while it is emitted by the program pass -/
structure Syn where
  lab : Nat := 0
  here : Nat := 0
  sw : Nat := 0
  ca : Nat := 0
  arena : Nat := 0

instance : Add Syn := ⟨fun a b => ⟨a.lab + b.lab, a.here + b.here, a.sw + b.sw, a.ca + b.ca, a.arena + b.arena⟩⟩
instance : OfNat Syn 0 := ⟨{}⟩

@[simp] theorem Syn.add_lab (a b : Syn) : (a + b).lab = a.lab + b.lab := rfl
@[simp] theorem Syn.add_here (a b : Syn) : (a + b).here = a.here + b.here := rfl
@[simp] theorem Syn.add_sw (a b : Syn) : (a + b).sw = a.sw + b.sw := rfl
@[simp] theorem Syn.add_ca (a b : Syn) : (a + b).ca = a.ca + b.ca := rfl
@[simp] theorem Syn.add_arena (a b : Syn) : (a + b).arena = a.arena + b.arena := rfl
@[simp] theorem Syn.zero_lab : (0 : Syn).lab = 0 := rfl
@[simp] theorem Syn.zero_here : (0 : Syn).here = 0 := rfl
@[simp] theorem Syn.zero_sw : (0 : Syn).sw = 0 := rfl
@[simp] theorem Syn.zero_ca : (0 : Syn).ca = 0 := rfl
@[simp] theorem Syn.zero_arena : (0 : Syn).arena = 0 := rfl

/-- `set::resize(n)`: the bytes of one table -/
def tbl (n : Nat) : Nat := if n ≤ 1 then 0 else szPtr * n

/-- one label: one entry -/
def Syn.label : Syn := ⟨1, 1, 0, 0, szEntry⟩

mutual
def Node.syn : Node → Syn
  | .next n => n.syn
  | .list xs => xs.syn
  | .label _ _ _ | .plabel _ _ _ | .case _ _ _ _ _ => Syn.label
  | .assign l r => r.syn + l.syn
  | .if_ c t => c.syn + t.syn
  | .ifelse c t e => c.syn + t.syn + e.syn
  | .while_ c b i => c.syn + b.syn + i.syn
  | .do_ b c => b.syn + c.syn
  | .and_ a b | .or_ a b => a.syn + b.syn
  | .mcmd _ l h ps | .mcmdx _ l h ps => (if h then ps.syn else 0) + l.syn
  | .cmd _ h ps | .cmdx _ h ps => if h then ps.syn else 0
  | .field _ _ _ _ l => l.syn
  | .vec a b c => a.syn + b.syn + c.syn
  | .f1 _ x => x.syn
  | .f2 _ a b => a.syn + b.syn
  | .not_ x => x.syn
  | .idx a i => a.syn + i.syn
  | .carr a xs => a.syn + xs.syn
  | .marr xs => xs.syn
  | .try_ b c =>
    ⟨b.syn.lab + c.syn.lab, b.syn.here, b.syn.sw + c.syn.sw, b.syn.ca + c.syn.ca + 1,
     b.syn.arena + tbl c.syn.lab + c.syn.arena⟩
  | .switch e b =>
    ⟨e.syn.lab + b.syn.lab, e.syn.here, e.syn.sw + b.syn.sw + 1, e.syn.ca + b.syn.ca,
     e.syn.arena + tbl b.syn.lab + b.syn.arena⟩
  | _ => 0
def Nodes.syn : Nodes → Syn
  | .nil => 0
  | .cons x xs => x.syn + xs.syn
end

/-- the outcome is not an allocation past the arena -/
def EA (e : Err) : Prop := e ≠ .ub .arenaOverflow
instance : QuietImp EA := ⟨fun _ h => h.1⟩

/-! ## the counting pass counts `syn` -/

/-- effect of emitting a tree with contribution `y` on the counters of the counting manager -/
def CPost (y : Syn) (f f' : FrA) : Prop :=
  f'.counting = true ∧ f'.numLabels + f'.numCaseLabels = f.numLabels + f.numCaseLabels + y.lab ∧
  f'.numSwitches = f.numSwitches + y.sw ∧ f'.numCatches = f.numCatches + y.ca

theorem frA_enter_counting (s : St) (r : Option SetRef) : (s.enter r).counting = s.counting := by
  unfold St.enter; split <;> rfl
theorem frA_leave_counting (s : St) (o : SetRef) (os : LabelSet) (h : s.counting = true) : frA (s.leave o os) = frA s := by
  unfold St.leave; simp [h]

theorem addLabel_count (s : St) (i : Nat) (p c : Bool) (h : s.counting = true) :
    wp (s.addLabel i p c) (fun r => r.1 = true ∧ CPost Syn.label (frA s) (frA r.2)) EA := by
  unfold St.addLabel
  simp only [h, ↓reduceIte, wp_ok, true_and]
  cases c <;> simp [CPost, frA, Syn.label, h] <;> omega

theorem createSwitch_count (s : St) (n : Nat) (h : s.counting = true) :
    wp (s.createSwitch n) (fun r => r.1 = none ∧ CPost ⟨0, 0, 1, 0, 0⟩ (frA s) (frA r.2)) EA := by
  unfold St.createSwitch
  simp [h, CPost, frA]

theorem createCatch_count (s : St) (t n : Nat) (h : s.counting = true) :
    wp (s.createCatch t n) (fun r => r.1 = none ∧ CPost ⟨0, 0, 0, 1, 0⟩ (frA s) (frA r.2)) EA := by
  unfold St.createCatch
  simp [h, CPost, frA]

/-! ### primitives that touch the fix-up counters keep the arena frame -/

theorem addBreak_frA (s : St) (p : Nat) : wp (s.addBreak p) (fun s' => frA s' = frA s) EA := by
  unfold St.addBreak; split
  · rfl
  · simp [EA]
theorem addContinue_frA (s : St) (p : Nat) : wp (s.addContinue p) (fun s' => frA s' = frA s) EA := by
  unfold St.addContinue; split
  · rfl
  · simp [EA]

theorem processBreakLoop_frA : ∀ (n : Nat) (s : St), wp (St.processBreakLoop n s) (fun s' => frA s' = frA s) EA
  | 0, s => rfl
  | n + 1, s => by
    unfold St.processBreakLoop
    wp_simp
    split
    · simp [EA]
    · wp_simp
      refine wp_mono (setAt_neutral _ _ _) ?_ (fun _ h => QuietImp.imp _ h)
      intro a ha
      refine wp_mono (processBreakLoop_frA n a) ?_ (fun _ h => h)
      intro b hb
      exact hb.trans ha.2

theorem processContinueLoop_frA : ∀ (n : Nat) (s : St), wp (St.processContinueLoop n s) (fun s' => frA s' = frA s) EA
  | 0, s => rfl
  | n + 1, s => by
    unfold St.processContinueLoop
    wp_simp
    split
    · simp [EA]
    · wp_simp
      refine wp_mono (setAt_neutral _ _ _) ?_ (fun _ h => QuietImp.imp _ h)
      intro a ha
      refine wp_mono (processContinueLoop_frA n a) ?_ (fun _ h => h)
      intro b hb
      exact hb.trans ha.2

theorem processBreak_frA (s : St) (k : Nat) : wp (s.processBreak k) (fun s' => frA s' = frA s) EA := by
  unfold St.processBreak
  split
  · wp_simp
    refine wp_mono (processBreakLoop_frA _ s) ?_ (fun _ h => h)
    intro a ha
    refine wp_mono (clearPrev_neutral a) ?_ (fun _ h => QuietImp.imp _ h)
    intro b hb
    exact hb.2.trans ha
  · rfl

theorem processContinue_frA (s : St) (k : Nat) : wp (s.processContinue k) (fun s' => frA s' = frA s) EA := by
  unfold St.processContinue
  split
  · wp_simp
    refine wp_mono (processContinueLoop_frA _ s) ?_ (fun _ h => h)
    intro a ha
    refine wp_mono (clearPrev_neutral a) ?_ (fun _ h => QuietImp.imp _ h)
    intro b hb
    exact hb.2.trans ha
  · rfl

theorem emitBreak_frA (s : St) : wp s.emitBreak (fun s' => frA s' = frA s) EA := by
  unfold St.emitBreak
  split
  · wp_simp
    wp_prim; intro a ha
    wp_simp
    wp_prim; intro b hb
    refine wp_mono (addBreak_frA _ _) ?_ (fun _ h => h)
    intro c hc
    rw [hc, hb.2, frA_moveFwd, ha.2]
  · simp [EA]

theorem emitContinue_frA (s : St) : wp s.emitContinue (fun s' => frA s' = frA s) EA := by
  unfold St.emitContinue
  split
  · wp_simp
    wp_prim; intro a ha
    wp_simp
    wp_prim; intro b hb
    refine wp_mono (addContinue_frA _ _) ?_ (fun _ h => h)
    intro c hc
    rw [hc, hb.2, frA_moveFwd, ha.2]
  · simp [EA]

/-! ### the emitter, counting manager -/

structure MC (n : Node) : Prop where
  e : ∀ s, s.counting = true → wp (emit n s) (fun s' => CPost n.syn (frA s) (frA s')) EA
  r : ∀ s, s.counting = true → wp (emitRef n s) (fun s' => CPost n.syn (frA s) (frA s')) EA
  a : ∀ s, s.counting = true → wp (emitAssign n s) (fun s' => CPost n.syn (frA s) (frA s')) EA

structure MCL (xs : Nodes) : Prop where
  l : ∀ s, s.counting = true → wp (emitList xs s) (fun s' => CPost xs.syn (frA s) (frA s')) EA

theorem enter_none (s : St) : s.enter none = s := rfl
theorem leave_counting (s : St) (o : SetRef) (os : LabelSet) : (frA (s.leave o os)).counting = (frA s).counting := by
  unfold St.leave St.storeCur; split
  · rfl
  · split <;> rfl
theorem leave_numLabels (s : St) (o : SetRef) (os : LabelSet) : (frA (s.leave o os)).numLabels = (frA s).numLabels := by
  unfold St.leave St.storeCur; split
  · rfl
  · split <;> rfl
theorem leave_numCaseLabels (s : St) (o : SetRef) (os : LabelSet) : (frA (s.leave o os)).numCaseLabels = (frA s).numCaseLabels := by
  unfold St.leave St.storeCur; split
  · rfl
  · split <;> rfl
theorem leave_numSwitches (s : St) (o : SetRef) (os : LabelSet) : (frA (s.leave o os)).numSwitches = (frA s).numSwitches := by
  unfold St.leave St.storeCur; split
  · rfl
  · split <;> rfl
theorem leave_numCatches (s : St) (o : SetRef) (os : LabelSet) : (frA (s.leave o os)).numCatches = (frA s).numCatches := by
  unfold St.leave St.storeCur; split
  · rfl
  · split <;> rfl
theorem addString_counting (s : St) (i : Nat) : (s.addString i).2.counting = s.counting := by
  unfold St.addString; split <;> rfl

/-- close a goal about the counters from the chain of facts in the context -/
macro "cnt_close" : tactic =>
  `(tactic| ((try simp only [same_iff, CPost, frA_trackStack, frA_accumulate, frA_moveFwd, frA_addString, Node.syn, Nodes.syn,
      Syn.add_lab, Syn.add_sw, Syn.add_ca, Syn.zero_lab, Syn.zero_sw, Syn.zero_ca, Syn.label, addString_counting,
      apply_ite Syn.lab, apply_ite Syn.sw, apply_ite Syn.ca, leave_counting, leave_numLabels, leave_numCaseLabels,
      leave_numSwitches, leave_numCatches] at *); grind [frA, leave_counting, leave_numLabels, leave_numCaseLabels, leave_numSwitches, leave_numCatches]))

set_option hygiene false in
/-- after a step: name the new state, record that it still belongs to the counting manager, and decide the
`if manager.IsCounting()` tests on it -/
macro "cnt_intro" : tactic =>
  `(tactic| (intro a ha; have hc : a.counting = true := (by cnt_close); try simp only [if_pos hc, frA_enter_counting]))

set_option hygiene false in
macro "cnt_intro2" : tactic =>
  `(tactic| (intro a ha; have hc : a.2.counting = true := (by cnt_close); have hn := ha.1;
             try simp only [hn, enter_none, frA_enter_counting, if_pos hc, Bool.not_true, Bool.false_eq_true, ↓reduceIte]))

set_option hygiene false in
macro "cnt_walk" : tactic =>
  `(tactic| repeat' (first
    | (wp_simp; wp_prim; cnt_intro)
    | (wp_simp; wp_prim; intro _ _)
    | (wp_simp; with_reducible refine wp_mono (ih1.e _ ?_) ?_ (fun _ h => h))
    | (wp_simp; with_reducible refine wp_mono (ih2.e _ ?_) ?_ (fun _ h => h))
    | (wp_simp; with_reducible refine wp_mono (ih3.e _ ?_) ?_ (fun _ h => h))
    | (wp_simp; with_reducible refine wp_mono (ih1.r _ ?_) ?_ (fun _ h => h))
    | (wp_simp; with_reducible refine wp_mono (ih1.a _ ?_) ?_ (fun _ h => h))
    | (wp_simp; with_reducible refine wp_mono (ih1.l _ ?_) ?_ (fun _ h => h))
    | (wp_simp; with_reducible refine wp_mono (ih2.l _ ?_) ?_ (fun _ h => h))
    | (wp_simp; with_reducible refine wp_mono (emitBreak_frA _) ?_ (fun _ h => h); cnt_intro)
    | (wp_simp; with_reducible refine wp_mono (emitContinue_frA _) ?_ (fun _ h => h); cnt_intro)
    | (wp_simp; with_reducible refine wp_mono (processBreak_frA _ _) ?_ (fun _ h => h); cnt_intro)
    | (wp_simp; with_reducible refine wp_mono (processContinue_frA _ _) ?_ (fun _ h => h); cnt_intro)
    | (wp_simp; with_reducible refine wp_mono (addLabel_count _ _ _ _ ?_) ?_ (fun _ h => h))
    | (wp_simp; with_reducible refine wp_mono (createSwitch_count _ _ ?_) ?_ (fun _ h => h))
    | (wp_simp; with_reducible refine wp_mono (createCatch_count _ _ _ ?_) ?_ (fun _ h => h))
    | cnt_intro
    | cnt_intro2
    | (with_reducible show _ = true; first | assumption | rfl | (simp only [addString_counting]; assumption) | cnt_close)
    | (wp_simp; with_reducible show CPost _ _ _; cnt_close)
    | (wp_simp; with_reducible show EA _; simp [EA]; done)
    | (wp_simp; split)))

set_option hygiene false in
macro "mc_walk" : tactic =>
  `(tactic| first
    | (refine ⟨fun s hc => ?_, fun s hc => ?_, fun s hc => ?_⟩ <;> simp only [emit, emitRef, emitAssign] <;>
        (try simp only [hc, ↓reduceIte]) <;> cnt_walk)
    | (refine ⟨fun s hc => ?_⟩; simp only [emitList]; cnt_walk))

theorem mc_none   : MC (.none ) := by
  mc_walk

theorem mc_next (n : Node) (ih1 : MC n) : MC (.next n) := by
  mc_walk

theorem mc_list (xs : Nodes) (ih1 : MCL xs) : MC (.list xs) := by
  mc_walk

theorem mc_label (idx : Nat) (hasPs : Bool) (ps : Nodes) (ih1 : MCL ps) : MC (.label idx hasPs ps) := by
  mc_walk

theorem mc_plabel (idx : Nat) (hasPs : Bool) (ps : Nodes) (ih1 : MCL ps) : MC (.plabel idx hasPs ps) := by
  mc_walk

theorem mc_case (kind : Nat) (idx : Nat) (ty : Nat) (hasPs : Bool) (ps : Nodes) (ih1 : MCL ps) : MC (.case kind idx ty hasPs ps) := by
  mc_walk

theorem mc_assign (lhs : Node) (rhs : Node) (ih1 : MC lhs) (ih2 : MC rhs) : MC (.assign lhs rhs) := by
  mc_walk

theorem mc_if (c : Node) (t : Node) (ih1 : MC c) (ih2 : MC t) : MC (.if_ c t) := by
  mc_walk

theorem mc_ifelse (c : Node) (t : Node) (e : Node) (ih1 : MC c) (ih2 : MC t) (ih3 : MC e) : MC (.ifelse c t e) := by
  mc_walk

theorem mc_while (c : Node) (b : Node) (i : Node) (ih1 : MC c) (ih2 : MC b) (ih3 : MC i) : MC (.while_ c b i) := by
  mc_walk

theorem mc_do (b : Node) (c : Node) (ih1 : MC b) (ih2 : MC c) : MC (.do_ b c) := by
  mc_walk

theorem mc_and (a : Node) (b : Node) (ih1 : MC a) (ih2 : MC b) : MC (.and_ a b) := by
  mc_walk

theorem mc_or (a : Node) (b : Node) (ih1 : MC a) (ih2 : MC b) : MC (.or_ a b) := by
  mc_walk

theorem mc_mcmd (ev : Nat) (l : Node) (hasPs : Bool) (ps : Nodes) (ih1 : MC l) (ih2 : MCL ps) : MC (.mcmd ev l hasPs ps) := by
  mc_walk

theorem mc_mcmdx (ev : Nat) (l : Node) (hasPs : Bool) (ps : Nodes) (ih1 : MC l) (ih2 : MCL ps) : MC (.mcmdx ev l hasPs ps) := by
  mc_walk

theorem mc_cmd (ev : Nat) (hasPs : Bool) (ps : Nodes) (ih1 : MCL ps) : MC (.cmd ev hasPs ps) := by
  mc_walk

theorem mc_cmdx (ev : Nat) (hasPs : Bool) (ps : Nodes) (ih1 : MCL ps) : MC (.cmdx ev hasPs ps) := by
  mc_walk

theorem mc_field (idx : Nat) (ev : Nat) (rd : Nat) (wr : Nat) (l : Node) (ih1 : MC l) : MC (.field idx ev rd wr l) := by
  mc_walk

theorem mc_listener (b : Nat)  : MC (.listener b) := by
  mc_walk

theorem mc_str (idx : Nat)  : MC (.str idx) := by
  mc_walk

theorem mc_int (v : Nat)  : MC (.int v) := by
  mc_walk

theorem mc_float (bits : Nat)  : MC (.float bits) := by
  mc_walk

theorem mc_vec (a : Node) (b : Node) (c : Node) (ih1 : MC a) (ih2 : MC b) (ih3 : MC c) : MC (.vec a b c) := by
  mc_walk

theorem mc_nil   : MC (.nil ) := by
  mc_walk

theorem mc_null   : MC (.null ) := by
  mc_walk

theorem mc_f1 (op : Nat) (x : Node) (ih1 : MC x) : MC (.f1 op x) := by
  mc_walk

theorem mc_f2 (op : Nat) (a : Node) (b : Node) (ih1 : MC a) (ih2 : MC b) : MC (.f2 op a b) := by
  mc_walk

theorem mc_not (x : Node) (ih1 : MC x) : MC (.not_ x) := by
  mc_walk

theorem mc_idx (a : Node) (i : Node) (ih1 : MC a) (ih2 : MC i) : MC (.idx a i) := by
  mc_walk

theorem mc_carr (a : Node) (xs : Nodes) (ih1 : MC a) (ih2 : MCL xs) : MC (.carr a xs) := by
  mc_walk

theorem mc_marr (xs : Nodes) (ih1 : MCL xs) : MC (.marr xs) := by
  mc_walk

theorem mc_try (b : Node) (c : Node) (ih1 : MC b) (ih2 : MC c) : MC (.try_ b c) := by
  mc_walk

theorem mc_switch (e : Node) (b : Node) (ih1 : MC e) (ih2 : MC b) : MC (.switch e b) := by
  mc_walk

theorem mc_brk   : MC (.brk ) := by
  mc_walk

theorem mc_cont   : MC (.cont ) := by
  mc_walk

theorem mc_unknown (t : Nat)  : MC (.unknown t) := by
  mc_walk

theorem mc_lnil : MCL .nil := by
  mc_walk

theorem mc_lcons (x : Node) (xs : Nodes) (ih1 : MC x) (ih2 : MCL xs) : MCL (.cons x xs) := by
  mc_walk

theorem mc_all (n : Node) : MC n :=
  Node.rec (motive_1 := MC) (motive_2 := MCL)
    mc_none mc_next mc_list mc_label mc_plabel mc_case mc_assign mc_if mc_ifelse mc_while mc_do mc_and mc_or mc_mcmd mc_mcmdx mc_cmd mc_cmdx mc_field mc_listener mc_str mc_int mc_float mc_vec mc_nil mc_null mc_f1 mc_f2 mc_not mc_idx mc_carr mc_marr mc_try mc_switch mc_brk mc_cont mc_unknown
    mc_lnil mc_lcons n

theorem mc_allL (xs : Nodes) : MCL xs :=
  Nodes.rec (motive_1 := MC) (motive_2 := MCL)
    mc_none mc_next mc_list mc_label mc_plabel mc_case mc_assign mc_if mc_ifelse mc_while mc_do mc_and mc_or mc_mcmd mc_mcmdx mc_cmd mc_cmdx mc_field mc_listener mc_str mc_int mc_float mc_vec mc_nil mc_null mc_f1 mc_f2 mc_not mc_idx mc_carr mc_marr mc_try mc_switch mc_brk mc_cont mc_unknown
    mc_lnil mc_lcons xs


end Morfuse.Emit
