import MorfuseModel.Emit.ArenaProg
/-!
# `Preallocate` reserves enough: no allocation of a whole compile runs past the arena
-/
namespace Morfuse.Emit
open Morfuse.Gen.EmitConsts

theorem tbl_le (k L : Nat) (h : k ≤ L) : tbl k ≤ szPtr * L := by
  unfold tbl; split
  · omega
  · exact Nat.mul_le_mul_left _ h

/-- the bytes a tree takes are covered by one entry per label plus one table of `L ≥` all labels per switch / catch -/
def ABound (y : Syn) : Prop := ∀ L, y.lab ≤ L → y.arena ≤ szEntry * y.lab + szPtr * L * (y.sw + y.ca)

theorem ABound.zero : ABound 0 := by intro L _; simp
theorem ABound.label : ABound Syn.label := by intro L _; simp [Syn.label]
theorem ABound.add {a b : Syn} (ha : ABound a) (hb : ABound b) : ABound (a + b) := by
  intro L hL
  simp only [Syn.add_lab, Syn.add_arena, Syn.add_sw, Syn.add_ca] at *
  have h1 := ha L (by omega)
  have h2 := hb L (by omega)
  generalize szPtr * L = M at *
  simp only [Nat.mul_add] at *
  omega
theorem ABound.nest {a b : Syn} (ha : ABound a) (hb : ABound b) (dsw dca : Nat) (h1 : dsw + dca = 1) (hh : Nat) :
    ABound ⟨a.lab + b.lab, hh, a.sw + b.sw + dsw, a.ca + b.ca + dca, a.arena + tbl b.lab + b.arena⟩ := by
  intro L hL
  simp only at *
  have h1 := ha L (by omega)
  have h2 := hb L (by omega)
  have h3 := tbl_le b.lab L (by omega)
  generalize szPtr * L = M at *
  have : M * (a.sw + b.sw + dsw + (a.ca + b.ca + dca)) = M * (a.sw + a.ca) + M * (b.sw + b.ca) + M := by
    have : a.sw + b.sw + dsw + (a.ca + b.ca + dca) = (a.sw + a.ca) + (b.sw + b.ca) + 1 := by omega
    rw [this]; simp [Nat.mul_add]
  rw [this]
  simp only [Nat.mul_add] at *
  omega

mutual
theorem Node.abound : ∀ n : Node, ABound n.syn
  | .none | .listener _ | .str _ | .int _ | .float _ | .nil | .null | .brk | .cont | .unknown _ => by
    simp only [Node.syn]; exact ABound.zero
  | .next n => by simp only [Node.syn]; exact n.abound
  | .list xs => by simp only [Node.syn]; exact xs.abound
  | .label _ _ _ | .plabel _ _ _ | .case _ _ _ _ _ => by simp only [Node.syn]; exact ABound.label
  | .assign l r => by simp only [Node.syn]; exact (r.abound).add l.abound
  | .if_ c t => by simp only [Node.syn]; exact (c.abound).add t.abound
  | .ifelse c t e => by simp only [Node.syn]; exact ((c.abound).add t.abound).add e.abound
  | .while_ c b i => by simp only [Node.syn]; exact ((c.abound).add b.abound).add i.abound
  | .do_ b c => by simp only [Node.syn]; exact (b.abound).add c.abound
  | .and_ a b => by simp only [Node.syn]; exact (a.abound).add b.abound
  | .or_ a b => by simp only [Node.syn]; exact (a.abound).add b.abound
  | .mcmd _ l h ps => by
    simp only [Node.syn]; cases h
    · exact ABound.zero.add l.abound
    · exact (ps.abound).add l.abound
  | .mcmdx _ l h ps => by
    simp only [Node.syn]; cases h
    · exact ABound.zero.add l.abound
    · exact (ps.abound).add l.abound
  | .cmd _ h ps => by
    simp only [Node.syn]; cases h
    · exact ABound.zero
    · exact ps.abound
  | .cmdx _ h ps => by
    simp only [Node.syn]; cases h
    · exact ABound.zero
    · exact ps.abound
  | .field _ _ _ _ l => by simp only [Node.syn]; exact l.abound
  | .vec a b c => by simp only [Node.syn]; exact ((a.abound).add b.abound).add c.abound
  | .f1 _ x => by simp only [Node.syn]; exact x.abound
  | .f2 _ a b => by simp only [Node.syn]; exact (a.abound).add b.abound
  | .not_ x => by simp only [Node.syn]; exact x.abound
  | .idx a i => by simp only [Node.syn]; exact (a.abound).add i.abound
  | .carr a xs => by simp only [Node.syn]; exact (a.abound).add xs.abound
  | .marr xs => by simp only [Node.syn]; exact xs.abound
  | .try_ b c => by
    simp only [Node.syn]
    have := ABound.nest b.abound c.abound 0 1 rfl b.syn.here
    simpa using this
  | .switch e b => by
    simp only [Node.syn]
    have := ABound.nest e.abound b.abound 1 0 rfl e.syn.here
    simpa using this
theorem Nodes.abound : ∀ xs : Nodes, ABound xs.syn
  | .nil => by simp only [Nodes.syn]; exact ABound.zero
  | .cons x xs => by simp only [Nodes.syn]; exact (x.abound).add xs.abound
end


/-- what `Preallocate` itself takes from the arena -/
def preFixed (dev : Bool) (i : SizeInfo) : Nat :=
  (if dev then szSourcePos * i.progLength else 0) + (if i.numCatches ≠ 0 then szCatchBlock * i.numCatches else 0)
  + (if i.numSwitches ≠ 0 then szStateScript * i.numSwitches else 0) + i.progLength + tbl (i.numLabels + i.numCaseLabels)

theorem alloc_ok (s : St) (n : Nat) (h : s.arenaUsed + n ≤ s.arenaSize) :
    s.alloc n = .ok { s with arenaUsed := s.arenaUsed + n } := by
  unfold St.alloc
  rw [if_neg (by omega)]

theorem preallocate_spec (dev : Bool) (i : SizeInfo) (h : preFixed dev i ≤ arenaFormula dev i) :
    wp (preallocate dev i) (fun s =>
      s.counting = false ∧ s.arenaUsed = preFixed dev i ∧ s.arenaSize = arenaFormula dev i ∧
      s.curSet.count = 0 ∧ i.numLabels + i.numCaseLabels ≤ s.curSet.threshold ∧
      s.swCont.num = 0 ∧ s.swCont.cap.getD 0 = i.numSwitches ∧ s.caCont.num = 0 ∧ s.caCont.cap.getD 0 = i.numCatches) EA := by
  unfold preallocate preFixed at *
  cases dev <;> by_cases hca : i.numCatches = 0 <;> by_cases hsw : i.numSwitches = 0 <;>
    by_cases hl : i.numLabels + i.numCaseLabels ≤ 1 <;>
    simp [hca, hsw, hl, tbl, LabelSet.resize, St.init] at h ⊢ <;>
    (repeat (rw [alloc_ok _ _ (by simp; omega)]; simp)) <;> (try omega)



/-! ## a whole compile -/

theorem emitRoot_count (root : Node) :
    wp (emitRoot root (St.init true)) (fun c => c.info.numLabels + c.info.numCaseLabels = root.syn.lab ∧
      c.info.numSwitches = root.syn.sw ∧ c.info.numCatches = root.syn.ca) EA := by
  unfold emitRoot
  wp_simp
  refine wp_mono ((mc_all root).e (St.init true) rfl) ?_ (fun _ h => h)
  intro a ha
  refine wp_mono (emitEof_neutral a) ?_ (fun _ h => QuietImp.imp _ h)
  intro b hb
  have h2 : frA b = frA a := hb.2
  have e1 : b.info.numLabels = (frA b).numLabels := rfl
  have e2 : b.info.numCaseLabels = (frA b).numCaseLabels := rfl
  have e3 : b.info.numSwitches = (frA b).numSwitches := rfl
  have e4 : b.info.numCatches = (frA b).numCatches := rfl
  rw [e1, e2, e3, e4, h2]
  obtain ⟨_, h1, h3, h4⟩ := ha
  simp [frA, St.init] at h1 h3 h4
  exact ⟨by simpa [frA] using h1, by simpa [frA] using h3, by simpa [frA] using h4⟩

theorem ceb_ge (n : Nat) : szEntry * n + tbl n ≤ countEntryBytes n := by
  unfold countEntryBytes tbl
  by_cases h : n ≤ 1
  · have : n = 0 ∨ n = 1 := by omega
    rcases this with h0 | h1
    · subst h0; simp
    · subst h1; simp
  · rw [if_neg h, if_pos (by omega)]
    simp [Nat.add_mul]

/-- what `Preallocate` reserves covers what it takes itself plus what the program pass will take -/
theorem fixed_le (dev : Bool) (i : SizeInfo) (y : Syn) (hl : i.numLabels + i.numCaseLabels = y.lab)
    (hs : i.numSwitches = y.sw) (hc : i.numCatches = y.ca) (hb : ABound y) :
    preFixed dev i + y.arena ≤ arenaFormula dev i := by
  have h1 := hb y.lab (Nat.le_refl _)
  have h2 := ceb_ge y.lab
  unfold preFixed arenaFormula
  simp only [hl, hs, hc]
  generalize szPtr * y.lab * (y.sw + y.ca) = X at *
  cases dev <;> by_cases h3 : y.ca = 0 <;> by_cases h4 : y.sw = 0 <;> simp [h3, h4] <;> omega

theorem storeCur_true (s : St) : True := trivial

/-- **no allocation of a whole compile runs past the arena `Preallocate` reserved** -/
theorem compile_EA (dev : Bool) (root : Node) : wp (compile dev root) (fun _ => True) EA := by
  unfold compile
  wp_simp
  refine wp_mono (emitRoot_count root) ?_ (fun _ h => h)
  intro c hcnt
  obtain ⟨hl, hs, hca⟩ := hcnt
  have hfix := fixed_le dev c.info root.syn hl hs hca root.abound
  wp_simp
  refine wp_mono (preallocate_spec dev c.info (by omega)) ?_ (fun _ h => h)
  intro s hs'
  obtain ⟨h0, h1, h2, h3, h4, h5, h6, h7, h8⟩ := hs'
  wp_simp
  unfold emitRoot
  wp_simp
  have hpre : PPre root.syn (frA s) := by
    have := root.here_le_lab
    simp only [PPre, frA, capN]
    refine ⟨h0, ?_, ?_, ?_, ?_⟩ <;> omega
  refine wp_mono ((mp_all root).e s hpre) ?_ (fun _ h => h)
  intro a _
  wp_simp
  refine wp_mono (emitEof_neutral a) ?_ (fun _ h => QuietImp.imp _ h)
  intro b _
  wp_simp

end Morfuse.Emit
