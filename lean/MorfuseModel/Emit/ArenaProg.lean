import MorfuseModel.Emit.Arena
namespace Morfuse.Emit
open Morfuse.Gen.EmitConsts

/-! ## the program pass takes exactly `syn.arena` bytes, given room -/

def capN (c : Cont) : Nat := c.cap.getD 0

/-- room for a tree with contribution `y`: in the current label set, in the two containers, in the arena -/
def PPre (y : Syn) (f : FrA) : Prop :=
  f.counting = false ∧ f.curSet.count + y.here ≤ f.curSet.threshold ∧
  f.swCont.num + y.sw ≤ capN f.swCont ∧ f.caCont.num + y.ca ≤ capN f.caCont ∧
  f.arenaUsed + y.arena ≤ f.arenaSize

def PPost (y : Syn) (f f' : FrA) : Prop :=
  f'.counting = false ∧ f'.arenaSize = f.arenaSize ∧ f'.arenaUsed = f.arenaUsed + y.arena ∧
  f'.curSet.count = f.curSet.count + y.here ∧ f'.curSet.threshold = f.curSet.threshold ∧
  f'.swCont.cap = f.swCont.cap ∧ f'.swCont.num = f.swCont.num + y.sw ∧
  f'.caCont.cap = f.caCont.cap ∧ f'.caCont.num = f.caCont.num + y.ca

theorem alloc_prog (s : St) (n : Nat) (h : s.arenaUsed + n ≤ s.arenaSize) :
    s.alloc n = .ok { s with arenaUsed := s.arenaUsed + n } := by
  unfold St.alloc
  rw [if_neg (by omega)]

theorem addLabel_prog (s : St) (i : Nat) (p c : Bool) (hc : s.counting = false)
    (hroom : s.curSet.count < s.curSet.threshold) (ha : s.arenaUsed + szEntry ≤ s.arenaSize) :
    wp (s.addLabel i p c) (fun r => r.1 = true → PPost Syn.label (frA s) (frA r.2)) EA := by
  unfold St.addLabel
  simp only [hc, Bool.false_eq_true, ↓reduceIte]
  unfold LabelSet.add
  split
  · simp
  · rw [if_neg (by omega)]
    simp only [ok_bind, alloc_prog s szEntry ha, wp_ok]
    intro _
    simp [PPost, frA, Syn.label, hc]

theorem resize_prog (ls : LabelSet) (k : Nat) (s : St) (ha : s.arenaUsed + tbl k ≤ s.arenaSize) :
    ls.resize k s = .ok ((if k ≤ 1 then ls else { ls with tableLength := k, threshold := k }),
                         { s with arenaUsed := s.arenaUsed + tbl k }) := by
  unfold LabelSet.resize
  by_cases hk : k ≤ 1
  · simp [hk, tbl]
  · have : s.arenaUsed + szPtr * k ≤ s.arenaSize := by simpa [tbl, hk] using ha
    simp only [hk, ↓reduceIte, alloc_prog s _ this, ok_bind, tbl]

theorem contAdd_prog (c : Cont) (sz : Nat) (s : St) (h : c.num + 1 ≤ capN c) :
    c.add sz s = .ok ({ c with num := c.num + 1 }, s) := by
  unfold Cont.add
  cases hcap : c.cap with
  | none => simp [capN, hcap] at h
  | some n =>
    have hn : ¬ n ≤ c.num := by simp [capN, hcap] at h; omega
    simp [hcap, hn]

/-- a fresh set with room for `k` labels became the current one -/
def EnterPost (f t : FrA) (k dsw dca : Nat) : Prop :=
  t.counting = false ∧ t.arenaSize = f.arenaSize ∧ t.arenaUsed = f.arenaUsed + tbl k ∧
  t.curSet.count = 0 ∧ k ≤ t.curSet.threshold ∧
  t.swCont.cap = f.swCont.cap ∧ t.swCont.num = f.swCont.num + dsw ∧
  t.caCont.cap = f.caCont.cap ∧ t.caCont.num = f.caCont.num + dca

/-- creating the state script of a switch and making it current -/
theorem createSwitch_prog (s : St) (k : Nat) (hc : s.counting = false) (hcont : s.swCont.num + 1 ≤ capN s.swCont)
    (ha : s.arenaUsed + tbl k ≤ s.arenaSize) :
    wp (s.createSwitch k) (fun r => EnterPost (frA s) (frA (r.2.enter r.1)) k 1 0) EA := by
  unfold St.createSwitch
  simp only [hc, Bool.false_eq_true, ↓reduceIte, contAdd_prog _ _ s hcont, ok_bind]
  rw [resize_prog _ k s ha]
  simp only [ok_bind, wp_ok, St.enter]
  simp [EnterPost, frA, hc]
  split <;> simp <;> omega

theorem createCatch_prog (s : St) (tb k : Nat) (hc : s.counting = false) (hcont : s.caCont.num + 1 ≤ capN s.caCont)
    (ha : s.arenaUsed + tbl k ≤ s.arenaSize) :
    wp (s.createCatch tb k) (fun r => EnterPost (frA s) (frA (r.2.enter r.1)) k 0 1) EA := by
  unfold St.createCatch
  simp only [hc, Bool.false_eq_true, ↓reduceIte, contAdd_prog _ _ s hcont, ok_bind]
  rw [resize_prog _ k s ha]
  simp only [ok_bind, wp_ok, St.enter]
  simp [EnterPost, frA, hc]
  split <;> simp <;> omega

/-- what `St.leave` does to the fields of the arena frame -/
theorem leave_frA (s : St) (o : SetRef) (os : LabelSet) :
    (frA (s.leave o os)).counting = (frA s).counting ∧ (frA (s.leave o os)).arenaUsed = (frA s).arenaUsed ∧
    (frA (s.leave o os)).arenaSize = (frA s).arenaSize ∧ (frA (s.leave o os)).swCont = (frA s).swCont ∧
    (frA (s.leave o os)).caCont = (frA s).caCont ∧
    ((frA s).counting = false → (frA (s.leave o os)).curSet = os) := by
  unfold St.leave St.storeCur
  split
  · simp_all [frA]
  · split <;> simp [frA]

/-- the counting sub-emitter of `try` / `switch` returns the number of labels of the body -/
theorem subcount_spec (n : Node) (cb cc : Bool) (sd : Nat) :
    wp (emit n { St.init true with canBreak := cb, canContinue := cc, switchDepth := sd })
      (fun t => (frA t).counting = true ∧ (frA t).numLabels + (frA t).numCaseLabels = n.syn.lab) EA := by
  refine wp_mono ((mc_all n).e _ rfl) ?_ (fun _ h => h)
  intro t ht
  refine ⟨ht.1, ?_⟩
  have := ht.2.1
  simpa [frA, St.init] using this

mutual
theorem Node.here_le_lab : ∀ n : Node, n.syn.here ≤ n.syn.lab
  | .none | .listener _ | .str _ | .int _ | .float _ | .nil | .null | .brk | .cont | .unknown _ => by simp [Node.syn]
  | .next n => by simp only [Node.syn]; exact n.here_le_lab
  | .list xs => by simp only [Node.syn]; exact xs.here_le_lab
  | .label _ _ _ | .plabel _ _ _ | .case _ _ _ _ _ => by simp [Node.syn, Syn.label]
  | .assign l r => by have := l.here_le_lab; have := r.here_le_lab; simp only [Node.syn, Syn.add_lab, Syn.add_here]; omega
  | .if_ c t => by have := c.here_le_lab; have := t.here_le_lab; simp only [Node.syn, Syn.add_lab, Syn.add_here]; omega
  | .ifelse c t e => by
    have := c.here_le_lab; have := t.here_le_lab; have := e.here_le_lab; simp only [Node.syn, Syn.add_lab, Syn.add_here]; omega
  | .while_ c b i => by
    have := c.here_le_lab; have := b.here_le_lab; have := i.here_le_lab; simp only [Node.syn, Syn.add_lab, Syn.add_here]; omega
  | .do_ b c => by have := c.here_le_lab; have := b.here_le_lab; simp only [Node.syn, Syn.add_lab, Syn.add_here]; omega
  | .and_ a b => by have := a.here_le_lab; have := b.here_le_lab; simp only [Node.syn, Syn.add_lab, Syn.add_here]; omega
  | .or_ a b => by have := a.here_le_lab; have := b.here_le_lab; simp only [Node.syn, Syn.add_lab, Syn.add_here]; omega
  | .mcmd _ l h ps => by
    have := l.here_le_lab; have := ps.here_le_lab; cases h <;> simp [Node.syn] <;> omega
  | .mcmdx _ l h ps => by
    have := l.here_le_lab; have := ps.here_le_lab; cases h <;> simp [Node.syn] <;> omega
  | .cmd _ h ps => by have := ps.here_le_lab; cases h <;> simp [Node.syn] <;> omega
  | .cmdx _ h ps => by have := ps.here_le_lab; cases h <;> simp [Node.syn] <;> omega
  | .field _ _ _ _ l => by simp only [Node.syn]; exact l.here_le_lab
  | .vec a b c => by
    have := a.here_le_lab; have := b.here_le_lab; have := c.here_le_lab; simp only [Node.syn, Syn.add_lab, Syn.add_here]; omega
  | .f1 _ x => by simp only [Node.syn]; exact x.here_le_lab
  | .f2 _ a b => by have := a.here_le_lab; have := b.here_le_lab; simp only [Node.syn, Syn.add_lab, Syn.add_here]; omega
  | .not_ x => by simp only [Node.syn]; exact x.here_le_lab
  | .idx a i => by have := a.here_le_lab; have := i.here_le_lab; simp only [Node.syn, Syn.add_lab, Syn.add_here]; omega
  | .carr a xs => by have := a.here_le_lab; have := xs.here_le_lab; simp only [Node.syn, Syn.add_lab, Syn.add_here]; omega
  | .marr xs => by simp only [Node.syn]; exact xs.here_le_lab
  | .try_ b c => by have := b.here_le_lab; simp only [Node.syn]; omega
  | .switch e b => by have := e.here_le_lab; simp only [Node.syn]; omega
theorem Nodes.here_le_lab : ∀ xs : Nodes, xs.syn.here ≤ xs.syn.lab
  | .nil => by simp [Nodes.syn]
  | .cons x xs => by have := x.here_le_lab; have := xs.here_le_lab; simp only [Nodes.syn, Syn.add_lab, Syn.add_here]; omega
end

structure MP (n : Node) : Prop where
  e : ∀ s, PPre n.syn (frA s) → wp (emit n s) (fun s' => PPost n.syn (frA s) (frA s')) EA
  r : ∀ s, PPre n.syn (frA s) → wp (emitRef n s) (fun s' => PPost n.syn (frA s) (frA s')) EA
  a : ∀ s, PPre n.syn (frA s) → wp (emitAssign n s) (fun s' => PPost n.syn (frA s) (frA s')) EA

structure MPL (xs : Nodes) : Prop where
  l : ∀ s, PPre xs.syn (frA s) → wp (emitList xs s) (fun s' => PPost xs.syn (frA s) (frA s')) EA

theorem counting_ne_true {s : St} (h : s.counting = false) : ¬ s.counting = true := by simp [h]

/-- close an arithmetic / frame goal of the program pass from the chain of facts in the context -/
macro "pp_close" : tactic =>
  `(tactic| ((try simp only [same_iff, PPre, PPost, EnterPost, capN, frA_trackStack, frA_accumulate, frA_moveFwd, frA_addString, Node.syn, Nodes.syn,
      Syn.add_lab, Syn.add_sw, Syn.add_ca, Syn.add_here, Syn.add_arena, Syn.zero_lab, Syn.zero_sw, Syn.zero_ca, Syn.zero_here, Syn.zero_arena,
      Syn.label, addString_counting, apply_ite Syn.lab, apply_ite Syn.sw, apply_ite Syn.ca, apply_ite Syn.here, apply_ite Syn.arena] at *); grind [frA, leave_frA, Node.here_le_lab]))

set_option hygiene false in
macro "p_intro" : tactic =>
  `(tactic| (intro a ha; have hc : a.counting = false := (by pp_close); try simp only [if_neg (counting_ne_true hc), frA_enter_counting]))

set_option hygiene false in
macro "p_walk" : tactic =>
  `(tactic| repeat' (first
    | (wp_simp; wp_prim; p_intro)
    | (wp_simp; wp_prim; intro _ _)
    | (wp_simp; with_reducible refine wp_mono (subcount_spec _ _ _ _) ?_ (fun _ h => h); intro _ _)
    | (wp_simp; with_reducible refine wp_mono (ih1.e _ ?_) ?_ (fun _ h => h))
    | (wp_simp; with_reducible refine wp_mono (ih2.e _ ?_) ?_ (fun _ h => h))
    | (wp_simp; with_reducible refine wp_mono (ih3.e _ ?_) ?_ (fun _ h => h))
    | (wp_simp; with_reducible refine wp_mono (ih1.r _ ?_) ?_ (fun _ h => h))
    | (wp_simp; with_reducible refine wp_mono (ih1.a _ ?_) ?_ (fun _ h => h))
    | (wp_simp; with_reducible refine wp_mono (ih1.l _ ?_) ?_ (fun _ h => h))
    | (wp_simp; with_reducible refine wp_mono (ih2.l _ ?_) ?_ (fun _ h => h))
    | (wp_simp; with_reducible refine wp_mono (emitBreak_frA _) ?_ (fun _ h => h); p_intro)
    | (wp_simp; with_reducible refine wp_mono (emitContinue_frA _) ?_ (fun _ h => h); p_intro)
    | (wp_simp; with_reducible refine wp_mono (processBreak_frA _ _) ?_ (fun _ h => h); p_intro)
    | (wp_simp; with_reducible refine wp_mono (processContinue_frA _ _) ?_ (fun _ h => h); p_intro)
    | (wp_simp; with_reducible refine wp_mono (addLabel_prog _ _ _ _ ?_ ?_ ?_) ?_ (fun _ h => h))
    | (wp_simp; with_reducible refine wp_mono (createSwitch_prog _ _ ?_ ?_ ?_) ?_ (fun _ h => h))
    | (wp_simp; with_reducible refine wp_mono (createCatch_prog _ _ _ ?_ ?_ ?_) ?_ (fun _ h => h))
    | p_intro
    | (intro a ha)
    | (with_reducible show _ = false; first | assumption | rfl | pp_close)
    | (with_reducible show _ < _; pp_close)
    | (with_reducible show _ ≤ _; pp_close)
    | (with_reducible show PPre _ _; pp_close)
    | (wp_simp; with_reducible show PPost _ _ _; pp_close)
    | (wp_simp; with_reducible show EA _; simp [EA]; done)
    | (wp_simp; split)))

set_option hygiene false in
macro "mp_walk" : tactic =>
  `(tactic| first
    | (refine ⟨fun s hp => ?_, fun s hp => ?_, fun s hp => ?_⟩ <;> (have hc : s.counting = false := hp.1) <;>
        simp only [emit, emitRef, emitAssign] <;>
        (try simp only [if_neg (counting_ne_true hc)]) <;> p_walk)
    | (refine ⟨fun s hp => ?_⟩; simp only [emitList]; p_walk))

theorem mp_none   : MP (.none ) := by
  mp_walk

theorem mp_next (n : Node) (ih1 : MP n) : MP (.next n) := by
  mp_walk

theorem mp_list (xs : Nodes) (ih1 : MPL xs) : MP (.list xs) := by
  mp_walk

theorem mp_label (idx : Nat) (hasPs : Bool) (ps : Nodes) (ih1 : MPL ps) : MP (.label idx hasPs ps) := by
  mp_walk

theorem mp_plabel (idx : Nat) (hasPs : Bool) (ps : Nodes) (ih1 : MPL ps) : MP (.plabel idx hasPs ps) := by
  mp_walk

theorem mp_case (kind : Nat) (idx : Nat) (ty : Nat) (hasPs : Bool) (ps : Nodes) (ih1 : MPL ps) : MP (.case kind idx ty hasPs ps) := by
  mp_walk

theorem mp_assign (lhs : Node) (rhs : Node) (ih1 : MP lhs) (ih2 : MP rhs) : MP (.assign lhs rhs) := by
  mp_walk

theorem mp_if (c : Node) (t : Node) (ih1 : MP c) (ih2 : MP t) : MP (.if_ c t) := by
  mp_walk

theorem mp_ifelse (c : Node) (t : Node) (e : Node) (ih1 : MP c) (ih2 : MP t) (ih3 : MP e) : MP (.ifelse c t e) := by
  mp_walk

theorem mp_while (c : Node) (b : Node) (i : Node) (ih1 : MP c) (ih2 : MP b) (ih3 : MP i) : MP (.while_ c b i) := by
  mp_walk

theorem mp_do (b : Node) (c : Node) (ih1 : MP b) (ih2 : MP c) : MP (.do_ b c) := by
  mp_walk

theorem mp_and (a : Node) (b : Node) (ih1 : MP a) (ih2 : MP b) : MP (.and_ a b) := by
  mp_walk

theorem mp_or (a : Node) (b : Node) (ih1 : MP a) (ih2 : MP b) : MP (.or_ a b) := by
  mp_walk

theorem mp_mcmd (ev : Nat) (l : Node) (hasPs : Bool) (ps : Nodes) (ih1 : MP l) (ih2 : MPL ps) : MP (.mcmd ev l hasPs ps) := by
  mp_walk

theorem mp_mcmdx (ev : Nat) (l : Node) (hasPs : Bool) (ps : Nodes) (ih1 : MP l) (ih2 : MPL ps) : MP (.mcmdx ev l hasPs ps) := by
  mp_walk

theorem mp_cmd (ev : Nat) (hasPs : Bool) (ps : Nodes) (ih1 : MPL ps) : MP (.cmd ev hasPs ps) := by
  mp_walk

theorem mp_cmdx (ev : Nat) (hasPs : Bool) (ps : Nodes) (ih1 : MPL ps) : MP (.cmdx ev hasPs ps) := by
  mp_walk

set_option maxRecDepth 2000 in
theorem mp_field (idx : Nat) (ev : Nat) (rd : Nat) (wr : Nat) (l : Node) (ih1 : MP l) : MP (.field idx ev rd wr l) := by
  mp_walk

theorem mp_listener (b : Nat)  : MP (.listener b) := by
  mp_walk

theorem mp_str (idx : Nat)  : MP (.str idx) := by
  mp_walk

theorem mp_int (v : Nat)  : MP (.int v) := by
  mp_walk

theorem mp_float (bits : Nat)  : MP (.float bits) := by
  mp_walk

theorem mp_vec (a : Node) (b : Node) (c : Node) (ih1 : MP a) (ih2 : MP b) (ih3 : MP c) : MP (.vec a b c) := by
  mp_walk

theorem mp_nil   : MP (.nil ) := by
  mp_walk

theorem mp_null   : MP (.null ) := by
  mp_walk

theorem mp_f1 (op : Nat) (x : Node) (ih1 : MP x) : MP (.f1 op x) := by
  mp_walk

theorem mp_f2 (op : Nat) (a : Node) (b : Node) (ih1 : MP a) (ih2 : MP b) : MP (.f2 op a b) := by
  mp_walk

theorem mp_not (x : Node) (ih1 : MP x) : MP (.not_ x) := by
  mp_walk

theorem mp_idx (a : Node) (i : Node) (ih1 : MP a) (ih2 : MP i) : MP (.idx a i) := by
  mp_walk

theorem mp_carr (a : Node) (xs : Nodes) (ih1 : MP a) (ih2 : MPL xs) : MP (.carr a xs) := by
  mp_walk

theorem mp_marr (xs : Nodes) (ih1 : MPL xs) : MP (.marr xs) := by
  mp_walk

theorem mp_try (b : Node) (c : Node) (ih1 : MP b) (ih2 : MP c) : MP (.try_ b c) := by
  mp_walk

theorem mp_switch (e : Node) (b : Node) (ih1 : MP e) (ih2 : MP b) : MP (.switch e b) := by
  mp_walk

theorem mp_brk   : MP (.brk ) := by
  mp_walk

theorem mp_cont   : MP (.cont ) := by
  mp_walk

theorem mp_unknown (t : Nat)  : MP (.unknown t) := by
  mp_walk

theorem mp_lnil : MPL .nil := by
  mp_walk

theorem mp_lcons (x : Node) (xs : Nodes) (ih1 : MP x) (ih2 : MPL xs) : MPL (.cons x xs) := by
  mp_walk

theorem mp_all (n : Node) : MP n :=
  Node.rec (motive_1 := MP) (motive_2 := MPL)
    mp_none mp_next mp_list mp_label mp_plabel mp_case mp_assign mp_if mp_ifelse mp_while mp_do mp_and mp_or mp_mcmd mp_mcmdx mp_cmd mp_cmdx mp_field mp_listener mp_str mp_int mp_float mp_vec mp_nil mp_null mp_f1 mp_f2 mp_not mp_idx mp_carr mp_marr mp_try mp_switch mp_brk mp_cont mp_unknown
    mp_lnil mp_lcons n

theorem mp_allL (xs : Nodes) : MPL xs :=
  Nodes.rec (motive_1 := MP) (motive_2 := MPL)
    mp_none mp_next mp_list mp_label mp_plabel mp_case mp_assign mp_if mp_ifelse mp_while mp_do mp_and mp_or mp_mcmd mp_mcmdx mp_cmd mp_cmdx mp_field mp_listener mp_str mp_int mp_float mp_vec mp_nil mp_null mp_f1 mp_f2 mp_not mp_idx mp_carr mp_marr mp_try mp_switch mp_brk mp_cont mp_unknown
    mp_lnil mp_lcons xs




end Morfuse.Emit
