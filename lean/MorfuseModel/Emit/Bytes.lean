import MorfuseModel.Emit.Fuse
/-!
# Reading back what was just written: the 32-byte ring of the counting manager and the program buffer
-/
namespace Morfuse.Emit
open Morfuse.Gen.EmitConsts

set_option maxRecDepth 8000

/-! ## the ring -/

theorem ringWrite_cur (bs : List Nat) (s : St) (h : s.ringCur < 32) :
    (s.ringWrite bs).ringCur = (s.ringCur + bs.length) % 32 := by
  induction bs generalizing s with
  | nil => simp [St.ringWrite]; omega
  | cons b bs ih =>
    unfold St.ringWrite
    rw [ih _ (by simp only [ringSize_eq]; omega)]
    simp only [ringSize_eq, List.length_cons]; omega

theorem ringWrite_frame (bs : List Nat) (s : St) (j : Nat) (hs : s.ring.data.size = 32) (hc : s.ringCur < 32)
    (hj : ∀ i, i < bs.length → (s.ringCur + i) % 32 ≠ j) : (s.ringWrite bs).ring.get j = s.ring.get j := by
  induction bs generalizing s with
  | nil => rfl
  | cons b bs ih =>
    unfold St.ringWrite
    rw [ih _ (by simp [Tbl.set, hs]) (by simp only [ringSize_eq]; omega)]
    · simp only
      rw [Tbl.get_set _ _ _ _ (by rw [hs]; exact hc), if_neg]
      have := hj 0 (by simp); omega
    · intro i hi
      have := hj (i + 1) (by simp; omega)
      simp only [ringSize_eq]; omega

theorem ringWrite_get (bs : List Nat) (s : St) (hs : s.ring.data.size = 32) (hc : s.ringCur < 32) (hn : bs.length ≤ 32)
    (i : Nat) (hi : i < bs.length) : (s.ringWrite bs).ring.get ((s.ringCur + i) % 32) = bs[i] := by
  induction bs generalizing s i with
  | nil => simp at hi
  | cons b bs ih =>
    unfold St.ringWrite
    cases i with
    | zero =>
      rw [ringWrite_frame _ _ _ (by simp [Tbl.set, hs]) (by simp only [ringSize_eq]; omega)]
      · simp only [Nat.add_zero, List.getElem_cons_zero]
        rw [Nat.mod_eq_of_lt hc, Tbl.get_set _ _ _ _ (by rw [hs]; exact hc), if_pos rfl]
      · intro k hk
        simp only [ringSize_eq]
        simp at hn; omega
    | succ i =>
      have := ih { s with ring := s.ring.set s.ringCur b, ringCur := (s.ringCur + 1) % ringSize }
        (by simp [Tbl.set, hs]) (by simp only [ringSize_eq]; omega) (by simp at hn; omega) i (by simp at hi; omega)
      simp only [List.getElem_cons_succ]
      rw [← this]
      congr 1
      simp only [ringSize_eq]; omega

/-- the counting manager reads back what it has just written -/
theorem ring_readBack (bs : List Nat) (s : St) (hb : BOk s) (hn : bs.length < 32) (hcnt : (s.ringWrite bs).counting = true) :
    (s.ringWrite bs).readBack bs.length bs.length = bs := by
  unfold St.readBack
  rw [if_pos hcnt, ringWrite_cur _ _ hb.rcur]
  apply List.ext_getElem
  · simp
  · intro i h1 h2
    simp only [List.getElem_map, List.getElem_range, ringSize_eq]
    have hi : i < bs.length := by simpa using h1
    rw [← ringWrite_get bs s hb.rsize hb.rcur (by omega) i hi]
    congr 1
    have := hb.rcur
    omega

/-! ## the buffer -/

theorem foldSet_frame (bs : List Nat) (t : Tbl Nat) (k j : Nat) (hj : j < k) :
    (bs.foldl (fun (acc : Tbl Nat × Nat) b => (acc.1.set acc.2 b, acc.2 + 1)) (t, k)).1.get j = t.get j := by
  induction bs generalizing t k with
  | nil => rfl
  | cons b bs ih =>
    simp only [List.foldl_cons]
    rw [ih _ _ (by omega)]
    unfold Tbl.set Tbl.get
    simp [Array.getD]
    split <;> simp_all [Array.getElem_setIfInBounds] <;> omega

theorem foldSet_get (bs : List Nat) (t : Tbl Nat) (k : Nat) (hk : k + bs.length ≤ t.data.size) (i : Nat) (hi : i < bs.length) :
    (bs.foldl (fun (acc : Tbl Nat × Nat) b => (acc.1.set acc.2 b, acc.2 + 1)) (t, k)).1.get (k + i) = bs[i] := by
  induction bs generalizing t k i with
  | nil => simp at hi
  | cons b bs ih =>
    simp only [List.foldl_cons]
    cases i with
    | zero =>
      rw [foldSet_frame _ _ _ _ (by omega)]
      simp only [Nat.add_zero, List.getElem_cons_zero]
      rw [Tbl.get_set _ _ _ _ (by simp at hk; omega), if_pos rfl]
    | succ i =>
      have := ih (t.set k b) (k + 1) (by simp [Tbl.set] at hk ⊢; omega) i (by simp at hi; omega)
      simp only [List.getElem_cons_succ]
      rw [← this]
      congr 1
      omega

/-! ## a literal that was just emitted can be read back, by either manager -/

/-- `EmitOpcode` in the program manager (no assumption about room) -/
theorem emitOp_prog' {p p1 : St} (hp : p.counting = false) (hw : WOk p) (op : Nat) (hx : p.emitOp op = .ok p1) :
    Side p p1 ∧ p1.pos = p.pos + 1 ∧ WOk p1 ∧ (ent p1 0).op = op % 256 := by
  by_cases hfit : p.pos + 1 ≤ p.progLen
  · have := emitOp_prog hp hw op hfit
    rw [hx] at this
    exact ⟨this.1, this.2.2.1, this.2.2.2.1, this.2.2.2.2⟩
  · exfalso
    rw [emitOp_unfold] at hx
    cases hS : opStack? (op % 256) with
    | none => rw [hS] at hx; cases hx
    | some off =>
      rw [hS] at hx
      simp only [] at hx
      split at hx
      · cases hx
      · cases hE : opExt? (op % 256) with
        | none => rw [hE] at hx; cases hx
        | some e =>
          rw [hE] at hx
          simp only [] at hx
          obtain ⟨q1, q2, q3, q4, q5, q6, q7, q8, q9, q10, q11, q12, q13, q14⟩ := pushed_fields p hw e (op % 256) off
          rw [write_program _ _ (q3.trans hp), if_pos (by simp [q11, q5]; omega)] at hx
          cases hx

/-- after `EmitOpcode(op)` followed by its operand bytes `bs`, the top of the window is `op` and the operand bytes
read back are `bs` — in the ring as in the buffer -/
theorem literal_spec {s s1 : St} (hw : WOk s) (hb : BOk s) (op : Nat) (bs : List Nat) (hn : bs.length < 32)
    (hx : s.emitOpBytes op bs = .ok s1) :
    WOk s1 ∧ (ent s1 0).op = op % 256 ∧ s1.readBack bs.length bs.length = bs := by
  unfold St.emitOpBytes at hx
  cases h1 : s.emitOp op with
  | error e => rw [h1] at hx; cases hx
  | ok t =>
    rw [h1] at hx
    simp only [ok_bind] at hx
    cases hc : s.counting with
    | true =>
      obtain ⟨sd, _, wt, tt⟩ := emitOp_count hc hw op h1
      have hct : t.counting = true := sd.cnt.trans hc
      rw [write_counting _ _ hct] at hx
      injection hx with hx
      subst hx
      obtain ⟨r1, r2, r3, r4, _⟩ := ringWrite_fields bs
        { t with info := { t.info with progLength := t.info.progLength + bs.length } }
      have hbt := sd.bok hb
      refine ⟨⟨by rw [r1]; exact wt.size, by rw [r2]; exact wt.pos⟩, ?_, ?_⟩
      · have : ent (St.ringWrite { t with info := { t.info with progLength := t.info.progLength + bs.length } } bs) 0 = ent t 0 := by
          simp only [ent, r1, r2]
        rw [this, tt]
      · exact ring_readBack bs _ ⟨hbt.rsize, hbt.rcur, hbt.bsize⟩ hn (by rw [r4]; exact hct)
    | false =>
      obtain ⟨sd, hpos, wt, tt⟩ := emitOp_prog' hc hw op h1
      have hct : t.counting = false := sd.cnt.trans hc
      have hbt := sd.bok hb
      rw [write_program _ _ hct] at hx
      split at hx
      · cases hx
      · rename_i hfit
        injection hx with hx
        subst hx
        refine ⟨⟨wt.size, wt.pos⟩, ?_, ?_⟩
        · show (ent t 0).op = op % 256
          exact tt
        · unfold St.readBack
          simp only [hct, Bool.false_eq_true, ↓reduceIte]
          rw [if_pos (by omega)]
          apply List.ext_getElem
          · simp
          · intro i h1 h2
            simp only [List.getElem_map, List.getElem_range]
            have hi : i < bs.length := by simpa using h1
            rw [← foldSet_get bs t.buf t.pos (by rw [hbt.bsize]; omega) i hi]
            congr 1
            omega

/-- which literal opcodes `EvalPrevValue` reads operand bytes for: float?, number of bytes -/
def litOf (op : Nat) : Option (Bool × Nat) :=
  if op = OP_STORE_INT1 then some (false, 1)
  else if op = OP_STORE_INT2 then some (false, 2)
  else if op = OP_STORE_INT3 then some (false, 3)
  else if op = OP_STORE_INT4 then some (false, 4)
  else if op = OP_STORE_INT8 then some (false, 8)
  else if op = OP_STORE_FLOAT then some (true, 4)
  else none

theorem evalPrev_lit {s : St} (hw : WOk s) (f : Bool) (k : Nat) (h : litOf (ent s 0).op = some (f, k)) :
    s.evalPrev = .ok (some (f, unle (s.readBack k k))) := by
  unfold St.evalPrev
  rw [prevOp_eq s hw]
  simp only [ok_bind]
  unfold litOf at h
  have e0 : OP_STORE_INT0 = 12 := rfl
  have e1 : OP_STORE_INT1 = 13 := rfl
  have e2 : OP_STORE_INT2 = 14 := rfl
  have e3 : OP_STORE_INT3 = 15 := rfl
  have e4 : OP_STORE_INT4 = 16 := rfl
  have e8 : OP_STORE_INT8 = 17 := rfl
  have ef : OP_STORE_FLOAT = 21 := rfl
  simp only [e0, e1, e2, e3, e4, e8, ef] at h ⊢
  repeat' (first | (split at h <;> simp_all <;> done) | split at h)
  all_goals simp_all

theorem evalPrev_int0 {s : St} (hw : WOk s) (h : (ent s 0).op = OP_STORE_INT0) : s.evalPrev = .ok (some (false, 0)) := by
  unfold St.evalPrev
  rw [prevOp_eq s hw]
  simp only [ok_bind, h, ↓reduceIte]

end Morfuse.Emit
