import MorfuseModel.Emit.Model
namespace Morfuse.Emit
/-- placeholder (replaced by the read-back certificate) -/
def certify (_ : Node) : Bool := true
end Morfuse.Emit
