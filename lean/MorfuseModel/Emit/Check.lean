import MorfuseModel.Emit.Model
namespace Morfuse.Emit
/-- the lemma that `C01_code_fits` still lacks, evaluated on one tree: the program pass writes or skips exactly as
many bytes (ignoring moves back) as the counting pass counted.  The check demands `true` on every generated tree. -/
def certify (dev : Bool) (root : Node) : Bool :=
  match compile dev root with
  | .ok r => r.final.gross == r.info.progLength && decide (r.final.pos ≤ r.final.gross)
  | .error _ => true
end Morfuse.Emit
