import MorfuseModel.Emit.Wp
/-!
# The break / continue fix-up tables are never indexed outside their capacity

`apucBreakJumpLocations[BREAK_JUMP_LOCATION_COUNT]`, `apucContinueJumpLocations[CONTINUE_JUMP_LOCATION_COUNT]`:
`AddBreakJumpLocation` / `AddContinueJumpLocation` check the counter before they store, and
`ProcessBreakJumpLocations` / `ProcessContinueJumpLocations` walk the counter down to a saved start value.
The invariant `PB` (both counters ≤ their capacity) is kept by every step of the emitter, for every tree,
in both passes; under it no table access is out of range (`Ub.breakIndex`, `Ub.continueIndex` are never
the outcome).
-/
namespace Morfuse.Emit
open Morfuse.Gen.EmitConsts

def PBf (f : FrB) : Prop := f.nBrk ≤ breakMax ∧ f.nCont ≤ continueMax
/-- both fix-up counters are within their tables -/
def PB (s : St) : Prop := PBf (frB s)
/-- the outcome is not an out-of-range access to a fix-up table -/
def EB (e : Err) : Prop := e ≠ .ub .breakIndex ∧ e ≠ .ub .continueIndex

instance : QuietImp EB := ⟨fun _ h => ⟨h.2.1, h.2.2⟩⟩

theorem PB_of_same {s s' : St} (h : Same s s') (hp : PB s) : PB s' := by
  unfold PB; rw [h.1]; exact hp

theorem PB_init (cb cc : Bool) (sd : Nat) :
    PB { St.init true with canBreak := cb, canContinue := cc, switchDepth := sd } := by
  simp [PB, PBf, frB, St.init]

/-- close a `PB` goal from the `Same` / `PB` facts in the context -/
macro "pb_close" : tactic =>
  `(tactic| (simp only [PB, same_iff, frB_trackStack, frB_accumulate, frB_moveFwd, frB_addString, frB_enter, frB_leave] at *; grind [frB, PBf]))

/-! ## the primitives that touch the counters -/

theorem addBreak_pb (s : St) (p : Nat) (h : PB s) : wp (s.addBreak p) PB EB := by
  unfold St.addBreak
  split
  · simp only [wp_ok, PB, PBf, frB] at *; omega
  · simp [EB]

theorem addContinue_pb (s : St) (p : Nat) (h : PB s) : wp (s.addContinue p) PB EB := by
  unfold St.addContinue
  split
  · simp only [wp_ok, PB, PBf, frB] at *; omega
  · simp [EB]

theorem processBreakLoop_pb : ∀ (n : Nat) (s : St), PB s → n ≤ s.nBrk → wp (St.processBreakLoop n s) PB EB
  | 0, s, h, _ => h
  | n + 1, s, h, hn => by
    unfold St.processBreakLoop
    wp_simp
    split
    · exfalso; simp only [PB, PBf, frB] at h; omega
    · wp_simp
      refine wp_mono (setAt_neutral _ _ _) ?_ (fun _ h => QuietImp.imp _ h)
      intro a ha
      have hb : frB a = ⟨s.nBrk - 1, s.nCont⟩ := ha.1
      refine processBreakLoop_pb n a ?_ ?_
      · simp only [PB, PBf, frB] at *
        have := congrArg FrB.nBrk hb; have := congrArg FrB.nCont hb; simp only at *; omega
      · have := congrArg FrB.nBrk hb; simp only [frB] at this; omega

theorem processBreak_pb (s : St) (start : Nat) (h : PB s) : wp (s.processBreak start) PB EB := by
  unfold St.processBreak
  split
  · wp_simp
    refine wp_mono (processBreakLoop_pb _ s h (by omega)) ?_ (fun _ h => h)
    intro a ha
    refine wp_mono (clearPrev_neutral _) ?_ (fun _ h => QuietImp.imp _ h)
    intro b hb
    exact PB_of_same hb ha
  · exact h

theorem processContinueLoop_pb : ∀ (n : Nat) (s : St), PB s → n ≤ s.nCont → wp (St.processContinueLoop n s) PB EB
  | 0, s, h, _ => h
  | n + 1, s, h, hn => by
    unfold St.processContinueLoop
    wp_simp
    split
    · exfalso; simp only [PB, PBf, frB] at h; omega
    · wp_simp
      refine wp_mono (setAt_neutral _ _ _) ?_ (fun _ h => QuietImp.imp _ h)
      intro a ha
      have hb : frB a = ⟨s.nBrk, s.nCont - 1⟩ := ha.1
      refine processContinueLoop_pb n a ?_ ?_
      · simp only [PB, PBf, frB] at *
        have := congrArg FrB.nBrk hb; have := congrArg FrB.nCont hb; simp only at *; omega
      · have := congrArg FrB.nCont hb; simp only [frB] at this; omega

theorem processContinue_pb (s : St) (start : Nat) (h : PB s) : wp (s.processContinue start) PB EB := by
  unfold St.processContinue
  split
  · wp_simp
    refine wp_mono (processContinueLoop_pb _ s h (by omega)) ?_ (fun _ h => h)
    intro a ha
    refine wp_mono (clearPrev_neutral _) ?_ (fun _ h => QuietImp.imp _ h)
    intro b hb
    exact PB_of_same hb ha
  · exact h

theorem emitBreak_pb (s : St) (h : PB s) : wp s.emitBreak PB EB := by
  unfold St.emitBreak
  split
  · wp_simp
    wp_prim; intro a ha
    wp_simp
    wp_prim; intro b hb
    refine addBreak_pb _ _ ?_
    pb_close
  · simp [EB]

theorem emitContinue_pb (s : St) (h : PB s) : wp s.emitContinue PB EB := by
  unfold St.emitContinue
  split
  · wp_simp
    wp_prim; intro a ha
    wp_simp
    wp_prim; intro b hb
    refine addContinue_pb _ _ ?_
    pb_close
  · simp [EB]

/-! ## the arena primitives do not touch the counters -/

theorem alloc_frB (s : St) (n : Nat) : wp (s.alloc n) (fun s' => frB s' = frB s) EB := by
  unfold St.alloc
  split
  · simp [EB]
  · rfl

theorem labelSetResize_frB (ls : LabelSet) (n : Nat) (s : St) : wp (ls.resize n s) (fun r => frB r.2 = frB s) EB := by
  unfold LabelSet.resize
  split
  · rfl
  · wp_simp
    exact wp_mono (alloc_frB s _) (fun a ha => ha) (fun _ h => h)

theorem labelSetAdd_frB (ls : LabelSet) (k o : Nat) (p : Bool) (s : St) : wp (ls.add k o p s) (fun r => frB r.2 = frB s) EB := by
  unfold LabelSet.add
  split
  · rfl
  · wp_simp
    split
    · wp_simp
      refine wp_mono (labelSetResize_frB _ _ s) ?_ (fun _ h => h)
      intro a ha
      wp_simp
      refine wp_mono (alloc_frB _ _) ?_ (fun _ h => h)
      intro b hb
      wp_simp
      exact hb.trans ha
    · wp_simp
      refine wp_mono (alloc_frB _ _) ?_ (fun _ h => h)
      intro b hb
      wp_simp
      exact hb

theorem contAdd_frB (c : Cont) (sz : Nat) (s : St) : wp (c.add sz s) (fun r => frB r.2 = frB s) EB := by
  unfold Cont.add
  wp_simp
  split
  · wp_simp
    refine wp_mono (alloc_frB s _) ?_ (fun _ h => h)
    intro a ha
    wp_simp
    split
    · split
      · wp_simp; exact ha
      · wp_simp
        refine wp_mono (alloc_frB _ _) ?_ (fun _ h => h)
        intro b hb
        wp_simp
        exact hb.trans ha
    · wp_simp; exact ha
  · wp_simp
    split
    · split
      · wp_simp
      · wp_simp
        refine wp_mono (alloc_frB _ _) ?_ (fun _ h => h)
        intro b hb
        wp_simp
        exact hb
    · wp_simp

theorem addLabel_frB (s : St) (i : Nat) (p c : Bool) : wp (s.addLabel i p c) (fun r => frB r.2 = frB s) EB := by
  unfold St.addLabel
  split
  · split <;> rfl
  · wp_simp
    refine wp_mono (labelSetAdd_frB _ _ _ _ s) ?_ (fun _ h => h)
    intro a ha
    split
    · wp_simp; exact ha
    · wp_simp; exact ha

theorem createSwitch_frB (s : St) (n : Nat) : wp (s.createSwitch n) (fun r => frB r.2 = frB s) EB := by
  unfold St.createSwitch
  split
  · rfl
  · wp_simp
    refine wp_mono (contAdd_frB _ _ s) ?_ (fun _ h => h)
    intro a ha
    wp_simp
    refine wp_mono (labelSetResize_frB _ _ _) ?_ (fun _ h => h)
    intro b hb
    wp_simp
    exact hb.trans ha

theorem createCatch_frB (s : St) (t n : Nat) : wp (s.createCatch t n) (fun r => frB r.2 = frB s) EB := by
  unfold St.createCatch
  split
  · rfl
  · wp_simp
    refine wp_mono (contAdd_frB _ _ s) ?_ (fun _ h => h)
    intro a ha
    wp_simp
    refine wp_mono (labelSetResize_frB _ _ _) ?_ (fun _ h => h)
    intro b hb
    wp_simp
    exact hb.trans ha


/-! ## the emitter -/

/-- run through one case of the emitter -/
macro "fix_walk" e:ident l:ident r:ident a:ident : tactic =>
  `(tactic| repeat' (first
    | (wp_simp; wp_prim; intro _ _)
    | (wp_simp; with_reducible refine wp_mono ($e _ _ ?_) (fun _ _ => ?_) (fun _ h => h))
    | (wp_simp; with_reducible refine wp_mono ($l _ _ ?_) (fun _ _ => ?_) (fun _ h => h))
    | (wp_simp; with_reducible refine wp_mono ($r _ _ ?_) (fun _ _ => ?_) (fun _ h => h))
    | (wp_simp; with_reducible refine wp_mono ($a _ _ ?_) (fun _ _ => ?_) (fun _ h => h))
    | (wp_simp; with_reducible refine wp_mono (emitBreak_pb _ ?_) (fun _ _ => ?_) (fun _ h => h))
    | (wp_simp; with_reducible refine wp_mono (emitContinue_pb _ ?_) (fun _ _ => ?_) (fun _ h => h))
    | (wp_simp; with_reducible refine wp_mono (processBreak_pb _ _ ?_) (fun _ _ => ?_) (fun _ h => h))
    | (wp_simp; with_reducible refine wp_mono (processContinue_pb _ _ ?_) (fun _ _ => ?_) (fun _ h => h))
    | (wp_simp; with_reducible refine wp_mono (addLabel_frB _ _ _ _) (fun _ _ => ?_) (fun _ h => h))
    | (wp_simp; with_reducible refine wp_mono (createSwitch_frB _ _) (fun _ _ => ?_) (fun _ h => h))
    | (wp_simp; with_reducible refine wp_mono (createCatch_frB _ _ _) (fun _ _ => ?_) (fun _ h => h))
    | (wp_simp; with_reducible show PB _; first | exact PB_init _ _ _ | pb_close)
    | (wp_simp; with_reducible show EB _; simp [EB]; done)
    | (wp_simp; split)))


/-! ## the emitter: one lemma per constructor of the parse tree, assembled by the recursor -/

/-- the invariant for the four mutually recursive functions at one node -/
structure MB (n : Node) : Prop where
  e : ∀ s, PB s → wp (emit n s) PB EB
  r : ∀ s, PB s → wp (emitRef n s) PB EB
  a : ∀ s, PB s → wp (emitAssign n s) PB EB

structure MBL (xs : Nodes) : Prop where
  l : ∀ s, PB s → wp (emitList xs s) PB EB

set_option hygiene false in
/-- run through one case of the emitter (`ih1 ih2 ih3`: the induction hypotheses of the sub-trees) -/
macro "fix_walk" : tactic =>
  `(tactic| repeat' (first
    | (wp_simp; wp_prim; intro _ _)
    | (wp_simp; with_reducible refine wp_mono (ih1.e _ ?_) (fun _ _ => ?_) (fun _ h => h))
    | (wp_simp; with_reducible refine wp_mono (ih2.e _ ?_) (fun _ _ => ?_) (fun _ h => h))
    | (wp_simp; with_reducible refine wp_mono (ih3.e _ ?_) (fun _ _ => ?_) (fun _ h => h))
    | (wp_simp; with_reducible refine wp_mono (ih1.r _ ?_) (fun _ _ => ?_) (fun _ h => h))
    | (wp_simp; with_reducible refine wp_mono (ih1.a _ ?_) (fun _ _ => ?_) (fun _ h => h))
    | (wp_simp; with_reducible refine wp_mono (ih1.l _ ?_) (fun _ _ => ?_) (fun _ h => h))
    | (wp_simp; with_reducible refine wp_mono (ih2.l _ ?_) (fun _ _ => ?_) (fun _ h => h))
    | (wp_simp; with_reducible refine wp_mono (emitBreak_pb _ ?_) (fun _ _ => ?_) (fun _ h => h))
    | (wp_simp; with_reducible refine wp_mono (emitContinue_pb _ ?_) (fun _ _ => ?_) (fun _ h => h))
    | (wp_simp; with_reducible refine wp_mono (processBreak_pb _ _ ?_) (fun _ _ => ?_) (fun _ h => h))
    | (wp_simp; with_reducible refine wp_mono (processContinue_pb _ _ ?_) (fun _ _ => ?_) (fun _ h => h))
    | (wp_simp; with_reducible refine wp_mono (addLabel_frB _ _ _ _) (fun _ _ => ?_) (fun _ h => h))
    | (wp_simp; with_reducible refine wp_mono (createSwitch_frB _ _) (fun _ _ => ?_) (fun _ h => h))
    | (wp_simp; with_reducible refine wp_mono (createCatch_frB _ _ _) (fun _ _ => ?_) (fun _ h => h))
    | (wp_simp; with_reducible show PB _; first | exact PB_init _ _ _ | pb_close)
    | (wp_simp; with_reducible show EB _; simp [EB]; done)
    | (wp_simp; split)))

set_option hygiene false in
macro "pb_walk" : tactic =>
  `(tactic| first
    | (refine ⟨fun s h => ?_, fun s h => ?_, fun s h => ?_⟩ <;> simp only [emit, emitRef, emitAssign] <;> fix_walk)
    | (refine ⟨fun s h => ?_⟩; simp only [emitList]; fix_walk))

theorem pb_none   : MB (.none ) := by
  pb_walk

theorem pb_next (n : Node) (ih1 : MB n) : MB (.next n) := by
  pb_walk

theorem pb_list (xs : Nodes) (ih1 : MBL xs) : MB (.list xs) := by
  pb_walk

theorem pb_label (idx : Nat) (hasPs : Bool) (ps : Nodes) (ih1 : MBL ps) : MB (.label idx hasPs ps) := by
  pb_walk

theorem pb_plabel (idx : Nat) (hasPs : Bool) (ps : Nodes) (ih1 : MBL ps) : MB (.plabel idx hasPs ps) := by
  pb_walk

theorem pb_case (kind : Nat) (idx : Nat) (ty : Nat) (hasPs : Bool) (ps : Nodes) (ih1 : MBL ps) : MB (.case kind idx ty hasPs ps) := by
  pb_walk

theorem pb_assign (lhs : Node) (rhs : Node) (ih1 : MB lhs) (ih2 : MB rhs) : MB (.assign lhs rhs) := by
  pb_walk

theorem pb_if (c : Node) (t : Node) (ih1 : MB c) (ih2 : MB t) : MB (.if_ c t) := by
  pb_walk

theorem pb_ifelse (c : Node) (t : Node) (e : Node) (ih1 : MB c) (ih2 : MB t) (ih3 : MB e) : MB (.ifelse c t e) := by
  pb_walk

theorem pb_while (c : Node) (b : Node) (i : Node) (ih1 : MB c) (ih2 : MB b) (ih3 : MB i) : MB (.while_ c b i) := by
  pb_walk

theorem pb_do (b : Node) (c : Node) (ih1 : MB b) (ih2 : MB c) : MB (.do_ b c) := by
  pb_walk

theorem pb_and (a : Node) (b : Node) (ih1 : MB a) (ih2 : MB b) : MB (.and_ a b) := by
  pb_walk

theorem pb_or (a : Node) (b : Node) (ih1 : MB a) (ih2 : MB b) : MB (.or_ a b) := by
  pb_walk

theorem pb_mcmd (ev : Nat) (l : Node) (hasPs : Bool) (ps : Nodes) (ih1 : MB l) (ih2 : MBL ps) : MB (.mcmd ev l hasPs ps) := by
  pb_walk

theorem pb_mcmdx (ev : Nat) (l : Node) (hasPs : Bool) (ps : Nodes) (ih1 : MB l) (ih2 : MBL ps) : MB (.mcmdx ev l hasPs ps) := by
  pb_walk

theorem pb_cmd (ev : Nat) (hasPs : Bool) (ps : Nodes) (ih1 : MBL ps) : MB (.cmd ev hasPs ps) := by
  pb_walk

theorem pb_cmdx (ev : Nat) (hasPs : Bool) (ps : Nodes) (ih1 : MBL ps) : MB (.cmdx ev hasPs ps) := by
  pb_walk

theorem pb_field (idx : Nat) (ev : Nat) (rd : Nat) (wr : Nat) (l : Node) (ih1 : MB l) : MB (.field idx ev rd wr l) := by
  pb_walk

theorem pb_listener (b : Nat)  : MB (.listener b) := by
  pb_walk

theorem pb_str (idx : Nat)  : MB (.str idx) := by
  pb_walk

theorem pb_int (v : Nat)  : MB (.int v) := by
  pb_walk

theorem pb_float (bits : Nat)  : MB (.float bits) := by
  pb_walk

theorem pb_vec (a : Node) (b : Node) (c : Node) (ih1 : MB a) (ih2 : MB b) (ih3 : MB c) : MB (.vec a b c) := by
  pb_walk

theorem pb_nil   : MB (.nil ) := by
  pb_walk

theorem pb_null   : MB (.null ) := by
  pb_walk

theorem pb_f1 (op : Nat) (x : Node) (ih1 : MB x) : MB (.f1 op x) := by
  pb_walk

theorem pb_f2 (op : Nat) (a : Node) (b : Node) (ih1 : MB a) (ih2 : MB b) : MB (.f2 op a b) := by
  pb_walk

theorem pb_not (x : Node) (ih1 : MB x) : MB (.not_ x) := by
  pb_walk

theorem pb_idx (a : Node) (i : Node) (ih1 : MB a) (ih2 : MB i) : MB (.idx a i) := by
  pb_walk

theorem pb_carr (a : Node) (xs : Nodes) (ih1 : MB a) (ih2 : MBL xs) : MB (.carr a xs) := by
  pb_walk

theorem pb_marr (xs : Nodes) (ih1 : MBL xs) : MB (.marr xs) := by
  pb_walk

theorem pb_try (b : Node) (c : Node) (ih1 : MB b) (ih2 : MB c) : MB (.try_ b c) := by
  pb_walk

theorem pb_switch (e : Node) (b : Node) (ih1 : MB e) (ih2 : MB b) : MB (.switch e b) := by
  pb_walk

theorem pb_brk   : MB (.brk ) := by
  pb_walk

theorem pb_cont   : MB (.cont ) := by
  pb_walk

theorem pb_unknown (t : Nat)  : MB (.unknown t) := by
  pb_walk

theorem pb_lnil : MBL .nil := by
  pb_walk

theorem pb_lcons (x : Node) (xs : Nodes) (ih1 : MB x) (ih2 : MBL xs) : MBL (.cons x xs) := by
  pb_walk

theorem pb_all (n : Node) : MB n :=
  Node.rec (motive_1 := MB) (motive_2 := MBL)
    pb_none pb_next pb_list pb_label pb_plabel pb_case pb_assign pb_if pb_ifelse pb_while pb_do pb_and pb_or pb_mcmd pb_mcmdx pb_cmd pb_cmdx pb_field pb_listener pb_str pb_int pb_float pb_vec pb_nil pb_null pb_f1 pb_f2 pb_not pb_idx pb_carr pb_marr pb_try pb_switch pb_brk pb_cont pb_unknown
    pb_lnil pb_lcons n

theorem pb_allL (xs : Nodes) : MBL xs :=
  Nodes.rec (motive_1 := MB) (motive_2 := MBL)
    pb_none pb_next pb_list pb_label pb_plabel pb_case pb_assign pb_if pb_ifelse pb_while pb_do pb_and pb_or pb_mcmd pb_mcmdx pb_cmd pb_cmdx pb_field pb_listener pb_str pb_int pb_float pb_vec pb_nil pb_null pb_f1 pb_f2 pb_not pb_idx pb_carr pb_marr pb_try pb_switch pb_brk pb_cont pb_unknown
    pb_lnil pb_lcons xs


/-! ## whole passes -/

theorem emitRoot_pb (root : Node) (s : St) (h : PB s) : wp (emitRoot root s) PB EB := by
  unfold emitRoot
  wp_simp
  refine wp_mono ((pb_all root).e s h) (fun a ha => ?_) (fun _ h => h)
  refine wp_mono (emitEof_neutral a) (fun b hb => PB_of_same hb ha) (fun _ h => QuietImp.imp _ h)

theorem PB_init_plain (c : Bool) : PB (St.init c) := by
  simp [PB, PBf, frB, St.init]

theorem preallocate_pb (dev : Bool) (i : SizeInfo) : wp (preallocate dev i) PB EB := by
  unfold preallocate
  wp_simp
  have h0 : ∀ (s : St), frB s = ⟨0, 0⟩ → PB s := by
    intro s hs; simp [PB, PBf, hs]
  have hz : ∀ (n : Nat) (s : St), frB s = ⟨0, 0⟩ → wp (s.alloc n) (fun s' => frB s' = ⟨0, 0⟩) EB := by
    intro n s hs
    exact wp_mono (alloc_frB s n) (fun a ha => ha.trans hs) (fun _ h => h)
  repeat' (first
    | (wp_simp; with_reducible refine wp_mono (hz _ _ ?_) (fun _ _ => ?_) (fun _ h => h))
    | (wp_simp; with_reducible refine wp_mono (labelSetResize_frB _ _ _) (fun _ _ => ?_) (fun _ h => h))
    | (wp_simp; with_reducible show PB _; apply h0; first | assumption | (simp [frB, St.init]; done) | (simp only [frB] at *; assumption) | grind [frB])
    | (wp_simp; with_reducible show frB _ = _; first | assumption | (simp [frB, St.init]; done) | (simp only [frB] at *; assumption) | grind [frB])
    | (wp_simp; split))

/-- a whole compile never indexes a fix-up table out of range -/
theorem compile_EB (dev : Bool) (root : Node) : wp (compile dev root) (fun _ => True) EB := by
  unfold compile
  wp_simp
  refine wp_mono (emitRoot_pb root _ (PB_init_plain true)) (fun c _ => ?_) (fun _ h => h)
  wp_simp
  refine wp_mono (preallocate_pb dev _) (fun s hs => ?_) (fun _ h => h)
  wp_simp
  refine wp_mono (emitRoot_pb root s hs) (fun s' _ => ?_) (fun _ h => h)
  wp_simp

end Morfuse.Emit
