import MorfuseModel.Emit.Sim
/-!
# The one step where the two passes may take different branches: reading a plain variable of a listener
(`EmitField`, `LOAD_x_VAR → LOAD_STORE_x_VAR` fusion).  Whatever each pass decides, it accounts for 9 bytes and leaves an
untested opcode on top of its window.
-/
namespace Morfuse.Emit
open Morfuse.Gen.EmitConsts

set_option maxRecDepth 8000

/-- the fields of the coupling that belong to one side -/
structure Side (s s' : St) : Prop where
  cnt : s'.counting = s.counting
  len : s'.progLen = s.progLen
  nb : s'.nBrk = s.nBrk
  nc : s'.nCont = s.nCont
  cb : s'.canBreak = s.canBreak
  cct : s'.canContinue = s.canContinue
  sd : s'.switchDepth = s.switchDepth
  bok : BOk s → BOk s'

theorem Side.refl (s : St) : Side s s := ⟨rfl, rfl, rfl, rfl, rfl, rfl, rfl, fun h => h⟩
theorem Side.trans {a b c : St} (h1 : Side a b) (h2 : Side b c) : Side a c :=
  ⟨h2.cnt.trans h1.cnt, h2.len.trans h1.len, h2.nb.trans h1.nb, h2.nc.trans h1.nc, h2.cb.trans h1.cb,
    h2.cct.trans h1.cct, h2.sd.trans h1.sd, fun h => h2.bok (h1.bok h)⟩

theorem trackStack_fields (s : St) (e : Bool) (o : Int) :
    (s.trackStack e o).prev = s.prev ∧ (s.trackStack e o).prevPos = s.prevPos ∧ (s.trackStack e o).counting = s.counting ∧
    (s.trackStack e o).info = s.info ∧ (s.trackStack e o).progLen = s.progLen ∧ (s.trackStack e o).nBrk = s.nBrk ∧
    (s.trackStack e o).nCont = s.nCont ∧ (s.trackStack e o).canBreak = s.canBreak ∧
    (s.trackStack e o).canContinue = s.canContinue ∧ (s.trackStack e o).switchDepth = s.switchDepth ∧
    (s.trackStack e o).pos = s.pos ∧ (s.trackStack e o).gross = s.gross ∧ (s.trackStack e o).dev = s.dev := by
  cases e <;> simp [St.trackStack]

/-- the state `EmitOpcodeWithStack` writes its opcode byte from -/
def St.pushed (s : St) (e : Bool) (op : Nat) (off : Int) : St := (s.trackStack e off).accumulate op off

theorem pushed_fields (s : St) (hw : WOk s) (e : Bool) (op : Nat) (o : Int) :
    WOk (s.pushed e op o) ∧ (ent (s.pushed e op o) 0).op = op % 256 ∧ (s.pushed e op o).counting = s.counting ∧
    (s.pushed e op o).info = s.info ∧ (s.pushed e op o).progLen = s.progLen ∧ (s.pushed e op o).nBrk = s.nBrk ∧
    (s.pushed e op o).nCont = s.nCont ∧ (s.pushed e op o).canBreak = s.canBreak ∧
    (s.pushed e op o).canContinue = s.canContinue ∧ (s.pushed e op o).switchDepth = s.switchDepth ∧
    (s.pushed e op o).pos = s.pos ∧ (s.pushed e op o).gross = s.gross ∧ (s.pushed e op o).dev = s.dev ∧
    (BOk s → BOk (s.pushed e op o)) := by
  obtain ⟨t1, t2, t3, t4, t5, t6, t7, t8, t9, t10, t11, t12, t13⟩ := trackStack_fields s e o
  have hwt : WOk (s.trackStack e o) := ⟨by rw [t1]; exact hw.size, by rw [t2]; exact hw.pos⟩
  refine ⟨accumulate_ok _ hwt _ _, ?_, t3, t4, t5, t6, t7, t8, t9, t10, t11, t12, t13, ?_⟩
  · unfold St.pushed
    rw [ent_accumulate_zero _ hwt]
  · intro hb
    unfold St.pushed St.trackStack
    cases e <;> exact ⟨hb.rsize, hb.rcur, hb.bsize⟩

theorem emitOp_unfold (s : St) (op : Nat) :
    s.emitOp op = match opStack? (op % 256) with
      | none => .error (.ub .opcodeTable)
      | some off =>
        if (!s.counting && s.dev && decide (s.pos ≥ s.progLen)) = true then .error (.ub .sourceMapIndex)
        else match opExt? (op % 256) with
          | none => .error (.ub .opcodeTable)
          | some e => (s.pushed e (op % 256) off).write [op % 256] := by
  unfold St.emitOp St.emitOpWith St.pushed
  simp only [ok_bind, error_bind, throw_eq, pure_eq, Nat.mod_mod]
  cases hS : opStack? (op % 256) with
  | none => rfl
  | some off =>
    simp only []
    split
    · rfl
    · cases hE : opExt? (op % 256) <;> rfl

/-- `EmitOpcode` in the counting manager -/
theorem emitOp_count {c c1 : St} (hc : c.counting = true) (hw : WOk c) (op : Nat) (hx : c.emitOp op = .ok c1) :
    Side c c1 ∧ pl c1 = pl c + 1 ∧ WOk c1 ∧ (ent c1 0).op = op % 256 := by
  rw [emitOp_unfold] at hx
  cases hS : opStack? (op % 256) with
  | none => rw [hS] at hx; cases hx
  | some off =>
    rw [hS] at hx
    simp only [hc, Bool.not_true, Bool.false_and, Bool.false_eq_true, ↓reduceIte] at hx
    cases hE : opExt? (op % 256) with
    | none => rw [hE] at hx; cases hx
    | some e =>
      rw [hE] at hx
      simp only [] at hx
      obtain ⟨q1, q2, q3, q4, q5, q6, q7, q8, q9, q10, q11, q12, q13, q14⟩ := pushed_fields c hw e (op % 256) off
      rw [write_counting _ _ (q3.trans hc)] at hx
      injection hx with hx
      subst hx
      obtain ⟨r1, r2, r3, r4, r5, r6, r7, r8, r9⟩ := ringWrite_fields [op % 256]
        { c.pushed e (op % 256) off with
          info := { (c.pushed e (op % 256) off).info with
            progLength := (c.pushed e (op % 256) off).info.progLength + [op % 256].length } }
      refine ⟨⟨by rw [r4]; exact q3, ?_, by rw [r5]; exact q6, by rw [r6]; exact q7, by rw [r7]; exact q8,
        by rw [r8]; exact q9, by rw [r9]; exact q10,
        fun hb => ringWrite_bok _ _ (by have := q14 hb; exact ⟨this.rsize, this.rcur, this.bsize⟩)⟩, ?_,
        ⟨by rw [r1]; exact q1.size, by rw [r2]; exact q1.pos⟩, ?_⟩
      · have : ∀ (bs : List Nat) (t : St), (t.ringWrite bs).progLen = t.progLen := by
          intro bs; induction bs with
          | nil => intro t; rfl
          | cons b bs ih => intro t; unfold St.ringWrite; rw [ih]
        rw [this]; exact q5
      · have hri : ∀ t : St, (t.ringWrite [op % 256]).info = t.info := fun t => (ringWrite_fields _ t).2.2.1
        simp only [pl]; rw [hri]; simp [q4]
      · have he : ∀ t : St, ent (t.ringWrite [op % 256]) 0 = ent t 0 := fun t => by
          simp only [ent, (ringWrite_fields _ t).1, (ringWrite_fields _ t).2.1]
        rw [he]
        show (ent (c.pushed e (op % 256) off) 0).op = op % 256
        rw [q2, Nat.mod_mod]

/-- `EmitOpcode` in the program manager, when one more byte fits -/
theorem emitOp_prog {p : St} (hp : p.counting = false) (hw : WOk p) (op : Nat) (hfit : p.pos + 1 ≤ p.progLen) :
    wp (p.emitOp op) (fun p1 => Side p p1 ∧ p1.gross = p.gross + 1 ∧ p1.pos = p.pos + 1 ∧ WOk p1 ∧ (ent p1 0).op = op % 256)
      ECO := by
  rw [emitOp_unfold]
  cases hS : opStack? (op % 256) with
  | none => simp [ECO]
  | some off =>
    simp only []
    split
    · simp [ECO]
    · cases hE : opExt? (op % 256) with
      | none => simp [ECO]
      | some e =>
        simp only []
        obtain ⟨q1, q2, q3, q4, q5, q6, q7, q8, q9, q10, q11, q12, q13, q14⟩ := pushed_fields p hw e (op % 256) off
        rw [write_program _ _ (q3.trans hp), if_neg (by simp [q11, q5]; omega), wp_ok]
        refine ⟨⟨q3, q5, q6, q7, q8, q9, q10,
          fun hb => by have := q14 hb; exact ⟨this.rsize, this.rcur, by simp only [foldSet_size]; exact this.bsize⟩⟩,
          by simp [q12], by simp [q11], ⟨q1.size, q1.pos⟩, ?_⟩
        show (ent (p.pushed e (op % 256) off) 0).op = op % 256
        rw [q2, Nat.mod_mod]

theorem opLen_loadvar (b : Nat) (hb : b ≤ 6) : opLen? (OP_LOAD_GAME_VAR + b) = some 9 := by
  have : b = 0 ∨ b = 1 ∨ b = 2 ∨ b = 3 ∨ b = 4 ∨ b = 5 ∨ b = 6 := by omega
  rcases this with h | h | h | h | h | h | h <;> subst h <;> decide

/-- `AbsorbPrevOpcode` of a `LOAD_x_VAR` in the counting manager -/
theorem absorb_count {c c1 : St} (hc : c.counting = true) (hw : WOk c) (hx : c.absorb = .ok c1) :
    Side c c1 ∧ pl c1 = pl c ∧ WOk c1 := by
  unfold St.absorb at hx
  rw [prevOp_eq c hw] at hx
  simp only [ok_bind] at hx
  cases hl : opLen? (ent c 0).op with
  | none => rw [hl] at hx; cases hx
  | some len =>
    rw [hl] at hx
    simp only [ok_bind] at hx
    unfold St.moveBack at hx
    rw [if_pos hc] at hx
    simp only [ok_bind] at hx
    injection hx with hx
    subst hx
    exact ⟨⟨rfl, rfl, rfl, rfl, rfl, rfl, rfl, fun hb => ⟨hb.rsize, by simp only [ringSize_eq]; omega, hb.bsize⟩⟩, rfl,
      ⟨hw.size, by simp only; split <;> have := hw.pos <;> omega⟩⟩

/-- `AbsorbPrevOpcode` of a `LOAD_x_VAR` in the program manager -/
theorem absorb_prog {p : St} (hp : p.counting = false) (hw : WOk p) (b : Nat) (hb : b ≤ 6)
    (htop : (ent p 0).op = OP_LOAD_GAME_VAR + b) :
    wp p.absorb (fun p1 => Side p p1 ∧ p1.gross = p.gross ∧ p1.pos + 9 = p.pos ∧ WOk p1) ECO := by
  unfold St.absorb
  rw [prevOp_eq p hw]
  simp only [ok_bind, htop, opLen_loadvar b hb]
  unfold St.moveBack
  rw [if_neg (by simp [hp])]
  split
  · simp [ECO]
  · rename_i hk
    simp only [] at hk
    rw [ok_bind, wp_ok]
    exact ⟨⟨rfl, rfl, rfl, rfl, rfl, rfl, rfl, fun hb => ⟨hb.rsize, hb.rcur, hb.bsize⟩⟩, rfl, by simp only; omega,
      ⟨hw.size, by simp only; split <;> have := hw.pos <;> omega⟩⟩

theorem untested_storevar (b : Nat) (hb : b ≤ 6) :
    tested ((OP_STORE_GAME_VAR + b) % 256) = false ∧ tested ((OP_LOAD_STORE_GAME_VAR + b) % 256) = false := by
  have : b = 0 ∨ b = 1 ∨ b = 2 ∨ b = 3 ∨ b = 4 ∨ b = 5 ∨ b = 6 := by omega
  rcases this with h | h | h | h | h | h | h <;> subst h <;> decide

/-- reading a plain variable of a listener (the tail of `EmitField`): the only place where the two passes can take
different branches -/
def gameVarBlock (s : St) (b index prevIndex ev : Nat) : R St := do
  let p ← s.prevOp
  if p.op ≠ OP_LOAD_GAME_VAR + b ∨ prevIndex ≠ index then
    let s ← s.emitOp (OP_STORE_GAME_VAR + b)
    s.write (le 4 index ++ le 4 ev)
  else
    let s ← s.absorb
    let s ← s.emitOp (OP_LOAD_STORE_GAME_VAR + b)
    .ok (s.moveFwd 8)

/-- whichever branch the counting manager takes: 9 bytes, an untested opcode on top -/
theorem gameVar_count {c c' : St} (hc : c.counting = true) (hw : WOk c) (b i pi ev : Nat) (hb : b ≤ 6)
    (hx : gameVarBlock c b i pi ev = .ok c') :
    Side c c' ∧ pl c' = pl c + 9 ∧ WOk c' ∧ tested (ent c' 0).op = false := by
  unfold gameVarBlock at hx
  rw [prevOp_eq c hw] at hx
  simp only [ok_bind] at hx
  obtain ⟨hu1, hu2⟩ := untested_storevar b hb
  split at hx
  · cases h1 : c.emitOp (OP_STORE_GAME_VAR + b) with
    | error e => rw [h1] at hx; cases hx
    | ok c1 =>
      rw [h1] at hx
      simp only [ok_bind] at hx
      obtain ⟨s1, p1, w1, t1⟩ := emitOp_count hc hw _ h1
      rw [write_counting _ _ (s1.cnt.trans hc)] at hx
      injection hx with hx
      subst hx
      obtain ⟨r1, r2, r3, r4, r5, r6, r7, r8, r9⟩ := ringWrite_fields (le 4 i ++ le 4 ev)
        { c1 with info := { c1.info with progLength := c1.info.progLength + (le 4 i ++ le 4 ev).length } }
      have hlen : ∀ (bs : List Nat) (t : St), (t.ringWrite bs).progLen = t.progLen := by
        intro bs; induction bs with
        | nil => intro t; rfl
        | cons x bs ih => intro t; unfold St.ringWrite; rw [ih]
      refine ⟨⟨by rw [r4]; exact s1.cnt, by rw [hlen]; exact s1.len, by rw [r5]; exact s1.nb, by rw [r6]; exact s1.nc,
        by rw [r7]; exact s1.cb, by rw [r8]; exact s1.cct, by rw [r9]; exact s1.sd,
        fun hb => ringWrite_bok _ _ (by have := s1.bok hb; exact ⟨this.rsize, this.rcur, this.bsize⟩)⟩, ?_,
        ⟨by rw [r1]; exact w1.size, by rw [r2]; exact w1.pos⟩, ?_⟩
      · have hri : ∀ t : St, (t.ringWrite (le 4 i ++ le 4 ev)).info = t.info := fun t => (ringWrite_fields _ t).2.2.1
        simp only [pl] at p1 ⊢; rw [hri]; simp; omega
      · have he : ∀ t : St, ent (t.ringWrite (le 4 i ++ le 4 ev)) 0 = ent t 0 := fun t => by
          simp only [ent, (ringWrite_fields _ t).1, (ringWrite_fields _ t).2.1]
        rw [he]
        show tested (ent c1 0).op = false
        rw [t1]; exact hu1
  · cases h1 : c.absorb with
    | error e => rw [h1] at hx; cases hx
    | ok c1 =>
      rw [h1] at hx
      simp only [ok_bind] at hx
      obtain ⟨s1, p1, w1⟩ := absorb_count hc hw h1
      cases h2 : c1.emitOp (OP_LOAD_STORE_GAME_VAR + b) with
      | error e => rw [h2] at hx; cases hx
      | ok c2 =>
        rw [h2] at hx
        simp only [ok_bind] at hx
        obtain ⟨s2, p2, w2, t2⟩ := emitOp_count (s1.cnt.trans hc) w1 _ h2
        injection hx with hx
        subst hx
        have hcc : c2.counting = true := (s2.cnt.trans s1.cnt).trans hc
        unfold St.moveFwd
        rw [if_pos hcc]
        refine ⟨(s1.trans s2).trans ⟨rfl, rfl, rfl, rfl, rfl, rfl, rfl, fun hb => ⟨hb.rsize, by simp only [ringSize_eq]; omega, hb.bsize⟩⟩,
          ?_, ⟨w2.size, w2.pos⟩, ?_⟩
        · simp only [pl] at p1 p2 ⊢; omega
        · show tested (ent c2 0).op = false
          rw [t2]; exact hu2

/-- whichever branch the program manager takes, when 9 more bytes fit -/
theorem gameVar_prog {p : St} (hp : p.counting = false) (hw : WOk p) (b i pi ev : Nat) (hb : b ≤ 6)
    (hfit : p.pos + 9 ≤ p.progLen) :
    wp (gameVarBlock p b i pi ev) (fun p' => Side p p' ∧ p'.gross = p.gross + 9 ∧ p'.pos ≤ p.pos + 9 ∧ WOk p' ∧
      tested (ent p' 0).op = false) ECO := by
  unfold gameVarBlock
  rw [prevOp_eq p hw]
  simp only [ok_bind]
  obtain ⟨hu1, hu2⟩ := untested_storevar b hb
  split
  · rw [wp_bind]
    refine wp_mono (emitOp_prog hp hw _ (by omega)) ?_ (fun _ h => h)
    intro p1 ⟨s1, g1, q1, w1, t1⟩
    rw [write_program _ _ (s1.cnt.trans hp), if_neg (by simp [s1.len]; omega), wp_ok]
    refine ⟨⟨s1.cnt, s1.len, s1.nb, s1.nc, s1.cb, s1.cct, s1.sd,
      fun hb => by have := s1.bok hb; exact ⟨this.rsize, this.rcur, by simp only [foldSet_size]; exact this.bsize⟩⟩,
      by simp [g1], by simp [q1], ⟨w1.size, w1.pos⟩, ?_⟩
    simp only [ent] at t1 ⊢
    rw [t1]; exact hu1
  · rename_i hcond
    have htop : (ent p 0).op = OP_LOAD_GAME_VAR + b := by
      by_cases h : (ent p 0).op = OP_LOAD_GAME_VAR + b
      · exact h
      · exact absurd (Or.inl h) hcond
    rw [wp_bind]
    refine wp_mono (absorb_prog hp hw b hb htop) ?_ (fun _ h => h)
    intro p1 ⟨s1, g1, q1, w1⟩
    rw [wp_bind]
    refine wp_mono (emitOp_prog (s1.cnt.trans hp) w1 _ (by rw [s1.len]; omega)) ?_ (fun _ h => h)
    intro p2 ⟨s2, g2, q2, w2, t2⟩
    have hpc : p2.counting = false := (s2.cnt.trans s1.cnt).trans hp
    rw [wp_ok]
    unfold St.moveFwd
    rw [if_neg (by simp [hpc])]
    refine ⟨(s1.trans s2).trans ⟨rfl, rfl, rfl, rfl, rfl, rfl, rfl, fun hb => ⟨hb.rsize, hb.rcur, hb.bsize⟩⟩,
      by simp only; omega, by simp only; omega, ⟨w2.size, w2.pos⟩, ?_⟩
    simp only [ent] at t2 ⊢
    rw [t2]; exact hu2

/-- the lock-step step through the fusion site -/
theorem J_gameVar {L : Nat} {c p : St} (h : Rel L c p) (b i1 pi1 i2 pi2 ev : Nat) (hb : b ≤ 6) :
    J L (gameVarBlock c b i1 pi1 ev) (gameVarBlock p b i2 pi2 ev) (Rel L) := by
  intro c' hx hL
  obtain ⟨sc, pc, wc, tc⟩ := gameVar_count h.cc h.w.vc b i1 pi1 ev hb hx
  have hg := h.gross; have hpos := h.pos; have hlen := h.len
  refine wp_mono (gameVar_prog h.pc h.w.vp b i2 pi2 ev hb (by omega)) ?_ (fun _ h => h)
  intro p' ⟨sp, gp, qp, wp', tp⟩
  exact ⟨sc.cnt.trans h.cc, sp.cnt.trans h.pc, W.of_untested wc wp' (sc.bok h.w.bc) (sp.bok h.w.bp) tc tp, by omega, by omega, sp.len.trans h.len,
    (sc.nb.trans h.nb).trans sp.nb.symm, (sc.nc.trans h.nc).trans sp.nc.symm, (sc.cb.trans h.cb).trans sp.cb.symm,
    (sc.cct.trans h.cct).trans sp.cct.symm, (sc.sd.trans h.sd).trans sp.sd.symm⟩

end Morfuse.Emit
