import MorfuseModel.Emit.Model
/-!
# `ScriptMaster::GetProgramScript(name, stream, recompile)` / `GetProgramScriptInternal` / `ProgramScript::Load`

The registry `m_ProgramScripts` maps a script name (its dictionary index) to a `ProgramScript`.  The entry
is inserted *before* `Load` runs; `Load` sets `successCompile` only after parsing and compiling went
through, and on any exception closes the script and rethrows, so that the entry stays behind with
`successCompile = false`.
-/
namespace Morfuse.Emit

/-- a source text as far as `Load` is concerned: the parser rejects it, or yields a tree -/
abbrev Source := Option Node

inductive LoadErr where
  | parseError
  | compileError (e : Err)
  /-- `ScriptException("Script '…' was not properly loaded")` -/
  | notLoaded
  deriving Repr, DecidableEq

structure Script where
  successCompile : Bool
  /-- what `Compile` produced (meaningful when `successCompile`) -/
  prog : Option Compiled

structure Master where
  /-- `m_ProgramScripts`, newest first; at most one entry per name -/
  scripts : List (Nat × Script) := []
  /-- developer mode of the context -/
  dev : Bool := false

def Master.find (m : Master) (name : Nat) : Option Script :=
  (m.scripts.find? (·.1 == name)).map (·.2)

def Master.erase (m : Master) (name : Nat) : Master :=
  { m with scripts := m.scripts.filter (fun e => !(e.1 == name)) }

def Master.put (m : Master) (name : Nat) (sc : Script) : Master :=
  { m with scripts := (name, sc) :: (m.erase name).scripts }

/-- `ProgramScript::Load` on a fresh script: the script afterwards, and what leaves the function -/
def load (dev : Bool) (src : Source) : Script × Except LoadErr Unit :=
  match src with
  | none => (⟨false, none⟩, .error .parseError)
  | some root =>
    match compile dev root with
    | .ok c => (⟨true, some c⟩, .ok ())
    | .error e => (⟨false, none⟩, .error (.compileError e))

/-- `GetProgramScript(name, stream, recompile)`: the registry afterwards, and the script handed out or the exception -/
def Master.get (m : Master) (name : Nat) (src : Source) (recompile : Bool) : Master × Except LoadErr Script :=
  match m.find name, recompile with
  | some sc, false =>
    if !sc.successCompile then (m, .error .notLoaded) else (m, .ok sc)
  | found, _ =>
    -- `DeleteProgramScript` when recompiling, then `GetProgramScriptInternal`
    let m := if found.isSome then m.erase name else m
    -- the entry is registered first (with `successCompile = false`), then `Load` runs
    let (sc, r) := load m.dev src
    let m := m.put name sc
    match r with
    | .ok () => (m, .ok sc)
    | .error e => (m, .error e)

end Morfuse.Emit
