import MorfuseModel.Emit.Master
namespace Morfuse.Emit

theorem find_filter_self (l : List (Nat × Script)) (n : Nat) :
    (l.filter (fun e => !(e.1 == n))).find? (·.1 == n) = none := by
  induction l with
  | nil => rfl
  | cons a t ih =>
    simp only [List.filter_cons]
    split
    · rename_i h
      have : (a.1 == n) = false := by simpa using h
      simp only [List.find?_cons, this, ih]
    · exact ih

theorem find_filter_other (l : List (Nat × Script)) (n k : Nat) (hk : k ≠ n) :
    (l.filter (fun e => !(e.1 == n))).find? (·.1 == k) = l.find? (·.1 == k) := by
  induction l with
  | nil => rfl
  | cons a t ih =>
    simp only [List.filter_cons]
    split
    · simp only [List.find?_cons, ih]
    · rename_i h
      have h1 : a.1 = n := by simpa using h
      have : (a.1 == k) = false := by
        simp only [beq_eq_false_iff_ne, ne_eq]; omega
      simp only [List.find?_cons, this, ih]

theorem Master.find_erase_self (m : Master) (n : Nat) : (m.erase n).find n = none := by
  simp [Master.find, Master.erase, find_filter_self]

theorem Master.find_erase_other (m : Master) (n k : Nat) (hk : k ≠ n) : (m.erase n).find k = m.find k := by
  simp [Master.find, Master.erase, find_filter_other _ _ _ hk]

theorem Master.find_put_self (m : Master) (n : Nat) (sc : Script) : (m.put n sc).find n = some sc := by
  simp [Master.find, Master.put, List.find?_cons]

theorem Master.find_put_other (m : Master) (n k : Nat) (sc : Script) (hk : k ≠ n) : (m.put n sc).find k = m.find k := by
  have h : ¬ n = k := by omega
  simp [Master.find, Master.put, List.find?_cons, h, Master.erase, find_filter_other _ _ _ hk]

theorem Master.put_dev (m : Master) (n : Nat) (sc : Script) : (m.put n sc).dev = m.dev := rfl
theorem Master.erase_dev (m : Master) (n : Nat) : (m.erase n).dev = m.dev := rfl

end Morfuse.Emit
