import MorfuseModel.Gen.EmitConsts
/-!
# `Emit` — the compiler proper (`ScriptEmitter` with both managers), C01

Transcribed from `src/Script/Compiler.cpp` / `Compiler.h`, `ProgramScript.cpp` (`Load`, the state-script
containers), `StateScript.cpp`, `set.h` (`resize`, `increment`, `rehash`, `countEntryBytes`),
`Container.h` (`Resize`, `AddObjectUninitialized`), `PreAllocator.cpp`, `ScriptMaster.cpp`
(`GetProgramScript`, `GetProgramScriptInternal`).

One state record `St` holds the `ScriptEmitter` members and the members of *both* managers; `counting`
says which manager the emitter talks to (`ScriptCountManager` or `ScriptProgramManager`), and every
manager operation below is defined by cases on it.  The emitter is a structurally recursive function over
the parse tree as dumped by `harness/compile.cpp` (one constructor per `statementType_e` the emitter
handles; name look-ups — event numbers, dictionary indices, getter/setter classification — are part of
the tree: the harness resolves them with the functions the emitter calls).

What the C++ can do that has no defined meaning is an explicit `Err.ub` outcome: writing past the code
buffer (the bound is an `assert`, absent under `NDEBUG`), moving the code pointer before the buffer,
a fix-up outside the buffer, `PreAllocator::Alloc` past the arena, indexing the break / continue /
previous-opcode tables or `OpcodeInfo[]` out of range, a source-map write outside the map.
-/
namespace Morfuse.Emit
open Morfuse.Gen.EmitConsts

/-! ## parse tree -/

mutual
inductive Node where
  | none
  | next (n : Node)
  | list (xs : Nodes)
  /-- `Labeled`: dictionary index of the name, parameter list (`hasPs = false`: null pointer) -/
  | label (idx : Nat) (hasPs : Bool) (ps : Nodes)
  | plabel (idx : Nat) (hasPs : Bool) (ps : Nodes)
  /-- `IntLabeled`: `kind` 1 integer, 2 string, 3 negated (`Func1Expr`/`OP_UN_MINUS`), 0 anything else
      (`ty` = its node type); `idx` = dictionary index of the name the emitter derives -/
  | case (kind idx ty : Nat) (hasPs : Bool) (ps : Nodes)
  | assign (lhs rhs : Node)
  | if_ (c t : Node)
  | ifelse (c t e : Node)
  | while_ (c b i : Node)
  | do_ (b c : Node)
  | and_ (a b : Node)
  | or_ (a b : Node)
  /-- `MethodEvent`: `ev` = `FindNormalEventNum(name)` -/
  | mcmd (ev : Nat) (l : Node) (hasPs : Bool) (ps : Nodes)
  | mcmdx (ev : Nat) (l : Node) (hasPs : Bool) (ps : Nodes)
  | cmd (ev : Nat) (hasPs : Bool) (ps : Nodes)
  | cmdx (ev : Nat) (hasPs : Bool) (ps : Nodes)
  /-- `Field`: dictionary index and event-name index of the field name; `rd` / `wr` = what
      `getterNum && BuiltinReadVariable(..)` / `setterNum && BuiltinWriteVariable(..)` do for the listener
      byte of `l` (0 false, 1 true, 2 throws); meaningful only when `l` is a `listener` -/
  | field (idx ev rd wr : Nat) (l : Node)
  | listener (b : Nat)
  | str (idx : Nat)
  | int (v : Nat)
  | float (bits : Nat)
  | vec (a b c : Node)
  | nil
  | null
  | f1 (op : Nat) (x : Node)
  | f2 (op : Nat) (a b : Node)
  | not_ (x : Node)
  | idx (a i : Node)
  | carr (a : Node) (xs : Nodes)
  | marr (xs : Nodes)
  | try_ (b c : Node)
  | switch (e b : Node)
  | brk
  | cont
  | unknown (t : Nat)
inductive Nodes where
  | nil
  | cons (x : Node) (xs : Nodes)
end

def Nodes.length : Nodes → Nat
  | .nil => 0
  | .cons _ xs => xs.length + 1

/-! ## outcomes -/

inductive Ub where
  | codeOverflow      -- `WriteOpcodeValue` past `prog_end_ptr` (hook H3 kind 1)
  | codeUnderflow     -- `MoveCodeBack` before `prog_ptr`
  | fixupOutside      -- `SetValueAtCodePosition` outside the buffer
  | arenaOverflow     -- `PreAllocator::Alloc` past `endBlock` (hook H3 kind 0)
  | breakIndex        -- `apucBreakJumpLocations[i]`, `i ≥ BREAK_JUMP_LOCATION_COUNT`
  | continueIndex
  | windowIndex       -- `prev_opcodes[i]`, `i ≥ MAX_PREV_OPCODES`
  | opcodeTable       -- `OpcodeInfo[op]`, `op ≥` number of rows
  | sourceMapIndex    -- `m_ProgToSource[pos]`, `pos ≥ progLength`
  deriving Repr, DecidableEq

inductive Err where
  | illegalBreak | illegalContinue | breakOverflow | continueOverflow
  | unknownCommand | unknownCommandRet
  | badLValue | badCase | badParam
  | writeOnly | readOnly | notAllowed
  | duplicateLabel | unknownNode | tooManyParameters
  | ub (u : Ub)
  deriving Repr, DecidableEq

abbrev R (α : Type) := Except Err α

/-! ## small pieces -/

/-- little-endian bytes of `n`, `k` of them -/
def le : Nat → Nat → List Nat
  | 0, _ => []
  | k + 1, n => (n % 256) :: le k (n / 256)

/-- value of little-endian bytes -/
def unle : List Nat → Nat
  | [] => 0
  | b :: bs => b + 256 * unle bs

/-- `int8_t` conversion of `opcode_info_t::VarStackOffset` -/
def toInt8 (i : Int) : Int := (i + 128) % 256 - 128

/-- conversion to `int16_t` (`m_iVarStackOffset` and the two maxima are 16-bit members; `+=` computes in `int`
    and narrows) -/
def toInt16 (i : Int) : Int := (i + 32768) % 65536 - 32768

structure PrevOp where
  op : Nat
  off : Int
  deriving Repr, DecidableEq, Inhabited

/-- fixed-size table (`T x[N]`): reads and writes outside are the caller's business (it checks the index
    against the C++ bound and reports `ub`) -/
structure Tbl (α : Type) where
  data : Array α

def Tbl.mk' {α} (n : Nat) (v : α) : Tbl α := ⟨Array.replicate n v⟩
def Tbl.size {α} (t : Tbl α) : Nat := t.data.size
def Tbl.get {α} [Inhabited α] (t : Tbl α) (i : Nat) : α := t.data.getD i default
def Tbl.set {α} (t : Tbl α) (i : Nat) (v : α) : Tbl α := ⟨t.data.setIfInBounds i v⟩

def opLen? (op : Nat) : Option Nat := opLenTbl[op]?
def opStack? (op : Nat) : Option Int := opStackTbl[op]?
def opExt? (op : Nat) : Option Bool := opExtTbl[op]?

/-- `sizeInfo_t` (the fields the counting manager maintains) -/
structure SizeInfo where
  progLength : Nat := 0
  numLabels : Nat := 0
  numCaseLabels : Nat := 0
  numStrings : Nat := 0
  numCatches : Nat := 0
  numSwitches : Nat := 0
  deriving Repr, DecidableEq

/-- `con::set<const_str, script_label_t, .., ChildPreAllocator_set>` as far as membership and allocation go -/
structure LabelSet where
  tableLength : Nat := 1
  threshold : Nat := 1
  count : Nat := 0
  /-- key (dictionary index), code offset, private; newest first -/
  entries : List (Nat × Nat × Bool) := []
  deriving Repr, DecidableEq

structure CatchBlk where
  tryStart : Nat
  tryEnd : Nat
  set : LabelSet
  deriving Repr, DecidableEq

/-- which label set `ScriptEmitter::stateScript` points to -/
inductive SetRef where
  | main
  | sw (k : Nat)
  | ca (k : Nat)
  deriving Repr, DecidableEq

/-- `con::Container<T, ChildPreAllocator>` as far as allocation goes (`objlist` null ⇔ `cap = none`) -/
structure Cont where
  cap : Option Nat := none
  num : Nat := 0
  deriving Repr, DecidableEq

structure St where
  /-- `manager.IsCounting()` -/
  counting : Bool
  /-- developer mode: the script has a source map (`m_ProgToSource`) -/
  dev : Bool := false
  -- ScriptEmitter
  prev : Tbl PrevOp
  prevPos : Nat := 0
  varStack : Int := 0
  maxInt : Int := 0
  maxExt : Int := 0
  brk : Tbl Nat
  cont : Tbl Nat
  nBrk : Nat := 0
  nCont : Nat := 0
  canBreak : Bool := false
  canContinue : Bool := false
  switchDepth : Nat := 0
  cur : SetRef := .main
  /-- the label set `stateScript` points to, by value: it is written back to its place (`mainSet`, its slot of
      `switches` / `catches`) when the emitter leaves it (`St.leave`, end of `compile`); a set is modified only
      while it is the current one, so the C++'s pointer and this copy cannot be told apart -/
  curSet : LabelSet := {}
  -- ScriptCountManager
  info : SizeInfo := {}
  ring : Tbl Nat
  ringCur : Nat := 0
  -- ScriptProgramManager, and the ProgramScript it fills
  buf : Tbl Nat
  pos : Nat := 0
  progLen : Nat := 0
  mainSet : LabelSet := {}
  switches : Array LabelSet := #[]
  catches : Array CatchBlk := #[]
  swCont : Cont := {}
  caCont : Cont := {}
  arenaUsed : Nat := 0
  arenaSize : Nat := 0
  -- ghost (never read by a decision): everything written or skipped forward, ignoring moves back
  gross : Nat := 0
  /-- ghost: bytes written since the code cursor last moved other than by writing -/
  fresh : Nat := 0

/-- `ScriptEmitter::Reset` (+ a fresh `ScriptCountManager`) -/
def St.init (counting : Bool) : St :=
  { counting := counting
    prev := Tbl.mk' prevMax ⟨255, 0⟩
    brk := Tbl.mk' breakMax 0
    cont := Tbl.mk' continueMax 0
    ring := Tbl.mk' ringSize 0
    buf := Tbl.mk' 0 0 }

/-! ## `PreAllocator`, `con::set`, `con::Container` -/

/-- `PreAllocator::Alloc` -/
def St.alloc (s : St) (n : Nat) : R St :=
  if s.arenaUsed + n > s.arenaSize then .error (.ub .arenaOverflow)
  else .ok { s with arenaUsed := s.arenaUsed + n }

/-- `set::resize(count)`: one table from the arena (`FreeTable` is a no-op for this allocator) -/
def LabelSet.resize (ls : LabelSet) (n : Nat) (s : St) : R (LabelSet × St) :=
  if n ≤ 1 then .ok (ls, s)
  else do
    let s ← s.alloc (szPtr * n)
    .ok ({ ls with tableLength := n, threshold := n }, s)

/-- first prime of `set_primes` above the table length (`0`, the filler, if there is none) -/
def nextPrime (len : Nat) : Nat :=
  go setPrimes
where
  go : List Nat → Nat
    | [] => 0
    | p :: ps => if p > len then p else match ps with | [] => p | _ => go ps

/-- `StateScript::AddLabel`: `findKeyValue`, else `addKeyValue` (`increment` with `rehash`, `NewEntry`) -/
def LabelSet.add (ls : LabelSet) (key off : Nat) (priv : Bool) (s : St) : R (Option LabelSet × St) :=
  if ls.entries.any (fun e => e.1 == key) then .ok (none, s)
  else do
    let (ls, s) ← if ls.count ≥ ls.threshold then ls.resize (nextPrime ls.tableLength) s else .ok (ls, s)
    let s ← s.alloc szEntry
    .ok (some { ls with count := ls.count + 1, entries := (key, off, priv) :: ls.entries }, s)

/-- `Container::AddObjectUninitialized` -/
def Cont.add (c : Cont) (sz : Nat) (s : St) : R (Cont × St) := do
  let (c, s) ← match c.cap with
    | none => do let s ← s.alloc (sz * 10); .ok ({ c with cap := some 10 }, s)
    | some _ => .ok (c, s)
  let (c, s) ← if c.num ≥ c.cap.getD 0 then do
      let n := max (c.num * 2) c.num
      if n = 0 then .ok ({ c with cap := none }, s)     -- Resize(0) frees the list; unreachable (cap ≥ 10 here or reserved > 0)
      else do let s ← s.alloc (sz * n); .ok ({ c with cap := some n }, s)
    else .ok (c, s)
  .ok ({ c with num := c.num + 1 }, s)

/-! ## manager operations -/

def St.ringWrite (s : St) : List Nat → St
  | [] => s
  | b :: bs => St.ringWrite { s with ring := s.ring.set s.ringCur b, ringCur := (s.ringCur + 1) % ringSize } bs

/-- `WriteOpcodeValue` -/
def St.write (s : St) (bs : List Nat) : R St :=
  if s.counting then
    let s := { s with info := { s.info with progLength := s.info.progLength + bs.length } }
    .ok (s.ringWrite bs)
  else if s.pos + bs.length > s.progLen then .error (.ub .codeOverflow)
  else
    let buf := (bs.foldl (fun (acc : Tbl Nat × Nat) b => (acc.1.set acc.2 b, acc.2 + 1)) (s.buf, s.pos)).1
    .ok { s with buf := buf, pos := s.pos + bs.length, gross := s.gross + bs.length, fresh := s.fresh + bs.length }

/-- `MoveCodeBack` -/
def St.moveBack (s : St) (k : Nat) : R St :=
  if s.counting then
    .ok { s with ringCur := (s.ringCur + ringSize - k % ringSize) % ringSize }
  else if k > s.pos then .error (.ub .codeUnderflow)
  else .ok { s with pos := s.pos - k, fresh := 0 }

/-- `MoveCodeForward` (the value returned by the C++, the old position, is `s.pos` before the call) -/
def St.moveFwd (s : St) (k : Nat) : St :=
  if s.counting then
    { s with info := { s.info with progLength := s.info.progLength + k }, ringCur := (s.ringCur + k) % ringSize }
  else { s with pos := s.pos + k, gross := s.gross + k, fresh := 0 }

/-- `SetValueAtCodePosition(pos, &offset, 4)` -/
def St.setAt (s : St) (p : Nat) (bs : List Nat) : R St :=
  if s.counting then .ok s
  else if p + bs.length > s.progLen then .error (.ub .fixupOutside)
  else .ok { s with buf := (bs.foldl (fun (acc : Tbl Nat × Nat) b => (acc.1.set acc.2 b, acc.2 + 1)) (s.buf, p)).1 }

/-- `GetValueAt(backOffset, .., size)` -/
def St.readBack (s : St) (back size : Nat) : List Nat :=
  if s.counting then
    let start := (s.ringCur + ringSize - back % ringSize) % ringSize
    (List.range size).map fun i => s.ring.get ((start + i) % ringSize)
  else if s.pos ≥ back then (List.range size).map fun i => s.buf.get (s.pos - back + i)
  else List.replicate size 0

/-- `AddString`: the counting manager hands out its running counter -/
def St.addString (s : St) (idx : Nat) : Nat × St :=
  if s.counting then
    let n := s.info.numStrings + 1
    (n % 4294967296, { s with info := { s.info with numStrings := n } })
  else (idx, s)

/-- `AddLabel` / `AddCaseLabel`; `false` = duplicate -/
def St.addLabel (s : St) (idx : Nat) (priv caseLabel : Bool) : R (Bool × St) :=
  if s.counting then
    let i := s.info
    let i := { i with numStrings := i.numStrings + 1 }
    let i := if caseLabel then { i with numCaseLabels := i.numCaseLabels + 1 } else { i with numLabels := i.numLabels + 1 }
    .ok (true, { s with info := i })
  else do
    let (r, s) ← s.curSet.add idx s.pos priv s
    match r with
    | none => .ok (false, s)
    | some ls => .ok (true, { s with curSet := ls })

/-- `CreateSwitchStateScript(labelCount)` -/
def St.createSwitch (s : St) (labelCount : Nat) : R (Option SetRef × St) :=
  if s.counting then .ok (none, { s with info := { s.info with numSwitches := s.info.numSwitches + 1 } })
  else do
    let (c, s) ← s.swCont.add szStateScript s
    let (ls, s) ← ({} : LabelSet).resize labelCount s
    .ok (some (.sw s.switches.size), { s with swCont := c, switches := s.switches.push ls })

/-- `CreateCatchStateScript(try_begin, code_pos, labelCount)` -/
def St.createCatch (s : St) (tryBegin : Nat) (labelCount : Nat) : R (Option SetRef × St) :=
  if s.counting then .ok (none, { s with info := { s.info with numCatches := s.info.numCatches + 1 } })
  else do
    let (c, s) ← s.caCont.add szCatchBlock s
    let (ls, s) ← ({} : LabelSet).resize labelCount s
    .ok (some (.ca s.catches.size), { s with caCont := c, catches := s.catches.push ⟨tryBegin, s.pos, ls⟩ })

/-- `if (newStateScript) stateScript = newStateScript;` (the counting manager creates none): the new set was
    pushed by `createSwitch` / `createCatch` and becomes the current one -/
def St.enter (s : St) (r : Option SetRef) : St :=
  match r with
  | some (.sw k) => { s with cur := .sw k, curSet := s.switches.getD k {} }
  | some (.ca k) => { s with cur := .ca k, curSet := (s.catches.getD k ⟨0, 0, {}⟩).set }
  | _ => s

/-- the current set goes back to its place -/
def St.storeCur (s : St) : St :=
  match s.cur with
  | .main => { s with mainSet := s.curSet }
  | .sw k => { s with switches := s.switches.setIfInBounds k s.curSet }
  | .ca k => { s with catches := s.catches.setIfInBounds k { s.catches.getD k ⟨0, 0, {}⟩ with set := s.curSet } }

/-- `stateScript = oldStateScript;` -/
def St.leave (s : St) (old : SetRef) (oldSet : LabelSet) : St :=
  if s.counting then s else { s.storeCur with cur := old, curSet := oldSet }

/-! ## the previous-opcode window -/

def St.prevOp (s : St) : R PrevOp :=
  if s.prevPos < prevMax then .ok (s.prev.get s.prevPos) else .error (.ub .windowIndex)

/-- `ClearPrevOpcode` -/
def St.clearPrev (s : St) : R St :=
  if s.prevPos < prevMax then .ok { s with prev := s.prev.set s.prevPos { s.prev.get s.prevPos with op := OP_PREVIOUS } }
  else .error (.ub .windowIndex)

/-- `AccumulatePrevOpcode` -/
def St.accumulate (s : St) (op : Nat) (off : Int) : St :=
  let p := (s.prevPos + 1) % prevMax
  let q := (p + 1) % prevMax
  let prev := s.prev.set p ⟨op % 256, toInt8 off⟩
  { s with prevPos := p, prev := prev.set q { prev.get q with op := OP_PREVIOUS } }

/-- `AbsorbPrevOpcode` (the literal 100 is the C++'s) -/
def St.absorb (s : St) : R St := do
  let p ← s.prevOp
  let len ← match opLen? p.op with | some l => .ok l | none => .error (.ub .opcodeTable)
  let s ← { s with varStack := toInt16 (s.varStack - p.off) }.moveBack len
  let pp := if s.prevPos = 0 then 100 else s.prevPos
  .ok { s with prevPos := pp - 1 }

/-- the stack bookkeeping of `EmitOpcodeWithStack` (`m_iVarStackOffset` and the two maxima) -/
def St.trackStack (s : St) (ext : Bool) (off : Int) : St :=
  let s := if ext then { s with maxExt := if s.varStack > s.maxExt then s.varStack else s.maxExt } else s
  let s := { s with varStack := toInt16 (s.varStack + off) }
  if !ext then { s with maxInt := if s.varStack > s.maxInt then s.varStack else s.maxInt } else s

/-- `EmitOpcodeWithStack` -/
def St.emitOpWith (s : St) (op : Nat) (off : Int) : R St := do
  let op := op % 256
  if !s.counting && s.dev && s.pos ≥ s.progLen then throw (.ub .sourceMapIndex)
  let ext ← match opExt? op with | some e => .ok e | none => .error (.ub .opcodeTable)
  ((s.trackStack ext off).accumulate op off).write [op]

/-- `EmitOpcode` -/
def St.emitOp (s : St) (op : Nat) : R St := do
  let op := op % 256
  let off ← match opStack? op with | some o => .ok o | none => .error (.ub .opcodeTable)
  s.emitOpWith op off

/-- `EmitOpcode` followed by its operand bytes -/
def St.emitOpBytes (s : St) (op : Nat) (bs : List Nat) : R St := do
  let s ← s.emitOp op
  s.write bs

def St.isPrev (s : St) (op : Nat) : R Bool := do
  let p ← s.prevOp
  .ok (p.op == op)

/-- `EmitInteger` -/
def St.emitInteger (s : St) (v : Nat) : R St :=
  if v = 0 then s.emitOp OP_STORE_INT0
  else if v < 256 then s.emitOpBytes OP_STORE_INT1 (le 1 v)
  else if v < 65536 then s.emitOpBytes OP_STORE_INT2 (le 2 v)
  else if v < 16777216 then s.emitOpBytes OP_STORE_INT3 (le 3 v)
  else if v < 4294967296 then s.emitOpBytes OP_STORE_INT4 (le 4 v)
  else s.emitOpBytes OP_STORE_INT8 (le 8 v)

/-- `EmitVarToBool` -/
def St.varToBool (s : St) : R St := do
  let p ← s.prevOp
  if p.op = OP_STORE_INT0 then (← s.absorb).emitOp OP_BOOL_STORE_FALSE
  else if p.op > OP_STORE_INT0 ∧ p.op ≤ OP_STORE_INT8 then (← s.absorb).emitOp OP_BOOL_STORE_TRUE
  else if p.op = OP_BOOL_TO_VAR then s.absorb
  else s.emitOp OP_UN_CAST_BOOLEAN

/-- `EmitBoolNot` -/
def St.boolNot (s : St) : R St := do
  let p ← s.prevOp
  if p.op = OP_BOOL_STORE_TRUE then (← s.absorb).emitOp OP_BOOL_STORE_FALSE
  else if p.op > OP_BOOL_STORE_TRUE ∧ p.op = OP_BOOL_UN_NOT then s.absorb
  else if p.op = OP_BOOL_STORE_FALSE then (← s.absorb).emitOp OP_BOOL_STORE_TRUE
  else s.emitOp OP_BOOL_UN_NOT

/-- `EmitBoolToVar` -/
def St.boolToVar (s : St) : R St := do
  let p ← s.prevOp
  if p.op = OP_UN_CAST_BOOLEAN then (← s.absorb).emitOp OP_UN_CAST_BOOLEAN
  else .ok (s.accumulate OP_BOOL_TO_VAR 0)

/-- `EmitBoolJumpFalse` / `EmitBoolJumpTrue` -/
def St.boolJump (s : St) (onTrue : Bool) : R St := do
  let p ← s.prevOp
  if p.op = OP_UN_CAST_BOOLEAN then (← s.absorb).emitOp (if onTrue then OP_VAR_JUMP_TRUE4 else OP_VAR_JUMP_FALSE4)
  else s.emitOp (if onTrue then OP_BOOL_JUMP_TRUE4 else OP_BOOL_JUMP_FALSE4)

/-- `EmitNot` -/
def St.emitNot (s : St) : R St := do
  let p ← s.prevOp
  if p.op = OP_BOOL_UN_NOT then (← s.absorb).boolJump true
  else s.boolJump false

/-- `AddJumpLocation(pos)` -/
def St.addJumpLocation (s : St) (p : Nat) : R St := do
  let off := (s.pos + 4294967296 - 4 - p) % 4294967296
  let s ← s.setAt p (le 4 off)
  s.clearPrev

/-- `EmitJumpBack(pos)` -/
def St.emitJumpBack (s : St) (p : Nat) : R St := do
  let s ← s.emitOp OP_JUMP_BACK4
  let s ← s.write (le 4 ((s.pos + 4294967296 - p) % 4294967296))
  s.clearPrev

/-- `AddBreakJumpLocation` -/
def St.addBreak (s : St) (p : Nat) : R St :=
  if s.nBrk < breakMax then .ok { s with brk := s.brk.set s.nBrk p, nBrk := s.nBrk + 1 }
  else .error .breakOverflow

/-- `AddContinueJumpLocation` -/
def St.addContinue (s : St) (p : Nat) : R St :=
  if s.nCont < continueMax then .ok { s with cont := s.cont.set s.nCont p, nCont := s.nCont + 1 }
  else .error .continueOverflow

/-- the `do … while` of `ProcessBreakJumpLocations` (`n` = iterations left) -/
def St.processBreakLoop : Nat → St → R St
  | 0, s => .ok s
  | n + 1, s => do
    let k := s.nBrk - 1
    if k ≥ breakMax then throw (.ub .breakIndex)
    let p := s.brk.get k
    let s ← { s with nBrk := k }.setAt p (le 4 ((s.pos + 4294967296 - p - 4) % 4294967296))
    St.processBreakLoop n s

/-- `ProcessBreakJumpLocations(start)` -/
def St.processBreak (s : St) (start : Nat) : R St :=
  if s.nBrk > start then do
    let s ← St.processBreakLoop (s.nBrk - start) s
    s.clearPrev
  else .ok s

def St.processContinueLoop : Nat → St → R St
  | 0, s => .ok s
  | n + 1, s => do
    let k := s.nCont - 1
    if k ≥ continueMax then throw (.ub .continueIndex)
    let p := s.cont.get k
    let s ← { s with nCont := k }.setAt p (le 4 ((s.pos + 4294967296 - 4 - p) % 4294967296))
    St.processContinueLoop n s

/-- `ProcessContinueJumpLocations(start)` -/
def St.processContinue (s : St) (start : Nat) : R St :=
  if s.nCont > start then do
    let s ← St.processContinueLoop (s.nCont - start) s
    s.clearPrev
  else .ok s

/-- `EmitBreak` -/
def St.emitBreak (s : St) : R St :=
  if s.canBreak then do
    let s ← s.emitOp OP_JUMP4
    let p := s.pos
    let s ← (s.moveFwd 4).clearPrev
    s.addBreak p
  else .error .illegalBreak

/-- `EmitContinue` -/
def St.emitContinue (s : St) : R St :=
  if s.canContinue then do
    let s ← s.emitOp OP_JUMP4
    let p := s.pos
    let s ← (s.moveFwd 4).clearPrev
    s.addContinue p
  else .error .illegalContinue

/-- `EmitEof` -/
def St.emitEof (s : St) : R St := do
  let p ← s.prevOp
  if p.op ≠ OP_DONE then s.emitOp OP_DONE else .ok s

/-- `EvalPrevValue`: `some (isFloat, value)` -/
def St.evalPrev (s : St) : R (Option (Bool × Nat)) := do
  let p ← s.prevOp
  if p.op = OP_STORE_INT0 then .ok (some (false, 0))
  else if p.op = OP_STORE_INT1 then .ok (some (false, unle (s.readBack 1 1)))
  else if p.op = OP_STORE_INT2 then .ok (some (false, unle (s.readBack 2 2)))
  else if p.op = OP_STORE_INT3 then .ok (some (false, unle (s.readBack 3 3)))
  else if p.op = OP_STORE_INT4 then .ok (some (false, unle (s.readBack 4 4)))
  else if p.op = OP_STORE_INT8 then .ok (some (false, unle (s.readBack 8 8)))
  else if p.op = OP_STORE_FLOAT then .ok (some (true, unle (s.readBack 4 4)))
  else .ok none

/-- `EmitFunc1` -/
def St.emitFunc1 (s : St) (op : Nat) : R St := do
  if op = OP_UN_MINUS then
    match ← s.evalPrev with
    | some (isFloat, v) =>
      let s ← s.absorb
      if isFloat then
        -- `-floatValue`: the sign bit flips
        s.emitOpBytes OP_STORE_FLOAT (le 4 (if v ≥ 2147483648 then v - 2147483648 else v + 2147483648))
      else
        -- `-(int64_t)long64Value`, handed to `EmitInteger` as `uint64_t`
        s.emitInteger ((18446744073709551616 - v) % 18446744073709551616)
    | none => s.emitOp op
  else s.emitOp op

/-- `EmitLabelParameterList` once the parameters are known to be plain variables: one `EmitParameter` -/
def St.emitParameter (s : St) (p : Node) : R St :=
  match p with
  | .field idx ev _ wr (.listener b) =>
    if wr = 2 then .error .readOnly
    else if wr = 1 then .error .notAllowed
    else do
      let s ← s.emitOp OP_STORE_PARAM
      let s ← s.emitOp (OP_LOAD_GAME_VAR + b)
      let (i, s) := s.addString idx
      s.write (le 4 i ++ le 4 ev)
  | .field _ _ _ _ _ => .error .notAllowed
  | _ => .error .badParam

def St.emitParameters : Nodes → St → R St
  | .nil, s => .ok s
  | .cons p ps, s => do
    let s ← s.emitParameter p
    St.emitParameters ps s

/-- `EmitLabelParameterList` -/
def St.emitLabelParameterList (s : St) (hasPs : Bool) (ps : Nodes) : R St := do
  let s ← s.clearPrev
  if hasPs then
    let s ← s.emitOp OP_MARK_STACK_POS
    let s ← St.emitParameters ps s
    s.emitOp OP_RESTORE_STACK_POS
  else .ok s

/-- `CheckOperandCount(iCount, iMaxCount)` -/
def checkCount (n max : Nat) : R Unit :=
  if n > max then .error .tooManyParameters else .ok ()

/-- the tail of `EmitCommandScript` / `EmitCommandMethod` / `EmitMethodExpression` -/
def St.emitExec (s : St) (op0 opCount : Nat) (n : Nat) (off : Int) (ev : Nat) : R St := do
  let s ← if n > 5 then do
      let s ← s.emitOpWith opCount off
      s.write [n % 256]
    else s.emitOp (op0 + n)
  s.write (le 4 ev)

/-- `EmitOpcode(OP_SWITCH); WriteOpValue<StateScript*>(stateScript)`: the operand is an address; the model writes
    the ordinal of the switch set (the harness prints ordinals for these addresses) -/
def St.emitSwitchOp (s : St) : R St :=
  s.emitOpBytes OP_SWITCH (le 8 (if s.counting then 0 else match s.cur with | .sw k => k | _ => 0))

/-! ## the emitter -/

mutual
/-- `ScriptEmitter::EmitValue(sval_t)` -/
def emit : Node → St → R St
  | .none, s => .ok s
  | .next n, s => emit n s
  | .list xs, s => emitList xs s
  | .label idx hasPs ps, s => do
    -- EmitLabel
    let (ok, s) ← s.addLabel idx false (s.switchDepth ≠ 0)
    if !ok then throw (.duplicateLabel : Err)
    let s ← s.clearPrev
    s.emitLabelParameterList hasPs ps
  | .plabel idx hasPs ps, s => do
    -- EmitLabelPrivate
    let (ok, s) ← s.addLabel idx true false
    if !ok then throw (.duplicateLabel : Err)
    s.emitLabelParameterList hasPs ps
  | .case kind idx _ hasPs ps, s => do
    if kind = 0 then throw (.badCase : Err)
    let (ok, s) ← s.addLabel idx false true
    if !ok then throw (.duplicateLabel : Err)
    s.emitLabelParameterList hasPs ps
  | .assign lhs rhs, s => do
    let s ← emit rhs s
    emitAssign lhs s
  | .if_ c t, s => do
    let s ← emit c s
    let s ← s.varToBool
    -- EmitIfJump
    let s ← s.emitNot
    let jmp := s.pos
    let s ← (s.moveFwd 4).clearPrev
    let s ← emit t s
    s.addJumpLocation jmp
  | .ifelse c t e, s => do
    let s ← emit c s
    let s ← s.varToBool
    -- EmitIfElseJump
    let s ← s.emitNot
    let jmp1 := s.pos
    let s ← (s.moveFwd 4).clearPrev
    let s ← emit t s
    let s ← s.emitOp OP_JUMP4
    let jmp2 := s.pos
    let s ← (s.moveFwd 4).clearPrev
    let s ← s.addJumpLocation jmp1
    let s ← emit e s
    s.addJumpLocation jmp2
  | .while_ c b i, s => do
    -- EmitWhileJump
    let pos0 := s.pos
    let s ← s.clearPrev
    let s ← emit c s
    let s ← s.varToBool
    let s ← s.emitNot
    let jmp := s.pos
    let s ← (s.moveFwd 4).clearPrev
    let oldBreak := s.canBreak
    let oldContinue := s.canContinue
    let breakCount := s.nBrk
    let continueCount := s.nCont
    let s ← emit b { s with canBreak := true, canContinue := true }
    let s ← s.processContinue continueCount
    let s ← emit i { s with canContinue := oldContinue }
    let s ← s.emitJumpBack pos0
    let s ← s.clearPrev
    let s ← s.addJumpLocation jmp
    let s ← s.processBreak breakCount
    .ok { s with canBreak := oldBreak }
  | .do_ b c, s => do
    -- EmitDoWhileJump
    let pos0 := s.pos
    let s ← s.clearPrev
    let oldBreak := s.canBreak
    let oldContinue := s.canContinue
    let breakCount := s.nBrk
    let continueCount := s.nCont
    let s ← emit b { s with canBreak := true, canContinue := true }
    let s ← s.processContinue continueCount
    let s ← emit c { s with canContinue := oldContinue }
    let s ← s.varToBool
    let s ← s.emitNot
    let jmp := s.pos
    let s := s.moveFwd 4
    let s ← s.emitJumpBack pos0
    let s ← s.clearPrev
    let s ← s.addJumpLocation jmp
    let s ← s.processBreak breakCount
    .ok { s with canBreak := oldBreak }
  | .and_ a b, s => do
    let s ← emit a s
    let s ← s.varToBool
    -- EmitAndJump
    let s ← s.emitOp OP_BOOL_LOGICAL_AND
    let jmp := s.pos
    let s ← (s.moveFwd 4).clearPrev
    let s ← emit b s
    let s ← s.varToBool
    let s ← s.addJumpLocation jmp
    .ok (s.accumulate OP_BOOL_LOGICAL_AND 0)
  | .or_ a b, s => do
    let s ← emit a s
    let s ← s.varToBool
    -- EmitOrJump
    let s ← s.emitOp OP_BOOL_LOGICAL_OR
    let jmp := s.pos
    let s ← (s.moveFwd 4).clearPrev
    let s ← emit b s
    let s ← s.varToBool
    let s ← s.addJumpLocation jmp
    .ok (s.accumulate OP_BOOL_LOGICAL_AND 0)
  | .mcmd ev l hasPs ps, s => do
    -- EmitCommandMethod
    if ev = 0 then throw (.unknownCommand : Err)
    let s ← if hasPs then emitList ps s else .ok s
    let n := if hasPs then ps.length else 0
    checkCount n parmNumMax
    let s ← emit l s
    s.emitExec OP_EXEC_CMD_METHOD0 OP_EXEC_CMD_METHOD_COUNT1 n (-(n : Int) - 1) ev
  | .mcmdx ev l hasPs ps, s => do
    -- EmitCommandMethodRet
    if ev = 0 then throw (.unknownCommandRet : Err)
    let s ← if hasPs then emitList ps s else .ok s
    let n := if hasPs then ps.length else 0
    let s ← emit l s
    -- EmitMethodExpression
    checkCount n parmNumMax
    s.emitExec OP_EXEC_METHOD0 OP_EXEC_METHOD_COUNT1 n (-(n : Int)) ev
  | .cmd ev hasPs ps, s => do
    -- EmitCommandScript
    if ev = 0 then throw (.unknownCommand : Err)
    let s ← if hasPs then emitList ps s else .ok s
    let n := if hasPs then ps.length else 0
    checkCount n parmNumMax
    s.emitExec OP_EXEC_CMD0 OP_EXEC_CMD_COUNT1 n (-(n : Int)) ev
  | .cmdx ev hasPs ps, s => do
    -- EmitCommandScriptRet
    if ev = 0 then throw (.unknownCommandRet : Err)
    let s ← if hasPs then emitList ps s else .ok s
    let n := if hasPs then ps.length else 0
    let s ← s.emitOp OP_STORE_LOCAL
    -- EmitMethodExpression
    checkCount n parmNumMax
    s.emitExec OP_EXEC_METHOD0 OP_EXEC_METHOD_COUNT1 n (-(n : Int)) ev
  | .field idx ev rd _ l, s => do
    -- EmitField
    let (index, s) := s.addString idx
    let prevIndex := unle (s.readBack 8 4)
    let viaField : R Bool := match l with
      | .listener _ => if rd = 2 then .error .writeOnly else .ok (rd = 1)
      | _ => .ok true
    if ← viaField then
      let s ← emit l s
      let s ← s.emitOp OP_STORE_FIELD
      s.write (le 4 index ++ le 4 ev)
    else match l with
      | .listener b => do
        let p ← s.prevOp
        if p.op ≠ OP_LOAD_GAME_VAR + b ∨ prevIndex ≠ index then
          let s ← s.emitOp (OP_STORE_GAME_VAR + b)
          s.write (le 4 index ++ le 4 ev)
        else
          let s ← s.absorb
          let s ← s.emitOp (OP_LOAD_STORE_GAME_VAR + b)
          .ok (s.moveFwd 8)
      | _ => .ok s
  | .listener b, s => s.emitOp (OP_STORE_GAME + b)
  | .str idx, s => do
    let (i, s) := s.addString idx
    s.emitOpBytes OP_STORE_STRING (le 4 i)
  | .int v, s => s.emitInteger v
  | .float bits, s => s.emitOpBytes OP_STORE_FLOAT (le 4 bits)
  | .vec a b c, s => do
    let s ← emit a s
    let s ← emit b s
    let s ← emit c s
    s.emitOp OP_CALC_VECTOR
  | .nil, s => s.emitOp OP_STORE_NIL
  | .null, s => s.emitOp OP_STORE_NULL
  | .f1 op x, s => do
    let s ← emit x s
    s.emitFunc1 op
  | .f2 op a b, s => do
    let s ← emit a s
    let s ← emit b s
    s.emitOp op
  | .not_ x, s => do
    let s ← emit x s
    let s ← s.varToBool
    let s ← s.boolNot
    s.boolToVar
  | .idx a i, s => do
    let s ← emit a s
    let s ← emit i s
    s.emitOp OP_STORE_ARRAY
  | .carr a xs, s => do
    -- EmitConstArray
    let s ← emit a s
    let s ← emitList xs s
    let n := xs.length + 1
    checkCount n arrayParmNumMax
    let s ← s.emitOpWith OP_LOAD_CONST_ARRAY1 (1 - (n : Int))
    s.write (le 2 n)
  | .marr xs, s => do
    -- EmitMakeArray
    let s ← emitList xs s
    let n := xs.length
    checkCount n arrayParmNumMax
    let s ← s.emitOpWith OP_LOAD_CONST_ARRAY1 (1 - (n : Int))
    s.write (le 2 n)
  | .try_ b c, s => do
    let tryBegin := s.pos
    let s ← s.clearPrev
    let s ← emit b s
    -- EmitCatch
    let s ← s.emitOp OP_JUMP4
    let oldPos := s.pos
    let s ← (s.moveFwd 4).clearPrev
    let numSetLabels ← if s.counting then .ok 0 else do
      -- the sub-emitter: a fresh counting emitter over the catch body
      let t ← emit c { St.init true with canBreak := s.canBreak, canContinue := s.canContinue }
      let t ← t.emitEof
      .ok (t.info.numLabels + t.info.numCaseLabels)
    let old := s.cur
    let oldSet := s.curSet
    let (r, s) ← s.createCatch tryBegin numSetLabels
    let s ← emit c (s.enter r)
    (s.leave old oldSet).addJumpLocation oldPos
  | .switch e b, s => do
    let s ← emit e s
    -- EmitSwitch
    let s := { s with switchDepth := s.switchDepth + 1 }
    let numSetLabels ← if s.counting then .ok 0 else do
      let t ← emit b { St.init true with canBreak := true, canContinue := s.canContinue, switchDepth := 1 }
      let t ← t.emitEof
      .ok (t.info.numLabels + t.info.numCaseLabels)
    let old := s.cur
    let oldSet := s.curSet
    let (r, s) ← s.createSwitch numSetLabels
    let s ← (s.enter r).emitSwitchOp
    let startCanBreak := s.canBreak
    let startBreakCount := s.nBrk
    let s ← { s with canBreak := true }.emitBreak
    let s ← emit b s
    let s ← s.processBreak startBreakCount
    .ok ({ s with canBreak := startCanBreak, switchDepth := s.switchDepth - 1 }.leave old oldSet)
  | .brk, s => s.emitBreak
  | .cont, s => s.emitContinue
  | .unknown _, _ => .error .unknownNode
/-- `EmitStatementList`, and every other loop that calls `EmitValue` on the elements of a list -/
def emitList : Nodes → St → R St
  | .nil, s => .ok s
  | .cons x xs, s => do
    let s ← emit x s
    emitList xs s
/-- `EmitAssignmentStatement(lhs)` -/
def emitAssign : Node → St → R St
  | .field idx ev _ wr l, s => do
    let direct : R Bool := match l with
      | .listener _ => if wr = 2 then .error .readOnly else .ok (wr = 1)
      | _ => .ok true
    let viaField ← direct
    let s ← if viaField then do
        let s ← emit l s
        s.emitOp OP_LOAD_FIELD_VAR
      else match l with
        | .listener b => s.emitOp (OP_LOAD_GAME_VAR + b)
        | _ => .ok s
    let (i, s) := s.addString idx
    s.write (le 4 i ++ le 4 ev)
  | .idx a i, s => do
    let s ← emitRef a s
    let s ← emit i s
    s.emitOp OP_LOAD_ARRAY_VAR
  | _, _ => .error .badLValue
/-- `EmitRef` -/
def emitRef : Node → St → R St
  | .field idx ev _ _ l, s => do
    let (i, s) := s.addString idx
    let s ← emit l s
    let s ← s.emitOp OP_STORE_FIELD_REF
    s.write (le 4 i ++ le 4 ev)
  | .idx a i, s => do
    let s ← emitRef a s
    let s ← emit i s
    s.emitOp OP_STORE_ARRAY_REF
  | _, _ => .error .badLValue
end

/-- `EmitRoot` -/
def emitRoot (root : Node) (s : St) : R St := do
  let s ← emit root s
  s.emitEof

/-! ## `ScriptCompiler::Compile` = `Preallocate` + `EmitProgram` -/

/-- `labelMap::countEntryBytes` -/
def countEntryBytes (n : Nat) : Nat :=
  if n > 1 then (szEntry + szPtr) * n else if n = 1 then szEntry else 0

/-- the arena size `Preallocate` asks for -/
def arenaFormula (dev : Bool) (i : SizeInfo) : Nat :=
  let nAll := i.numLabels + i.numCaseLabels
  i.progLength + szStateScript * i.numSwitches + szCatchBlock * i.numCatches + countEntryBytes nAll
    + szPtr * nAll * (i.numSwitches + i.numCatches) + (if dev then szSourcePos * i.progLength else 0)

/-- `Preallocate` after its counting pass: the allocations it performs itself, in order -/
def preallocate (dev : Bool) (i : SizeInfo) : R St := do
  let s : St := { St.init false with dev := dev, arenaSize := arenaFormula dev i, progLen := i.progLength,
                                      buf := Tbl.mk' i.progLength 0 }
  let s ← if dev then s.alloc (szSourcePos * i.progLength) else .ok s
  let s ← if i.numCatches ≠ 0 then do
      let s ← s.alloc (szCatchBlock * i.numCatches)
      .ok { s with caCont := { cap := some i.numCatches, num := 0 } }
    else .ok s
  let s ← if i.numSwitches ≠ 0 then do
      let s ← s.alloc (szStateScript * i.numSwitches)
      .ok { s with swCont := { cap := some i.numSwitches, num := 0 } }
    else .ok s
  let s ← s.alloc i.progLength
  let (ls, s) ← s.curSet.resize (i.numLabels + i.numCaseLabels) s
  .ok { s with curSet := ls }

structure Compiled where
  info : SizeInfo
  final : St

/-- `ScriptCompiler::Compile` -/
def compile (dev : Bool) (root : Node) : R Compiled := do
  let c ← emitRoot root (St.init true)
  let s ← preallocate dev c.info
  let s ← emitRoot root s
  .ok ⟨c.info, s.storeCur⟩

/-! ## well-formed trees (what the parser can produce as far as table indices go) -/

mutual
def Node.wf : Node → Bool
  | .next n => n.wf
  | .list xs => xs.wf
  | .label _ _ ps | .plabel _ _ ps | .case _ _ _ _ ps => ps.wf
  | .assign l r => l.wf && r.wf
  | .if_ c t => c.wf && t.wf
  | .ifelse c t e => c.wf && t.wf && e.wf
  | .while_ c b i => c.wf && b.wf && i.wf
  | .do_ b c => b.wf && c.wf
  | .and_ a b | .or_ a b => a.wf && b.wf
  | .mcmd _ l _ ps | .mcmdx _ l _ ps => l.wf && ps.wf
  | .cmd _ _ ps | .cmdx _ _ ps => ps.wf
  | .field _ _ _ _ l => l.wf
  | .listener b => b ≤ 6
  | .vec a b c => a.wf && b.wf && c.wf
  | .f1 op x => op < opPrevious && x.wf
  | .f2 op a b => op < opPrevious && a.wf && b.wf
  | .not_ x => x.wf
  | .idx a i => a.wf && i.wf
  | .carr a xs => a.wf && xs.wf
  | .marr xs => xs.wf
  | .try_ b c => b.wf && c.wf
  | .switch e b => e.wf && b.wf
  | _ => true
def Nodes.wf : Nodes → Bool
  | .nil => true
  | .cons x xs => x.wf && xs.wf
end

end Morfuse.Emit
