import MorfuseModel.Emit.Wp
/-!
# The counter `progLength` of the counting manager never decreases

(`ScriptCountManager::MoveCodeBack` only moves the ring cursor.)  One lemma per primitive, one per constructor of the
parse tree; for the program manager the statement is trivially true (`info` is not touched).
-/
namespace Morfuse.Emit
open Morfuse.Gen.EmitConsts

/-- `sizeInfo_t::progLength` -/
abbrev pl (s : St) : Nat := s.info.progLength

/-- the computation does not decrease `progLength` -/
abbrev Mono (s : St) (x : R St) : Prop := wp x (fun s' => pl s ≤ pl s') (fun _ => True)
abbrev Mono2 {α} (s : St) (x : R (α × St)) : Prop := wp x (fun r => pl s ≤ pl r.2) (fun _ => True)

theorem pl_ringWrite (bs : List Nat) (s : St) : pl (s.ringWrite bs) = pl s := by
  induction bs generalizing s with
  | nil => rfl
  | cons b bs ih => unfold St.ringWrite; rw [ih]
theorem pl_trackStack (s : St) (e : Bool) (o : Int) : pl (s.trackStack e o) = pl s := by
  unfold St.trackStack; cases e <;> rfl
theorem pl_accumulate (s : St) (op : Nat) (o : Int) : pl (s.accumulate op o) = pl s := rfl
theorem pl_moveFwd (s : St) (k : Nat) : pl s ≤ pl (s.moveFwd k) := by
  unfold St.moveFwd; split <;> simp [pl]
theorem pl_addString (s : St) (k : Nat) : pl (s.addString k).2 = pl s := by
  unfold St.addString; split <;> rfl
theorem pl_enter (s : St) (r : Option SetRef) : pl (s.enter r) = pl s := by
  unfold St.enter; split <;> rfl
theorem pl_leave (s : St) (o : SetRef) (os : LabelSet) : pl (s.leave o os) = pl s := by
  unfold St.leave St.storeCur; split
  · rfl
  · split <;> rfl

macro "pl_close" : tactic =>
  `(tactic| ((try simp only [pl_trackStack, pl_accumulate, pl_addString, pl_enter, pl_leave] at *); (have := pl_moveFwd); (first | omega | grind [pl_moveFwd])))

syntax "pl_prim" : tactic

macro "pl_auto" : tactic =>
  `(tactic| repeat' (first
    | (wp_simp; pl_prim; intro _ _)
    | (wp_simp; with_reducible show _ ≤ _; pl_close)
    | (wp_simp; with_reducible show True; trivial)
    | ((with_reducible show wp (Except.error _) _ _); exact trivial)
    | ((with_reducible show Mono _ (Except.error _)); exact trivial)
    | ((with_reducible show Mono2 _ (Except.error _)); exact trivial)
    | (wp_simp; split)))

theorem write_pl (s : St) (bs : List Nat) : Mono s (s.write bs) := by
  unfold St.write
  split
  · simp only [wp_ok, pl_ringWrite]; simp [pl]
  · split
    · trivial
    · simp [pl]
macro_rules | `(tactic| pl_prim) => `(tactic| with_reducible refine wp_mono (write_pl _ _) ?_ (fun _ _ => trivial))

theorem moveBack_pl (s : St) (k : Nat) : Mono s (s.moveBack k) := by
  unfold St.moveBack
  split
  · simp [pl]
  · split
    · trivial
    · simp [pl]
macro_rules | `(tactic| pl_prim) => `(tactic| with_reducible refine wp_mono (moveBack_pl _ _) ?_ (fun _ _ => trivial))

theorem setAt_pl (s : St) (p : Nat) (bs : List Nat) : Mono s (s.setAt p bs) := by
  unfold St.setAt
  split
  · simp
  · split
    · trivial
    · simp [pl]
macro_rules | `(tactic| pl_prim) => `(tactic| with_reducible refine wp_mono (setAt_pl _ _ _) ?_ (fun _ _ => trivial))

theorem clearPrev_pl (s : St) : Mono s s.clearPrev := by
  unfold St.clearPrev
  split
  · simp [pl]
  · trivial
macro_rules | `(tactic| pl_prim) => `(tactic| with_reducible refine wp_mono (clearPrev_pl _) ?_ (fun _ _ => trivial))

theorem read_pl {α} (x : R α) : wp x (fun _ => True) (fun _ => True) := by
  cases x <;> trivial
macro_rules | `(tactic| pl_prim) => `(tactic| with_reducible refine wp_mono (read_pl (St.prevOp _)) ?_ (fun _ _ => trivial))
macro_rules | `(tactic| pl_prim) => `(tactic| with_reducible refine wp_mono (read_pl (St.evalPrev _)) ?_ (fun _ _ => trivial))
macro_rules | `(tactic| pl_prim) => `(tactic| with_reducible refine wp_mono (read_pl (checkCount _ _)) ?_ (fun _ _ => trivial))

theorem alloc_pl (s : St) (n : Nat) : Mono s (s.alloc n) := by
  unfold St.alloc
  split
  · trivial
  · simp [pl]
macro_rules | `(tactic| pl_prim) => `(tactic| with_reducible refine wp_mono (alloc_pl _ _) ?_ (fun _ _ => trivial))

theorem absorb_pl (s : St) : Mono s (s.absorb) := by
  unfold St.absorb
  pl_auto
macro_rules | `(tactic| pl_prim) => `(tactic| with_reducible refine wp_mono (absorb_pl _) ?_ (fun _ _ => trivial))

theorem emitOpWith_pl (s : St) (op : Nat) (off : Int) : Mono s (s.emitOpWith op off) := by
  unfold St.emitOpWith
  pl_auto
macro_rules | `(tactic| pl_prim) => `(tactic| with_reducible refine wp_mono (emitOpWith_pl _ _ _) ?_ (fun _ _ => trivial))

theorem emitOp_pl (s : St) (op : Nat) : Mono s (s.emitOp op) := by
  unfold St.emitOp
  pl_auto
macro_rules | `(tactic| pl_prim) => `(tactic| with_reducible refine wp_mono (emitOp_pl _ _) ?_ (fun _ _ => trivial))

theorem emitOpBytes_pl (s : St) (op : Nat) (bs : List Nat) : Mono s (s.emitOpBytes op bs) := by
  unfold St.emitOpBytes
  pl_auto
macro_rules | `(tactic| pl_prim) => `(tactic| with_reducible refine wp_mono (emitOpBytes_pl _ _ _) ?_ (fun _ _ => trivial))

theorem emitInteger_pl (s : St) (v : Nat) : Mono s (s.emitInteger v) := by
  unfold St.emitInteger
  pl_auto
macro_rules | `(tactic| pl_prim) => `(tactic| with_reducible refine wp_mono (emitInteger_pl _ _) ?_ (fun _ _ => trivial))

theorem varToBool_pl (s : St) : Mono s (s.varToBool) := by
  unfold St.varToBool
  pl_auto
macro_rules | `(tactic| pl_prim) => `(tactic| with_reducible refine wp_mono (varToBool_pl _) ?_ (fun _ _ => trivial))

theorem boolNot_pl (s : St) : Mono s (s.boolNot) := by
  unfold St.boolNot
  pl_auto
macro_rules | `(tactic| pl_prim) => `(tactic| with_reducible refine wp_mono (boolNot_pl _) ?_ (fun _ _ => trivial))

theorem boolToVar_pl (s : St) : Mono s (s.boolToVar) := by
  unfold St.boolToVar
  pl_auto
macro_rules | `(tactic| pl_prim) => `(tactic| with_reducible refine wp_mono (boolToVar_pl _) ?_ (fun _ _ => trivial))

theorem boolJump_pl (s : St) (t : Bool) : Mono s (s.boolJump t) := by
  unfold St.boolJump
  pl_auto
macro_rules | `(tactic| pl_prim) => `(tactic| with_reducible refine wp_mono (boolJump_pl _ _) ?_ (fun _ _ => trivial))

theorem emitNot_pl (s : St) : Mono s (s.emitNot) := by
  unfold St.emitNot
  pl_auto
macro_rules | `(tactic| pl_prim) => `(tactic| with_reducible refine wp_mono (emitNot_pl _) ?_ (fun _ _ => trivial))

theorem addJumpLocation_pl (s : St) (p : Nat) : Mono s (s.addJumpLocation p) := by
  unfold St.addJumpLocation
  pl_auto
macro_rules | `(tactic| pl_prim) => `(tactic| with_reducible refine wp_mono (addJumpLocation_pl _ _) ?_ (fun _ _ => trivial))

theorem emitJumpBack_pl (s : St) (p : Nat) : Mono s (s.emitJumpBack p) := by
  unfold St.emitJumpBack
  pl_auto
macro_rules | `(tactic| pl_prim) => `(tactic| with_reducible refine wp_mono (emitJumpBack_pl _ _) ?_ (fun _ _ => trivial))

theorem emitEof_pl (s : St) : Mono s (s.emitEof) := by
  unfold St.emitEof
  pl_auto
macro_rules | `(tactic| pl_prim) => `(tactic| with_reducible refine wp_mono (emitEof_pl _) ?_ (fun _ _ => trivial))

theorem emitFunc1_pl (s : St) (op : Nat) : Mono s (s.emitFunc1 op) := by
  unfold St.emitFunc1
  pl_auto
macro_rules | `(tactic| pl_prim) => `(tactic| with_reducible refine wp_mono (emitFunc1_pl _ _) ?_ (fun _ _ => trivial))

theorem emitParameter_pl (s : St) (p : Node) : Mono s (s.emitParameter p) := by
  unfold St.emitParameter
  pl_auto
macro_rules | `(tactic| pl_prim) => `(tactic| with_reducible refine wp_mono (emitParameter_pl _ _) ?_ (fun _ _ => trivial))

theorem emitParameters_pl : ∀ (ps : Nodes) (s : St), Mono s (St.emitParameters ps s)
  | .nil, s => by simp [St.emitParameters]
  | .cons p ps, s => by
    unfold St.emitParameters
    wp_simp
    pl_prim
    intro a ha
    exact wp_mono (emitParameters_pl ps a) (fun b hb => Nat.le_trans ha hb) (fun _ _ => trivial)
macro_rules | `(tactic| pl_prim) => `(tactic| with_reducible refine wp_mono (emitParameters_pl _ _) ?_ (fun _ _ => trivial))

theorem emitLabelParameterList_pl (s : St) (h : Bool) (ps : Nodes) : Mono s (s.emitLabelParameterList h ps) := by
  unfold St.emitLabelParameterList
  pl_auto
macro_rules | `(tactic| pl_prim) => `(tactic| with_reducible refine wp_mono (emitLabelParameterList_pl _ _ _) ?_ (fun _ _ => trivial))

theorem emitExec_pl (s : St) (a b n : Nat) (off : Int) (ev : Nat) : Mono s (s.emitExec a b n off ev) := by
  unfold St.emitExec
  pl_auto
macro_rules | `(tactic| pl_prim) => `(tactic| with_reducible refine wp_mono (emitExec_pl _ _ _ _ _ _) ?_ (fun _ _ => trivial))

theorem emitSwitchOp_pl (s : St) : Mono s (s.emitSwitchOp) := by
  unfold St.emitSwitchOp
  pl_auto
macro_rules | `(tactic| pl_prim) => `(tactic| with_reducible refine wp_mono (emitSwitchOp_pl _) ?_ (fun _ _ => trivial))

theorem addBreak_pl (s : St) (p : Nat) : Mono s (s.addBreak p) := by
  unfold St.addBreak
  pl_auto
macro_rules | `(tactic| pl_prim) => `(tactic| with_reducible refine wp_mono (addBreak_pl _ _) ?_ (fun _ _ => trivial))

theorem addContinue_pl (s : St) (p : Nat) : Mono s (s.addContinue p) := by
  unfold St.addContinue
  pl_auto
macro_rules | `(tactic| pl_prim) => `(tactic| with_reducible refine wp_mono (addContinue_pl _ _) ?_ (fun _ _ => trivial))

theorem processBreakLoop_pl : ∀ (n : Nat) (s : St), Mono s (St.processBreakLoop n s)
  | 0, s => by simp [St.processBreakLoop]
  | n + 1, s => by
    unfold St.processBreakLoop
    wp_simp
    split
    · trivial
    · wp_simp
      pl_prim
      intro a ha
      exact wp_mono (processBreakLoop_pl n a) (fun b hb => Nat.le_trans ha hb) (fun _ _ => trivial)
macro_rules | `(tactic| pl_prim) => `(tactic| with_reducible refine wp_mono (processBreakLoop_pl _ _) ?_ (fun _ _ => trivial))

theorem processContinueLoop_pl : ∀ (n : Nat) (s : St), Mono s (St.processContinueLoop n s)
  | 0, s => by simp [St.processContinueLoop]
  | n + 1, s => by
    unfold St.processContinueLoop
    wp_simp
    split
    · trivial
    · wp_simp
      pl_prim
      intro a ha
      exact wp_mono (processContinueLoop_pl n a) (fun b hb => Nat.le_trans ha hb) (fun _ _ => trivial)
macro_rules | `(tactic| pl_prim) => `(tactic| with_reducible refine wp_mono (processContinueLoop_pl _ _) ?_ (fun _ _ => trivial))

theorem processBreak_pl (s : St) (k : Nat) : Mono s (s.processBreak k) := by
  unfold St.processBreak
  pl_auto
macro_rules | `(tactic| pl_prim) => `(tactic| with_reducible refine wp_mono (processBreak_pl _ _) ?_ (fun _ _ => trivial))

theorem processContinue_pl (s : St) (k : Nat) : Mono s (s.processContinue k) := by
  unfold St.processContinue
  pl_auto
macro_rules | `(tactic| pl_prim) => `(tactic| with_reducible refine wp_mono (processContinue_pl _ _) ?_ (fun _ _ => trivial))

theorem emitBreak_pl (s : St) : Mono s (s.emitBreak) := by
  unfold St.emitBreak
  pl_auto
macro_rules | `(tactic| pl_prim) => `(tactic| with_reducible refine wp_mono (emitBreak_pl _) ?_ (fun _ _ => trivial))

theorem emitContinue_pl (s : St) : Mono s (s.emitContinue) := by
  unfold St.emitContinue
  pl_auto
macro_rules | `(tactic| pl_prim) => `(tactic| with_reducible refine wp_mono (emitContinue_pl _) ?_ (fun _ _ => trivial))

theorem resize_pl (ls : LabelSet) (n : Nat) (s : St) : Mono2 s (ls.resize n s) := by
  unfold LabelSet.resize
  pl_auto
macro_rules | `(tactic| pl_prim) => `(tactic| with_reducible refine wp_mono (resize_pl _ _ _) ?_ (fun _ _ => trivial))
theorem labelSetAdd_pl (ls : LabelSet) (k o : Nat) (p : Bool) (s : St) : Mono2 s (ls.add k o p s) := by
  unfold LabelSet.add
  pl_auto
macro_rules | `(tactic| pl_prim) => `(tactic| with_reducible refine wp_mono (labelSetAdd_pl _ _ _ _ _) ?_ (fun _ _ => trivial))
theorem contAdd_pl (c : Cont) (sz : Nat) (s : St) : Mono2 s (c.add sz s) := by
  unfold Cont.add
  pl_auto
macro_rules | `(tactic| pl_prim) => `(tactic| with_reducible refine wp_mono (contAdd_pl _ _ _) ?_ (fun _ _ => trivial))

theorem addLabel_pl (s : St) (i : Nat) (p c : Bool) : Mono2 s (s.addLabel i p c) := by
  unfold St.addLabel
  pl_auto
macro_rules | `(tactic| pl_prim) => `(tactic| with_reducible refine wp_mono (addLabel_pl _ _ _ _) ?_ (fun _ _ => trivial))

theorem createSwitch_pl (s : St) (n : Nat) : Mono2 s (s.createSwitch n) := by
  unfold St.createSwitch
  pl_auto
macro_rules | `(tactic| pl_prim) => `(tactic| with_reducible refine wp_mono (createSwitch_pl _ _) ?_ (fun _ _ => trivial))

theorem createCatch_pl (s : St) (t n : Nat) : Mono2 s (s.createCatch t n) := by
  unfold St.createCatch
  pl_auto
macro_rules | `(tactic| pl_prim) => `(tactic| with_reducible refine wp_mono (createCatch_pl _ _ _) ?_ (fun _ _ => trivial))

/-! ## the emitter -/

structure MN (n : Node) : Prop where
  e : ∀ s, Mono s (emit n s)
  r : ∀ s, Mono s (emitRef n s)
  a : ∀ s, Mono s (emitAssign n s)

structure MNL (xs : Nodes) : Prop where
  l : ∀ s, Mono s (emitList xs s)

set_option hygiene false in
macro "mn_steps" : tactic =>
  `(tactic| repeat' (first
    | (wp_simp; pl_prim; intro _ _)
    | (wp_simp; with_reducible refine wp_mono (ih1.e _) ?_ (fun _ _ => trivial); intro _ _)
    | (wp_simp; with_reducible refine wp_mono (ih2.e _) ?_ (fun _ _ => trivial); intro _ _)
    | (wp_simp; with_reducible refine wp_mono (ih3.e _) ?_ (fun _ _ => trivial); intro _ _)
    | (wp_simp; with_reducible refine wp_mono (ih1.r _) ?_ (fun _ _ => trivial); intro _ _)
    | (wp_simp; with_reducible refine wp_mono (ih1.a _) ?_ (fun _ _ => trivial); intro _ _)
    | (wp_simp; with_reducible refine wp_mono (ih1.l _) ?_ (fun _ _ => trivial); intro _ _)
    | (wp_simp; with_reducible refine wp_mono (ih2.l _) ?_ (fun _ _ => trivial); intro _ _)
    | (wp_simp; with_reducible show _ ≤ _; pl_close)
    | (wp_simp; with_reducible show True; trivial)
    | ((with_reducible show wp (Except.error _) _ _); exact trivial)
    | ((with_reducible show Mono _ (Except.error _)); exact trivial)
    | ((with_reducible show Mono2 _ (Except.error _)); exact trivial)
    | (wp_simp; split)))

set_option hygiene false in
macro "mn_walk" : tactic =>
  `(tactic| first
    | (refine ⟨fun s => ?_, fun s => ?_, fun s => ?_⟩ <;> simp only [emit, emitRef, emitAssign] <;> mn_steps)
    | (refine ⟨fun s => ?_⟩; simp only [emitList]; mn_steps))

theorem mn_none   : MN (.none ) := by
  mn_walk

theorem mn_next (n : Node) (ih1 : MN n) : MN (.next n) := by
  mn_walk

theorem mn_list (xs : Nodes) (ih1 : MNL xs) : MN (.list xs) := by
  mn_walk

theorem mn_label (idx : Nat) (hasPs : Bool) (ps : Nodes) (ih1 : MNL ps) : MN (.label idx hasPs ps) := by
  mn_walk

theorem mn_plabel (idx : Nat) (hasPs : Bool) (ps : Nodes) (ih1 : MNL ps) : MN (.plabel idx hasPs ps) := by
  mn_walk

theorem mn_case (kind : Nat) (idx : Nat) (ty : Nat) (hasPs : Bool) (ps : Nodes) (ih1 : MNL ps) : MN (.case kind idx ty hasPs ps) := by
  mn_walk

theorem mn_assign (lhs : Node) (rhs : Node) (ih1 : MN lhs) (ih2 : MN rhs) : MN (.assign lhs rhs) := by
  mn_walk

theorem mn_if (c : Node) (t : Node) (ih1 : MN c) (ih2 : MN t) : MN (.if_ c t) := by
  mn_walk

theorem mn_ifelse (c : Node) (t : Node) (e : Node) (ih1 : MN c) (ih2 : MN t) (ih3 : MN e) : MN (.ifelse c t e) := by
  mn_walk

theorem mn_while (c : Node) (b : Node) (i : Node) (ih1 : MN c) (ih2 : MN b) (ih3 : MN i) : MN (.while_ c b i) := by
  mn_walk

theorem mn_do (b : Node) (c : Node) (ih1 : MN b) (ih2 : MN c) : MN (.do_ b c) := by
  mn_walk

theorem mn_and (a : Node) (b : Node) (ih1 : MN a) (ih2 : MN b) : MN (.and_ a b) := by
  mn_walk

theorem mn_or (a : Node) (b : Node) (ih1 : MN a) (ih2 : MN b) : MN (.or_ a b) := by
  mn_walk

theorem mn_mcmd (ev : Nat) (l : Node) (hasPs : Bool) (ps : Nodes) (ih1 : MN l) (ih2 : MNL ps) : MN (.mcmd ev l hasPs ps) := by
  mn_walk

theorem mn_mcmdx (ev : Nat) (l : Node) (hasPs : Bool) (ps : Nodes) (ih1 : MN l) (ih2 : MNL ps) : MN (.mcmdx ev l hasPs ps) := by
  mn_walk

theorem mn_cmd (ev : Nat) (hasPs : Bool) (ps : Nodes) (ih1 : MNL ps) : MN (.cmd ev hasPs ps) := by
  mn_walk

theorem mn_cmdx (ev : Nat) (hasPs : Bool) (ps : Nodes) (ih1 : MNL ps) : MN (.cmdx ev hasPs ps) := by
  mn_walk

theorem mn_field (idx : Nat) (ev : Nat) (rd : Nat) (wr : Nat) (l : Node) (ih1 : MN l) : MN (.field idx ev rd wr l) := by
  mn_walk

theorem mn_listener (b : Nat)  : MN (.listener b) := by
  mn_walk

theorem mn_str (idx : Nat)  : MN (.str idx) := by
  mn_walk

theorem mn_int (v : Nat)  : MN (.int v) := by
  mn_walk

theorem mn_float (bits : Nat)  : MN (.float bits) := by
  mn_walk

theorem mn_vec (a : Node) (b : Node) (c : Node) (ih1 : MN a) (ih2 : MN b) (ih3 : MN c) : MN (.vec a b c) := by
  mn_walk

theorem mn_nil   : MN (.nil ) := by
  mn_walk

theorem mn_null   : MN (.null ) := by
  mn_walk

theorem mn_f1 (op : Nat) (x : Node) (ih1 : MN x) : MN (.f1 op x) := by
  mn_walk

theorem mn_f2 (op : Nat) (a : Node) (b : Node) (ih1 : MN a) (ih2 : MN b) : MN (.f2 op a b) := by
  mn_walk

theorem mn_not (x : Node) (ih1 : MN x) : MN (.not_ x) := by
  mn_walk

theorem mn_idx (a : Node) (i : Node) (ih1 : MN a) (ih2 : MN i) : MN (.idx a i) := by
  mn_walk

theorem mn_carr (a : Node) (xs : Nodes) (ih1 : MN a) (ih2 : MNL xs) : MN (.carr a xs) := by
  mn_walk

theorem mn_marr (xs : Nodes) (ih1 : MNL xs) : MN (.marr xs) := by
  mn_walk

theorem mn_try (b : Node) (c : Node) (ih1 : MN b) (ih2 : MN c) : MN (.try_ b c) := by
  mn_walk

theorem mn_switch (e : Node) (b : Node) (ih1 : MN e) (ih2 : MN b) : MN (.switch e b) := by
  mn_walk

theorem mn_brk   : MN (.brk ) := by
  mn_walk

theorem mn_cont   : MN (.cont ) := by
  mn_walk

theorem mn_unknown (t : Nat)  : MN (.unknown t) := by
  mn_walk

theorem mn_lnil : MNL .nil := by
  mn_walk

theorem mn_lcons (x : Node) (xs : Nodes) (ih1 : MN x) (ih2 : MNL xs) : MNL (.cons x xs) := by
  mn_walk

theorem mn_all (n : Node) : MN n :=
  Node.rec (motive_1 := MN) (motive_2 := MNL)
    mn_none mn_next mn_list mn_label mn_plabel mn_case mn_assign mn_if mn_ifelse mn_while mn_do mn_and mn_or mn_mcmd mn_mcmdx mn_cmd mn_cmdx mn_field mn_listener mn_str mn_int mn_float mn_vec mn_nil mn_null mn_f1 mn_f2 mn_not mn_idx mn_carr mn_marr mn_try mn_switch mn_brk mn_cont mn_unknown
    mn_lnil mn_lcons n

theorem mn_allL (xs : Nodes) : MNL xs :=
  Nodes.rec (motive_1 := MN) (motive_2 := MNL)
    mn_none mn_next mn_list mn_label mn_plabel mn_case mn_assign mn_if mn_ifelse mn_while mn_do mn_and mn_or mn_mcmd mn_mcmdx mn_cmd mn_cmdx mn_field mn_listener mn_str mn_int mn_float mn_vec mn_nil mn_null mn_f1 mn_f2 mn_not mn_idx mn_carr mn_marr mn_try mn_switch mn_brk mn_cont mn_unknown
    mn_lnil mn_lcons xs


end Morfuse.Emit
