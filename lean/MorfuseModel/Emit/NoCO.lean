import MorfuseModel.Emit.Sim
/-!
# A counting emitter stays a counting emitter and never reports a code overflow

(`ScriptCountManager::WriteOpcodeValue` has no buffer.)  One lemma per primitive, one per constructor; all trees.
-/
namespace Morfuse.Emit
open Morfuse.Gen.EmitConsts

set_option maxRecDepth 8000

theorem cnt_trackStack (s : St) (e : Bool) (o : Int) : (s.trackStack e o).counting = s.counting := by
  unfold St.trackStack; cases e <;> rfl
theorem cnt_accumulate (s : St) (op : Nat) (o : Int) : (s.accumulate op o).counting = s.counting := rfl
theorem cnt_moveFwd (s : St) (k : Nat) : (s.moveFwd k).counting = s.counting := by
  unfold St.moveFwd; split <;> rfl
theorem cnt_addString (s : St) (k : Nat) : (s.addString k).2.counting = s.counting := by
  unfold St.addString; split <;> rfl
theorem cnt_enter (s : St) (r : Option SetRef) : (s.enter r).counting = s.counting := by
  unfold St.enter; split <;> rfl
theorem cnt_leave (s : St) (o : SetRef) (os : LabelSet) : (s.leave o os).counting = s.counting := by
  unfold St.leave St.storeCur; split
  · rfl
  · split <;> rfl

macro "cnt_true" : tactic =>
  `(tactic| first | assumption | rfl | (simp only [cnt_trackStack, cnt_accumulate, cnt_moveFwd, cnt_addString, cnt_enter, cnt_leave]; assumption))

syntax "nc_prim" : tactic

macro "nc_auto" : tactic =>
  `(tactic| repeat' (first
    | (wp_simp; nc_prim)
    | ((with_reducible show ∀ _, _ → _); intro _ _)
    | (wp_simp; (with_reducible show _ = true); cnt_true)
    | (wp_simp; (with_reducible show ECO _); simp [ECO]; done)
    | (wp_simp; (with_reducible show True); trivial)
    | (wp_simp; split)))

theorem write_nc (s : St) (bs : List Nat) (hc : s.counting = true) : wp (s.write bs) (fun s' => s'.counting = true) ECO := by
  rw [write_counting s bs hc, wp_ok, (ringWrite_fields bs _).2.2.2.1]; exact hc
macro_rules | `(tactic| nc_prim) => `(tactic| with_reducible refine wp_mono (write_nc _ _ ?_) ?_ (fun _ h => h))

theorem moveBack_nc (s : St) (k : Nat) (hc : s.counting = true) : wp (s.moveBack k) (fun s' => s'.counting = true) ECO := by
  unfold St.moveBack; rw [if_pos hc]; exact hc
macro_rules | `(tactic| nc_prim) => `(tactic| with_reducible refine wp_mono (moveBack_nc _ _ ?_) ?_ (fun _ h => h))

theorem setAt_nc (s : St) (p : Nat) (bs : List Nat) (hc : s.counting = true) : wp (s.setAt p bs) (fun s' => s'.counting = true) ECO := by
  unfold St.setAt; rw [if_pos hc]; exact hc
macro_rules | `(tactic| nc_prim) => `(tactic| with_reducible refine wp_mono (setAt_nc _ _ _ ?_) ?_ (fun _ h => h))

theorem clearPrev_nc (s : St) (hc : s.counting = true) : wp s.clearPrev (fun s' => s'.counting = true) ECO := by
  unfold St.clearPrev; split
  · exact hc
  · simp [ECO]
macro_rules | `(tactic| nc_prim) => `(tactic| with_reducible refine wp_mono (clearPrev_nc _ ?_) ?_ (fun _ h => h))

theorem prevOp_nc (s : St) : wp s.prevOp (fun _ => True) ECO := by
  unfold St.prevOp; split
  · trivial
  · simp [ECO]
macro_rules | `(tactic| nc_prim) => `(tactic| with_reducible refine wp_mono (prevOp_nc _) ?_ (fun _ h => h))

theorem checkCount_nc (n m : Nat) : wp (checkCount n m) (fun _ => True) ECO := by
  unfold checkCount; split
  · simp [ECO]
  · trivial
macro_rules | `(tactic| nc_prim) => `(tactic| with_reducible refine wp_mono (checkCount_nc _ _) ?_ (fun _ h => h))

theorem evalPrev_nc (s : St) : wp s.evalPrev (fun _ => True) ECO := by
  unfold St.evalPrev
  wp_simp
  refine wp_mono (prevOp_nc _) ?_ (fun _ h => h)
  intro p _
  repeat' (first | (simp only [wp_ok]; done) | split)
macro_rules | `(tactic| nc_prim) => `(tactic| with_reducible refine wp_mono (evalPrev_nc _) ?_ (fun _ h => h))

theorem alloc_nc (s : St) (n : Nat) (hc : s.counting = true) : wp (s.alloc n) (fun s' => s'.counting = true) ECO := by
  unfold St.alloc; split
  · simp [ECO]
  · exact hc
macro_rules | `(tactic| nc_prim) => `(tactic| with_reducible refine wp_mono (alloc_nc _ _ ?_) ?_ (fun _ h => h))

theorem absorb_nc (s : St) (hc : s.counting = true) : wp (s.absorb) (fun s' => s'.counting = true) ECO := by
  unfold St.absorb
  nc_auto
macro_rules | `(tactic| nc_prim) => `(tactic| with_reducible refine wp_mono (absorb_nc _ ?_) ?_ (fun _ h => h))

theorem emitOpWith_nc (s : St) (op : Nat) (off : Int) (hc : s.counting = true) : wp (s.emitOpWith op off) (fun s' => s'.counting = true) ECO := by
  unfold St.emitOpWith
  nc_auto
macro_rules | `(tactic| nc_prim) => `(tactic| with_reducible refine wp_mono (emitOpWith_nc _ _ _ ?_) ?_ (fun _ h => h))

theorem emitOp_nc (s : St) (op : Nat) (hc : s.counting = true) : wp (s.emitOp op) (fun s' => s'.counting = true) ECO := by
  unfold St.emitOp
  nc_auto
macro_rules | `(tactic| nc_prim) => `(tactic| with_reducible refine wp_mono (emitOp_nc _ _ ?_) ?_ (fun _ h => h))

theorem emitOpBytes_nc (s : St) (op : Nat) (bs : List Nat) (hc : s.counting = true) : wp (s.emitOpBytes op bs) (fun s' => s'.counting = true) ECO := by
  unfold St.emitOpBytes
  nc_auto
macro_rules | `(tactic| nc_prim) => `(tactic| with_reducible refine wp_mono (emitOpBytes_nc _ _ _ ?_) ?_ (fun _ h => h))

theorem emitInteger_nc (s : St) (v : Nat) (hc : s.counting = true) : wp (s.emitInteger v) (fun s' => s'.counting = true) ECO := by
  unfold St.emitInteger
  nc_auto
macro_rules | `(tactic| nc_prim) => `(tactic| with_reducible refine wp_mono (emitInteger_nc _ _ ?_) ?_ (fun _ h => h))

theorem varToBool_nc (s : St) (hc : s.counting = true) : wp (s.varToBool) (fun s' => s'.counting = true) ECO := by
  unfold St.varToBool
  nc_auto
macro_rules | `(tactic| nc_prim) => `(tactic| with_reducible refine wp_mono (varToBool_nc _ ?_) ?_ (fun _ h => h))

theorem boolNot_nc (s : St) (hc : s.counting = true) : wp (s.boolNot) (fun s' => s'.counting = true) ECO := by
  unfold St.boolNot
  nc_auto
macro_rules | `(tactic| nc_prim) => `(tactic| with_reducible refine wp_mono (boolNot_nc _ ?_) ?_ (fun _ h => h))

theorem boolToVar_nc (s : St) (hc : s.counting = true) : wp (s.boolToVar) (fun s' => s'.counting = true) ECO := by
  unfold St.boolToVar
  nc_auto
macro_rules | `(tactic| nc_prim) => `(tactic| with_reducible refine wp_mono (boolToVar_nc _ ?_) ?_ (fun _ h => h))

theorem boolJump_nc (s : St) (t : Bool) (hc : s.counting = true) : wp (s.boolJump t) (fun s' => s'.counting = true) ECO := by
  unfold St.boolJump
  nc_auto
macro_rules | `(tactic| nc_prim) => `(tactic| with_reducible refine wp_mono (boolJump_nc _ _ ?_) ?_ (fun _ h => h))

theorem emitNot_nc (s : St) (hc : s.counting = true) : wp (s.emitNot) (fun s' => s'.counting = true) ECO := by
  unfold St.emitNot
  nc_auto
macro_rules | `(tactic| nc_prim) => `(tactic| with_reducible refine wp_mono (emitNot_nc _ ?_) ?_ (fun _ h => h))

theorem addJumpLocation_nc (s : St) (p : Nat) (hc : s.counting = true) : wp (s.addJumpLocation p) (fun s' => s'.counting = true) ECO := by
  unfold St.addJumpLocation
  nc_auto
macro_rules | `(tactic| nc_prim) => `(tactic| with_reducible refine wp_mono (addJumpLocation_nc _ _ ?_) ?_ (fun _ h => h))

theorem emitJumpBack_nc (s : St) (p : Nat) (hc : s.counting = true) : wp (s.emitJumpBack p) (fun s' => s'.counting = true) ECO := by
  unfold St.emitJumpBack
  nc_auto
macro_rules | `(tactic| nc_prim) => `(tactic| with_reducible refine wp_mono (emitJumpBack_nc _ _ ?_) ?_ (fun _ h => h))

theorem emitEof_nc (s : St) (hc : s.counting = true) : wp (s.emitEof) (fun s' => s'.counting = true) ECO := by
  unfold St.emitEof
  nc_auto
macro_rules | `(tactic| nc_prim) => `(tactic| with_reducible refine wp_mono (emitEof_nc _ ?_) ?_ (fun _ h => h))

theorem emitFunc1_nc (s : St) (op : Nat) (hc : s.counting = true) : wp (s.emitFunc1 op) (fun s' => s'.counting = true) ECO := by
  unfold St.emitFunc1
  nc_auto
macro_rules | `(tactic| nc_prim) => `(tactic| with_reducible refine wp_mono (emitFunc1_nc _ _ ?_) ?_ (fun _ h => h))

theorem emitParameter_nc (s : St) (p : Node) (hc : s.counting = true) : wp (s.emitParameter p) (fun s' => s'.counting = true) ECO := by
  unfold St.emitParameter
  nc_auto
macro_rules | `(tactic| nc_prim) => `(tactic| with_reducible refine wp_mono (emitParameter_nc _ _ ?_) ?_ (fun _ h => h))

theorem emitParameters_nc : ∀ (ps : Nodes) (s : St), s.counting = true → wp (St.emitParameters ps s) (fun s' => s'.counting = true) ECO
  | .nil, s, hc => by simpa [St.emitParameters] using hc
  | .cons p ps, s, hc => by
    unfold St.emitParameters
    wp_simp
    refine wp_mono (emitParameter_nc s p hc) ?_ (fun _ h => h)
    intro a ha
    exact emitParameters_nc ps a ha
macro_rules | `(tactic| nc_prim) => `(tactic| with_reducible refine wp_mono (emitParameters_nc _ _ ?_) ?_ (fun _ h => h))

theorem emitLabelParameterList_nc (s : St) (h : Bool) (ps : Nodes) (hc : s.counting = true) : wp (s.emitLabelParameterList h ps) (fun s' => s'.counting = true) ECO := by
  unfold St.emitLabelParameterList
  nc_auto
macro_rules | `(tactic| nc_prim) => `(tactic| with_reducible refine wp_mono (emitLabelParameterList_nc _ _ _ ?_) ?_ (fun _ h => h))

theorem emitExec_nc (s : St) (a b n : Nat) (off : Int) (ev : Nat) (hc : s.counting = true) : wp (s.emitExec a b n off ev) (fun s' => s'.counting = true) ECO := by
  unfold St.emitExec
  nc_auto
macro_rules | `(tactic| nc_prim) => `(tactic| with_reducible refine wp_mono (emitExec_nc _ _ _ _ _ _ ?_) ?_ (fun _ h => h))

theorem emitSwitchOp_nc (s : St) (hc : s.counting = true) : wp (s.emitSwitchOp) (fun s' => s'.counting = true) ECO := by
  unfold St.emitSwitchOp
  nc_auto
macro_rules | `(tactic| nc_prim) => `(tactic| with_reducible refine wp_mono (emitSwitchOp_nc _ ?_) ?_ (fun _ h => h))

theorem addBreak_nc (s : St) (p : Nat) (hc : s.counting = true) : wp (s.addBreak p) (fun s' => s'.counting = true) ECO := by
  unfold St.addBreak
  nc_auto
macro_rules | `(tactic| nc_prim) => `(tactic| with_reducible refine wp_mono (addBreak_nc _ _ ?_) ?_ (fun _ h => h))

theorem addContinue_nc (s : St) (p : Nat) (hc : s.counting = true) : wp (s.addContinue p) (fun s' => s'.counting = true) ECO := by
  unfold St.addContinue
  nc_auto
macro_rules | `(tactic| nc_prim) => `(tactic| with_reducible refine wp_mono (addContinue_nc _ _ ?_) ?_ (fun _ h => h))

theorem processBreakLoop_nc : ∀ (n : Nat) (s : St), s.counting = true → wp (St.processBreakLoop n s) (fun s' => s'.counting = true) ECO
  | 0, s, hc => by simpa [St.processBreakLoop] using hc
  | n + 1, s, hc => by
    unfold St.processBreakLoop
    wp_simp
    split
    · simp [ECO]
    · wp_simp
      refine wp_mono (setAt_nc _ _ _ hc) ?_ (fun _ h => h)
      intro a ha
      exact processBreakLoop_nc n a ha
macro_rules | `(tactic| nc_prim) => `(tactic| with_reducible refine wp_mono (processBreakLoop_nc _ _ ?_) ?_ (fun _ h => h))

theorem processContinueLoop_nc : ∀ (n : Nat) (s : St), s.counting = true → wp (St.processContinueLoop n s) (fun s' => s'.counting = true) ECO
  | 0, s, hc => by simpa [St.processContinueLoop] using hc
  | n + 1, s, hc => by
    unfold St.processContinueLoop
    wp_simp
    split
    · simp [ECO]
    · wp_simp
      refine wp_mono (setAt_nc _ _ _ hc) ?_ (fun _ h => h)
      intro a ha
      exact processContinueLoop_nc n a ha
macro_rules | `(tactic| nc_prim) => `(tactic| with_reducible refine wp_mono (processContinueLoop_nc _ _ ?_) ?_ (fun _ h => h))

theorem processBreak_nc (s : St) (k : Nat) (hc : s.counting = true) : wp (s.processBreak k) (fun s' => s'.counting = true) ECO := by
  unfold St.processBreak
  nc_auto
macro_rules | `(tactic| nc_prim) => `(tactic| with_reducible refine wp_mono (processBreak_nc _ _ ?_) ?_ (fun _ h => h))

theorem processContinue_nc (s : St) (k : Nat) (hc : s.counting = true) : wp (s.processContinue k) (fun s' => s'.counting = true) ECO := by
  unfold St.processContinue
  nc_auto
macro_rules | `(tactic| nc_prim) => `(tactic| with_reducible refine wp_mono (processContinue_nc _ _ ?_) ?_ (fun _ h => h))

theorem emitBreak_nc (s : St) (hc : s.counting = true) : wp (s.emitBreak) (fun s' => s'.counting = true) ECO := by
  unfold St.emitBreak
  nc_auto
macro_rules | `(tactic| nc_prim) => `(tactic| with_reducible refine wp_mono (emitBreak_nc _ ?_) ?_ (fun _ h => h))

theorem emitContinue_nc (s : St) (hc : s.counting = true) : wp (s.emitContinue) (fun s' => s'.counting = true) ECO := by
  unfold St.emitContinue
  nc_auto
macro_rules | `(tactic| nc_prim) => `(tactic| with_reducible refine wp_mono (emitContinue_nc _ ?_) ?_ (fun _ h => h))

theorem addLabel_nc (s : St) (i : Nat) (p c : Bool) (hc : s.counting = true) :
    wp (s.addLabel i p c) (fun r => r.2.counting = true) ECO := by
  unfold St.addLabel; rw [if_pos hc]; exact hc
macro_rules | `(tactic| nc_prim) => `(tactic| with_reducible refine wp_mono (addLabel_nc _ _ _ _ ?_) ?_ (fun _ h => h))
theorem createSwitch_nc (s : St) (n : Nat) (hc : s.counting = true) :
    wp (s.createSwitch n) (fun r => r.2.counting = true) ECO := by
  unfold St.createSwitch; rw [if_pos hc]; exact hc
macro_rules | `(tactic| nc_prim) => `(tactic| with_reducible refine wp_mono (createSwitch_nc _ _ ?_) ?_ (fun _ h => h))
theorem createCatch_nc (s : St) (t n : Nat) (hc : s.counting = true) :
    wp (s.createCatch t n) (fun r => r.2.counting = true) ECO := by
  unfold St.createCatch; rw [if_pos hc]; exact hc
macro_rules | `(tactic| nc_prim) => `(tactic| with_reducible refine wp_mono (createCatch_nc _ _ _ ?_) ?_ (fun _ h => h))

/-! ## the emitter -/

structure NCN (n : Node) : Prop where
  e : ∀ s, s.counting = true → wp (emit n s) (fun s' => s'.counting = true) ECO
  r : ∀ s, s.counting = true → wp (emitRef n s) (fun s' => s'.counting = true) ECO
  a : ∀ s, s.counting = true → wp (emitAssign n s) (fun s' => s'.counting = true) ECO

structure NCL (xs : Nodes) : Prop where
  l : ∀ s, s.counting = true → wp (emitList xs s) (fun s' => s'.counting = true) ECO

set_option hygiene false in
macro "nc_steps" : tactic =>
  `(tactic| repeat' (first
    | (wp_simp; with_reducible refine wp_mono (ih1.e _ ?_) ?_ (fun _ h => h))
    | (wp_simp; with_reducible refine wp_mono (ih2.e _ ?_) ?_ (fun _ h => h))
    | (wp_simp; with_reducible refine wp_mono (ih3.e _ ?_) ?_ (fun _ h => h))
    | (wp_simp; with_reducible refine wp_mono (ih1.r _ ?_) ?_ (fun _ h => h))
    | (wp_simp; with_reducible refine wp_mono (ih1.a _ ?_) ?_ (fun _ h => h))
    | (wp_simp; with_reducible refine wp_mono (ih1.l _ ?_) ?_ (fun _ h => h))
    | (wp_simp; with_reducible refine wp_mono (ih2.l _ ?_) ?_ (fun _ h => h))
    | (wp_simp; nc_prim)
    | ((with_reducible show ∀ _, _ → _); intro _ _)
    | (wp_simp; (with_reducible show _ = true); cnt_true)
    | (wp_simp; (with_reducible show ECO _); simp [ECO]; done)
    | (wp_simp; (with_reducible show True); trivial)
    | (wp_simp; split)))

set_option hygiene false in
macro "nc_walk" : tactic =>
  `(tactic| first
    | (refine ⟨fun s hc => ?_, fun s hc => ?_, fun s hc => ?_⟩ <;> simp only [emit, emitRef, emitAssign] <;>
        (try simp only [if_pos hc]) <;> nc_steps)
    | (refine ⟨fun s hc => ?_⟩; simp only [emitList]; nc_steps))

theorem nc_none   : NCN (.none ) := by
  nc_walk

theorem nc_next (n : Node) (ih1 : NCN n) : NCN (.next n) := by
  nc_walk

theorem nc_list (xs : Nodes) (ih1 : NCL xs) : NCN (.list xs) := by
  nc_walk

theorem nc_label (idx : Nat) (hasPs : Bool) (ps : Nodes) (ih1 : NCL ps) : NCN (.label idx hasPs ps) := by
  nc_walk

theorem nc_plabel (idx : Nat) (hasPs : Bool) (ps : Nodes) (ih1 : NCL ps) : NCN (.plabel idx hasPs ps) := by
  nc_walk

theorem nc_case (kind : Nat) (idx : Nat) (ty : Nat) (hasPs : Bool) (ps : Nodes) (ih1 : NCL ps) : NCN (.case kind idx ty hasPs ps) := by
  nc_walk

theorem nc_assign (lhs : Node) (rhs : Node) (ih1 : NCN lhs) (ih2 : NCN rhs) : NCN (.assign lhs rhs) := by
  nc_walk

theorem nc_if (c : Node) (t : Node) (ih1 : NCN c) (ih2 : NCN t) : NCN (.if_ c t) := by
  nc_walk

theorem nc_ifelse (c : Node) (t : Node) (e : Node) (ih1 : NCN c) (ih2 : NCN t) (ih3 : NCN e) : NCN (.ifelse c t e) := by
  nc_walk

theorem nc_while (c : Node) (b : Node) (i : Node) (ih1 : NCN c) (ih2 : NCN b) (ih3 : NCN i) : NCN (.while_ c b i) := by
  nc_walk

theorem nc_do (b : Node) (c : Node) (ih1 : NCN b) (ih2 : NCN c) : NCN (.do_ b c) := by
  nc_walk

theorem nc_and (a : Node) (b : Node) (ih1 : NCN a) (ih2 : NCN b) : NCN (.and_ a b) := by
  nc_walk

theorem nc_or (a : Node) (b : Node) (ih1 : NCN a) (ih2 : NCN b) : NCN (.or_ a b) := by
  nc_walk

theorem nc_mcmd (ev : Nat) (l : Node) (hasPs : Bool) (ps : Nodes) (ih1 : NCN l) (ih2 : NCL ps) : NCN (.mcmd ev l hasPs ps) := by
  nc_walk

theorem nc_mcmdx (ev : Nat) (l : Node) (hasPs : Bool) (ps : Nodes) (ih1 : NCN l) (ih2 : NCL ps) : NCN (.mcmdx ev l hasPs ps) := by
  nc_walk

theorem nc_cmd (ev : Nat) (hasPs : Bool) (ps : Nodes) (ih1 : NCL ps) : NCN (.cmd ev hasPs ps) := by
  nc_walk

theorem nc_cmdx (ev : Nat) (hasPs : Bool) (ps : Nodes) (ih1 : NCL ps) : NCN (.cmdx ev hasPs ps) := by
  nc_walk

theorem nc_field (idx : Nat) (ev : Nat) (rd : Nat) (wr : Nat) (l : Node) (ih1 : NCN l) : NCN (.field idx ev rd wr l) := by
  nc_walk

theorem nc_listener (b : Nat)  : NCN (.listener b) := by
  nc_walk

theorem nc_str (idx : Nat)  : NCN (.str idx) := by
  nc_walk

theorem nc_int (v : Nat)  : NCN (.int v) := by
  nc_walk

theorem nc_float (bits : Nat)  : NCN (.float bits) := by
  nc_walk

theorem nc_vec (a : Node) (b : Node) (c : Node) (ih1 : NCN a) (ih2 : NCN b) (ih3 : NCN c) : NCN (.vec a b c) := by
  nc_walk

theorem nc_nil   : NCN (.nil ) := by
  nc_walk

theorem nc_null   : NCN (.null ) := by
  nc_walk

theorem nc_f1 (op : Nat) (x : Node) (ih1 : NCN x) : NCN (.f1 op x) := by
  nc_walk

theorem nc_f2 (op : Nat) (a : Node) (b : Node) (ih1 : NCN a) (ih2 : NCN b) : NCN (.f2 op a b) := by
  nc_walk

theorem nc_not (x : Node) (ih1 : NCN x) : NCN (.not_ x) := by
  nc_walk

theorem nc_idx (a : Node) (i : Node) (ih1 : NCN a) (ih2 : NCN i) : NCN (.idx a i) := by
  nc_walk

theorem nc_carr (a : Node) (xs : Nodes) (ih1 : NCN a) (ih2 : NCL xs) : NCN (.carr a xs) := by
  nc_walk

theorem nc_marr (xs : Nodes) (ih1 : NCL xs) : NCN (.marr xs) := by
  nc_walk

theorem nc_try (b : Node) (c : Node) (ih1 : NCN b) (ih2 : NCN c) : NCN (.try_ b c) := by
  nc_walk

theorem nc_switch (e : Node) (b : Node) (ih1 : NCN e) (ih2 : NCN b) : NCN (.switch e b) := by
  nc_walk

theorem nc_brk   : NCN (.brk ) := by
  nc_walk

theorem nc_cont   : NCN (.cont ) := by
  nc_walk

theorem nc_unknown (t : Nat)  : NCN (.unknown t) := by
  nc_walk

theorem nc_lnil : NCL .nil := by
  nc_walk

theorem nc_lcons (x : Node) (xs : Nodes) (ih1 : NCN x) (ih2 : NCL xs) : NCL (.cons x xs) := by
  nc_walk

theorem nc_all (n : Node) : NCN n :=
  Node.rec (motive_1 := NCN) (motive_2 := NCL)
    nc_none nc_next nc_list nc_label nc_plabel nc_case nc_assign nc_if nc_ifelse nc_while nc_do nc_and nc_or nc_mcmd nc_mcmdx nc_cmd nc_cmdx nc_field nc_listener nc_str nc_int nc_float nc_vec nc_nil nc_null nc_f1 nc_f2 nc_not nc_idx nc_carr nc_marr nc_try nc_switch nc_brk nc_cont nc_unknown
    nc_lnil nc_lcons n

theorem nc_allL (xs : Nodes) : NCL xs :=
  Nodes.rec (motive_1 := NCN) (motive_2 := NCL)
    nc_none nc_next nc_list nc_label nc_plabel nc_case nc_assign nc_if nc_ifelse nc_while nc_do nc_and nc_or nc_mcmd nc_mcmdx nc_cmd nc_cmdx nc_field nc_listener nc_str nc_int nc_float nc_vec nc_nil nc_null nc_f1 nc_f2 nc_not nc_idx nc_carr nc_marr nc_try nc_switch nc_brk nc_cont nc_unknown
    nc_lnil nc_lcons xs


end Morfuse.Emit
