import MorfuseModel.Emit.Window
import MorfuseModel.Emit.Mono
/-!
# Simulation between the counting pass and the program pass: primitives
-/
namespace Morfuse.Emit
open Morfuse.Gen.EmitConsts

set_option maxRecDepth 8000

/-- the outcome is not a write past the code buffer (`assert(code_pos + size <= prog_end_ptr)`, hook H3 kind 1) -/
def ECO (e : Err) : Prop := e ≠ .ub .codeOverflow

/-- the coupling of a counting-manager state `c` and a program-manager state `p` at corresponding points of the two
passes; `L` is the length of the program buffer -/
structure Rel (L : Nat) (c p : St) : Prop where
  cc : c.counting = true
  pc : p.counting = false
  w : W c p
  gross : pl c = p.gross
  pos : p.pos ≤ p.gross
  len : p.progLen = L
  nb : c.nBrk = p.nBrk
  nc : c.nCont = p.nCont
  cb : c.canBreak = p.canBreak
  cct : c.canContinue = p.canContinue
  sd : c.switchDepth = p.switchDepth

/-- lock-step judgement: whenever the counting side returns `c'` and the final count stays within the buffer, the
program side returns a related state or fails with something else than a code overflow -/
def J (L : Nat) (x y : R St) (Q : St → St → Prop) : Prop :=
  ∀ c', x = .ok c' → pl c' ≤ L → wp y (fun p' => Q c' p') ECO

theorem J.bind {L : Nat} {x1 y1 : R St} {f1 f2 : St → R St} {Q1 Q : St → St → Prop}
    (h1 : J L x1 y1 Q1) (hm : ∀ c1, Mono c1 (f1 c1)) (h2 : ∀ c1 p1, Q1 c1 p1 → J L (f1 c1) (f2 p1) Q) :
    J L (x1 >>= f1) (y1 >>= f2) Q := by
  intro c'' hx hL
  cases hx1 : x1 with
  | error e => rw [hx1] at hx; cases hx
  | ok c1 =>
    rw [hx1] at hx
    have hf : f1 c1 = .ok c'' := hx
    have hmono : pl c1 ≤ pl c'' := by have := hm c1; rw [hf] at this; exact this
    have := h1 c1 hx1 (by omega)
    rw [wp_bind]
    exact wp_mono this (fun p1 hp1 => h2 c1 p1 hp1 c'' hf hL) (fun _ h => h)

theorem J.mono {L : Nat} {x y : R St} {Q Q' : St → St → Prop} (h : J L x y Q) (hq : ∀ c p, Q c p → Q' c p) : J L x y Q' :=
  fun c' hx hL => wp_mono (h c' hx hL) (fun p hp => hq c' p hp) (fun _ h => h)

theorem J.ok {L : Nat} {c p : St} {Q : St → St → Prop} (h : Q c p) : J L (.ok c) (.ok p) Q := by
  intro c' hx _; cases hx; exact h

theorem J.error_left {L : Nat} {e : Err} {y : R St} {Q : St → St → Prop} : J L (.error e) y Q := by
  intro c' hx; cases hx

theorem J.error_right {L : Nat} {x : R St} {e : Err} {Q : St → St → Prop} (h : ECO e) : J L x (.error e) Q :=
  fun _ _ _ => h

theorem J.ite {L : Nat} {cnd : Prop} [Decidable cnd] {a b a' b' : R St} {Q : St → St → Prop}
    (ht : cnd → J L a a' Q) (hf : ¬ cnd → J L b b' Q) : J L (if cnd then a else b) (if cnd then a' else b') Q := by
  by_cases h : cnd
  · simp only [h, ↓reduceIte]; exact ht h
  · simp only [h, ↓reduceIte]; exact hf h

/-! ## changes that keep the coupling -/

theorem W.congr {c p c' p' : St} (h : W c p) (h1 : c'.prev = c.prev) (h2 : c'.prevPos = c.prevPos)
    (h3 : p'.prev = p.prev) (h4 : p'.prevPos = p.prevPos)
    (hbc : BOk c → BOk c' := by exact fun hb => ⟨hb.rsize, hb.rcur, hb.bsize⟩)
    (hbp : BOk p → BOk p' := by exact fun hb => ⟨hb.rsize, hb.rcur, hb.bsize⟩) : W c' p' := by
  have e1 : ∀ k, ent c' k = ent c k := fun k => by simp [ent, h1, h2]
  have e2 : ∀ k, ent p' k = ent p k := fun k => by simp [ent, h3, h4]
  obtain ⟨d, hd, hag, ha, hb⟩ := h.agree
  exact ⟨⟨by rw [h1]; exact h.vc.size, by rw [h2]; exact h.vc.pos⟩, ⟨by rw [h3]; exact h.vp.size, by rw [h4]; exact h.vp.pos⟩,
    hbc h.bc, hbp h.bp, d, hd, fun k hk => by rw [e1, e2]; exact hag k hk, by rw [e1]; exact ha, by rw [e2]; exact hb⟩

theorem ringWrite_fields (bs : List Nat) (s : St) :
    (s.ringWrite bs).prev = s.prev ∧ (s.ringWrite bs).prevPos = s.prevPos ∧ (s.ringWrite bs).info = s.info ∧
    (s.ringWrite bs).counting = s.counting ∧ (s.ringWrite bs).nBrk = s.nBrk ∧ (s.ringWrite bs).nCont = s.nCont ∧
    (s.ringWrite bs).canBreak = s.canBreak ∧ (s.ringWrite bs).canContinue = s.canContinue ∧
    (s.ringWrite bs).switchDepth = s.switchDepth := by
  induction bs generalizing s with
  | nil => simp [St.ringWrite]
  | cons b bs ih =>
    unfold St.ringWrite
    have := ih { s with ring := s.ring.set s.ringCur b, ringCur := (s.ringCur + 1) % ringSize }
    simpa using this

theorem ringWrite_bok (bs : List Nat) (s : St) (h : BOk s) : BOk (s.ringWrite bs) := by
  induction bs generalizing s with
  | nil => exact h
  | cons b bs ih =>
    unfold St.ringWrite
    refine ih _ ⟨by simp [Tbl.set, h.rsize], ?_, h.bsize⟩
    simp only [ringSize_eq]; omega

theorem foldSet_size (bs : List Nat) (t : Tbl Nat) (k : Nat) :
    (bs.foldl (fun (acc : Tbl Nat × Nat) b => (acc.1.set acc.2 b, acc.2 + 1)) (t, k)).1.data.size = t.data.size := by
  induction bs generalizing t k with
  | nil => rfl
  | cons b bs ih => simp only [List.foldl_cons]; rw [ih]; simp [Tbl.set]

theorem write_counting (c : St) (bs : List Nat) (h : c.counting = true) :
    c.write bs = .ok (({ c with info := { c.info with progLength := c.info.progLength + bs.length } } : St).ringWrite bs) := by
  unfold St.write; rw [if_pos h]

theorem write_program (p : St) (bs : List Nat) (h : p.counting = false) :
    p.write bs = if p.pos + bs.length > p.progLen then .error (.ub .codeOverflow) else
      .ok { p with buf := (bs.foldl (fun (acc : Tbl Nat × Nat) b => (acc.1.set acc.2 b, acc.2 + 1)) (p.buf, p.pos)).1,
                   pos := p.pos + bs.length, gross := p.gross + bs.length, fresh := p.fresh + bs.length } := by
  unfold St.write; rw [if_neg (by simp [h])]

/-- `WriteOpcodeValue`: the two passes may write different bytes (string indices), but the same number of them -/
theorem J_write {L : Nat} {c p : St} (h : Rel L c p) (bs1 bs2 : List Nat) (hl : bs1.length = bs2.length) :
    J L (c.write bs1) (p.write bs2) (Rel L) := by
  intro c' hx hL
  rw [write_counting c bs1 h.cc] at hx
  rw [write_program p bs2 h.pc]
  injection hx with hx
  subst hx
  obtain ⟨r1, r2, r3, r4, r5, r6, r7, r8, r9⟩ := ringWrite_fields bs1
    { c with info := { c.info with progLength := c.info.progLength + bs1.length } }
  have hpl : pl c + bs1.length ≤ L := by
    have : pl (({ c with info := { c.info with progLength := c.info.progLength + bs1.length } } : St).ringWrite bs1)
        = c.info.progLength + bs1.length := by simp only [pl, r3]
    rw [this] at hL; exact hL
  have hg := h.gross; have hp := h.pos; have hlen := h.len
  rw [if_neg (by omega)]
  simp only [wp_ok]
  refine ⟨by rw [r4]; exact h.cc, h.pc, h.w.congr r1 r2 rfl rfl
      (fun hb => ringWrite_bok _ _ ⟨hb.rsize, hb.rcur, hb.bsize⟩)
      (fun hb => ⟨hb.rsize, hb.rcur, by simp only [foldSet_size]; exact hb.bsize⟩), ?_, ?_, h.len, by rw [r5]; exact h.nb, by rw [r6]; exact h.nc,
    by rw [r7]; exact h.cb, by rw [r8]; exact h.cct, by rw [r9]; exact h.sd⟩
  · simp only [pl, r3]; simp only [pl] at hg; omega
  · simp only; omega

theorem Rel.moveFwd {L : Nat} {c p : St} (h : Rel L c p) (k : Nat) : Rel L (c.moveFwd k) (p.moveFwd k) := by
  unfold St.moveFwd
  rw [if_pos h.cc, if_neg (by simp [h.pc])]
  have hg := h.gross; have hp := h.pos
  exact ⟨h.cc, h.pc, h.w.congr rfl rfl rfl rfl (fun hb => ⟨hb.rsize, by simp only [ringSize_eq]; omega, hb.bsize⟩),
    by simp only [pl] at *; omega, by simp only; omega, h.len, h.nb, h.nc, h.cb, h.cct, h.sd⟩

theorem Rel.accumulate {L : Nat} {c p : St} (h : Rel L c p) (op : Nat) (off : Int) :
    Rel L (c.accumulate op off) (p.accumulate op off) :=
  ⟨h.cc, h.pc, h.w.accumulate op off, h.gross, h.pos, h.len, h.nb, h.nc, h.cb, h.cct, h.sd⟩

theorem Rel.trackStack {L : Nat} {c p : St} (h : Rel L c p) (e : Bool) (o1 o2 : Int) :
    Rel L (c.trackStack e o1) (p.trackStack e o2) := by
  unfold St.trackStack
  cases e <;> exact ⟨h.cc, h.pc, h.w.congr rfl rfl rfl rfl, h.gross, h.pos, h.len, h.nb, h.nc, h.cb, h.cct, h.sd⟩

theorem Rel.addString {L : Nat} {c p : St} (h : Rel L c p) (i : Nat) : Rel L (c.addString i).2 (p.addString i).2 := by
  unfold St.addString
  rw [if_pos h.cc, if_neg (by simp [h.pc])]
  exact ⟨h.cc, h.pc, h.w.congr rfl rfl rfl rfl, h.gross, h.pos, h.len, h.nb, h.nc, h.cb, h.cct, h.sd⟩

theorem J_moveBack {L : Nat} {c p : St} (h : Rel L c p) (k1 k2 : Nat) (hk : True) :
    J L (c.moveBack k1) (p.moveBack k2) (fun c' p' => Rel L c' p' ∧ c'.prev = c.prev ∧ c'.prevPos = c.prevPos ∧
      p'.prev = p.prev ∧ p'.prevPos = p.prevPos) := by
  intro c' hx hL
  unfold St.moveBack at hx ⊢
  rw [if_pos h.cc] at hx
  rw [if_neg (by simp [h.pc])]
  injection hx with hx
  subst hx
  split
  · simp [ECO]
  · have hp := h.pos
    rw [wp_ok]
    exact ⟨⟨h.cc, h.pc, h.w.congr rfl rfl rfl rfl (fun hb => ⟨hb.rsize, by simp only [ringSize_eq]; omega, hb.bsize⟩),
      h.gross, by simp only; omega, h.len, h.nb, h.nc, h.cb, h.cct, h.sd⟩, rfl, rfl, rfl, rfl⟩

theorem J_setAt {L : Nat} {c p : St} (h : Rel L c p) (a1 a2 : Nat) (bs1 bs2 : List Nat) :
    J L (c.setAt a1 bs1) (p.setAt a2 bs2) (Rel L) := by
  intro c' hx hL
  unfold St.setAt at hx ⊢
  rw [if_pos h.cc] at hx
  rw [if_neg (by simp [h.pc])]
  injection hx with hx
  subst hx
  split
  · simp [ECO]
  · simp only [wp_ok]
    exact ⟨h.cc, h.pc, h.w.congr rfl rfl rfl rfl (fun hb => ⟨hb.rsize, hb.rcur, hb.bsize⟩)
      (fun hb => ⟨hb.rsize, hb.rcur, by simp only [foldSet_size]; exact hb.bsize⟩), h.gross, h.pos, h.len, h.nb, h.nc, h.cb, h.cct, h.sd⟩

theorem J_clearPrev {L : Nat} {c p : St} (h : Rel L c p) : J L c.clearPrev p.clearPrev (Rel L) := by
  rw [clearPrev_eq c h.w.vc, clearPrev_eq p h.w.vp]
  exact J.ok ⟨h.cc, h.pc, W.cleared h.w, h.gross, h.pos, h.len, h.nb, h.nc, h.cb, h.cct, h.sd⟩

@[simp] theorem le_length (k n : Nat) : (le k n).length = k := by
  induction k generalizing n with
  | zero => rfl
  | succ k ih => simp [le, ih]

/-! ## lock-step through a straight-line body -/

/-- close a `Rel` side goal from a `Rel` fact in the context and the pure steps in between -/
syntax "rel_close" : tactic
macro_rules | `(tactic| rel_close) => `(tactic| assumption)
macro_rules | `(tactic| rel_close) => `(tactic| ((with_reducible show Rel _ (St.moveFwd _ _) (St.moveFwd _ _)); refine Rel.moveFwd ?_ _; rel_close))
macro_rules | `(tactic| rel_close) => `(tactic| ((with_reducible show Rel _ (St.accumulate _ _ _) (St.accumulate _ _ _)); refine Rel.accumulate ?_ _ _; rel_close))
macro_rules | `(tactic| rel_close) => `(tactic| ((with_reducible show Rel _ (St.trackStack _ _ _) (St.trackStack _ _ _)); refine Rel.trackStack ?_ _ _ _; rel_close))
macro_rules | `(tactic| rel_close) => `(tactic| ((with_reducible show Rel _ (Prod.snd (St.addString _ _)) (Prod.snd (St.addString _ _))); refine Rel.addString ?_ _; rel_close))

/-- one lock-step step: `j_prim` applies the lemma of the primitive at the head of both sides, as the first half of a
bind or as the last step -/
syntax "j_prim" : tactic
macro_rules | `(tactic| j_prim) => `(tactic| first
  | (with_reducible refine J.bind (J_write ?_ _ _ ?_) ?_ ?_)
  | (with_reducible refine J_write ?_ _ _ ?_))
macro_rules | `(tactic| j_prim) => `(tactic| first
  | (with_reducible refine J.bind (J_setAt ?_ _ _ _ _) ?_ ?_)
  | (with_reducible refine J_setAt ?_ _ _ _ _))
macro_rules | `(tactic| j_prim) => `(tactic| first
  | (with_reducible refine J.bind (J_clearPrev ?_) ?_ ?_)
  | (with_reducible refine J_clearPrev ?_))

/-- prove `tested op = true` from a test on `op` in the context -/
macro "tested_close" : tactic =>
  `(tactic| (refine decide_eq_true ?_; simp only [OP_STORE_INT0, OP_STORE_INT8, OP_BOOL_TO_VAR, OP_BOOL_STORE_TRUE, OP_BOOL_STORE_FALSE, OP_BOOL_UN_NOT,
    OP_UN_CAST_BOOLEAN, OP_STORE_FLOAT, OP_DONE, OP_LOAD_GAME_VAR] at *; omega))

/-- one step of the lock-step walk -/
macro "j_alt" : tactic =>
  `(tactic| first
    | j_prim
    | (with_reducible refine J.ite (fun _ => ?_) (fun _ => ?_))
    | ((with_reducible show Rel _ _ _); rel_close)
    | ((with_reducible show tested _ = true); tested_close)
    | ((with_reducible show St.nBrk _ = St.nBrk _); first | rfl | exact Rel.nb (by assumption))
    | ((with_reducible show St.nCont _ = St.nCont _); first | rfl | exact Rel.nc (by assumption))
    | ((with_reducible show List.length _ = List.length _); simp; done)
    | ((with_reducible show ∀ _, Mono _ _); intro _; pl_auto)
    | ((with_reducible show ∀ _ _, _ → J _ _ _ _); intro _ _ _)
    | ((with_reducible show J _ (Except.error _) _ _); exact J.error_left)
    | ((with_reducible show J _ _ (Except.error _) _); refine J.error_right ?_; simp [ECO]; done))

macro "j_steps" : tactic => `(tactic| repeat' j_alt)

/-- normalise both sides of a lock-step goal -/
macro "j_simp" : tactic =>
  `(tactic| try simp only [ok_bind, error_bind, throw_eq, pure_eq])

theorem J_emitOpWith {L : Nat} {c p : St} (h : Rel L c p) (op : Nat) (off : Int) :
    J L (c.emitOpWith op off) (p.emitOpWith op off) (Rel L) := by
  unfold St.emitOpWith
  simp only [ok_bind, error_bind, throw_eq, pure_eq, h.cc, h.pc, Bool.not_true, Bool.false_and, Bool.false_eq_true,
    ↓reduceIte, Bool.not_false, Bool.true_and]
  cases hE : opExt? (op % 256) with
  | none => exact J.error_left
  | some e =>
    simp only []
    split
    · refine J.error_right ?_; simp [ECO]
    · j_steps

theorem J_emitOp {L : Nat} {c p : St} (h : Rel L c p) (op : Nat) : J L (c.emitOp op) (p.emitOp op) (Rel L) := by
  unfold St.emitOp
  j_simp
  cases hS : opStack? (op % 256) with
  | none => exact J.error_left
  | some o => exact J_emitOpWith h _ _
macro_rules | `(tactic| j_prim) => `(tactic| first
  | (with_reducible refine J.bind (J_emitOp ?_ _) ?_ ?_)
  | (with_reducible refine J_emitOp ?_ _))
macro_rules | `(tactic| j_prim) => `(tactic| first
  | (with_reducible refine J.bind (J_emitOpWith ?_ _ _) ?_ ?_)
  | (with_reducible refine J_emitOpWith ?_ _ _))

theorem J_emitOpBytes {L : Nat} {c p : St} (h : Rel L c p) (op : Nat) (bs1 bs2 : List Nat) (hl : bs1.length = bs2.length) :
    J L (c.emitOpBytes op bs1) (p.emitOpBytes op bs2) (Rel L) := by
  unfold St.emitOpBytes
  refine J.bind (J_emitOp h _) (fun _ => by pl_auto) (fun c1 p1 h1 => J_write h1 _ _ hl)
macro_rules | `(tactic| j_prim) => `(tactic| first
  | (with_reducible refine J.bind (J_emitOpBytes ?_ _ _ _ ?_) ?_ ?_)
  | (with_reducible refine J_emitOpBytes ?_ _ _ _ ?_))

theorem J_emitInteger {L : Nat} {c p : St} (h : Rel L c p) (v : Nat) : J L (c.emitInteger v) (p.emitInteger v) (Rel L) := by
  unfold St.emitInteger
  j_steps
macro_rules | `(tactic| j_prim) => `(tactic| first
  | (with_reducible refine J.bind (J_emitInteger ?_ _) ?_ ?_)
  | (with_reducible refine J_emitInteger ?_ _))

/-! ## the peephole steps: both passes read the same top entry as far as their tests can tell -/

theorem Rel.topCases {L : Nat} {c p : St} (h : Rel L c p) :
    (ent p 0 = ent c 0) ∨ (tested (ent c 0).op = false ∧ tested (ent p 0).op = false) := by
  rcases h.w.top with h1 | h2
  · exact .inl h1.symm
  · exact .inr h2

theorem untested_elim {op : Nat} (h : tested op = false) :
    op ≠ OP_STORE_INT0 ∧ ¬ (op > OP_STORE_INT0 ∧ op ≤ OP_STORE_INT8) ∧ op ≠ OP_BOOL_TO_VAR ∧ op ≠ OP_BOOL_STORE_TRUE ∧
    ¬ (op > OP_BOOL_STORE_TRUE ∧ op = OP_BOOL_UN_NOT) ∧ op ≠ OP_BOOL_STORE_FALSE ∧ op ≠ OP_BOOL_UN_NOT ∧
    op ≠ OP_UN_CAST_BOOLEAN ∧ op ≠ OP_DONE := by
  have h' := of_decide_eq_false h
  simp only [OP_STORE_INT0, OP_STORE_INT8, OP_BOOL_TO_VAR, OP_BOOL_STORE_TRUE, OP_BOOL_STORE_FALSE,
    OP_BOOL_UN_NOT, OP_UN_CAST_BOOLEAN, OP_STORE_FLOAT, OP_DONE, OP_LOAD_GAME_VAR] at h' ⊢
  omega

theorem Rel.setVarStack {L : Nat} {c p : St} (h : Rel L c p) (v1 v2 : Int) :
    Rel L { c with varStack := v1 } { p with varStack := v2 } :=
  ⟨h.cc, h.pc, h.w.congr rfl rfl rfl rfl, h.gross, h.pos, h.len, h.nb, h.nc, h.cb, h.cct, h.sd⟩

theorem J_absorb {L : Nat} {c p : St} (h : Rel L c p) (ht : tested (ent c 0).op = true) :
    J L c.absorb p.absorb (Rel L) := by
  have heq : ent p 0 = ent c 0 := by
    rcases h.topCases with h1 | ⟨h2, _⟩
    · exact h1
    · rw [ht] at h2; cases h2
  unfold St.absorb
  rw [prevOp_eq c h.w.vc, prevOp_eq p h.w.vp, heq]
  simp only [ok_bind]
  cases hlen : opLen? (ent c 0).op with
  | none => exact J.error_left
  | some len =>
    simp only [ok_bind]
    refine J.bind (J_moveBack (h.setVarStack _ _) len len trivial) (fun _ => by pl_auto) ?_
    intro c1 p1 ⟨hr, e1, e2, e3, e4⟩
    refine J.ok ?_
    have hw : W c1.pop p1.pop := by
      refine W.pop hr.w ?_
      have : ent c1 0 = ent c 0 := by simp [ent, e1, e2]
      rw [this]; exact ht
    exact ⟨hr.cc, hr.pc, hw.congr rfl rfl rfl rfl, hr.gross, hr.pos, hr.len, hr.nb, hr.nc, hr.cb, hr.cct, hr.sd⟩

set_option hygiene false in
/-- split a lock-step goal on what the two top entries are: equal, or both untested (`h : Rel L c p`) -/
macro "top_cases" : tactic =>
  `(tactic| (rw [prevOp_eq _ h.w.vc, prevOp_eq _ h.w.vp]; simp only [ok_bind]; rcases Rel.topCases h with heq | hu))

set_option hygiene false in
macro "top_eq" : tactic => `(tactic| rw [heq])
set_option hygiene false in
macro "top_untested" : tactic =>
  `(tactic| (have f1 := untested_elim hu.1; have f2 := untested_elim hu.2; simp only [f1, f2, ↓reduceIte, not_true_eq_false, not_false_eq_true, false_and, and_false, if_false, if_true, ne_eq]))

macro_rules | `(tactic| j_prim) => `(tactic| first
  | (with_reducible refine J.bind (J_absorb ?_ ?_) ?_ ?_)
  | (with_reducible refine J_absorb ?_ ?_))

theorem J_varToBool {L : Nat} {c p : St} (h : Rel L c p) : J L c.varToBool p.varToBool (Rel L) := by
  unfold St.varToBool
  top_cases
  · top_eq; j_steps
  · top_untested; j_steps

macro_rules | `(tactic| j_prim) => `(tactic| first
  | (with_reducible refine J.bind (J_varToBool ?_) ?_ ?_)
  | (with_reducible refine J_varToBool ?_))

theorem J_boolNot {L : Nat} {c p : St} (h : Rel L c p) : J L c.boolNot p.boolNot (Rel L) := by
  unfold St.boolNot
  top_cases
  · top_eq; j_steps
  · top_untested; j_steps
macro_rules | `(tactic| j_prim) => `(tactic| first
  | (with_reducible refine J.bind (J_boolNot ?_) ?_ ?_)
  | (with_reducible refine J_boolNot ?_))

theorem J_boolToVar {L : Nat} {c p : St} (h : Rel L c p) : J L c.boolToVar p.boolToVar (Rel L) := by
  unfold St.boolToVar
  top_cases
  · top_eq; j_steps; exact J.ok (by rel_close)
  · top_untested; exact J.ok (by rel_close)
macro_rules | `(tactic| j_prim) => `(tactic| first
  | (with_reducible refine J.bind (J_boolToVar ?_) ?_ ?_)
  | (with_reducible refine J_boolToVar ?_))

theorem J_boolJump {L : Nat} {c p : St} (h : Rel L c p) (t : Bool) : J L (c.boolJump t) (p.boolJump t) (Rel L) := by
  unfold St.boolJump
  top_cases
  · top_eq; j_steps
  · top_untested; j_steps
macro_rules | `(tactic| j_prim) => `(tactic| first
  | (with_reducible refine J.bind (J_boolJump ?_ _) ?_ ?_)
  | (with_reducible refine J_boolJump ?_ _))

theorem J_emitNot {L : Nat} {c p : St} (h : Rel L c p) : J L c.emitNot p.emitNot (Rel L) := by
  unfold St.emitNot
  top_cases
  · top_eq; j_steps
  · top_untested; j_steps
macro_rules | `(tactic| j_prim) => `(tactic| first
  | (with_reducible refine J.bind (J_emitNot ?_) ?_ ?_)
  | (with_reducible refine J_emitNot ?_))

theorem J_emitEof {L : Nat} {c p : St} (h : Rel L c p) : J L c.emitEof p.emitEof (Rel L) := by
  unfold St.emitEof
  top_cases
  · top_eq; j_steps; exact J.ok (by assumption)
  · top_untested; j_steps
macro_rules | `(tactic| j_prim) => `(tactic| first
  | (with_reducible refine J.bind (J_emitEof ?_) ?_ ?_)
  | (with_reducible refine J_emitEof ?_))

theorem J_addJumpLocation {L : Nat} {c p : St} (h : Rel L c p) (a1 a2 : Nat) :
    J L (c.addJumpLocation a1) (p.addJumpLocation a2) (Rel L) := by
  unfold St.addJumpLocation
  j_steps
macro_rules | `(tactic| j_prim) => `(tactic| first
  | (with_reducible refine J.bind (J_addJumpLocation ?_ _ _) ?_ ?_)
  | (with_reducible refine J_addJumpLocation ?_ _ _))

theorem J_emitJumpBack {L : Nat} {c p : St} (h : Rel L c p) (a1 a2 : Nat) :
    J L (c.emitJumpBack a1) (p.emitJumpBack a2) (Rel L) := by
  unfold St.emitJumpBack
  j_steps
macro_rules | `(tactic| j_prim) => `(tactic| first
  | (with_reducible refine J.bind (J_emitJumpBack ?_ _ _) ?_ ?_)
  | (with_reducible refine J_emitJumpBack ?_ _ _))

theorem J_emitFunc1 {L : Nat} {c p : St} (h : Rel L c p) (op : Nat) (hop : op ≠ OP_UN_MINUS) :
    J L (c.emitFunc1 op) (p.emitFunc1 op) (Rel L) := by
  unfold St.emitFunc1
  simp only [hop, ↓reduceIte]
  exact J_emitOp h op

theorem J_emitParameter {L : Nat} {c p : St} (h : Rel L c p) (n : Node) :
    J L (c.emitParameter n) (p.emitParameter n) (Rel L) := by
  unfold St.emitParameter
  split
  · j_steps
  · exact J.error_left
  · exact J.error_left
macro_rules | `(tactic| j_prim) => `(tactic| first
  | (with_reducible refine J.bind (J_emitParameter ?_ _) ?_ ?_)
  | (with_reducible refine J_emitParameter ?_ _))

theorem J_emitParameters : ∀ (ps : Nodes) {L : Nat} {c p : St}, Rel L c p →
    J L (St.emitParameters ps c) (St.emitParameters ps p) (Rel L)
  | .nil, _, _, _, h => by unfold St.emitParameters; exact J.ok h
  | .cons x xs, _, _, _, h => by
    unfold St.emitParameters
    exact J.bind (J_emitParameter h x) (fun _ => by pl_auto) (fun c1 p1 h1 => J_emitParameters xs h1)
macro_rules | `(tactic| j_prim) => `(tactic| first
  | (with_reducible refine J.bind (J_emitParameters _ ?_) ?_ ?_)
  | (with_reducible refine J_emitParameters _ ?_))

theorem J_emitLabelParameterList {L : Nat} {c p : St} (h : Rel L c p) (hp : Bool) (ps : Nodes) :
    J L (c.emitLabelParameterList hp ps) (p.emitLabelParameterList hp ps) (Rel L) := by
  unfold St.emitLabelParameterList
  j_steps
  all_goals (try exact J.ok (by assumption))
macro_rules | `(tactic| j_prim) => `(tactic| first
  | (with_reducible refine J.bind (J_emitLabelParameterList ?_ _ _) ?_ ?_)
  | (with_reducible refine J_emitLabelParameterList ?_ _ _))

theorem J_emitExec {L : Nat} {c p : St} (h : Rel L c p) (a b n : Nat) (off : Int) (ev : Nat) :
    J L (c.emitExec a b n off ev) (p.emitExec a b n off ev) (Rel L) := by
  unfold St.emitExec
  split
  · j_steps
  · j_steps
macro_rules | `(tactic| j_prim) => `(tactic| first
  | (with_reducible refine J.bind (J_emitExec ?_ _ _ _ _ _) ?_ ?_)
  | (with_reducible refine J_emitExec ?_ _ _ _ _ _))

/-! ## fix-up tables -/

theorem J_addBreak {L : Nat} {c p : St} (h : Rel L c p) (a1 a2 : Nat) : J L (c.addBreak a1) (p.addBreak a2) (Rel L) := by
  unfold St.addBreak
  rw [← h.nb]
  refine J.ite (fun _ => J.ok ?_) (fun _ => J.error_left)
  exact ⟨h.cc, h.pc, h.w.congr rfl rfl rfl rfl, h.gross, h.pos, h.len, by simp [h.nb], h.nc, h.cb, h.cct, h.sd⟩
macro_rules | `(tactic| j_prim) => `(tactic| first
  | (with_reducible refine J.bind (J_addBreak ?_ _ _) ?_ ?_)
  | (with_reducible refine J_addBreak ?_ _ _))

theorem J_addContinue {L : Nat} {c p : St} (h : Rel L c p) (a1 a2 : Nat) : J L (c.addContinue a1) (p.addContinue a2) (Rel L) := by
  unfold St.addContinue
  rw [← h.nc]
  refine J.ite (fun _ => J.ok ?_) (fun _ => J.error_left)
  exact ⟨h.cc, h.pc, h.w.congr rfl rfl rfl rfl, h.gross, h.pos, h.len, h.nb, by simp [h.nc], h.cb, h.cct, h.sd⟩
macro_rules | `(tactic| j_prim) => `(tactic| first
  | (with_reducible refine J.bind (J_addContinue ?_ _ _) ?_ ?_)
  | (with_reducible refine J_addContinue ?_ _ _))

theorem J_processBreakLoop : ∀ (n : Nat) {L : Nat} {c p : St}, Rel L c p →
    J L (St.processBreakLoop n c) (St.processBreakLoop n p) (Rel L)
  | 0, _, _, _, h => by unfold St.processBreakLoop; exact J.ok h
  | n + 1, L, c, p, h => by
    unfold St.processBreakLoop
    simp only [ok_bind, error_bind, throw_eq, pure_eq]
    rw [← h.nb]
    refine J.ite (fun _ => J.error_left) (fun _ => ?_)
    have hr : Rel L { c with nBrk := c.nBrk - 1 } { p with nBrk := c.nBrk - 1 } :=
      ⟨h.cc, h.pc, h.w.congr rfl rfl rfl rfl, h.gross, h.pos, h.len, rfl, h.nc, h.cb, h.cct, h.sd⟩
    exact J.bind (J_setAt hr _ _ _ _) (fun _ => by pl_auto) (fun c1 p1 h1 => J_processBreakLoop n h1)

theorem J_processContinueLoop : ∀ (n : Nat) {L : Nat} {c p : St}, Rel L c p →
    J L (St.processContinueLoop n c) (St.processContinueLoop n p) (Rel L)
  | 0, _, _, _, h => by unfold St.processContinueLoop; exact J.ok h
  | n + 1, L, c, p, h => by
    unfold St.processContinueLoop
    simp only [ok_bind, error_bind, throw_eq, pure_eq]
    rw [← h.nc]
    refine J.ite (fun _ => J.error_left) (fun _ => ?_)
    have hr : Rel L { c with nCont := c.nCont - 1 } { p with nCont := c.nCont - 1 } :=
      ⟨h.cc, h.pc, h.w.congr rfl rfl rfl rfl, h.gross, h.pos, h.len, h.nb, rfl, h.cb, h.cct, h.sd⟩
    exact J.bind (J_setAt hr _ _ _ _) (fun _ => by pl_auto) (fun c1 p1 h1 => J_processContinueLoop n h1)

theorem J_processBreak {L : Nat} {c p : St} (h : Rel L c p) (k k2 : Nat) (hk : k = k2) :
    J L (c.processBreak k) (p.processBreak k2) (Rel L) := by
  subst hk
  unfold St.processBreak
  rw [← h.nb]
  refine J.ite (fun _ => ?_) (fun _ => J.ok h)
  exact J.bind (J_processBreakLoop _ h) (fun _ => by pl_auto) (fun c1 p1 h1 => J_clearPrev h1)
macro_rules | `(tactic| j_prim) => `(tactic| first
  | (with_reducible refine J.bind (J_processBreak ?_ _ _ ?_) ?_ ?_)
  | (with_reducible refine J_processBreak ?_ _ _ ?_))

theorem J_processContinue {L : Nat} {c p : St} (h : Rel L c p) (k k2 : Nat) (hk : k = k2) :
    J L (c.processContinue k) (p.processContinue k2) (Rel L) := by
  subst hk
  unfold St.processContinue
  rw [← h.nc]
  refine J.ite (fun _ => ?_) (fun _ => J.ok h)
  exact J.bind (J_processContinueLoop _ h) (fun _ => by pl_auto) (fun c1 p1 h1 => J_clearPrev h1)
macro_rules | `(tactic| j_prim) => `(tactic| first
  | (with_reducible refine J.bind (J_processContinue ?_ _ _ ?_) ?_ ?_)
  | (with_reducible refine J_processContinue ?_ _ _ ?_))

theorem J_emitBreak {L : Nat} {c p : St} (h : Rel L c p) : J L c.emitBreak p.emitBreak (Rel L) := by
  unfold St.emitBreak
  rw [← h.cb]
  refine J.ite (fun _ => ?_) (fun _ => J.error_left)
  j_steps
macro_rules | `(tactic| j_prim) => `(tactic| first
  | (with_reducible refine J.bind (J_emitBreak ?_) ?_ ?_)
  | (with_reducible refine J_emitBreak ?_))

theorem J_emitContinue {L : Nat} {c p : St} (h : Rel L c p) : J L c.emitContinue p.emitContinue (Rel L) := by
  unfold St.emitContinue
  rw [← h.cct]
  refine J.ite (fun _ => ?_) (fun _ => J.error_left)
  j_steps
macro_rules | `(tactic| j_prim) => `(tactic| first
  | (with_reducible refine J.bind (J_emitContinue ?_) ?_ ?_)
  | (with_reducible refine J_emitContinue ?_))

end Morfuse.Emit
