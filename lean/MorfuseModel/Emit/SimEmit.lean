import MorfuseModel.Emit.Fuse
import MorfuseModel.Emit.TopNL
/-!
# Simulation between the two passes: the emitter, for the class `Node.plain`
-/
namespace Morfuse.Emit
open Morfuse.Gen.EmitConsts

set_option maxRecDepth 8000

macro_rules | `(tactic| pl_prim) => `(tactic| with_reducible refine wp_mono ((mn_all _).e _) ?_ (fun _ _ => trivial))
macro_rules | `(tactic| pl_prim) => `(tactic| with_reducible refine wp_mono ((mn_all _).r _) ?_ (fun _ _ => trivial))
macro_rules | `(tactic| pl_prim) => `(tactic| with_reducible refine wp_mono ((mn_all _).a _) ?_ (fun _ _ => trivial))
macro_rules | `(tactic| pl_prim) => `(tactic| with_reducible refine wp_mono ((mn_allL _).l _) ?_ (fun _ _ => trivial))

/-- an integer or float literal -/
def Node.isLit : Node → Bool
  | .int _ | .float _ => true
  | _ => false

mutual
/-- the trees the simulation is proved for: a unary minus only on an integer or float literal (its constant folding
reads code bytes back; the literal just emitted is read back correctly by either manager) or on an operand whose
emission ends with an opcode that is no operand-literal (`Node.endsNL`: nothing is read back); listener bytes of fields as the parser produces them (`≤ 6`) -/
def Node.plain : Node → Bool
  | .next n => n.plain
  | .list xs => xs.plain
  | .assign l r => l.plainA && r.plain
  | .if_ c t => c.plain && t.plain
  | .ifelse c t e => c.plain && t.plain && e.plain
  | .while_ c b i => c.plain && b.plain && i.plain
  | .do_ b c => b.plain && c.plain
  | .and_ a b | .or_ a b => a.plain && b.plain
  | .mcmd _ l _ ps | .mcmdx _ l _ ps => l.plain && ps.plain
  | .cmd _ _ ps | .cmdx _ _ ps => ps.plain
  | .field _ _ _ _ l => l.plain && (match l with | .listener b => decide (b ≤ 6) | _ => true)
  | .vec a b c => a.plain && b.plain && c.plain
  | .f1 op x => (decide (op ≠ OP_UN_MINUS) || x.evOk) && x.plain
  | .f2 _ a b => a.plain && b.plain
  | .not_ x => x.plain
  | .idx a i => a.plain && i.plain
  | .carr a xs => a.plain && xs.plain
  | .marr xs => xs.plain
  | .try_ b c => b.plain && c.plain
  | .switch e b => e.plain && b.plain
  | _ => true
/-- lvalues (`EmitAssignmentStatement`, `EmitRef`): a field of anything in the class, or an element of an lvalue -/
def Node.plainA : Node → Bool
  | .field _ _ _ _ l => l.plain
  | .idx a i => a.plainA && i.plain
  | _ => true
def Nodes.plain : Nodes → Bool
  | .nil => true
  | .cons x xs => x.plain && xs.plain
end

theorem J.guard {L : Nat} {cnd : Prop} [Decidable cnd] {e : Err} {f1 f2 : Unit → R St} {Q : St → St → Prop}
    (h : ¬ cnd → J L (f1 ()) (f2 ()) Q) :
    J L ((if cnd then Except.error e else Except.ok ()) >>= f1) ((if cnd then Except.error e else Except.ok ()) >>= f2) Q := by
  by_cases hc : cnd
  · simp only [hc, ↓reduceIte, error_bind]; exact J.error_left
  · simp only [hc, ↓reduceIte, ok_bind]; exact h hc

theorem J.dup {L : Nat} {b1 b2 : Bool} {x y : R St} {Q : St → St → Prop} (h1 : b1 = true) (h : J L x y Q) :
    J L (if (!b1) = true then Except.error Err.duplicateLabel else x) (if (!b2) = true then Except.error Err.duplicateLabel else y) Q := by
  subst h1
  cases b2
  · simp only [Bool.not_true, Bool.false_eq_true, ↓reduceIte, Bool.not_false]
    refine J.error_right ?_; simp [ECO]
  · simpa using h

theorem J.checkCount {L n m : Nat} {f1 f2 : Unit → R St} {Q : St → St → Prop}
    (h : J L (f1 ()) (f2 ()) Q) : J L (checkCount n m >>= f1) (checkCount n m >>= f2) Q := by
  unfold Morfuse.Emit.checkCount
  exact J.guard (fun _ => h)

theorem Rel.setCanContinue {L : Nat} {c p : St} (h : Rel L c p) (v1 v2 : Bool) (hv : v1 = v2) :
    Rel L { c with canContinue := v1 } { p with canContinue := v2 } :=
  ⟨h.cc, h.pc, h.w.congr rfl rfl rfl rfl, h.gross, h.pos, h.len, h.nb, h.nc, h.cb, hv, h.sd⟩
theorem Rel.setCanBreak {L : Nat} {c p : St} (h : Rel L c p) (v1 v2 : Bool) (hv : v1 = v2) :
    Rel L { c with canBreak := v1 } { p with canBreak := v2 } :=
  ⟨h.cc, h.pc, h.w.congr rfl rfl rfl rfl, h.gross, h.pos, h.len, h.nb, h.nc, hv, h.cct, h.sd⟩
theorem Rel.setFlags {L : Nat} {c p : St} (h : Rel L c p) (v w : Bool) :
    Rel L { c with canBreak := v, canContinue := w } { p with canBreak := v, canContinue := w } :=
  ⟨h.cc, h.pc, h.w.congr rfl rfl rfl rfl, h.gross, h.pos, h.len, h.nb, h.nc, rfl, rfl, h.sd⟩

macro_rules | `(tactic| rel_close) => `(tactic| ((with_reducible refine Rel.setFlags ?_ _ _); assumption))
macro_rules | `(tactic| rel_close) => `(tactic| ((with_reducible refine Rel.setCanContinue ?_ _ _ ?_) <;> first | assumption | exact Rel.cct (by assumption)))
macro_rules | `(tactic| rel_close) => `(tactic| ((with_reducible refine Rel.setCanBreak ?_ _ _ ?_) <;> first | assumption | exact Rel.cb (by assumption)))
macro_rules | `(tactic| rel_close) => `(tactic| assumption)

/-! ## `AddLabel` (a pair comes back) -/

def J2 {α : Type} (L : Nat) (x y : R (α × St)) (Q : α × St → α × St → Prop) : Prop :=
  ∀ r, x = .ok r → pl r.2 ≤ L → wp y (fun r' => Q r r') ECO

theorem J.bind2 {α : Type} {L : Nat} {x1 y1 : R (α × St)} {f1 f2 : α × St → R St} {Q1 : α × St → α × St → Prop}
    {Q : St → St → Prop} (h1 : J2 L x1 y1 Q1) (hm : ∀ r, Mono r.2 (f1 r)) (h2 : ∀ r r', Q1 r r' → J L (f1 r) (f2 r') Q) :
    J L (x1 >>= f1) (y1 >>= f2) Q := by
  intro c'' hx hL
  cases hx1 : x1 with
  | error e => rw [hx1] at hx; cases hx
  | ok r =>
    rw [hx1] at hx
    have hf : f1 r = .ok c'' := hx
    have hmono : pl r.2 ≤ pl c'' := by have := hm r; rw [hf] at this; exact this
    have := h1 r hx1 (by omega)
    rw [wp_bind]
    exact wp_mono this (fun r' hr' => h2 r r' hr' c'' hf hL) (fun _ h => h)

theorem alloc_rel {L : Nat} {c p : St} (h : Rel L c p) (n : Nat) :
    wp (p.alloc n) (fun p' => Rel L c p') ECO := by
  unfold St.alloc
  split
  · simp [ECO]
  · exact ⟨h.cc, h.pc, h.w.congr rfl rfl rfl rfl, h.gross, h.pos, h.len, h.nb, h.nc, h.cb, h.cct, h.sd⟩

theorem resize_rel {L : Nat} {c p : St} (h : Rel L c p) (ls : LabelSet) (n : Nat) :
    wp (ls.resize n p) (fun r => Rel L c r.2) ECO := by
  unfold LabelSet.resize
  split
  · exact h
  · wp_simp
    exact wp_mono (alloc_rel h _) (fun a ha => by simpa using ha) (fun _ h => h)

theorem Rel.congrC {L : Nat} {c c' p : St} (h : Rel L c p) (h1 : c'.counting = c.counting) (h2 : c'.prev = c.prev)
    (h3 : c'.prevPos = c.prevPos) (h4 : pl c' = pl c) (h5 : c'.nBrk = c.nBrk) (h6 : c'.nCont = c.nCont)
    (h7 : c'.canBreak = c.canBreak) (h8 : c'.canContinue = c.canContinue) (h9 : c'.switchDepth = c.switchDepth)
    (hbk : BOk c → BOk c' := by exact fun hb => ⟨hb.rsize, hb.rcur, hb.bsize⟩) :
    Rel L c' p :=
  ⟨h1.trans h.cc, h.pc, h.w.congr h2 h3 rfl rfl hbk, h4.trans h.gross, h.pos, h.len, h5.trans h.nb, h6.trans h.nc,
    h7.trans h.cb, h8.trans h.cct, h9.trans h.sd⟩

theorem J2_addLabel {L : Nat} {c p : St} (h : Rel L c p) (i : Nat) (pr cl1 cl2 : Bool) :
    J2 L (c.addLabel i pr cl1) (p.addLabel i pr cl2) (fun r r' => r.1 = true ∧ Rel L r.2 r'.2) := by
  intro r hx hL
  unfold St.addLabel at hx ⊢
  rw [if_pos h.cc] at hx
  rw [if_neg (by simp [h.pc])]
  injection hx with hx
  subst hx
  have hc : ∀ p', Rel L c p' → Rel L (true, { c with info := (if cl1 = true then
        { ({ c.info with numStrings := c.info.numStrings + 1 } : SizeInfo) with numCaseLabels := c.info.numCaseLabels + 1 }
      else { ({ c.info with numStrings := c.info.numStrings + 1 } : SizeInfo) with numLabels := c.info.numLabels + 1 }) }).2 p' := by
    intro p' hp'
    refine hp'.congrC rfl rfl rfl ?_ rfl rfl rfl rfl rfl
    cases cl1 <;> rfl
  unfold LabelSet.add
  wp_simp
  split
  · wp_simp; exact ⟨trivial, hc p h⟩
  · wp_simp
    split
    · wp_simp
      refine wp_mono (resize_rel h _ _) ?_ (fun _ h => h)
      intro a ha
      wp_simp
      refine wp_mono (alloc_rel ha _) ?_ (fun _ h => h)
      intro b hb
      wp_simp
      exact ⟨trivial, hc _ ⟨hb.cc, hb.pc, hb.w.congr rfl rfl rfl rfl, hb.gross, hb.pos, hb.len, hb.nb, hb.nc, hb.cb, hb.cct, hb.sd⟩⟩
    · wp_simp
      refine wp_mono (alloc_rel h _) ?_ (fun _ h => h)
      intro b hb
      wp_simp
      exact ⟨trivial, hc _ ⟨hb.cc, hb.pc, hb.w.congr rfl rfl rfl rfl, hb.gross, hb.pos, hb.len, hb.nb, hb.nc, hb.cb, hb.cct, hb.sd⟩⟩

/-! ## the emitter -/

/-- after an operand that ends in a non-literal opcode, both passes see the same (empty or zero) previous value -/
theorem evalPrev_eq_of_nl {L : Nat} {c p : St} (h : Rel L c p) (hc : NL c) (hp : NL p) : c.evalPrev = p.evalPrev := by
  rw [evalPrev_nl h.w.vc hc, evalPrev_nl h.w.vp hp]
  rcases h.topCases with heq | ⟨h1, h2⟩
  · rw [heq]
  · rw [if_neg (untested_elim h1).1, if_neg (untested_elim h2).1]

/-- the statement at one node: for the three functions, under membership in the class; and, for the kinds that can be
the operand of a unary minus (`Node.evOk`): after the node both passes read the same previous value -/
structure MSP (n : Node) : Prop where
  e : n.plain = true → ∀ {L c p}, Rel L c p → J L (emit n c) (emit n p) (Rel L)
  r : n.plainA = true → ∀ {L c p}, Rel L c p → J L (emitRef n c) (emitRef n p) (Rel L)
  a : n.plainA = true → ∀ {L c p}, Rel L c p → J L (emitAssign n c) (emitAssign n p) (Rel L)
  ev : n.plain = true → n.evOk = true → ∀ {L c p c' p'}, Rel L c p → emit n c = .ok c' → pl c' ≤ L → emit n p = .ok p' →
    c'.evalPrev = p'.evalPrev

/-- the fourth component for the kinds that end in a non-literal opcode -/
theorem MSP.of3 (n : Node)
    (e : n.plain = true → ∀ {L c p}, Rel L c p → J L (emit n c) (emit n p) (Rel L))
    (r : n.plainA = true → ∀ {L c p}, Rel L c p → J L (emitRef n c) (emitRef n p) (Rel L))
    (a : n.plainA = true → ∀ {L c p}, Rel L c p → J L (emitAssign n c) (emitAssign n p) (Rel L))
    (hk : n.evOk = true → n.endsNL = true) : MSP n :=
  ⟨e, r, a, fun hpl hev {L c p c' p'} h hc hL hp => by
    have hr : Rel L c' p' := by have := e hpl h c' hc hL; rw [hp] at this; exact this
    exact evalPrev_eq_of_nl hr (wp_of_eq_ok (endsNL_spec n c (hk hev) h.w.vc) hc).2
      (wp_of_eq_ok (endsNL_spec n p (hk hev) h.w.vp) hp).2⟩

structure MSPL (xs : Nodes) : Prop where
  l : xs.plain = true → ∀ {L c p}, Rel L c p → J L (emitList xs c) (emitList xs p) (Rel L)

set_option hygiene false in
/-- membership of a sub-tree in the class, from the membership `hpl` of the tree -/
macro "plain_close" : tactic =>
  `(tactic| (simp only [Node.plain, Node.plainA, Nodes.plain, Bool.and_eq_true, decide_eq_true_eq] at hpl; first | exact hpl | simp [hpl] | grind))

set_option hygiene false in
macro "ms_steps" : tactic =>
  `(tactic| repeat' (first
    | (with_reducible refine J.bind (ih1.e (by plain_close) ?_) ?_ ?_)
    | (with_reducible refine ih1.e (by plain_close) ?_)
    | (with_reducible refine J.bind (ih2.e (by plain_close) ?_) ?_ ?_)
    | (with_reducible refine ih2.e (by plain_close) ?_)
    | (with_reducible refine J.bind (ih3.e (by plain_close) ?_) ?_ ?_)
    | (with_reducible refine ih3.e (by plain_close) ?_)
    | (with_reducible refine J.bind (ih1.r (by plain_close) ?_) ?_ ?_)
    | (with_reducible refine ih1.r (by plain_close) ?_)
    | (with_reducible refine J.bind (ih1.a (by plain_close) ?_) ?_ ?_)
    | (with_reducible refine ih1.a (by plain_close) ?_)
    | (with_reducible refine J.bind (ih1.l (by plain_close) ?_) ?_ ?_)
    | (with_reducible refine ih1.l (by plain_close) ?_)
    | (with_reducible refine J.bind (ih2.l (by plain_close) ?_) ?_ ?_)
    | (with_reducible refine ih2.l (by plain_close) ?_)
    | (with_reducible refine J.bind2 (J2_addLabel ?_ _ _ _ _) ?_ ?_)
    | ((with_reducible show ∀ (_ _ : Bool × St), _ → J _ _ _ _); rintro r r' ⟨h1, h2⟩; refine J.dup h1 ?_)
    | (with_reducible refine J.checkCount ?_)
    | (with_reducible refine J.guard (fun _ => ?_))
    | (with_reducible refine J.bind (Q1 := Rel _) (J.ite (fun _ => ?_) (fun _ => ?_)) ?_ ?_)
    | (with_reducible refine J.bind (J_emitFunc1 ?_ _ (by plain_close)) ?_ ?_)
    | (with_reducible refine J_emitFunc1 ?_ _ (by plain_close))
    | j_alt
    | ((with_reducible show J _ (Except.ok _) (Except.ok _) _); refine J.ok ?_)
    | ((with_reducible show ∀ (_ : Bool × St), Mono _ _); intro _; pl_auto)))

set_option hygiene false in
macro "ms_walk" : tactic =>
  `(tactic| first
    | (refine MSP.of3 _ (fun hpl => ?_) (fun hpl => ?_) (fun hpl => ?_) (by intro hh; simpa [Node.evOk, Node.endsNL] using hh) <;> intro L c p h <;>
        first
        | (simp [Node.plain, Node.plainA] at hpl; done)
        | (simp only [emit, emitRef, emitAssign] <;> (try simp only [ok_bind, error_bind, throw_eq, pure_eq]) <;> ms_steps))
    | (refine ⟨fun hpl => ?_⟩; intro L c p h; simp only [emitList]; ms_steps))

theorem ms_none   : MSP (.none ) := by
  ms_walk

theorem ms_next (n : Node) (ih1 : MSP n) : MSP (.next n) := by
  ms_walk

theorem ms_list (xs : Nodes) (ih1 : MSPL xs) : MSP (.list xs) := by
  ms_walk

theorem ms_label (idx : Nat) (hasPs : Bool) (ps : Nodes) (ih1 : MSPL ps) : MSP (.label idx hasPs ps) := by
  ms_walk

theorem ms_plabel (idx : Nat) (hasPs : Bool) (ps : Nodes) (ih1 : MSPL ps) : MSP (.plabel idx hasPs ps) := by
  ms_walk

theorem ms_case (kind : Nat) (idx : Nat) (ty : Nat) (hasPs : Bool) (ps : Nodes) (ih1 : MSPL ps) : MSP (.case kind idx ty hasPs ps) := by
  ms_walk

theorem ms_assign (lhs : Node) (rhs : Node) (ih1 : MSP lhs) (ih2 : MSP rhs) : MSP (.assign lhs rhs) := by
  ms_walk

theorem ms_if (c : Node) (t : Node) (ih1 : MSP c) (ih2 : MSP t) : MSP (.if_ c t) := by
  ms_walk

theorem ms_ifelse (c : Node) (t : Node) (e : Node) (ih1 : MSP c) (ih2 : MSP t) (ih3 : MSP e) : MSP (.ifelse c t e) := by
  ms_walk

theorem ms_while (c : Node) (b : Node) (i : Node) (ih1 : MSP c) (ih2 : MSP b) (ih3 : MSP i) : MSP (.while_ c b i) := by
  ms_walk

theorem ms_do (b : Node) (c : Node) (ih1 : MSP b) (ih2 : MSP c) : MSP (.do_ b c) := by
  ms_walk

theorem ms_and (a : Node) (b : Node) (ih1 : MSP a) (ih2 : MSP b) : MSP (.and_ a b) := by
  ms_walk

theorem ms_or (a : Node) (b : Node) (ih1 : MSP a) (ih2 : MSP b) : MSP (.or_ a b) := by
  ms_walk

theorem ms_mcmd (ev : Nat) (l : Node) (hasPs : Bool) (ps : Nodes) (ih1 : MSP l) (ih2 : MSPL ps) : MSP (.mcmd ev l hasPs ps) := by
  ms_walk

theorem ms_mcmdx (ev : Nat) (l : Node) (hasPs : Bool) (ps : Nodes) (ih1 : MSP l) (ih2 : MSPL ps) : MSP (.mcmdx ev l hasPs ps) := by
  ms_walk

theorem ms_cmd (ev : Nat) (hasPs : Bool) (ps : Nodes) (ih1 : MSPL ps) : MSP (.cmd ev hasPs ps) := by
  ms_walk

theorem ms_cmdx (ev : Nat) (hasPs : Bool) (ps : Nodes) (ih1 : MSPL ps) : MSP (.cmdx ev hasPs ps) := by
  ms_walk


end Morfuse.Emit
