import MorfuseModel.Emit.SimNeg
/-!
# Simulation between the two passes: the remaining constructors and the assembly
-/
namespace Morfuse.Emit
open Morfuse.Gen.EmitConsts

set_option maxRecDepth 8000

theorem ms_field (idx : Nat) (ev : Nat) (rd : Nat) (wr : Nat) (l : Node) (ih1 : MSP l) : MSP (.field idx ev rd wr l) := by
  refine MSP.of3 _ (fun hpl => ?_) (fun hpl => ?_) (fun hpl => ?_) (by intro hh; simpa [Node.evOk, Node.endsNL] using hh) <;> intro L c p h
  · simp only [emit]
    split
    · rename_i b
      have hb : b ≤ 6 := by simpa [Node.plain] using hpl
      by_cases h2 : rd = 2
      · simp only [h2, ↓reduceIte, error_bind]; exact J.error_left
      · simp only [h2, ↓reduceIte, ok_bind]
        by_cases h1 : rd = 1
        · simp only [h1, decide_true, ↓reduceIte]; ms_steps
        · simp only [h1, decide_false, Bool.false_eq_true, ↓reduceIte]
          exact J_gameVar (Rel.addString h idx) b _ _ _ _ ev hb
    · rename_i hx
      simp only [ok_bind, error_bind, throw_eq, pure_eq, ↓reduceIte]
      ms_steps
  · simp only [emitRef]
    ms_steps
  · simp only [emitAssign]
    split
    · rename_i b
      by_cases h2 : wr = 2
      · simp only [h2, ↓reduceIte, error_bind]; exact J.error_left
      · simp only [h2, ↓reduceIte, ok_bind]
        by_cases h1 : wr = 1
        · simp only [h1, decide_true, ↓reduceIte]; ms_steps
        · simp only [h1, decide_false, Bool.false_eq_true, ↓reduceIte]; ms_steps
    · rename_i hx
      simp only [ok_bind, error_bind, throw_eq, pure_eq, ↓reduceIte]
      ms_steps

theorem ms_listener (b : Nat)  : MSP (.listener b) := by
  ms_walk

theorem ms_str (idx : Nat)  : MSP (.str idx) := by
  ms_walk

theorem ms_vec (a : Node) (b : Node) (c : Node) (ih1 : MSP a) (ih2 : MSP b) (ih3 : MSP c) : MSP (.vec a b c) := by
  ms_walk

theorem ms_nil   : MSP (.nil ) := by
  ms_walk

theorem ms_null   : MSP (.null ) := by
  ms_walk

theorem ms_f2 (op : Nat) (a : Node) (b : Node) (ih1 : MSP a) (ih2 : MSP b) : MSP (.f2 op a b) := by
  ms_walk

theorem ms_not (x : Node) (ih1 : MSP x) : MSP (.not_ x) := by
  ms_walk

theorem ms_idx (a : Node) (i : Node) (ih1 : MSP a) (ih2 : MSP i) : MSP (.idx a i) := by
  ms_walk

theorem ms_carr (a : Node) (xs : Nodes) (ih1 : MSP a) (ih2 : MSPL xs) : MSP (.carr a xs) := by
  ms_walk

theorem ms_marr (xs : Nodes) (ih1 : MSPL xs) : MSP (.marr xs) := by
  ms_walk

theorem ms_brk   : MSP (.brk ) := by
  ms_walk

theorem ms_cont   : MSP (.cont ) := by
  ms_walk

theorem ms_unknown (t : Nat)  : MSP (.unknown t) := by
  ms_walk

theorem ms_lnil : MSPL .nil := by
  ms_walk

theorem ms_lcons (x : Node) (xs : Nodes) (ih1 : MSP x) (ih2 : MSPL xs) : MSPL (.cons x xs) := by
  ms_walk

theorem ms_all (n : Node) : MSP n :=
  Node.rec (motive_1 := MSP) (motive_2 := MSPL)
    ms_none ms_next ms_list ms_label ms_plabel ms_case ms_assign ms_if ms_ifelse ms_while ms_do ms_and ms_or ms_mcmd ms_mcmdx ms_cmd ms_cmdx ms_field ms_listener ms_str ms_int ms_float ms_vec ms_nil ms_null ms_f1 ms_f2 ms_not ms_idx ms_carr ms_marr ms_try ms_switch ms_brk ms_cont ms_unknown
    ms_lnil ms_lcons n

theorem ms_allL (xs : Nodes) : MSPL xs :=
  Nodes.rec (motive_1 := MSP) (motive_2 := MSPL)
    ms_none ms_next ms_list ms_label ms_plabel ms_case ms_assign ms_if ms_ifelse ms_while ms_do ms_and ms_or ms_mcmd ms_mcmdx ms_cmd ms_cmdx ms_field ms_listener ms_str ms_int ms_float ms_vec ms_nil ms_null ms_f1 ms_f2 ms_not ms_idx ms_carr ms_marr ms_try ms_switch ms_brk ms_cont ms_unknown
    ms_lnil ms_lcons xs


end Morfuse.Emit
