import MorfuseModel.Emit.SimEmit2
import MorfuseModel.Emit.NoCO
/-!
# The program pass of a compile stays within the length the counting pass computed (class `Node.plain`)
-/
namespace Morfuse.Emit
open Morfuse.Gen.EmitConsts

/-- what `Preallocate` leaves of the fresh emitter / program manager state -/
def Fresh (L : Nat) (s : St) : Prop :=
  s.counting = false ∧ s.prev = (St.init false).prev ∧ s.prevPos = 0 ∧ s.gross = 0 ∧ s.pos = 0 ∧ s.progLen = L ∧
  s.nBrk = 0 ∧ s.nCont = 0 ∧ s.canBreak = false ∧ s.canContinue = false ∧ s.switchDepth = 0 ∧
  s.ring = (St.init false).ring ∧ s.ringCur = 0 ∧ s.buf.data.size = L

theorem alloc_fresh {L : Nat} (s : St) (n : Nat) (h : Fresh L s) : wp (s.alloc n) (Fresh L) ECO := by
  unfold St.alloc
  split
  · simp [ECO]
  · exact h

theorem resize_fresh {L : Nat} (ls : LabelSet) (n : Nat) (s : St) (h : Fresh L s) :
    wp (ls.resize n s) (fun r => Fresh L r.2) ECO := by
  unfold LabelSet.resize
  split
  · exact h
  · wp_simp
    exact wp_mono (alloc_fresh s _ h) (fun a ha => by simpa using ha) (fun _ h => h)

theorem preallocate_fresh (dev : Bool) (i : SizeInfo) : wp (preallocate dev i) (Fresh i.progLength) ECO := by
  unfold preallocate
  wp_simp
  repeat' (first
    | (wp_simp; with_reducible refine wp_mono (alloc_fresh (L := i.progLength) _ _ ?_) (fun _ _ => ?_) (fun _ h => h))
    | (wp_simp; with_reducible refine wp_mono (resize_fresh (L := i.progLength) _ _ _ ?_) (fun _ _ => ?_) (fun _ h => h))
    | ((with_reducible show Fresh _ _); first | assumption | (simp [Fresh, St.init, Tbl.mk']; done) | (simp only [Fresh] at *; first | assumption | simp_all [St.init]))
    | (wp_simp; with_reducible show True; trivial)
    | (wp_simp; split))

theorem tested_init : tested (255 : Nat) = false := by decide

theorem W_fresh {L : Nat} (s : St) (h : Fresh L s) : W (St.init true) s := by
  obtain ⟨_, hprev, hpos, _, _, hlen, _, _, _, _, _, hring, hcur, hbuf⟩ := h
  have hc : WOk (St.init true) := ⟨by simp [St.init, Tbl.mk', prevMax_eq], by simp [St.init]⟩
  have hp : WOk s := ⟨by rw [hprev]; simp [St.init, Tbl.mk', prevMax_eq], by omega⟩
  refine W.of_untested hc hp ⟨by simp [St.init, Tbl.mk', ringSize_eq], by simp [St.init], by simp [St.init, Tbl.mk']⟩
    ⟨by rw [hring]; simp [St.init, Tbl.mk', ringSize_eq], by omega, by rw [hbuf, hlen]⟩ ?_ ?_
  · simp [ent, St.init, Tbl.mk', Tbl.get, prevMax_eq]; exact tested_init
  · simp [ent, hprev, hpos, St.init, Tbl.mk', Tbl.get, prevMax_eq]; exact tested_init

/-- **For every tree of the class `Node.plain`: the program pass never writes past the buffer whose length the
counting pass computed** (`ScriptProgramManager::WriteOpcodeValue`'s assert, hook H3 kind 1) -/
theorem plain_code_fits (dev : Bool) (root : Node) (hpl : root.plain = true) (c : St)
    (hc : emitRoot root (St.init true) = .ok c) :
    wp (preallocate dev c.info) (fun s => emitRoot root s ≠ .error (.ub .codeOverflow)) ECO := by
  refine wp_mono (preallocate_fresh dev c.info) ?_ (fun _ h => h)
  intro s hs
  have hrel : Rel c.info.progLength (St.init true) s := by
    have hw := W_fresh s hs
    obtain ⟨h1, _, _, h4, h5, h6, h7, h8, h9, h10, h11, _⟩ := hs
    exact ⟨rfl, h1, hw, by simp [pl, St.init, h4], by omega, h6, by simp [St.init, h7], by simp [St.init, h8],
      by simp [St.init, h9], by simp [St.init, h10], by simp [St.init, h11]⟩
  have hj : J c.info.progLength (emitRoot root (St.init true)) (emitRoot root s) (Rel c.info.progLength) := by
    unfold emitRoot
    exact J.bind ((ms_all root).e hpl hrel) (fun _ => emitEof_pl _) (fun c1 p1 h1 => J_emitEof h1)
  have := hj c hc (Nat.le_refl _)
  intro he
  rw [he] at this
  exact this rfl

/-- **For every tree of the class `Node.plain`, a whole compile never reports a code overflow**: not the counting pass
(it has no buffer), not `Preallocate`, not the program pass -/
theorem plain_compile_fits (dev : Bool) (root : Node) (hpl : root.plain = true) :
    compile dev root ≠ .error (.ub .codeOverflow) := by
  intro hcmp
  unfold compile at hcmp
  have hcnt : wp (emitRoot root (St.init true)) (fun _ => True) ECO := by
    unfold emitRoot
    rw [wp_bind]
    refine wp_mono ((nc_all root).e _ rfl) ?_ (fun _ h => h)
    intro t ht
    exact wp_mono (emitEof_nc t ht) (fun _ _ => trivial) (fun _ h => h)
  cases hc : emitRoot root (St.init true) with
  | error e =>
    rw [hc] at hcmp hcnt
    simp only [error_bind] at hcmp
    injection hcmp with hcmp
    exact hcnt hcmp
  | ok c =>
    rw [hc] at hcmp
    simp only [ok_bind] at hcmp
    have hp := plain_code_fits dev root hpl c hc
    cases hs : preallocate dev c.info with
    | error e =>
      rw [hs] at hcmp hp
      simp only [error_bind] at hcmp
      injection hcmp with hcmp
      exact hp hcmp
    | ok s =>
      rw [hs] at hcmp hp
      simp only [ok_bind] at hcmp
      cases hr : emitRoot root s with
      | error e =>
        rw [hr] at hcmp
        simp only [error_bind] at hcmp
        injection hcmp with hcmp
        exact hp (hcmp ▸ hr)
      | ok s' => rw [hr] at hcmp; simp only [ok_bind] at hcmp; cases hcmp

end Morfuse.Emit
