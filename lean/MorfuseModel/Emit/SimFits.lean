import MorfuseModel.Emit.SimEmit2
/-!
# The program pass of a compile stays within the length the counting pass computed (class `Node.plain`)
-/
namespace Morfuse.Emit
open Morfuse.Gen.EmitConsts

/-- what `Preallocate` leaves of the fresh emitter / program manager state -/
def Fresh (L : Nat) (s : St) : Prop :=
  s.counting = false ∧ s.prev = (St.init false).prev ∧ s.prevPos = 0 ∧ s.gross = 0 ∧ s.pos = 0 ∧ s.progLen = L ∧
  s.nBrk = 0 ∧ s.nCont = 0 ∧ s.canBreak = false ∧ s.canContinue = false ∧ s.switchDepth = 0

theorem alloc_fresh {L : Nat} (s : St) (n : Nat) (h : Fresh L s) : wp (s.alloc n) (Fresh L) (fun _ => True) := by
  unfold St.alloc
  split
  · trivial
  · exact h

theorem resize_fresh {L : Nat} (ls : LabelSet) (n : Nat) (s : St) (h : Fresh L s) :
    wp (ls.resize n s) (fun r => Fresh L r.2) (fun _ => True) := by
  unfold LabelSet.resize
  split
  · exact h
  · wp_simp
    exact wp_mono (alloc_fresh s _ h) (fun a ha => by simpa using ha) (fun _ _ => trivial)

theorem preallocate_fresh (dev : Bool) (i : SizeInfo) : wp (preallocate dev i) (Fresh i.progLength) (fun _ => True) := by
  unfold preallocate
  wp_simp
  repeat' (first
    | (wp_simp; with_reducible refine wp_mono (alloc_fresh (L := i.progLength) _ _ ?_) (fun _ _ => ?_) (fun _ _ => trivial))
    | (wp_simp; with_reducible refine wp_mono (resize_fresh (L := i.progLength) _ _ _ ?_) (fun _ _ => ?_) (fun _ _ => trivial))
    | ((with_reducible show Fresh _ _); first | assumption | (simp [Fresh, St.init]; done) | (simp only [Fresh] at *; first | assumption | simp_all [St.init]))
    | (wp_simp; with_reducible show True; trivial)
    | (wp_simp; split))

theorem tested_init : tested (255 : Nat) = false := by decide

theorem W_fresh {L : Nat} (s : St) (h : Fresh L s) : W (St.init true) s := by
  obtain ⟨_, hprev, hpos, _⟩ := h
  have hc : WOk (St.init true) := ⟨by simp [St.init, Tbl.mk', prevMax_eq], by simp [St.init]⟩
  have hp : WOk s := ⟨by rw [hprev]; simp [St.init, Tbl.mk', prevMax_eq], by omega⟩
  refine W.of_untested hc hp ?_ ?_
  · simp [ent, St.init, Tbl.mk', Tbl.get, prevMax_eq]; exact tested_init
  · simp [ent, hprev, hpos, St.init, Tbl.mk', Tbl.get, prevMax_eq]; exact tested_init

/-- **For every tree of the class `Node.plain`: the program pass never writes past the buffer whose length the
counting pass computed** (`ScriptProgramManager::WriteOpcodeValue`'s assert, hook H3 kind 1) -/
theorem plain_code_fits (dev : Bool) (root : Node) (hpl : root.plain = true) (c : St)
    (hc : emitRoot root (St.init true) = .ok c) :
    wp (preallocate dev c.info) (fun s => emitRoot root s ≠ .error (.ub .codeOverflow)) (fun _ => True) := by
  refine wp_mono (preallocate_fresh dev c.info) ?_ (fun _ h => h)
  intro s hs
  have hrel : Rel c.info.progLength (St.init true) s := by
    have hw := W_fresh s hs
    obtain ⟨h1, _, _, h4, h5, h6, h7, h8, h9, h10, h11⟩ := hs
    exact ⟨rfl, h1, hw, by simp [pl, St.init, h4], by omega, h6, by simp [St.init, h7], by simp [St.init, h8],
      by simp [St.init, h9], by simp [St.init, h10], by simp [St.init, h11]⟩
  have hj : J c.info.progLength (emitRoot root (St.init true)) (emitRoot root s) (Rel c.info.progLength) := by
    unfold emitRoot
    exact J.bind ((ms_all root).e hpl hrel) (fun _ => emitEof_pl _) (fun c1 p1 h1 => J_emitEof h1)
  have := hj c hc (Nat.le_refl _)
  intro he
  rw [he] at this
  exact this rfl

end Morfuse.Emit
