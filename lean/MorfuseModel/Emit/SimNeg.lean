import MorfuseModel.Emit.SimNest
import MorfuseModel.Emit.Bytes
/-!
# Simulation between the two passes: unary minus folded into the literal before it (`EvalPrevValue`)
-/
namespace Morfuse.Emit
open Morfuse.Gen.EmitConsts

set_option maxRecDepth 8000

theorem J.withEq {L : Nat} {x y : R St} {Q : St → St → Prop} (h : J L x y Q) :
    J L x y (fun c' p' => Q c' p' ∧ x = .ok c' ∧ y = .ok p') := by
  intro c' hx hL
  have := h c' hx hL
  cases hy : y with
  | error e => rw [hy] at this; exact this
  | ok p' => rw [hy] at this; exact ⟨this, hx, rfl⟩

theorem evalPrev_some_tested {c : St} (hw : WOk c) (x : Bool × Nat) (h : c.evalPrev = .ok (some x)) :
    tested (ent c 0).op = true := by
  unfold St.evalPrev at h
  rw [prevOp_eq c hw] at h
  simp only [ok_bind] at h
  refine decide_eq_true ?_
  have e0 : OP_STORE_INT0 = 12 := rfl
  have e1 : OP_STORE_INT1 = 13 := rfl
  have e2 : OP_STORE_INT2 = 14 := rfl
  have e3 : OP_STORE_INT3 = 15 := rfl
  have e4 : OP_STORE_INT4 = 16 := rfl
  have e8 : OP_STORE_INT8 = 17 := rfl
  have ef : OP_STORE_FLOAT = 21 := rfl
  simp only [e0, e1, e2, e3, e4, e8, ef, OP_BOOL_TO_VAR, OP_BOOL_STORE_TRUE, OP_BOOL_STORE_FALSE, OP_BOOL_UN_NOT,
    OP_UN_CAST_BOOLEAN, OP_DONE, OP_LOAD_GAME_VAR] at h ⊢
  repeat' (first | omega | split at h)
  all_goals (first | omega | cases h)

/-- `EmitFunc1(OP_UN_MINUS)` when both passes read the same previous value -/
theorem J_emitFunc1_minus {L : Nat} {c p : St} (h : Rel L c p) (hev : c.evalPrev = p.evalPrev) :
    J L (c.emitFunc1 OP_UN_MINUS) (p.emitFunc1 OP_UN_MINUS) (Rel L) := by
  unfold St.emitFunc1
  simp only [↓reduceIte]
  rw [← hev]
  cases hc : c.evalPrev with
  | error e => simp only [error_bind]; exact J.error_left
  | ok r =>
    simp only [ok_bind]
    cases r with
    | none => exact J_emitOp h _
    | some x =>
      obtain ⟨f, v⟩ := x
      have ht := evalPrev_some_tested h.w.vc _ hc
      simp only []
      j_steps
      all_goals exact ht

/-- the value `EvalPrevValue` finds right after `EmitInteger(v)` -/
def afterInt (v : Nat) : Nat :=
  if v = 0 then 0
  else if v < 256 then unle (le 1 v)
  else if v < 65536 then unle (le 2 v)
  else if v < 16777216 then unle (le 3 v)
  else if v < 4294967296 then unle (le 4 v)
  else unle (le 8 v)

/-- either manager reads back the integer literal it has just emitted -/
theorem emitInteger_ev {s s1 : St} (hw : WOk s) (hb : BOk s) (v : Nat) (hx : s.emitInteger v = .ok s1) :
    s1.evalPrev = .ok (some (false, afterInt v)) := by
  unfold St.emitInteger at hx
  unfold afterInt
  split at hx
  · rename_i h0
    rw [if_pos h0]
    cases hc : s.counting with
    | true => exact evalPrev_int0 (emitOp_count hc hw _ hx).2.2.1 (emitOp_count hc hw _ hx).2.2.2
    | false => exact evalPrev_int0 (emitOp_prog' hc hw _ hx).2.2.1 (emitOp_prog' hc hw _ hx).2.2.2
  · rename_i h0
    rw [if_neg h0]
    split at hx
    · rename_i h1; rw [if_pos h1]
      obtain ⟨w1, t1, rb⟩ := literal_spec hw hb _ _ (by simp) hx
      have := evalPrev_lit w1 false 1 (by rw [t1]; decide)
      rw [this]; simp only [le_length] at rb; rw [rb]
    · rename_i h1; rw [if_neg h1]
      split at hx
      · rename_i h2; rw [if_pos h2]
        obtain ⟨w1, t1, rb⟩ := literal_spec hw hb _ _ (by simp) hx
        have := evalPrev_lit w1 false 2 (by rw [t1]; decide)
        rw [this]; simp only [le_length] at rb; rw [rb]
      · rename_i h2; rw [if_neg h2]
        split at hx
        · rename_i h3; rw [if_pos h3]
          obtain ⟨w1, t1, rb⟩ := literal_spec hw hb _ _ (by simp) hx
          have := evalPrev_lit w1 false 3 (by rw [t1]; decide)
          rw [this]; simp only [le_length] at rb; rw [rb]
        · rename_i h3; rw [if_neg h3]
          split at hx
          · rename_i h4; rw [if_pos h4]
            obtain ⟨w1, t1, rb⟩ := literal_spec hw hb _ _ (by simp) hx
            have := evalPrev_lit w1 false 4 (by rw [t1]; decide)
            rw [this]; simp only [le_length] at rb; rw [rb]
          · rename_i h4; rw [if_neg h4]
            obtain ⟨w1, t1, rb⟩ := literal_spec hw hb _ _ (by simp) hx
            have := evalPrev_lit w1 false 8 (by rw [t1]; decide)
            rw [this]; simp only [le_length] at rb; rw [rb]

theorem emitFloat_ev {s s1 : St} (hw : WOk s) (hb : BOk s) (bits : Nat)
    (hx : s.emitOpBytes OP_STORE_FLOAT (le 4 bits) = .ok s1) :
    s1.evalPrev = .ok (some (true, unle (le 4 bits))) := by
  obtain ⟨w1, t1, rb⟩ := literal_spec hw hb _ _ (by simp) hx
  have := evalPrev_lit w1 true 4 (by rw [t1]; decide)
  rw [this]; simp only [le_length] at rb; rw [rb]

/-- `-<integer literal>` -/
theorem J_negInt {L : Nat} {c p : St} (h : Rel L c p) (v : Nat) :
    J L (c.emitInteger v >>= fun s => s.emitFunc1 OP_UN_MINUS) (p.emitInteger v >>= fun s => s.emitFunc1 OP_UN_MINUS) (Rel L) := by
  refine J.bind (J.withEq (J_emitInteger h v)) (fun _ => by pl_auto) ?_
  intro c1 p1 ⟨hr, hxc, hxp⟩
  refine J_emitFunc1_minus hr ?_
  rw [emitInteger_ev h.w.vc h.w.bc v hxc, emitInteger_ev h.w.vp h.w.bp v hxp]

/-- `-<float literal>` -/
theorem J_negFloat {L : Nat} {c p : St} (h : Rel L c p) (bits : Nat) :
    J L (c.emitOpBytes OP_STORE_FLOAT (le 4 bits) >>= fun s => s.emitFunc1 OP_UN_MINUS)
      (p.emitOpBytes OP_STORE_FLOAT (le 4 bits) >>= fun s => s.emitFunc1 OP_UN_MINUS) (Rel L) := by
  refine J.bind (J.withEq (J_emitOpBytes h _ _ _ rfl)) (fun _ => by pl_auto) ?_
  intro c1 p1 ⟨hr, hxc, hxp⟩
  refine J_emitFunc1_minus hr ?_
  rw [emitFloat_ev h.w.vc h.w.bc bits hxc, emitFloat_ev h.w.vp h.w.bp bits hxp]

theorem ms_int (v : Nat) : MSP (.int v) := by
  refine ⟨fun hpl {L c p} h => ?_, fun hpl {L c p} h => ?_, fun hpl {L c p} h => ?_, fun hpl hev {L c p c' p'} h hc hL hp => ?_⟩
  · simp only [emit]; exact J_emitInteger h v
  · simp only [emitRef]; exact J.error_left
  · simp only [emitAssign]; exact J.error_left
  · simp only [emit] at hc hp
    rw [emitInteger_ev h.w.vc h.w.bc v hc, emitInteger_ev h.w.vp h.w.bp v hp]

theorem ms_float (bits : Nat) : MSP (.float bits) := by
  refine ⟨fun hpl {L c p} h => ?_, fun hpl {L c p} h => ?_, fun hpl {L c p} h => ?_, fun hpl hev {L c p c' p'} h hc hL hp => ?_⟩
  · simp only [emit]; exact J_emitOpBytes h _ _ _ rfl
  · simp only [emitRef]; exact J.error_left
  · simp only [emitAssign]; exact J.error_left
  · simp only [emit] at hc hp
    rw [emitFloat_ev h.w.vc h.w.bc bits hc, emitFloat_ev h.w.vp h.w.bp bits hp]

/-- `AbsorbPrevOpcode` keeps the byte stores in shape (either manager) -/
theorem absorb_bok {s s1 : St} (hw : WOk s) (hb : BOk s) (hx : s.absorb = .ok s1) : WOk s1 ∧ BOk s1 := by
  refine ⟨wp_of_eq_ok (absorb_wk s hw) hx, ?_⟩
  unfold St.absorb at hx
  rw [prevOp_eq s hw] at hx
  simp only [ok_bind] at hx
  cases hl : opLen? (ent s 0).op with
  | none => rw [hl] at hx; cases hx
  | some len =>
    rw [hl] at hx
    simp only [ok_bind] at hx
    unfold St.moveBack at hx
    split at hx
    · simp only [ok_bind] at hx
      injection hx with hx; subst hx
      exact ⟨hb.rsize, by simp only [ringSize_eq]; omega, hb.bsize⟩
    · split at hx
      · cases hx
      · simp only [ok_bind] at hx
        injection hx with hx; subst hx
        exact ⟨hb.rsize, hb.rcur, hb.bsize⟩

/-- what `EvalPrevValue` finds after `EmitFunc1(OP_UN_MINUS)`, as a function of what it found before: the same in both
managers -/
theorem emitFunc1_minus_ev {s s' : St} (hw : WOk s) (hb : BOk s) (hx : s.emitFunc1 OP_UN_MINUS = .ok s') :
    (∀ f v, s.evalPrev = .ok (some (f, v)) → f = false →
        s'.evalPrev = .ok (some (false, afterInt ((18446744073709551616 - v) % 18446744073709551616)))) ∧
    (∀ f v, s.evalPrev = .ok (some (f, v)) → f = true →
        s'.evalPrev = .ok (some (true, unle (le 4 (if v ≥ 2147483648 then v - 2147483648 else v + 2147483648))))) ∧
    (s.evalPrev = .ok none → T s') := by
  unfold St.emitFunc1 at hx
  simp only [↓reduceIte] at hx
  cases he : s.evalPrev with
  | error e => rw [he] at hx; cases hx
  | ok r =>
    rw [he] at hx
    simp only [ok_bind] at hx
    cases r with
    | none =>
      refine ⟨fun f v h _ => (by cases h), fun f v h _ => (by cases h), fun _ => ?_⟩
      exact wp_of_eq_ok (emitOp_T s _ hw (by decide)) hx
    | some x =>
      obtain ⟨f, v⟩ := x
      simp only [] at hx
      cases ha : s.absorb with
      | error e => rw [ha] at hx; cases hx
      | ok s1 =>
        rw [ha] at hx
        simp only [ok_bind] at hx
        obtain ⟨w1, b1⟩ := absorb_bok hw hb ha
        refine ⟨fun f' v' h hf => ?_, fun f' v' h hf => ?_, fun h => (by cases h)⟩
        · injection h with h; injection h with h; injection h with h1 h2
          subst h1 h2 hf
          simp only [Bool.false_eq_true, ↓reduceIte] at hx
          exact emitInteger_ev w1 b1 _ hx
        · injection h with h; injection h with h; injection h with h1 h2
          subst h1 h2 hf
          simp only [↓reduceIte] at hx
          exact emitFloat_ev w1 b1 _ hx

theorem ms_f1 (op : Nat) (x : Node) (ih1 : MSP x) : MSP (.f1 op x) := by
  have hplx : (Node.f1 op x).plain = true → x.plain = true := fun hpl => by
    simp only [Node.plain, Bool.and_eq_true] at hpl; exact hpl.2
  -- the lock-step statement
  have he : (Node.f1 op x).plain = true → ∀ {L c p}, Rel L c p → J L (emit (.f1 op x) c) (emit (.f1 op x) p) (Rel L) := by
    intro hpl L c p h
    simp only [emit]
    have hx := hplx hpl
    by_cases hop : op = OP_UN_MINUS
    · subst hop
      have hxe : x.evOk = true := by simp [Node.plain] at hpl; exact hpl.1
      refine J.bind (J.withEq (ih1.e hx h)) (fun _ => by pl_auto) ?_
      intro c1 p1 ⟨hr, hxc, hxp⟩
      intro c'' hx'' hL
      have hb1 : pl c1 ≤ L := by
        have := emitFunc1_pl c1 OP_UN_MINUS; rw [hx''] at this
        exact Nat.le_trans this hL
      exact J_emitFunc1_minus hr (ih1.ev hx hxe h hxc hb1 hxp) c'' hx'' hL
    · exact J.bind (ih1.e hx h) (fun _ => by pl_auto) (fun c1 p1 h1 => J_emitFunc1 h1 op hop)
  refine ⟨he, fun hpl {L c p} h => ?_, fun hpl {L c p} h => ?_, fun hpl hev {L c p c' p'} h hc hL hp => ?_⟩
  · simp only [emitRef]; exact J.error_left
  · simp only [emitAssign]; exact J.error_left
  · -- what both passes read after the node
    have hr' : Rel L c' p' := by have := he hpl h c' hc hL; rw [hp] at this; exact this
    have hx := hplx hpl
    simp only [emit] at hc hp
    cases hc1 : emit x c with
    | error e => rw [hc1] at hc; cases hc
    | ok c1 =>
      cases hp1 : emit x p with
      | error e => rw [hp1] at hp; cases hp
      | ok p1 =>
        rw [hc1] at hc; rw [hp1] at hp
        simp only [ok_bind] at hc hp
        by_cases hop : op = OP_UN_MINUS
        · subst hop
          have hxe : x.evOk = true := by simpa [Node.evOk] using hev
          have hb1 : pl c1 ≤ L := by
            have := emitFunc1_pl c1 OP_UN_MINUS; rw [hc] at this
            exact Nat.le_trans this hL
          have hr1 : Rel L c1 p1 := by have := ih1.e hx h c1 hc1 hb1; rw [hp1] at this; exact this
          have hev1 := ih1.ev hx hxe h hc1 hb1 hp1
          obtain ⟨ci, cf, cn⟩ := emitFunc1_minus_ev hr1.w.vc hr1.w.bc hc
          obtain ⟨pi, pf, pn⟩ := emitFunc1_minus_ev hr1.w.vp hr1.w.bp hp
          cases hr : c1.evalPrev with
          | error e =>
            exfalso
            unfold St.emitFunc1 at hc; simp only [↓reduceIte, hr, error_bind] at hc; cases hc
          | ok r =>
            have hrp : p1.evalPrev = .ok r := by rw [← hev1]; exact hr
            cases r with
            | none => exact evalPrev_eq_of_nl hr' (cn hr).2 (pn hrp).2
            | some fv =>
              obtain ⟨f, v⟩ := fv
              cases f with
              | false => rw [ci false v hr rfl, pi false v hrp rfl]
              | true => rw [cf true v hr rfl, pf true v hrp rfl]
        · have hnl : byteLit (op % 256) = false := by simpa [Node.evOk, hop] using hev
          have tc := wp_of_eq_ok (emitFunc1_T c1 op (wp_of_eq_ok ((wk_all x).e c h.w.vc) hc1) hop hnl) hc
          have tp := wp_of_eq_ok (emitFunc1_T p1 op (wp_of_eq_ok ((wk_all x).e p h.w.vp) hp1) hop hnl) hp
          exact evalPrev_eq_of_nl hr' tc.2 tp.2

end Morfuse.Emit
