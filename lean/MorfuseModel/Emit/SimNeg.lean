import MorfuseModel.Emit.SimNest
import MorfuseModel.Emit.Bytes
/-!
# Simulation between the two passes: unary minus folded into the literal before it (`EvalPrevValue`)
-/
namespace Morfuse.Emit
open Morfuse.Gen.EmitConsts

set_option maxRecDepth 8000

theorem J.withEq {L : Nat} {x y : R St} {Q : St → St → Prop} (h : J L x y Q) :
    J L x y (fun c' p' => Q c' p' ∧ x = .ok c' ∧ y = .ok p') := by
  intro c' hx hL
  have := h c' hx hL
  cases hy : y with
  | error e => rw [hy] at this; exact this
  | ok p' => rw [hy] at this; exact ⟨this, hx, rfl⟩

theorem evalPrev_some_tested {c : St} (hw : WOk c) (x : Bool × Nat) (h : c.evalPrev = .ok (some x)) :
    tested (ent c 0).op = true := by
  unfold St.evalPrev at h
  rw [prevOp_eq c hw] at h
  simp only [ok_bind] at h
  refine decide_eq_true ?_
  have e0 : OP_STORE_INT0 = 12 := rfl
  have e1 : OP_STORE_INT1 = 13 := rfl
  have e2 : OP_STORE_INT2 = 14 := rfl
  have e3 : OP_STORE_INT3 = 15 := rfl
  have e4 : OP_STORE_INT4 = 16 := rfl
  have e8 : OP_STORE_INT8 = 17 := rfl
  have ef : OP_STORE_FLOAT = 21 := rfl
  simp only [e0, e1, e2, e3, e4, e8, ef, OP_BOOL_TO_VAR, OP_BOOL_STORE_TRUE, OP_BOOL_STORE_FALSE, OP_BOOL_UN_NOT,
    OP_UN_CAST_BOOLEAN, OP_DONE, OP_LOAD_GAME_VAR] at h ⊢
  repeat' (first | omega | split at h)
  all_goals (first | omega | cases h)

/-- `EmitFunc1(OP_UN_MINUS)` when both passes read the same previous value -/
theorem J_emitFunc1_minus {L : Nat} {c p : St} (h : Rel L c p) (hev : c.evalPrev = p.evalPrev) :
    J L (c.emitFunc1 OP_UN_MINUS) (p.emitFunc1 OP_UN_MINUS) (Rel L) := by
  unfold St.emitFunc1
  simp only [↓reduceIte]
  rw [← hev]
  cases hc : c.evalPrev with
  | error e => simp only [error_bind]; exact J.error_left
  | ok r =>
    simp only [ok_bind]
    cases r with
    | none => exact J_emitOp h _
    | some x =>
      obtain ⟨f, v⟩ := x
      have ht := evalPrev_some_tested h.w.vc _ hc
      simp only []
      j_steps
      all_goals exact ht

/-- the value `EvalPrevValue` finds right after `EmitInteger(v)` -/
def afterInt (v : Nat) : Nat :=
  if v = 0 then 0
  else if v < 256 then unle (le 1 v)
  else if v < 65536 then unle (le 2 v)
  else if v < 16777216 then unle (le 3 v)
  else if v < 4294967296 then unle (le 4 v)
  else unle (le 8 v)

/-- either manager reads back the integer literal it has just emitted -/
theorem emitInteger_ev {s s1 : St} (hw : WOk s) (hb : BOk s) (v : Nat) (hx : s.emitInteger v = .ok s1) :
    s1.evalPrev = .ok (some (false, afterInt v)) := by
  unfold St.emitInteger at hx
  unfold afterInt
  split at hx
  · rename_i h0
    rw [if_pos h0]
    cases hc : s.counting with
    | true => exact evalPrev_int0 (emitOp_count hc hw _ hx).2.2.1 (emitOp_count hc hw _ hx).2.2.2
    | false => exact evalPrev_int0 (emitOp_prog' hc hw _ hx).2.2.1 (emitOp_prog' hc hw _ hx).2.2.2
  · rename_i h0
    rw [if_neg h0]
    split at hx
    · rename_i h1; rw [if_pos h1]
      obtain ⟨w1, t1, rb⟩ := literal_spec hw hb _ _ (by simp) hx
      have := evalPrev_lit w1 false 1 (by rw [t1]; decide)
      rw [this]; simp only [le_length] at rb; rw [rb]
    · rename_i h1; rw [if_neg h1]
      split at hx
      · rename_i h2; rw [if_pos h2]
        obtain ⟨w1, t1, rb⟩ := literal_spec hw hb _ _ (by simp) hx
        have := evalPrev_lit w1 false 2 (by rw [t1]; decide)
        rw [this]; simp only [le_length] at rb; rw [rb]
      · rename_i h2; rw [if_neg h2]
        split at hx
        · rename_i h3; rw [if_pos h3]
          obtain ⟨w1, t1, rb⟩ := literal_spec hw hb _ _ (by simp) hx
          have := evalPrev_lit w1 false 3 (by rw [t1]; decide)
          rw [this]; simp only [le_length] at rb; rw [rb]
        · rename_i h3; rw [if_neg h3]
          split at hx
          · rename_i h4; rw [if_pos h4]
            obtain ⟨w1, t1, rb⟩ := literal_spec hw hb _ _ (by simp) hx
            have := evalPrev_lit w1 false 4 (by rw [t1]; decide)
            rw [this]; simp only [le_length] at rb; rw [rb]
          · rename_i h4; rw [if_neg h4]
            obtain ⟨w1, t1, rb⟩ := literal_spec hw hb _ _ (by simp) hx
            have := evalPrev_lit w1 false 8 (by rw [t1]; decide)
            rw [this]; simp only [le_length] at rb; rw [rb]

theorem emitFloat_ev {s s1 : St} (hw : WOk s) (hb : BOk s) (bits : Nat)
    (hx : s.emitOpBytes OP_STORE_FLOAT (le 4 bits) = .ok s1) :
    s1.evalPrev = .ok (some (true, unle (le 4 bits))) := by
  obtain ⟨w1, t1, rb⟩ := literal_spec hw hb _ _ (by simp) hx
  have := evalPrev_lit w1 true 4 (by rw [t1]; decide)
  rw [this]; simp only [le_length] at rb; rw [rb]

/-- `-<integer literal>` -/
theorem J_negInt {L : Nat} {c p : St} (h : Rel L c p) (v : Nat) :
    J L (c.emitInteger v >>= fun s => s.emitFunc1 OP_UN_MINUS) (p.emitInteger v >>= fun s => s.emitFunc1 OP_UN_MINUS) (Rel L) := by
  refine J.bind (J.withEq (J_emitInteger h v)) (fun _ => by pl_auto) ?_
  intro c1 p1 ⟨hr, hxc, hxp⟩
  refine J_emitFunc1_minus hr ?_
  rw [emitInteger_ev h.w.vc h.w.bc v hxc, emitInteger_ev h.w.vp h.w.bp v hxp]

/-- `-<float literal>` -/
theorem J_negFloat {L : Nat} {c p : St} (h : Rel L c p) (bits : Nat) :
    J L (c.emitOpBytes OP_STORE_FLOAT (le 4 bits) >>= fun s => s.emitFunc1 OP_UN_MINUS)
      (p.emitOpBytes OP_STORE_FLOAT (le 4 bits) >>= fun s => s.emitFunc1 OP_UN_MINUS) (Rel L) := by
  refine J.bind (J.withEq (J_emitOpBytes h _ _ _ rfl)) (fun _ => by pl_auto) ?_
  intro c1 p1 ⟨hr, hxc, hxp⟩
  refine J_emitFunc1_minus hr ?_
  rw [emitFloat_ev h.w.vc h.w.bc bits hxc, emitFloat_ev h.w.vp h.w.bp bits hxp]

/-- `EvalPrevValue` when the previous opcode carries no operand-literal: it depends on that opcode only -/
theorem evalPrev_nl {s : St} (hw : WOk s) (h : NL s) :
    s.evalPrev = .ok (if (ent s 0).op = OP_STORE_INT0 then some (false, 0) else none) := by
  unfold St.evalPrev
  rw [prevOp_eq s hw]
  have h' := of_decide_eq_false h
  have e0 : OP_STORE_INT0 = 12 := rfl
  have e1 : OP_STORE_INT1 = 13 := rfl
  have e2 : OP_STORE_INT2 = 14 := rfl
  have e3 : OP_STORE_INT3 = 15 := rfl
  have e4 : OP_STORE_INT4 = 16 := rfl
  have e8 : OP_STORE_INT8 = 17 := rfl
  have ef : OP_STORE_FLOAT = 21 := rfl
  simp only [ok_bind, e0, e1, e2, e3, e4, e8, ef] at h' ⊢
  by_cases a0 : (ent s 0).op = 12
  · simp [a0]
  · have a1 : (ent s 0).op ≠ 13 := by omega
    have a2 : (ent s 0).op ≠ 14 := by omega
    have a3 : (ent s 0).op ≠ 15 := by omega
    have a4 : (ent s 0).op ≠ 16 := by omega
    have a8 : (ent s 0).op ≠ 17 := by omega
    have af : (ent s 0).op ≠ 21 := by omega
    simp [a0, a1, a2, a3, a4, a8, af]

/-- after an operand that ends in a non-literal opcode, both passes see the same (empty or zero) previous value -/
theorem evalPrev_eq_of_nl {L : Nat} {c p : St} (h : Rel L c p) (hc : NL c) (hp : NL p) : c.evalPrev = p.evalPrev := by
  rw [evalPrev_nl h.w.vc hc, evalPrev_nl h.w.vp hp]
  rcases h.topCases with heq | ⟨h1, h2⟩
  · rw [heq]
  · rw [if_neg (untested_elim h1).1, if_neg (untested_elim h2).1]

theorem ms_f1 (op : Nat) (x : Node) (ih1 : MSP x) : MSP (.f1 op x) := by
  refine ⟨fun hpl => ?_, fun hpl => ?_, fun hpl => ?_⟩ <;> intro L c p h
  · simp only [emit]
    have hx : x.plain = true := by simp only [Node.plain, Bool.and_eq_true] at hpl; exact hpl.2
    by_cases hop : op = OP_UN_MINUS
    · subst hop
      have hl : x.isLit = true ∨ x.endsNL = true := by simp [Node.plain] at hpl; exact hpl.1
      rcases hl with hl | hn
      · cases x with
        | int v => simp only [emit]; exact J_negInt h v
        | float b => simp only [emit]; exact J_negFloat h b
        | _ => simp [Node.isLit] at hl
      · refine J.bind (J.withEq (ih1.e hx h)) (fun _ => by pl_auto) ?_
        intro c1 p1 ⟨hr, hxc, hxp⟩
        have tc : T c1 := wp_of_eq_ok (endsNL_spec x c hn h.w.vc) hxc
        have tp : T p1 := wp_of_eq_ok (endsNL_spec x p hn h.w.vp) hxp
        exact J_emitFunc1_minus hr (evalPrev_eq_of_nl hr tc.2 tp.2)
    · exact J.bind (ih1.e hx h) (fun _ => by pl_auto) (fun c1 p1 h1 => J_emitFunc1 h1 op hop)
  · simp only [emitRef]; ms_steps
  · simp only [emitAssign]; ms_steps

end Morfuse.Emit
