import MorfuseModel.Emit.SimEmit
import MorfuseModel.Emit.NoCO
/-!
# Simulation between the two passes: `try` / `catch` and `switch` (state scripts, counting sub-emitters)
-/
namespace Morfuse.Emit
open Morfuse.Gen.EmitConsts

set_option maxRecDepth 8000

/-- the program side alone runs something first (the counting sub-emitter of `EmitCatch` / `EmitSwitch`) -/
theorem J.right_bind {α : Type} {L : Nat} {x : R St} {z : R α} {f : α → R St} {P : α → Prop} {Q : St → St → Prop}
    (hs : wp z P ECO) (hk : ∀ a, P a → J L x (f a) Q) : J L x (z >>= f) Q := by
  intro c' hx hL
  rw [wp_bind]
  exact wp_mono hs (fun a ha => hk a ha c' hx hL) (fun _ h => h)

theorem Rel.congrP {L : Nat} {c p p' : St} (h : Rel L c p) (h1 : p'.counting = p.counting) (h2 : p'.prev = p.prev)
    (h3 : p'.prevPos = p.prevPos) (h4 : p'.gross = p.gross) (h5 : p'.pos = p.pos) (h6 : p'.progLen = p.progLen)
    (h7 : p'.nBrk = p.nBrk) (h8 : p'.nCont = p.nCont) (h9 : p'.canBreak = p.canBreak)
    (h10 : p'.canContinue = p.canContinue) (h11 : p'.switchDepth = p.switchDepth)
    (hbk : BOk p → BOk p' := by exact fun hb => ⟨hb.rsize, hb.rcur, hb.bsize⟩) : Rel L c p' :=
  ⟨h.cc, h1.trans h.pc, h.w.congr rfl rfl h2 h3 (fun hb => ⟨hb.rsize, hb.rcur, hb.bsize⟩) hbk, by rw [h4]; exact h.gross, by rw [h4, h5]; exact h.pos, h6.trans h.len,
    h.nb.trans h7.symm, h.nc.trans h8.symm, h.cb.trans h9.symm, h.cct.trans h10.symm, h.sd.trans h11.symm⟩

theorem Rel.leave {L : Nat} {c p : St} (h : Rel L c p) (o1 o2 : SetRef) (s1 s2 : LabelSet) :
    Rel L (c.leave o1 s1) (p.leave o2 s2) := by
  have hc : c.leave o1 s1 = c := by unfold St.leave; rw [if_pos h.cc]
  rw [hc]
  unfold St.leave St.storeCur
  rw [if_neg (by simp [h.pc])]
  split <;> exact h.congrP rfl rfl rfl rfl rfl rfl rfl rfl rfl rfl rfl

theorem Rel.enterP {L : Nat} {c p : St} (h : Rel L c p) (r : Option SetRef) : Rel L c (p.enter r) := by
  unfold St.enter
  split <;> first | exact h | exact h.congrP rfl rfl rfl rfl rfl rfl rfl rfl rfl rfl rfl

theorem contAdd_rel {L : Nat} {c p : St} (h : Rel L c p) (k : Cont) (sz : Nat) :
    wp (k.add sz p) (fun r => Rel L c r.2) ECO := by
  unfold Cont.add
  wp_simp
  repeat' (first
    | (wp_simp; with_reducible refine wp_mono (alloc_rel (L := L) (c := c) ?_ _) (fun _ _ => ?_) (fun _ h => h))
    | ((with_reducible show Rel _ _ _); assumption)
    | (rw [wp_ok]; assumption)
    | (wp_simp; split))

theorem J2_createCatch {L : Nat} {c p : St} (h : Rel L c p) (t1 t2 n1 n2 : Nat) :
    J2 L (c.createCatch t1 n1) (p.createCatch t2 n2) (fun r r' => Rel L (r.2.enter r.1) (r'.2.enter r'.1)) := by
  intro r hx hL
  unfold St.createCatch at hx ⊢
  rw [if_pos h.cc] at hx
  rw [if_neg (by simp [h.pc])]
  injection hx with hx
  subst hx
  have hc : Rel L ({ c with info := { c.info with numCatches := c.info.numCatches + 1 } } : St) p :=
    h.congrC rfl rfl rfl rfl rfl rfl rfl rfl rfl
  wp_simp
  refine wp_mono (contAdd_rel hc _ _) ?_ (fun _ h => h)
  intro a ha
  wp_simp
  refine wp_mono (resize_rel ha _ _) ?_ (fun _ h => h)
  intro b hb
  wp_simp
  refine Rel.enterP ?_ _
  exact hb.congrP rfl rfl rfl rfl rfl rfl rfl rfl rfl rfl rfl

theorem J2_createSwitch {L : Nat} {c p : St} (h : Rel L c p) (n1 n2 : Nat) :
    J2 L (c.createSwitch n1) (p.createSwitch n2) (fun r r' => Rel L (r.2.enter r.1) (r'.2.enter r'.1)) := by
  intro r hx hL
  unfold St.createSwitch at hx ⊢
  rw [if_pos h.cc] at hx
  rw [if_neg (by simp [h.pc])]
  injection hx with hx
  subst hx
  have hc : Rel L ({ c with info := { c.info with numSwitches := c.info.numSwitches + 1 } } : St) p :=
    h.congrC rfl rfl rfl rfl rfl rfl rfl rfl rfl
  wp_simp
  refine wp_mono (contAdd_rel hc _ _) ?_ (fun _ h => h)
  intro a ha
  wp_simp
  refine wp_mono (resize_rel ha _ _) ?_ (fun _ h => h)
  intro b hb
  wp_simp
  refine Rel.enterP ?_ _
  exact hb.congrP rfl rfl rfl rfl rfl rfl rfl rfl rfl rfl rfl

/-- the counting sub-emitter of `EmitCatch` / `EmitSwitch`: whatever it returns, it is no code overflow -/
theorem subEmitter_eco (n : Node) (cb cc : Bool) (sd : Nat) :
    wp (emit n { St.init true with canBreak := cb, canContinue := cc, switchDepth := sd } >>= fun t => t.emitEof >>= fun t =>
        (Except.ok (t.info.numLabels + t.info.numCaseLabels) : R Nat)) (fun _ => True) ECO := by
  rw [wp_bind]
  refine wp_mono ((nc_all n).e _ rfl) ?_ (fun _ h => h)
  intro t ht
  rw [wp_bind]
  exact wp_mono (emitEof_nc t ht) (fun _ _ => trivial) (fun _ h => h)

theorem Rel.setSwitchDepth {L : Nat} {c p : St} (h : Rel L c p) (d1 d2 : Nat) (hd : d1 = d2) :
    Rel L { c with switchDepth := d1 } { p with switchDepth := d2 } :=
  ⟨h.cc, h.pc, h.w.congr rfl rfl rfl rfl, h.gross, h.pos, h.len, h.nb, h.nc, h.cb, h.cct, hd⟩

theorem Rel.setBreakDepth {L : Nat} {c p : St} (h : Rel L c p) (v1 v2 : Bool) (d1 d2 : Nat) (hv : v1 = v2) (hd : d1 = d2) :
    Rel L { c with canBreak := v1, switchDepth := d1 } { p with canBreak := v2, switchDepth := d2 } :=
  ⟨h.cc, h.pc, h.w.congr rfl rfl rfl rfl, h.gross, h.pos, h.len, h.nb, h.nc, hv, h.cct, hd⟩

theorem J_emitSwitchOp {L : Nat} {c p : St} (h : Rel L c p) : J L c.emitSwitchOp p.emitSwitchOp (Rel L) := by
  unfold St.emitSwitchOp
  exact J_emitOpBytes h _ _ _ (by simp)

macro_rules | `(tactic| rel_close) => `(tactic| ((with_reducible show Rel _ (St.leave _ _ _) (St.leave _ _ _)); refine Rel.leave ?_ _ _ _ _; rel_close))

theorem ms_try (b : Node) (c : Node) (ih1 : MSP b) (ih2 : MSP c) : MSP (.try_ b c) := by
  refine MSP.of3 _ (fun hpl => ?_) (fun hpl => ?_) (fun hpl => ?_) (by intro hh; simp [Node.evOk] at hh) <;> intro L c0 p0 h
  · simp only [emit]
    ms_steps
    rename_i hr
    rw [if_pos hr.cc, if_neg (by simp [hr.pc])]
    refine J.right_bind ((nc_all c).e _ rfl) (fun t ht => ?_)
    refine J.right_bind (emitEof_nc t ht) (fun t2 _ => ?_)
    simp only [ok_bind]
    refine J.bind2 (J2_createCatch hr _ _ _ _) ?_ ?_
    · intro r; pl_auto
    · intro r r' hrr
      ms_steps
  · simp only [emitRef]; ms_steps
  · simp only [emitAssign]; ms_steps

theorem ms_switch (e : Node) (b : Node) (ih1 : MSP e) (ih2 : MSP b) : MSP (.switch e b) := by
  refine MSP.of3 _ (fun hpl => ?_) (fun hpl => ?_) (fun hpl => ?_) (by intro hh; simp [Node.evOk] at hh) <;> intro L c0 p0 h
  · simp only [emit]
    ms_steps
    rename_i hr
    rw [if_pos hr.cc, if_neg (by simp [hr.pc])]
    refine J.right_bind ((nc_all b).e _ rfl) (fun t ht => ?_)
    refine J.right_bind (emitEof_nc t ht) (fun t2 _ => ?_)
    simp only [ok_bind]
    refine J.bind2 (J2_createSwitch (hr.setSwitchDepth _ _ (by rw [hr.sd])) _ _) ?_ ?_
    · intro r; pl_auto
    · intro r r' hrr
      refine J.bind (J_emitSwitchOp hrr) (fun _ => by pl_auto) ?_
      intro c1 p1 h1
      refine J.bind (J_emitBreak (h1.setCanBreak true true rfl)) (fun _ => by pl_auto) ?_
      intro c2 p2 h2
      refine J.bind ((ih2.e (by plain_close)) h2) (fun _ => by pl_auto) ?_
      intro c3 p3 h3
      refine J.bind (J_processBreak h3 _ _ h1.nb) (fun _ => by pl_auto) ?_
      intro c4 p4 h4
      refine J.ok (Rel.leave (h4.setBreakDepth _ _ _ _ h1.cb (by rw [h4.sd])) _ _ _ _)
  · simp only [emitRef]; ms_steps
  · simp only [emitAssign]; ms_steps

end Morfuse.Emit
