import MorfuseModel.Emit.WinOk
import MorfuseModel.Emit.Fuse
/-!
# Which node kinds leave an opcode without operand-literal on top of the previous-opcode window

`EvalPrevValue` reads code bytes back only when the previous opcode is `OP_STORE_INT1 … OP_STORE_INT8` or
`OP_STORE_FLOAT`.  After a field read, a binary or (non-minus) unary operator, an array access, a command with a
result, a string, `NIL`, `NULL`, a vector, a listener, `!`, `&&`, `||` the previous opcode is none of those — in
either manager, whatever the sub-trees are.
-/
namespace Morfuse.Emit
open Morfuse.Gen.EmitConsts

set_option maxRecDepth 8000

/-- the literal opcodes whose operand bytes `EvalPrevValue` reads back -/
def byteLit (op : Nat) : Bool := decide ((OP_STORE_INT1 ≤ op ∧ op ≤ OP_STORE_INT8) ∨ op = OP_STORE_FLOAT)

/-- the previous opcode carries no operand bytes that `EvalPrevValue` would read -/
def NL (s : St) : Prop := byteLit (ent s 0).op = false

/-- well-formed window with such a top -/
abbrev T (s : St) : Prop := WOk s ∧ NL s

theorem T.congr {s s' : St} (h : T s) (h1 : s'.prev = s.prev) (h2 : s'.prevPos = s.prevPos) : T s' := by
  refine ⟨wok_congr h.1 h1 h2, ?_⟩
  have : ent s' 0 = ent s 0 := by simp [ent, h1, h2]
  unfold NL; rw [this]; exact h.2

theorem T.accumulate {s : St} (hw : WOk s) (op : Nat) (off : Int) (hop : byteLit (op % 256) = false) :
    T (s.accumulate op off) :=
  ⟨accumulate_ok s hw op off, by unfold NL; rw [ent_accumulate_zero s hw]; exact hop⟩

theorem T.moveFwd {s : St} (h : T s) (k : Nat) : T (s.moveFwd k) := by
  unfold St.moveFwd; split <;> exact h.congr rfl rfl

theorem T.cleared {s : St} (hw : WOk s) : T s.cleared :=
  ⟨cleared_ok s hw, by unfold NL; rw [ent_cleared_zero s hw]; decide⟩

theorem write_T (s : St) (bs : List Nat) (h : T s) : wp (s.write bs) T (fun _ => True) := by
  unfold St.write
  split
  · have := ringWrite_fields bs { s with info := { s.info with progLength := s.info.progLength + bs.length } }
    exact h.congr this.1 this.2.1
  · split
    · trivial
    · exact h.congr rfl rfl

theorem emitOp_T (s : St) (op : Nat) (hw : WOk s) (hop : byteLit (op % 256) = false) :
    wp (s.emitOp op) T (fun _ => True) := by
  rw [emitOp_unfold]
  cases hS : opStack? (op % 256) with
  | none => trivial
  | some off =>
    simp only []
    split
    · trivial
    · cases hE : opExt? (op % 256) with
      | none => trivial
      | some e =>
        simp only []
        obtain ⟨q1, q2, _⟩ := pushed_fields s hw e (op % 256) off
        refine write_T _ _ ⟨q1, ?_⟩
        unfold NL; rw [q2, Nat.mod_mod]; exact hop

theorem emitOpWith_T (s : St) (op : Nat) (off : Int) (hw : WOk s) (hop : byteLit (op % 256) = false) :
    wp (s.emitOpWith op off) T (fun _ => True) := by
  unfold St.emitOpWith
  simp only [ok_bind, error_bind, throw_eq, pure_eq]
  split
  · trivial
  · cases hE : opExt? (op % 256) with
    | none => trivial
    | some e =>
      simp only []
      refine write_T _ _ (T.accumulate (wok_trackStack hw _ _) _ _ ?_)
      rw [Nat.mod_mod]; exact hop

theorem clearPrev_T (s : St) (hw : WOk s) : wp s.clearPrev T (fun _ => True) := by
  rw [clearPrev_eq s hw]; exact T.cleared hw

/-- close a `byteLit _ = false` side goal: a concrete opcode, or a hypothesis -/
macro "nl_op" : tactic => `(tactic| first | assumption | decide | (simp only [Nat.mod_mod]; assumption))

macro "t_close" : tactic =>
  `(tactic| first
    | assumption
    | exact T.moveFwd (by assumption) _
    | exact T.accumulate (by assumption) _ _ (by nl_op)
    | exact T.accumulate (And.left (by assumption)) _ _ (by nl_op))

/-- walk through a body: sub-trees and primitives keep the window well-formed; an `EmitOpcode` of a non-literal opcode
establishes `T`, writes and forward moves keep it -/
syntax "t_extra" : tactic
macro_rules | `(tactic| t_extra) => `(tactic| fail "no extra rule")

macro "t_walk" : tactic =>
  `(tactic| repeat' (first
    | t_extra
    | (wp_simp; with_reducible refine wp_mono (write_T _ _ (by assumption)) ?_ (fun _ _ => trivial))
    | (wp_simp; with_reducible refine wp_mono (emitOp_T _ _ ?_ (by nl_op)) ?_ (fun _ _ => trivial))
    | (wp_simp; with_reducible refine wp_mono (emitOpWith_T _ _ _ ?_ (by nl_op)) ?_ (fun _ _ => trivial))
    | (wp_simp; with_reducible refine wp_mono ((wk_all _).e _ ?_) ?_ (fun _ _ => trivial))
    | (wp_simp; with_reducible refine wp_mono ((wk_all _).r _ ?_) ?_ (fun _ _ => trivial))
    | (wp_simp; with_reducible refine wp_mono ((wk_all _).a _ ?_) ?_ (fun _ _ => trivial))
    | (wp_simp; with_reducible refine wp_mono ((wk_allL _).l _ ?_) ?_ (fun _ _ => trivial))
    | (wp_simp; wk_prim)
    | ((with_reducible show ∀ _, _ → _); intro _ _)
    | (wp_simp; (with_reducible show T _); t_close)
    | (wp_simp; (with_reducible show WOk _); first | assumption | exact And.left (by assumption) | wok_close)
    | (wp_simp; (with_reducible show True); trivial)
    | ((with_reducible show wp (Except.error _) _ _); exact trivial)
    | (wp_simp; split)))

theorem emitOpBytes_T (s : St) (op : Nat) (bs : List Nat) (hw : WOk s) (hop : byteLit (op % 256) = false) :
    wp (s.emitOpBytes op bs) T (fun _ => True) := by
  unfold St.emitOpBytes
  t_walk

theorem emitExec_T (s : St) (a b n : Nat) (off : Int) (ev : Nat) (hw : WOk s)
    (ha : n ≤ 5 → byteLit ((a + n) % 256) = false) (hb : byteLit (b % 256) = false) :
    wp (s.emitExec a b n off ev) T (fun _ => True) := by
  unfold St.emitExec
  split
  · t_walk
  · have := ha (by omega)
    t_walk

theorem execMethod_nl (n : Nat) (h : n ≤ 5) : byteLit ((OP_EXEC_METHOD0 + n) % 256) = false := by
  have : n = 0 ∨ n = 1 ∨ n = 2 ∨ n = 3 ∨ n = 4 ∨ n = 5 := by omega
  rcases this with h | h | h | h | h | h <;> subst h <;> decide

theorem boolToVar_T (s : St) (hw : WOk s) : wp s.boolToVar T (fun _ => True) := by
  unfold St.boolToVar
  t_walk

macro_rules | `(tactic| t_extra) => `(tactic| (wp_simp; with_reducible refine wp_mono (emitExec_T _ _ _ _ _ _ ?_ (execMethod_nl _) (by decide)) ?_ (fun _ _ => trivial)))

theorem emitFunc1_T (s : St) (op : Nat) (hw : WOk s) (hne : op ≠ OP_UN_MINUS) (hop : byteLit (op % 256) = false) :
    wp (s.emitFunc1 op) T (fun _ => True) := by
  unfold St.emitFunc1
  simp only [hne, ↓reduceIte]
  exact emitOp_T s op hw hop

theorem storeVar_nl (b : Nat) (hb : b ≤ 6) :
    byteLit ((OP_STORE_GAME_VAR + b) % 256) = false ∧ byteLit ((OP_LOAD_STORE_GAME_VAR + b) % 256) = false := by
  have : b = 0 ∨ b = 1 ∨ b = 2 ∨ b = 3 ∨ b = 4 ∨ b = 5 ∨ b = 6 := by omega
  rcases this with h | h | h | h | h | h | h <;> subst h <;> decide

/-- node kinds whose emission ends with an opcode that carries no operand-literal (conditions: the opcode bytes taken
from the tree are not literal opcodes, listener bytes as the parser produces them) -/
def Node.endsNL : Node → Bool
  | .field _ _ _ _ l => match l with | .listener b => decide (b ≤ 6) | _ => true
  | .f2 op _ _ => !byteLit (op % 256)
  | .f1 op _ => decide (op ≠ OP_UN_MINUS) && !byteLit (op % 256)
  | .listener b => !byteLit ((OP_STORE_GAME + b) % 256)
  | .str _ | .nil | .null | .vec _ _ _ | .idx _ _ | .carr _ _ | .marr _ | .cmdx _ _ _ | .mcmdx _ _ _ _
  | .not_ _ | .and_ _ _ | .or_ _ _ => true
  | _ => false

/-- operands after which both passes make the same decision in `EmitFunc1(OP_UN_MINUS)`: a literal just emitted, a node
that ends in an opcode without operand-literal, or again a unary minus on such an operand -/
def Node.evOk : Node → Bool
  | .int _ | .float _ => true
  | .f1 op x => if op = OP_UN_MINUS then x.evOk else !byteLit (op % 256)
  | .field _ _ _ _ l => match l with | .listener b => decide (b ≤ 6) | _ => true
  | .f2 op _ _ => !byteLit (op % 256)
  | .listener b => !byteLit ((OP_STORE_GAME + b) % 256)
  | .str _ | .nil | .null | .vec _ _ _ | .idx _ _ | .carr _ _ | .marr _ | .cmdx _ _ _ | .mcmdx _ _ _ _
  | .not_ _ | .and_ _ _ | .or_ _ _ => true
  | _ => false

/-- `EvalPrevValue` when the previous opcode carries no operand-literal: it depends on that opcode only -/
theorem evalPrev_nl {s : St} (hw : WOk s) (h : NL s) :
    s.evalPrev = .ok (if (ent s 0).op = OP_STORE_INT0 then some (false, 0) else none) := by
  unfold St.evalPrev
  rw [prevOp_eq s hw]
  have h' := of_decide_eq_false h
  have e0 : OP_STORE_INT0 = 12 := rfl
  have e1 : OP_STORE_INT1 = 13 := rfl
  have e2 : OP_STORE_INT2 = 14 := rfl
  have e3 : OP_STORE_INT3 = 15 := rfl
  have e4 : OP_STORE_INT4 = 16 := rfl
  have e8 : OP_STORE_INT8 = 17 := rfl
  have ef : OP_STORE_FLOAT = 21 := rfl
  simp only [ok_bind, e0, e1, e2, e3, e4, e8, ef] at h' ⊢
  by_cases a0 : (ent s 0).op = 12
  · simp [a0]
  · have a1 : (ent s 0).op ≠ 13 := by omega
    have a2 : (ent s 0).op ≠ 14 := by omega
    have a3 : (ent s 0).op ≠ 15 := by omega
    have a4 : (ent s 0).op ≠ 16 := by omega
    have a8 : (ent s 0).op ≠ 17 := by omega
    have af : (ent s 0).op ≠ 21 := by omega
    simp [a0, a1, a2, a3, a4, a8, af]

set_option hygiene false in
macro "t_node" : tactic =>
  `(tactic| (simp only [emit]; (try simp only [ok_bind, error_bind, throw_eq, pure_eq]); t_walk))

/-- after such a node the previous opcode is not an operand-literal, whichever manager, whatever the sub-trees -/
theorem endsNL_spec (x : Node) (s : St) (hx : x.endsNL = true) (hw : WOk s) : wp (emit x s) T (fun _ => True) := by
  cases x with
  | field idx ev rd wr l =>
    simp only [emit]
    split
    · rename_i b
      have hb : b ≤ 6 := by simpa [Node.endsNL] using hx
      obtain ⟨n1, n2⟩ := storeVar_nl b hb
      (try simp only [ok_bind, error_bind, throw_eq, pure_eq])
      t_walk
    · simp only [ok_bind, error_bind, throw_eq, pure_eq, ↓reduceIte]
      t_walk
  | f2 op a b =>
    have hop : byteLit (op % 256) = false := by simpa [Node.endsNL] using hx
    t_node
  | f1 op y =>
    have h : op ≠ OP_UN_MINUS ∧ byteLit (op % 256) = false := by simpa [Node.endsNL] using hx
    simp only [emit]
    wp_simp
    refine wp_mono ((wk_all y).e s hw) ?_ (fun _ _ => trivial)
    intro a ha
    exact emitFunc1_T a op ha h.1 h.2
  | listener b =>
    have hop : byteLit ((OP_STORE_GAME + b) % 256) = false := by simpa [Node.endsNL] using hx
    t_node
  | str i => simp only [emit]; exact emitOpBytes_T _ _ _ (wok_addString hw _) (by decide)
  | nil => t_node
  | null => t_node
  | vec a b c => t_node
  | idx a i => t_node
  | carr a xs => t_node
  | marr xs => t_node
  | cmdx ev hp ps =>
    t_node
  | mcmdx ev l hp ps =>
    t_node
  | not_ y =>
    simp only [emit]
    wp_simp
    refine wp_mono ((wk_all y).e s hw) ?_ (fun _ _ => trivial)
    intro a ha
    refine wp_mono (varToBool_wk a ha) ?_ (fun _ _ => trivial)
    intro b hb
    refine wp_mono (boolNot_wk b hb) ?_ (fun _ _ => trivial)
    intro c hc
    exact boolToVar_T c hc
  | and_ a b =>
    simp only [emit]
    wp_simp
    refine wp_mono ((wk_all a).e s hw) ?_ (fun _ _ => trivial)
    intro s1 h1
    refine wp_mono (varToBool_wk s1 h1) ?_ (fun _ _ => trivial)
    intro s2 h2
    refine wp_mono (emitOp_wk s2 _ h2) ?_ (fun _ _ => trivial)
    intro s3 h3
    refine wp_mono (clearPrev_wk _ (wok_moveFwd h3 _)) ?_ (fun _ _ => trivial)
    intro s4 h4
    refine wp_mono ((wk_all b).e s4 h4) ?_ (fun _ _ => trivial)
    intro s5 h5
    refine wp_mono (varToBool_wk s5 h5) ?_ (fun _ _ => trivial)
    intro s6 h6
    refine wp_mono (addJumpLocation_wk s6 _ h6) ?_ (fun _ _ => trivial)
    intro s7 h7
    exact T.accumulate h7 _ _ (by decide)
  | or_ a b =>
    simp only [emit]
    wp_simp
    refine wp_mono ((wk_all a).e s hw) ?_ (fun _ _ => trivial)
    intro s1 h1
    refine wp_mono (varToBool_wk s1 h1) ?_ (fun _ _ => trivial)
    intro s2 h2
    refine wp_mono (emitOp_wk s2 _ h2) ?_ (fun _ _ => trivial)
    intro s3 h3
    refine wp_mono (clearPrev_wk _ (wok_moveFwd h3 _)) ?_ (fun _ _ => trivial)
    intro s4 h4
    refine wp_mono ((wk_all b).e s4 h4) ?_ (fun _ _ => trivial)
    intro s5 h5
    refine wp_mono (varToBool_wk s5 h5) ?_ (fun _ _ => trivial)
    intro s6 h6
    refine wp_mono (addJumpLocation_wk s6 _ h6) ?_ (fun _ _ => trivial)
    intro s7 h7
    exact T.accumulate h7 _ _ (by decide)
  | _ => simp [Node.endsNL] at hx

end Morfuse.Emit
