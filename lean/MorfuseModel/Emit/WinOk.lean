import MorfuseModel.Emit.Window
import MorfuseModel.Emit.Wp
/-!
# The previous-opcode window stays well-formed (`prev_opcode_pos < MAX_PREV_OPCODES`, all 100 slots) through every step
of the emitter — either manager, all trees
-/
namespace Morfuse.Emit
open Morfuse.Gen.EmitConsts

set_option maxRecDepth 8000

theorem wok_congr {s s' : St} (h : WOk s) (h1 : s'.prev = s.prev) (h2 : s'.prevPos = s.prevPos) : WOk s' :=
  ⟨by rw [h1]; exact h.size, by rw [h2]; exact h.pos⟩
theorem wok_trackStack {s : St} (h : WOk s) (e : Bool) (o : Int) : WOk (s.trackStack e o) := by
  unfold St.trackStack; cases e <;> exact wok_congr h rfl rfl
theorem wok_moveFwd {s : St} (h : WOk s) (k : Nat) : WOk (s.moveFwd k) := by
  unfold St.moveFwd; split <;> exact wok_congr h rfl rfl
theorem wok_addString {s : St} (h : WOk s) (k : Nat) : WOk (s.addString k).2 := by
  unfold St.addString; split <;> exact wok_congr h rfl rfl
theorem wok_enter {s : St} (h : WOk s) (r : Option SetRef) : WOk (s.enter r) := by
  unfold St.enter; split <;> exact wok_congr h rfl rfl
theorem wok_leave {s : St} (h : WOk s) (o : SetRef) (os : LabelSet) : WOk (s.leave o os) := by
  unfold St.leave St.storeCur; split
  · exact h
  · split <;> exact wok_congr h rfl rfl
theorem wok_ringWrite (bs : List Nat) (s : St) (h : WOk s) : WOk (s.ringWrite bs) := by
  induction bs generalizing s with
  | nil => exact h
  | cons b bs ih => unfold St.ringWrite; exact ih _ (wok_congr h rfl rfl)

syntax "wok_close" : tactic
macro_rules | `(tactic| wok_close) => `(tactic| assumption)
macro_rules | `(tactic| wok_close) => `(tactic| (refine ⟨?_, ?_⟩ <;> simp only [] <;> first | exact WOk.size (by assumption) | exact WOk.pos (by assumption)))
macro_rules | `(tactic| wok_close) => `(tactic| ((with_reducible refine wok_trackStack ?_ _ _); wok_close))
macro_rules | `(tactic| wok_close) => `(tactic| ((with_reducible refine accumulate_ok _ ?_ _ _); wok_close))
macro_rules | `(tactic| wok_close) => `(tactic| ((with_reducible refine wok_moveFwd ?_ _); wok_close))
macro_rules | `(tactic| wok_close) => `(tactic| ((with_reducible refine wok_addString ?_ _); wok_close))
macro_rules | `(tactic| wok_close) => `(tactic| ((with_reducible refine wok_enter ?_ _); wok_close))
macro_rules | `(tactic| wok_close) => `(tactic| ((with_reducible refine wok_leave ?_ _ _); wok_close))
macro_rules | `(tactic| wok_close) => `(tactic| ((with_reducible refine pop_ok _ ?_); wok_close))

syntax "wk_prim" : tactic

macro "wk_auto" : tactic =>
  `(tactic| repeat' (first
    | (wp_simp; wk_prim)
    | ((with_reducible show ∀ _, _ → _); intro _ _)
    | (wp_simp; (with_reducible show WOk _); first | wok_close | (refine ⟨?_, ?_⟩ <;> simp only [] <;> first | exact WOk.size (by assumption) | exact WOk.pos (by assumption)))
    | (wp_simp; (with_reducible show True); trivial)
    | ((with_reducible show wp (Except.error _) _ _); exact trivial)
    | (wp_simp; split)))

theorem write_wk (s : St) (bs : List Nat) (hw : WOk s) : wp (s.write bs) WOk (fun _ => True) := by
  unfold St.write
  split
  · exact wok_ringWrite _ _ (wok_congr hw rfl rfl)
  · split
    · trivial
    · exact wok_congr hw rfl rfl
macro_rules | `(tactic| wk_prim) => `(tactic| with_reducible refine wp_mono (write_wk _ _ ?_) ?_ (fun _ _ => trivial))

theorem moveBack_wk (s : St) (k : Nat) (hw : WOk s) : wp (s.moveBack k) WOk (fun _ => True) := by
  unfold St.moveBack
  split
  · exact wok_congr hw rfl rfl
  · split
    · trivial
    · exact wok_congr hw rfl rfl
macro_rules | `(tactic| wk_prim) => `(tactic| with_reducible refine wp_mono (moveBack_wk _ _ ?_) ?_ (fun _ _ => trivial))

theorem setAt_wk (s : St) (p : Nat) (bs : List Nat) (hw : WOk s) : wp (s.setAt p bs) WOk (fun _ => True) := by
  unfold St.setAt
  split
  · exact hw
  · split
    · trivial
    · exact wok_congr hw rfl rfl
macro_rules | `(tactic| wk_prim) => `(tactic| with_reducible refine wp_mono (setAt_wk _ _ _ ?_) ?_ (fun _ _ => trivial))

theorem clearPrev_wk (s : St) (hw : WOk s) : wp s.clearPrev WOk (fun _ => True) := by
  rw [clearPrev_eq s hw]; exact cleared_ok s hw
macro_rules | `(tactic| wk_prim) => `(tactic| with_reducible refine wp_mono (clearPrev_wk _ ?_) ?_ (fun _ _ => trivial))

theorem read_wk {α} (x : R α) : wp x (fun _ => True) (fun _ => True) := by
  cases x <;> trivial
macro_rules | `(tactic| wk_prim) => `(tactic| with_reducible refine wp_mono (read_wk (St.prevOp _)) ?_ (fun _ _ => trivial))
macro_rules | `(tactic| wk_prim) => `(tactic| with_reducible refine wp_mono (read_wk (St.evalPrev _)) ?_ (fun _ _ => trivial))
macro_rules | `(tactic| wk_prim) => `(tactic| with_reducible refine wp_mono (read_wk (checkCount _ _)) ?_ (fun _ _ => trivial))

theorem alloc_wk (s : St) (n : Nat) (hw : WOk s) : wp (s.alloc n) WOk (fun _ => True) := by
  unfold St.alloc
  split
  · trivial
  · exact wok_congr hw rfl rfl
macro_rules | `(tactic| wk_prim) => `(tactic| with_reducible refine wp_mono (alloc_wk _ _ ?_) ?_ (fun _ _ => trivial))

theorem absorb_wk (s : St) (hw : WOk s) : wp s.absorb WOk (fun _ => True) := by
  unfold St.absorb
  wp_simp
  refine wp_mono (read_wk _) ?_ (fun _ _ => trivial)
  intro p _
  split
  · wp_simp
    refine wp_mono (moveBack_wk _ _ (wok_congr hw rfl rfl)) ?_ (fun _ _ => trivial)
    intro a ha
    wp_simp
    exact pop_ok a ha
  · trivial
macro_rules | `(tactic| wk_prim) => `(tactic| with_reducible refine wp_mono (absorb_wk _ ?_) ?_ (fun _ _ => trivial))

theorem emitOpWith_wk (s : St) (op : Nat) (off : Int) (hw : WOk s) : wp (s.emitOpWith op off) (WOk) (fun _ => True) := by
  unfold St.emitOpWith
  wk_auto
macro_rules | `(tactic| wk_prim) => `(tactic| with_reducible refine wp_mono (emitOpWith_wk _ _ _ ?_) ?_ (fun _ _ => trivial))

theorem emitOp_wk (s : St) (op : Nat) (hw : WOk s) : wp (s.emitOp op) (WOk) (fun _ => True) := by
  unfold St.emitOp
  wk_auto
macro_rules | `(tactic| wk_prim) => `(tactic| with_reducible refine wp_mono (emitOp_wk _ _ ?_) ?_ (fun _ _ => trivial))

theorem emitOpBytes_wk (s : St) (op : Nat) (bs : List Nat) (hw : WOk s) : wp (s.emitOpBytes op bs) (WOk) (fun _ => True) := by
  unfold St.emitOpBytes
  wk_auto
macro_rules | `(tactic| wk_prim) => `(tactic| with_reducible refine wp_mono (emitOpBytes_wk _ _ _ ?_) ?_ (fun _ _ => trivial))

theorem emitInteger_wk (s : St) (v : Nat) (hw : WOk s) : wp (s.emitInteger v) (WOk) (fun _ => True) := by
  unfold St.emitInteger
  wk_auto
macro_rules | `(tactic| wk_prim) => `(tactic| with_reducible refine wp_mono (emitInteger_wk _ _ ?_) ?_ (fun _ _ => trivial))

theorem varToBool_wk (s : St) (hw : WOk s) : wp (s.varToBool) (WOk) (fun _ => True) := by
  unfold St.varToBool
  wk_auto
macro_rules | `(tactic| wk_prim) => `(tactic| with_reducible refine wp_mono (varToBool_wk _ ?_) ?_ (fun _ _ => trivial))

theorem boolNot_wk (s : St) (hw : WOk s) : wp (s.boolNot) (WOk) (fun _ => True) := by
  unfold St.boolNot
  wk_auto
macro_rules | `(tactic| wk_prim) => `(tactic| with_reducible refine wp_mono (boolNot_wk _ ?_) ?_ (fun _ _ => trivial))

theorem boolToVar_wk (s : St) (hw : WOk s) : wp (s.boolToVar) (WOk) (fun _ => True) := by
  unfold St.boolToVar
  wk_auto
macro_rules | `(tactic| wk_prim) => `(tactic| with_reducible refine wp_mono (boolToVar_wk _ ?_) ?_ (fun _ _ => trivial))

theorem boolJump_wk (s : St) (t : Bool) (hw : WOk s) : wp (s.boolJump t) (WOk) (fun _ => True) := by
  unfold St.boolJump
  wk_auto
macro_rules | `(tactic| wk_prim) => `(tactic| with_reducible refine wp_mono (boolJump_wk _ _ ?_) ?_ (fun _ _ => trivial))

theorem emitNot_wk (s : St) (hw : WOk s) : wp (s.emitNot) (WOk) (fun _ => True) := by
  unfold St.emitNot
  wk_auto
macro_rules | `(tactic| wk_prim) => `(tactic| with_reducible refine wp_mono (emitNot_wk _ ?_) ?_ (fun _ _ => trivial))

theorem addJumpLocation_wk (s : St) (p : Nat) (hw : WOk s) : wp (s.addJumpLocation p) (WOk) (fun _ => True) := by
  unfold St.addJumpLocation
  wk_auto
macro_rules | `(tactic| wk_prim) => `(tactic| with_reducible refine wp_mono (addJumpLocation_wk _ _ ?_) ?_ (fun _ _ => trivial))

theorem emitJumpBack_wk (s : St) (p : Nat) (hw : WOk s) : wp (s.emitJumpBack p) (WOk) (fun _ => True) := by
  unfold St.emitJumpBack
  wk_auto
macro_rules | `(tactic| wk_prim) => `(tactic| with_reducible refine wp_mono (emitJumpBack_wk _ _ ?_) ?_ (fun _ _ => trivial))

theorem emitEof_wk (s : St) (hw : WOk s) : wp (s.emitEof) (WOk) (fun _ => True) := by
  unfold St.emitEof
  wk_auto
macro_rules | `(tactic| wk_prim) => `(tactic| with_reducible refine wp_mono (emitEof_wk _ ?_) ?_ (fun _ _ => trivial))

theorem emitFunc1_wk (s : St) (op : Nat) (hw : WOk s) : wp (s.emitFunc1 op) (WOk) (fun _ => True) := by
  unfold St.emitFunc1
  wk_auto
macro_rules | `(tactic| wk_prim) => `(tactic| with_reducible refine wp_mono (emitFunc1_wk _ _ ?_) ?_ (fun _ _ => trivial))

theorem emitParameter_wk (s : St) (p : Node) (hw : WOk s) : wp (s.emitParameter p) (WOk) (fun _ => True) := by
  unfold St.emitParameter
  wk_auto
macro_rules | `(tactic| wk_prim) => `(tactic| with_reducible refine wp_mono (emitParameter_wk _ _ ?_) ?_ (fun _ _ => trivial))

theorem emitParameters_wk : ∀ (ps : Nodes) (s : St), WOk s → wp (St.emitParameters ps s) WOk (fun _ => True)
  | .nil, s, hw => by simpa [St.emitParameters] using hw
  | .cons p ps, s, hw => by
    unfold St.emitParameters
    wp_simp
    refine wp_mono (emitParameter_wk s p hw) ?_ (fun _ _ => trivial)
    intro a ha
    exact emitParameters_wk ps a ha
macro_rules | `(tactic| wk_prim) => `(tactic| with_reducible refine wp_mono (emitParameters_wk _ _ ?_) ?_ (fun _ _ => trivial))

theorem emitLabelParameterList_wk (s : St) (h : Bool) (ps : Nodes) (hw : WOk s) : wp (s.emitLabelParameterList h ps) (WOk) (fun _ => True) := by
  unfold St.emitLabelParameterList
  wk_auto
macro_rules | `(tactic| wk_prim) => `(tactic| with_reducible refine wp_mono (emitLabelParameterList_wk _ _ _ ?_) ?_ (fun _ _ => trivial))

theorem emitExec_wk (s : St) (a b n : Nat) (off : Int) (ev : Nat) (hw : WOk s) : wp (s.emitExec a b n off ev) (WOk) (fun _ => True) := by
  unfold St.emitExec
  wk_auto
macro_rules | `(tactic| wk_prim) => `(tactic| with_reducible refine wp_mono (emitExec_wk _ _ _ _ _ _ ?_) ?_ (fun _ _ => trivial))

theorem emitSwitchOp_wk (s : St) (hw : WOk s) : wp (s.emitSwitchOp) (WOk) (fun _ => True) := by
  unfold St.emitSwitchOp
  wk_auto
macro_rules | `(tactic| wk_prim) => `(tactic| with_reducible refine wp_mono (emitSwitchOp_wk _ ?_) ?_ (fun _ _ => trivial))

theorem addBreak_wk (s : St) (p : Nat) (hw : WOk s) : wp (s.addBreak p) (WOk) (fun _ => True) := by
  unfold St.addBreak
  wk_auto
macro_rules | `(tactic| wk_prim) => `(tactic| with_reducible refine wp_mono (addBreak_wk _ _ ?_) ?_ (fun _ _ => trivial))

theorem addContinue_wk (s : St) (p : Nat) (hw : WOk s) : wp (s.addContinue p) (WOk) (fun _ => True) := by
  unfold St.addContinue
  wk_auto
macro_rules | `(tactic| wk_prim) => `(tactic| with_reducible refine wp_mono (addContinue_wk _ _ ?_) ?_ (fun _ _ => trivial))

theorem processBreakLoop_wk : ∀ (n : Nat) (s : St), WOk s → wp (St.processBreakLoop n s) WOk (fun _ => True)
  | 0, s, hw => by simpa [St.processBreakLoop] using hw
  | n + 1, s, hw => by
    unfold St.processBreakLoop
    wp_simp
    split
    · trivial
    · wp_simp
      refine wp_mono (setAt_wk _ _ _ (wok_congr hw rfl rfl)) ?_ (fun _ _ => trivial)
      intro a ha
      exact processBreakLoop_wk n a ha
macro_rules | `(tactic| wk_prim) => `(tactic| with_reducible refine wp_mono (processBreakLoop_wk _ _ ?_) ?_ (fun _ _ => trivial))

theorem processContinueLoop_wk : ∀ (n : Nat) (s : St), WOk s → wp (St.processContinueLoop n s) WOk (fun _ => True)
  | 0, s, hw => by simpa [St.processContinueLoop] using hw
  | n + 1, s, hw => by
    unfold St.processContinueLoop
    wp_simp
    split
    · trivial
    · wp_simp
      refine wp_mono (setAt_wk _ _ _ (wok_congr hw rfl rfl)) ?_ (fun _ _ => trivial)
      intro a ha
      exact processContinueLoop_wk n a ha
macro_rules | `(tactic| wk_prim) => `(tactic| with_reducible refine wp_mono (processContinueLoop_wk _ _ ?_) ?_ (fun _ _ => trivial))

theorem processBreak_wk (s : St) (k : Nat) (hw : WOk s) : wp (s.processBreak k) (WOk) (fun _ => True) := by
  unfold St.processBreak
  wk_auto
macro_rules | `(tactic| wk_prim) => `(tactic| with_reducible refine wp_mono (processBreak_wk _ _ ?_) ?_ (fun _ _ => trivial))

theorem processContinue_wk (s : St) (k : Nat) (hw : WOk s) : wp (s.processContinue k) (WOk) (fun _ => True) := by
  unfold St.processContinue
  wk_auto
macro_rules | `(tactic| wk_prim) => `(tactic| with_reducible refine wp_mono (processContinue_wk _ _ ?_) ?_ (fun _ _ => trivial))

theorem emitBreak_wk (s : St) (hw : WOk s) : wp (s.emitBreak) (WOk) (fun _ => True) := by
  unfold St.emitBreak
  wk_auto
macro_rules | `(tactic| wk_prim) => `(tactic| with_reducible refine wp_mono (emitBreak_wk _ ?_) ?_ (fun _ _ => trivial))

theorem emitContinue_wk (s : St) (hw : WOk s) : wp (s.emitContinue) (WOk) (fun _ => True) := by
  unfold St.emitContinue
  wk_auto
macro_rules | `(tactic| wk_prim) => `(tactic| with_reducible refine wp_mono (emitContinue_wk _ ?_) ?_ (fun _ _ => trivial))

theorem resize_wk (ls : LabelSet) (n : Nat) (s : St) (hw : WOk s) : wp (ls.resize n s) (fun r => WOk r.2) (fun _ => True) := by
  unfold LabelSet.resize
  wk_auto
macro_rules | `(tactic| wk_prim) => `(tactic| with_reducible refine wp_mono (resize_wk _ _ _ ?_) ?_ (fun _ _ => trivial))
theorem labelSetAdd_wk (ls : LabelSet) (k o : Nat) (p : Bool) (s : St) (hw : WOk s) :
    wp (ls.add k o p s) (fun r => WOk r.2) (fun _ => True) := by
  unfold LabelSet.add
  wk_auto
macro_rules | `(tactic| wk_prim) => `(tactic| with_reducible refine wp_mono (labelSetAdd_wk _ _ _ _ _ ?_) ?_ (fun _ _ => trivial))
theorem contAdd_wk (c : Cont) (sz : Nat) (s : St) (hw : WOk s) : wp (c.add sz s) (fun r => WOk r.2) (fun _ => True) := by
  unfold Cont.add
  wk_auto
macro_rules | `(tactic| wk_prim) => `(tactic| with_reducible refine wp_mono (contAdd_wk _ _ _ ?_) ?_ (fun _ _ => trivial))

theorem addLabel_wk (s : St) (i : Nat) (p c : Bool) (hw : WOk s) : wp (s.addLabel i p c) (fun r => WOk r.2) (fun _ => True) := by
  unfold St.addLabel
  wk_auto
macro_rules | `(tactic| wk_prim) => `(tactic| with_reducible refine wp_mono (addLabel_wk _ _ _ _ ?_) ?_ (fun _ _ => trivial))

theorem createSwitch_wk (s : St) (n : Nat) (hw : WOk s) : wp (s.createSwitch n) (fun r => WOk r.2) (fun _ => True) := by
  unfold St.createSwitch
  wk_auto
macro_rules | `(tactic| wk_prim) => `(tactic| with_reducible refine wp_mono (createSwitch_wk _ _ ?_) ?_ (fun _ _ => trivial))

theorem createCatch_wk (s : St) (t n : Nat) (hw : WOk s) : wp (s.createCatch t n) (fun r => WOk r.2) (fun _ => True) := by
  unfold St.createCatch
  wk_auto
macro_rules | `(tactic| wk_prim) => `(tactic| with_reducible refine wp_mono (createCatch_wk _ _ _ ?_) ?_ (fun _ _ => trivial))

/-! ## the emitter -/

structure WKN (n : Node) : Prop where
  e : ∀ s, WOk s → wp (emit n s) WOk (fun _ => True)
  r : ∀ s, WOk s → wp (emitRef n s) WOk (fun _ => True)
  a : ∀ s, WOk s → wp (emitAssign n s) WOk (fun _ => True)

structure WKL (xs : Nodes) : Prop where
  l : ∀ s, WOk s → wp (emitList xs s) WOk (fun _ => True)

theorem wok_init (c cb cc : Bool) (sd : Nat) : WOk { St.init c with canBreak := cb, canContinue := cc, switchDepth := sd } :=
  ⟨by simp [St.init, Tbl.mk', prevMax_eq], by simp [St.init]⟩
macro_rules | `(tactic| wok_close) => `(tactic| exact wok_init _ _ _ _)

set_option hygiene false in
macro "wk_steps" : tactic =>
  `(tactic| repeat' (first
    | (wp_simp; with_reducible refine wp_mono (ih1.e _ ?_) ?_ (fun _ _ => trivial))
    | (wp_simp; with_reducible refine wp_mono (ih2.e _ ?_) ?_ (fun _ _ => trivial))
    | (wp_simp; with_reducible refine wp_mono (ih3.e _ ?_) ?_ (fun _ _ => trivial))
    | (wp_simp; with_reducible refine wp_mono (ih1.r _ ?_) ?_ (fun _ _ => trivial))
    | (wp_simp; with_reducible refine wp_mono (ih1.a _ ?_) ?_ (fun _ _ => trivial))
    | (wp_simp; with_reducible refine wp_mono (ih1.l _ ?_) ?_ (fun _ _ => trivial))
    | (wp_simp; with_reducible refine wp_mono (ih2.l _ ?_) ?_ (fun _ _ => trivial))
    | (wp_simp; wk_prim)
    | ((with_reducible show ∀ _, _ → _); intro _ _)
    | (wp_simp; (with_reducible show WOk _); first | wok_close | (refine ⟨?_, ?_⟩ <;> simp only [] <;> first | exact WOk.size (by assumption) | exact WOk.pos (by assumption)))
    | (wp_simp; (with_reducible show True); trivial)
    | ((with_reducible show wp (Except.error _) _ _); exact trivial)
    | (wp_simp; split)))

set_option hygiene false in
macro "wk_walk" : tactic =>
  `(tactic| first
    | (refine ⟨fun s hw => ?_, fun s hw => ?_, fun s hw => ?_⟩ <;> simp only [emit, emitRef, emitAssign] <;> wk_steps)
    | (refine ⟨fun s hw => ?_⟩; simp only [emitList]; wk_steps))

theorem wk_none   : WKN (.none ) := by
  wk_walk

theorem wk_next (n : Node) (ih1 : WKN n) : WKN (.next n) := by
  wk_walk

theorem wk_list (xs : Nodes) (ih1 : WKL xs) : WKN (.list xs) := by
  wk_walk

theorem wk_label (idx : Nat) (hasPs : Bool) (ps : Nodes) (ih1 : WKL ps) : WKN (.label idx hasPs ps) := by
  wk_walk

theorem wk_plabel (idx : Nat) (hasPs : Bool) (ps : Nodes) (ih1 : WKL ps) : WKN (.plabel idx hasPs ps) := by
  wk_walk

theorem wk_case (kind : Nat) (idx : Nat) (ty : Nat) (hasPs : Bool) (ps : Nodes) (ih1 : WKL ps) : WKN (.case kind idx ty hasPs ps) := by
  wk_walk

theorem wk_assign (lhs : Node) (rhs : Node) (ih1 : WKN lhs) (ih2 : WKN rhs) : WKN (.assign lhs rhs) := by
  wk_walk

theorem wk_if (c : Node) (t : Node) (ih1 : WKN c) (ih2 : WKN t) : WKN (.if_ c t) := by
  wk_walk

theorem wk_ifelse (c : Node) (t : Node) (e : Node) (ih1 : WKN c) (ih2 : WKN t) (ih3 : WKN e) : WKN (.ifelse c t e) := by
  wk_walk

theorem wk_while (c : Node) (b : Node) (i : Node) (ih1 : WKN c) (ih2 : WKN b) (ih3 : WKN i) : WKN (.while_ c b i) := by
  wk_walk

theorem wk_do (b : Node) (c : Node) (ih1 : WKN b) (ih2 : WKN c) : WKN (.do_ b c) := by
  wk_walk

theorem wk_and (a : Node) (b : Node) (ih1 : WKN a) (ih2 : WKN b) : WKN (.and_ a b) := by
  wk_walk

theorem wk_or (a : Node) (b : Node) (ih1 : WKN a) (ih2 : WKN b) : WKN (.or_ a b) := by
  wk_walk

theorem wk_mcmd (ev : Nat) (l : Node) (hasPs : Bool) (ps : Nodes) (ih1 : WKN l) (ih2 : WKL ps) : WKN (.mcmd ev l hasPs ps) := by
  wk_walk

theorem wk_mcmdx (ev : Nat) (l : Node) (hasPs : Bool) (ps : Nodes) (ih1 : WKN l) (ih2 : WKL ps) : WKN (.mcmdx ev l hasPs ps) := by
  wk_walk

theorem wk_cmd (ev : Nat) (hasPs : Bool) (ps : Nodes) (ih1 : WKL ps) : WKN (.cmd ev hasPs ps) := by
  wk_walk

theorem wk_cmdx (ev : Nat) (hasPs : Bool) (ps : Nodes) (ih1 : WKL ps) : WKN (.cmdx ev hasPs ps) := by
  wk_walk

theorem wk_field (idx : Nat) (ev : Nat) (rd : Nat) (wr : Nat) (l : Node) (ih1 : WKN l) : WKN (.field idx ev rd wr l) := by
  wk_walk

theorem wk_listener (b : Nat)  : WKN (.listener b) := by
  wk_walk

theorem wk_str (idx : Nat)  : WKN (.str idx) := by
  wk_walk

theorem wk_int (v : Nat)  : WKN (.int v) := by
  wk_walk

theorem wk_float (bits : Nat)  : WKN (.float bits) := by
  wk_walk

theorem wk_vec (a : Node) (b : Node) (c : Node) (ih1 : WKN a) (ih2 : WKN b) (ih3 : WKN c) : WKN (.vec a b c) := by
  wk_walk

theorem wk_nil   : WKN (.nil ) := by
  wk_walk

theorem wk_null   : WKN (.null ) := by
  wk_walk

theorem wk_f1 (op : Nat) (x : Node) (ih1 : WKN x) : WKN (.f1 op x) := by
  wk_walk

theorem wk_f2 (op : Nat) (a : Node) (b : Node) (ih1 : WKN a) (ih2 : WKN b) : WKN (.f2 op a b) := by
  wk_walk

theorem wk_not (x : Node) (ih1 : WKN x) : WKN (.not_ x) := by
  wk_walk

theorem wk_idx (a : Node) (i : Node) (ih1 : WKN a) (ih2 : WKN i) : WKN (.idx a i) := by
  wk_walk

theorem wk_carr (a : Node) (xs : Nodes) (ih1 : WKN a) (ih2 : WKL xs) : WKN (.carr a xs) := by
  wk_walk

theorem wk_marr (xs : Nodes) (ih1 : WKL xs) : WKN (.marr xs) := by
  wk_walk

theorem wk_try (b : Node) (c : Node) (ih1 : WKN b) (ih2 : WKN c) : WKN (.try_ b c) := by
  wk_walk

theorem wk_switch (e : Node) (b : Node) (ih1 : WKN e) (ih2 : WKN b) : WKN (.switch e b) := by
  wk_walk

theorem wk_brk   : WKN (.brk ) := by
  wk_walk

theorem wk_cont   : WKN (.cont ) := by
  wk_walk

theorem wk_unknown (t : Nat)  : WKN (.unknown t) := by
  wk_walk

theorem wk_lnil : WKL .nil := by
  wk_walk

theorem wk_lcons (x : Node) (xs : Nodes) (ih1 : WKN x) (ih2 : WKL xs) : WKL (.cons x xs) := by
  wk_walk

theorem wk_all (n : Node) : WKN n :=
  Node.rec (motive_1 := WKN) (motive_2 := WKL)
    wk_none wk_next wk_list wk_label wk_plabel wk_case wk_assign wk_if wk_ifelse wk_while wk_do wk_and wk_or wk_mcmd wk_mcmdx wk_cmd wk_cmdx wk_field wk_listener wk_str wk_int wk_float wk_vec wk_nil wk_null wk_f1 wk_f2 wk_not wk_idx wk_carr wk_marr wk_try wk_switch wk_brk wk_cont wk_unknown
    wk_lnil wk_lcons n

theorem wk_allL (xs : Nodes) : WKL xs :=
  Nodes.rec (motive_1 := WKN) (motive_2 := WKL)
    wk_none wk_next wk_list wk_label wk_plabel wk_case wk_assign wk_if wk_ifelse wk_while wk_do wk_and wk_or wk_mcmd wk_mcmdx wk_cmd wk_cmdx wk_field wk_listener wk_str wk_int wk_float wk_vec wk_nil wk_null wk_f1 wk_f2 wk_not wk_idx wk_carr wk_marr wk_try wk_switch wk_brk wk_cont wk_unknown
    wk_lnil wk_lcons xs


end Morfuse.Emit
