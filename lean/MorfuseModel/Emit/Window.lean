import MorfuseModel.Emit.Model
/-!
# The previous-opcode window of the two passes, compared by depth

`prev_opcodes[MAX_PREV_OPCODES]` is a ring indexed by `prev_opcode_pos`.  The two passes can differ in one way: the
`LOAD_x_VAR → LOAD_STORE_x_VAR` fusion fires in one and not in the other, after which one window holds one entry more.
What the emitter's decisions read is the top entry, and what `AbsorbPrevOpcode` exposes is the entry below; so the
windows are compared by *depth* below the top: they agree down to the first entry whose opcode no decision tests.
-/
namespace Morfuse.Emit
open Morfuse.Gen.EmitConsts

/-- the opcodes some decision of the emitter compares the previous opcode with -/
def tested (op : Nat) : Bool :=
  decide ((OP_STORE_INT0 ≤ op ∧ op ≤ OP_STORE_INT8) ∨ op = OP_BOOL_TO_VAR ∨ op = OP_BOOL_STORE_TRUE ∨ op = OP_BOOL_STORE_FALSE
    ∨ op = OP_BOOL_UN_NOT ∨ op = OP_UN_CAST_BOOLEAN ∨ op = OP_STORE_FLOAT ∨ op = OP_DONE
    ∨ (OP_LOAD_GAME_VAR ≤ op ∧ op ≤ OP_LOAD_GAME_VAR + 6))

theorem prevMax_eq : prevMax = 100 := by decide

/-- the entry `k` below the top -/
def ent (s : St) (k : Nat) : PrevOp := s.prev.get ((s.prevPos + (100 - k)) % 100)

structure WOk (s : St) : Prop where
  size : s.prev.data.size = 100
  pos : s.prevPos < 100

theorem Tbl.get_set {α} [Inhabited α] (t : Tbl α) (i j : Nat) (v : α) (hi : i < t.data.size) :
    (t.set i v).get j = if i = j then v else t.get j := by
  unfold Tbl.set Tbl.get
  by_cases h : i = j
  · subst h; simp [Array.getD, hi]
  · simp [Array.getD, Array.getElem_setIfInBounds, h]
    split <;> simp_all

theorem Tbl.size_set {α} (t : Tbl α) (i : Nat) (v : α) : (t.set i v).data.size = t.data.size := by
  simp [Tbl.set]

/-! ## the three window operations, by depth -/

theorem accumulate_ok (s : St) (h : WOk s) (op : Nat) (off : Int) : WOk (s.accumulate op off) := by
  obtain ⟨hs, hp⟩ := h
  constructor
  · simp [St.accumulate, Tbl.set, hs]
  · simp only [St.accumulate, prevMax_eq]; omega

theorem ent_accumulate_zero (s : St) (h : WOk s) (op : Nat) (off : Int) :
    ent (s.accumulate op off) 0 = ⟨op % 256, toInt8 off⟩ := by
  obtain ⟨hs, hp⟩ := h
  simp only [ent, St.accumulate, prevMax_eq]
  have h1 : ((s.prevPos + 1) % 100 + (100 - 0)) % 100 = (s.prevPos + 1) % 100 := by omega
  rw [h1, Tbl.get_set _ _ _ _ (by simp [Tbl.set, hs]; omega), if_neg (by omega),
    Tbl.get_set _ _ _ _ (by rw [hs]; omega), if_pos rfl]

theorem ent_accumulate_succ (s : St) (h : WOk s) (op : Nat) (off : Int) (k : Nat) (hk : k + 1 ≤ 98) :
    ent (s.accumulate op off) (k + 1) = ent s k := by
  obtain ⟨hs, hp⟩ := h
  simp only [ent, St.accumulate, prevMax_eq]
  have h1 : ((s.prevPos + 1) % 100 + (100 - (k + 1))) % 100 = (s.prevPos + (100 - k)) % 100 := by omega
  rw [h1, Tbl.get_set _ _ _ _ (by simp [Tbl.set, hs]; omega), if_neg (by omega),
    Tbl.get_set _ _ _ _ (by rw [hs]; omega), if_neg (by omega)]

theorem ent_accumulate_last (s : St) (h : WOk s) (op : Nat) (off : Int) :
    (ent (s.accumulate op off) 99).op = OP_PREVIOUS := by
  obtain ⟨hs, hp⟩ := h
  simp only [ent, St.accumulate, prevMax_eq]
  have h1 : ((s.prevPos + 1) % 100 + (100 - 99)) % 100 = ((s.prevPos + 1) % 100 + 1) % 100 := by omega
  rw [h1, Tbl.get_set _ _ _ _ (by simp [Tbl.set, hs]; omega), if_pos rfl]

/-- the window part of `AbsorbPrevOpcode` -/
def St.pop (s : St) : St := { s with prevPos := (if s.prevPos = 0 then 100 else s.prevPos) - 1 }

theorem pop_ok (s : St) (h : WOk s) : WOk s.pop := by
  obtain ⟨hs, hp⟩ := h
  exact ⟨hs, by simp only [St.pop]; split <;> omega⟩

theorem ent_pop (s : St) (h : WOk s) (k : Nat) (hk : k ≤ 98) : ent s.pop k = ent s (k + 1) := by
  obtain ⟨hs, hp⟩ := h
  simp only [ent, St.pop]
  congr 1
  split <;> omega

theorem clearPrev_eq (s : St) (h : WOk s) :
    s.clearPrev = .ok { s with prev := s.prev.set s.prevPos { s.prev.get s.prevPos with op := OP_PREVIOUS } } := by
  unfold St.clearPrev
  rw [if_pos (by rw [prevMax_eq]; exact h.pos)]

/-- the state after `ClearPrevOpcode` -/
def St.cleared (s : St) : St := { s with prev := s.prev.set s.prevPos { s.prev.get s.prevPos with op := OP_PREVIOUS } }

theorem cleared_ok (s : St) (h : WOk s) : WOk s.cleared := ⟨by simp [St.cleared, Tbl.set, h.size], h.pos⟩

theorem ent_cleared_zero (s : St) (h : WOk s) : (ent s.cleared 0).op = OP_PREVIOUS := by
  obtain ⟨hs, hp⟩ := h
  simp only [ent, St.cleared]
  have h1 : (s.prevPos + (100 - 0)) % 100 = s.prevPos := by omega
  rw [h1, Tbl.get_set _ _ _ _ (by rw [hs]; exact hp), if_pos rfl]

theorem prevOp_eq (s : St) (h : WOk s) : s.prevOp = .ok (ent s 0) := by
  unfold St.prevOp ent
  rw [if_pos (by rw [prevMax_eq]; exact h.pos)]
  have h1 : (s.prevPos + (100 - 0)) % 100 = s.prevPos := by have := h.pos; omega
  rw [h1]

/-! ## the relation -/

/-- the byte stores behind the cursors are what their managers make them: a ring of `prevopSize` bytes with its cursor
inside (`ScriptCountManager`), a buffer of `progLength` bytes (`ScriptProgramManager`); each manager leaves the other's
alone -/
structure BOk (s : St) : Prop where
  rsize : s.ring.data.size = 32
  rcur : s.ringCur < 32
  bsize : s.buf.data.size = s.progLen

theorem ringSize_eq : ringSize = 32 := by decide

/-- the windows of the two passes agree down to the first entry no decision tests -/
structure W (c p : St) : Prop where
  vc : WOk c
  vp : WOk p
  bc : BOk c
  bp : BOk p
  agree : ∃ d, d ≤ 99 ∧ (∀ k, k < d → ent c k = ent p k ∧ tested (ent c k).op = true) ∧
    tested (ent c d).op = false ∧ tested (ent p d).op = false

theorem tested_previous : tested OP_PREVIOUS = false := by decide

/-- the top entries are the same as far as any decision can tell -/
theorem W.top {c p : St} (h : W c p) :
    (ent c 0 = ent p 0) ∨ (tested (ent c 0).op = false ∧ tested (ent p 0).op = false) := by
  obtain ⟨d, _, hag, h1, h2⟩ := h.agree
  cases d with
  | zero => exact .inr ⟨h1, h2⟩
  | succ d => exact .inl (hag 0 (by omega)).1

theorem W.of_untested {c p : St} (hc : WOk c) (hp : WOk p) (bc : BOk c) (bp : BOk p) (h1 : tested (ent c 0).op = false)
    (h2 : tested (ent p 0).op = false) : W c p :=
  ⟨hc, hp, bc, bp, 0, by omega, fun k hk => by omega, h1, h2⟩

/-- both passes push the same entry -/
theorem W.accumulate {c p : St} (h : W c p) (op : Nat) (off : Int) : W (c.accumulate op off) (p.accumulate op off) := by
  obtain ⟨d, hd, hag, h1, h2⟩ := h.agree
  refine ⟨accumulate_ok c h.vc op off, accumulate_ok p h.vp op off, ⟨h.bc.rsize, h.bc.rcur, h.bc.bsize⟩,
    ⟨h.bp.rsize, h.bp.rcur, h.bp.bsize⟩, ?_⟩
  by_cases ht : tested (op % 256) = true
  · by_cases hd98 : d + 1 ≤ 98
    · refine ⟨d + 1, by omega, ?_, ?_, ?_⟩
      · intro k hk
        cases k with
        | zero => rw [ent_accumulate_zero c h.vc, ent_accumulate_zero p h.vp]; exact ⟨rfl, ht⟩
        | succ k =>
          rw [ent_accumulate_succ c h.vc _ _ k (by omega), ent_accumulate_succ p h.vp _ _ k (by omega)]
          exact hag k (by omega)
      · rw [ent_accumulate_succ c h.vc _ _ d hd98]; exact h1
      · rw [ent_accumulate_succ p h.vp _ _ d hd98]; exact h2
    · refine ⟨99, by omega, ?_, ?_, ?_⟩
      · intro k hk
        cases k with
        | zero => rw [ent_accumulate_zero c h.vc, ent_accumulate_zero p h.vp]; exact ⟨rfl, ht⟩
        | succ k =>
          rw [ent_accumulate_succ c h.vc _ _ k (by omega), ent_accumulate_succ p h.vp _ _ k (by omega)]
          exact hag k (by omega)
      · rw [ent_accumulate_last c h.vc]; exact tested_previous
      · rw [ent_accumulate_last p h.vp]; exact tested_previous
  · refine ⟨0, by omega, fun k hk => by omega, ?_, ?_⟩
    · rw [ent_accumulate_zero c h.vc]; simpa using ht
    · rw [ent_accumulate_zero p h.vp]; simpa using ht

/-- the passes push different entries, neither of them tested (the fusion) -/
theorem W.cleared {c p : St} (h : W c p) : W c.cleared p.cleared :=
  W.of_untested (cleared_ok c h.vc) (cleared_ok p h.vp) ⟨h.bc.rsize, h.bc.rcur, h.bc.bsize⟩ ⟨h.bp.rsize, h.bp.rcur, h.bp.bsize⟩
    (by rw [ent_cleared_zero c h.vc]; exact tested_previous) (by rw [ent_cleared_zero p h.vp]; exact tested_previous)

/-- both passes absorb a tested top entry -/
theorem W.pop {c p : St} (h : W c p) (ht : tested (ent c 0).op = true) : W c.pop p.pop := by
  obtain ⟨d, hd, hag, h1, h2⟩ := h.agree
  cases d with
  | zero => rw [ht] at h1; cases h1
  | succ d =>
    refine ⟨pop_ok c h.vc, pop_ok p h.vp, ⟨h.bc.rsize, h.bc.rcur, h.bc.bsize⟩, ⟨h.bp.rsize, h.bp.rcur, h.bp.bsize⟩, d, by omega, ?_, ?_, ?_⟩
    · intro k hk
      rw [ent_pop c h.vc k (by omega), ent_pop p h.vp k (by omega)]
      exact hag (k + 1) (by omega)
    · rw [ent_pop c h.vc d (by omega)]; exact h1
    · rw [ent_pop p h.vp d (by omega)]; exact h2

end Morfuse.Emit
