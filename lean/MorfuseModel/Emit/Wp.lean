import MorfuseModel.Emit.Model
/-!
# A small weakest-precondition calculus for the emitter model, and the frame lemmas of its primitives

`wp x Q E` : the computation `x : R α` either returns a value satisfying `Q` or fails with an error
satisfying `E`.  The two "frames" are the parts of the state that the C01 theorems are about:

* `frB` — the fix-up table counters (`iBreakJumpLocCount`, `iContinueJumpLocCount`);
* `frA` — everything the arena accounting reads: the manager kind, the arena, the label sets, the two
  containers, the current set, the label / switch / catch counters of the counting manager.

Every primitive of the emitter that is not about fix-up tables or the arena preserves both frames and never
fails with one of the undefined behaviours the theorems exclude (`Quiet`).
-/
namespace Morfuse.Emit
open Morfuse.Gen.EmitConsts

def wp {α : Type} (x : R α) (Q : α → Prop) (E : Err → Prop) : Prop :=
  match x with
  | .ok a => Q a
  | .error e => E e

@[simp] theorem wp_ok {α} (a : α) (Q : α → Prop) (E : Err → Prop) : wp (.ok a) Q E = Q a := rfl
@[simp] theorem wp_error {α} (e : Err) (Q : α → Prop) (E : Err → Prop) : wp (.error e : R α) Q E = E e := rfl
@[simp] theorem wp_pure {α} (a : α) (Q : α → Prop) (E : Err → Prop) : wp (pure a : R α) Q E = Q a := rfl
@[simp] theorem wp_throw {α} (e : Err) (Q : α → Prop) (E : Err → Prop) : wp (throw e : R α) Q E = E e := rfl

theorem wp_bind {α β} (x : R α) (f : α → R β) (Q : β → Prop) (E : Err → Prop) :
    wp (x >>= f) Q E = wp x (fun a => wp (f a) Q E) E := by
  cases x <;> rfl

theorem wp_mono {α} {x : R α} {Q Q' : α → Prop} {E E' : Err → Prop}
    (h : wp x Q E) (hq : ∀ a, Q a → Q' a) (he : ∀ e, E e → E' e) : wp x Q' E' := by
  cases x with
  | ok a => exact hq a h
  | error e => exact he e h

theorem wp_of_eq_ok {α} {x : R α} {a : α} {Q : α → Prop} {E : Err → Prop} (h : wp x Q E) (hx : x = .ok a) : Q a := by
  subst hx; exact h

theorem wp_of_eq_error {α} {x : R α} {e : Err} {Q : α → Prop} {E : Err → Prop} (h : wp x Q E) (hx : x = .error e) : E e := by
  subst hx; exact h

/-! ## frames -/

structure FrB where
  nBrk : Nat
  nCont : Nat
  deriving DecidableEq

structure FrA where
  counting : Bool
  dev : Bool
  progLen : Nat
  arenaUsed : Nat
  arenaSize : Nat
  mainSet : LabelSet
  switches : Array LabelSet
  catches : Array CatchBlk
  swCont : Cont
  caCont : Cont
  cur : SetRef
  curSet : LabelSet
  numLabels : Nat
  numCaseLabels : Nat
  numSwitches : Nat
  numCatches : Nat

def frB (s : St) : FrB := ⟨s.nBrk, s.nCont⟩

def frA (s : St) : FrA :=
  { counting := s.counting, dev := s.dev, progLen := s.progLen, arenaUsed := s.arenaUsed, arenaSize := s.arenaSize,
    mainSet := s.mainSet, switches := s.switches, catches := s.catches, swCont := s.swCont, caCont := s.caCont,
    cur := s.cur, curSet := s.curSet, numLabels := s.info.numLabels, numCaseLabels := s.info.numCaseLabels,
    numSwitches := s.info.numSwitches, numCatches := s.info.numCatches }

/-- both frames kept -/
def Same (s s' : St) : Prop := frB s' = frB s ∧ frA s' = frA s

theorem Same.refl (s : St) : Same s s := ⟨rfl, rfl⟩
theorem Same.trans {a b c : St} (h1 : Same a b) (h2 : Same b c) : Same a c :=
  ⟨h2.1.trans h1.1, h2.2.trans h1.2⟩

/-- errors that are none of the undefined behaviours excluded by the C01 theorems -/
def Quiet (e : Err) : Prop :=
  e ≠ .ub .arenaOverflow ∧ e ≠ .ub .breakIndex ∧ e ≠ .ub .continueIndex

/-- error predicates implied by `Quiet` (so that the frame lemmas can be used under any of them) -/
class QuietImp (E : Err → Prop) : Prop where
  imp : ∀ e, Quiet e → E e
instance : QuietImp Quiet := ⟨fun _ h => h⟩

/-- a primitive that keeps both frames and fails quietly -/
abbrev Neutral (s : St) (x : R St) : Prop := wp x (fun s' => Same s s') Quiet

theorem Neutral.bind {s : St} {x : R St} {f : St → R St} (hx : Neutral s x) (hf : ∀ s', Same s s' → Neutral s' (f s')) :
    Neutral s (x >>= f) := by
  unfold Neutral at *
  rw [wp_bind]
  refine wp_mono hx ?_ (fun _ h => h)
  intro a ha
  exact wp_mono (hf a ha) (fun b hb => ha.trans hb) (fun _ h => h)

theorem Neutral.ok {s s' : St} (h : Same s s') : Neutral s (.ok s') := h
theorem Neutral.pure {s s' : St} (h : Same s s') : Neutral s (pure s') := h

/-! ## primitives that keep both frames -/

theorem ringWrite_same (bs : List Nat) (s : St) : Same s (s.ringWrite bs) := by
  induction bs generalizing s with
  | nil => exact Same.refl s
  | cons b bs ih =>
    unfold St.ringWrite
    exact Same.trans ⟨rfl, rfl⟩ (ih _)

theorem write_neutral (s : St) (bs : List Nat) : Neutral s (s.write bs) := by
  unfold St.write
  split
  · exact Same.trans ⟨rfl, rfl⟩ (ringWrite_same _ _)
  · split
    · simp [Neutral, Quiet]
    · exact ⟨rfl, rfl⟩

theorem moveBack_neutral (s : St) (k : Nat) : Neutral s (s.moveBack k) := by
  unfold St.moveBack
  split
  · exact ⟨rfl, rfl⟩
  · split
    · simp [Neutral, Quiet]
    · exact ⟨rfl, rfl⟩

theorem moveFwd_same (s : St) (k : Nat) : Same s (s.moveFwd k) := by
  unfold St.moveFwd
  split <;> exact ⟨rfl, rfl⟩

theorem setAt_neutral (s : St) (p : Nat) (bs : List Nat) : Neutral s (s.setAt p bs) := by
  unfold St.setAt
  split
  · exact Same.refl s
  · split
    · simp [Neutral, Quiet]
    · exact ⟨rfl, rfl⟩

theorem addString_same (s : St) (idx : Nat) : Same s (s.addString idx).2 := by
  unfold St.addString
  split <;> exact ⟨rfl, rfl⟩

theorem clearPrev_neutral (s : St) : Neutral s s.clearPrev := by
  unfold St.clearPrev
  split
  · exact ⟨rfl, rfl⟩
  · simp [Neutral, Quiet]

theorem accumulate_same (s : St) (op : Nat) (off : Int) : Same s (s.accumulate op off) := ⟨rfl, rfl⟩


theorem Neutral.of_same {s t : St} {x : R St} (h : Same s t) (hx : Neutral t x) : Neutral s x :=
  wp_mono hx (fun _ ha => h.trans ha) (fun _ h => h)

/-- a step that only reads -/
theorem Neutral.bindRead {α} {s : St} {x : R α} {f : α → R St} (hx : wp x (fun _ => True) Quiet) (hf : ∀ a, Neutral s (f a)) :
    Neutral s (x >>= f) := by
  unfold Neutral at *
  rw [wp_bind]
  exact wp_mono hx (fun a _ => hf a) (fun _ h => h)

theorem quiet_of_ne_ub {e : Err} (h : ∀ u, e ≠ .ub u) : Quiet e := ⟨h _, h _, h _⟩

theorem prevOp_read (s : St) : wp s.prevOp (fun _ => True) Quiet := by
  unfold St.prevOp
  split
  · trivial
  · simp [Quiet]

theorem opLen_read (op : Nat) : wp (match opLen? op with | some l => (.ok l : R Nat) | none => .error (.ub .opcodeTable)) (fun _ => True) Quiet := by
  split
  · trivial
  · simp [Quiet]

theorem opStack_read (op : Nat) : wp (match opStack? op with | some l => (.ok l : R Int) | none => .error (.ub .opcodeTable)) (fun _ => True) Quiet := by
  split
  · trivial
  · simp [Quiet]

theorem opExt_read (op : Nat) : wp (match opExt? op with | some l => (.ok l : R Bool) | none => .error (.ub .opcodeTable)) (fun _ => True) Quiet := by
  split
  · trivial
  · simp [Quiet]


@[simp] theorem ok_bind {α β} (a : α) (f : α → R β) : ((Except.ok a : R α) >>= f) = f a := rfl
@[simp] theorem error_bind {α β} (e : Err) (f : α → R β) : ((Except.error e : R α) >>= f) = Except.error e := rfl
theorem throw_eq {α} (e : Err) : (throw e : R α) = Except.error e := rfl
theorem pure_eq {α} (a : α) : (pure a : R α) = Except.ok a := rfl


theorem same_iff (s s' : St) : Same s s' ↔ (frB s' = frB s ∧ frA s' = frA s) := Iff.rfl

theorem frB_trackStack (s : St) (ext : Bool) (off : Int) : frB (s.trackStack ext off) = frB s := by
  unfold St.trackStack; cases ext <;> rfl
theorem frA_trackStack (s : St) (ext : Bool) (off : Int) : frA (s.trackStack ext off) = frA s := by
  unfold St.trackStack; cases ext <;> rfl
theorem frB_accumulate (s : St) (op : Nat) (off : Int) : frB (s.accumulate op off) = frB s := rfl
theorem frA_accumulate (s : St) (op : Nat) (off : Int) : frA (s.accumulate op off) = frA s := rfl
theorem frB_moveFwd (s : St) (k : Nat) : frB (s.moveFwd k) = frB s := (moveFwd_same s k).1
theorem frA_moveFwd (s : St) (k : Nat) : frA (s.moveFwd k) = frA s := (moveFwd_same s k).2
theorem frB_addString (s : St) (k : Nat) : frB (s.addString k).2 = frB s := (addString_same s k).1
theorem frA_addString (s : St) (k : Nat) : frA (s.addString k).2 = frA s := (addString_same s k).2
theorem frB_enter (s : St) (r : Option SetRef) : frB (s.enter r) = frB s := by
  unfold St.enter; split <;> rfl
theorem frB_leave (s : St) (o : SetRef) (os : LabelSet) : frB (s.leave o os) = frB s := by
  unfold St.leave St.storeCur; split
  · rfl
  · split <;> rfl

/-- normalise a `wp` goal: binds become nested `wp`s, join points are inlined -/
macro "wp_simp" : tactic =>
  `(tactic| try simp only [Neutral, ok_bind, error_bind, wp_bind, wp_ok, wp_error, throw_eq, pure_eq])

/-- close a goal `Same s z` from the chain of `Same` facts in the context -/
macro "same_close" : tactic =>
  `(tactic| (simp only [same_iff, frB_trackStack, frA_trackStack, frB_accumulate, frA_accumulate, frB_moveFwd, frA_moveFwd,
      frB_addString, frA_addString, frB_enter, frB_leave] at *; grind [frB, frA]))

/-- apply the frame lemma of a primitive to the head of a `wp` goal (extended below, lemma by lemma) -/
syntax "wp_prim" : tactic
macro_rules | `(tactic| wp_prim) => `(tactic| with_reducible refine wp_mono (write_neutral _ _) ?_ (fun _ h => QuietImp.imp _ h))
macro_rules | `(tactic| wp_prim) => `(tactic| with_reducible refine wp_mono (moveBack_neutral _ _) ?_ (fun _ h => QuietImp.imp _ h))
macro_rules | `(tactic| wp_prim) => `(tactic| with_reducible refine wp_mono (setAt_neutral _ _ _) ?_ (fun _ h => QuietImp.imp _ h))
macro_rules | `(tactic| wp_prim) => `(tactic| with_reducible refine wp_mono (clearPrev_neutral _) ?_ (fun _ h => QuietImp.imp _ h))
macro_rules | `(tactic| wp_prim) => `(tactic| with_reducible refine wp_mono (prevOp_read _) ?_ (fun _ h => QuietImp.imp _ h))

/-- run through a `Neutral` goal -/
macro "wp_auto" : tactic =>
  `(tactic| repeat' (first
    | (wp_simp; wp_prim; intro _ _)
    | (wp_simp; with_reducible show Same _ _; same_close)
    | (wp_simp; with_reducible show Quiet _; simp [Quiet]; done)
    | (wp_simp; split)))

theorem absorb_neutral (s : St) : Neutral s s.absorb := by
  unfold St.absorb
  wp_auto
macro_rules | `(tactic| wp_prim) => `(tactic| with_reducible refine wp_mono (absorb_neutral _) ?_ (fun _ h => QuietImp.imp _ h))

theorem emitOpWith_neutral (s : St) (op : Nat) (off : Int) : Neutral s (s.emitOpWith op off) := by
  unfold St.emitOpWith
  wp_auto
macro_rules | `(tactic| wp_prim) => `(tactic| with_reducible refine wp_mono (emitOpWith_neutral _ _ _) ?_ (fun _ h => QuietImp.imp _ h))

theorem emitOp_neutral (s : St) (op : Nat) : Neutral s (s.emitOp op) := by
  unfold St.emitOp
  wp_auto
macro_rules | `(tactic| wp_prim) => `(tactic| with_reducible refine wp_mono (emitOp_neutral _ _) ?_ (fun _ h => QuietImp.imp _ h))

theorem emitOpBytes_neutral (s : St) (op : Nat) (bs : List Nat) : Neutral s (s.emitOpBytes op bs) := by
  unfold St.emitOpBytes
  wp_auto
macro_rules | `(tactic| wp_prim) => `(tactic| with_reducible refine wp_mono (emitOpBytes_neutral _ _ _) ?_ (fun _ h => QuietImp.imp _ h))


theorem emitInteger_neutral (s : St) (v : Nat) : Neutral s (s.emitInteger v) := by
  unfold St.emitInteger
  wp_auto
macro_rules | `(tactic| wp_prim) => `(tactic| with_reducible refine wp_mono (emitInteger_neutral _ _) ?_ (fun _ h => QuietImp.imp _ h))

theorem varToBool_neutral (s : St) : Neutral s (s.varToBool) := by
  unfold St.varToBool
  wp_auto
macro_rules | `(tactic| wp_prim) => `(tactic| with_reducible refine wp_mono (varToBool_neutral _) ?_ (fun _ h => QuietImp.imp _ h))

theorem boolNot_neutral (s : St) : Neutral s (s.boolNot) := by
  unfold St.boolNot
  wp_auto
macro_rules | `(tactic| wp_prim) => `(tactic| with_reducible refine wp_mono (boolNot_neutral _) ?_ (fun _ h => QuietImp.imp _ h))

theorem boolToVar_neutral (s : St) : Neutral s (s.boolToVar) := by
  unfold St.boolToVar
  wp_auto
macro_rules | `(tactic| wp_prim) => `(tactic| with_reducible refine wp_mono (boolToVar_neutral _) ?_ (fun _ h => QuietImp.imp _ h))

theorem boolJump_neutral (s : St) (t : Bool) : Neutral s (s.boolJump t) := by
  unfold St.boolJump
  wp_auto
macro_rules | `(tactic| wp_prim) => `(tactic| with_reducible refine wp_mono (boolJump_neutral _ _) ?_ (fun _ h => QuietImp.imp _ h))

theorem emitNot_neutral (s : St) : Neutral s (s.emitNot) := by
  unfold St.emitNot
  wp_auto
macro_rules | `(tactic| wp_prim) => `(tactic| with_reducible refine wp_mono (emitNot_neutral _) ?_ (fun _ h => QuietImp.imp _ h))

theorem addJumpLocation_neutral (s : St) (p : Nat) : Neutral s (s.addJumpLocation p) := by
  unfold St.addJumpLocation
  wp_auto
macro_rules | `(tactic| wp_prim) => `(tactic| with_reducible refine wp_mono (addJumpLocation_neutral _ _) ?_ (fun _ h => QuietImp.imp _ h))

theorem emitJumpBack_neutral (s : St) (p : Nat) : Neutral s (s.emitJumpBack p) := by
  unfold St.emitJumpBack
  wp_auto
macro_rules | `(tactic| wp_prim) => `(tactic| with_reducible refine wp_mono (emitJumpBack_neutral _ _) ?_ (fun _ h => QuietImp.imp _ h))

theorem emitEof_neutral (s : St) : Neutral s (s.emitEof) := by
  unfold St.emitEof
  wp_auto
macro_rules | `(tactic| wp_prim) => `(tactic| with_reducible refine wp_mono (emitEof_neutral _) ?_ (fun _ h => QuietImp.imp _ h))

theorem evalPrev_read (s : St) : wp s.evalPrev (fun _ => True) Quiet := by
  unfold St.evalPrev
  wp_simp
  refine wp_mono (prevOp_read _) ?_ (fun _ h => h)
  intro p _
  repeat' (first | (simp only [wp_ok]; done) | split)
macro_rules | `(tactic| wp_prim) => `(tactic| with_reducible refine wp_mono (evalPrev_read _) ?_ (fun _ h => QuietImp.imp _ h))

theorem emitFunc1_neutral (s : St) (op : Nat) : Neutral s (s.emitFunc1 op) := by
  unfold St.emitFunc1
  wp_auto
macro_rules | `(tactic| wp_prim) => `(tactic| with_reducible refine wp_mono (emitFunc1_neutral _ _) ?_ (fun _ h => QuietImp.imp _ h))

theorem emitParameter_neutral (s : St) (p : Node) : Neutral s (s.emitParameter p) := by
  unfold St.emitParameter
  wp_auto
macro_rules | `(tactic| wp_prim) => `(tactic| with_reducible refine wp_mono (emitParameter_neutral _ _) ?_ (fun _ h => QuietImp.imp _ h))

theorem emitParameters_neutral : ∀ (ps : Nodes) (s : St), Neutral s (St.emitParameters ps s)
  | .nil, s => Same.refl s
  | .cons p ps, s => by
    unfold St.emitParameters
    wp_simp
    wp_prim
    intro a ha
    exact Neutral.of_same ha (emitParameters_neutral ps a)
macro_rules | `(tactic| wp_prim) => `(tactic| with_reducible refine wp_mono (emitParameters_neutral _ _) ?_ (fun _ h => QuietImp.imp _ h))

theorem emitLabelParameterList_neutral (s : St) (h : Bool) (ps : Nodes) : Neutral s (s.emitLabelParameterList h ps) := by
  unfold St.emitLabelParameterList
  wp_auto
macro_rules | `(tactic| wp_prim) => `(tactic| with_reducible refine wp_mono (emitLabelParameterList_neutral _ _ _) ?_ (fun _ h => QuietImp.imp _ h))

theorem emitExec_neutral (s : St) (a b n : Nat) (off : Int) (ev : Nat) : Neutral s (s.emitExec a b n off ev) := by
  unfold St.emitExec
  wp_auto
macro_rules | `(tactic| wp_prim) => `(tactic| with_reducible refine wp_mono (emitExec_neutral _ _ _ _ _ _) ?_ (fun _ h => QuietImp.imp _ h))

theorem checkCount_read (n m : Nat) : wp (checkCount n m) (fun _ => True) Quiet := by
  unfold checkCount
  split
  · simp [Quiet]
  · trivial
macro_rules | `(tactic| wp_prim) => `(tactic| with_reducible refine wp_mono (checkCount_read _ _) ?_ (fun _ h => QuietImp.imp _ h))

theorem emitSwitchOp_neutral (s : St) : Neutral s s.emitSwitchOp := by
  unfold St.emitSwitchOp
  exact emitOpBytes_neutral _ _ _
macro_rules | `(tactic| wp_prim) => `(tactic| with_reducible refine wp_mono (emitSwitchOp_neutral _) ?_ (fun _ h => QuietImp.imp _ h))

end Morfuse.Emit
