import MorfuseModel.EventQueue.Refine
/-!
# Invariants of the specification machine and their transfer to the link-level model

Part 1: list facts (`postL` is a stable sorted insertion, a permutation of `e :: l`).
Part 2: a generic lifting of a one-step-preserved predicate through responses, passes and histories.
Part 3: the invariants (`InvS` unconditional, `InvN` for histories whose delays are non-negative).
Part 4: termination of a pass (`passFuel` is enough) and "nothing due is left".
Part 5: transfer along the refinement.
-/
namespace Morfuse.EventQueue
open Machine

/-- queue order: by due time, then by posting sequence number -/
def lt (a b : Ev) : Prop := a.due < b.due ∨ (a.due = b.due ∧ a.id < b.id)

instance (a b : Ev) : Decidable (lt a b) := by unfold lt; infer_instance

theorem lt_due_le {a b : Ev} (h : lt a b) : a.due ≤ b.due := by
  rcases h with h | h <;> omega

/-! ## Part 1: lists -/

theorem takeWhile_eq_self {α : Type} {p : α → Bool} : ∀ {l : List α}, (∀ x ∈ l, p x = true) →
    l.takeWhile p = l ∧ l.dropWhile p = []
  | [], _ => ⟨rfl, rfl⟩
  | a :: t, h => by
    have ha : p a = true := h a (by simp)
    have := takeWhile_eq_self (p := p) (l := t) (fun x hx => h x (by simp [hx]))
    simp [ha, this.1, this.2]

/-- in a due-sorted list every element is at most the last one -/
theorem le_lastD : ∀ (t : List Ev) (r : Ev), (r :: t).Pairwise (fun a b => a.due ≤ b.due) →
    ∀ x ∈ r :: t, x.due ≤ (lastD t r).due
  | [], r, _, x, hx => by simp at hx; subst hx; simp
  | b :: t, r, h, x, hx => by
    rw [List.pairwise_cons] at h
    have ih := le_lastD t b h.2
    simp only [lastD_cons]
    rcases List.mem_cons.1 hx with rfl | hx'
    · have h1 := h.1 b (by simp)
      have h2 := ih b (by simp)
      omega
    · exact ih x hx'

theorem dropWhile_gt : ∀ (l : List Ev) (t : Int), l.Pairwise (fun a b => a.due ≤ b.due) →
    ∀ y ∈ l.dropWhile (ListQ.leDue t), t < y.due
  | [], _, _, y, hy => by simp at hy
  | a :: r, t, h, y, hy => by
    rw [List.pairwise_cons] at h
    rw [List.dropWhile_cons] at hy
    by_cases hp : ListQ.leDue t a = true
    · simp only [hp, if_true] at hy
      exact dropWhile_gt r t h.2 y hy
    · simp only [hp] at hy
      have ha : t < a.due := by simp [ListQ.leDue] at hp; omega
      rcases List.mem_cons.1 hy with rfl | hy'
      · exact ha
      · have := h.1 y hy'; omega

/-- under sortedness the three-way case split of `PostEvent` is one rule: after every event whose
    due time is not later, before every event whose due time is later -/
theorem postL_eq_insert {l : List Ev} {e : Ev} (h : l.Pairwise (fun a b => a.due ≤ b.due)) :
    ListQ.postL l e = l.takeWhile (ListQ.leDue e.due) ++ e :: l.dropWhile (ListQ.leDue e.due) := by
  unfold ListQ.postL
  cases l with
  | nil => simp
  | cons r t =>
    simp only
    split
    · split
      · rfl
      · rename_i c2
        have : ListQ.leDue e.due r = false := by simp [ListQ.leDue]; omega
        simp [this]
    · rename_i c1
      have hall : ∀ x ∈ r :: t, ListQ.leDue e.due x = true := by
        intro x hx
        have := le_lastD t r h x hx
        simp [ListQ.leDue]; omega
      have := takeWhile_eq_self hall
      rw [this.1, this.2]

theorem postL_perm (l : List Ev) (e : Ev) : (ListQ.postL l e).Perm (e :: l) := by
  unfold ListQ.postL
  cases l with
  | nil => simp
  | cons r t =>
    simp only
    split
    · split
      · have h1 := List.takeWhile_append_dropWhile (p := ListQ.leDue e.due) (l := r :: t)
        have h2 : (List.takeWhile (ListQ.leDue e.due) (r :: t) ++ e :: List.dropWhile (ListQ.leDue e.due) (r :: t)).Perm
            (e :: (List.takeWhile (ListQ.leDue e.due) (r :: t) ++ List.dropWhile (ListQ.leDue e.due) (r :: t))) :=
          List.perm_middle
        rw [h1] at h2; exact h2
      · exact List.Perm.refl _
    · exact List.perm_append_singleton e (r :: t)

theorem postL_length (l : List Ev) (e : Ev) : (ListQ.postL l e).length = l.length + 1 := by
  simpa using (postL_perm l e).length_eq

/-- inserting an event with a fresh (larger) sequence number keeps the queue order -/
theorem postL_sorted {l : List Ev} {e : Ev} (h : l.Pairwise lt) (hid : ∀ x ∈ l, x.id < e.id) :
    (ListQ.postL l e).Pairwise lt := by
  have hd : l.Pairwise (fun a b => a.due ≤ b.due) := h.imp lt_due_le
  rw [postL_eq_insert hd]
  have hsplit := List.takeWhile_append_dropWhile (p := ListQ.leDue e.due) (l := l)
  have hl : (l.takeWhile (ListQ.leDue e.due) ++ l.dropWhile (ListQ.leDue e.due)).Pairwise lt := by rw [hsplit]; exact h
  rw [List.pairwise_append] at hl
  obtain ⟨p1, p2, p3⟩ := hl
  have mem1 : ∀ x ∈ l.takeWhile (ListQ.leDue e.due), x ∈ l := fun x hx => by
    rw [← hsplit]; exact List.mem_append_left _ hx
  have tw : ∀ x ∈ l.takeWhile (ListQ.leDue e.due), lt x e := by
    intro x hx
    have h1 : x.due ≤ e.due := by simpa [ListQ.leDue] using takeWhile_all x hx
    have h2 := hid x (mem1 x hx)
    unfold lt; omega
  have dw : ∀ y ∈ l.dropWhile (ListQ.leDue e.due), lt e y := fun y hy => Or.inl (dropWhile_gt l e.due hd y hy)
  rw [List.pairwise_append]
  refine ⟨p1, List.pairwise_cons.2 ⟨dw, p2⟩, ?_⟩
  intro a ha b hb
  rcases List.mem_cons.1 hb with rfl | hb'
  · exact tw a ha
  · exact p3 a ha b hb'

/-! ## Part 2: lifting a predicate preserved by the primitive transitions -/

def Act.nonneg : Act → Prop
  | .post _ _ d _ => 0 ≤ d
  | _ => True

def Op.sat (A : Act → Prop) : Op → Prop
  | .act a => A a
  | .handler _ _ acts => ∀ a ∈ acts, A a
  | _ => True

theorem now_applyAct (re : Bool) (s : SState) (a : Act) : s.h.now ≤ (applyAct ListQ.impl re s a).h.now := by
  cases a <;> simp only [applyAct, cancelBy]
  case tick k => exact Nat.le_add_right _ _
  case post l typ d f => split; exact Nat.le_refl _; split; exact Nat.le_refl _; split <;> exact Nat.le_refl _
  all_goals (split <;> exact Nat.le_refl _)

theorem now_foldl (re : Bool) : ∀ (acts : List Act) (s : SState), s.h.now ≤ (acts.foldl (applyAct ListQ.impl re) s).h.now
  | [], _ => Nat.le_refl _
  | a :: acts, s => Nat.le_trans (now_applyAct re s a) (now_foldl re acts _)

theorem popDueL_some {q q' : List Ev} {t : Int} {e : Ev} (h : ListQ.popDueL q t = some (e, q')) :
    q = e :: q' ∧ e.due ≤ t := by
  cases q with
  | nil => simp [ListQ.popDueL] at h
  | cons a r =>
    simp only [ListQ.popDueL] at h
    split at h
    · cases h
    · rename_i hgt
      cases h; exact ⟨rfl, by omega⟩

/-- what has to be shown about a predicate once, for the four kinds of primitive transition -/
structure Preserved (A : Act → Prop) (P : SState → Prop) : Prop where
  act : ∀ (re : Bool) (s : SState) (a : Act), A a → P s → P (applyAct ListQ.impl re s a)
  deliver : ∀ (s : SState) (e : Ev) (q' : List Ev) (t : Int), P s → s.q = e :: q' → e.due ≤ t → t ≤ s.h.now →
    P { q := q', h := { s.h with log := ⟨e, t, s.h.now, q'⟩ :: s.h.log } }
  newl : ∀ (s : SState) (l : Nat), P s → l ≠ 0 → l ∉ s.h.alive →
    P { s with h := { s.h with alive := l :: s.h.alive } }
  handler : ∀ (s : SState) (l t : Nat) (acts : List Act), (∀ a ∈ acts, A a) → P s →
    P { s with h := { s.h with handlers := (l, t, acts) :: s.h.handlers } }
  table : ∀ (s : SState), P s → ∀ l t, ∀ a ∈ lookup s.h.handlers l t, A a

namespace Preserved
variable {A : Act → Prop} {P : SState → Prop} (hp : Preserved A P)
include hp

theorem foldl (re : Bool) : ∀ (acts : List Act) (s : SState), (∀ a ∈ acts, A a) → P s →
    P (acts.foldl (applyAct ListQ.impl re) s)
  | [], _, _, h => h
  | a :: acts, s, ha, h => by
    simp only [List.foldl_cons]
    exact foldl re acts _ (fun x hx => ha x (by simp [hx])) (hp.act re s a (ha a (by simp)) h)

theorem runHandler (s : SState) (e : Ev) (h : P s) : P (Machine.runHandler ListQ.impl s e) :=
  hp.foldl true _ s (hp.table s h e.lis e.typ) h

theorem processLoop (t : Int) : ∀ (fuel : Nat) (s : SState), P s → t ≤ s.h.now →
    P (Machine.processLoop ListQ.impl fuel t s)
  | 0, _, h, _ => h
  | fuel + 1, s, h, ht => by
    simp only [Machine.processLoop]
    have e2 : ListQ.impl.popDue s.q t = ListQ.popDueL s.q t := rfl
    rw [e2]
    cases hq : ListQ.popDueL s.q t with
    | none => exact h
    | some x =>
      obtain ⟨e, q'⟩ := x
      obtain ⟨h1, h2⟩ := popDueL_some hq
      simp only
      have hd := hp.deliver s e q' t h h1 h2 ht
      apply processLoop t fuel _ (hp.runHandler _ e hd)
      exact Int.le_trans ht (by
        have := now_foldl true (lookup s.h.handlers e.lis e.typ)
          ({ q := q', h := { s.h with log := ⟨e, t, s.h.now, q'⟩ :: s.h.log } } : SState)
        exact Int.ofNat_le.2 this)

theorem step {s s' : SState} {op : Op} (hop : Op.sat A op) (h : P s)
    (hs : Machine.step ListQ.impl s op = some s') : P s' := by
  cases op with
  | act a =>
    simp only [Machine.step] at hs
    split at hs
    · cases hs; exact hp.act false s a hop h
    · cases hs
  | newl l =>
    simp only [Machine.step] at hs
    split at hs
    · rename_i hl; cases hs; exact hp.newl s l h hl.1 hl.2
    · cases hs
  | handler l t acts =>
    simp only [Machine.step] at hs
    cases hs; exact hp.handler s l t acts hop h
  | process =>
    simp only [Machine.step] at hs
    cases hs
    exact hp.processLoop _ _ s h (Int.le_refl _)

theorem run : ∀ (ops : List Op) {s s' : SState}, (∀ op ∈ ops, Op.sat A op) → P s →
    Machine.run ListQ.impl s ops = some s' → P s'
  | [], _, _, _, h, hs => by cases hs; exact h
  | op :: ops, s, s', hops, h, hs => by
    simp only [Machine.run] at hs
    cases h1 : Machine.step ListQ.impl s op with
    | none => rw [h1] at hs; cases hs
    | some s1 =>
      rw [h1] at hs
      exact run ops (fun o ho => hops o (by simp [ho])) (hp.step (hops op (by simp)) h h1) hs

end Preserved

/-! ## Part 3: the invariants -/

structure InvS (s : SState) : Prop where
  sorted : s.q.Pairwise lt
  idpos : 1 ≤ s.h.nextId
  qid : ∀ e ∈ s.q, 1 ≤ e.id ∧ e.id < s.h.nextId
  postedId : ∀ e ∈ s.h.posted, e.id < s.h.nextId
  postedSorted : s.h.posted.Pairwise (fun a b => b.id < a.id)
  ledger : (s.h.log.map (·.ev) ++ s.h.cancelled ++ s.q).Perm s.h.posted
  qalive : ∀ e ∈ s.q, e.lis ∈ s.h.alive
  qresp : ∀ e ∈ s.q, hasResponse e.typ = true
  early : ∀ d ∈ s.h.log, d.ev.due ≤ d.passT ∧ d.passT ≤ (d.clock : Int) ∧ d.clock ≤ s.h.now
  min : ∀ d ∈ s.h.log, ∀ e ∈ d.rest, lt d.ev e
  fifo : ∀ d ∈ s.h.log, ∀ e ∈ s.q, d.ev.due = e.due → d.ev.id < e.id
  logfifo : s.h.log.Pairwise (fun later earlier => earlier.ev.due = later.ev.due → earlier.ev.id < later.ev.id)

theorem cancel_perm (L C q : List Ev) (p : Ev → Bool) :
    (L ++ ((q.filter p).reverse ++ C) ++ q.filter (fun e => !p e)).Perm (L ++ C ++ q) := by
  have h1 : ((q.filter p).reverse ++ C).Perm (C ++ q.filter p) :=
    (List.Perm.append_right C (List.reverse_perm _)).trans List.perm_append_comm
  have h2 : (((q.filter p).reverse ++ C) ++ q.filter (fun e => !p e)).Perm (C ++ q) := by
    have := (List.Perm.append_right (q.filter (fun e => !p e)) h1)
    refine this.trans ?_
    rw [List.append_assoc]
    exact List.Perm.append_left C (List.filter_append_perm p q)
  have := List.Perm.append_left L h2
  simpa [List.append_assoc] using this

theorem InvS.cancelBy {s : SState} (h : InvS s) (p : Ev → Bool) : InvS (cancelBy ListQ.impl s p) := by
  have sub : ∀ e ∈ (Machine.cancelBy ListQ.impl s p).q, e ∈ s.q := fun e he => by
    have : e ∈ s.q.filter (fun e => !p e) := he
    exact (List.mem_filter.1 this).1
  exact {
    sorted := List.Pairwise.filter _ h.sorted
    idpos := h.idpos
    qid := fun e he => h.qid e (sub e he)
    postedId := h.postedId
    postedSorted := h.postedSorted
    ledger := (cancel_perm _ _ _ p).trans h.ledger
    qalive := fun e he => h.qalive e (sub e he)
    qresp := fun e he => h.qresp e (sub e he)
    early := h.early
    min := h.min
    fifo := fun d hd e he => h.fifo d hd e (sub e he)
    logfifo := h.logfifo }

theorem InvS.log_id {s : SState} (h : InvS s) : ∀ d ∈ s.h.log, d.ev.id < s.h.nextId := by
  intro d hd
  apply h.postedId
  rw [← h.ledger.mem_iff]
  simp only [List.mem_append, List.mem_map]
  exact Or.inl (Or.inl ⟨d, hd, rfl⟩)

theorem InvS.act (re : Bool) (s : SState) (a : Act) (h : InvS s) : InvS (applyAct ListQ.impl re s a) := by
  cases a with
  | tick k =>
    exact { h with early := fun d hd => ⟨(h.early d hd).1, (h.early d hd).2.1, Nat.le_trans (h.early d hd).2.2 (Nat.le_add_right _ _)⟩ }
  | post l typ d f =>
    simp only [applyAct]
    split
    · exact h
    · rename_i hal
      split
      · exact h
      · split
        · exact { h with
            idpos := Nat.le_succ_of_le h.idpos
            qid := fun e he => ⟨(h.qid e he).1, Nat.lt_succ_of_lt (h.qid e he).2⟩
            postedId := fun e he => Nat.lt_succ_of_lt (h.postedId e he) }
        · rename_i hty
          have hresp : hasResponse typ = true := by
            cases hr : hasResponse typ with
            | true => rfl
            | false => exact absurd (Or.inr hr) hty
          have hal' : l ∈ s.h.alive := by
            by_cases c : l ∈ s.h.alive
            · exact c
            · exact absurd c hal
          have mem : ∀ x, x ∈ ListQ.postL s.q ⟨s.h.nextId, l, typ, (s.h.now : Int) + d, f⟩ →
              x ∈ s.q ∨ x = ⟨s.h.nextId, l, typ, (s.h.now : Int) + d, f⟩ := fun x hx => mem_postL.1 hx
          exact {
            sorted := postL_sorted h.sorted (fun x hx => (h.qid x hx).2)
            idpos := Nat.le_succ_of_le h.idpos
            qid := fun e he => by
              rcases mem e he with h1 | h1
              · exact ⟨(h.qid e h1).1, Nat.lt_succ_of_lt (h.qid e h1).2⟩
              · subst h1; exact ⟨h.idpos, Nat.lt_succ_self _⟩
            postedId := fun e he => by
              rcases List.mem_cons.1 he with h1 | h1
              · subst h1; exact Nat.lt_succ_self _
              · exact Nat.lt_succ_of_lt (h.postedId e h1)
            postedSorted := List.pairwise_cons.2 ⟨fun b hb => h.postedId b hb, h.postedSorted⟩
            ledger := by
              show (s.h.log.map (·.ev) ++ s.h.cancelled ++ ListQ.postL s.q _).Perm (_ :: s.h.posted)
              refine (List.Perm.append_left _ (postL_perm s.q _)).trans ?_
              exact List.perm_middle.trans (List.Perm.cons _ h.ledger)
            qalive := fun e he => by
              rcases mem e he with h1 | h1
              · exact h.qalive e h1
              · subst h1; exact hal'
            qresp := fun e he => by
              rcases mem e he with h1 | h1
              · exact h.qresp e h1
              · subst h1; exact hresp
            early := h.early
            min := h.min
            fifo := fun d0 hd0 e he hdue => by
              rcases mem e he with h1 | h1
              · exact h.fifo d0 hd0 e h1 hdue
              · subst h1; exact h.log_id d0 hd0
            logfifo := h.logfifo }
  | cancelType l typ => simp only [applyAct]; split; exact h; exact h.cancelBy _
  | cancelAll l => simp only [applyAct]; split; exact h; exact h.cancelBy _
  | cancelFlag l f => simp only [applyAct]; split; exact h; exact h.cancelBy _
  | destroy l =>
    simp only [applyAct]; split; exact h
    have h1 := h.cancelBy (matchAll l)
    exact { h1 with
      qalive := fun e he => by
        have he' : e ∈ s.q.filter (fun e => !matchAll l e) := he
        obtain ⟨m1, m2⟩ := List.mem_filter.1 he'
        have : e.lis ∈ s.h.alive := h.qalive e m1
        show e.lis ∈ List.filter (fun x => x != l) s.h.alive
        rw [List.mem_filter]
        refine ⟨this, ?_⟩
        simpa [matchAll] using m2 }

theorem InvS.deliver (s : SState) (e : Ev) (q' : List Ev) (t : Int) (h : InvS s) (hq : s.q = e :: q')
    (hdue : e.due ≤ t) (ht : t ≤ s.h.now) :
    InvS { q := q', h := { s.h with log := ⟨e, t, s.h.now, q'⟩ :: s.h.log } } := by
  have sub : ∀ x ∈ q', x ∈ s.q := fun x hx => by rw [hq]; exact List.mem_cons_of_mem _ hx
  have hs := h.sorted
  rw [hq, List.pairwise_cons] at hs
  exact {
    sorted := hs.2
    idpos := h.idpos
    qid := fun x hx => h.qid x (sub x hx)
    postedId := h.postedId
    postedSorted := h.postedSorted
    ledger := by
      have := h.ledger
      rw [hq] at this
      show ((e :: s.h.log.map (·.ev)) ++ s.h.cancelled ++ q').Perm s.h.posted
      refine List.Perm.trans ?_ this
      simpa [List.append_assoc] using (List.perm_middle (a := e) (l₁ := s.h.log.map (·.ev) ++ s.h.cancelled) (l₂ := q')).symm
    qalive := fun x hx => h.qalive x (sub x hx)
    qresp := fun x hx => h.qresp x (sub x hx)
    early := fun d hd => by
      rcases List.mem_cons.1 hd with h1 | h1
      · subst h1; exact ⟨hdue, ht, Nat.le_refl _⟩
      · exact h.early d h1
    min := fun d hd x hx => by
      rcases List.mem_cons.1 hd with h1 | h1
      · subst h1; exact hs.1 x hx
      · exact h.min d h1 x hx
    fifo := fun d hd x hx hdx => by
      rcases List.mem_cons.1 hd with h1 | h1
      · subst h1
        rcases hs.1 x hx with c | c
        · exact absurd hdx (by show e.due ≠ x.due; omega)
        · exact c.2
      · exact h.fifo d h1 x (sub x hx) hdx
    logfifo := List.pairwise_cons.2 ⟨fun d hd hdx => h.fifo d hd e (by rw [hq]; simp) hdx, h.logfifo⟩ }

theorem InvS.preserved : Preserved (fun _ => True) InvS where
  act := fun re s a _ h => h.act re s a
  deliver := fun s e q' t h hq hdue ht => h.deliver s e q' t hq hdue ht
  newl := fun _ _ h _ _ => { h with qalive := fun e he => List.mem_cons_of_mem _ (h.qalive e he) }
  handler := fun _ _ _ _ _ h => { h with }
  table := fun _ _ _ _ _ _ => trivial

theorem InvS.init (b : Nat) : InvS (Machine.init ListQ.impl b) := by
  constructor <;> simp [Machine.init, ListQ.impl]

/-! ### the extra invariant of histories whose delays are all non-negative -/

structure InvN (s : SState) : Prop where
  hn : ∀ x ∈ s.h.handlers, ∀ a ∈ x.2.2, Act.nonneg a
  logle : ∀ d ∈ s.h.log, d.ev.due ≤ s.h.now
  logq : ∀ d ∈ s.h.log, ∀ e ∈ s.q, lt d.ev e
  logsorted : s.h.log.Pairwise (fun later earlier => lt earlier.ev later.ev)

theorem lookup_mem {hs : List (Nat × Nat × List Act)} {l t : Nat} {a : Act} (h : a ∈ lookup hs l t) :
    ∃ x ∈ hs, a ∈ x.2.2 := by
  unfold lookup at h
  split at h
  · rename_i x hx
    exact ⟨x, List.mem_of_find?_eq_some hx, h⟩
  · simp at h

theorem InvN.cancelBy {s : SState} (h : InvN s) (p : Ev → Bool) : InvN (cancelBy ListQ.impl s p) :=
  { hn := h.hn, logle := h.logle, logsorted := h.logsorted
    logq := fun d hd e he => h.logq d hd e (by
      have : e ∈ s.q.filter (fun e => !p e) := he
      exact (List.mem_filter.1 this).1) }

theorem InvN.act (re : Bool) (s : SState) (a : Act) (ha : Act.nonneg a) (hs : InvS s) (h : InvN s) :
    InvN (applyAct ListQ.impl re s a) := by
  cases a with
  | tick k => exact { h with logle := fun d hd => Int.le_trans (h.logle d hd) (Int.ofNat_le.2 (Nat.le_add_right _ _)) }
  | post l typ d f =>
    simp only [applyAct]
    split
    · exact h
    · split
      · exact h
      · split
        · exact { h with }
        · exact { h with
            logq := fun d0 hd0 e he => by
              rcases mem_postL.1 he with h1 | h1
              · exact h.logq d0 hd0 e h1
              · subst h1
                have h2 := h.logle d0 hd0
                have h3 := hs.log_id d0 hd0
                have h4 : (0 : Int) ≤ d := ha
                unfold lt
                show d0.ev.due < (s.h.now : Int) + d ∨ d0.ev.due = (s.h.now : Int) + d ∧ d0.ev.id < s.h.nextId
                omega }
  | cancelType l typ => simp only [applyAct]; split; exact h; exact h.cancelBy _
  | cancelAll l => simp only [applyAct]; split; exact h; exact h.cancelBy _
  | cancelFlag l f => simp only [applyAct]; split; exact h; exact h.cancelBy _
  | destroy l =>
    simp only [applyAct]; split; exact h
    have h1 := h.cancelBy (matchAll l)
    exact { h1 with }

theorem InvN.preserved : Preserved Act.nonneg (fun s => InvS s ∧ InvN s) where
  act := fun re s a ha h => ⟨h.1.act re s a, h.2.act re s a ha h.1⟩
  deliver := fun s e q' t h hq hdue ht => by
    refine ⟨h.1.deliver s e q' t hq hdue ht, ?_⟩
    have hs := h.1.sorted
    rw [hq, List.pairwise_cons] at hs
    exact {
      hn := h.2.hn
      logle := fun d hd => by
        rcases List.mem_cons.1 hd with h1 | h1
        · subst h1; exact Int.le_trans hdue ht
        · exact h.2.logle d h1
      logq := fun d hd x hx => by
        rcases List.mem_cons.1 hd with h1 | h1
        · subst h1; exact hs.1 x hx
        · exact h.2.logq d h1 x (by rw [hq]; exact List.mem_cons_of_mem _ hx)
      logsorted := List.pairwise_cons.2 ⟨fun d hd => h.2.logq d hd e (by rw [hq]; simp), h.2.logsorted⟩ }
  newl := fun _ _ h _ _ => ⟨InvS.preserved.newl _ _ h.1 ‹_› ‹_›, { h.2 with }⟩
  handler := fun s l t acts ha h => by
    refine ⟨InvS.preserved.handler _ l t acts (fun _ _ => trivial) h.1, ?_⟩
    have hn' : ∀ x ∈ (l, t, acts) :: s.h.handlers, ∀ a ∈ x.2.2, Act.nonneg a := by
      intro x hx
      rcases List.mem_cons.1 hx with h1 | h1
      · subst h1; exact ha
      · exact h.2.hn x h1
    exact { hn := hn', logle := h.2.logle, logq := h.2.logq, logsorted := h.2.logsorted }
  table := fun _ h l t a ha => by
    obtain ⟨x, hx, hax⟩ := lookup_mem ha
    exact h.2.hn x hx a hax

theorem InvN.init (b : Nat) : InvN (Machine.init ListQ.impl b) := by
  constructor <;> simp [Machine.init, ListQ.impl]

/-! ## Part 4: a pass terminates and leaves nothing that is due -/

def mu (s : SState) : Nat := s.q.length + s.h.budget

theorem mu_cancelBy (s : SState) (p : Ev → Bool) : mu (cancelBy ListQ.impl s p) ≤ mu s := by
  unfold mu
  have : (Machine.cancelBy ListQ.impl s p).q.length ≤ s.q.length := List.length_filter_le _ _
  exact Nat.add_le_add_right this _

theorem mu_applyAct (s : SState) (a : Act) : mu (applyAct ListQ.impl true s a) ≤ mu s := by
  cases a with
  | tick k => exact Nat.le_refl _
  | post l typ d f =>
    simp only [applyAct]
    split
    · exact Nat.le_refl _
    · split
      · exact Nat.le_refl _
      · rename_i hb
        have hb' : s.h.budget ≠ 0 := fun e => hb (by simp [e])
        split
        · unfold mu; simp only [if_true]; omega
        · unfold mu
          show (ListQ.postL s.q _).length + (if true = true then s.h.budget - 1 else s.h.budget) ≤ _
          rw [postL_length]; simp only [if_true]; omega
  | cancelType l typ => simp only [applyAct]; split; exact Nat.le_refl _; exact mu_cancelBy _ _
  | cancelAll l => simp only [applyAct]; split; exact Nat.le_refl _; exact mu_cancelBy _ _
  | cancelFlag l f => simp only [applyAct]; split; exact Nat.le_refl _; exact mu_cancelBy _ _
  | destroy l => simp only [applyAct]; split; exact Nat.le_refl _; exact mu_cancelBy _ _

theorem mu_foldl : ∀ (acts : List Act) (s : SState), mu (acts.foldl (applyAct ListQ.impl true) s) ≤ mu s
  | [], _ => Nat.le_refl _
  | a :: acts, s => Nat.le_trans (mu_foldl acts _) (mu_applyAct s a)

/-- with more fuel than `mu`, the loop ends because its test fails, not because the fuel ran out -/
theorem processLoop_done (t : Int) : ∀ (fuel : Nat) (s : SState), mu s < fuel →
    ListQ.popDueL (processLoop ListQ.impl fuel t s).q t = none
  | 0, _, h => by omega
  | fuel + 1, s, h => by
    simp only [processLoop]
    have e2 : ListQ.impl.popDue s.q t = ListQ.popDueL s.q t := rfl
    rw [e2]
    cases hq : ListQ.popDueL s.q t with
    | none => exact hq
    | some x =>
      obtain ⟨e, q'⟩ := x
      obtain ⟨h1, _⟩ := popDueL_some hq
      simp only
      have key : ∀ s1 : SState, mu s1 + 1 = mu s → mu (runHandler ListQ.impl s1 e) < fuel := by
        intro s1 h3
        have := mu_foldl (lookup s1.h.handlers e.lis e.typ) s1
        unfold runHandler; omega
      apply processLoop_done t fuel
      apply key
      simp only [mu, h1, List.length_cons]; omega

theorem not_late_spec {s : SState} (h : InvS s) :
    ∀ e ∈ (process ListQ.impl s).q, (s.h.now : Int) < e.due := by
  have hinv : InvS (process ListQ.impl s) := InvS.preserved.processLoop _ _ s h (Int.le_refl _)
  have hdone : ListQ.popDueL (process ListQ.impl s).q (s.h.now : Int) = none :=
    processLoop_done _ _ s (by unfold passFuel mu; show s.q.length + s.h.budget < s.q.length + s.h.budget + 1; omega)
  intro e he
  cases hq : (process ListQ.impl s).q with
  | nil => rw [hq] at he; simp at he
  | cons a r =>
    rw [hq] at hdone he
    have hs := hinv.sorted
    rw [hq, List.pairwise_cons] at hs
    simp only [ListQ.popDueL] at hdone
    split at hdone
    · rename_i hgt
      rcases List.mem_cons.1 he with rfl | he'
      · omega
      · have := lt_due_le (hs.1 e he'); omega
    · cases hdone

/-! ### what a pass appends to the log; ledgers only grow (generic in the queue implementation) -/

section generic
variable {Q : Type} (I : QImpl Q)

theorem log_applyAct (re : Bool) (s : MState Q) (a : Act) : (applyAct I re s a).h.log = s.h.log := by
  cases a <;> simp only [applyAct, Machine.cancelBy]
  case post l typ d f => split; rfl; split; rfl; split <;> rfl
  all_goals (split <;> rfl)

theorem log_foldl (re : Bool) : ∀ (acts : List Act) (s : MState Q), (acts.foldl (applyAct I re) s).h.log = s.h.log
  | [], _ => rfl
  | a :: acts, s => by simp only [List.foldl_cons]; rw [log_foldl re acts, log_applyAct]

theorem now_applyAct' (re : Bool) (s : MState Q) (a : Act) : s.h.now ≤ (applyAct I re s a).h.now := by
  cases a <;> simp only [applyAct, Machine.cancelBy]
  case tick k => exact Nat.le_add_right _ _
  case post l typ d f => split; exact Nat.le_refl _; split; exact Nat.le_refl _; split <;> exact Nat.le_refl _
  all_goals (split <;> exact Nat.le_refl _)

/-- every record a pass adds carries the pass time `t` -/
theorem processLoop_log (t : Int) : ∀ (fuel : Nat) (s : MState Q),
    ∃ new, (processLoop I fuel t s).h.log = new ++ s.h.log ∧ ∀ d ∈ new, d.passT = t
  | 0, s => ⟨[], rfl, by simp⟩
  | fuel + 1, s => by
    simp only [processLoop]
    cases hq : I.popDue s.q t with
    | none => exact ⟨[], rfl, by simp⟩
    | some x =>
      obtain ⟨e, q'⟩ := x
      simp only
      obtain ⟨new, h1, h2⟩ := processLoop_log t fuel (runHandler I
        { q := q', h := { s.h with log := ⟨e, t, s.h.now, I.toList q'⟩ :: s.h.log } } e)
      refine ⟨new ++ [⟨e, t, s.h.now, I.toList q'⟩], ?_, ?_⟩
      · rw [h1]; unfold runHandler; rw [log_foldl]; simp
      · intro d hd
        rcases List.mem_append.1 hd with h3 | h3
        · exact h2 d h3
        · simp at h3; subst h3; rfl

/-- the ghost ledgers only grow -/
def Grows (h h' : Host) : Prop := (∀ e ∈ h.cancelled, e ∈ h'.cancelled) ∧ (∀ e ∈ h.posted, e ∈ h'.posted)

theorem Grows.refl (h : Host) : Grows h h := ⟨fun _ he => he, fun _ he => he⟩
theorem Grows.trans {h1 h2 h3 : Host} (a : Grows h1 h2) (b : Grows h2 h3) : Grows h1 h3 :=
  ⟨fun e he => b.1 e (a.1 e he), fun e he => b.2 e (a.2 e he)⟩

theorem grows_applyAct (re : Bool) (s : MState Q) (a : Act) : Grows s.h (applyAct I re s a).h := by
  cases a <;> simp only [applyAct, Machine.cancelBy]
  case tick k => exact Grows.refl _
  case post l typ d f =>
    split; exact Grows.refl _; split; exact Grows.refl _; split; exact Grows.refl _
    exact ⟨fun _ he => he, fun _ he => List.mem_cons_of_mem _ he⟩
  all_goals (split; exact Grows.refl _; exact ⟨fun _ he => List.mem_append_right _ he, fun _ he => he⟩)

theorem grows_foldl (re : Bool) : ∀ (acts : List Act) (s : MState Q), Grows s.h (acts.foldl (applyAct I re) s).h
  | [], _ => Grows.refl _
  | a :: acts, s => (grows_applyAct I re s a).trans (grows_foldl re acts _)

theorem grows_processLoop (t : Int) : ∀ (fuel : Nat) (s : MState Q), Grows s.h (processLoop I fuel t s).h
  | 0, _ => Grows.refl _
  | fuel + 1, s => by
    simp only [processLoop]
    cases hq : I.popDue s.q t with
    | none => exact Grows.refl _
    | some x =>
      obtain ⟨e', q'⟩ := x
      simp only
      let s1 : MState Q := { q := q', h := { s.h with log := ⟨e', t, s.h.now, I.toList q'⟩ :: s.h.log } }
      have g1 : Grows s.h s1.h := ⟨fun _ he => he, fun _ he => he⟩
      have g2 : Grows s1.h (runHandler I s1 e').h := grows_foldl I true _ s1
      exact g1.trans (g2.trans (grows_processLoop t fuel (runHandler I s1 e')))

theorem grows_step {s s' : MState Q} {op : Op} (hs : Machine.step I s op = some s') : Grows s.h s'.h := by
  cases op with
  | act a =>
    simp only [Machine.step] at hs
    split at hs
    · cases hs; exact grows_applyAct I false s a
    · cases hs
  | newl l =>
    simp only [Machine.step] at hs
    split at hs
    · cases hs; exact Grows.refl _
    · cases hs
  | handler l t acts => simp only [Machine.step] at hs; cases hs; exact Grows.refl _
  | process => simp only [Machine.step] at hs; cases hs; exact grows_processLoop I _ _ s

theorem grows_run : ∀ (ops : List Op) {s s' : MState Q}, Machine.run I s ops = some s' → Grows s.h s'.h
  | [], _, _, hs => by cases hs; exact Grows.refl _
  | op :: ops, s, s', hs => by
    simp only [Machine.run] at hs
    cases h1 : Machine.step I s op with
    | none => rw [h1] at hs; cases hs
    | some s1 =>
      rw [h1] at hs
      exact (grows_step I h1).trans (grows_run ops hs)

theorem run_append : ∀ (ops1 ops2 : List Op) (s : MState Q),
    Machine.run I s (ops1 ++ ops2) = (Machine.run I s ops1).bind (Machine.run I · ops2)
  | [], _, _ => rfl
  | op :: ops1, ops2, s => by
    simp only [List.cons_append, Machine.run]
    cases Machine.step I s op with
    | none => rfl
    | some s1 => simp only [Option.bind_some]; exact run_append ops1 ops2 s1

end generic

/-! ## Part 5: transfer along the refinement -/

def SReach (ss : SState) : Prop := ∃ b ops, Machine.run ListQ.impl (Machine.init ListQ.impl b) ops = some ss

theorem sat_true (op : Op) : Op.sat (fun _ => True) op := by
  cases op <;> simp [Op.sat]

theorem SReach.inv {ss : SState} (h : SReach ss) : InvS ss := by
  obtain ⟨b, ops, hr⟩ := h
  exact InvS.preserved.run ops (fun op _ => sat_true op) (InvS.init b) hr

theorem InvS.fresh {ss : SState} (h : InvS ss) : Fresh ss := ⟨h.idpos, h.qid⟩

theorem reachable_spec {s : State} (h : Reachable s) : ∃ ss, SReach ss ∧ RelS s ss := by
  obtain ⟨b, ops, hr⟩ := h
  have := rel_run ops (rel_init b).1 (rel_init b).2
  unfold run at hr
  rw [hr] at this
  cases hb : Machine.run ListQ.impl (Machine.init ListQ.impl b) ops with
  | none => rw [hb] at this; exact this.elim
  | some ss => rw [hb] at this; exact ⟨ss, ⟨b, ops, hb⟩, this.1⟩

/-- the converse direction: a history accepted by the specification is accepted by the link-level model -/
theorem reachable_of_spec {b : Nat} {ops : List Op} {ss : SState}
    (h : Machine.run ListQ.impl (Machine.init ListQ.impl b) ops = some ss) :
    ∃ s, run (init b) ops = some s ∧ pending s = ss.q ∧ s.h = ss.h := by
  have := rel_run ops (rel_init b).1 (rel_init b).2
  rw [h] at this
  cases ha : Machine.run LQ.impl (init b) ops with
  | none => rw [ha] at this; exact this.elim
  | some s => rw [ha] at this; exact ⟨s, ha, this.1.1.toList, this.1.2⟩

theorem step_transfer {s s' : State} {op : Op} (h : Reachable s) (hs : step s op = some s') :
    ∃ ss ss', InvS ss ∧ RelS s ss ∧ Machine.step ListQ.impl ss op = some ss' ∧ RelS s' ss' ∧ InvS ss' := by
  obtain ⟨ss, hreach, hrel⟩ := reachable_spec h
  have hinv := hreach.inv
  have := rel_step op hrel hinv.fresh
  unfold step at hs
  rw [hs] at this
  cases hb : Machine.step ListQ.impl ss op with
  | none => rw [hb] at this; exact this.elim
  | some ss' =>
    rw [hb] at this
    exact ⟨ss, ss', hinv, hrel, hb, this.1, InvS.preserved.step (sat_true op) hinv hb⟩

theorem reachable_step {s s' : State} {ops : List Op} (h : Reachable s) (hs : run s ops = some s') : Reachable s' := by
  obtain ⟨b, ops0, hr⟩ := h
  refine ⟨b, ops0 ++ ops, ?_⟩
  unfold run at hr hs ⊢
  rw [run_append, hr]; exact hs

/-- shared shape of the three cancel operations and of destruction -/
theorem cancel_transfer {s s' : State} {a : Act} {l : Nat} {p : Ev → Bool} (h : Reachable s)
    (hs : step s (.act a) = some s')
    (hl : ∀ hh : Host, Act.legalTop hh a = decide (l ∈ hh.alive))
    (ha : ∀ ss : SState, l ∈ ss.h.alive → (applyAct ListQ.impl false ss a).q = (cancelBy ListQ.impl ss p).q ∧
      (applyAct ListQ.impl false ss a).h.log = ss.h.log ∧
      (applyAct ListQ.impl false ss a).h.cancelled = (cancelBy ListQ.impl ss p).h.cancelled ∧
      (applyAct ListQ.impl false ss a).h.posted = ss.h.posted) :
    pending s' = (pending s).filter (fun e => !p e) ∧ s'.h.log = s.h.log ∧
    s'.h.cancelled = ((pending s).filter p).reverse ++ s.h.cancelled ∧ s'.h.posted = s.h.posted := by
  obtain ⟨ss, ss', hinv, hrel, hstep, hrel', _⟩ := step_transfer h hs
  simp only [Machine.step] at hstep
  split at hstep
  · rename_i hlt
    have hal : l ∈ ss.h.alive := by rw [hl] at hlt; simpa using hlt
    cases hstep
    obtain ⟨a1, a2, a3, a4⟩ := ha ss hal
    simp only [pending]
    rw [hrel'.1.toList, hrel.1.toList, hrel'.2, hrel.2, a1, a2, a3, a4]
    exact ⟨rfl, rfl, rfl, rfl⟩
  · cases hstep

end Morfuse.EventQueue
