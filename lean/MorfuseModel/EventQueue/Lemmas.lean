import MorfuseModel.EventQueue.Refine
/-!
# Invariants of the specification machine and their transfer to the link-level model

Part 1: list facts (`postL` is a stable sorted insertion, a permutation of `e :: l`).
Part 2: a generic lifting of a one-step-preserved predicate through responses, passes and histories.
Part 3: the invariants (`InvS` unconditional, `InvN` for histories whose delays are non-negative).
Part 4: termination of a pass (`passFuel` is enough) and "nothing due is left".
Part 5: transfer along the refinement.
-/
namespace Morfuse.EventQueue
open Machine

/-- queue order: by due time, then by enqueue stamp (the posting order; a postponed event takes a new
    stamp, so among equal due times it comes after everything that was already queued) -/
def lt (a b : Ev) : Prop := a.due < b.due ∨ (a.due = b.due ∧ a.ord < b.ord)

instance (a b : Ev) : Decidable (lt a b) := by unfold lt; infer_instance

theorem lt_due_le {a b : Ev} (h : lt a b) : a.due ≤ b.due := by
  rcases h with h | h <;> omega

/-! ## Part 1: lists -/

theorem takeWhile_eq_self {α : Type} {p : α → Bool} : ∀ {l : List α}, (∀ x ∈ l, p x = true) →
    l.takeWhile p = l ∧ l.dropWhile p = []
  | [], _ => ⟨rfl, rfl⟩
  | a :: t, h => by
    have ha : p a = true := h a (by simp)
    have := takeWhile_eq_self (p := p) (l := t) (fun x hx => h x (by simp [hx]))
    simp [ha, this.1, this.2]

/-- in a due-sorted list every element is at most the last one -/
theorem le_lastD : ∀ (t : List Ev) (r : Ev), (r :: t).Pairwise (fun a b => a.due ≤ b.due) →
    ∀ x ∈ r :: t, x.due ≤ (lastD t r).due
  | [], r, _, x, hx => by simp at hx; subst hx; simp
  | b :: t, r, h, x, hx => by
    rw [List.pairwise_cons] at h
    have ih := le_lastD t b h.2
    simp only [lastD_cons]
    rcases List.mem_cons.1 hx with rfl | hx'
    · have h1 := h.1 b (by simp)
      have h2 := ih b (by simp)
      omega
    · exact ih x hx'

theorem dropWhile_gt : ∀ (l : List Ev) (t : Int), l.Pairwise (fun a b => a.due ≤ b.due) →
    ∀ y ∈ l.dropWhile (ListQ.leDue t), t < y.due
  | [], _, _, y, hy => by simp at hy
  | a :: r, t, h, y, hy => by
    rw [List.pairwise_cons] at h
    rw [List.dropWhile_cons] at hy
    by_cases hp : ListQ.leDue t a = true
    · simp only [hp, if_true] at hy
      exact dropWhile_gt r t h.2 y hy
    · simp only [hp] at hy
      have ha : t < a.due := by simp [ListQ.leDue] at hp; omega
      rcases List.mem_cons.1 hy with rfl | hy'
      · exact ha
      · have := h.1 y hy'; omega

/-- under sortedness the three-way case split of `PostEvent` is one rule: after every event whose
    due time is not later, before every event whose due time is later -/
theorem postL_eq_insert {l : List Ev} {e : Ev} (h : l.Pairwise (fun a b => a.due ≤ b.due)) :
    ListQ.postL l e = l.takeWhile (ListQ.leDue e.due) ++ e :: l.dropWhile (ListQ.leDue e.due) := by
  unfold ListQ.postL
  cases l with
  | nil => simp
  | cons r t =>
    simp only
    split
    · split
      · rfl
      · rename_i c2
        have : ListQ.leDue e.due r = false := by simp [ListQ.leDue]; omega
        simp [this]
    · rename_i c1
      have hall : ∀ x ∈ r :: t, ListQ.leDue e.due x = true := by
        intro x hx
        have := le_lastD t r h x hx
        simp [ListQ.leDue]; omega
      have := takeWhile_eq_self hall
      rw [this.1, this.2]

theorem postL_perm (l : List Ev) (e : Ev) : (ListQ.postL l e).Perm (e :: l) := by
  unfold ListQ.postL
  cases l with
  | nil => simp
  | cons r t =>
    simp only
    split
    · split
      · have h1 := List.takeWhile_append_dropWhile (p := ListQ.leDue e.due) (l := r :: t)
        have h2 : (List.takeWhile (ListQ.leDue e.due) (r :: t) ++ e :: List.dropWhile (ListQ.leDue e.due) (r :: t)).Perm
            (e :: (List.takeWhile (ListQ.leDue e.due) (r :: t) ++ List.dropWhile (ListQ.leDue e.due) (r :: t))) :=
          List.perm_middle
        rw [h1] at h2; exact h2
      · exact List.Perm.refl _
    · exact List.perm_append_singleton e (r :: t)

theorem postL_length (l : List Ev) (e : Ev) : (ListQ.postL l e).length = l.length + 1 := by
  simpa using (postL_perm l e).length_eq

/-- inserting an event with a fresh (larger) stamp keeps the queue order -/
theorem insL_sorted {l : List Ev} {e : Ev} (h : l.Pairwise lt) (hid : ∀ x ∈ l, x.ord < e.ord) :
    (ListQ.insL l e).Pairwise lt := by
  have hd : l.Pairwise (fun a b => a.due ≤ b.due) := h.imp lt_due_le
  unfold ListQ.insL
  have hsplit := List.takeWhile_append_dropWhile (p := ListQ.leDue e.due) (l := l)
  have hl : (l.takeWhile (ListQ.leDue e.due) ++ l.dropWhile (ListQ.leDue e.due)).Pairwise lt := by rw [hsplit]; exact h
  rw [List.pairwise_append] at hl
  obtain ⟨p1, p2, p3⟩ := hl
  have mem1 : ∀ x ∈ l.takeWhile (ListQ.leDue e.due), x ∈ l := fun x hx => by
    rw [← hsplit]; exact List.mem_append_left _ hx
  have tw : ∀ x ∈ l.takeWhile (ListQ.leDue e.due), lt x e := by
    intro x hx
    have h1 : x.due ≤ e.due := by simpa [ListQ.leDue] using takeWhile_all x hx
    have h2 := hid x (mem1 x hx)
    unfold lt; omega
  have dw : ∀ y ∈ l.dropWhile (ListQ.leDue e.due), lt e y := fun y hy => Or.inl (dropWhile_gt l e.due hd y hy)
  rw [List.pairwise_append]
  refine ⟨p1, List.pairwise_cons.2 ⟨dw, p2⟩, ?_⟩
  intro a ha b hb
  rcases List.mem_cons.1 hb with rfl | hb'
  · exact tw a ha
  · exact p3 a ha b hb'

theorem postL_sorted {l : List Ev} {e : Ev} (h : l.Pairwise lt) (hid : ∀ x ∈ l, x.ord < e.ord) :
    (ListQ.postL l e).Pairwise lt := by
  rw [postL_eq_insert (h.imp lt_due_le)]
  exact insL_sorted h hid

theorem insL_perm (l : List Ev) (e : Ev) : (ListQ.insL l e).Perm (e :: l) := by
  unfold ListQ.insL
  have h1 := List.takeWhile_append_dropWhile (p := ListQ.leDue e.due) (l := l)
  have h2 : (List.takeWhile (ListQ.leDue e.due) l ++ e :: List.dropWhile (ListQ.leDue e.due) l).Perm
      (e :: (List.takeWhile (ListQ.leDue e.due) l ++ List.dropWhile (ListQ.leDue e.due) l)) := List.perm_middle
  rw [h1] at h2; exact h2

/-- what a postponement does to the list: nothing when no event matches; otherwise the first match `e`
    is replaced by the version `e'` with the later due time and the new stamp, somewhere in the list -/
theorem postponeL_cases (p : Ev → Bool) (d : Int) (ord : Nat) : ∀ (l : List Ev),
    ListQ.postponeL l p d ord = (l, none) ∨
    ∃ e m, e ∈ l ∧ p e = true ∧
      (ListQ.postponeL l p d ord).2 = some (e, { e with due := e.due + d, ord := ord }) ∧
      l.Perm (e :: m) ∧ (ListQ.postponeL l p d ord).1.Perm ({ e with due := e.due + d, ord := ord } :: m)
  | [] => Or.inl rfl
  | a :: r => by
    by_cases hp : p a = true
    · right
      refine ⟨a, r, by simp, hp, by simp [ListQ.postponeL, hp], List.Perm.refl _, ?_⟩
      simp only [ListQ.postponeL, hp, if_true]
      exact insL_perm _ _
    · rcases postponeL_cases p d ord r with h | ⟨e, m, h1, h2, h3, h4, h5⟩
      · left; simp [ListQ.postponeL, hp, h]
      · right
        refine ⟨e, a :: m, by simp [h1], h2, by simp [ListQ.postponeL, hp, h3], ?_, ?_⟩
        · exact (List.Perm.cons a h4).trans (List.Perm.swap e a m)
        · simp only [ListQ.postponeL, hp, Bool.false_eq_true, if_false]
          exact (List.Perm.cons a h5).trans (List.Perm.swap _ a m)

/-- a postponement by a non-negative amount with a fresh stamp keeps the queue order -/
theorem postponeL_sorted {p : Ev → Bool} {d : Int} {ord : Nat} (hd : 0 ≤ d) : ∀ {l : List Ev},
    l.Pairwise lt → (∀ x ∈ l, x.ord < ord) → (ListQ.postponeL l p d ord).1.Pairwise lt
  | [], _, _ => by simp [ListQ.postponeL]
  | a :: r, h, ho => by
    rw [List.pairwise_cons] at h
    by_cases hp : p a = true
    · simp only [ListQ.postponeL, hp, if_true]
      exact insL_sorted h.2 (fun x hx => ho x (by simp [hx]))
    · simp only [ListQ.postponeL, hp, Bool.false_eq_true, if_false]
      refine List.pairwise_cons.2 ⟨?_, postponeL_sorted hd h.2 (fun x hx => ho x (by simp [hx]))⟩
      intro x hx
      rcases postponeL_cases p d ord r with hc | ⟨e, m, h1, _, _, h4, h5⟩
      · rw [hc] at hx; exact h.1 x hx
      · rcases List.mem_cons.1 (h5.mem_iff.1 hx) with h6 | h6
        · have hae := h.1 e h1
          have hao := ho a (by simp)
          subst h6
          unfold lt at hae ⊢
          show a.due < e.due + d ∨ a.due = e.due + d ∧ a.ord < ord
          omega
        · exact h.1 x (h4.mem_iff.2 (List.mem_cons_of_mem _ h6))

theorem postponeL_length (p : Ev → Bool) (d : Int) (ord : Nat) (l : List Ev) :
    (ListQ.postponeL l p d ord).1.length = l.length := by
  rcases postponeL_cases p d ord l with h | ⟨e, m, _, _, _, h4, h5⟩
  · rw [h]
  · rw [h5.length_eq, h4.length_eq]; simp

/-! ## Part 2: lifting a predicate preserved by the primitive transitions -/

def Act.nonneg : Act → Prop
  | .post _ _ d _ => 0 ≤ d
  | _ => True

/-- `A`: what every action (top level or in a handler table) satisfies; `L`: per-listener passes allowed -/
def Op.sat (A : Act → Prop) (L : Prop) : Op → Prop
  | .act a => A a
  | .handler _ _ acts => ∀ a ∈ acts, A a
  | .processL _ => L
  | _ => True

section generic0
variable {Q : Type} (I : QImpl Q)

/-- a postponement touches the queue, the stamp counter and the two version ledgers only -/
theorem postponeBy_host (s : MState Q) (p : Ev → Bool) (d : Nat) :
    (postponeBy I s p d).h.now = s.h.now ∧ (postponeBy I s p d).h.log = s.h.log ∧
    (postponeBy I s p d).h.alive = s.h.alive ∧ (postponeBy I s p d).h.budget = s.h.budget ∧
    (postponeBy I s p d).h.handlers = s.h.handlers ∧ (postponeBy I s p d).h.cancelled = s.h.cancelled ∧
    (postponeBy I s p d).h.nextId = s.h.nextId := by
  unfold postponeBy
  split <;> simp

end generic0

theorem now_applyAct (re : Bool) (s : SState) (a : Act) : s.h.now ≤ (applyAct ListQ.impl re s a).h.now := by
  cases a <;> simp only [applyAct, cancelBy]
  case tick k => exact Nat.le_add_right _ _
  case post l typ d f => split; exact Nat.le_refl _; split; exact Nat.le_refl _; split <;> exact Nat.le_refl _
  case postpone l typ d => split; exact Nat.le_refl _; rw [(postponeBy_host _ _ _ _).1]; exact Nat.le_refl _
  case postponeAll l d => split; exact Nat.le_refl _; rw [(postponeBy_host _ _ _ _).1]; exact Nat.le_refl _
  all_goals (split <;> exact Nat.le_refl _)

theorem now_foldl (re : Bool) : ∀ (acts : List Act) (s : SState), s.h.now ≤ (acts.foldl (applyAct ListQ.impl re) s).h.now
  | [], _ => Nat.le_refl _
  | a :: acts, s => Nat.le_trans (now_applyAct re s a) (now_foldl re acts _)

theorem popDueL_some {q q' : List Ev} {t : Int} {e : Ev} (h : ListQ.popDueL q t = some (e, q')) :
    q = e :: q' ∧ e.due ≤ t := by
  cases q with
  | nil => simp [ListQ.popDueL] at h
  | cons a r =>
    simp only [ListQ.popDueL] at h
    split at h
    · cases h
    · rename_i hgt
      cases h; exact ⟨rfl, by omega⟩

/-- what has to be shown about a predicate once, for the kinds of primitive transition.  A delivery
    takes `e` out of `pre ++ e :: rest`: the global pass (`g = true`) takes the head, the per-listener
    pass (`g = false`) the first event of the listener, everything before it being due and of other listeners. -/
structure Preserved (A : Act → Prop) (L : Prop) (P : SState → Prop) : Prop where
  act : ∀ (re : Bool) (s : SState) (a : Act), A a → P s → P (applyAct ListQ.impl re s a)
  deliver : ∀ (s : SState) (pre : List Ev) (e : Ev) (rest : List Ev) (t : Int) (g : Bool), P s →
    s.q = pre ++ e :: rest → (g = true → pre = []) → (g = false → L) → (∀ x ∈ pre, x.due ≤ t ∧ x.lis ≠ e.lis) →
    e.due ≤ t → t ≤ s.h.now →
    P { q := pre ++ rest, h := { s.h with log := ⟨e, t, s.h.now, pre ++ rest, g⟩ :: s.h.log } }
  newl : ∀ (s : SState) (l : Nat), P s → l ≠ 0 → l ∉ s.h.alive →
    P { s with h := { s.h with alive := l :: s.h.alive } }
  handler : ∀ (s : SState) (l t : Nat) (acts : List Act), (∀ a ∈ acts, A a) → P s →
    P { s with h := { s.h with handlers := (l, t, acts) :: s.h.handlers } }
  clear : ∀ (s : SState), P s → P (clearAll ListQ.impl s)
  table : ∀ (s : SState), P s → ∀ l t, ∀ a ∈ lookup s.h.handlers l t, A a

namespace Preserved
variable {A : Act → Prop} {L : Prop} {P : SState → Prop} (hp : Preserved A L P)
include hp

theorem foldl (re : Bool) : ∀ (acts : List Act) (s : SState), (∀ a ∈ acts, A a) → P s →
    P (acts.foldl (applyAct ListQ.impl re) s)
  | [], _, _, h => h
  | a :: acts, s, ha, h => by
    simp only [List.foldl_cons]
    exact foldl re acts _ (fun x hx => ha x (by simp [hx])) (hp.act re s a (ha a (by simp)) h)

theorem runHandler (s : SState) (e : Ev) (h : P s) : P (Machine.runHandler ListQ.impl s e) :=
  hp.foldl true _ s (hp.table s h e.lis e.typ) h

theorem processLoop (t : Int) : ∀ (fuel : Nat) (s : SState), P s → t ≤ s.h.now →
    P (Machine.processLoop ListQ.impl fuel t s)
  | 0, _, h, _ => h
  | fuel + 1, s, h, ht => by
    simp only [Machine.processLoop]
    have e2 : ListQ.impl.popDue s.q t = ListQ.popDueL s.q t := rfl
    rw [e2]
    cases hq : ListQ.popDueL s.q t with
    | none => exact h
    | some x =>
      obtain ⟨e, q'⟩ := x
      obtain ⟨h1, h2⟩ := popDueL_some hq
      simp only
      have hd := hp.deliver s [] e q' t true h h1 (fun _ => rfl) (fun c => by cases c) (by simp) h2 ht
      apply processLoop t fuel _ (hp.runHandler _ e hd)
      exact Int.le_trans ht (by
        have := now_foldl true (lookup s.h.handlers e.lis e.typ)
          ({ q := q', h := { s.h with log := ⟨e, t, s.h.now, q', true⟩ :: s.h.log } } : SState)
        exact Int.ofNat_le.2 this)

theorem processLoopL (hL : L) (l : Nat) (t : Int) : ∀ (fuel : Nat) (s : SState), P s → t ≤ s.h.now →
    P (Machine.processLoopL ListQ.impl l fuel t s)
  | 0, _, h, _ => h
  | fuel + 1, s, h, ht => by
    simp only [Machine.processLoopL]
    have e2 : ListQ.impl.popDueOf s.q l t = ListQ.popDueOfL s.q l t := rfl
    rw [e2]
    cases hq : ListQ.popDueOfL s.q l t with
    | none => exact h
    | some x =>
      obtain ⟨e, q'⟩ := x
      obtain ⟨pre, rest, h1, h2, h3, h4, h5⟩ := popDueOfL_some hq
      simp only
      subst h2
      have hd := hp.deliver s pre e rest t false h h1 (fun c => by cases c) (fun _ => hL)
        (fun x hx => ⟨(h5 x hx).1, by rw [h3]; exact (h5 x hx).2⟩) h4 ht
      apply processLoopL hL l t fuel _ (hp.runHandler _ e hd)
      exact Int.le_trans ht (by
        have := now_foldl true (lookup s.h.handlers e.lis e.typ)
          ({ q := pre ++ rest, h := { s.h with log := ⟨e, t, s.h.now, pre ++ rest, false⟩ :: s.h.log } } : SState)
        exact Int.ofNat_le.2 this)

theorem step {s s' : SState} {op : Op} (hop : Op.sat A L op) (h : P s)
    (hs : Machine.step ListQ.impl s op = some s') : P s' := by
  cases op with
  | act a =>
    simp only [Machine.step] at hs
    split at hs
    · cases hs; exact hp.act false s a hop h
    · cases hs
  | newl l =>
    simp only [Machine.step] at hs
    split at hs
    · rename_i hl; cases hs; exact hp.newl s l h hl.1 hl.2
    · cases hs
  | handler l t acts =>
    simp only [Machine.step] at hs
    cases hs; exact hp.handler s l t acts hop h
  | process =>
    simp only [Machine.step] at hs
    cases hs
    exact hp.processLoop _ _ s h (Int.le_refl _)
  | processL l =>
    simp only [Machine.step] at hs
    split at hs
    · cases hs; exact hp.processLoopL hop l _ _ s h (Int.le_refl _)
    · cases hs
  | clear =>
    simp only [Machine.step] at hs
    cases hs; exact hp.clear s h
  | saveLoad =>
    simp only [Machine.step] at hs
    cases hs; exact h

theorem run : ∀ (ops : List Op) {s s' : SState}, (∀ op ∈ ops, Op.sat A L op) → P s →
    Machine.run ListQ.impl s ops = some s' → P s'
  | [], _, _, _, h, hs => by cases hs; exact h
  | op :: ops, s, s', hops, h, hs => by
    simp only [Machine.run] at hs
    split at hs
    · cases hs
    cases h1 : Machine.step ListQ.impl s op with
    | none => rw [h1] at hs; cases hs
    | some s1 =>
      rw [h1] at hs
      exact run ops (fun o ho => hops o (by simp [ho])) (hp.step (hops op (by simp)) h h1) hs

end Preserved

/-! ## Part 3: the invariants -/

/-- the versions that are delivered, cancelled or pending -/
def live (s : SState) : List Ev := s.h.log.map (·.ev) ++ s.h.cancelled ++ s.q

structure InvS (s : SState) : Prop where
  sorted : s.q.Pairwise lt
  idpos : 1 ≤ s.h.nextId
  qid : ∀ e ∈ s.q, 1 ≤ e.id ∧ e.id < s.h.nextId
  postedId : ∀ e ∈ s.h.posted, e.id < s.h.nextId
  postedOrd : ∀ e ∈ s.h.posted, e.ord < s.h.nextOrd
  postedSorted : s.h.posted.Pairwise (fun a b => b.ord < a.ord)
  ledger : (s.h.postponed ++ live s).Perm s.h.posted
  liveIds : ((live s).map (·.id)).Nodup
  cover : ∀ e ∈ s.h.posted, e.id ∈ (live s).map (·.id)
  qalive : ∀ e ∈ s.q, e.lis ∈ s.h.alive
  qresp : ∀ e ∈ s.q, hasResponse e.typ = true
  early : ∀ d ∈ s.h.log, d.ev.due ≤ d.passT ∧ d.passT ≤ (d.clock : Int) ∧ d.clock ≤ s.h.now
  min : ∀ d ∈ s.h.log, ∀ e ∈ d.rest, (d.glob = true ∨ e.lis = d.ev.lis) → lt d.ev e
  fifo : ∀ d ∈ s.h.log, ∀ e ∈ s.q, (d.glob = true ∨ e.lis = d.ev.lis) → d.ev.due = e.due → d.ev.ord < e.ord
  logfifo : s.h.log.Pairwise (fun later earlier => (earlier.glob = true ∨ later.ev.lis = earlier.ev.lis) →
    earlier.ev.due = later.ev.due → earlier.ev.ord < later.ev.ord)
  noub : s.h.ub = false

theorem cancel_perm (L C q : List Ev) (p : Ev → Bool) :
    (L ++ ((q.filter p).reverse ++ C) ++ q.filter (fun e => !p e)).Perm (L ++ C ++ q) := by
  have h1 : ((q.filter p).reverse ++ C).Perm (C ++ q.filter p) :=
    (List.Perm.append_right C (List.reverse_perm _)).trans List.perm_append_comm
  have h2 : (((q.filter p).reverse ++ C) ++ q.filter (fun e => !p e)).Perm (C ++ q) := by
    have := (List.Perm.append_right (q.filter (fun e => !p e)) h1)
    refine this.trans ?_
    rw [List.append_assoc]
    exact List.Perm.append_left C (List.filter_append_perm p q)
  have := List.Perm.append_left L h2
  simpa [List.append_assoc] using this

theorem InvS.live_posted {s : SState} (h : InvS s) {x : Ev} (hx : x ∈ live s) : x ∈ s.h.posted :=
  h.ledger.mem_iff.1 (List.mem_append_right _ hx)

theorem InvS.q_live {s : SState} {x : Ev} (hx : x ∈ s.q) : x ∈ live s := List.mem_append_right _ hx

theorem InvS.log_live {s : SState} {d : Delivery} (hd : d ∈ s.h.log) : d.ev ∈ live s :=
  List.mem_append_left _ (List.mem_append_left _ (List.mem_map_of_mem hd))

theorem InvS.log_ord {s : SState} (h : InvS s) : ∀ d ∈ s.h.log, d.ev.ord < s.h.nextOrd :=
  fun _ hd => h.postedOrd _ (h.live_posted (InvS.log_live hd))

theorem InvS.q_ord {s : SState} (h : InvS s) : ∀ e ∈ s.q, e.ord < s.h.nextOrd :=
  fun _ he => h.postedOrd _ (h.live_posted (InvS.q_live he))

/-- moving versions between delivered / cancelled / pending: everything that only depends on `live` up to
    permutation carries over -/
theorem InvS.of_live_perm {s s' : SState} (h : InvS s) (hl : (live s').Perm (live s))
    (hpo : s'.h.posted = s.h.posted) (hpp : s'.h.postponed = s.h.postponed) :
    (s'.h.postponed ++ live s').Perm s'.h.posted ∧ ((live s').map (·.id)).Nodup ∧
    ∀ e ∈ s'.h.posted, e.id ∈ (live s').map (·.id) := by
  refine ⟨?_, ?_, ?_⟩
  · rw [hpo, hpp]; exact (List.Perm.append_left _ hl).trans h.ledger
  · exact (hl.map (·.id)).nodup_iff.2 h.liveIds
  · intro e he; rw [hpo] at he
    exact (hl.map (·.id)).mem_iff.2 (h.cover e he)

theorem InvS.cancelBy {s : SState} (h : InvS s) (p : Ev → Bool) : InvS (cancelBy ListQ.impl s p) := by
  have sub : ∀ e ∈ (Machine.cancelBy ListQ.impl s p).q, e ∈ s.q := fun e he => by
    have : e ∈ s.q.filter (fun e => !p e) := he
    exact (List.mem_filter.1 this).1
  obtain ⟨l1, l2, l3⟩ := h.of_live_perm (s' := Machine.cancelBy ListQ.impl s p) (cancel_perm _ _ _ p) rfl rfl
  exact {
    sorted := List.Pairwise.filter _ h.sorted
    idpos := h.idpos
    qid := fun e he => h.qid e (sub e he)
    postedId := h.postedId
    postedOrd := h.postedOrd
    postedSorted := h.postedSorted
    ledger := l1
    liveIds := l2
    cover := l3
    qalive := fun e he => h.qalive e (sub e he)
    qresp := fun e he => h.qresp e (sub e he)
    early := h.early
    min := h.min
    fifo := fun d hd e he => h.fifo d hd e (sub e he)
    logfifo := h.logfifo
    noub := h.noub }

theorem InvS.postponeBy {s : SState} (h : InvS s) (p : Ev → Bool) (d : Nat) : InvS (postponeBy ListQ.impl s p d) := by
  unfold Machine.postponeBy
  have e2 : ListQ.impl.postpone s.q p d s.h.nextOrd = some (ListQ.postponeL s.q p d s.h.nextOrd) := rfl
  rw [e2]
  rcases postponeL_cases p (d : Int) s.h.nextOrd s.q with hc | ⟨e, m, h1, _, h3, h4, h5⟩
  · rw [hc]; exact h
  · rcases hx : ListQ.postponeL s.q p (d : Int) s.h.nextOrd with ⟨q', r⟩
    rw [hx] at h3 h5
    simp only at h3 h5
    subst h3
    simp only
    generalize he' : ({ e with due := e.due + (d : Int), ord := s.h.nextOrd } : Ev) = e' at *
    have hid' : e'.id = e.id := by rw [← he']
    have hlis' : e'.lis = e.lis := by rw [← he']
    have htyp' : e'.typ = e.typ := by rw [← he']
    have hord' : e'.ord = s.h.nextOrd := by rw [← he']
    have hsorted : q'.Pairwise lt := by
      have := postponeL_sorted (p := p) (d := (d : Int)) (ord := s.h.nextOrd) (Int.ofNat_nonneg d) h.sorted h.q_ord
      rw [hx] at this; exact this
    have mem' : ∀ x ∈ q', x = e' ∨ x ∈ s.q := by
      intro x hx'
      rcases List.mem_cons.1 (h5.mem_iff.1 hx') with h6 | h6
      · exact Or.inl h6
      · exact Or.inr (h4.mem_iff.2 (List.mem_cons_of_mem _ h6))
    -- the id lists of the old and the new queue are permutations of each other
    have hidperm : (q'.map (·.id)).Perm (s.q.map (·.id)) := by
      have a1 := h5.map (·.id)
      have a2 := h4.map (·.id)
      simp only [List.map_cons, hid'] at a1 a2
      exact a1.trans a2.symm
    have hliveid : ((s.h.log.map (·.ev) ++ s.h.cancelled ++ q').map (·.id)).Perm ((live s).map (·.id)) := by
      simp only [live, List.map_append]
      exact List.Perm.append_left _ hidperm
    exact {
      sorted := hsorted
      idpos := h.idpos
      qid := fun x hx' => by
        rcases mem' x hx' with h6 | h6
        · rw [h6, hid']; exact h.qid e h1
        · exact h.qid x h6
      postedId := fun x hx' => by
        rcases List.mem_cons.1 hx' with h6 | h6
        · rw [h6, hid']; exact (h.qid e h1).2
        · exact h.postedId x h6
      postedOrd := fun x hx' => by
        rcases List.mem_cons.1 hx' with h6 | h6
        · rw [h6, hord']; exact Nat.lt_succ_self _
        · exact Nat.lt_succ_of_lt (h.postedOrd x h6)
      postedSorted := List.pairwise_cons.2 ⟨fun b hb => by rw [hord']; exact h.postedOrd b hb, h.postedSorted⟩
      ledger := by
        show ((e :: s.h.postponed) ++ (s.h.log.map (·.ev) ++ s.h.cancelled ++ q')).Perm (e' :: s.h.posted)
        have a1 : (s.h.log.map (·.ev) ++ s.h.cancelled ++ q').Perm (e' :: (s.h.log.map (·.ev) ++ s.h.cancelled ++ m)) :=
          (List.Perm.append_left _ h5).trans List.perm_middle
        have a2 : (e :: (s.h.log.map (·.ev) ++ s.h.cancelled ++ m)).Perm (live s) :=
          List.perm_middle.symm.trans (List.Perm.append_left _ h4.symm)
        have a3 : ((e :: s.h.postponed) ++ (s.h.log.map (·.ev) ++ s.h.cancelled ++ q')).Perm
            (e' :: (s.h.postponed ++ (e :: (s.h.log.map (·.ev) ++ s.h.cancelled ++ m)))) := by
          refine (List.Perm.append_left _ a1).trans ?_
          refine List.perm_middle.trans (List.Perm.cons _ ?_)
          simpa using (List.perm_middle (a := e) (l₁ := s.h.postponed) (l₂ := s.h.log.map (·.ev) ++ s.h.cancelled ++ m)).symm
        exact a3.trans (List.Perm.cons _ ((List.Perm.append_left _ a2).trans h.ledger))
      liveIds := hliveid.nodup_iff.2 h.liveIds
      cover := fun x hx' => by
        apply hliveid.mem_iff.2
        rcases List.mem_cons.1 hx' with h6 | h6
        · rw [h6, hid']; exact List.mem_map_of_mem (InvS.q_live h1)
        · exact h.cover x h6
      qalive := fun x hx' => by
        rcases mem' x hx' with h6 | h6
        · rw [h6, hlis']; exact h.qalive e h1
        · exact h.qalive x h6
      qresp := fun x hx' => by
        rcases mem' x hx' with h6 | h6
        · rw [h6, htyp']; exact h.qresp e h1
        · exact h.qresp x h6
      early := h.early
      min := h.min
      fifo := fun d0 hd0 x hx' hg hdue => by
        rcases mem' x hx' with h6 | h6
        · rw [h6, hord']; exact h.log_ord d0 hd0
        · exact h.fifo d0 hd0 x h6 hg hdue
      logfifo := h.logfifo
      noub := h.noub }

theorem InvS.act (re : Bool) (s : SState) (a : Act) (h : InvS s) : InvS (applyAct ListQ.impl re s a) := by
  cases a with
  | tick k =>
    exact { h with early := fun d hd => ⟨(h.early d hd).1, (h.early d hd).2.1, Nat.le_trans (h.early d hd).2.2 (Nat.le_add_right _ _)⟩ }
  | post l typ d f =>
    simp only [applyAct]
    split
    · exact h
    · rename_i hal
      split
      · exact h
      · split
        · exact { h with
            idpos := Nat.le_succ_of_le h.idpos
            qid := fun e he => ⟨(h.qid e he).1, Nat.lt_succ_of_lt (h.qid e he).2⟩
            postedId := fun e he => Nat.lt_succ_of_lt (h.postedId e he)
            postedOrd := fun e he => Nat.lt_succ_of_lt (h.postedOrd e he) }
        · rename_i hty
          have hresp : hasResponse typ = true := by
            cases hr : hasResponse typ with
            | true => rfl
            | false => exact absurd (Or.inr hr) hty
          have hal' : l ∈ s.h.alive := by
            by_cases c : l ∈ s.h.alive
            · exact c
            · exact absurd c hal
          generalize hE : (⟨s.h.nextId, l, typ, (s.h.now : Int) + d, f, s.h.nextOrd⟩ : Ev) = E at *
          have hEid : E.id = s.h.nextId := by rw [← hE]
          have hEord : E.ord = s.h.nextOrd := by rw [← hE]
          have hElis : E.lis = l := by rw [← hE]
          have hEtyp : E.typ = typ := by rw [← hE]
          have mem : ∀ x, x ∈ ListQ.postL s.q E → x ∈ s.q ∨ x = E := fun x hx => mem_postL.1 hx
          have hlive : (s.h.log.map (·.ev) ++ s.h.cancelled ++ ListQ.postL s.q E).Perm (E :: live s) :=
            (List.Perm.append_left _ (postL_perm s.q _)).trans List.perm_middle
          exact {
            sorted := postL_sorted h.sorted (fun x hx => by rw [hEord]; exact h.q_ord x hx)
            idpos := Nat.le_succ_of_le h.idpos
            qid := fun e he => by
              rcases mem e he with h1 | h1
              · exact ⟨(h.qid e h1).1, Nat.lt_succ_of_lt (h.qid e h1).2⟩
              · rw [h1, hEid]; exact ⟨h.idpos, Nat.lt_succ_self _⟩
            postedId := fun e he => by
              rcases List.mem_cons.1 he with h1 | h1
              · rw [h1, hEid]; exact Nat.lt_succ_self _
              · exact Nat.lt_succ_of_lt (h.postedId e h1)
            postedOrd := fun e he => by
              rcases List.mem_cons.1 he with h1 | h1
              · rw [h1, hEord]; exact Nat.lt_succ_self _
              · exact Nat.lt_succ_of_lt (h.postedOrd e h1)
            postedSorted := List.pairwise_cons.2 ⟨fun b hb => by rw [hEord]; exact h.postedOrd b hb, h.postedSorted⟩
            ledger := by
              show (s.h.postponed ++ (s.h.log.map (·.ev) ++ s.h.cancelled ++ ListQ.postL s.q E)).Perm (E :: s.h.posted)
              refine (List.Perm.append_left _ hlive).trans ?_
              exact List.perm_middle.trans (List.Perm.cons _ h.ledger)
            liveIds := by
              show ((s.h.log.map (·.ev) ++ s.h.cancelled ++ ListQ.postL s.q E).map (·.id)).Nodup
              rw [(hlive.map (·.id)).nodup_iff, List.map_cons, List.nodup_cons]
              refine ⟨?_, h.liveIds⟩
              intro hm
              obtain ⟨x, hx, hxe⟩ := List.mem_map.1 hm
              have := h.postedId x (h.live_posted hx)
              rw [hEid] at hxe; omega
            cover := fun e he => by
              show e.id ∈ (s.h.log.map (·.ev) ++ s.h.cancelled ++ ListQ.postL s.q E).map (·.id)
              rw [(hlive.map (·.id)).mem_iff, List.map_cons]
              rcases List.mem_cons.1 he with h1 | h1
              · rw [h1]; simp
              · exact List.mem_cons_of_mem _ (h.cover e h1)
            qalive := fun e he => by
              rcases mem e he with h1 | h1
              · exact h.qalive e h1
              · rw [h1, hElis]; exact hal'
            qresp := fun e he => by
              rcases mem e he with h1 | h1
              · exact h.qresp e h1
              · rw [h1, hEtyp]; exact hresp
            early := h.early
            min := h.min
            fifo := fun d0 hd0 e he hg hdue => by
              rcases mem e he with h1 | h1
              · exact h.fifo d0 hd0 e h1 hg hdue
              · rw [h1, hEord]; exact h.log_ord d0 hd0
            logfifo := h.logfifo
            noub := h.noub }
  | cancelType l typ => simp only [applyAct]; split; exact h; exact h.cancelBy _
  | cancelAll l => simp only [applyAct]; split; exact h; exact h.cancelBy _
  | cancelFlag l f => simp only [applyAct]; split; exact h; exact h.cancelBy _
  | destroy l =>
    simp only [applyAct]; split; exact h
    have h1 := h.cancelBy (matchAll l)
    exact { h1 with
      qalive := fun e he => by
        have he' : e ∈ s.q.filter (fun e => !matchAll l e) := he
        obtain ⟨m1, m2⟩ := List.mem_filter.1 he'
        have : e.lis ∈ s.h.alive := h.qalive e m1
        show e.lis ∈ List.filter (fun x => x != l) s.h.alive
        rw [List.mem_filter]
        refine ⟨this, ?_⟩
        simpa [matchAll] using m2 }
  | postpone l typ d => simp only [applyAct]; split; exact h; exact h.postponeBy _ _
  | postponeAll l d => simp only [applyAct]; split; exact h; exact h.postponeBy _ _

theorem InvS.deliver (s : SState) (pre : List Ev) (e : Ev) (rest : List Ev) (t : Int) (g : Bool) (h : InvS s)
    (hq : s.q = pre ++ e :: rest) (hg : g = true → pre = []) (hpre : ∀ x ∈ pre, x.due ≤ t ∧ x.lis ≠ e.lis)
    (hdue : e.due ≤ t) (ht : t ≤ s.h.now) :
    InvS { q := pre ++ rest, h := { s.h with log := ⟨e, t, s.h.now, pre ++ rest, g⟩ :: s.h.log } } := by
  have sub : ∀ x ∈ pre ++ rest, x ∈ s.q := fun x hx => by
    rw [hq]; simp at hx ⊢; rcases hx with h1 | h1 <;> simp [h1]
  have hs := h.sorted
  rw [hq, List.pairwise_append] at hs
  obtain ⟨s1, s2, s3⟩ := hs
  rw [List.pairwise_cons] at s2
  have hsorted : (pre ++ rest).Pairwise lt :=
    List.pairwise_append.2 ⟨s1, s2.2, fun a ha b hb => s3 a ha b (List.mem_cons_of_mem _ hb)⟩
  -- the events after which `e` is the least: those of its listener, or all when the pass is global
  have hmin : ∀ x ∈ pre ++ rest, (g = true ∨ x.lis = e.lis) → lt e x := by
    intro x hx hc
    rcases List.mem_append.1 hx with h1 | h1
    · rcases hc with c | c
      · rw [hg c] at h1; simp at h1
      · exact absurd c (hpre x h1).2
    · exact s2.1 x h1
  have hl : (live ({ q := pre ++ rest, h := { s.h with log := ⟨e, t, s.h.now, pre ++ rest, g⟩ :: s.h.log } } : SState)).Perm (live s) := by
    show ((e :: s.h.log.map (·.ev)) ++ s.h.cancelled ++ (pre ++ rest)).Perm (s.h.log.map (·.ev) ++ s.h.cancelled ++ s.q)
    rw [hq]
    have : (pre ++ e :: rest).Perm (e :: (pre ++ rest)) := List.perm_middle
    refine List.Perm.trans ?_ (List.Perm.append_left _ this.symm)
    simpa [List.append_assoc] using (List.perm_middle (a := e) (l₁ := s.h.log.map (·.ev) ++ s.h.cancelled) (l₂ := pre ++ rest)).symm
  obtain ⟨l1, l2, l3⟩ := h.of_live_perm hl rfl rfl
  exact {
    sorted := hsorted
    idpos := h.idpos
    qid := fun x hx => h.qid x (sub x hx)
    postedId := h.postedId
    postedOrd := h.postedOrd
    postedSorted := h.postedSorted
    ledger := l1
    liveIds := l2
    cover := l3
    qalive := fun x hx => h.qalive x (sub x hx)
    qresp := fun x hx => h.qresp x (sub x hx)
    early := fun d hd => by
      rcases List.mem_cons.1 hd with h1 | h1
      · subst h1; exact ⟨hdue, ht, Nat.le_refl _⟩
      · exact h.early d h1
    min := fun d hd x hx hc => by
      rcases List.mem_cons.1 hd with h1 | h1
      · subst h1; exact hmin x hx hc
      · exact h.min d h1 x hx hc
    fifo := fun d hd x hx hc hdx => by
      rcases List.mem_cons.1 hd with h1 | h1
      · subst h1
        rcases hmin x hx hc with c | c
        · exact absurd hdx (by show e.due ≠ x.due; omega)
        · exact c.2
      · exact h.fifo d h1 x (sub x hx) hc hdx
    logfifo := List.pairwise_cons.2 ⟨fun d hd hc hdx => h.fifo d hd e (by rw [hq]; simp) hc hdx, h.logfifo⟩
    noub := h.noub }

theorem InvS.clear (s : SState) (h : InvS s) : InvS (clearAll ListQ.impl s) :=
  h.cancelBy (fun _ => true)

theorem InvS.preserved : Preserved (fun _ => True) True InvS where
  act := fun re s a _ h => h.act re s a
  deliver := fun s pre e rest t g h hq hg _ hpre hdue ht => h.deliver s pre e rest t g hq hg hpre hdue ht
  newl := fun _ _ h _ _ => { h with qalive := fun e he => List.mem_cons_of_mem _ (h.qalive e he) }
  handler := fun _ _ _ _ _ h => { h with }
  clear := fun s h => h.clear s
  table := fun _ _ _ _ _ _ => trivial

theorem InvS.init (b : Nat) : InvS (Machine.init ListQ.impl b) := by
  constructor <;> simp [Machine.init, ListQ.impl, live]

/-! ### the extra invariant of histories whose delays are all non-negative and that make no per-listener pass -/

structure InvN (s : SState) : Prop where
  hn : ∀ x ∈ s.h.handlers, ∀ a ∈ x.2.2, Act.nonneg a
  logle : ∀ d ∈ s.h.log, d.ev.due ≤ s.h.now
  logq : ∀ d ∈ s.h.log, ∀ e ∈ s.q, lt d.ev e
  logsorted : s.h.log.Pairwise (fun later earlier => lt earlier.ev later.ev)

theorem lookup_mem {hs : List (Nat × Nat × List Act)} {l t : Nat} {a : Act} (h : a ∈ lookup hs l t) :
    ∃ x ∈ hs, a ∈ x.2.2 := by
  unfold lookup at h
  split at h
  · rename_i x hx
    exact ⟨x, List.mem_of_find?_eq_some hx, h⟩
  · simp at h

theorem InvN.cancelBy {s : SState} (h : InvN s) (p : Ev → Bool) : InvN (cancelBy ListQ.impl s p) :=
  { hn := h.hn, logle := h.logle, logsorted := h.logsorted
    logq := fun d hd e he => h.logq d hd e (by
      have : e ∈ s.q.filter (fun e => !p e) := he
      exact (List.mem_filter.1 this).1) }

theorem InvN.postponeBy {s : SState} (hs : InvS s) (h : InvN s) (p : Ev → Bool) (d : Nat) :
    InvN (postponeBy ListQ.impl s p d) := by
  unfold Machine.postponeBy
  have e2 : ListQ.impl.postpone s.q p d s.h.nextOrd = some (ListQ.postponeL s.q p d s.h.nextOrd) := rfl
  rw [e2]
  rcases postponeL_cases p (d : Int) s.h.nextOrd s.q with hc | ⟨e, m, h1, _, h3, h4, h5⟩
  · rw [hc]; exact h
  · rcases hx : ListQ.postponeL s.q p (d : Int) s.h.nextOrd with ⟨q', r⟩
    rw [hx] at h3 h5
    simp only at h3 h5
    subst h3
    simp only
    exact {
      hn := h.hn, logle := h.logle, logsorted := h.logsorted
      logq := fun d0 hd0 x hx' => by
        rcases List.mem_cons.1 (h5.mem_iff.1 hx') with h6 | h6
        · have a1 := h.logq d0 hd0 e h1
          have a2 := hs.log_ord d0 hd0
          subst h6
          unfold lt at a1 ⊢
          show d0.ev.due < e.due + (d : Int) ∨ d0.ev.due = e.due + (d : Int) ∧ d0.ev.ord < s.h.nextOrd
          omega
        · exact h.logq d0 hd0 x (h4.mem_iff.2 (List.mem_cons_of_mem _ h6)) }

theorem InvN.act (re : Bool) (s : SState) (a : Act) (ha : Act.nonneg a) (hs : InvS s) (h : InvN s) :
    InvN (applyAct ListQ.impl re s a) := by
  cases a with
  | tick k => exact { h with logle := fun d hd => Int.le_trans (h.logle d hd) (Int.ofNat_le.2 (Nat.le_add_right _ _)) }
  | post l typ d f =>
    simp only [applyAct]
    split
    · exact h
    · split
      · exact h
      · split
        · exact { h with }
        · exact { h with
            logq := fun d0 hd0 e he => by
              rcases mem_postL.1 he with h1 | h1
              · exact h.logq d0 hd0 e h1
              · subst h1
                have h2 := h.logle d0 hd0
                have h3 := hs.log_ord d0 hd0
                have h4 : (0 : Int) ≤ d := ha
                unfold lt
                show d0.ev.due < (s.h.now : Int) + d ∨ d0.ev.due = (s.h.now : Int) + d ∧ d0.ev.ord < s.h.nextOrd
                omega }
  | cancelType l typ => simp only [applyAct]; split; exact h; exact h.cancelBy _
  | cancelAll l => simp only [applyAct]; split; exact h; exact h.cancelBy _
  | cancelFlag l f => simp only [applyAct]; split; exact h; exact h.cancelBy _
  | destroy l =>
    simp only [applyAct]; split; exact h
    have h1 := h.cancelBy (matchAll l)
    exact { h1 with }
  | postpone l typ d => simp only [applyAct]; split; exact h; exact h.postponeBy hs _ _
  | postponeAll l d => simp only [applyAct]; split; exact h; exact h.postponeBy hs _ _

theorem InvN.preserved : Preserved Act.nonneg False (fun s => InvS s ∧ InvN s) where
  act := fun re s a ha h => ⟨h.1.act re s a, h.2.act re s a ha h.1⟩
  deliver := fun s pre e rest t g h hq hg hL hpre hdue ht => by
    refine ⟨h.1.deliver s pre e rest t g hq hg hpre hdue ht, ?_⟩
    have hgt : g = true := by
      cases g with
      | true => rfl
      | false => exact (hL rfl).elim
    have hp0 : pre = [] := hg hgt
    subst hp0
    have hs := h.1.sorted
    rw [hq] at hs
    simp only [List.nil_append, List.pairwise_cons] at hs
    exact {
      hn := h.2.hn
      logle := fun d hd => by
        rcases List.mem_cons.1 hd with h1 | h1
        · subst h1; exact Int.le_trans hdue ht
        · exact h.2.logle d h1
      logq := fun d hd x hx => by
        rcases List.mem_cons.1 hd with h1 | h1
        · subst h1; exact hs.1 x (by simpa using hx)
        · exact h.2.logq d h1 x (by rw [hq]; simp at hx ⊢; exact Or.inr hx)
      logsorted := List.pairwise_cons.2 ⟨fun d hd => h.2.logq d hd e (by rw [hq]; simp), h.2.logsorted⟩ }
  newl := fun _ _ h _ _ => ⟨InvS.preserved.newl _ _ h.1 ‹_› ‹_›, { h.2 with }⟩
  handler := fun s l t acts ha h => by
    refine ⟨InvS.preserved.handler _ l t acts (fun _ _ => trivial) h.1, ?_⟩
    have hn' : ∀ x ∈ (l, t, acts) :: s.h.handlers, ∀ a ∈ x.2.2, Act.nonneg a := by
      intro x hx
      rcases List.mem_cons.1 hx with h1 | h1
      · subst h1; exact ha
      · exact h.2.hn x h1
    exact { hn := hn', logle := h.2.logle, logq := h.2.logq, logsorted := h.2.logsorted }
  clear := fun s h => ⟨h.1.clear s, h.2.cancelBy _⟩
  table := fun _ h l t a ha => by
    obtain ⟨x, hx, hax⟩ := lookup_mem ha
    exact h.2.hn x hx a hax

theorem InvN.init (b : Nat) : InvN (Machine.init ListQ.impl b) := by
  constructor <;> simp [Machine.init, ListQ.impl]

/-! ## Part 4: a pass terminates and leaves nothing that is due -/

def mu (s : SState) : Nat := s.q.length + s.h.budget

theorem mu_cancelBy (s : SState) (p : Ev → Bool) : mu (cancelBy ListQ.impl s p) ≤ mu s := by
  unfold mu
  have : (Machine.cancelBy ListQ.impl s p).q.length ≤ s.q.length := List.length_filter_le _ _
  exact Nat.add_le_add_right this _

theorem mu_postponeBy (s : SState) (p : Ev → Bool) (d : Nat) : mu (postponeBy ListQ.impl s p d) ≤ mu s := by
  unfold mu
  rw [(postponeBy_host ListQ.impl s p d).2.2.2.1]
  have : (postponeBy ListQ.impl s p d).q.length = s.q.length := by
    unfold Machine.postponeBy
    have e2 : ListQ.impl.postpone s.q p d s.h.nextOrd = some (ListQ.postponeL s.q p d s.h.nextOrd) := rfl
    rw [e2]
    have := postponeL_length p (d : Int) s.h.nextOrd s.q
    rcases hx : ListQ.postponeL s.q p (d : Int) s.h.nextOrd with ⟨q', _ | ⟨e, e'⟩⟩ <;> (rw [hx] at this; exact this)
  omega

theorem mu_applyAct (s : SState) (a : Act) : mu (applyAct ListQ.impl true s a) ≤ mu s := by
  cases a with
  | tick k => exact Nat.le_refl _
  | post l typ d f =>
    simp only [applyAct]
    split
    · exact Nat.le_refl _
    · split
      · exact Nat.le_refl _
      · rename_i hb
        have hb' : s.h.budget ≠ 0 := fun e => hb (by simp [e])
        split
        · unfold mu; simp only [if_true]; omega
        · unfold mu
          show (ListQ.postL s.q _).length + (if true = true then s.h.budget - 1 else s.h.budget) ≤ _
          rw [postL_length]; simp only [if_true]; omega
  | cancelType l typ => simp only [applyAct]; split; exact Nat.le_refl _; exact mu_cancelBy _ _
  | cancelAll l => simp only [applyAct]; split; exact Nat.le_refl _; exact mu_cancelBy _ _
  | cancelFlag l f => simp only [applyAct]; split; exact Nat.le_refl _; exact mu_cancelBy _ _
  | destroy l => simp only [applyAct]; split; exact Nat.le_refl _; exact mu_cancelBy _ _
  | postpone l typ d => simp only [applyAct]; split; exact Nat.le_refl _; exact mu_postponeBy _ _ _
  | postponeAll l d => simp only [applyAct]; split; exact Nat.le_refl _; exact mu_postponeBy _ _ _

theorem mu_foldl : ∀ (acts : List Act) (s : SState), mu (acts.foldl (applyAct ListQ.impl true) s) ≤ mu s
  | [], _ => Nat.le_refl _
  | a :: acts, s => Nat.le_trans (mu_foldl acts _) (mu_applyAct s a)

/-- with more fuel than `mu`, the loop ends because its test fails, not because the fuel ran out -/
theorem processLoop_done (t : Int) : ∀ (fuel : Nat) (s : SState), mu s < fuel →
    ListQ.popDueL (processLoop ListQ.impl fuel t s).q t = none
  | 0, _, h => by omega
  | fuel + 1, s, h => by
    simp only [processLoop]
    have e2 : ListQ.impl.popDue s.q t = ListQ.popDueL s.q t := rfl
    rw [e2]
    cases hq : ListQ.popDueL s.q t with
    | none => exact hq
    | some x =>
      obtain ⟨e, q'⟩ := x
      obtain ⟨h1, _⟩ := popDueL_some hq
      simp only
      have key : ∀ s1 : SState, mu s1 + 1 = mu s → mu (runHandler ListQ.impl s1 e) < fuel := by
        intro s1 h3
        have := mu_foldl (lookup s1.h.handlers e.lis e.typ) s1
        unfold runHandler; omega
      apply processLoop_done t fuel
      apply key
      simp only [mu, h1, List.length_cons]; omega

theorem processLoopL_done (l : Nat) (t : Int) : ∀ (fuel : Nat) (s : SState), mu s < fuel →
    ListQ.popDueOfL (processLoopL ListQ.impl l fuel t s).q l t = none
  | 0, _, h => by omega
  | fuel + 1, s, h => by
    simp only [processLoopL]
    have e2 : ListQ.impl.popDueOf s.q l t = ListQ.popDueOfL s.q l t := rfl
    rw [e2]
    cases hq : ListQ.popDueOfL s.q l t with
    | none => exact hq
    | some x =>
      obtain ⟨e, q'⟩ := x
      obtain ⟨pre, rest, h1, h2, _, _, _⟩ := popDueOfL_some hq
      simp only
      have key : ∀ s1 : SState, mu s1 + 1 = mu s → mu (runHandler ListQ.impl s1 e) < fuel := by
        intro s1 h3
        have := mu_foldl (lookup s1.h.handlers e.lis e.typ) s1
        unfold runHandler; omega
      apply processLoopL_done l t fuel
      apply key
      simp only [mu, h1, h2, List.length_append, List.length_cons]; omega

theorem not_late_spec {s : SState} (h : InvS s) :
    ∀ e ∈ (process ListQ.impl s).q, (s.h.now : Int) < e.due := by
  have hinv : InvS (process ListQ.impl s) := InvS.preserved.processLoop _ _ s h (Int.le_refl _)
  have hdone : ListQ.popDueL (process ListQ.impl s).q (s.h.now : Int) = none :=
    processLoop_done _ _ s (by unfold passFuel mu; show s.q.length + s.h.budget < s.q.length + s.h.budget + 1; omega)
  intro e he
  cases hq : (process ListQ.impl s).q with
  | nil => rw [hq] at he; simp at he
  | cons a r =>
    rw [hq] at hdone he
    have hs := hinv.sorted
    rw [hq, List.pairwise_cons] at hs
    simp only [ListQ.popDueL] at hdone
    split at hdone
    · rename_i hgt
      rcases List.mem_cons.1 he with rfl | he'
      · omega
      · have := lt_due_le (hs.1 e he'); omega
    · cases hdone

/-- in a due-sorted list, when the per-listener walk finds nothing, no event of the listener is due -/
theorem popDueOfL_none {l : Nat} {t : Int} : ∀ {q : List Ev}, q.Pairwise (fun a b => a.due ≤ b.due) →
    ListQ.popDueOfL q l t = none → ∀ e ∈ q, e.lis = l → t < e.due
  | [], _, _, e, he, _ => by simp at he
  | a :: r, hs, hn, e, he, hl => by
    rw [List.pairwise_cons] at hs
    simp only [ListQ.popDueOfL] at hn
    split at hn
    · rename_i hgt
      rcases List.mem_cons.1 he with rfl | he'
      · omega
      · have := hs.1 e he'; omega
    · split at hn
      · rename_i hal
        rcases List.mem_cons.1 he with rfl | he'
        · exact absurd hl hal
        · cases hr : ListQ.popDueOfL r l t with
          | none => exact popDueOfL_none hs.2 hr e he' hl
          | some x => rw [hr] at hn; cases hn
      · cases hn

theorem not_late_specL {s : SState} (h : InvS s) (l : Nat) :
    ∀ e ∈ (processL ListQ.impl l s).q, e.lis = l → (s.h.now : Int) < e.due := by
  have hinv : InvS (processL ListQ.impl l s) := InvS.preserved.processLoopL trivial l _ _ s h (Int.le_refl _)
  have hdone : ListQ.popDueOfL (processL ListQ.impl l s).q l (s.h.now : Int) = none :=
    processLoopL_done l _ _ s (by unfold passFuel mu; show s.q.length + s.h.budget < s.q.length + s.h.budget + 1; omega)
  exact popDueOfL_none (hinv.sorted.imp lt_due_le) hdone

/-! ### what a pass appends to the log; ledgers only grow (generic in the queue implementation) -/

section generic
variable {Q : Type} (I : QImpl Q)

theorem log_applyAct (re : Bool) (s : MState Q) (a : Act) : (applyAct I re s a).h.log = s.h.log := by
  cases a <;> simp only [applyAct, Machine.cancelBy]
  case post l typ d f => split; rfl; split; rfl; split <;> rfl
  case postpone l typ d => split; rfl; exact (postponeBy_host I s _ _).2.1
  case postponeAll l d => split; rfl; exact (postponeBy_host I s _ _).2.1
  all_goals (split <;> rfl)

theorem log_foldl (re : Bool) : ∀ (acts : List Act) (s : MState Q), (acts.foldl (applyAct I re) s).h.log = s.h.log
  | [], _ => rfl
  | a :: acts, s => by simp only [List.foldl_cons]; rw [log_foldl re acts, log_applyAct]

theorem now_applyAct' (re : Bool) (s : MState Q) (a : Act) : s.h.now ≤ (applyAct I re s a).h.now := by
  cases a <;> simp only [applyAct, Machine.cancelBy]
  case tick k => exact Nat.le_add_right _ _
  case post l typ d f => split; exact Nat.le_refl _; split; exact Nat.le_refl _; split <;> exact Nat.le_refl _
  case postpone l typ d => split; exact Nat.le_refl _; rw [(postponeBy_host I s _ _).1]; exact Nat.le_refl _
  case postponeAll l d => split; exact Nat.le_refl _; rw [(postponeBy_host I s _ _).1]; exact Nat.le_refl _
  all_goals (split <;> exact Nat.le_refl _)

/-- every record a pass adds carries the pass time `t` (and the kind of pass) -/
theorem processLoop_log (t : Int) : ∀ (fuel : Nat) (s : MState Q),
    ∃ new, (processLoop I fuel t s).h.log = new ++ s.h.log ∧ ∀ d ∈ new, d.passT = t ∧ d.glob = true
  | 0, s => ⟨[], rfl, by simp⟩
  | fuel + 1, s => by
    simp only [processLoop]
    cases hq : I.popDue s.q t with
    | none => exact ⟨[], rfl, by simp⟩
    | some x =>
      obtain ⟨e, q'⟩ := x
      simp only
      obtain ⟨new, h1, h2⟩ := processLoop_log t fuel (runHandler I
        { q := q', h := { s.h with log := ⟨e, t, s.h.now, I.toList q', true⟩ :: s.h.log } } e)
      refine ⟨new ++ [⟨e, t, s.h.now, I.toList q', true⟩], ?_, ?_⟩
      · rw [h1]; unfold runHandler; rw [log_foldl]; simp
      · intro d hd
        rcases List.mem_append.1 hd with h3 | h3
        · exact h2 d h3
        · simp at h3; subst h3; exact ⟨rfl, rfl⟩

theorem processLoopL_log (l : Nat) (t : Int) : ∀ (fuel : Nat) (s : MState Q),
    ∃ new, (processLoopL I l fuel t s).h.log = new ++ s.h.log ∧ ∀ d ∈ new, d.passT = t ∧ d.glob = false
  | 0, s => ⟨[], rfl, by simp⟩
  | fuel + 1, s => by
    simp only [processLoopL]
    cases hq : I.popDueOf s.q l t with
    | none => exact ⟨[], rfl, by simp⟩
    | some x =>
      obtain ⟨e, q'⟩ := x
      simp only
      obtain ⟨new, h1, h2⟩ := processLoopL_log l t fuel (runHandler I
        { q := q', h := { s.h with log := ⟨e, t, s.h.now, I.toList q', false⟩ :: s.h.log } } e)
      refine ⟨new ++ [⟨e, t, s.h.now, I.toList q', false⟩], ?_, ?_⟩
      · rw [h1]; unfold runHandler; rw [log_foldl]; simp
      · intro d hd
        rcases List.mem_append.1 hd with h3 | h3
        · exact h2 d h3
        · simp at h3; subst h3; exact ⟨rfl, rfl⟩

/-- the ghost ledgers only grow -/
def Grows (h h' : Host) : Prop :=
  (∀ e ∈ h.cancelled, e ∈ h'.cancelled) ∧ (∀ e ∈ h.posted, e ∈ h'.posted) ∧ (∀ e ∈ h.postponed, e ∈ h'.postponed)

theorem Grows.refl (h : Host) : Grows h h := ⟨fun _ he => he, fun _ he => he, fun _ he => he⟩
theorem Grows.trans {h1 h2 h3 : Host} (a : Grows h1 h2) (b : Grows h2 h3) : Grows h1 h3 :=
  ⟨fun e he => b.1 e (a.1 e he), fun e he => b.2.1 e (a.2.1 e he), fun e he => b.2.2 e (a.2.2 e he)⟩

theorem grows_postponeBy (s : MState Q) (p : Ev → Bool) (d : Nat) : Grows s.h (postponeBy I s p d).h := by
  unfold postponeBy
  split
  · exact Grows.refl _
  · exact Grows.refl _
  · exact ⟨fun _ he => he, fun _ he => List.mem_cons_of_mem _ he, fun _ he => List.mem_cons_of_mem _ he⟩

theorem grows_applyAct (re : Bool) (s : MState Q) (a : Act) : Grows s.h (applyAct I re s a).h := by
  cases a <;> simp only [applyAct, Machine.cancelBy]
  case tick k => exact Grows.refl _
  case post l typ d f =>
    split; exact Grows.refl _; split; exact Grows.refl _; split; exact Grows.refl _
    exact ⟨fun _ he => he, fun _ he => List.mem_cons_of_mem _ he, fun _ he => he⟩
  case postpone l typ d => split; exact Grows.refl _; exact grows_postponeBy I s _ _
  case postponeAll l d => split; exact Grows.refl _; exact grows_postponeBy I s _ _
  all_goals (split; exact Grows.refl _; exact ⟨fun _ he => List.mem_append_right _ he, fun _ he => he, fun _ he => he⟩)

theorem grows_foldl (re : Bool) : ∀ (acts : List Act) (s : MState Q), Grows s.h (acts.foldl (applyAct I re) s).h
  | [], _ => Grows.refl _
  | a :: acts, s => (grows_applyAct I re s a).trans (grows_foldl re acts _)

theorem grows_processLoop (t : Int) : ∀ (fuel : Nat) (s : MState Q), Grows s.h (processLoop I fuel t s).h
  | 0, _ => Grows.refl _
  | fuel + 1, s => by
    simp only [processLoop]
    cases hq : I.popDue s.q t with
    | none => exact Grows.refl _
    | some x =>
      obtain ⟨e', q'⟩ := x
      simp only
      let s1 : MState Q := { q := q', h := { s.h with log := ⟨e', t, s.h.now, I.toList q', true⟩ :: s.h.log } }
      have g1 : Grows s.h s1.h := ⟨fun _ he => he, fun _ he => he, fun _ he => he⟩
      have g2 : Grows s1.h (runHandler I s1 e').h := grows_foldl I true _ s1
      exact g1.trans (g2.trans (grows_processLoop t fuel (runHandler I s1 e')))

theorem grows_processLoopL (l : Nat) (t : Int) : ∀ (fuel : Nat) (s : MState Q), Grows s.h (processLoopL I l fuel t s).h
  | 0, _ => Grows.refl _
  | fuel + 1, s => by
    simp only [processLoopL]
    cases hq : I.popDueOf s.q l t with
    | none => exact Grows.refl _
    | some x =>
      obtain ⟨e', q'⟩ := x
      simp only
      let s1 : MState Q := { q := q', h := { s.h with log := ⟨e', t, s.h.now, I.toList q', false⟩ :: s.h.log } }
      have g1 : Grows s.h s1.h := ⟨fun _ he => he, fun _ he => he, fun _ he => he⟩
      have g2 : Grows s1.h (runHandler I s1 e').h := grows_foldl I true _ s1
      exact g1.trans (g2.trans (grows_processLoopL l t fuel (runHandler I s1 e')))

theorem grows_step {s s' : MState Q} {op : Op} (hs : Machine.step I s op = some s') : Grows s.h s'.h := by
  cases op with
  | act a =>
    simp only [Machine.step] at hs
    split at hs
    · cases hs; exact grows_applyAct I false s a
    · cases hs
  | newl l =>
    simp only [Machine.step] at hs
    split at hs
    · cases hs; exact Grows.refl _
    · cases hs
  | handler l t acts => simp only [Machine.step] at hs; cases hs; exact Grows.refl _
  | process => simp only [Machine.step] at hs; cases hs; exact grows_processLoop I _ _ s
  | processL l =>
    simp only [Machine.step] at hs
    split at hs
    · cases hs; exact grows_processLoopL I l _ _ s
    · cases hs
  | clear =>
    simp only [Machine.step] at hs; cases hs
    exact ⟨fun _ he => List.mem_append_right _ he, fun _ he => he, fun _ he => he⟩
  | saveLoad =>
    simp only [Machine.step] at hs; cases hs
    unfold saveLoad
    split <;> exact Grows.refl _

theorem grows_run : ∀ (ops : List Op) {s s' : MState Q}, Machine.run I s ops = some s' → Grows s.h s'.h
  | [], _, _, hs => by cases hs; exact Grows.refl _
  | op :: ops, s, s', hs => by
    simp only [Machine.run] at hs
    split at hs
    · cases hs
    cases h1 : Machine.step I s op with
    | none => rw [h1] at hs; cases hs
    | some s1 =>
      rw [h1] at hs
      exact (grows_step I h1).trans (grows_run ops hs)

theorem run_append : ∀ (ops1 ops2 : List Op) (s : MState Q),
    Machine.run I s (ops1 ++ ops2) = (Machine.run I s ops1).bind (Machine.run I · ops2)
  | [], _, _ => rfl
  | op :: ops1, ops2, s => by
    simp only [List.cons_append, Machine.run]
    split
    · rfl
    cases Machine.step I s op with
    | none => rfl
    | some s1 => simp only [Option.bind_some]; exact run_append ops1 ops2 s1

end generic

/-! ## Part 5: transfer along the refinement -/

def SReach (ss : SState) : Prop := ∃ b ops, Machine.run ListQ.impl (Machine.init ListQ.impl b) ops = some ss

theorem sat_true (op : Op) : Op.sat (fun _ => True) True op := by
  cases op <;> simp [Op.sat]

theorem SReach.inv {ss : SState} (h : SReach ss) : InvS ss := by
  obtain ⟨b, ops, hr⟩ := h
  exact InvS.preserved.run ops (fun op _ => sat_true op) (InvS.init b) hr

theorem InvS.fresh {ss : SState} (h : InvS ss) : Fresh ss := ⟨h.idpos, h.qid⟩

theorem reachable_spec {s : State} (h : Reachable s) : ∃ ss, SReach ss ∧ RelS s ss := by
  obtain ⟨b, ops, hr⟩ := h
  have := rel_run ops (rel_init b).1 (rel_init b).2
  unfold run at hr
  rw [hr] at this
  cases hb : Machine.run ListQ.impl (Machine.init ListQ.impl b) ops with
  | none => rw [hb] at this; exact this.elim
  | some ss => rw [hb] at this; exact ⟨ss, ⟨b, ops, hb⟩, this.1⟩

/-- the converse direction: a history accepted by the specification is accepted by the link-level model -/
theorem reachable_of_spec {b : Nat} {ops : List Op} {ss : SState}
    (h : Machine.run ListQ.impl (Machine.init ListQ.impl b) ops = some ss) :
    ∃ s, run (init b) ops = some s ∧ pending s = ss.q ∧ s.h = ss.h := by
  have := rel_run ops (rel_init b).1 (rel_init b).2
  rw [h] at this
  cases ha : Machine.run LQ.impl (init b) ops with
  | none => rw [ha] at this; exact this.elim
  | some s => rw [ha] at this; exact ⟨s, ha, this.1.1.toList, this.1.2⟩

theorem step_transfer {s s' : State} {op : Op} (h : Reachable s) (hs : step s op = some s') :
    ∃ ss ss', InvS ss ∧ RelS s ss ∧ Machine.step ListQ.impl ss op = some ss' ∧ RelS s' ss' ∧ InvS ss' := by
  obtain ⟨ss, hreach, hrel⟩ := reachable_spec h
  have hinv := hreach.inv
  have := rel_step op hrel hinv.fresh
  unfold step at hs
  rw [hs] at this
  cases hb : Machine.step ListQ.impl ss op with
  | none => rw [hb] at this; exact this.elim
  | some ss' =>
    rw [hb] at this
    exact ⟨ss, ss', hinv, hrel, hb, this.1, InvS.preserved.step (sat_true op) hinv hb⟩

theorem reachable_step {s s' : State} {ops : List Op} (h : Reachable s) (hs : run s ops = some s') : Reachable s' := by
  obtain ⟨b, ops0, hr⟩ := h
  refine ⟨b, ops0 ++ ops, ?_⟩
  unfold run at hr hs ⊢
  rw [run_append, hr]; exact hs

/-- shared shape of the three cancel operations and of destruction -/
theorem cancel_transfer {s s' : State} {a : Act} {l : Nat} {p : Ev → Bool} (h : Reachable s)
    (hs : step s (.act a) = some s')
    (hl : ∀ hh : Host, Act.legalTop hh a = decide (l ∈ hh.alive))
    (ha : ∀ ss : SState, l ∈ ss.h.alive → (applyAct ListQ.impl false ss a).q = (cancelBy ListQ.impl ss p).q ∧
      (applyAct ListQ.impl false ss a).h.log = ss.h.log ∧
      (applyAct ListQ.impl false ss a).h.cancelled = (cancelBy ListQ.impl ss p).h.cancelled ∧
      (applyAct ListQ.impl false ss a).h.posted = ss.h.posted) :
    pending s' = (pending s).filter (fun e => !p e) ∧ s'.h.log = s.h.log ∧
    s'.h.cancelled = ((pending s).filter p).reverse ++ s.h.cancelled ∧ s'.h.posted = s.h.posted := by
  obtain ⟨ss, ss', hinv, hrel, hstep, hrel', _⟩ := step_transfer h hs
  simp only [Machine.step] at hstep
  split at hstep
  · rename_i hlt
    have hal : l ∈ ss.h.alive := by rw [hl] at hlt; simpa using hlt
    cases hstep
    obtain ⟨a1, a2, a3, a4⟩ := ha ss hal
    simp only [pending]
    rw [hrel'.1.toList, hrel.1.toList, hrel'.2, hrel.2, a1, a2, a3, a4]
    exact ⟨rfl, rfl, rfl, rfl⟩
  · cases hstep

/-! ## Part 6: list-level reading of a postponement; stamps and posting order -/

/-- on a due-sorted queue a postponement by a non-negative amount is: take the first match out, give it the
    later due time and the new stamp, and put it back by the insertion rule of `PostEvent` -/
theorem postponeL_eq_insL {p : Ev → Bool} {d : Int} {ord : Nat} (hd : 0 ≤ d) : ∀ {l : List Ev},
    l.Pairwise (fun a b => a.due ≤ b.due) →
    ListQ.postponeL l p d ord =
      match l.find? p with
      | none => (l, none)
      | some e => (ListQ.insL (l.erase e) { e with due := e.due + d, ord := ord },
                   some (e, { e with due := e.due + d, ord := ord }))
  | [], _ => rfl
  | a :: r, hs => by
    rw [List.pairwise_cons] at hs
    by_cases hp : p a = true
    · simp [ListQ.postponeL, hp, List.find?_cons]
    · have hp' : p a = false := by simpa using hp
      simp only [ListQ.postponeL, hp', Bool.false_eq_true, if_false, List.find?_cons]
      rw [postponeL_eq_insL hd hs.2]
      cases hf : r.find? p with
      | none => rfl
      | some e =>
        have hpe : p e = true := List.find?_some hf
        have hmem : e ∈ r := List.mem_of_find?_eq_some hf
        have hne : a ≠ e := fun h => by rw [h] at hp'; rw [hp'] at hpe; cases hpe
        have hle : ListQ.leDue (e.due + d) a = true := by
          have := hs.1 e hmem
          simp [ListQ.leDue]; omega
        simp only
        have her : (a :: r).erase e = a :: r.erase e := by
          rw [List.erase_cons]; simp [hne]
        rw [her]
        simp [ListQ.insL, List.takeWhile_cons, List.dropWhile_cons, hle]

/-- no action of the history (top level or in a handler) is a postponement -/
def Act.noPostpone : Act → Prop
  | .postpone .. | .postponeAll .. => False
  | _ => True

/-- without postponements the enqueue stamp of every event is its posting sequence number -/
structure InvO (s : SState) : Prop where
  hn : ∀ x ∈ s.h.handlers, ∀ a ∈ x.2.2, Act.noPostpone a
  cnt : s.h.nextOrd = s.h.nextId
  ordid : ∀ e ∈ s.h.posted, e.ord = e.id

theorem InvO.preserved : Preserved Act.noPostpone True InvO where
  act := fun re s a ha h => by
    cases a with
    | tick k => exact { h with }
    | post l typ d f =>
      simp only [applyAct]
      split
      · exact h
      · split
        · exact h
        · split
          · exact { hn := h.hn, cnt := by show s.h.nextOrd + 1 = s.h.nextId + 1; rw [h.cnt], ordid := h.ordid }
          · exact { hn := h.hn, cnt := by show s.h.nextOrd + 1 = s.h.nextId + 1; rw [h.cnt]
                    ordid := fun e he => by
                      rcases List.mem_cons.1 he with h1 | h1
                      · rw [h1]; exact h.cnt
                      · exact h.ordid e h1 }
    | cancelType l typ => simp only [applyAct]; split; exact h; exact { h with }
    | cancelAll l => simp only [applyAct]; split; exact h; exact { h with }
    | cancelFlag l f => simp only [applyAct]; split; exact h; exact { h with }
    | destroy l => simp only [applyAct]; split; exact h; exact { h with }
    | postpone l typ d => exact ha.elim
    | postponeAll l d => exact ha.elim
  deliver := fun _ _ _ _ _ _ h _ _ _ _ _ _ => { h with }
  newl := fun _ _ h _ _ => { h with }
  handler := fun s l t acts ha h => by
    refine { h with hn := ?_ }
    intro x hx
    rcases List.mem_cons.1 hx with h1 | h1
    · subst h1; exact ha
    · exact h.hn x h1
  clear := fun _ h => { h with }
  table := fun _ h l t a ha => by
    obtain ⟨x, hx, hax⟩ := lookup_mem ha
    exact h.hn x hx a hax

theorem InvO.init (b : Nat) : InvO (Machine.init ListQ.impl b) := by
  constructor <;> simp [Machine.init, ListQ.impl]

/-! ## Part 7: more transfer helpers -/

/-- every record a per-listener pass adds is a delivery to that listener -/
theorem processLoopL_lis (l : Nat) (t : Int) : ∀ (fuel : Nat) (s : SState),
    ∃ new, (processLoopL ListQ.impl l fuel t s).h.log = new ++ s.h.log ∧
      ∀ d ∈ new, d.passT = t ∧ d.glob = false ∧ d.ev.lis = l
  | 0, s => ⟨[], rfl, by simp⟩
  | fuel + 1, s => by
    simp only [processLoopL]
    have e2 : ListQ.impl.popDueOf s.q l t = ListQ.popDueOfL s.q l t := rfl
    rw [e2]
    cases hq : ListQ.popDueOfL s.q l t with
    | none => exact ⟨[], rfl, by simp⟩
    | some x =>
      obtain ⟨e, q'⟩ := x
      obtain ⟨_, _, _, _, h3, _, _⟩ := popDueOfL_some hq
      simp only
      obtain ⟨new, h1, h2⟩ := processLoopL_lis l t fuel (runHandler ListQ.impl
        { q := q', h := { s.h with log := ⟨e, t, s.h.now, ListQ.impl.toList q', false⟩ :: s.h.log } } e)
      refine ⟨new ++ [⟨e, t, s.h.now, ListQ.impl.toList q', false⟩], ?_, ?_⟩
      · rw [h1]; unfold runHandler; rw [log_foldl]; simp
      · intro d hd
        rcases List.mem_append.1 hd with h4 | h4
        · exact h2 d h4
        · simp at h4; subst h4; exact ⟨rfl, rfl, h3⟩

/-- shared shape of `PostponeEvent` and `PostponeAllEvents` -/
theorem postpone_transfer {s s' : State} {a : Act} {l d : Nat} {p : Ev → Bool} (h : Reachable s)
    (hs : step s (.act a) = some s')
    (hl : ∀ hh : Host, Act.legalTop hh a = decide (l ∈ hh.alive))
    (ha : ∀ ss : SState, l ∈ ss.h.alive → applyAct ListQ.impl false ss a = postponeBy ListQ.impl ss p d) :
    match (pending s).find? p with
    | none => pending s' = pending s ∧ s'.h = s.h
    | some e =>
      pending s' = ListQ.insL ((pending s).erase e) { e with due := e.due + (d : Int), ord := s.h.nextOrd } ∧
      s'.h = { s.h with nextOrd := s.h.nextOrd + 1, postponed := e :: s.h.postponed,
                        posted := { e with due := e.due + (d : Int), ord := s.h.nextOrd } :: s.h.posted } := by
  obtain ⟨ss, ss', hinv, hrel, hstep, hrel', _⟩ := step_transfer h hs
  simp only [Machine.step] at hstep
  split at hstep
  · rename_i hlt
    have hal : l ∈ ss.h.alive := by rw [hl] at hlt; simpa using hlt
    cases hstep
    rw [ha ss hal] at hrel'
    unfold Machine.postponeBy at hrel'
    have e2 : ListQ.impl.postpone ss.q p d ss.h.nextOrd = some (ListQ.postponeL ss.q p d ss.h.nextOrd) := rfl
    rw [e2, postponeL_eq_insL (Int.ofNat_nonneg d) (hinv.sorted.imp lt_due_le)] at hrel'
    simp only [pending]
    rw [hrel.1.toList, hrel.2]
    cases hf : ss.q.find? p with
    | none =>
      rw [hf] at hrel'
      exact ⟨hrel'.1.toList, hrel'.2⟩
    | some e =>
      rw [hf] at hrel'
      exact ⟨hrel'.1.toList, hrel'.2⟩
  · cases hstep

/-- what became of an event that was pending before some steps and is not pending after them -/
theorem gone_transfer {s s' : State} {e : Ev} {new : List Delivery} (h : Reachable s) (h' : Reachable s')
    (hg : Grows s.h s'.h) (hlog : s'.h.log = new ++ s.h.log) (he : e ∈ pending s) (hnp : e ∉ pending s') :
    (∃ d ∈ new, d.ev = e) ∨ e ∈ s'.h.cancelled ∨ e ∈ s'.h.postponed := by
  obtain ⟨ss, hr, hrel⟩ := reachable_spec h
  obtain ⟨ss', hr', hrel'⟩ := reachable_spec h'
  have hi := hr.inv
  have hi' := hr'.inv
  have heq : e ∈ ss.q := by rw [← hrel.1.toList]; exact he
  have hposted : e ∈ ss'.h.posted := by
    rw [← hrel'.2]; apply hg.2.1; rw [hrel.2]; exact hi.live_posted (InvS.q_live heq)
  have hmem := hi'.ledger.mem_iff.2 hposted
  simp only [live, List.mem_append, List.mem_map] at hmem
  rcases hmem with hp | (⟨d, hd, hde⟩ | hc) | hq
  · exact Or.inr (Or.inr (by rw [hrel'.2]; exact hp))
  · left
    rw [← hrel'.2, hlog] at hd
    rcases List.mem_append.1 hd with h1 | h1
    · exact ⟨d, h1, hde⟩
    · -- already delivered before, yet pending before: two live versions with one stamp
      exfalso
      rw [hrel.2] at h1
      have hnd : (ss.h.postponed ++ live ss).Nodup := by
        have := hi.postedSorted
        have hnd : (ss.h.posted.map (·.ord)).Nodup := by
          rw [List.Nodup, List.pairwise_map]; exact this.imp (fun {a b} hab => by omega)
        have := (hi.ledger.map (·.ord)).nodup_iff.2 hnd
        exact List.Pairwise.of_map (·.ord) (fun a b hab e => hab (by rw [e])) this
      rw [List.nodup_append] at hnd
      have hl := hnd.2.1
      unfold live at hl
      rw [List.nodup_append] at hl
      exact hl.2.2 e (List.mem_append_left _ (List.mem_map.2 ⟨d, h1, hde⟩)) e heq rfl
  · exact Or.inr (Or.inl (by rw [hrel'.2]; exact hc))
  · exact absurd (by show e ∈ LQ.toList s'.q; rw [hrel'.1.toList]; exact hq) hnp

end Morfuse.EventQueue
