import MorfuseModel.EventQueue.Model
/-!
# `LinkedList<T*, next, prev>` (root/tail specialisation): the link operations refine list operations

`Seg nx pv p l e`: the nodes of `l` are linked both ways in order, the first one's `prev` is `p`
and the last one's `next` is `e`.  `Repr q l`: the queue's links, `rootnode` and `tail` represent
exactly the list of node ids `l` (null-terminated at both ends).
-/
namespace Morfuse.EventQueue

/-- last element, or `d` for the empty list -/
def lastD {α : Type} : List α → α → α
  | [], d => d
  | a :: t, _ => lastD t a

@[simp] theorem lastD_nil {α : Type} (d : α) : lastD [] d = d := rfl
@[simp] theorem lastD_cons {α : Type} (a : α) (t : List α) (d : α) : lastD (a :: t) d = lastD t a := rfl
theorem lastD_append {α : Type} : ∀ (s u : List α) (d : α), lastD (s ++ u) d = lastD u (lastD s d)
  | [], _, _ => rfl
  | a :: t, u, d => by simp [lastD_append t u a]
theorem lastD_mem {α : Type} : ∀ (l : List α) (d : α), l ≠ [] → lastD l d ∈ l
  | [], _, h => absurd rfl h
  | [a], _, _ => by simp
  | a :: b :: t, d, _ => by
    have := lastD_mem (b :: t) a (by simp)
    simp only [lastD_cons] at this ⊢
    exact List.mem_cons_of_mem _ this
theorem lastD_mem_or {α : Type} : ∀ (l : List α) (d : α), lastD l d = d ∨ lastD l d ∈ l
  | [], _ => Or.inl rfl
  | a :: t, d => by
    right
    rcases lastD_mem_or t a with h | h
    · simp [h]
    · simp [h]
theorem lastD_map {α β : Type} (f : α → β) : ∀ (l : List α) (d : α), lastD (l.map f) (f d) = f (lastD l d)
  | [], _ => rfl
  | a :: t, _ => by simp [lastD_map f t a]

def Seg (nx pv : Nat → Nat) : Nat → List Nat → Nat → Prop
  | _, [], _ => True
  | p, a :: t, e => pv a = p ∧ nx a = t.headD e ∧ Seg nx pv a t e

theorem seg_append {nx pv : Nat → Nat} : ∀ (s u : List Nat) (p e : Nat),
    Seg nx pv p (s ++ u) e ↔ Seg nx pv p s (u.headD e) ∧ Seg nx pv (lastD s p) u e
  | [], u, p, e => by simp [Seg]
  | a :: t, u, p, e => by
    have ih := seg_append (nx := nx) (pv := pv) t u a e
    have h1 : (t ++ u).headD e = t.headD (u.headD e) := by cases t <;> simp
    simp only [List.cons_append, Seg, ih, h1, lastD_cons]
    constructor
    · rintro ⟨a1, a2, a3, a4⟩; exact ⟨⟨a1, a2, a3⟩, a4⟩
    · rintro ⟨⟨a1, a2, a3⟩, a4⟩; exact ⟨a1, a2, a3, a4⟩

theorem seg_congr {nx pv nx' pv' : Nat → Nat} : ∀ (l : List Nat) (p e : Nat),
    (∀ x ∈ l, nx' x = nx x) → (∀ x ∈ l, pv' x = pv x) → Seg nx pv p l e → Seg nx' pv' p l e
  | [], _, _, _, _, _ => trivial
  | a :: t, p, e, hn, hp, h => by
    obtain ⟨h1, h2, h3⟩ := h
    refine ⟨by rw [hp a (by simp)]; exact h1, by rw [hn a (by simp)]; exact h2, ?_⟩
    exact seg_congr t a e (fun x hx => hn x (by simp [hx])) (fun x hx => hp x (by simp [hx])) h3

/-- the predecessor of the first node only matters for that node's `prev` -/
theorem seg_head {nx pv : Nat → Nat} {a : Nat} {t : List Nat} {p p' e : Nat}
    (h : Seg nx pv p (a :: t) e) (hp : pv a = p') : Seg nx pv p' (a :: t) e :=
  ⟨hp, h.2.1, h.2.2⟩

/-- changing the successor of the last node only matters for that node's `next` -/
theorem seg_end {nx pv nx' pv' : Nat → Nat} : ∀ (l : List Nat) (p e e' : Nat),
    Seg nx pv p l e → l.Nodup → (∀ y ∈ l, pv' y = pv y) → (∀ y ∈ l, y ≠ lastD l p → nx' y = nx y) →
    (l ≠ [] → nx' (lastD l p) = e') → Seg nx' pv' p l e'
  | [], _, _, _, _, _, _, _, _ => trivial
  | [a], p, e, e', h, _, hp, _, hl => by
    obtain ⟨h1, _, _⟩ := h
    exact ⟨by rw [hp a (by simp)]; exact h1, by simpa using hl (by simp), trivial⟩
  | a :: b :: t, p, e, e', h, hnd, hp, hn, hl => by
    obtain ⟨h1, h2, h3⟩ := h
    have hnd' : (b :: t).Nodup := (List.nodup_cons.1 hnd).2
    have ha : a ∉ b :: t := (List.nodup_cons.1 hnd).1
    have hlast : lastD (b :: t) a ∈ b :: t := lastD_mem _ _ (by simp)
    refine ⟨by rw [hp a (by simp)]; exact h1, ?_, ?_⟩
    · rw [hn a (by simp) (by simp only [lastD_cons]; intro e; simp only [lastD_cons] at hlast; exact ha (e ▸ hlast))]
      simpa using h2
    · apply seg_end (b :: t) a e e' h3 hnd'
      · intro y hy; exact hp y (List.mem_cons_of_mem _ hy)
      · intro y hy hne; exact hn y (List.mem_cons_of_mem _ hy) (by simpa using hne)
      · intro _; simpa using hl (by simp)

structure Repr (q : LQ) (l : List Nat) : Prop where
  nodup : l.Nodup
  nz : 0 ∉ l
  root : q.root = l.headD 0
  tail : q.tail = lastD l 0
  seg : Seg q.nx.get q.pv.get 0 l 0
  cnt : q.cnt = l.length

theorem repr_empty : Repr LQ.empty [] := by
  constructor <;> simp [LQ.empty, Seg]

end Morfuse.EventQueue

namespace Morfuse.EventQueue

theorem ne_of_mem_not_mem {l : List Nat} {a b : Nat} (ha : a ∈ l) (hb : b ∉ l) : a ≠ b :=
  fun e => hb (e ▸ ha)

theorem Repr.root_zero_iff {q : LQ} {l : List Nat} (h : Repr q l) : q.root = 0 ↔ l = [] := by
  cases l with
  | nil => simp [h.root]
  | cons a t =>
    have : a ≠ 0 := fun e => h.nz (by simp [e])
    simp [h.root, this]

theorem Repr.tail_mem {q : LQ} {l : List Nat} (h : Repr q l) (hl : l ≠ []) : q.tail ∈ l := by
  rw [h.tail]; exact lastD_mem l 0 hl

/-- `Add` appends -/
theorem repr_add {q : LQ} {l : List Nat} {n : Nat} (h : Repr q l) (hn0 : n ≠ 0) (hn : n ∉ l) :
    Repr (q.add n) (l ++ [n]) := by
  unfold LQ.add
  split
  · rename_i hr
    have hl : l = [] := h.root_zero_iff.1 hr
    subst hl
    constructor <;> simp [Seg, h.cnt]
    exact fun e => hn0 e.symm
  · rename_i hr
    have hl : l ≠ [] := fun e => hr (h.root_zero_iff.2 e)
    have hz := h.tail_mem hl
    have hzn : q.tail ≠ n := fun e => hn (e ▸ hz)
    constructor
    · rw [List.nodup_append]; exact ⟨h.nodup, by simp, by intro a ha b hb; simp at hb; subst hb; exact fun e => hn (e ▸ ha)⟩
    · simp; exact ⟨h.nz, fun e => hn0 e.symm⟩
    · show q.root = _
      rw [h.root]; cases l with
      | nil => exact absurd rfl hl
      | cons a t => rfl
    · show n = _
      simp [lastD_append]
    · show Seg ((q.nx.set q.tail n).set n 0).get (q.pv.set n q.tail).get 0 (l ++ [n]) 0
      rw [seg_append]
      constructor
      · apply seg_end l 0 0 _ h.seg h.nodup
        · intro y hy; rw [Mem.get_set_ne]; exact fun e => hn (e ▸ hy)
        · intro y hy hne
          rw [Mem.get_set_ne _ _ _ _ (ne_of_mem_not_mem hy hn), Mem.get_set_ne _ _ _ _ (by rw [h.tail]; exact hne)]
        · intro _
          rw [← h.tail, Mem.get_set_ne _ _ _ _ hzn]; simp
      · simp [Seg, h.tail]
    · simp [h.cnt]

/-- `AddFirst` prepends -/
theorem repr_addFirst {q : LQ} {l : List Nat} {n : Nat} (h : Repr q l) (hn0 : n ≠ 0) (hn : n ∉ l) :
    Repr (q.addFirst n) (n :: l) := by
  unfold LQ.addFirst
  split
  · rename_i hr
    have hl : l = [] := h.root_zero_iff.1 hr
    subst hl
    constructor <;> simp [Seg, h.cnt]
    exact fun e => hn0 e.symm
  · rename_i hr
    have hl : l ≠ [] := fun e => hr (h.root_zero_iff.2 e)
    obtain ⟨a, t, rfl⟩ := List.exists_cons_of_ne_nil hl
    have hra : q.root = a := h.root
    have han : a ≠ n := fun e => hn (by simp [e])
    constructor
    · exact List.nodup_cons.2 ⟨hn, h.nodup⟩
    · simp; exact ⟨fun e => hn0 e.symm, by simpa using h.nz⟩
    · rfl
    · show q.tail = _
      rw [h.tail]; rfl
    · show Seg (q.nx.set n q.root).get ((q.pv.set n 0).set q.root n).get 0 (n :: a :: t) 0
      obtain ⟨h1, h2, h3⟩ := h.seg
      have hat : a ∉ t := (List.nodup_cons.1 h.nodup).1
      refine ⟨?_, ?_, ?_, ?_, ?_⟩
      · rw [hra, Mem.get_set_ne _ _ _ _ han.symm]; simp
      · simp [hra]
      · rw [hra]; simp
      · rw [Mem.get_set_ne _ _ _ _ han]; exact h2
      · apply seg_congr t a 0 _ _ h3
        · intro x hx; rw [Mem.get_set_ne]; exact fun e => hn (by simp [← e, hx])
        · intro x hx
          rw [hra, Mem.get_set_ne _ _ _ _ (ne_of_mem_not_mem hx hat), Mem.get_set_ne]
          exact fun e => hn (by simp [← e, hx])
    · simp [h.cnt]

end Morfuse.EventQueue

namespace Morfuse.EventQueue

/-- facts about a duplicate-free list split around one element -/
theorem nodup_split {s u : List Nat} {x : Nat} (h : (s ++ x :: u).Nodup) :
    s.Nodup ∧ u.Nodup ∧ x ∉ s ∧ x ∉ u ∧ (∀ y ∈ s, y ∉ u) := by
  rw [List.nodup_append] at h
  obtain ⟨h1, h2, h3⟩ := h
  rw [List.nodup_cons] at h2
  refine ⟨h1, h2.2, ?_, h2.1, ?_⟩
  · intro hx; exact h3 x hx x (by simp) rfl
  · intro y hy hyu; exact h3 y hy y (by simp [hyu]) rfl

theorem Repr.split {q : LQ} {s u : List Nat} {x : Nat} (h : Repr q (s ++ x :: u)) :
    Seg q.nx.get q.pv.get 0 s x ∧ q.pv.get x = lastD s 0 ∧ q.nx.get x = u.headD 0 ∧
    Seg q.nx.get q.pv.get x u 0 := by
  have := (seg_append s (x :: u) 0 0).1 h.seg
  exact ⟨this.1, this.2.1, this.2.2.1, this.2.2.2⟩

/-- `Insert(cur, n)` with `cur` not the first node puts `n` just before `cur` -/
theorem repr_insert {q : LQ} {s u : List Nat} {c n : Nat} (h : Repr q (s ++ c :: u)) (hs : s ≠ [])
    (hn0 : n ≠ 0) (hn : n ∉ s ++ c :: u) : Repr (q.insert c n) (s ++ n :: c :: u) := by
  obtain ⟨hnds, hndu, hcs, hcu, hdis⟩ := nodup_split h.nodup
  obtain ⟨g1, g2, g3, g4⟩ := h.split
  have hns : n ∉ s := fun e => hn (by simp [e])
  have hnu : n ∉ u := fun e => hn (by simp [e])
  have hnc : n ≠ c := fun e => hn (by simp [e])
  have hPs : lastD s 0 ∈ s := lastD_mem s 0 hs
  have hP0 : lastD s 0 ≠ 0 := by
    intro e
    have : lastD s 0 ∈ s ++ c :: u := List.mem_append_left _ hPs
    rw [e] at this; exact h.nz this
  have hPn : lastD s 0 ≠ n := ne_of_mem_not_mem hPs hns
  have hPc : lastD s 0 ≠ c := ne_of_mem_not_mem hPs hcs
  have hpv1c : (q.pv.set n (q.pv.get c)).get c = lastD s 0 := by
    rw [Mem.get_set_ne _ _ _ _ hnc.symm, g2]
  unfold LQ.insert
  simp only [hpv1c, ne_eq, hP0, not_false_eq_true, if_true]
  constructor
  · have : (s ++ n :: c :: u).Perm (n :: (s ++ c :: u)) := List.perm_middle
    rw [this.nodup_iff, List.nodup_cons]; exact ⟨hn, h.nodup⟩
  · have := h.nz
    simp at this ⊢
    exact ⟨this.1, fun e => hn0 e.symm, this.2.1, this.2.2⟩
  · show q.root = _
    rw [h.root]
    obtain ⟨a, t, rfl⟩ := List.exists_cons_of_ne_nil hs
    rfl
  · show q.tail = _
    rw [h.tail]; simp [lastD_append]
  · show Seg ((q.nx.set n c).set (lastD s 0) n).get ((q.pv.set n (q.pv.get c)).set c n).get 0 (s ++ n :: c :: u) 0
    rw [seg_append]
    refine ⟨?_, ?_, ?_, ?_, ?_, ?_⟩
    · apply seg_end s 0 c _ g1 hnds
      · intro y hy
        rw [Mem.get_set_ne _ _ _ _ (ne_of_mem_not_mem hy hcs), Mem.get_set_ne _ _ _ _ (ne_of_mem_not_mem hy hns)]
      · intro y hy hne
        rw [Mem.get_set_ne _ _ _ _ hne, Mem.get_set_ne _ _ _ _ (ne_of_mem_not_mem hy hns)]
      · intro _; simp
    · rw [Mem.get_set_ne _ _ _ _ hnc]; simp [g2]
    · rw [Mem.get_set_ne _ _ _ _ hPn.symm]; simp
    · simp
    · rw [Mem.get_set_ne _ _ _ _ hPc.symm, Mem.get_set_ne _ _ _ _ hnc.symm]; simpa using g3
    · apply seg_congr u c 0 _ _ g4
      · intro y hy
        rw [Mem.get_set_ne _ _ _ _ (ne_of_mem_not_mem hy (hdis _ hPs)), Mem.get_set_ne _ _ _ _ (ne_of_mem_not_mem hy hnu)]
      · intro y hy
        rw [Mem.get_set_ne _ _ _ _ (ne_of_mem_not_mem hy hcu), Mem.get_set_ne _ _ _ _ (ne_of_mem_not_mem hy hnu)]
  · simp [h.cnt]; omega

end Morfuse.EventQueue

namespace Morfuse.EventQueue

/-- `Remove(x)` erases `x` -/
theorem repr_remove {q : LQ} {s u : List Nat} {x : Nat} (h : Repr q (s ++ x :: u)) :
    Repr (q.remove x) (s ++ u) := by
  obtain ⟨hnds, hndu, hxs, hxu, hdis⟩ := nodup_split h.nodup
  obtain ⟨g1, g2, g3, g4⟩ := h.split
  have hz := h.nz
  have hx0 : x ≠ 0 := fun e => hz (by simp [e])
  have hPx : lastD s 0 ≠ x := by
    rcases lastD_mem_or s 0 with e | e
    · rw [e]; exact fun e' => hx0 e'.symm
    · exact ne_of_mem_not_mem e hxs
  have hnx1 : (if q.pv.get x ≠ 0 then q.nx.set (q.pv.get x) (q.nx.get x) else q.nx).get x = u.headD 0 := by
    split
    · rw [g2, Mem.get_set_ne _ _ _ _ hPx.symm, g3]
    · exact g3
  unfold LQ.remove
  simp only [hnx1]
  constructor
  · have : (s ++ x :: u).Perm (x :: (s ++ u)) := List.perm_middle
    have hh := h.nodup
    rw [this.nodup_iff, List.nodup_cons] at hh; exact hh.2
  · simp at hz ⊢; exact ⟨hz.1, hz.2.2⟩
  · show (if x = q.root then q.nx.get q.root else q.root) = _
    rw [h.root]
    cases s with
    | nil => simp [g3]
    | cons a t =>
      have : x ≠ a := fun e => hxs (by simp [e])
      simp [this]
  · show (if x = q.tail then q.pv.get q.tail else q.tail) = _
    rw [h.tail]
    cases u with
    | nil => simp [lastD_append, g2]
    | cons b t =>
      have hne : x ≠ lastD t b := by
        have : lastD (b :: t) x ∈ b :: t := lastD_mem _ _ (by simp)
        exact (ne_of_mem_not_mem this hxu).symm
      simp [lastD_append, hne]
  · show Seg (if q.pv.get x ≠ 0 then q.nx.set (q.pv.get x) (q.nx.get x) else q.nx).get
        (if u.headD 0 ≠ 0 then q.pv.set (u.headD 0) (q.pv.get x) else q.pv).get 0 (s ++ u) 0
    rw [seg_append, g2, g3]
    -- the successor, when there is one, is in `u`
    have hN : u.headD 0 ≠ 0 → u.headD 0 ∈ u := by
      cases u with
      | nil => simp
      | cons b t => simp
    constructor
    · by_cases hs : s = []
      · subst hs; trivial
      · have hPs : lastD s 0 ∈ s := lastD_mem s 0 hs
        have hP0 : lastD s 0 ≠ 0 := by
          intro e; rw [e] at hPs; exact hz (List.mem_append_left _ hPs)
        simp only [ne_eq, hP0, not_false_eq_true, if_true]
        apply seg_end s 0 x _ g1 hnds
        · intro y hy
          split
          · rename_i hN0
            rw [Mem.get_set_ne _ _ _ _ (ne_of_mem_not_mem (hN hN0) (fun e => hdis y hy e)).symm]
          · rfl
        · intro y hy hne; rw [Mem.get_set_ne _ _ _ _ hne]
        · intro _; simp
    · cases u with
      | nil => trivial
      | cons b t =>
        have hb0 : b ≠ 0 := fun e => hz (by simp [e])
        obtain ⟨_, k2, k3⟩ := g4
        have hbt : b ∉ t := (List.nodup_cons.1 hndu).1
        simp only [List.headD_cons, ne_eq, hb0, not_false_eq_true, if_true]
        have hnx : ∀ y ∈ b :: t, (if lastD s 0 ≠ 0 then q.nx.set (lastD s 0) b else q.nx).get y = q.nx.get y := by
          intro y hy
          split
          · rename_i hP0
            have hPs : lastD s 0 ∈ s := by
              rcases lastD_mem_or s 0 with e | e
              · exact absurd e hP0
              · exact e
            rw [Mem.get_set_ne _ _ _ _ (ne_of_mem_not_mem hy (hdis _ hPs))]
          · rfl
        refine ⟨by simp, ?_, ?_⟩
        · rw [hnx b (by simp)]; exact k2
        · apply seg_congr t b 0 _ _ k3
          · intro y hy; exact hnx y (List.mem_cons_of_mem _ hy)
          · intro y hy; rw [Mem.get_set_ne _ _ _ _ (ne_of_mem_not_mem hy hbt)]
  · simp [h.cnt]

end Morfuse.EventQueue

namespace Morfuse.EventQueue

/-- following `next` from the first node enumerates the represented list -/
theorem walk_seg {nx pv : Nat → Nat} : ∀ (l : List Nat) (p fuel : Nat),
    Seg nx pv p l 0 → 0 ∉ l → l.length ≤ fuel → LQ.walk fuel nx (l.headD 0) = l
  | [], _, fuel, _, _, _ => by cases fuel <;> simp [LQ.walk]
  | a :: t, _, 0, _, _, hf => by simp at hf
  | a :: t, _, fuel + 1, h, hz, hf => by
    have ha : a ≠ 0 := fun e => hz (by simp [e])
    simp only [List.headD_cons, LQ.walk, ha, if_false, h.2.1]
    rw [walk_seg t a fuel h.2.2 (fun e => hz (by simp [e])) (by simpa using hf)]

theorem Repr.ids {q : LQ} {l : List Nat} (h : Repr q l) : q.ids = l := by
  unfold LQ.ids
  rw [h.root, h.cnt]
  exact walk_seg l 0 _ h.seg h.nz (Nat.le_refl _)

end Morfuse.EventQueue
