import MorfuseModel.Common.Mem
/-!
# Model of the posted-event queue (property C08)

Transcribed from `src/Script/EventQueue.cpp`, `src/Script/EventQueueNode.cpp`,
`include/morfuse/Common/Linklist.h` (`LinkedList<T*, next, prev>`: the root/tail specialisation the
queue uses), `Listener::PostEventInternal / Cancel… / ~Listener` (`src/Script/Listener.cpp`) and
`EventContext::ProcessEvents`.

Two layers, so that everything that is *not* the queue representation is written once:

* `QImpl Q` is the interface the rest of the engine uses (`PostEvent`, the three cancel loops, the
  test-and-remove at the head of `ProcessPendingEvents`, `IsEventPending`, a dump).
* `Machine` (generic in `Q`) is the host side: listeners alive or not, the injected clock, the
  handler table `(listener, type) ↦ List Act` run re-entrantly from the response, the budget that
  bounds re-entrant posts, the delivery log, and ghost ledgers (`posted`, `cancelled`).
* `LQ` is the real representation: `prev/next` links in two `Mem`s, `rootnode`, `tail`, node fields,
  with `Add / AddFirst / Insert / Remove` transcribed statement by statement.  `LQ.impl : QImpl LQ`
  is what the driver runs and what the theorems in `Props/C08.lean` are about.
* `Spec.lean` gives the second instance (`List Ev`) used as the abstract specification.

Ids are `Nat`, `0` is `nullptr`.  A node is named by the posting sequence number of its event.
-/
namespace Morfuse.EventQueue

/-- one `EventQueueNode` together with what identifies its `Event` -/
structure Ev where
  id : Nat        -- posting sequence number (names the node and its Event)
  lis : Nat       -- `m_sourceobject`
  typ : Nat       -- `event->Num()` as an index into the host's event table
  due : Int       -- `node->time`
  flags : Nat     -- `node->flags`
  deriving DecidableEq, Repr, Inhabited

/-- what host code (top level or a response running inside `ProcessPendingEvents`) can do -/
inductive Act
  | post (l typ : Nat) (d : Int) (f : Nat)     -- `l->PostEvent(new Event(typ), d, f)`
  | cancelType (l typ : Nat)                   -- `l->CancelEventsOfType(typ)`
  | cancelAll (l : Nat)                        -- `l->CancelPendingEvents()`
  | cancelFlag (l f : Nat)                     -- `l->CancelFlaggedEvents(f)`
  | destroy (l : Nat)                          -- `delete l`
  | tick (k : Nat)                             -- the clock advances by `k` ms
  deriving DecidableEq, Repr

inductive Op
  | act (a : Act)
  | newl (l : Nat)                             -- `new C08Host`
  | handler (l typ : Nat) (acts : List Act)    -- set the host's handler table entry
  | process                                    -- `EventContext::ProcessEvents()`
  deriving DecidableEq, Repr

/-- one call of a response from `ProcessPendingEvents` -/
structure Delivery where
  ev : Ev
  passT : Int          -- the `t` read once at the start of the pass
  clock : Nat          -- the clock when the response was entered
  rest : List Ev       -- ghost: what was still queued right after this node was unlinked
  deriving Repr

/-- everything that is not the queue itself -/
structure Host where
  alive : List Nat                              -- constructed listeners
  now : Nat                                     -- injected clock, ms since the TimeManager started
  budget : Nat                                  -- re-entrant posts still allowed (host policy)
  nextId : Nat                                  -- next posting sequence number
  handlers : List (Nat × Nat × List Act)        -- newest first
  log : List Delivery                           -- newest first
  cancelled : List Ev                           -- ghost, newest first
  posted : List Ev                              -- ghost: every event that was put in the queue, newest first

structure MState (Q : Type) where
  q : Q
  h : Host

/-- the host class `C08Host` declares responses for event types 1, 2, 3 only -/
def hasResponse (typ : Nat) : Bool := 1 ≤ typ && typ ≤ 3

/-- the operations of `EventQueue` used by `Listener` and `EventContext` -/
structure QImpl (Q : Type) where
  empty : Q
  post : Q → Ev → Q                            -- `PostEvent` once `time` is computed
  cancel : Q → (Ev → Bool) → Q × List Ev       -- the `Cancel…` loops; second component: removed nodes (ghost)
  popDue : Q → Int → Option (Ev × Q)           -- one iteration of `ProcessPendingEvents` up to `Node.Remove(node)`
  isPending : Q → (Ev → Bool) → Bool           -- `IsEventPending`
  toList : Q → List Ev                         -- queue order, as `GetNumPendingEvents` walks it

namespace Machine
variable {Q : Type} (I : QImpl Q)

def cancelBy (s : MState Q) (p : Ev → Bool) : MState Q :=
  let r := I.cancel s.q p
  { q := r.1, h := { s.h with cancelled := r.2 ++ s.h.cancelled } }

def matchType (l typ : Nat) (e : Ev) : Bool := e.lis == l && e.typ == typ
def matchAll (l : Nat) (e : Ev) : Bool := e.lis == l
def matchFlag (l f : Nat) (e : Ev) : Bool := e.lis == l && (e.flags &&& f) != 0

/-- One host action.  `re = true` when it runs inside a response: the action is skipped when its
    listener is gone, and a post is skipped when the budget is used up. -/
def applyAct (re : Bool) (s : MState Q) : Act → MState Q
  | .tick k => { s with h := { s.h with now := s.h.now + k } }
  | .post l typ d f =>
    if l ∉ s.h.alive then s
    else if re = true ∧ s.h.budget = 0 then s
    else
      let h1 : Host := { s.h with budget := if re then s.h.budget - 1 else s.h.budget, nextId := s.h.nextId + 1 }
      -- Listener::PostEventInternal: `if (!ev->Num() || !classinfo().GetResponse(ev->Num())) { delete ev; return; }`
      if typ = 0 ∨ hasResponse typ = false then { s with h := h1 }
      else
        -- EventQueue::PostEvent: `time = GetTime() + delay`
        let e : Ev := ⟨s.h.nextId, l, typ, (s.h.now : Int) + d, f⟩
        { q := I.post s.q e, h := { h1 with posted := e :: h1.posted } }
  | .cancelType l typ => if l ∉ s.h.alive then s else cancelBy I s (matchType l typ)
  | .cancelAll l => if l ∉ s.h.alive then s else cancelBy I s (matchAll l)
  | .cancelFlag l f => if l ∉ s.h.alive then s else cancelBy I s (matchFlag l f)
  | .destroy l =>
    if l ∉ s.h.alive then s
    else
      -- Listener::~Listener: `CancelPendingEvents();`
      let s1 := cancelBy I s (matchAll l)
      { s1 with h := { s1.h with alive := s1.h.alive.filter (· != l) } }

def lookup (hs : List (Nat × Nat × List Act)) (l t : Nat) : List Act :=
  match hs.find? (fun x => x.1 == l && x.2.1 == t) with
  | some x => x.2.2
  | none => []

/-- the response of the host class: the actions of the table entry, in order -/
def runHandler (s : MState Q) (e : Ev) : MState Q :=
  (lookup s.h.handlers e.lis e.typ).foldl (applyAct I true) s

/-- `EventQueue::ProcessPendingEvents()`: `t` was read once; each iteration tests the root, unlinks
    it, calls the response.  Fuel stands for "the loop runs until it breaks". -/
def processLoop : Nat → Int → MState Q → MState Q
  | 0, _, s => s
  | fuel + 1, t, s =>
    match I.popDue s.q t with
    | none => s
    | some (e, q') =>
      let s1 : MState Q := { q := q', h := { s.h with log := ⟨e, t, s.h.now, I.toList q'⟩ :: s.h.log } }
      processLoop fuel t (runHandler I s1 e)

/-- every iteration removes one node and every node added inside a response costs one unit of budget -/
def passFuel (s : MState Q) : Nat := (I.toList s.q).length + s.h.budget + 1

def process (s : MState Q) : MState Q := processLoop I (passFuel I s) (s.h.now : Int) s

def Act.legalTop (h : Host) : Act → Bool
  | .tick _ => true
  | .post l _ _ _ | .cancelType l _ | .cancelAll l | .cancelFlag l _ | .destroy l => decide (l ∈ h.alive)

/-- one top-level host operation; `none` = not a legal program (using a destroyed listener) -/
def step (s : MState Q) : Op → Option (MState Q)
  | .act a => if Act.legalTop s.h a then some (applyAct I false s a) else none
  | .newl l => if l ≠ 0 ∧ l ∉ s.h.alive then some { s with h := { s.h with alive := l :: s.h.alive } } else none
  | .handler l t acts => some { s with h := { s.h with handlers := (l, t, acts) :: s.h.handlers } }
  | .process => some (process I s)

def run : MState Q → List Op → Option (MState Q)
  | s, [] => some s
  | s, op :: ops => (step I s op).bind (run · ops)

def init (budget : Nat) : MState Q :=
  { q := I.empty, h := ⟨[], 0, budget, 1, [], [], [], []⟩ }

end Machine

/-! ## the real representation -/

structure EvMem where
  m : Std.HashMap Nat Ev

namespace EvMem
def empty : EvMem := ⟨∅⟩
def get (s : EvMem) (a : Nat) : Ev := s.m.getD a default
def set (s : EvMem) (a : Nat) (v : Ev) : EvMem := ⟨s.m.insert a v⟩

theorem get_set (s : EvMem) (a x : Nat) (v : Ev) : (s.set a v).get x = if x = a then v else s.get x := by
  simp only [get, set, Std.HashMap.getD_insert]
  by_cases h : x = a
  · subst h; simp
  · have : (a == x) = false := by simp; exact fun e => h e.symm
    simp [this, h]
end EvMem

/-- `EventQueue` = `LinkedList<EventQueueNode*, &next, &prev> Node` + the nodes' fields -/
structure LQ where
  nx : Mem          -- `EventQueueNode::next`
  pv : Mem          -- `EventQueueNode::prev`
  root : Nat        -- `rootnode`
  tail : Nat        -- `tail`
  data : EvMem      -- `event, m_sourceobject, time, flags` of each node
  cnt : Nat         -- number of linked nodes (fuel for the loops that walk the list)

namespace LQ

def empty : LQ := ⟨.empty, .empty, 0, 0, .empty, 0⟩

/-- `LinkedList<T*>::Add` -/
def add (q : LQ) (n : Nat) : LQ :=
  if q.root = 0 then
    -- tail = rootnode = newnode; newnode->next = newnode->prev = nullptr
    { q with tail := n, root := n, nx := q.nx.set n 0, pv := q.pv.set n 0, cnt := q.cnt + 1 }
  else
    -- tail->next = newnode; newnode->prev = tail; newnode->next = nullptr; tail = newnode
    { q with nx := (q.nx.set q.tail n).set n 0, pv := q.pv.set n q.tail, tail := n, cnt := q.cnt + 1 }

/-- `LinkedList<T*>::AddFirst` -/
def addFirst (q : LQ) (n : Nat) : LQ :=
  if q.root = 0 then
    { q with tail := n, nx := q.nx.set n 0, pv := q.pv.set n 0, root := n, cnt := q.cnt + 1 }
  else
    -- newnode->next = rootnode; newnode->prev = nullptr; rootnode->prev = newnode; rootnode = newnode
    { q with nx := q.nx.set n q.root, pv := (q.pv.set n 0).set q.root n, root := n, cnt := q.cnt + 1 }

/-- `LinkedList<T*>::Insert(currentnode, newnode)`: never touches `rootnode` -/
def insert (q : LQ) (cur n : Nat) : LQ :=
  -- newnode->prev = currentnode->prev; newnode->next = currentnode
  let pv1 := q.pv.set n (q.pv.get cur)
  let nx1 := q.nx.set n cur
  -- if (currentnode->prev) currentnode->prev->next = newnode
  let nx2 := if pv1.get cur ≠ 0 then nx1.set (pv1.get cur) n else nx1
  -- currentnode->prev = newnode
  { q with nx := nx2, pv := pv1.set cur n, cnt := q.cnt + 1 }

/-- `LinkedList<T*>::Remove` (the node's own links are left as they are) -/
def remove (q : LQ) (n : Nat) : LQ :=
  -- if (node == rootnode) rootnode = rootnode->next
  let root1 := if n = q.root then q.nx.get q.root else q.root
  -- if (node == tail) tail = tail->prev
  let tail1 := if n = q.tail then q.pv.get q.tail else q.tail
  -- if (node->prev) node->prev->next = node->next
  let nx1 := if q.pv.get n ≠ 0 then q.nx.set (q.pv.get n) (q.nx.get n) else q.nx
  -- if (node->next) node->next->prev = node->prev
  let pv1 := if nx1.get n ≠ 0 then q.pv.set (nx1.get n) (q.pv.get n) else q.pv
  { q with root := root1, tail := tail1, nx := nx1, pv := pv1, cnt := q.cnt - 1 }

/-- the search loop of `PostEvent`: first node from `i` whose time is greater than `t` -/
def scan : Nat → LQ → Int → Nat → Nat
  | 0, _, _, i => i
  | fuel + 1, q, t, i =>
    if i = 0 then 0
    else if (q.data.get i).due > t then i
    else scan fuel q t (q.nx.get i)

/-- `EventQueue::PostEvent` after `node->time/event/flags` are filled in -/
def post (q0 : LQ) (e : Ev) : LQ :=
  let n := e.id
  let q : LQ := { q0 with data := q0.data.set n e }
  if q.root ≠ 0 ∧ e.due < (q.data.get q.tail).due then
    if (q.data.get q.root).due ≤ e.due then
      -- find a node with the highest time before the new one; insert between nodes
      insert q (scan q.cnt q e.due q.root) n
    else
      -- the node has the lowest time, as a consequence add it first
      addFirst q n
  else
    -- add first root node or append at tail if it has the highest time
    add q n

/-- `for (node = root; node; node = next) { next = node.Next(); if (match) { Remove(node); delete node; } }` -/
def cancelLoop : Nat → LQ → (Ev → Bool) → Nat → List Ev → LQ × List Ev
  | 0, q, _, _, acc => (q, acc)
  | fuel + 1, q, p, node, acc =>
    if node = 0 then (q, acc)
    else
      let next := q.nx.get node
      if p (q.data.get node) then cancelLoop fuel (remove q node) p next (q.data.get node :: acc)
      else cancelLoop fuel q p next acc

def cancel (q : LQ) (p : Ev → Bool) : LQ × List Ev := cancelLoop q.cnt q p q.root []

/-- head of the loop of `ProcessPendingEvents`: `while(!Node.IsEmpty()) { node = Node.Root();
    if (node->time > t) break; Node.Remove(node); …` -/
def popDue (q : LQ) (t : Int) : Option (Ev × LQ) :=
  if q.root = 0 then none
  else if (q.data.get q.root).due > t then none
  else some (q.data.get q.root, remove q q.root)

/-- `IsEventPending` -/
def pendLoop : Nat → LQ → (Ev → Bool) → Nat → Bool
  | 0, _, _, _ => false
  | fuel + 1, q, p, i =>
    if i = 0 then false
    else if p (q.data.get i) then true
    else pendLoop fuel q p (q.nx.get i)

def isPending (q : LQ) (p : Ev → Bool) : Bool := pendLoop q.cnt q p q.root

/-- walk `next` from `i` -/
def walk : Nat → (Nat → Nat) → Nat → List Nat
  | 0, _, _ => []
  | fuel + 1, nx, i => if i = 0 then [] else i :: walk fuel nx (nx i)

def ids (q : LQ) : List Nat := walk q.cnt q.nx.get q.root
def toList (q : LQ) : List Ev := (ids q).map q.data.get

def impl : QImpl LQ := ⟨empty, post, cancel, popDue, isPending, toList⟩

end LQ

/-! ## the model the driver runs and the theorems speak about -/

abbrev State := MState LQ
def init (budget : Nat) : State := Machine.init LQ.impl budget
def step (s : State) (op : Op) : Option State := Machine.step LQ.impl s op
def run (s : State) (ops : List Op) : Option State := Machine.run LQ.impl s ops
def pending (s : State) : List Ev := LQ.toList s.q
def isPending (s : State) (l typ : Nat) : Bool := LQ.isPending s.q (Machine.matchType l typ)
/-- delivered events, oldest first -/
def delivered (s : State) : List Ev := (s.h.log.map (·.ev)).reverse

def Reachable (s : State) : Prop := ∃ b ops, run (init b) ops = some s

end Morfuse.EventQueue
