import MorfuseModel.Common.Mem
/-!
# Model of the posted-event queue (property C08)

Transcribed from `src/Script/EventQueue.cpp`, `src/Script/EventQueueNode.cpp`,
`include/morfuse/Common/Linklist.h` (`LinkedList<T*, next, prev>`: the root/tail specialisation the
queue uses), `Listener::PostEventInternal / Cancel… / ~Listener` (`src/Script/Listener.cpp`) and
`EventContext::ProcessEvents`.

Two layers, so that everything that is *not* the queue representation is written once:

* `QImpl Q` is the interface the rest of the engine uses (`PostEvent`, the three cancel loops, the
  test-and-remove at the head of `ProcessPendingEvents`, `IsEventPending`, a dump).
* `Machine` (generic in `Q`) is the host side: listeners alive or not, the injected clock, the
  handler table `(listener, type) ↦ List Act` run re-entrantly from the response, the budget that
  bounds re-entrant posts, the delivery log, and ghost ledgers (`posted`, `cancelled`).
* `LQ` is the real representation: `prev/next` links in two `Mem`s, `rootnode`, `tail`, node fields,
  with `Add / AddFirst / Insert / Remove` transcribed statement by statement.  `LQ.impl : QImpl LQ`
  is what the driver runs and what the theorems in `Props/C08.lean` are about.
* `Spec.lean` gives the second instance (`List Ev`) used as the abstract specification.

Ids are `Nat`, `0` is `nullptr`.  A node is named by the posting sequence number of its event.
-/
namespace Morfuse.EventQueue

/-- one `EventQueueNode` together with what identifies its `Event` -/
structure Ev where
  id : Nat        -- posting sequence number (names the node and its Event)
  lis : Nat       -- `m_sourceobject`
  typ : Nat       -- `event->Num()` as an index into the host's event table
  due : Int       -- `node->time`
  flags : Nat     -- `node->flags`
  ord : Nat       -- ghost: enqueue stamp, renewed each time the node is (re-)linked by `PostEvent` / `Postpone…`
  deriving DecidableEq, Repr, Inhabited

/-- what host code (top level or a response running inside `ProcessPendingEvents`) can do -/
inductive Act
  | post (l typ : Nat) (d : Int) (f : Nat)     -- `l->PostEvent(new Event(typ), d, f)`
  | cancelType (l typ : Nat)                   -- `l->CancelEventsOfType(typ)`
  | cancelAll (l : Nat)                        -- `l->CancelPendingEvents()`
  | cancelFlag (l f : Nat)                     -- `l->CancelFlaggedEvents(f)`
  | destroy (l : Nat)                          -- `delete l`
  | tick (k : Nat)                             -- the clock advances by `k` ms
  | postpone (l typ : Nat) (d : Nat)           -- `l->PostponeEvent(Event(typ), d)` (a non-negative amount)
  | postponeAll (l : Nat) (d : Nat)            -- `l->PostponeAllEvents(d)`
  deriving DecidableEq, Repr

inductive Op
  | act (a : Act)
  | newl (l : Nat)                             -- `new C08Host`
  | handler (l typ : Nat) (acts : List Act)    -- set the host's handler table entry
  | process                                    -- `EventContext::ProcessEvents()`
  | processL (l : Nat)                         -- `l->ProcessPendingEvents()` (`EventQueue::ProcessPendingEvents(Listener*)`)
  | clear                                      -- `GetEventQueue().ClearEventList()`
  | saveLoad                                   -- `GetEventQueue().Archive(writer)` then `.Archive(reader)` on the same queue
  deriving DecidableEq, Repr

/-- one call of a response from `ProcessPendingEvents` -/
structure Delivery where
  ev : Ev
  passT : Int          -- the `t` read once at the start of the pass
  clock : Nat          -- the clock when the response was entered
  rest : List Ev       -- ghost: what was still queued right after this node was unlinked
  glob : Bool          -- `true`: delivered by `ProcessPendingEvents()`, `false`: by `ProcessPendingEvents(Listener*)`
  deriving Repr

/-- everything that is not the queue itself -/
structure Host where
  alive : List Nat                              -- constructed listeners
  now : Nat                                     -- injected clock, ms since the TimeManager started
  budget : Nat                                  -- re-entrant posts still allowed (host policy)
  nextId : Nat                                  -- next posting sequence number
  handlers : List (Nat × Nat × List Act)        -- newest first
  log : List Delivery                           -- newest first
  cancelled : List Ev                           -- ghost, newest first
  posted : List Ev                              -- ghost: every version of every event that was put in the queue, newest first
  nextOrd : Nat                                 -- ghost: next enqueue stamp
  postponed : List Ev                           -- ghost: versions superseded by a postponement, newest first
  ub : Bool                                     -- the real code has executed undefined behaviour (null dereference in `Insert`, use of an unset `node->event`)

structure MState (Q : Type) where
  q : Q
  h : Host

/-- the host class `C08Host` declares responses for event types 1, 2, 3 only -/
def hasResponse (typ : Nat) : Bool := 1 ≤ typ && typ ≤ 3

/-- the operations of `EventQueue` used by `Listener` and `EventContext` -/
structure QImpl (Q : Type) where
  empty : Q
  post : Q → Ev → Q                            -- `PostEvent` once `time` is computed
  cancel : Q → (Ev → Bool) → Q × List Ev       -- the `Cancel…` loops; second component: removed nodes (ghost)
  popDue : Q → Int → Option (Ev × Q)           -- one iteration of `ProcessPendingEvents` up to `Node.Remove(node)`
  isPending : Q → (Ev → Bool) → Bool           -- `IsEventPending`
  toList : Q → List Ev                         -- queue order, as `GetNumPendingEvents` walks it
  /-- `PostponeEvent / PostponeAllEvents` with the match predicate, the amount and the ghost stamp;
      `none` = undefined behaviour; second component: the superseded and the new version, when a node matched -/
  postpone : Q → (Ev → Bool) → Int → Nat → Option (Q × Option (Ev × Ev))
  popDueOf : Q → Nat → Int → Option (Ev × Q)   -- one iteration of `ProcessPendingEvents(Listener*)` up to `Node.Remove`
  clear : Q → Q × List Ev                      -- `ClearEventList`; second component: the deleted nodes (ghost)
  load : Q → List Ev → Option Q                -- `Archive` (loading) of the records `Archive` (saving) wrote; `none` = UB

namespace Machine
variable {Q : Type} (I : QImpl Q)

def cancelBy (s : MState Q) (p : Ev → Bool) : MState Q :=
  let r := I.cancel s.q p
  { q := r.1, h := { s.h with cancelled := r.2 ++ s.h.cancelled } }

def matchType (l typ : Nat) (e : Ev) : Bool := e.lis == l && e.typ == typ
def matchAll (l : Nat) (e : Ev) : Bool := e.lis == l
def matchFlag (l f : Nat) (e : Ev) : Bool := e.lis == l && (e.flags &&& f) != 0

/-- `PostponeEvent` / `PostponeAllEvents`: the first matching node gets `time += d` and is re-linked -/
def postponeBy (s : MState Q) (p : Ev → Bool) (d : Nat) : MState Q :=
  match I.postpone s.q p (d : Int) s.h.nextOrd with
  | none => { s with h := { s.h with ub := true } }
  | some (q', none) => { s with q := q' }
  | some (q', some (e, e')) =>
    { q := q', h := { s.h with nextOrd := s.h.nextOrd + 1, postponed := e :: s.h.postponed, posted := e' :: s.h.posted } }

/-- One host action.  `re = true` when it runs inside a response: the action is skipped when its
    listener is gone, and a post is skipped when the budget is used up. -/
def applyAct (re : Bool) (s : MState Q) : Act → MState Q
  | .tick k => { s with h := { s.h with now := s.h.now + k } }
  | .post l typ d f =>
    if l ∉ s.h.alive then s
    else if re = true ∧ s.h.budget = 0 then s
    else
      let h1 : Host := { s.h with budget := if re then s.h.budget - 1 else s.h.budget, nextId := s.h.nextId + 1,
                                  nextOrd := s.h.nextOrd + 1 }
      -- Listener::PostEventInternal: `if (!ev->Num() || !classinfo().GetResponse(ev->Num())) { delete ev; return; }`
      if typ = 0 ∨ hasResponse typ = false then { s with h := h1 }
      else
        -- EventQueue::PostEvent: `time = GetTime() + delay`
        let e : Ev := ⟨s.h.nextId, l, typ, (s.h.now : Int) + d, f, s.h.nextOrd⟩
        { q := I.post s.q e, h := { h1 with posted := e :: h1.posted } }
  | .cancelType l typ => if l ∉ s.h.alive then s else cancelBy I s (matchType l typ)
  | .cancelAll l => if l ∉ s.h.alive then s else cancelBy I s (matchAll l)
  | .cancelFlag l f => if l ∉ s.h.alive then s else cancelBy I s (matchFlag l f)
  | .destroy l =>
    if l ∉ s.h.alive then s
    else
      -- Listener::~Listener: `CancelPendingEvents();`
      let s1 := cancelBy I s (matchAll l)
      { s1 with h := { s1.h with alive := s1.h.alive.filter (· != l) } }
  | .postpone l typ d => if l ∉ s.h.alive then s else postponeBy I s (matchType l typ) d
  | .postponeAll l d => if l ∉ s.h.alive then s else postponeBy I s (matchAll l) d

def lookup (hs : List (Nat × Nat × List Act)) (l t : Nat) : List Act :=
  match hs.find? (fun x => x.1 == l && x.2.1 == t) with
  | some x => x.2.2
  | none => []

/-- the response of the host class: the actions of the table entry, in order -/
def runHandler (s : MState Q) (e : Ev) : MState Q :=
  (lookup s.h.handlers e.lis e.typ).foldl (applyAct I true) s

/-- `EventQueue::ProcessPendingEvents()`: `t` was read once; each iteration tests the root, unlinks
    it, calls the response.  Fuel stands for "the loop runs until it breaks". -/
def processLoop : Nat → Int → MState Q → MState Q
  | 0, _, s => s
  | fuel + 1, t, s =>
    match I.popDue s.q t with
    | none => s
    | some (e, q') =>
      let s1 : MState Q := { q := q', h := { s.h with log := ⟨e, t, s.h.now, I.toList q', true⟩ :: s.h.log } }
      processLoop fuel t (runHandler I s1 e)

/-- `EventQueue::ProcessPendingEvents(Listener* l)`: `t` read once; each iteration walks from the root to
    the first node of `l` that is not behind a node with `time > t`, unlinks it, calls the response and
    starts over from the root. -/
def processLoopL (l : Nat) : Nat → Int → MState Q → MState Q
  | 0, _, s => s
  | fuel + 1, t, s =>
    match I.popDueOf s.q l t with
    | none => s
    | some (e, q') =>
      let s1 : MState Q := { q := q', h := { s.h with log := ⟨e, t, s.h.now, I.toList q', false⟩ :: s.h.log } }
      processLoopL l fuel t (runHandler I s1 e)

/-- every iteration removes one node and every node added inside a response costs one unit of budget -/
def passFuel (s : MState Q) : Nat := (I.toList s.q).length + s.h.budget + 1

def process (s : MState Q) : MState Q := processLoop I (passFuel I s) (s.h.now : Int) s
def processL (l : Nat) (s : MState Q) : MState Q := processLoopL I l (passFuel I s) (s.h.now : Int) s

/-- `ClearEventList`: every node and its `Event` are deleted (ghost: they count as cancelled) -/
def clearAll (s : MState Q) : MState Q :=
  let r := I.clear s.q
  { q := r.1, h := { s.h with cancelled := r.2 ++ s.h.cancelled } }

/-- `Archive` saving writes one record per node in link order; `Archive` loading clears the list and
    appends one node per record -/
def saveLoad (s : MState Q) : MState Q :=
  match I.load s.q (I.toList s.q) with
  | none => { s with h := { s.h with ub := true } }
  | some q' => { s with q := q' }

def Act.legalTop (h : Host) : Act → Bool
  | .tick _ => true
  | .post l _ _ _ | .cancelType l _ | .cancelAll l | .cancelFlag l _ | .destroy l
  | .postpone l _ _ | .postponeAll l _ => decide (l ∈ h.alive)

/-- one top-level host operation; `none` = not a legal program (using a destroyed listener) -/
def step (s : MState Q) : Op → Option (MState Q)
  | .act a => if Act.legalTop s.h a then some (applyAct I false s a) else none
  | .newl l => if l ≠ 0 ∧ l ∉ s.h.alive then some { s with h := { s.h with alive := l :: s.h.alive } } else none
  | .handler l t acts => some { s with h := { s.h with handlers := (l, t, acts) :: s.h.handlers } }
  | .process => some (process I s)
  | .processL l => if l ∈ s.h.alive then some (processL I l s) else none
  | .clear => some (clearAll I s)
  | .saveLoad => some (saveLoad I s)

/-- a state in which undefined behaviour has happened has no successor -/
def run : MState Q → List Op → Option (MState Q)
  | s, [] => some s
  | s, op :: ops => if s.h.ub = true then none else (step I s op).bind (run · ops)

def init (budget : Nat) : MState Q :=
  { q := I.empty, h := ⟨[], 0, budget, 1, [], [], [], [], 1, [], false⟩ }

end Machine

/-! ## the real representation -/

structure EvMem where
  m : Std.HashMap Nat Ev

namespace EvMem
def empty : EvMem := ⟨∅⟩
def get (s : EvMem) (a : Nat) : Ev := s.m.getD a default
def set (s : EvMem) (a : Nat) (v : Ev) : EvMem := ⟨s.m.insert a v⟩

theorem get_set (s : EvMem) (a x : Nat) (v : Ev) : (s.set a v).get x = if x = a then v else s.get x := by
  simp only [get, set, Std.HashMap.getD_insert]
  by_cases h : x = a
  · subst h; simp
  · have : (a == x) = false := by simp; exact fun e => h e.symm
    simp [this, h]
end EvMem

/-- `EventQueue` = `LinkedList<EventQueueNode*, &next, &prev> Node` + the nodes' fields -/
structure LQ where
  nx : Mem          -- `EventQueueNode::next`
  pv : Mem          -- `EventQueueNode::prev`
  root : Nat        -- `rootnode`
  tail : Nat        -- `tail`
  data : EvMem      -- `event, m_sourceobject, time, flags` of each node
  cnt : Nat         -- number of linked nodes (fuel for the loops that walk the list)

namespace LQ

def empty : LQ := ⟨.empty, .empty, 0, 0, .empty, 0⟩

/-- `LinkedList<T*>::Add` -/
def add (q : LQ) (n : Nat) : LQ :=
  if q.root = 0 then
    -- tail = rootnode = newnode; newnode->next = newnode->prev = nullptr
    { q with tail := n, root := n, nx := q.nx.set n 0, pv := q.pv.set n 0, cnt := q.cnt + 1 }
  else
    -- tail->next = newnode; newnode->prev = tail; newnode->next = nullptr; tail = newnode
    { q with nx := (q.nx.set q.tail n).set n 0, pv := q.pv.set n q.tail, tail := n, cnt := q.cnt + 1 }

/-- `LinkedList<T*>::AddFirst` -/
def addFirst (q : LQ) (n : Nat) : LQ :=
  if q.root = 0 then
    { q with tail := n, nx := q.nx.set n 0, pv := q.pv.set n 0, root := n, cnt := q.cnt + 1 }
  else
    -- newnode->next = rootnode; newnode->prev = nullptr; rootnode->prev = newnode; rootnode = newnode
    { q with nx := q.nx.set n q.root, pv := (q.pv.set n 0).set q.root n, root := n, cnt := q.cnt + 1 }

/-- `LinkedList<T*>::Insert(currentnode, newnode)`: never touches `rootnode` -/
def insert (q : LQ) (cur n : Nat) : LQ :=
  -- newnode->prev = currentnode->prev; newnode->next = currentnode
  let pv1 := q.pv.set n (q.pv.get cur)
  let nx1 := q.nx.set n cur
  -- if (currentnode->prev) currentnode->prev->next = newnode
  let nx2 := if pv1.get cur ≠ 0 then nx1.set (pv1.get cur) n else nx1
  -- currentnode->prev = newnode
  { q with nx := nx2, pv := pv1.set cur n, cnt := q.cnt + 1 }

/-- `LinkedList<T*>::Remove` (the node's own links are left as they are) -/
def remove (q : LQ) (n : Nat) : LQ :=
  -- if (node == rootnode) rootnode = rootnode->next
  let root1 := if n = q.root then q.nx.get q.root else q.root
  -- if (node == tail) tail = tail->prev
  let tail1 := if n = q.tail then q.pv.get q.tail else q.tail
  -- if (node->prev) node->prev->next = node->next
  let nx1 := if q.pv.get n ≠ 0 then q.nx.set (q.pv.get n) (q.nx.get n) else q.nx
  -- if (node->next) node->next->prev = node->prev
  let pv1 := if nx1.get n ≠ 0 then q.pv.set (nx1.get n) (q.pv.get n) else q.pv
  { q with root := root1, tail := tail1, nx := nx1, pv := pv1, cnt := q.cnt - 1 }

/-- the search loop of `PostEvent`: first node from `i` whose time is greater than `t` -/
def scan : Nat → LQ → Int → Nat → Nat
  | 0, _, _, i => i
  | fuel + 1, q, t, i =>
    if i = 0 then 0
    else if (q.data.get i).due > t then i
    else scan fuel q t (q.nx.get i)

/-- `EventQueue::PostEvent` after `node->time/event/flags` are filled in -/
def post (q0 : LQ) (e : Ev) : LQ :=
  let n := e.id
  let q : LQ := { q0 with data := q0.data.set n e }
  if q.root ≠ 0 ∧ e.due < (q.data.get q.tail).due then
    if (q.data.get q.root).due ≤ e.due then
      -- find a node with the highest time before the new one; insert between nodes
      insert q (scan q.cnt q e.due q.root) n
    else
      -- the node has the lowest time, as a consequence add it first
      addFirst q n
  else
    -- add first root node or append at tail if it has the highest time
    add q n

/-- `for (node = root; node; node = next) { next = node.Next(); if (match) { Remove(node); delete node; } }` -/
def cancelLoop : Nat → LQ → (Ev → Bool) → Nat → List Ev → LQ × List Ev
  | 0, q, _, _, acc => (q, acc)
  | fuel + 1, q, p, node, acc =>
    if node = 0 then (q, acc)
    else
      let next := q.nx.get node
      if p (q.data.get node) then cancelLoop fuel (remove q node) p next (q.data.get node :: acc)
      else cancelLoop fuel q p next acc

def cancel (q : LQ) (p : Ev → Bool) : LQ × List Ev := cancelLoop q.cnt q p q.root []

/-- head of the loop of `ProcessPendingEvents`: `while(!Node.IsEmpty()) { node = Node.Root();
    if (node->time > t) break; Node.Remove(node); …` -/
def popDue (q : LQ) (t : Int) : Option (Ev × LQ) :=
  if q.root = 0 then none
  else if (q.data.get q.root).due > t then none
  else some (q.data.get q.root, remove q q.root)

/-- `IsEventPending` -/
def pendLoop : Nat → LQ → (Ev → Bool) → Nat → Bool
  | 0, _, _, _ => false
  | fuel + 1, q, p, i =>
    if i = 0 then false
    else if p (q.data.get i) then true
    else pendLoop fuel q p (q.nx.get i)

def isPending (q : LQ) (p : Ev → Bool) : Bool := pendLoop q.cnt q p q.root

/-- walk `next` from `i` -/
def walk : Nat → (Nat → Nat) → Nat → List Nat
  | 0, _, _ => []
  | fuel + 1, nx, i => if i = 0 then [] else i :: walk fuel nx (nx i)

def ids (q : LQ) : List Nat := walk q.cnt q.nx.get q.root
def toList (q : LQ) : List Ev := (ids q).map q.data.get

/-- the outer loops of `PostponeEvent / PostponeAllEvents`: first node from `i` that matches -/
def findFirst : Nat → LQ → (Ev → Bool) → Nat → Nat
  | 0, _, _, _ => 0
  | fuel + 1, q, p, i =>
    if i = 0 then 0
    else if p (q.data.get i) then i
    else findFirst fuel q p (q.nx.get i)

/-- `EventQueue::PostponeEvent` / `PostponeAllEvents` (they differ in the match only).
    `relinks = false` is the code with the single `Node.Insert(node, event)`;
    `relinks = true` the repaired code that chooses `Add / AddFirst / Insert` (notes/C08-suggested-fix-1.diff). -/
def postpone (relinks : Bool) (q0 : LQ) (p : Ev → Bool) (d : Int) (ord : Nat) : Option (LQ × Option (Ev × Ev)) :=
  let ev := findFirst q0.cnt q0 p q0.root
  if ev = 0 then some (q0, none)       -- `return false`
  else
    let e := q0.data.get ev
    let e' : Ev := { e with due := e.due + d, ord := ord }
    -- event->time += time
    let q : LQ := { q0 with data := q0.data.set ev e' }
    -- for (node = event.Next(); node; node = node.Next()) { if (event->time < node->time) break; }
    let node := scan q.cnt q e'.due (q.nx.get ev)
    -- Node.Remove(event)
    let q1 := remove q ev
    if relinks then
      if node = 0 then some (add q1 ev, some (e, e'))
      else if node = q1.root then some (addFirst q1 ev, some (e, e'))
      else some (insert q1 node ev, some (e, e'))
    else
      -- Node.Insert(node, event) starts with `newnode->prev = currentnode->prev`: null dereference
      if node = 0 then none
      else some (insert q1 node ev, some (e, e'))

/-- the walk of `ProcessPendingEvents(Listener* l)`: `while (event) { if (event->time > t) break;
    if (obj != l) event = event.Next(); else <process event> }`; result: the node to process, or 0 -/
def findDueOf : Nat → LQ → Nat → Int → Nat → Nat
  | 0, _, _, _, _ => 0
  | fuel + 1, q, l, t, i =>
    if i = 0 then 0
    else if (q.data.get i).due > t then 0
    else if (q.data.get i).lis ≠ l then findDueOf fuel q l t (q.nx.get i)
    else i

def popDueOf (q : LQ) (l : Nat) (t : Int) : Option (Ev × LQ) :=
  let n := findDueOf q.cnt q l t q.root
  if n = 0 then none else some (q.data.get n, remove q n)

/-- `ClearEventList`: the loop deletes every node and its event (ghost: in walk order, newest first in
    the ledger), then `Node.Reset()` -/
def clear (q : LQ) : LQ × List Ev :=
  ({ q with root := 0, tail := 0, cnt := 0 }, (toList q).reverse)

/-- `Archive`, loading: `ClearEventList()`, then per record `new EventQueueNode`, the fields, `Node.Add(node)`.
    `setsEvent = false` is the code that never stores the `Event` it read in `node->event`: every node
    it creates carries an indeterminate pointer, which nothing can use; the model stops there. -/
def load (setsEvent : Bool) (q : LQ) (recs : List Ev) : Option LQ :=
  let q0 := (clear q).1
  if setsEvent = false ∧ recs ≠ [] then none
  else some (recs.foldl (fun q e => add { q with data := q.data.set e.id e } e.id) q0)

end LQ

/-- what the translator reads from `EventQueue.cpp` (`lean/MorfuseModel/Gen/EventQueueCfg.lean`) -/
structure Cfg where
  /-- `Postpone…` re-links the moved node by `Add / AddFirst / Insert` depending on where it goes -/
  postponeRelinks : Bool
  /-- the loading branch of `Archive` stores the event it read in `node->event` -/
  loadSetsEvent : Bool
  deriving DecidableEq, Repr

def Cfg.repaired : Cfg := ⟨true, true⟩
def Cfg.original : Cfg := ⟨false, false⟩

namespace LQ

def implC (c : Cfg) : QImpl LQ :=
  ⟨empty, post, cancel, popDue, isPending, toList, postpone c.postponeRelinks, popDueOf, clear, load c.loadSetsEvent⟩

/-- the repaired configuration: what the theorems of `Props/C08.lean` are about -/
def impl : QImpl LQ := implC Cfg.repaired

end LQ

/-! ## the model the driver runs and the theorems speak about -/

abbrev State := MState LQ
def init (budget : Nat) : State := Machine.init LQ.impl budget
def step (s : State) (op : Op) : Option State := Machine.step LQ.impl s op
def run (s : State) (ops : List Op) : Option State := Machine.run LQ.impl s ops
def stepC (c : Cfg) (s : State) (op : Op) : Option State := Machine.step (LQ.implC c) s op
def runC (c : Cfg) (s : State) (ops : List Op) : Option State := Machine.run (LQ.implC c) s ops
def pending (s : State) : List Ev := LQ.toList s.q
def isPending (s : State) (l typ : Nat) : Bool := LQ.isPending s.q (Machine.matchType l typ)
/-- delivered events, oldest first -/
def delivered (s : State) : List Ev := (s.h.log.map (·.ev)).reverse

def Reachable (s : State) : Prop := ∃ b ops, run (init b) ops = some s
/-- reachable by the model of the code in configuration `c` -/
def ReachableC (c : Cfg) (s : State) : Prop := ∃ b ops, runC c (init b) ops = some s

end Morfuse.EventQueue
