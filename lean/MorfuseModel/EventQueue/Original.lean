import MorfuseModel.EventQueue.Lemmas
/-!
# The code as it is (`Cfg.original`): what `Postpone…` and the loading branch of `Archive` do

`LQ.postpone false` is the transcription of `PostponeEvent / PostponeAllEvents` with the single
`Node.Remove(event); Node.Insert(node, event);`.  From any well-formed queue (`R qa qs`: all the code
reaches before its first postponement):

* `original_postpone_root_lost`: when the match is the root and stays the earliest, the node is linked in
  front of the new root without `rootnode` being updated — the walk from the root no longer meets it;
* `original_postpone_tail_ub`: when nothing after the match has a later due time (in particular when the match
  is the last or the only node) the cursor is null and `Insert` dereferences it;
* `original_load_ub`: the loading branch of `Archive` leaves `node->event` indeterminate in every node it creates.
-/
namespace Morfuse.EventQueue
open Machine

theorem original_postpone_root_lost {qa : LQ} {e c : Ev} {u : List Ev} {p : Ev → Bool} {d : Int} {ord : Nat}
    (h : R qa (e :: c :: u)) (hp : p e = true) (hlt : e.due + d < c.due) :
    ∃ qa', LQ.postpone false qa p d ord = some (qa', some (e, { e with due := e.due + d, ord := ord })) ∧
      LQ.toList qa' = c :: u := by
  obtain ⟨hr, hd⟩ := h
  have hz : ∀ x ∈ e :: c :: u, x.id ≠ 0 := fun x hx => R.id_ne_zero ⟨hr, hd⟩ hx
  have hff := findFirst_spec (q := qa) (p := p) (e :: c :: u) 0 qa.cnt hr.seg hd hz (by simp [hr.cnt])
  rw [← hr.root] at hff
  simp only [List.dropWhile_cons, hp, Bool.not_true, Bool.false_eq_true, if_false, List.map_cons, List.headD_cons] at hff
  have he0 : e.id ≠ 0 := hz e (by simp)
  have hc0 : c.id ≠ 0 := hz c (by simp)
  have hde : qa.data.get e.id = e := hd e (by simp)
  unfold LQ.postpone
  simp only [hff, he0, if_false, hde, Bool.false_eq_true]
  generalize he' : ({ e with due := e.due + d, ord := ord } : Ev) = e'
  have hdue' : e'.due = e.due + d := by rw [← he']
  let q : LQ := { qa with data := qa.data.set e.id e' }
  have hrq : Repr q ([] ++ e.id :: (c :: u).map (·.id)) :=
    ⟨hr.nodup, hr.nz, hr.root, hr.tail, hr.seg, hr.cnt⟩
  obtain ⟨_, _, _, her, _⟩ := nodup_split hrq.nodup
  obtain ⟨_, _, g3, g4⟩ := hrq.split
  have hdo : ∀ x ∈ c :: u, q.data.get x.id = x := by
    intro x hx
    have hne : x.id ≠ e.id := fun heq => her (heq ▸ List.mem_map_of_mem hx)
    show (qa.data.set e.id e').get x.id = x
    rw [EvMem.get_set, if_neg hne]; exact hd x (List.mem_cons_of_mem _ hx)
  have hscan : LQ.scan q.cnt q e'.due (q.nx.get e.id) = c.id := by
    rw [g3]
    have := scan_spec (q := q) (t := e'.due) (c :: u) e.id q.cnt g4 hdo
      (fun x hx => hz x (List.mem_cons_of_mem _ hx)) (by
        have := hrq.cnt; simp at this; show (c :: u).length ≤ qa.cnt; have h2 : q.cnt = qa.cnt := rfl; simp; omega)
    have hle : ListQ.leDue e'.due c = false := by simp [ListQ.leDue]; omega
    simpa [List.dropWhile_cons, hle] using this
  rw [← hdue']
  show ∃ qa', (if LQ.scan q.cnt q e'.due (q.nx.get e.id) = 0 then none
      else some (LQ.insert (q.remove e.id) (LQ.scan q.cnt q e'.due (q.nx.get e.id)) e.id, some (e, e'))) =
        some (qa', some (e, e')) ∧ LQ.toList qa' = c :: u
  rw [hscan]
  simp only [hc0, if_false]
  refine ⟨_, rfl, ?_⟩
  have hq1 : Repr (q.remove e.id) ((c :: u).map (·.id)) := by simpa using repr_remove hrq
  have hce : c.id ≠ e.id := fun heq => her (heq ▸ List.mem_map_of_mem (List.mem_cons_self ..))
  have hpvc : (q.remove e.id).pv.get c.id = 0 := hq1.seg.1
  -- the links after `Insert(c, e)`: `next` is unchanged on the nodes that are still reachable
  have hnx : ∀ x ∈ (c :: u).map (·.id), (LQ.insert (q.remove e.id) c.id e.id).nx.get x = (q.remove e.id).nx.get x := by
    intro x hx
    have hxe : x ≠ e.id := fun heq => her (heq ▸ hx)
    unfold LQ.insert
    simp only [Mem.get_set_ne _ _ _ _ hce, hpvc, ne_eq, not_true_eq_false, if_false]
    rw [Mem.get_set_ne _ _ _ _ hxe]
  have hseg : Seg (LQ.insert (q.remove e.id) c.id e.id).nx.get (q.remove e.id).pv.get 0 ((c :: u).map (·.id)) 0 :=
    seg_congr _ 0 0 hnx (fun _ _ => rfl) hq1.seg
  have hroot : (LQ.insert (q.remove e.id) c.id e.id).root = ((c :: u).map (·.id)).headD 0 := by
    show (q.remove e.id).root = _
    exact hq1.root
  have hids : (LQ.insert (q.remove e.id) c.id e.id).ids = (c :: u).map (·.id) := by
    unfold LQ.ids
    rw [hroot]
    exact walk_seg _ 0 _ hseg hq1.nz (by
      show ((c :: u).map (·.id)).length ≤ (q.remove e.id).cnt + 1
      rw [hq1.cnt]; omega)
  unfold LQ.toList
  rw [hids]
  have hdata : (LQ.insert (q.remove e.id) c.id e.id).data = q.data := by simp [LQ.insert, LQ.remove]
  rw [hdata]
  exact map_get_id (c :: u) hdo

theorem original_postpone_tail_ub {qa : LQ} {pre rest : List Ev} {e : Ev} {p : Ev → Bool} {d : Int} {ord : Nat}
    (h : R qa (pre ++ e :: rest)) (hpre : ∀ x ∈ pre, p x = false) (hp : p e = true)
    (hle : ∀ x ∈ rest, x.due ≤ e.due + d) : LQ.postpone false qa p d ord = none := by
  obtain ⟨hr, hd⟩ := h
  have hz : ∀ x ∈ pre ++ e :: rest, x.id ≠ 0 := fun x hx => R.id_ne_zero ⟨hr, hd⟩ hx
  have hff := findFirst_spec (q := qa) (p := p) (pre ++ e :: rest) 0 qa.cnt hr.seg hd hz (by simp [hr.cnt])
  rw [← hr.root] at hff
  have hdw : (pre ++ e :: rest).dropWhile (fun x => !p x) = e :: rest := by
    rw [List.dropWhile_append_of_pos (fun x hx => by simp [hpre x hx])]
    simp [List.dropWhile_cons, hp]
  rw [hdw] at hff
  simp only [List.map_cons, List.headD_cons] at hff
  have he0 : e.id ≠ 0 := hz e (by simp)
  have hde : qa.data.get e.id = e := hd e (by simp)
  unfold LQ.postpone
  simp only [hff, he0, if_false, hde, Bool.false_eq_true]
  generalize he' : ({ e with due := e.due + d, ord := ord } : Ev) = e'
  have hdue' : e'.due = e.due + d := by rw [← he']
  let q : LQ := { qa with data := qa.data.set e.id e' }
  have hrq : Repr q (pre.map (·.id) ++ e.id :: rest.map (·.id)) := by
    have : (pre ++ e :: rest).map (·.id) = pre.map (·.id) ++ e.id :: rest.map (·.id) := by simp
    rw [← this]; exact ⟨hr.nodup, hr.nz, hr.root, hr.tail, hr.seg, hr.cnt⟩
  obtain ⟨_, _, _, her, _⟩ := nodup_split hrq.nodup
  obtain ⟨_, _, g3, g4⟩ := hrq.split
  have hdo : ∀ x ∈ rest, q.data.get x.id = x := by
    intro x hx
    have hne : x.id ≠ e.id := fun heq => her (heq ▸ List.mem_map_of_mem hx)
    show (qa.data.set e.id e').get x.id = x
    rw [EvMem.get_set, if_neg hne]; exact hd x (by simp [hx])
  have hscan : LQ.scan q.cnt q e'.due (q.nx.get e.id) = 0 := by
    rw [g3]
    have := scan_spec (q := q) (t := e'.due) rest e.id q.cnt g4 hdo
      (fun x hx => hz x (by simp [hx])) (by
        have := hrq.cnt; simp at this; show rest.length ≤ qa.cnt; have h2 : q.cnt = qa.cnt := rfl; omega)
    have hall : ∀ x ∈ rest, ListQ.leDue e'.due x = true := by
      intro x hx; have := hle x hx; simp [ListQ.leDue]; omega
    rw [(takeWhile_eq_self hall).2] at this
    simpa using this
  rw [← hdue']
  show (if LQ.scan q.cnt q e'.due (q.nx.get e.id) = 0 then none
      else some (LQ.insert (q.remove e.id) (LQ.scan q.cnt q e'.due (q.nx.get e.id)) e.id, some (e, e'))) = none
  rw [hscan]; rfl

theorem original_load_ub (qa : LQ) {recs : List Ev} (h : recs ≠ []) : LQ.load false qa recs = none := by
  unfold LQ.load
  simp [h]

/-- the history `newl 1; post 1 1 5 0; post 1 2 9 0` -/
def origOps : List Op := [.newl 1, .act (.post 1 1 5 0), .act (.post 1 2 9 0)]

theorem orig_pre : ∃ s, runC Cfg.original (init 0) origOps = some s ∧
    R s.q [⟨1, 1, 1, 5, 0, 1⟩, ⟨2, 1, 2, 9, 0, 2⟩] ∧ s.h.alive = [1] ∧ s.h.ub = false ∧ s.h.log = [] ∧
    s.h.cancelled = [] ∧ s.h.nextOrd = 3 := by
  have hspec : ∃ ss, Machine.run ListQ.impl (Machine.init ListQ.impl 0) origOps = some ss ∧
      ss.q = [⟨1, 1, 1, 5, 0, 1⟩, ⟨2, 1, 2, 9, 0, 2⟩] ∧ ss.h.alive = [1] ∧ ss.h.ub = false ∧ ss.h.log = [] ∧
      ss.h.cancelled = [] ∧ ss.h.nextOrd = 3 := ⟨_, rfl, by decide⟩
  obtain ⟨ss, hr, h1, h2, h3, h4, h5, h6⟩ := hspec
  obtain ⟨s, hs, _, _⟩ := reachable_of_spec hr
  obtain ⟨ss2, hr2, _, hh, hR⟩ := refines hs
  rw [hr] at hr2
  cases hr2
  have e : runC Cfg.original (init 0) origOps = run (init 0) origOps := rfl
  refine ⟨s, by rw [e]; exact hs, by rw [← h1]; exact hR, ?_, ?_, ?_, ?_, ?_⟩ <;> rw [hh] <;> assumption

end Morfuse.EventQueue
