import MorfuseModel.EventQueue.Spec
/-!
# The link-level queue refines the list specification

`R qa qs`: the links of `qa` represent the ids of `qs` in order, and the node fields stored for
each id are the event itself.  Every `QImpl` operation of `LQ.impl` maps `R`-related queues to
`R`-related queues and returns the same observations as `ListQ.impl`; the generic machine then
carries the relation through whole histories (`sim_run`).
-/
namespace Morfuse.EventQueue

def R (qa : LQ) (qs : List Ev) : Prop :=
  Repr qa (qs.map (·.id)) ∧ ∀ e ∈ qs, qa.data.get e.id = e

theorem R.empty : R LQ.empty [] := ⟨repr_empty, by simp⟩

theorem map_get_id {qa : LQ} : ∀ (qs : List Ev), (∀ e ∈ qs, qa.data.get e.id = e) →
    (qs.map (·.id)).map qa.data.get = qs
  | [], _ => rfl
  | a :: t, h => by
    simp only [List.map_cons, h a (by simp)]
    rw [map_get_id t (fun e he => h e (by simp [he]))]

theorem R.toList {qa : LQ} {qs : List Ev} (h : R qa qs) : LQ.toList qa = qs := by
  unfold LQ.toList
  rw [h.1.ids]
  exact map_get_id qs h.2

theorem R.id_ne_zero {qa : LQ} {qs : List Ev} (h : R qa qs) {e : Ev} (he : e ∈ qs) : e.id ≠ 0 := by
  intro e0
  exact h.1.nz (by rw [← e0]; exact List.mem_map_of_mem he)

/-! ### PostEvent -/

theorem scan_spec {q : LQ} {t : Int} : ∀ (u : List Ev) (p fuel : Nat),
    Seg q.nx.get q.pv.get p (u.map (·.id)) 0 → (∀ x ∈ u, q.data.get x.id = x) → (∀ x ∈ u, x.id ≠ 0) →
    u.length ≤ fuel →
    LQ.scan fuel q t ((u.map (·.id)).headD 0) = ((u.dropWhile (ListQ.leDue t)).map (·.id)).headD 0
  | [], _, fuel, _, _, _, _ => by cases fuel <;> simp [LQ.scan]
  | a :: u, _, 0, _, _, _, hf => by simp at hf
  | a :: u, _, fuel + 1, h, hd, hz, hf => by
    have ha : a.id ≠ 0 := hz a (by simp)
    simp only [List.map_cons, List.headD_cons, LQ.scan, ha, if_false, hd a (by simp)]
    by_cases hgt : a.due > t
    · have : ListQ.leDue t a = false := by simp [ListQ.leDue]; omega
      simp [hgt, this]
    · have : ListQ.leDue t a = true := by simp [ListQ.leDue]; omega
      simp only [hgt, if_false, List.dropWhile_cons, this, if_true]
      have h' : Seg q.nx.get q.pv.get a.id (u.map (·.id)) 0 := h.2.2
      have hnx : q.nx.get a.id = (u.map (·.id)).headD 0 := h.2.1
      rw [hnx]
      exact scan_spec u a.id fuel h' (fun x hx => hd x (by simp [hx])) (fun x hx => hz x (by simp [hx]))
        (by simpa using hf)

theorem R.post {qa : LQ} {qs : List Ev} {e : Ev} (h : R qa qs) (he0 : e.id ≠ 0)
    (hfresh : ∀ x ∈ qs, x.id ≠ e.id) : R (LQ.post qa e) (ListQ.postL qs e) := by
  obtain ⟨hr, hd⟩ := h
  -- the queue after the new node's fields are written
  let q : LQ := { qa with data := qa.data.set e.id e }
  have hrq : Repr q (qs.map (·.id)) := ⟨hr.nodup, hr.nz, hr.root, hr.tail, hr.seg, hr.cnt⟩
  have hdq : ∀ x ∈ qs, q.data.get x.id = x := by
    intro x hx
    show (qa.data.set e.id e).get x.id = x
    rw [EvMem.get_set, if_neg (hfresh x hx)]; exact hd x hx
  have hde : q.data.get e.id = e := by
    show (qa.data.set e.id e).get e.id = e
    simp [EvMem.get_set]
  have hn : e.id ∉ qs.map (·.id) := by
    intro hm; obtain ⟨x, hx, hxe⟩ := List.mem_map.1 hm; exact hfresh x hx hxe
  -- whatever link operation is used, the data relation carries over
  have fin : ∀ (q' : LQ) (l' : List Ev), q'.data = q.data → Repr q' (l'.map (·.id)) →
      (∀ x ∈ l', x ∈ qs ∨ x = e) → R q' l' := by
    intro q' l' hdata hrep hmem
    refine ⟨hrep, fun x hx => ?_⟩
    rw [hdata]
    rcases hmem x hx with h1 | h1
    · exact hdq x h1
    · subst h1; exact hde
  show R (if q.root ≠ 0 ∧ e.due < (q.data.get q.tail).due then
      if (q.data.get q.root).due ≤ e.due then LQ.insert q (LQ.scan q.cnt q e.due q.root) e.id else LQ.addFirst q e.id
    else LQ.add q e.id) (ListQ.postL qs e)
  cases qs with
  | nil =>
    have : q.root = 0 := hrq.root_zero_iff.2 rfl
    simp only [this, ne_eq, not_true_eq_false, false_and, if_false, ListQ.postL]
    exact fin _ _ (by simp [LQ.add, this]) (by simpa using repr_add hrq he0 hn) (by simp)
  | cons r t =>
    have hroot : q.root = r.id := hrq.root
    have hr0 : r.id ≠ 0 := fun e0 => hrq.nz (by simp [e0])
    have htail : q.tail = (lastD t r).id := by
      rw [hrq.tail]; simp only [List.map_cons, lastD_cons]; exact lastD_map (·.id) t r
    have hlast_mem : lastD t r ∈ r :: t := by
      have := lastD_mem (r :: t) r (by simp); simpa using this
    have hdt : q.data.get q.tail = lastD t r := by rw [htail]; exact hdq _ hlast_mem
    have hdr : q.data.get q.root = r := by rw [hroot]; exact hdq _ (by simp)
    simp only [hroot, ne_eq, hr0, not_false_eq_true, true_and, ListQ.postL]
    rw [← hroot, hdt, hdr]
    by_cases c1 : e.due < (lastD t r).due
    · simp only [c1, if_true]
      by_cases c2 : r.due ≤ e.due
      · simp only [c2, if_true]
        -- the search stops at the first node of the `dropWhile` part
        generalize htw : (r :: t).takeWhile (ListQ.leDue e.due) = tw
        generalize hdw : (r :: t).dropWhile (ListQ.leDue e.due) = dw
        have hsplit : tw ++ dw = r :: t := by rw [← htw, ← hdw]; exact List.takeWhile_append_dropWhile
        have htw_ne : tw ≠ [] := by
          rw [← htw]; simp [ListQ.leDue, c2]
        have hdw_ne : dw ≠ [] := by
          rw [← hdw]
          intro hnil
          have := dropWhile_nil_all hnil _ hlast_mem
          simp [ListQ.leDue] at this; omega
        obtain ⟨c, u, rfl⟩ := List.exists_cons_of_ne_nil hdw_ne
        have hscan : LQ.scan q.cnt q e.due q.root = c.id := by
          have := scan_spec (q := q) (t := e.due) (r :: t) 0 q.cnt hrq.seg hdq
            (fun x hx => fun e0 => hrq.nz (by rw [← e0]; exact List.mem_map_of_mem hx)) (by simp [hrq.cnt])
          rw [hdw] at this
          simpa [hroot] using this
        rw [hscan]
        have hrep' : Repr q (tw.map (·.id) ++ c.id :: u.map (·.id)) := by
          have : (r :: t).map (·.id) = tw.map (·.id) ++ c.id :: u.map (·.id) := by
            rw [← hsplit]; simp
          rw [← this]; exact hrq
        have hn' : e.id ∉ tw.map (·.id) ++ c.id :: u.map (·.id) := by
          have : (r :: t).map (·.id) = tw.map (·.id) ++ c.id :: u.map (·.id) := by
            rw [← hsplit]; simp
          rw [← this]; exact hn
        have := repr_insert hrep' (by simpa using htw_ne) he0 hn'
        apply fin _ _ (by simp [LQ.insert]) (by simpa using this)
        intro x hx
        have hx' : x ∈ tw ++ c :: u ∨ x = e := by
          simp only [List.mem_append, List.mem_cons] at hx ⊢
          rcases hx with h1 | h1 | h1 | h1
          · exact Or.inl (Or.inl h1)
          · exact Or.inr h1
          · exact Or.inl (Or.inr (Or.inl h1))
          · exact Or.inl (Or.inr (Or.inr h1))
        rw [hsplit] at hx'; exact hx'
      · simp only [c2, if_false]
        exact fin _ _ (by simp [LQ.addFirst]; split <;> rfl) (by simpa using repr_addFirst hrq he0 hn)
          (by intro x hx; simp at hx ⊢; rcases hx with h1 | h1 | h1 <;> simp [h1])
    · simp only [c1, if_false]
      refine fin _ _ (by simp [LQ.add]; split <;> rfl) (by simpa using repr_add hrq he0 hn) ?_
      intro x hx; simp at hx ⊢; rcases hx with h1 | h1 | h1 <;> simp [h1]

end Morfuse.EventQueue

namespace Morfuse.EventQueue

/-! ### the cancel loops -/

theorem cancelLoop_spec {p : Ev → Bool} : ∀ (u s : List Ev) (q : LQ) (acc : List Ev) (fuel : Nat),
    R q (s ++ u) → u.length ≤ fuel →
    R (LQ.cancelLoop fuel q p ((u.map (·.id)).headD 0) acc).1 (s ++ u.filter (fun e => !p e)) ∧
    (LQ.cancelLoop fuel q p ((u.map (·.id)).headD 0) acc).2 = (u.filter p).reverse ++ acc
  | [], s, q, acc, fuel, h, _ => by cases fuel <;> simpa [LQ.cancelLoop] using h
  | a :: u, s, q, acc, 0, _, hf => by simp at hf
  | a :: u, s, q, acc, fuel + 1, h, hf => by
    have ha : a.id ≠ 0 := h.id_ne_zero (by simp)
    have hda : q.data.get a.id = a := h.2 a (by simp)
    have hrep : Repr q (s.map (·.id) ++ a.id :: u.map (·.id)) := by simpa using h.1
    have hnx : q.nx.get a.id = (u.map (·.id)).headD 0 := hrep.split.2.2.1
    simp only [List.map_cons, List.headD_cons, LQ.cancelLoop, ha, if_false, hda, hnx]
    by_cases hp : p a = true
    · simp only [hp, if_true]
      have h' : R (q.remove a.id) (s ++ u) := by
        refine ⟨by simpa using repr_remove hrep, fun e he => ?_⟩
        show q.data.get e.id = e
        exact h.2 e (by simp at he ⊢; rcases he with h1 | h1 <;> simp [h1])
      have ih := cancelLoop_spec (p := p) u s (q.remove a.id) (a :: acc) fuel h' (by simpa using hf)
      simpa [List.filter_cons, hp] using ih
    · simp only [hp]
      have h' : R q ((s ++ [a]) ++ u) := by simpa using h
      have ih := cancelLoop_spec (p := p) u (s ++ [a]) q acc fuel h' (by simpa using hf)
      simpa [List.filter_cons, hp] using ih

theorem R.cancel {qa : LQ} {qs : List Ev} (h : R qa qs) (p : Ev → Bool) :
    R (LQ.cancel qa p).1 (ListQ.cancelL qs p).1 ∧ (LQ.cancel qa p).2 = (ListQ.cancelL qs p).2 := by
  have := cancelLoop_spec (p := p) qs [] qa [] qa.cnt (by simpa using h) (by simp [h.1.cnt])
  unfold LQ.cancel ListQ.cancelL
  rw [h.1.root]
  simpa using this

/-! ### the head of the processing loop -/

theorem R.popDue {qa : LQ} {qs : List Ev} (h : R qa qs) (t : Int) :
    match LQ.popDue qa t, ListQ.popDueL qs t with
    | none, none => True
    | some (e, qa'), some (e', qs') => e = e' ∧ R qa' qs'
    | _, _ => False := by
  unfold LQ.popDue
  cases qs with
  | nil =>
    have : qa.root = 0 := h.1.root_zero_iff.2 rfl
    simp [this, ListQ.popDueL]
  | cons a u =>
    have hroot : qa.root = a.id := h.1.root
    have ha : a.id ≠ 0 := h.id_ne_zero (by simp)
    have hda : qa.data.get a.id = a := h.2 a (by simp)
    simp only [hroot, ha, if_false, hda, ListQ.popDueL]
    by_cases hgt : a.due > t
    · simp [hgt]
    · simp only [hgt, if_false, true_and]
      have hrep : Repr qa ([] ++ a.id :: u.map (·.id)) := by simpa using h.1
      refine ⟨by simpa using repr_remove hrep, fun e he => ?_⟩
      show qa.data.get e.id = e
      exact h.2 e (by simp [he])

/-! ### IsEventPending -/

theorem pendLoop_spec {q : LQ} {p : Ev → Bool} : ∀ (u : List Ev) (pr fuel : Nat),
    Seg q.nx.get q.pv.get pr (u.map (·.id)) 0 → (∀ x ∈ u, q.data.get x.id = x) → (∀ x ∈ u, x.id ≠ 0) →
    u.length ≤ fuel → LQ.pendLoop fuel q p ((u.map (·.id)).headD 0) = u.any p
  | [], _, fuel, _, _, _, _ => by cases fuel <;> simp [LQ.pendLoop]
  | a :: u, _, 0, _, _, _, hf => by simp at hf
  | a :: u, _, fuel + 1, h, hd, hz, hf => by
    have ha : a.id ≠ 0 := hz a (by simp)
    simp only [List.map_cons, List.headD_cons, LQ.pendLoop, ha, if_false, hd a (by simp), List.any_cons]
    by_cases hp : p a = true
    · simp [hp]
    · have hnx : q.nx.get a.id = (u.map (·.id)).headD 0 := h.2.1
      simp only [hp, Bool.false_or, hnx]
      exact pendLoop_spec u a.id fuel h.2.2 (fun x hx => hd x (by simp [hx])) (fun x hx => hz x (by simp [hx]))
        (by simpa using hf)

theorem R.isPending {qa : LQ} {qs : List Ev} (h : R qa qs) (p : Ev → Bool) :
    LQ.isPending qa p = qs.any p := by
  unfold LQ.isPending
  rw [h.1.root]
  exact pendLoop_spec qs 0 qa.cnt h.1.seg h.2 (fun x hx => h.id_ne_zero hx) (by simp [h.1.cnt])

end Morfuse.EventQueue

namespace Morfuse.EventQueue

/-! ### PostponeEvent / PostponeAllEvents (repaired re-linking) -/

theorem findFirst_spec {q : LQ} {p : Ev → Bool} : ∀ (u : List Ev) (pr fuel : Nat),
    Seg q.nx.get q.pv.get pr (u.map (·.id)) 0 → (∀ x ∈ u, q.data.get x.id = x) → (∀ x ∈ u, x.id ≠ 0) →
    u.length ≤ fuel →
    LQ.findFirst fuel q p ((u.map (·.id)).headD 0) = ((u.dropWhile (fun x => !p x)).map (·.id)).headD 0
  | [], _, fuel, _, _, _, _ => by cases fuel <;> simp [LQ.findFirst]
  | a :: u, _, 0, _, _, _, hf => by simp at hf
  | a :: u, _, fuel + 1, h, hd, hz, hf => by
    have ha : a.id ≠ 0 := hz a (by simp)
    simp only [List.map_cons, List.headD_cons, LQ.findFirst, ha, if_false, hd a (by simp)]
    by_cases hp : p a = true
    · simp [hp]
    · have hp' : p a = false := by simpa using hp
      simp only [hp', Bool.false_eq_true, if_false, List.dropWhile_cons, Bool.not_false, if_true]
      have hnx : q.nx.get a.id = (u.map (·.id)).headD 0 := h.2.1
      rw [hnx]
      exact findFirst_spec u a.id fuel h.2.2 (fun x hx => hd x (by simp [hx])) (fun x hx => hz x (by simp [hx]))
        (by simpa using hf)

theorem postponeL_none {p : Ev → Bool} {d : Int} {ord : Nat} : ∀ {l : List Ev},
    l.dropWhile (fun x => !p x) = [] → ListQ.postponeL l p d ord = (l, none)
  | [], _ => rfl
  | a :: t, h => by
    rw [List.dropWhile_cons] at h
    by_cases hp : p a = true
    · simp [hp] at h
    · have hp' : p a = false := by simpa using hp
      simp only [hp', Bool.not_false, if_true] at h
      simp only [ListQ.postponeL, hp', Bool.false_eq_true, if_false, postponeL_none h]

theorem postponeL_some {p : Ev → Bool} {d : Int} {ord : Nat} {e : Ev} {rest : List Ev} : ∀ {l : List Ev},
    l.dropWhile (fun x => !p x) = e :: rest →
    ListQ.postponeL l p d ord =
      (l.takeWhile (fun x => !p x) ++ ListQ.insL rest { e with due := e.due + d, ord := ord },
       some (e, { e with due := e.due + d, ord := ord }))
  | [], h => by simp at h
  | a :: t, h => by
    rw [List.dropWhile_cons] at h
    by_cases hp : p a = true
    · simp only [hp, Bool.not_true, Bool.false_eq_true, if_false] at h
      obtain ⟨rfl, rfl⟩ := List.cons.inj h
      simp [ListQ.postponeL, hp]
    · have hp' : p a = false := by simpa using hp
      simp only [hp', Bool.not_false, if_true] at h
      simp [ListQ.postponeL, hp', postponeL_some h]

theorem R.postpone {qa : LQ} {qs : List Ev} (h : R qa qs) (p : Ev → Bool) (d : Int) (ord : Nat) :
    ∃ qa', LQ.postpone true qa p d ord = some (qa', (ListQ.postponeL qs p d ord).2) ∧
      R qa' (ListQ.postponeL qs p d ord).1 := by
  obtain ⟨hr, hd⟩ := h
  have hz : ∀ x ∈ qs, x.id ≠ 0 := fun x hx => R.id_ne_zero ⟨hr, hd⟩ hx
  have hff := findFirst_spec (q := qa) (p := p) qs 0 qa.cnt hr.seg hd hz (by simp [hr.cnt])
  rw [← hr.root] at hff
  generalize hpre : qs.takeWhile (fun x => !p x) = pre at *
  generalize hdw : qs.dropWhile (fun x => !p x) = dw at *
  have hsplit : pre ++ dw = qs := by rw [← hpre, ← hdw]; exact List.takeWhile_append_dropWhile
  unfold LQ.postpone
  cases dw with
  | nil =>
    simp only [List.map_nil, List.headD_nil] at hff
    rw [postponeL_none hdw]
    simp only [hff, if_true]
    exact ⟨qa, rfl, hr, hd⟩
  | cons e rest =>
    simp only [List.map_cons, List.headD_cons] at hff
    have hemem : e ∈ qs := by rw [← hsplit]; simp
    have he0 : e.id ≠ 0 := hz e hemem
    have hde : qa.data.get e.id = e := hd e hemem
    rw [postponeL_some hdw, hpre]
    simp only [hff, he0, if_false, hde, if_true]
    -- names
    generalize he' : ({ e with due := e.due + d, ord := ord } : Ev) = e'
    have hid' : e'.id = e.id := by rw [← he']
    have hdue' : e'.due = e.due + d := by rw [← he']
    let q : LQ := { qa with data := qa.data.set e.id e' }
    have hids : qs.map (·.id) = pre.map (·.id) ++ e.id :: rest.map (·.id) := by rw [← hsplit]; simp
    have hrq : Repr q (pre.map (·.id) ++ e.id :: rest.map (·.id)) := by
      rw [← hids]; exact ⟨hr.nodup, hr.nz, hr.root, hr.tail, hr.seg, hr.cnt⟩
    obtain ⟨hndp, hndr, hep, her, hdis⟩ := nodup_split hrq.nodup
    obtain ⟨g1, g2, g3, g4⟩ := hrq.split
    have hdo : ∀ x ∈ pre ++ rest, q.data.get x.id = x := by
      intro x hx
      have hxq : x ∈ qs := by rw [← hsplit]; simp at hx ⊢; rcases hx with h1 | h1 <;> simp [h1]
      have hne : x.id ≠ e.id := by
        intro heq
        rcases List.mem_append.1 hx with h1 | h1
        · exact hep (heq ▸ List.mem_map_of_mem h1)
        · exact her (heq ▸ List.mem_map_of_mem h1)
      show (qa.data.set e.id e').get x.id = x
      rw [EvMem.get_set, if_neg hne]; exact hd x hxq
    have hde' : q.data.get e.id = e' := by
      show (qa.data.set e.id e').get e.id = e'
      simp [EvMem.get_set]
    -- the inner search
    have hscan : LQ.scan q.cnt q e'.due (q.nx.get e.id) =
        ((rest.dropWhile (ListQ.leDue e'.due)).map (·.id)).headD 0 := by
      rw [g3]
      exact scan_spec (q := q) (t := e'.due) rest e.id q.cnt g4 (fun x hx => hdo x (by simp [hx]))
        (fun x hx => hz x (by rw [← hsplit]; simp [hx])) (by
          have := hrq.cnt; simp at this; show rest.length ≤ qa.cnt; have h2 : q.cnt = qa.cnt := rfl; omega)
    have hq1 : Repr (q.remove e.id) (pre.map (·.id) ++ rest.map (·.id)) := repr_remove hrq
    have hn : e.id ∉ pre.map (·.id) ++ rest.map (·.id) := by
      intro hm; rcases List.mem_append.1 hm with h1 | h1
      · exact hep h1
      · exact her h1
    -- whatever link operation is used, the data relation carries over
    have fin : ∀ (q' : LQ) (l' : List Ev), q'.data = q.data → Repr q' (l'.map (·.id)) →
        (∀ x ∈ l', x ∈ pre ++ rest ∨ x = e') → R q' l' := by
      intro q' l' hdata hrep hmem
      refine ⟨hrep, fun x hx => ?_⟩
      rw [hdata]
      rcases hmem x hx with h1 | h1
      · exact hdo x h1
      · subst h1; rw [hid']; exact hde'
    rw [← hdue']
    show ∃ qa', (if LQ.scan q.cnt q e'.due (q.nx.get e.id) = 0 then some (LQ.add (q.remove e.id) e.id, some (e, e'))
        else if LQ.scan q.cnt q e'.due (q.nx.get e.id) = (q.remove e.id).root then
          some (LQ.addFirst (q.remove e.id) e.id, some (e, e'))
        else some (LQ.insert (q.remove e.id) (LQ.scan q.cnt q e'.due (q.nx.get e.id)) e.id, some (e, e'))) =
          some (qa', some (e, e')) ∧ R qa' (pre ++ ListQ.insL rest e')
    rw [hscan]
    unfold ListQ.insL
    generalize htw : rest.takeWhile (ListQ.leDue e'.due) = tw
    generalize hdw2 : rest.dropWhile (ListQ.leDue e'.due) = dw2
    have hsplit2 : tw ++ dw2 = rest := by rw [← htw, ← hdw2]; exact List.takeWhile_append_dropWhile
    cases dw2 with
    | nil =>
      simp only [List.map_nil, List.headD_nil, if_true]
      have htr : tw = rest := by simpa using hsplit2
      refine ⟨_, rfl, fin _ _ (by simp [LQ.add]; split <;> rfl) ?_ ?_⟩
      · have := repr_add hq1 he0 hn
        simpa [htr, hid'] using this
      · intro x hx; simp [htr] at hx ⊢; rcases hx with h1 | h1 | h1 <;> simp [h1]
    | cons c u =>
      have hcmem : c ∈ qs := by rw [← hsplit, ← hsplit2]; simp
      have hc0 : c.id ≠ 0 := hz c hcmem
      simp only [List.map_cons, List.headD_cons, hc0, if_false]
      have hlist : pre.map (·.id) ++ rest.map (·.id) = (pre ++ tw).map (·.id) ++ c.id :: u.map (·.id) := by
        rw [← hsplit2]; simp
      have hroot1 : (q.remove e.id).root = ((pre ++ tw).map (·.id) ++ c.id :: u.map (·.id)).headD 0 := by
        rw [← hlist]; exact hq1.root
      have hmem' : ∀ x ∈ pre ++ tw ++ e' :: c :: u, x ∈ pre ++ rest ∨ x = e' := by
        intro x hx
        rw [← hsplit2]
        simp only [List.mem_append, List.mem_cons] at hx ⊢
        rcases hx with (h1 | h1) | h1 | h1 | h1
        · exact Or.inl (Or.inl h1)
        · exact Or.inl (Or.inr (Or.inl h1))
        · exact Or.inr h1
        · exact Or.inl (Or.inr (Or.inr (Or.inl h1)))
        · exact Or.inl (Or.inr (Or.inr (Or.inr h1)))
      by_cases hnil : pre ++ tw = []
      · -- the cursor is the root of what is left: AddFirst
        have hp0 : pre = [] := (List.append_eq_nil_iff.1 hnil).1
        have ht0 : tw = [] := (List.append_eq_nil_iff.1 hnil).2
        have : c.id = (q.remove e.id).root := by rw [hroot1, hnil]; rfl
        simp only [this, if_true]
        refine ⟨_, rfl, fin _ _ (by simp [LQ.addFirst]; split <;> rfl) ?_ (by simpa [List.append_assoc] using hmem')⟩
        have := repr_addFirst hq1 he0 hn
        rw [hlist, hnil] at this
        simpa [hp0, ht0, hid'] using this
      · obtain ⟨a, t, hat⟩ := List.exists_cons_of_ne_nil hnil
        have hne : c.id ≠ (q.remove e.id).root := by
          rw [hroot1, hat]
          simp only [List.map_cons, List.cons_append, List.headD_cons]
          intro heq
          have hnd := hq1.nodup
          rw [hlist, hat] at hnd
          simp only [List.map_cons, List.cons_append, List.nodup_cons, List.mem_append, List.mem_cons] at hnd
          exact hnd.1 (Or.inr (Or.inl heq.symm))
        simp only [hne, if_false]
        refine ⟨_, rfl, fin _ _ (by simp [LQ.insert, LQ.remove]) ?_ (by simpa [List.append_assoc] using hmem')⟩
        have hq1' : Repr (q.remove e.id) ((pre ++ tw).map (·.id) ++ c.id :: u.map (·.id)) := by
          rw [← hlist]; exact hq1
        have hn' : e.id ∉ (pre ++ tw).map (·.id) ++ c.id :: u.map (·.id) := by rw [← hlist]; exact hn
        have := repr_insert hq1' (by simpa using hnil) he0 hn'
        simpa [hid', List.append_assoc] using this

/-! ### ProcessPendingEvents(Listener*) -/

theorem findDueOf_spec {q : LQ} {l : Nat} {t : Int} : ∀ (u : List Ev) (pr fuel : Nat),
    Seg q.nx.get q.pv.get pr (u.map (·.id)) 0 → (∀ x ∈ u, q.data.get x.id = x) → (∀ x ∈ u, x.id ≠ 0) →
    u.length ≤ fuel →
    LQ.findDueOf fuel q l t ((u.map (·.id)).headD 0) =
      match ListQ.popDueOfL u l t with
      | none => 0
      | some (e, _) => e.id
  | [], _, fuel, _, _, _, _ => by cases fuel <;> simp [LQ.findDueOf, ListQ.popDueOfL]
  | a :: u, _, 0, _, _, _, hf => by simp at hf
  | a :: u, _, fuel + 1, h, hd, hz, hf => by
    have ha : a.id ≠ 0 := hz a (by simp)
    simp only [List.map_cons, List.headD_cons, LQ.findDueOf, ha, if_false, hd a (by simp), ListQ.popDueOfL]
    by_cases hgt : a.due > t
    · simp [hgt]
    · simp only [hgt, if_false]
      by_cases hl : a.lis ≠ l
      · simp only [hl, ne_eq, not_false_eq_true, if_true]
        have hnx : q.nx.get a.id = (u.map (·.id)).headD 0 := h.2.1
        rw [hnx, findDueOf_spec u a.id fuel h.2.2 (fun x hx => hd x (by simp [hx])) (fun x hx => hz x (by simp [hx]))
          (by simpa using hf)]
        cases ListQ.popDueOfL u l t with
        | none => rfl
        | some x => rfl
      · simp [hl]

/-- shape of a successful per-listener pop -/
theorem popDueOfL_some : ∀ {q q' : List Ev} {l : Nat} {t : Int} {e : Ev}, ListQ.popDueOfL q l t = some (e, q') →
    ∃ pre rest, q = pre ++ e :: rest ∧ q' = pre ++ rest ∧ e.lis = l ∧ e.due ≤ t ∧ ∀ x ∈ pre, x.due ≤ t ∧ x.lis ≠ l
  | [], _, _, _, _, h => by simp [ListQ.popDueOfL] at h
  | a :: r, q', l, t, e, h => by
    simp only [ListQ.popDueOfL] at h
    split at h
    · cases h
    · rename_i hgt
      split at h
      · rename_i hl
        cases hr : ListQ.popDueOfL r l t with
        | none => rw [hr] at h; cases h
        | some x =>
          obtain ⟨x1, r'⟩ := x
          rw [hr] at h
          simp only [Option.some.injEq, Prod.mk.injEq] at h
          obtain ⟨rfl, rfl⟩ := h
          obtain ⟨pre, rest, h1, h2, h3, h4, h5⟩ := popDueOfL_some hr
          refine ⟨a :: pre, rest, by simp [h1], by simp [h2], h3, h4, ?_⟩
          intro x hx
          rcases List.mem_cons.1 hx with rfl | hx'
          · exact ⟨by omega, hl⟩
          · exact h5 x hx'
      · rename_i hl
        simp only [Option.some.injEq, Prod.mk.injEq] at h
        obtain ⟨rfl, rfl⟩ := h
        exact ⟨[], r, rfl, rfl, by simpa using hl, by omega, by simp⟩

theorem R.popDueOf {qa : LQ} {qs : List Ev} (h : R qa qs) (l : Nat) (t : Int) :
    match LQ.popDueOf qa l t, ListQ.popDueOfL qs l t with
    | none, none => True
    | some (e, qa'), some (e', qs') => e = e' ∧ R qa' qs'
    | _, _ => False := by
  have hz : ∀ x ∈ qs, x.id ≠ 0 := fun x hx => h.id_ne_zero hx
  have hf := findDueOf_spec (q := qa) (l := l) (t := t) qs 0 qa.cnt h.1.seg h.2 hz (by simp [h.1.cnt])
  rw [← h.1.root] at hf
  unfold LQ.popDueOf
  simp only [hf]
  cases hs : ListQ.popDueOfL qs l t with
  | none => simp
  | some x =>
    obtain ⟨e, qs'⟩ := x
    obtain ⟨pre, rest, h1, h2, _, _, _⟩ := popDueOfL_some hs
    have hemem : e ∈ qs := by rw [h1]; simp
    simp only [hz e hemem, if_false, h.2 e hemem, true_and]
    have hrep : Repr qa (pre.map (·.id) ++ e.id :: rest.map (·.id)) := by
      have := h.1; rw [h1] at this; simpa using this
    refine ⟨by rw [h2]; simpa using repr_remove hrep, fun x hx => ?_⟩
    show qa.data.get x.id = x
    exact h.2 x (by rw [h1]; rw [h2] at hx; simp at hx ⊢; rcases hx with h3 | h3 <;> simp [h3])

/-! ### ClearEventList and Archive (repaired loading) -/

theorem R.clear {qa : LQ} {qs : List Ev} (h : R qa qs) :
    R (LQ.clear qa).1 (ListQ.cancelL qs (fun _ => true)).1 ∧ (LQ.clear qa).2 = (ListQ.cancelL qs (fun _ => true)).2 := by
  unfold LQ.clear ListQ.cancelL
  have e1 : qs.filter (fun _ => !true) = [] := by simp
  have e2 : qs.filter (fun _ => true) = qs := by simp
  simp only [e1, e2, h.toList, and_true]
  exact ⟨by constructor <;> simp [Seg], by simp⟩

theorem load_fold : ∀ (recs done : List Ev) (q : LQ), R q done → ((done ++ recs).map (·.id)).Nodup →
    (∀ x ∈ recs, x.id ≠ 0) →
    R (recs.foldl (fun q e => LQ.add { q with data := q.data.set e.id e } e.id) q) (done ++ recs)
  | [], done, q, h, _, _ => by simpa using h
  | e :: recs, done, q, h, hnd, hz => by
    simp only [List.foldl_cons]
    have hnd' : ((done ++ [e] ++ recs).map (·.id)).Nodup := by simpa using hnd
    have hfresh : ∀ x ∈ done, x.id ≠ e.id := by
      intro x hx heq
      have := hnd
      simp only [List.map_append, List.map_cons] at this
      rw [List.nodup_append] at this
      exact this.2.2 x.id (List.mem_map_of_mem hx) e.id (by simp) heq
    have hn : e.id ∉ done.map (·.id) := by
      intro hm; obtain ⟨x, hx, hxe⟩ := List.mem_map.1 hm; exact hfresh x hx hxe
    let q1 : LQ := { q with data := q.data.set e.id e }
    have hrq : Repr q1 (done.map (·.id)) := ⟨h.1.nodup, h.1.nz, h.1.root, h.1.tail, h.1.seg, h.1.cnt⟩
    have h1 : R (LQ.add q1 e.id) (done ++ [e]) := by
      refine ⟨by simpa using repr_add hrq (hz e (by simp)) hn, fun x hx => ?_⟩
      have hdata : (LQ.add q1 e.id).data = q1.data := by simp [LQ.add]; split <;> rfl
      rw [hdata]
      show (q.data.set e.id e).get x.id = x
      rcases List.mem_append.1 hx with h2 | h2
      · rw [EvMem.get_set, if_neg (hfresh x h2)]; exact h.2 x h2
      · simp at h2; subst h2; simp [EvMem.get_set]
    have := load_fold recs (done ++ [e]) _ h1 hnd' (fun x hx => hz x (by simp [hx]))
    simpa using this

theorem R.load {qa : LQ} {qs : List Ev} (h : R qa qs) :
    ∃ qa', LQ.load true qa qs = some qa' ∧ R qa' qs := by
  unfold LQ.load
  simp only [Bool.true_eq_false, false_and, if_false]
  refine ⟨_, rfl, ?_⟩
  have h0 : R (LQ.clear qa).1 [] := by
    have := h.clear.1
    have e1 : qs.filter (fun _ => false) = [] := by simp
    simpa [ListQ.cancelL, e1] using this
  have := load_fold qs [] _ h0 (by simpa using h.1.nodup) (fun x hx => h.id_ne_zero hx)
  simpa using this

end Morfuse.EventQueue

namespace Morfuse.EventQueue
open Machine

/-! ### list-level membership facts -/

theorem mem_postL {l : List Ev} {e x : Ev} : x ∈ ListQ.postL l e ↔ x ∈ l ∨ x = e := by
  unfold ListQ.postL
  cases l with
  | nil => simp
  | cons r t =>
    simp only
    split
    · split
      · have h := List.takeWhile_append_dropWhile (p := ListQ.leDue e.due) (l := r :: t)
        have : x ∈ List.takeWhile (ListQ.leDue e.due) (r :: t) ++ e :: List.dropWhile (ListQ.leDue e.due) (r :: t) ↔
            x ∈ List.takeWhile (ListQ.leDue e.due) (r :: t) ++ List.dropWhile (ListQ.leDue e.due) (r :: t) ∨ x = e := by
          simp only [List.mem_append, List.mem_cons]
          constructor
          · rintro (h1 | h1 | h1)
            · exact Or.inl (Or.inl h1)
            · exact Or.inr h1
            · exact Or.inl (Or.inr h1)
          · rintro ((h1 | h1) | h1)
            · exact Or.inl h1
            · exact Or.inr (Or.inr h1)
            · exact Or.inr (Or.inl h1)
        rw [this, h]
      · simp only [List.mem_cons]
        constructor
        · rintro (h1 | h1 | h1)
          · exact Or.inr h1
          · exact Or.inl (Or.inl h1)
          · exact Or.inl (Or.inr h1)
        · rintro ((h1 | h1) | h1)
          · exact Or.inr (Or.inl h1)
          · exact Or.inr (Or.inr h1)
          · exact Or.inl h1
    · simp [or_assoc]

theorem mem_insL {l : List Ev} {e x : Ev} : x ∈ ListQ.insL l e ↔ x ∈ l ∨ x = e := by
  unfold ListQ.insL
  have h := List.takeWhile_append_dropWhile (p := ListQ.leDue e.due) (l := l)
  constructor
  · intro hx
    simp only [List.mem_append, List.mem_cons] at hx
    rcases hx with h1 | h1 | h1
    · exact Or.inl (by rw [← h]; exact List.mem_append_left _ h1)
    · exact Or.inr h1
    · exact Or.inl (by rw [← h]; exact List.mem_append_right _ h1)
  · intro hx
    simp only [List.mem_append, List.mem_cons]
    rcases hx with h1 | h1
    · rw [← h] at h1
      rcases List.mem_append.1 h1 with h2 | h2
      · exact Or.inl h2
      · exact Or.inr (Or.inr h2)
    · exact Or.inr (Or.inl h1)

/-- a postponement changes no sequence number -/
theorem postponeL_mem_id {p : Ev → Bool} {d : Int} {ord : Nat} {x : Ev} : ∀ {l : List Ev},
    x ∈ (ListQ.postponeL l p d ord).1 → ∃ y ∈ l, y.id = x.id
  | [], hx => by simp [ListQ.postponeL] at hx
  | a :: r, hx => by
    simp only [ListQ.postponeL] at hx
    split at hx
    · rcases mem_insL.1 hx with h1 | h1
      · exact ⟨x, by simp [h1], rfl⟩
      · exact ⟨a, by simp, by rw [h1]⟩
    · rcases List.mem_cons.1 hx with h1 | h1
      · exact ⟨a, by simp, by rw [h1]⟩
      · obtain ⟨y, hy, hxy⟩ := postponeL_mem_id h1
        exact ⟨y, by simp [hy], hxy⟩

/-- what the simulation needs from the specification side: sequence numbers in the queue are
    positive and below the next one to be handed out -/
def Fresh (s : SState) : Prop := 1 ≤ s.h.nextId ∧ ∀ e ∈ s.q, 1 ≤ e.id ∧ e.id < s.h.nextId

def RelS (sa : State) (ss : SState) : Prop := R sa.q ss.q ∧ sa.h = ss.h

theorem fresh_cancelBy {s : SState} (p : Ev → Bool) (h : Fresh s) : Fresh (cancelBy ListQ.impl s p) := by
  refine ⟨h.1, fun e he => h.2 e ?_⟩
  have : e ∈ s.q.filter (fun e => !p e) := he
  exact (List.mem_filter.1 this).1

theorem fresh_postponeBy {s : SState} (p : Ev → Bool) (d : Nat) (h : Fresh s) : Fresh (postponeBy ListQ.impl s p d) := by
  have key : ∀ e ∈ (ListQ.postponeL s.q p (d : Int) s.h.nextOrd).1, 1 ≤ e.id ∧ e.id < s.h.nextId := by
    intro e he
    obtain ⟨y, hy, hxy⟩ := postponeL_mem_id he
    rw [← hxy]; exact h.2 y hy
  unfold postponeBy
  have e2 : ListQ.impl.postpone s.q p d s.h.nextOrd = some (ListQ.postponeL s.q p d s.h.nextOrd) := rfl
  rw [e2]
  rcases hx : ListQ.postponeL s.q p (d : Int) s.h.nextOrd with ⟨q', _ | ⟨e, e'⟩⟩
  · rw [hx] at key; exact ⟨h.1, key⟩
  · rw [hx] at key; exact ⟨h.1, key⟩

theorem rel_postponeBy {sa : State} {ss : SState} (p : Ev → Bool) (d : Nat) (h : RelS sa ss) :
    RelS (postponeBy LQ.impl sa p d) (postponeBy ListQ.impl ss p d) := by
  obtain ⟨hq, hh⟩ := h
  obtain ⟨qa', h1, h2⟩ := hq.postpone p (d : Int) ss.h.nextOrd
  unfold postponeBy
  have e1 : LQ.impl.postpone sa.q p d sa.h.nextOrd = some (qa', (ListQ.postponeL ss.q p d ss.h.nextOrd).2) := by
    rw [hh]; exact h1
  have e2 : ListQ.impl.postpone ss.q p d ss.h.nextOrd = some (ListQ.postponeL ss.q p d ss.h.nextOrd) := rfl
  rw [e1, e2]
  rcases hx : ListQ.postponeL ss.q p (d : Int) ss.h.nextOrd with ⟨q', _ | ⟨e, e'⟩⟩
  · rw [hx] at h2; exact ⟨h2, hh⟩
  · rw [hx] at h2; exact ⟨h2, by simp only [hh]⟩

theorem fresh_applyAct {s : SState} (re : Bool) (a : Act) (h : Fresh s) :
    Fresh (applyAct ListQ.impl re s a) := by
  cases a with
  | tick k => exact h
  | post l typ d f =>
    simp only [applyAct]
    split
    · exact h
    · split
      · exact h
      · split
        · exact ⟨Nat.le_succ_of_le h.1, fun e he => ⟨(h.2 e he).1, Nat.lt_succ_of_lt (h.2 e he).2⟩⟩
        · refine ⟨Nat.le_succ_of_le h.1, fun e he => ?_⟩
          have : e ∈ ListQ.postL s.q _ := he
          rcases mem_postL.1 this with h1 | h1
          · exact ⟨(h.2 e h1).1, Nat.lt_succ_of_lt (h.2 e h1).2⟩
          · subst h1; exact ⟨h.1, Nat.lt_succ_self _⟩
  | cancelType l typ => simp only [applyAct]; split; exact h; exact fresh_cancelBy _ h
  | cancelAll l => simp only [applyAct]; split; exact h; exact fresh_cancelBy _ h
  | cancelFlag l f => simp only [applyAct]; split; exact h; exact fresh_cancelBy _ h
  | destroy l =>
    simp only [applyAct]; split; exact h
    have := fresh_cancelBy (matchAll l) h
    exact ⟨this.1, this.2⟩
  | postpone l typ d => simp only [applyAct]; split; exact h; exact fresh_postponeBy _ _ h
  | postponeAll l d => simp only [applyAct]; split; exact h; exact fresh_postponeBy _ _ h

theorem rel_cancelBy {sa : State} {ss : SState} (p : Ev → Bool) (h : RelS sa ss) :
    RelS (cancelBy LQ.impl sa p) (cancelBy ListQ.impl ss p) := by
  obtain ⟨hq, hh⟩ := h
  have := hq.cancel p
  refine ⟨this.1, ?_⟩
  show ({ sa.h with cancelled := (LQ.cancel sa.q p).2 ++ sa.h.cancelled } : Host) =
    { ss.h with cancelled := (ListQ.cancelL ss.q p).2 ++ ss.h.cancelled }
  rw [this.2, hh]

theorem rel_applyAct {sa : State} {ss : SState} (re : Bool) (a : Act) (h : RelS sa ss) (hf : Fresh ss) :
    RelS (applyAct LQ.impl re sa a) (applyAct ListQ.impl re ss a) := by
  have hh := h.2
  cases a with
  | tick k => exact ⟨h.1, by show ({ sa.h with now := sa.h.now + k } : Host) = { ss.h with now := ss.h.now + k }; rw [hh]⟩
  | post l typ d f =>
    simp only [applyAct, hh]
    split
    · exact h
    · split
      · exact h
      · split
        · exact ⟨h.1, rfl⟩
        · refine ⟨?_, rfl⟩
          apply h.1.post
          · show ss.h.nextId ≠ 0
            have := hf.1; omega
          · intro x hx
            show x.id ≠ ss.h.nextId
            have := (hf.2 x hx).2; omega
  | cancelType l typ => simp only [applyAct, hh]; split; exact h; exact rel_cancelBy _ h
  | cancelAll l => simp only [applyAct, hh]; split; exact h; exact rel_cancelBy _ h
  | cancelFlag l f => simp only [applyAct, hh]; split; exact h; exact rel_cancelBy _ h
  | destroy l =>
    simp only [applyAct, hh]; split; exact h
    have := rel_cancelBy (matchAll l) h
    refine ⟨this.1, ?_⟩
    dsimp only
    rw [this.2]
  | postpone l typ d => simp only [applyAct, hh]; split; exact h; exact rel_postponeBy _ _ h
  | postponeAll l d => simp only [applyAct, hh]; split; exact h; exact rel_postponeBy _ _ h

theorem rel_foldl {re : Bool} : ∀ (acts : List Act) {sa : State} {ss : SState}, RelS sa ss → Fresh ss →
    RelS (acts.foldl (applyAct LQ.impl re) sa) (acts.foldl (applyAct ListQ.impl re) ss) ∧
    Fresh (acts.foldl (applyAct ListQ.impl re) ss)
  | [], _, _, h, hf => ⟨h, hf⟩
  | a :: acts, _, _, h, hf => by
    simp only [List.foldl_cons]
    exact rel_foldl acts (rel_applyAct re a h hf) (fresh_applyAct re a hf)

theorem rel_runHandler {sa : State} {ss : SState} (e : Ev) (h : RelS sa ss) (hf : Fresh ss) :
    RelS (runHandler LQ.impl sa e) (runHandler ListQ.impl ss e) ∧ Fresh (runHandler ListQ.impl ss e) := by
  unfold runHandler
  rw [h.2]
  exact rel_foldl _ h hf

theorem rel_processLoop (t : Int) : ∀ (fuel : Nat) {sa : State} {ss : SState}, RelS sa ss → Fresh ss →
    RelS (processLoop LQ.impl fuel t sa) (processLoop ListQ.impl fuel t ss) ∧
    Fresh (processLoop ListQ.impl fuel t ss)
  | 0, _, _, h, hf => ⟨h, hf⟩
  | fuel + 1, sa, ss, h, hf => by
    have hp := h.1.popDue t
    simp only [processLoop]
    have e1 : LQ.impl.popDue sa.q t = LQ.popDue sa.q t := rfl
    have e2 : ListQ.impl.popDue ss.q t = ListQ.popDueL ss.q t := rfl
    rw [e1, e2]
    cases ha : LQ.popDue sa.q t with
    | none =>
      cases hs : ListQ.popDueL ss.q t with
      | none => exact ⟨h, hf⟩
      | some x => rw [ha, hs] at hp; exact hp.elim
    | some x =>
      cases hs : ListQ.popDueL ss.q t with
      | none => rw [ha, hs] at hp; exact hp.elim
      | some y =>
        obtain ⟨e, qa'⟩ := x
        obtain ⟨e', qs'⟩ := y
        rw [ha, hs] at hp
        obtain ⟨rfl, hr⟩ := hp
        simp only
        have hsub : ∀ x ∈ qs', x ∈ ss.q := by
          intro x hx
          cases hq : ss.q with
          | nil => rw [hq] at hs; simp [ListQ.popDueL] at hs
          | cons a r =>
            rw [hq] at hs
            simp only [ListQ.popDueL] at hs
            split at hs
            · cases hs
            · cases hs; simp [hx]
        have hrel : RelS { q := qa', h := { sa.h with log := ⟨e, t, sa.h.now, LQ.toList qa', true⟩ :: sa.h.log } }
            ({ q := qs', h := { ss.h with log := ⟨e, t, ss.h.now, qs', true⟩ :: ss.h.log } } : SState) := by
          refine ⟨hr, ?_⟩
          dsimp only
          rw [hr.toList, h.2]
        have hfr : Fresh ({ q := qs', h := { ss.h with log := ⟨e, t, ss.h.now, qs', true⟩ :: ss.h.log } } : SState) :=
          ⟨hf.1, fun x hx => hf.2 x (hsub x hx)⟩
        obtain ⟨h1, h2⟩ := rel_runHandler e hrel hfr
        exact rel_processLoop t fuel h1 h2

theorem rel_processLoopL (l : Nat) (t : Int) : ∀ (fuel : Nat) {sa : State} {ss : SState}, RelS sa ss → Fresh ss →
    RelS (processLoopL LQ.impl l fuel t sa) (processLoopL ListQ.impl l fuel t ss) ∧
    Fresh (processLoopL ListQ.impl l fuel t ss)
  | 0, _, _, h, hf => ⟨h, hf⟩
  | fuel + 1, sa, ss, h, hf => by
    have hp := h.1.popDueOf l t
    simp only [processLoopL]
    have e1 : LQ.impl.popDueOf sa.q l t = LQ.popDueOf sa.q l t := rfl
    have e2 : ListQ.impl.popDueOf ss.q l t = ListQ.popDueOfL ss.q l t := rfl
    rw [e1, e2]
    cases ha : LQ.popDueOf sa.q l t with
    | none =>
      cases hs : ListQ.popDueOfL ss.q l t with
      | none => exact ⟨h, hf⟩
      | some x => rw [ha, hs] at hp; exact hp.elim
    | some x =>
      cases hs : ListQ.popDueOfL ss.q l t with
      | none => rw [ha, hs] at hp; exact hp.elim
      | some y =>
        obtain ⟨e, qa'⟩ := x
        obtain ⟨e', qs'⟩ := y
        rw [ha, hs] at hp
        obtain ⟨rfl, hr⟩ := hp
        simp only
        obtain ⟨pre, rest, q1, q2, _, _, _⟩ := popDueOfL_some hs
        have hsub : ∀ x ∈ qs', x ∈ ss.q := by
          intro x hx
          rw [q1]; rw [q2] at hx
          simp at hx ⊢; rcases hx with h3 | h3 <;> simp [h3]
        have hrel : RelS { q := qa', h := { sa.h with log := ⟨e, t, sa.h.now, LQ.toList qa', false⟩ :: sa.h.log } }
            ({ q := qs', h := { ss.h with log := ⟨e, t, ss.h.now, qs', false⟩ :: ss.h.log } } : SState) := by
          refine ⟨hr, ?_⟩
          dsimp only
          rw [hr.toList, h.2]
        have hfr : Fresh ({ q := qs', h := { ss.h with log := ⟨e, t, ss.h.now, qs', false⟩ :: ss.h.log } } : SState) :=
          ⟨hf.1, fun x hx => hf.2 x (hsub x hx)⟩
        obtain ⟨h1, h2⟩ := rel_runHandler e hrel hfr
        exact rel_processLoopL l t fuel h1 h2

theorem rel_processL {sa : State} {ss : SState} (l : Nat) (h : RelS sa ss) (hf : Fresh ss) :
    RelS (processL LQ.impl l sa) (processL ListQ.impl l ss) ∧ Fresh (processL ListQ.impl l ss) := by
  unfold processL passFuel
  have : LQ.impl.toList sa.q = ListQ.impl.toList ss.q := h.1.toList
  rw [this, h.2]
  exact rel_processLoopL l _ _ h hf

theorem rel_clearAll {sa : State} {ss : SState} (h : RelS sa ss) :
    RelS (clearAll LQ.impl sa) (clearAll ListQ.impl ss) := by
  obtain ⟨hq, hh⟩ := h
  have := hq.clear
  refine ⟨this.1, ?_⟩
  show ({ sa.h with cancelled := (LQ.clear sa.q).2 ++ sa.h.cancelled } : Host) =
    { ss.h with cancelled := (ListQ.cancelL ss.q (fun _ => true)).2 ++ ss.h.cancelled }
  rw [this.2, hh]

theorem rel_saveLoad {sa : State} {ss : SState} (h : RelS sa ss) :
    RelS (saveLoad LQ.impl sa) (saveLoad ListQ.impl ss) := by
  obtain ⟨qa', h1, h2⟩ := h.1.load
  unfold saveLoad
  have e1 : LQ.impl.load sa.q (LQ.impl.toList sa.q) = some qa' := by
    show LQ.load true sa.q (LQ.toList sa.q) = some qa'
    rw [h.1.toList]; exact h1
  have e2 : ListQ.impl.load ss.q (ListQ.impl.toList ss.q) = some ss.q := rfl
  rw [e1, e2]
  exact ⟨h2, h.2⟩

theorem rel_process {sa : State} {ss : SState} (h : RelS sa ss) (hf : Fresh ss) :
    RelS (process LQ.impl sa) (process ListQ.impl ss) ∧ Fresh (process ListQ.impl ss) := by
  unfold process passFuel
  have : LQ.impl.toList sa.q = ListQ.impl.toList ss.q := h.1.toList
  rw [this, h.2]
  exact rel_processLoop _ _ h hf

/-- one top-level operation: accepted by both or by neither, and the relation is kept -/
theorem rel_step {sa : State} {ss : SState} (op : Op) (h : RelS sa ss) (hf : Fresh ss) :
    match Machine.step LQ.impl sa op, Machine.step ListQ.impl ss op with
    | none, none => True
    | some sa', some ss' => RelS sa' ss' ∧ Fresh ss'
    | _, _ => False := by
  cases op with
  | act a =>
    simp only [Machine.step, h.2]
    by_cases hl : Act.legalTop ss.h a = true
    · rw [if_pos hl, if_pos hl]
      exact ⟨rel_applyAct false a h hf, fresh_applyAct false a hf⟩
    · rw [if_neg hl, if_neg hl]; trivial
  | newl l =>
    simp only [Machine.step, h.2]
    by_cases hl : l ≠ 0 ∧ l ∉ ss.h.alive
    · rw [if_pos hl, if_pos hl]
      exact ⟨⟨h.1, rfl⟩, hf⟩
    · rw [if_neg hl, if_neg hl]; trivial
  | handler l t acts =>
    simp only [Machine.step]
    exact ⟨⟨h.1, by dsimp only; rw [h.2]⟩, hf⟩
  | process =>
    simp only [Machine.step]
    exact rel_process h hf
  | processL l =>
    simp only [Machine.step, h.2]
    by_cases hl : l ∈ ss.h.alive
    · rw [if_pos hl, if_pos hl]
      exact rel_processL l h hf
    · rw [if_neg hl, if_neg hl]; trivial
  | clear =>
    simp only [Machine.step]
    exact ⟨rel_clearAll h, fresh_cancelBy (fun _ => true) hf⟩
  | saveLoad =>
    simp only [Machine.step]
    exact ⟨rel_saveLoad h, hf⟩

theorem rel_run : ∀ (ops : List Op) {sa : State} {ss : SState}, RelS sa ss → Fresh ss →
    match Machine.run LQ.impl sa ops, Machine.run ListQ.impl ss ops with
    | none, none => True
    | some sa', some ss' => RelS sa' ss' ∧ Fresh ss'
    | _, _ => False
  | [], _, _, h, hf => ⟨h, hf⟩
  | op :: ops, sa, ss, h, hf => by
    have hs := rel_step op h hf
    simp only [Machine.run, h.2]
    by_cases hub : ss.h.ub = true
    · simp [hub]
    simp only [hub, if_false]
    cases ha : Machine.step LQ.impl sa op with
    | none =>
      cases hb : Machine.step ListQ.impl ss op with
      | none => simp
      | some y => rw [ha, hb] at hs; exact hs.elim
    | some x =>
      cases hb : Machine.step ListQ.impl ss op with
      | none => rw [ha, hb] at hs; exact hs.elim
      | some y =>
        rw [ha, hb] at hs
        simp only [Option.bind_some]
        exact rel_run ops hs.1 hs.2

theorem rel_init (b : Nat) : RelS (init b) (Machine.init ListQ.impl b) ∧ Fresh (Machine.init ListQ.impl b) :=
  ⟨⟨R.empty, rfl⟩, by simp [Fresh, Machine.init, ListQ.impl]⟩

/-- **Refinement.** Every history accepted by the link-level model is accepted by the list
    specification, ends in a state with the same host fields (clock, budget, delivery log, ledgers),
    and the walk over the links yields exactly the specification's list. -/
theorem refines {b : Nat} {ops : List Op} {s : State} (h : run (init b) ops = some s) :
    ∃ ss : SState, Machine.run ListQ.impl (Machine.init ListQ.impl b) ops = some ss ∧
      pending s = ss.q ∧ s.h = ss.h ∧ R s.q ss.q := by
  have := rel_run ops (rel_init b).1 (rel_init b).2
  unfold run at h
  rw [h] at this
  cases hb : Machine.run ListQ.impl (Machine.init ListQ.impl b) ops with
  | none => rw [hb] at this; exact this.elim
  | some ss =>
    rw [hb] at this
    exact ⟨ss, rfl, this.1.1.toList, this.1.2, this.1.1⟩

end Morfuse.EventQueue
