import MorfuseModel.EventQueue.Spec
/-!
# The link-level queue refines the list specification

`R qa qs`: the links of `qa` represent the ids of `qs` in order, and the node fields stored for
each id are the event itself.  Every `QImpl` operation of `LQ.impl` maps `R`-related queues to
`R`-related queues and returns the same observations as `ListQ.impl`; the generic machine then
carries the relation through whole histories (`sim_run`).
-/
namespace Morfuse.EventQueue

def R (qa : LQ) (qs : List Ev) : Prop :=
  Repr qa (qs.map (·.id)) ∧ ∀ e ∈ qs, qa.data.get e.id = e

theorem R.empty : R LQ.empty [] := ⟨repr_empty, by simp⟩

theorem map_get_id {qa : LQ} : ∀ (qs : List Ev), (∀ e ∈ qs, qa.data.get e.id = e) →
    (qs.map (·.id)).map qa.data.get = qs
  | [], _ => rfl
  | a :: t, h => by
    simp only [List.map_cons, h a (by simp)]
    rw [map_get_id t (fun e he => h e (by simp [he]))]

theorem R.toList {qa : LQ} {qs : List Ev} (h : R qa qs) : LQ.toList qa = qs := by
  unfold LQ.toList
  rw [h.1.ids]
  exact map_get_id qs h.2

theorem R.id_ne_zero {qa : LQ} {qs : List Ev} (h : R qa qs) {e : Ev} (he : e ∈ qs) : e.id ≠ 0 := by
  intro e0
  exact h.1.nz (by rw [← e0]; exact List.mem_map_of_mem he)

/-! ### PostEvent -/

theorem scan_spec {q : LQ} {t : Int} : ∀ (u : List Ev) (p fuel : Nat),
    Seg q.nx.get q.pv.get p (u.map (·.id)) 0 → (∀ x ∈ u, q.data.get x.id = x) → (∀ x ∈ u, x.id ≠ 0) →
    u.length ≤ fuel →
    LQ.scan fuel q t ((u.map (·.id)).headD 0) = ((u.dropWhile (ListQ.leDue t)).map (·.id)).headD 0
  | [], _, fuel, _, _, _, _ => by cases fuel <;> simp [LQ.scan]
  | a :: u, _, 0, _, _, _, hf => by simp at hf
  | a :: u, _, fuel + 1, h, hd, hz, hf => by
    have ha : a.id ≠ 0 := hz a (by simp)
    simp only [List.map_cons, List.headD_cons, LQ.scan, ha, if_false, hd a (by simp)]
    by_cases hgt : a.due > t
    · have : ListQ.leDue t a = false := by simp [ListQ.leDue]; omega
      simp [hgt, this]
    · have : ListQ.leDue t a = true := by simp [ListQ.leDue]; omega
      simp only [hgt, if_false, List.dropWhile_cons, this, if_true]
      have h' : Seg q.nx.get q.pv.get a.id (u.map (·.id)) 0 := h.2.2
      have hnx : q.nx.get a.id = (u.map (·.id)).headD 0 := h.2.1
      rw [hnx]
      exact scan_spec u a.id fuel h' (fun x hx => hd x (by simp [hx])) (fun x hx => hz x (by simp [hx]))
        (by simpa using hf)

theorem R.post {qa : LQ} {qs : List Ev} {e : Ev} (h : R qa qs) (he0 : e.id ≠ 0)
    (hfresh : ∀ x ∈ qs, x.id ≠ e.id) : R (LQ.post qa e) (ListQ.postL qs e) := by
  obtain ⟨hr, hd⟩ := h
  -- the queue after the new node's fields are written
  let q : LQ := { qa with data := qa.data.set e.id e }
  have hrq : Repr q (qs.map (·.id)) := ⟨hr.nodup, hr.nz, hr.root, hr.tail, hr.seg, hr.cnt⟩
  have hdq : ∀ x ∈ qs, q.data.get x.id = x := by
    intro x hx
    show (qa.data.set e.id e).get x.id = x
    rw [EvMem.get_set, if_neg (hfresh x hx)]; exact hd x hx
  have hde : q.data.get e.id = e := by
    show (qa.data.set e.id e).get e.id = e
    simp [EvMem.get_set]
  have hn : e.id ∉ qs.map (·.id) := by
    intro hm; obtain ⟨x, hx, hxe⟩ := List.mem_map.1 hm; exact hfresh x hx hxe
  -- whatever link operation is used, the data relation carries over
  have fin : ∀ (q' : LQ) (l' : List Ev), q'.data = q.data → Repr q' (l'.map (·.id)) →
      (∀ x ∈ l', x ∈ qs ∨ x = e) → R q' l' := by
    intro q' l' hdata hrep hmem
    refine ⟨hrep, fun x hx => ?_⟩
    rw [hdata]
    rcases hmem x hx with h1 | h1
    · exact hdq x h1
    · subst h1; exact hde
  show R (if q.root ≠ 0 ∧ e.due < (q.data.get q.tail).due then
      if (q.data.get q.root).due ≤ e.due then LQ.insert q (LQ.scan q.cnt q e.due q.root) e.id else LQ.addFirst q e.id
    else LQ.add q e.id) (ListQ.postL qs e)
  cases qs with
  | nil =>
    have : q.root = 0 := hrq.root_zero_iff.2 rfl
    simp only [this, ne_eq, not_true_eq_false, false_and, if_false, ListQ.postL]
    exact fin _ _ (by simp [LQ.add, this]) (by simpa using repr_add hrq he0 hn) (by simp)
  | cons r t =>
    have hroot : q.root = r.id := hrq.root
    have hr0 : r.id ≠ 0 := fun e0 => hrq.nz (by simp [e0])
    have htail : q.tail = (lastD t r).id := by
      rw [hrq.tail]; simp only [List.map_cons, lastD_cons]; exact lastD_map (·.id) t r
    have hlast_mem : lastD t r ∈ r :: t := by
      have := lastD_mem (r :: t) r (by simp); simpa using this
    have hdt : q.data.get q.tail = lastD t r := by rw [htail]; exact hdq _ hlast_mem
    have hdr : q.data.get q.root = r := by rw [hroot]; exact hdq _ (by simp)
    simp only [hroot, ne_eq, hr0, not_false_eq_true, true_and, ListQ.postL]
    rw [← hroot, hdt, hdr]
    by_cases c1 : e.due < (lastD t r).due
    · simp only [c1, if_true]
      by_cases c2 : r.due ≤ e.due
      · simp only [c2, if_true]
        -- the search stops at the first node of the `dropWhile` part
        generalize htw : (r :: t).takeWhile (ListQ.leDue e.due) = tw
        generalize hdw : (r :: t).dropWhile (ListQ.leDue e.due) = dw
        have hsplit : tw ++ dw = r :: t := by rw [← htw, ← hdw]; exact List.takeWhile_append_dropWhile
        have htw_ne : tw ≠ [] := by
          rw [← htw]; simp [ListQ.leDue, c2]
        have hdw_ne : dw ≠ [] := by
          rw [← hdw]
          intro hnil
          have := dropWhile_nil_all hnil _ hlast_mem
          simp [ListQ.leDue] at this; omega
        obtain ⟨c, u, rfl⟩ := List.exists_cons_of_ne_nil hdw_ne
        have hscan : LQ.scan q.cnt q e.due q.root = c.id := by
          have := scan_spec (q := q) (t := e.due) (r :: t) 0 q.cnt hrq.seg hdq
            (fun x hx => fun e0 => hrq.nz (by rw [← e0]; exact List.mem_map_of_mem hx)) (by simp [hrq.cnt])
          rw [hdw] at this
          simpa [hroot] using this
        rw [hscan]
        have hrep' : Repr q (tw.map (·.id) ++ c.id :: u.map (·.id)) := by
          have : (r :: t).map (·.id) = tw.map (·.id) ++ c.id :: u.map (·.id) := by
            rw [← hsplit]; simp
          rw [← this]; exact hrq
        have hn' : e.id ∉ tw.map (·.id) ++ c.id :: u.map (·.id) := by
          have : (r :: t).map (·.id) = tw.map (·.id) ++ c.id :: u.map (·.id) := by
            rw [← hsplit]; simp
          rw [← this]; exact hn
        have := repr_insert hrep' (by simpa using htw_ne) he0 hn'
        apply fin _ _ (by simp [LQ.insert]) (by simpa using this)
        intro x hx
        have hx' : x ∈ tw ++ c :: u ∨ x = e := by
          simp only [List.mem_append, List.mem_cons] at hx ⊢
          rcases hx with h1 | h1 | h1 | h1
          · exact Or.inl (Or.inl h1)
          · exact Or.inr h1
          · exact Or.inl (Or.inr (Or.inl h1))
          · exact Or.inl (Or.inr (Or.inr h1))
        rw [hsplit] at hx'; exact hx'
      · simp only [c2, if_false]
        exact fin _ _ (by simp [LQ.addFirst]; split <;> rfl) (by simpa using repr_addFirst hrq he0 hn)
          (by intro x hx; simp at hx ⊢; rcases hx with h1 | h1 | h1 <;> simp [h1])
    · simp only [c1, if_false]
      refine fin _ _ (by simp [LQ.add]; split <;> rfl) (by simpa using repr_add hrq he0 hn) ?_
      intro x hx; simp at hx ⊢; rcases hx with h1 | h1 | h1 <;> simp [h1]

end Morfuse.EventQueue

namespace Morfuse.EventQueue

/-! ### the cancel loops -/

theorem cancelLoop_spec {p : Ev → Bool} : ∀ (u s : List Ev) (q : LQ) (acc : List Ev) (fuel : Nat),
    R q (s ++ u) → u.length ≤ fuel →
    R (LQ.cancelLoop fuel q p ((u.map (·.id)).headD 0) acc).1 (s ++ u.filter (fun e => !p e)) ∧
    (LQ.cancelLoop fuel q p ((u.map (·.id)).headD 0) acc).2 = (u.filter p).reverse ++ acc
  | [], s, q, acc, fuel, h, _ => by cases fuel <;> simpa [LQ.cancelLoop] using h
  | a :: u, s, q, acc, 0, _, hf => by simp at hf
  | a :: u, s, q, acc, fuel + 1, h, hf => by
    have ha : a.id ≠ 0 := h.id_ne_zero (by simp)
    have hda : q.data.get a.id = a := h.2 a (by simp)
    have hrep : Repr q (s.map (·.id) ++ a.id :: u.map (·.id)) := by simpa using h.1
    have hnx : q.nx.get a.id = (u.map (·.id)).headD 0 := hrep.split.2.2.1
    simp only [List.map_cons, List.headD_cons, LQ.cancelLoop, ha, if_false, hda, hnx]
    by_cases hp : p a = true
    · simp only [hp, if_true]
      have h' : R (q.remove a.id) (s ++ u) := by
        refine ⟨by simpa using repr_remove hrep, fun e he => ?_⟩
        show q.data.get e.id = e
        exact h.2 e (by simp at he ⊢; rcases he with h1 | h1 <;> simp [h1])
      have ih := cancelLoop_spec (p := p) u s (q.remove a.id) (a :: acc) fuel h' (by simpa using hf)
      simpa [List.filter_cons, hp] using ih
    · simp only [hp]
      have h' : R q ((s ++ [a]) ++ u) := by simpa using h
      have ih := cancelLoop_spec (p := p) u (s ++ [a]) q acc fuel h' (by simpa using hf)
      simpa [List.filter_cons, hp] using ih

theorem R.cancel {qa : LQ} {qs : List Ev} (h : R qa qs) (p : Ev → Bool) :
    R (LQ.cancel qa p).1 (ListQ.cancelL qs p).1 ∧ (LQ.cancel qa p).2 = (ListQ.cancelL qs p).2 := by
  have := cancelLoop_spec (p := p) qs [] qa [] qa.cnt (by simpa using h) (by simp [h.1.cnt])
  unfold LQ.cancel ListQ.cancelL
  rw [h.1.root]
  simpa using this

/-! ### the head of the processing loop -/

theorem R.popDue {qa : LQ} {qs : List Ev} (h : R qa qs) (t : Int) :
    match LQ.popDue qa t, ListQ.popDueL qs t with
    | none, none => True
    | some (e, qa'), some (e', qs') => e = e' ∧ R qa' qs'
    | _, _ => False := by
  unfold LQ.popDue
  cases qs with
  | nil =>
    have : qa.root = 0 := h.1.root_zero_iff.2 rfl
    simp [this, ListQ.popDueL]
  | cons a u =>
    have hroot : qa.root = a.id := h.1.root
    have ha : a.id ≠ 0 := h.id_ne_zero (by simp)
    have hda : qa.data.get a.id = a := h.2 a (by simp)
    simp only [hroot, ha, if_false, hda, ListQ.popDueL]
    by_cases hgt : a.due > t
    · simp [hgt]
    · simp only [hgt, if_false, true_and]
      have hrep : Repr qa ([] ++ a.id :: u.map (·.id)) := by simpa using h.1
      refine ⟨by simpa using repr_remove hrep, fun e he => ?_⟩
      show qa.data.get e.id = e
      exact h.2 e (by simp [he])

/-! ### IsEventPending -/

theorem pendLoop_spec {q : LQ} {p : Ev → Bool} : ∀ (u : List Ev) (pr fuel : Nat),
    Seg q.nx.get q.pv.get pr (u.map (·.id)) 0 → (∀ x ∈ u, q.data.get x.id = x) → (∀ x ∈ u, x.id ≠ 0) →
    u.length ≤ fuel → LQ.pendLoop fuel q p ((u.map (·.id)).headD 0) = u.any p
  | [], _, fuel, _, _, _, _ => by cases fuel <;> simp [LQ.pendLoop]
  | a :: u, _, 0, _, _, _, hf => by simp at hf
  | a :: u, _, fuel + 1, h, hd, hz, hf => by
    have ha : a.id ≠ 0 := hz a (by simp)
    simp only [List.map_cons, List.headD_cons, LQ.pendLoop, ha, if_false, hd a (by simp), List.any_cons]
    by_cases hp : p a = true
    · simp [hp]
    · have hnx : q.nx.get a.id = (u.map (·.id)).headD 0 := h.2.1
      simp only [hp, Bool.false_or, hnx]
      exact pendLoop_spec u a.id fuel h.2.2 (fun x hx => hd x (by simp [hx])) (fun x hx => hz x (by simp [hx]))
        (by simpa using hf)

theorem R.isPending {qa : LQ} {qs : List Ev} (h : R qa qs) (p : Ev → Bool) :
    LQ.isPending qa p = qs.any p := by
  unfold LQ.isPending
  rw [h.1.root]
  exact pendLoop_spec qs 0 qa.cnt h.1.seg h.2 (fun x hx => h.id_ne_zero hx) (by simp [h.1.cnt])

end Morfuse.EventQueue

namespace Morfuse.EventQueue
open Machine

/-! ### list-level membership facts -/

theorem mem_postL {l : List Ev} {e x : Ev} : x ∈ ListQ.postL l e ↔ x ∈ l ∨ x = e := by
  unfold ListQ.postL
  cases l with
  | nil => simp
  | cons r t =>
    simp only
    split
    · split
      · have h := List.takeWhile_append_dropWhile (p := ListQ.leDue e.due) (l := r :: t)
        have : x ∈ List.takeWhile (ListQ.leDue e.due) (r :: t) ++ e :: List.dropWhile (ListQ.leDue e.due) (r :: t) ↔
            x ∈ List.takeWhile (ListQ.leDue e.due) (r :: t) ++ List.dropWhile (ListQ.leDue e.due) (r :: t) ∨ x = e := by
          simp only [List.mem_append, List.mem_cons]
          constructor
          · rintro (h1 | h1 | h1)
            · exact Or.inl (Or.inl h1)
            · exact Or.inr h1
            · exact Or.inl (Or.inr h1)
          · rintro ((h1 | h1) | h1)
            · exact Or.inl h1
            · exact Or.inr (Or.inr h1)
            · exact Or.inr (Or.inl h1)
        rw [this, h]
      · simp only [List.mem_cons]
        constructor
        · rintro (h1 | h1 | h1)
          · exact Or.inr h1
          · exact Or.inl (Or.inl h1)
          · exact Or.inl (Or.inr h1)
        · rintro ((h1 | h1) | h1)
          · exact Or.inr (Or.inl h1)
          · exact Or.inr (Or.inr h1)
          · exact Or.inl h1
    · simp [or_assoc]

/-- what the simulation needs from the specification side: sequence numbers in the queue are
    positive and below the next one to be handed out -/
def Fresh (s : SState) : Prop := 1 ≤ s.h.nextId ∧ ∀ e ∈ s.q, 1 ≤ e.id ∧ e.id < s.h.nextId

def RelS (sa : State) (ss : SState) : Prop := R sa.q ss.q ∧ sa.h = ss.h

theorem fresh_cancelBy {s : SState} (p : Ev → Bool) (h : Fresh s) : Fresh (cancelBy ListQ.impl s p) := by
  refine ⟨h.1, fun e he => h.2 e ?_⟩
  have : e ∈ s.q.filter (fun e => !p e) := he
  exact (List.mem_filter.1 this).1

theorem fresh_applyAct {s : SState} (re : Bool) (a : Act) (h : Fresh s) :
    Fresh (applyAct ListQ.impl re s a) := by
  cases a with
  | tick k => exact h
  | post l typ d f =>
    simp only [applyAct]
    split
    · exact h
    · split
      · exact h
      · split
        · exact ⟨Nat.le_succ_of_le h.1, fun e he => ⟨(h.2 e he).1, Nat.lt_succ_of_lt (h.2 e he).2⟩⟩
        · refine ⟨Nat.le_succ_of_le h.1, fun e he => ?_⟩
          have : e ∈ ListQ.postL s.q _ := he
          rcases mem_postL.1 this with h1 | h1
          · exact ⟨(h.2 e h1).1, Nat.lt_succ_of_lt (h.2 e h1).2⟩
          · subst h1; exact ⟨h.1, Nat.lt_succ_self _⟩
  | cancelType l typ => simp only [applyAct]; split; exact h; exact fresh_cancelBy _ h
  | cancelAll l => simp only [applyAct]; split; exact h; exact fresh_cancelBy _ h
  | cancelFlag l f => simp only [applyAct]; split; exact h; exact fresh_cancelBy _ h
  | destroy l =>
    simp only [applyAct]; split; exact h
    have := fresh_cancelBy (matchAll l) h
    exact ⟨this.1, this.2⟩

theorem rel_cancelBy {sa : State} {ss : SState} (p : Ev → Bool) (h : RelS sa ss) :
    RelS (cancelBy LQ.impl sa p) (cancelBy ListQ.impl ss p) := by
  obtain ⟨hq, hh⟩ := h
  have := hq.cancel p
  refine ⟨this.1, ?_⟩
  show ({ sa.h with cancelled := (LQ.cancel sa.q p).2 ++ sa.h.cancelled } : Host) =
    { ss.h with cancelled := (ListQ.cancelL ss.q p).2 ++ ss.h.cancelled }
  rw [this.2, hh]

theorem rel_applyAct {sa : State} {ss : SState} (re : Bool) (a : Act) (h : RelS sa ss) (hf : Fresh ss) :
    RelS (applyAct LQ.impl re sa a) (applyAct ListQ.impl re ss a) := by
  have hh := h.2
  cases a with
  | tick k => exact ⟨h.1, by show ({ sa.h with now := sa.h.now + k } : Host) = { ss.h with now := ss.h.now + k }; rw [hh]⟩
  | post l typ d f =>
    simp only [applyAct, hh]
    split
    · exact h
    · split
      · exact h
      · split
        · exact ⟨h.1, rfl⟩
        · refine ⟨?_, rfl⟩
          apply h.1.post
          · show ss.h.nextId ≠ 0
            have := hf.1; omega
          · intro x hx
            show x.id ≠ ss.h.nextId
            have := (hf.2 x hx).2; omega
  | cancelType l typ => simp only [applyAct, hh]; split; exact h; exact rel_cancelBy _ h
  | cancelAll l => simp only [applyAct, hh]; split; exact h; exact rel_cancelBy _ h
  | cancelFlag l f => simp only [applyAct, hh]; split; exact h; exact rel_cancelBy _ h
  | destroy l =>
    simp only [applyAct, hh]; split; exact h
    have := rel_cancelBy (matchAll l) h
    refine ⟨this.1, ?_⟩
    dsimp only
    rw [this.2]

theorem rel_foldl {re : Bool} : ∀ (acts : List Act) {sa : State} {ss : SState}, RelS sa ss → Fresh ss →
    RelS (acts.foldl (applyAct LQ.impl re) sa) (acts.foldl (applyAct ListQ.impl re) ss) ∧
    Fresh (acts.foldl (applyAct ListQ.impl re) ss)
  | [], _, _, h, hf => ⟨h, hf⟩
  | a :: acts, _, _, h, hf => by
    simp only [List.foldl_cons]
    exact rel_foldl acts (rel_applyAct re a h hf) (fresh_applyAct re a hf)

theorem rel_runHandler {sa : State} {ss : SState} (e : Ev) (h : RelS sa ss) (hf : Fresh ss) :
    RelS (runHandler LQ.impl sa e) (runHandler ListQ.impl ss e) ∧ Fresh (runHandler ListQ.impl ss e) := by
  unfold runHandler
  rw [h.2]
  exact rel_foldl _ h hf

theorem rel_processLoop (t : Int) : ∀ (fuel : Nat) {sa : State} {ss : SState}, RelS sa ss → Fresh ss →
    RelS (processLoop LQ.impl fuel t sa) (processLoop ListQ.impl fuel t ss) ∧
    Fresh (processLoop ListQ.impl fuel t ss)
  | 0, _, _, h, hf => ⟨h, hf⟩
  | fuel + 1, sa, ss, h, hf => by
    have hp := h.1.popDue t
    simp only [processLoop]
    have e1 : LQ.impl.popDue sa.q t = LQ.popDue sa.q t := rfl
    have e2 : ListQ.impl.popDue ss.q t = ListQ.popDueL ss.q t := rfl
    rw [e1, e2]
    cases ha : LQ.popDue sa.q t with
    | none =>
      cases hs : ListQ.popDueL ss.q t with
      | none => exact ⟨h, hf⟩
      | some x => rw [ha, hs] at hp; exact hp.elim
    | some x =>
      cases hs : ListQ.popDueL ss.q t with
      | none => rw [ha, hs] at hp; exact hp.elim
      | some y =>
        obtain ⟨e, qa'⟩ := x
        obtain ⟨e', qs'⟩ := y
        rw [ha, hs] at hp
        obtain ⟨rfl, hr⟩ := hp
        simp only
        have hsub : ∀ x ∈ qs', x ∈ ss.q := by
          intro x hx
          cases hq : ss.q with
          | nil => rw [hq] at hs; simp [ListQ.popDueL] at hs
          | cons a r =>
            rw [hq] at hs
            simp only [ListQ.popDueL] at hs
            split at hs
            · cases hs
            · cases hs; simp [hx]
        have hrel : RelS { q := qa', h := { sa.h with log := ⟨e, t, sa.h.now, LQ.toList qa'⟩ :: sa.h.log } }
            ({ q := qs', h := { ss.h with log := ⟨e, t, ss.h.now, qs'⟩ :: ss.h.log } } : SState) := by
          refine ⟨hr, ?_⟩
          dsimp only
          rw [hr.toList, h.2]
        have hfr : Fresh ({ q := qs', h := { ss.h with log := ⟨e, t, ss.h.now, qs'⟩ :: ss.h.log } } : SState) :=
          ⟨hf.1, fun x hx => hf.2 x (hsub x hx)⟩
        obtain ⟨h1, h2⟩ := rel_runHandler e hrel hfr
        exact rel_processLoop t fuel h1 h2

theorem rel_process {sa : State} {ss : SState} (h : RelS sa ss) (hf : Fresh ss) :
    RelS (process LQ.impl sa) (process ListQ.impl ss) ∧ Fresh (process ListQ.impl ss) := by
  unfold process passFuel
  have : LQ.impl.toList sa.q = ListQ.impl.toList ss.q := h.1.toList
  rw [this, h.2]
  exact rel_processLoop _ _ h hf

/-- one top-level operation: accepted by both or by neither, and the relation is kept -/
theorem rel_step {sa : State} {ss : SState} (op : Op) (h : RelS sa ss) (hf : Fresh ss) :
    match Machine.step LQ.impl sa op, Machine.step ListQ.impl ss op with
    | none, none => True
    | some sa', some ss' => RelS sa' ss' ∧ Fresh ss'
    | _, _ => False := by
  cases op with
  | act a =>
    simp only [Machine.step, h.2]
    by_cases hl : Act.legalTop ss.h a = true
    · rw [if_pos hl, if_pos hl]
      exact ⟨rel_applyAct false a h hf, fresh_applyAct false a hf⟩
    · rw [if_neg hl, if_neg hl]; trivial
  | newl l =>
    simp only [Machine.step, h.2]
    by_cases hl : l ≠ 0 ∧ l ∉ ss.h.alive
    · rw [if_pos hl, if_pos hl]
      exact ⟨⟨h.1, rfl⟩, hf⟩
    · rw [if_neg hl, if_neg hl]; trivial
  | handler l t acts =>
    simp only [Machine.step]
    exact ⟨⟨h.1, by dsimp only; rw [h.2]⟩, hf⟩
  | process =>
    simp only [Machine.step]
    exact rel_process h hf

theorem rel_run : ∀ (ops : List Op) {sa : State} {ss : SState}, RelS sa ss → Fresh ss →
    match Machine.run LQ.impl sa ops, Machine.run ListQ.impl ss ops with
    | none, none => True
    | some sa', some ss' => RelS sa' ss' ∧ Fresh ss'
    | _, _ => False
  | [], _, _, h, hf => ⟨h, hf⟩
  | op :: ops, sa, ss, h, hf => by
    have hs := rel_step op h hf
    simp only [Machine.run]
    cases ha : Machine.step LQ.impl sa op with
    | none =>
      cases hb : Machine.step ListQ.impl ss op with
      | none => simp
      | some y => rw [ha, hb] at hs; exact hs.elim
    | some x =>
      cases hb : Machine.step ListQ.impl ss op with
      | none => rw [ha, hb] at hs; exact hs.elim
      | some y =>
        rw [ha, hb] at hs
        simp only [Option.bind_some]
        exact rel_run ops hs.1 hs.2

theorem rel_init (b : Nat) : RelS (init b) (Machine.init ListQ.impl b) ∧ Fresh (Machine.init ListQ.impl b) :=
  ⟨⟨R.empty, rfl⟩, by simp [Fresh, Machine.init, ListQ.impl]⟩

/-- **Refinement.** Every history accepted by the link-level model is accepted by the list
    specification, ends in a state with the same host fields (clock, budget, delivery log, ledgers),
    and the walk over the links yields exactly the specification's list. -/
theorem refines {b : Nat} {ops : List Op} {s : State} (h : run (init b) ops = some s) :
    ∃ ss : SState, Machine.run ListQ.impl (Machine.init ListQ.impl b) ops = some ss ∧
      pending s = ss.q ∧ s.h = ss.h ∧ R s.q ss.q := by
  have := rel_run ops (rel_init b).1 (rel_init b).2
  unfold run at h
  rw [h] at this
  cases hb : Machine.run ListQ.impl (Machine.init ListQ.impl b) ops with
  | none => rw [hb] at this; exact this.elim
  | some ss =>
    rw [hb] at this
    exact ⟨ss, rfl, this.1.1.toList, this.1.2, this.1.1⟩

end Morfuse.EventQueue
