import MorfuseModel.EventQueue.LinkList
/-!
# Abstract specification of the queue: a list of events

The second instance of `QImpl`.  `postL` keeps the three-way case split of `EventQueue::PostEvent`
(compare with the tail, compare with the root, else search) at list level, so that the refinement
proof is purely structural; that `postL` is a stable sorted insertion is a separate theorem about
lists (`postL_eq_insert`).
-/
namespace Morfuse.EventQueue

/-! small facts about `takeWhile / dropWhile` missing from core -/
theorem dropWhile_nil_all {α : Type} {p : α → Bool} : ∀ {l : List α}, l.dropWhile p = [] → ∀ x ∈ l, p x = true
  | [], _, x, hx => by simp at hx
  | a :: t, h, x, hx => by
    rw [List.dropWhile_cons] at h
    by_cases hp : p a = true
    · simp only [hp, if_true] at h
      rcases List.mem_cons.1 hx with rfl | hx'
      · exact hp
      · exact dropWhile_nil_all h x hx'
    · simp [hp] at h

theorem takeWhile_all {α : Type} {p : α → Bool} : ∀ {l : List α}, ∀ x ∈ l.takeWhile p, p x = true
  | [], x, hx => by simp at hx
  | a :: t, x, hx => by
    rw [List.takeWhile_cons] at hx
    by_cases hp : p a = true
    · simp only [hp, if_true] at hx
      rcases List.mem_cons.1 hx with rfl | hx'
      · exact hp
      · exact takeWhile_all x hx'
    · simp [hp] at hx

theorem dropWhile_head {α : Type} {p : α → Bool} : ∀ {l : List α} {c : α} {u : List α},
    l.dropWhile p = c :: u → p c = false
  | [], _, _, h => by simp at h
  | a :: t, c, u, h => by
    rw [List.dropWhile_cons] at h
    by_cases hp : p a = true
    · simp only [hp, if_true] at h; exact dropWhile_head h
    · simp only [hp] at h
      have : a = c := by simpa using (List.cons.inj h).1
      subst this; simpa using hp

namespace ListQ

def leDue (t : Int) (x : Ev) : Bool := decide (x.due ≤ t)

def postL (l : List Ev) (e : Ev) : List Ev :=
  match l with
  | [] => [e]
  | r :: t =>
    if e.due < (lastD t r).due then
      if r.due ≤ e.due then
        (r :: t).takeWhile (leDue e.due) ++ e :: (r :: t).dropWhile (leDue e.due)
      else e :: r :: t
    else r :: t ++ [e]

def cancelL (l : List Ev) (p : Ev → Bool) : List Ev × List Ev :=
  (l.filter (fun e => !p e), (l.filter p).reverse)

def popDueL : List Ev → Int → Option (Ev × List Ev)
  | [], _ => none
  | e :: r, t => if e.due > t then none else some (e, r)

/-- sorted insertion: after every event whose due time is not later, before the first later one -/
def insL (l : List Ev) (e : Ev) : List Ev :=
  l.takeWhile (leDue e.due) ++ e :: l.dropWhile (leDue e.due)

/-- `Postpone…` at list level, as the (repaired) code does it: the first match gets a later due time
    and is moved forward, behind every *following* event whose due time is not later -/
def postponeL : List Ev → (Ev → Bool) → Int → Nat → List Ev × Option (Ev × Ev)
  | [], _, _, _ => ([], none)
  | e :: r, p, d, ord =>
    if p e then
      let e' : Ev := { e with due := e.due + d, ord := ord }
      (insL r e', some (e, e'))
    else
      let x := postponeL r p d ord
      (e :: x.1, x.2)

def popDueOfL : List Ev → Nat → Int → Option (Ev × List Ev)
  | [], _, _ => none
  | e :: r, l, t =>
    if e.due > t then none
    else if e.lis ≠ l then
      match popDueOfL r l t with
      | none => none
      | some (x, r') => some (x, e :: r')
    else some (e, r)

def impl : QImpl (List Ev) :=
  ⟨[], postL, cancelL, popDueL, fun l p => l.any p, id,
   fun l p d ord => some (postponeL l p d ord), popDueOfL, fun l => cancelL l (fun _ => true), fun _ recs => some recs⟩

end ListQ

abbrev SState := MState (List Ev)

end Morfuse.EventQueue
