import MorfuseModel.HashSet.Refine
/-!
# `set_enum` / `map_enum`: a sweep of `NextElement` returns every entry exactly once
-/
namespace Morfuse.HashSet
variable {κ ν : Type}

/-- what an enumerator has still to deliver -/
def remaining (s : State κ ν) (e : Enum κ ν) : List (Entry κ ν) :=
  e.rest ++ (List.range e.idx).reverse.flatMap (bucket s)

theorem range_succ_rev_flatMap (s : State κ ν) (i : Nat) :
    (List.range (i + 1)).reverse.flatMap (bucket s) = bucket s i ++ (List.range i).reverse.flatMap (bucket s) := by
  rw [List.range_succ, List.reverse_append]
  simp

theorem advance_spec (s : State κ ν) : ∀ i,
    (List.range i).reverse.flatMap (bucket s) = (advance s i).2 ++ (List.range (advance s i).1).reverse.flatMap (bucket s) ∧
    ((advance s i).2 = [] → (advance s i).1 = 0)
  | 0 => by simp [advance]
  | i + 1 => by
    rw [range_succ_rev_flatMap]
    cases hb : bucket s i with
    | nil =>
      have ih := advance_spec s i
      simp only [advance, hb]
      simpa using ih
    | cons x r =>
      simp only [advance, hb]
      exact ⟨trivial, fun h => by cases h⟩

/-- one `NextElement()`: it returns the head of what remains, `nullptr` exactly when nothing remains -/
theorem enumNext_spec (s : State κ ν) (e : Enum κ ν) :
    match (enumNext s e).2 with
    | some x => remaining s e = x :: remaining s (enumNext s e).1 ∧ (enumNext s e).1.cur = some x
    | none => remaining s e = [] ∧ remaining s (enumNext s e).1 = [] ∧ (enumNext s e).1.cur = none := by
  unfold enumNext
  by_cases hr : e.rest.isEmpty = true
  · have hre : e.rest = [] := by simpa using hr
    obtain ⟨a, b⟩ := advance_spec s e.idx
    simp only [hr, if_true]
    cases hc : (advance s e.idx).2 with
    | nil =>
      have h0 := b hc
      simp only [remaining, hre, List.nil_append]
      rw [a, hc, h0]
      simp
    | cons x r =>
      simp only [remaining, hre, List.nil_append]
      rw [a, hc]
      simp
  · have hf : e.rest.isEmpty = false := by simpa using hr
    simp only [hf]
    cases hc : e.rest with
    | nil => simp [hc] at hf
    | cons x r => simp [remaining, hc]

/-- a whole sweep with at most `n` calls -/
def drain (s : State κ ν) : Nat → Enum κ ν → List (Entry κ ν)
  | 0, _ => []
  | n + 1, e =>
    match (enumNext s e).2 with
    | some x => x :: drain s n (enumNext s e).1
    | none => []

theorem drain_eq (s : State κ ν) : ∀ (n : Nat) (e : Enum κ ν), (remaining s e).length ≤ n →
    drain s n e = remaining s e := by
  intro n
  induction n with
  | zero =>
    intro e h
    have : remaining s e = [] := List.eq_nil_of_length_eq_zero (by omega)
    simp [drain, this]
  | succ n ih =>
    intro e h
    have hs := enumNext_spec s e
    simp only [drain]
    cases hn : (enumNext s e).2 with
    | none => rw [hn] at hs; simp [hs.1]
    | some x =>
      rw [hn] at hs
      simp only
      rw [hs.1] at h ⊢
      rw [ih _ (by simpa using h)]

theorem enumAll_eq_remaining (s : State κ ν) : enumAll s = remaining s (enumStart s) := by
  simp [enumAll, remaining, enumStart]

/-- a re-bound enumerator is a fresh one: nothing of its previous sweep survives -/
theorem enumRebind_eq_start (s : State κ ν) (e : Enum κ ν) : enumRebind s e = enumStart s := rfl

/-- a default-constructed enumerator delivers nothing, on any table (`m_Index = 0`, `m_Set` never read) -/
theorem enumNext_default (s : State κ ν) : (enumNext s (enumDefault : Enum κ ν)).2 = none := by
  simp [enumNext, enumDefault, advance]

theorem flatMap_getD_range : ∀ (t : List (List (Entry κ ν))),
    (List.range t.length).flatMap (fun b => t.getD b []) = t.flatten
  | [] => by simp
  | x :: t => by
    rw [List.length_cons, List.range_succ_eq_map, List.flatMap_cons, List.flatMap_map]
    have := flatMap_getD_range t
    simp only [List.getD_cons_zero, List.flatten_cons]
    congr 1

variable {hash : κ → Nat}

/-- the sweep order is a permutation of the table's entries -/
theorem enumAll_perm {s : State κ ν} (h : Inv hash s) : (enumAll s).Perm (ents s) := by
  have : (enumAll s).Perm ((List.range s.tableLength).flatMap (bucket s)) := by
    unfold enumAll
    exact List.Perm.flatMap_right _ (List.reverse_perm _)
  refine this.trans ?_
  rw [← h.len]
  have := flatMap_getD_range s.table
  simp only [ents]
  rw [← this]
  exact List.Perm.refl _

end Morfuse.HashSet
