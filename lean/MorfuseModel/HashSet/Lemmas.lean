import MorfuseModel.HashSet.Model
/-!
# Lemmas for the `con::set` model

`ents s = s.table.flatten` is the multiset of entries; every operation is characterised by what it
does to `ents` up to permutation, the invariant `Inv` (bucket placement, distinct keys, counters,
`defaultEntry` null only for an empty table) is what makes bucket lookup agree with membership.
-/
namespace Morfuse.HashSet
variable {κ ν : Type}

/-! ### tables -/

section tables
variable {β : Type}

theorem flatten_set_perm : ∀ (t : List (List β)) (i : Nat) (c : List β), i < t.length →
    (t.set i c).flatten.Perm (c ++ (t.set i []).flatten)
  | [], i, c, h => by simp at h
  | x :: t, 0, c, _ => by simp
  | x :: t, i + 1, c, h => by
    have ih := flatten_set_perm t i c (by simpa using h)
    simp only [List.set_cons_succ, List.flatten_cons]
    refine (List.Perm.append_left x ih).trans ?_
    rw [← List.append_assoc, ← List.append_assoc]
    exact List.Perm.append_right _ List.perm_append_comm

theorem flatten_perm_getD (t : List (List β)) (i : Nat) (h : i < t.length) :
    t.flatten.Perm (t.getD i [] ++ (t.set i []).flatten) := by
  have := flatten_set_perm t i (t.getD i []) h
  have e : t.set i (t.getD i []) = t := by
    apply List.ext_getElem? ; intro j
    by_cases hj : j = i
    · subst hj; simp [List.getD_eq_getElem?_getD, List.getElem?_eq_getElem h]
    · simp [List.getElem?_set, Ne.symm hj]
  rwa [e] at this

/-- replacing bucket `i` by `c'` replaces its entries -/
theorem flatten_set_perm' (t : List (List β)) (i : Nat) (c' rest : List β) (h : i < t.length)
    (hr : t.flatten.Perm (t.getD i [] ++ rest)) (hrest : rest.Perm (t.set i []).flatten) :
    (t.set i c').flatten.Perm (c' ++ rest) :=
  (flatten_set_perm t i c' h).trans (List.Perm.append_left _ hrest.symm)

theorem flatten_set_cons (t : List (List β)) (i : Nat) (e : β) (h : i < t.length) :
    (t.set i (e :: t.getD i [])).flatten.Perm (e :: t.flatten) := by
  refine (flatten_set_perm t i _ h).trans ?_
  simp only [List.cons_append]
  exact List.Perm.cons _ (flatten_perm_getD t i h).symm

theorem mem_table_of_mem_flatten {t : List (List β)} {e : β} (h : e ∈ t.flatten) :
    ∃ (b : Nat) (c : List β), t[b]? = some c ∧ e ∈ c := by
  obtain ⟨c, hc, he⟩ := List.mem_flatten.mp h
  obtain ⟨b, hb, rfl⟩ := List.getElem_of_mem hc
  exact ⟨b, t[b], List.getElem?_eq_getElem hb, he⟩

theorem mem_flatten_of_getElem? {t : List (List β)} {b : Nat} {c : List β} {e : β}
    (h : t[b]? = some c) (he : e ∈ c) : e ∈ t.flatten :=
  List.mem_flatten.mpr ⟨c, List.mem_of_getElem? h, he⟩

theorem nodup_map_inj {γ : Type} {f : β → γ} : ∀ {l : List β}, (l.map f).Nodup → ∀ {a b}, a ∈ l → b ∈ l →
    f a = f b → a = b
  | [], _, _, _, ha, _, _ => by simp at ha
  | x :: l, h, a, b, ha, hb, hab => by
    simp only [List.map_cons, List.nodup_cons, List.mem_map, not_exists, not_and] at h
    rcases List.mem_cons.mp ha with rfl | ha' <;> rcases List.mem_cons.mp hb with rfl | hb'
    · rfl
    · exact absurd hab.symm (h.1 b hb')
    · exact absurd hab (h.1 a ha')
    · exact nodup_map_inj h.2 ha' hb' hab
end tables

/-! ### the invariant -/

/-- all entries of the table -/
def ents (s : State κ ν) : List (Entry κ ν) := s.table.flatten

structure Inv (hash : κ → Nat) (s : State κ ν) : Prop where
  len : s.table.length = s.tableLength
  pos : 0 < s.tableLength
  place : ∀ b c, s.table[b]? = some c → ∀ e ∈ c, hash e.key % s.tableLength = b
  nodup : ((ents s).map (·.key)).Nodup
  count : s.count = (ents s).length
  inl1 : s.inl = true → s.tableLength = 1
  ids : ∀ e ∈ ents s, 0 < e.id
  nid : 0 < s.nextId
  de : defaultEntryPtr s = 0 → ents s = []
  led : s.ctor = s.dtor + s.count

theorem inv_init (hash : κ → Nat) : Inv hash (init : State κ ν) where
  len := rfl
  pos := by simp [init]
  place := by
    intro b c h e he
    cases b with
    | zero => simp [init] at h; subst h; simp at he
    | succ b => simp [init] at h
  nodup := by simp [ents, init]
  count := rfl
  inl1 := fun _ => rfl
  ids := by simp [ents, init]
  nid := by simp [init]
  de := fun _ => rfl
  led := rfl

theorem bucket_def (s : State κ ν) (b : Nat) : bucket s b = s.table[b]?.getD [] := by simp [bucket]

theorem bucket_eq {s : State κ ν} {b : Nat} (h : b < s.table.length) : s.table[b]? = some (bucket s b) := by
  simp [bucket, List.getD_eq_getElem?_getD, List.getElem?_eq_getElem h]

variable {hash : κ → Nat}

theorem Inv.idx_lt {s : State κ ν} (h : Inv hash s) (k : κ) : hash k % s.tableLength < s.table.length := by
  rw [h.len]; exact Nat.mod_lt _ h.pos

theorem findIn_some [DecidableEq κ] {c : List (Entry κ ν)} {k : κ} {e : Entry κ ν} (h : findIn c k = some e) :
    e ∈ c ∧ e.key = k := by
  refine ⟨List.mem_of_find?_eq_some h, ?_⟩
  have := List.find?_some h
  simpa using this

theorem findIn_none [DecidableEq κ] {c : List (Entry κ ν)} {k : κ} : findIn c k = none ↔ ∀ e ∈ c, e.key ≠ k := by
  simp [findIn, List.find?_eq_none]

/-- the bucket a key hashes to contains every entry with that key -/
theorem Inv.mem_bucket {s : State κ ν} (h : Inv hash s) {e : Entry κ ν} (he : e ∈ ents s) :
    e ∈ bucket s (hash e.key % s.tableLength) := by
  obtain ⟨b, c, hb, hec⟩ := mem_table_of_mem_flatten he
  have := h.place b c hb e hec
  rw [this]
  have hlt : b < s.table.length := by
    rcases Nat.lt_or_ge b s.table.length with hl | hl
    · exact hl
    · rw [List.getElem?_eq_none hl] at hb; cases hb
  rw [bucket_eq hlt] at hb
  cases hb; exact hec

theorem bucket_sub_ents {s : State κ ν} {b : Nat} {e : Entry κ ν} (he : e ∈ bucket s b) : e ∈ ents s := by
  by_cases hb : b < s.table.length
  · exact mem_flatten_of_getElem? (bucket_eq hb) he
  · simp [bucket, List.getD_eq_getElem?_getD, List.getElem?_eq_none (Nat.le_of_not_lt hb)] at he

variable [DecidableEq κ]

/-- **lookup = membership**: `findKeyEntry` finds exactly the entry of `ents` with that key -/
theorem Inv.find_iff {s : State κ ν} (h : Inv hash s) (k : κ) (e : Entry κ ν) :
    findKeyEntry hash s k = some e ↔ e ∈ ents s ∧ e.key = k := by
  constructor
  · intro hf
    obtain ⟨h1, h2⟩ := findIn_some hf
    exact ⟨bucket_sub_ents h1, h2⟩
  · rintro ⟨he, rfl⟩
    have hb := h.mem_bucket he
    cases hf : findKeyEntry hash s e.key with
    | none =>
      have := findIn_none.mp hf e hb
      exact absurd rfl this
    | some e' =>
      obtain ⟨h1, h2⟩ := findIn_some hf
      rw [nodup_map_inj h.nodup (bucket_sub_ents h1) he h2]

theorem Inv.find_none_iff {s : State κ ν} (h : Inv hash s) (k : κ) :
    findKeyEntry hash s k = none ↔ ∀ e ∈ ents s, e.key ≠ k := by
  constructor
  · intro hf e he hk
    have := (h.find_iff k e).mpr ⟨he, hk⟩
    rw [hf] at this; cases this
  · intro hall
    cases hf : findKeyEntry hash s k with
    | none => rfl
    | some e =>
      obtain ⟨h1, h2⟩ := (h.find_iff k e).mp hf
      exact absurd h2 (hall e h1)

end Morfuse.HashSet
