import MorfuseModel.HashSet.Lemmas
/-!
# Lemmas for the `con::set` model, part 2: `resize` / `rehash` / `shrink` / `clear`
-/
namespace Morfuse.HashSet
variable {κ ν : Type} [DecidableEq κ] {hash : κ → Nat}

/-- bucket placement of a bare table -/
def Placed (hash : κ → Nat) (n : Nat) (t : List (List (Entry κ ν))) : Prop :=
  ∀ b c, t[b]? = some c → ∀ e ∈ c, hash e.key % n = b

theorem placed_replicate (n : Nat) : Placed hash n (List.replicate n ([] : List (Entry κ ν))) := by
  intro b c h e he
  rw [List.getElem?_replicate] at h
  split at h
  · cases h; simp at he
  · cases h

theorem pushChain_spec (n : Nat) (hn : 0 < n) : ∀ (c : List (Entry κ ν)) (tbl : List (List (Entry κ ν))),
    tbl.length = n → Placed hash n tbl →
    (pushChain hash n tbl c).length = n ∧ (pushChain hash n tbl c).flatten.Perm (c ++ tbl.flatten) ∧
      Placed hash n (pushChain hash n tbl c) := by
  intro c
  induction c with
  | nil => intro tbl hl hp; exact ⟨hl, by simp [pushChain], hp⟩
  | cons e rest ih =>
    intro tbl hl hp
    have hi : hash e.key % n < tbl.length := by rw [hl]; exact Nat.mod_lt _ hn
    have hl1 : (tbl.set (hash e.key % n) (e :: tbl.getD (hash e.key % n) [])).length = n := by simp [hl]
    have hp1 : Placed hash n (tbl.set (hash e.key % n) (e :: tbl.getD (hash e.key % n) [])) := by
      intro b c' hb x hx
      by_cases hbi : b = hash e.key % n
      · subst hbi
        rw [List.getElem?_set_self hi] at hb
        cases hb
        rcases List.mem_cons.mp hx with rfl | hx'
        · rfl
        · have hg : tbl[hash e.key % n]? = some (tbl.getD (hash e.key % n) []) := by
            simp [List.getD_eq_getElem?_getD, List.getElem?_eq_getElem hi]
          exact hp _ _ hg x hx'
      · rw [List.getElem?_set_ne (Ne.symm hbi)] at hb
        exact hp b c' hb x hx
    obtain ⟨h1, h2, h3⟩ := ih _ hl1 hp1
    refine ⟨by simpa [pushChain] using h1, ?_, by simpa [pushChain] using h3⟩
    have : (pushChain hash n tbl (e :: rest)) =
        pushChain hash n (tbl.set (hash e.key % n) (e :: tbl.getD (hash e.key % n) [])) rest := by
      simp [pushChain]
    rw [this]
    refine h2.trans ?_
    refine (List.Perm.append_left rest (flatten_set_cons tbl _ e hi)).trans ?_
    simpa using (List.perm_middle (a := e) (l₁ := rest) (l₂ := tbl.flatten))

theorem take_succ_flatten (old : List (List (Entry κ ν))) (i : Nat) (h : i < old.length) :
    (old.take (i + 1)).flatten = (old.take i).flatten ++ old.getD i [] := by
  rw [← List.take_append_getElem h, List.flatten_append]
  simp [List.getD_eq_getElem?_getD, List.getElem?_eq_getElem h]

theorem rehashAll_spec (n : Nat) (hn : 0 < n) (old : List (List (Entry κ ν))) :
    ∀ (i : Nat) (tbl : List (List (Entry κ ν))), i ≤ old.length → tbl.length = n → Placed hash n tbl →
    (rehashAll hash n old i tbl).length = n ∧
      (rehashAll hash n old i tbl).flatten.Perm ((old.take i).flatten ++ tbl.flatten) ∧
      Placed hash n (rehashAll hash n old i tbl) := by
  intro i
  induction i with
  | zero => intro tbl _ hl hp; exact ⟨hl, by simp [rehashAll], hp⟩
  | succ i ih =>
    intro tbl hi hl hp
    obtain ⟨h1, h2, h3⟩ := pushChain_spec (hash := hash) n hn (old.getD i []) tbl hl hp
    obtain ⟨g1, g2, g3⟩ := ih _ (by omega) h1 h3
    refine ⟨by simpa [rehashAll] using g1, ?_, by simpa [rehashAll] using g3⟩
    simp only [rehashAll]
    refine g2.trans ?_
    rw [take_succ_flatten old i (by omega), List.append_assoc]
    exact List.Perm.append_left _ h2

/-- what an operation may do to the entries: `Inv` is kept and the entries are permuted -/
theorem resize_spec {s : State κ ν} (h : Inv hash s) (n : Nat) :
    Inv hash (resize hash s n) ∧ (ents (resize hash s n)).Perm (ents s) ∧
    (resize hash s n).nextId = s.nextId := by
  by_cases hn : n ≤ 1
  · simp only [resize, hn, if_true]; exact ⟨h, List.Perm.refl _, trivial⟩
  · have hn0 : 0 < n := by omega
    obtain ⟨h1, h2, h3⟩ := rehashAll_spec (hash := hash) n hn0 s.table s.tableLength
      (List.replicate n []) (by rw [h.len]; exact Nat.le_refl _) (by simp) (placed_replicate n)
    have hperm : (rehashAll hash n s.table s.tableLength (List.replicate n [])).flatten.Perm (ents s) := by
      refine h2.trans ?_
      rw [← h.len, List.take_length]
      simp [ents]
    simp only [resize, hn, if_false]
    refine ⟨?_, hperm, trivial⟩
    refine
      { len := h1, pos := hn0, place := h3, nodup := ?_, count := ?_, inl1 := by simp, ids := ?_,
        nid := h.nid, de := ?_, led := h.led }
    · exact ((hperm.map _).nodup_iff).mpr h.nodup
    · simp only [ents] at hperm ⊢; rw [hperm.length_eq]; exact h.count
    · intro e he; exact h.ids e ((hperm.mem_iff).mp he)
    · intro hd
      have : ents s = [] := h.de (by simpa [defaultEntryPtr] using hd)
      simp only [ents] at hperm this ⊢
      rw [this] at hperm
      exact List.Perm.eq_nil hperm

theorem rehash_spec {s : State κ ν} (h : Inv hash s) (primes : List Nat) :
    Inv hash (rehash hash primes s) ∧ (ents (rehash hash primes s)).Perm (ents s) ∧
    (rehash hash primes s).nextId = s.nextId ∧ (rehash hash primes s).count = s.count ∧
    (rehash hash primes s).ctor = s.ctor ∧ (rehash hash primes s).dtor = s.dtor := by
  have hi : ∀ i, Inv hash { s with tableLengthIndex := i } := fun i =>
    { len := h.len, pos := h.pos, place := h.place, nodup := h.nodup, count := h.count, inl1 := h.inl1,
      ids := h.ids, nid := h.nid, de := h.de, led := h.led }
  have hc : ∀ (s' : State κ ν) n, (resize hash s' n).count = s'.count ∧ (resize hash s' n).ctor = s'.ctor ∧
      (resize hash s' n).dtor = s'.dtor := by
    intro s' n; simp only [resize]; split <;> simp
  unfold rehash
  split
  · rename_i newLen i _
    obtain ⟨a, b, c⟩ := resize_spec (hi i) newLen
    obtain ⟨d, e, f⟩ := hc { s with tableLengthIndex := i } newLen
    exact ⟨a, b, c, d, e, f⟩
  · rename_i newLen _
    obtain ⟨a, b, c⟩ := resize_spec h newLen
    obtain ⟨d, e, f⟩ := hc s newLen
    exact ⟨a, b, c, d, e, f⟩

theorem clear_spec (s : State κ ν) (h : Inv hash s) : Inv hash (clear s) ∧ ents (clear s) = [] := by
  refine ⟨?_, by simp [clear, ents, init]⟩
  have hi := inv_init (κ := κ) (ν := ν) hash
  exact
    { len := hi.len, pos := hi.pos, place := hi.place, nodup := hi.nodup, count := hi.count, inl1 := hi.inl1,
      ids := hi.ids, nid := h.nid, de := fun _ => by simp [clear, ents, init],
      led := by
        have := h.led; have hc := h.count
        simp only [clear, init, ents] at *
        omega }

theorem shrink_spec {s : State κ ν} (h : Inv hash s) :
    Inv hash (shrink hash s) ∧ (ents (shrink hash s)).Perm (ents s) := by
  unfold shrink
  split
  · obtain ⟨a, b, _⟩ := resize_spec h s.count; exact ⟨a, b⟩
  · rename_i hc
    obtain ⟨a, b⟩ := clear_spec s h
    have : ents s = [] := by
      have := h.count
      have h0 : s.count = 0 := by simpa using hc
      rw [h0] at this
      exact List.eq_nil_of_length_eq_zero this.symm
    exact ⟨a, by rw [b, this]⟩

end Morfuse.HashSet
