import MorfuseModel.HashSet.Lemmas2
/-!
# Lemmas for the `con::set` model, part 3: insertion, assignment through the reference, removal
-/
namespace Morfuse.HashSet
variable {κ ν : Type} [DecidableEq κ] {hash : κ → Nat}

/-- `k ↦ v` is in the table -/
def Maps (s : State κ ν) (k : κ) (v : ν) : Prop := ∃ e ∈ ents s, e.key = k ∧ e.val = v

theorem Inv.findVal_iff {s : State κ ν} (h : Inv hash s) (k : κ) (v : ν) :
    findKeyValue hash s k = some v ↔ Maps s k v := by
  simp only [findKeyValue, Option.map_eq_some_iff, Maps]
  constructor
  · rintro ⟨e, he, rfl⟩
    obtain ⟨h1, h2⟩ := (h.find_iff k e).mp he
    exact ⟨e, h1, h2, rfl⟩
  · rintro ⟨e, h1, h2, rfl⟩
    exact ⟨e, (h.find_iff k e).mpr ⟨h1, h2⟩, rfl⟩

/-- two well-formed tables agree on a key as soon as they hold the same bindings for it -/
theorem findVal_congr {s s' : State κ ν} (h : Inv hash s) (h' : Inv hash s') (k : κ)
    (hm : ∀ v, Maps s' k v ↔ Maps s k v) : findKeyValue hash s' k = findKeyValue hash s k := by
  apply Option.ext
  intro v
  rw [h'.findVal_iff, h.findVal_iff, hm]

theorem maps_perm {s s' : State κ ν} (hp : (ents s').Perm (ents s)) (k : κ) (v : ν) : Maps s' k v ↔ Maps s k v := by
  simp only [Maps]
  constructor
  · rintro ⟨e, he, h2⟩; exact ⟨e, hp.mem_iff.mp he, h2⟩
  · rintro ⟨e, he, h2⟩; exact ⟨e, hp.mem_iff.mpr he, h2⟩

/-! ### insertEntry / addKeyEntry -/

theorem headId_pos {c : List (Entry κ ν)} (hids : ∀ e ∈ c, 0 < e.id) (h : headId c = 0) : c = [] := by
  cases c with
  | nil => rfl
  | cons e r => have := hids e (by simp); simp [headId] at h; omega

theorem insertEntry_spec {s : State κ ν} (h : Inv hash s) (e : Entry κ ν) (hid : 0 < e.id)
    (hk : ∀ x ∈ ents s, x.key ≠ e.key) (s0 : State κ ν)
    (hs0 : s0 = { s with count := s.count + 1, nextId := s.nextId + 1, ctor := s.ctor + 1 }) :
    Inv hash (insertEntry s0 e (hash e.key % s.tableLength)) ∧
    (ents (insertEntry s0 e (hash e.key % s.tableLength))).Perm (e :: ents s) := by
  have hi := h.idx_lt e.key
  obtain ⟨i, hidef⟩ : ∃ i, i = hash e.key % s.tableLength := ⟨_, rfl⟩
  rw [← hidef] at hi ⊢
  have e_tab : s0.table = s.table := by rw [hs0]
  have e_inl : s0.inl = s.inl := by rw [hs0]
  have e_de : s0.defaultEntry = s.defaultEntry := by rw [hs0]
  have e_ptr : defaultEntryPtr s0 = defaultEntryPtr s := by simp [defaultEntryPtr, bucket, e_tab, e_inl, e_de]
  have e_b : bucket s0 i = s.table[i]?.getD [] := by rw [bucket_def, e_tab]
  -- in both branches the bucket becomes `e :: bucket`
  have htab : (insertEntry s0 e i).table = s.table.set i (e :: s.table[i]?.getD []) := by
    unfold insertEntry
    split
    · rename_i hd
      have hnil : ents s = [] := h.de (by rw [← e_ptr]; exact hd)
      have hb : s.table[i]?.getD [] = [] := by
        cases hc : s.table[i]?.getD [] with
        | nil => rfl
        | cons x r =>
          have : x ∈ ents s := bucket_sub_ents (b := i) (by rw [bucket_def, hc]; exact List.mem_cons_self ..)
          rw [hnil] at this; cases this
      split <;> simp [setBucket, hb, e_tab]
    · simp [setBucket, e_b, e_tab]
  have hperm : (ents (insertEntry s0 e i)).Perm (e :: ents s) := by
    simp only [ents, htab]
    have := flatten_set_cons s.table i e hi
    simpa [List.getD_eq_getElem?_getD] using this
  have f1 : (insertEntry s0 e i).tableLength = s.tableLength := by
    unfold insertEntry; split <;> (try split) <;> simp [setBucket, hs0]
  have f2 : (insertEntry s0 e i).inl = s.inl := by
    unfold insertEntry; split <;> (try split) <;> simp [setBucket, hs0]
  have f3 : (insertEntry s0 e i).count = s.count + 1 := by
    unfold insertEntry; split <;> (try split) <;> simp [setBucket, hs0]
  have f4 : (insertEntry s0 e i).nextId = s.nextId + 1 := by
    unfold insertEntry; split <;> (try split) <;> simp [setBucket, hs0]
  have f5 : (insertEntry s0 e i).ctor = s.ctor + 1 := by
    unfold insertEntry; split <;> (try split) <;> simp [setBucket, hs0]
  have f6 : (insertEntry s0 e i).dtor = s.dtor := by
    unfold insertEntry; split <;> (try split) <;> simp [setBucket, hs0]
  have f7 : s.inl = false → (insertEntry s0 e i).defaultEntry ≠ 0 := by
    intro hinl
    unfold insertEntry
    split
    · split
      · rename_i h2; rw [e_inl, hinl] at h2; cases h2
      · simp [setBucket]; omega
    · rename_i hd
      simp only [setBucket]
      rw [e_ptr] at hd
      rw [e_de]
      simpa [defaultEntryPtr, hinl] using hd
  refine ⟨?_, hperm⟩
  refine
    { len := by rw [htab, f1]; simp [h.len], pos := by rw [f1]; exact h.pos, place := ?_, nodup := ?_,
      count := by rw [f3, hperm.length_eq]; simp [h.count], inl1 := by rw [f1, f2]; exact h.inl1, ids := ?_,
      nid := by rw [f4]; omega, de := ?_, led := by rw [f5, f6, f3]; have := h.led; omega }
  · intro b c hb x hx
    rw [f1]
    rw [htab] at hb
    by_cases hbi : b = i
    · subst hbi
      rw [List.getElem?_set_self hi] at hb
      cases hb
      rcases List.mem_cons.mp hx with rfl | hx'
      · exact hidef.symm
      · have hg : s.table[b]? = some (s.table[b]?.getD []) := by
          simp [List.getElem?_eq_getElem hi]
        exact h.place _ _ hg x hx'
    · rw [List.getElem?_set_ne (Ne.symm hbi)] at hb
      exact h.place b c hb x hx
  · rw [((hperm.map _).nodup_iff)]
    simp only [List.map_cons, List.nodup_cons, List.mem_map, not_exists, not_and]
    exact ⟨fun x hx hxe => hk x hx hxe, h.nodup⟩
  · intro x hx
    rcases List.mem_cons.mp (hperm.mem_iff.mp hx) with rfl | hx'
    · exact hid
    · exact h.ids x hx'
  · intro hd
    exfalso
    by_cases hinl : s.inl = true
    · -- the one bucket starts with `e`
      have hl1 := h.inl1 hinl
      have h0 : i = 0 := by rw [hidef, hl1]; exact Nat.mod_one _
      have hlen : 0 < s.table.length := by rw [h.len, hl1]; exact Nat.one_pos
      subst h0
      have : defaultEntryPtr (insertEntry s0 e 0) = e.id := by
        rw [defaultEntryPtr, f2, hinl, if_pos rfl, bucket_def, htab]
        simp [List.getElem?_set_self hlen, headId]
      omega
    · have hf : s.inl = false := by simpa using hinl
      have := f7 hf
      simp only [defaultEntryPtr, f2, hf] at hd
      exact this (by simpa using hd)

/-- result of `addKeyEntry`: the entry found, or a fresh one in a permuted (possibly rehashed) table -/
theorem addKeyEntry_spec {s : State κ ν} (h : Inv hash s) (primes : List Nat) (k : κ) (v : ν) :
    let r := addKeyEntry hash primes s k v
    Inv hash r.1 ∧ r.2.key = k ∧ r.2 ∈ ents r.1 ∧
      ((∃ e ∈ ents s, e.key = k) → r.1 = s) ∧
      ((∀ e ∈ ents s, e.key ≠ k) → r.2.val = v ∧ (ents r.1).Perm (r.2 :: ents s)) := by
  intro r
  have hfk : findIn (bucket s (hash k % s.tableLength)) k = findKeyEntry hash s k := rfl
  cases hf : findKeyEntry hash s k with
  | some e =>
    obtain ⟨h1, h2⟩ := (h.find_iff k e).mp hf
    have hr : r = (s, e) := by simp only [r, addKeyEntry, hfk, hf]
    rw [hr]
    refine ⟨h, h2, h1, fun _ => rfl, fun hall => absurd h2 (hall e h1)⟩
  | none =>
    have hall := (h.find_none_iff k).mp hf
    -- the table after a possible rehash
    obtain ⟨s1, hs1⟩ : ∃ s1, s1 = if s.count ≥ s.threshold then rehash hash primes s else s := ⟨_, rfl⟩
    have h1 : Inv hash s1 ∧ (ents s1).Perm (ents s) ∧ s1.count = s.count ∧ s1.ctor = s.ctor ∧ s1.dtor = s.dtor := by
      rw [hs1]; split
      · obtain ⟨a, b, _, d, e, f⟩ := rehash_spec h primes; exact ⟨a, b, d, e, f⟩
      · exact ⟨h, List.Perm.refl _, rfl, rfl, rfl⟩
    obtain ⟨i1, p1, _, _, _⟩ := h1
    have hk1 : ∀ x ∈ ents s1, x.key ≠ k := fun x hx => hall x (p1.mem_iff.mp hx)
    have hr : r = (insertEntry { s1 with count := s1.count + 1, nextId := s1.nextId + 1, ctor := s1.ctor + 1 }
        { id := s1.nextId, key := k, val := v } (hash k % s1.tableLength),
        { id := s1.nextId, key := k, val := v }) := by
      simp only [r, addKeyEntry, hfk, hf, addNewKeyEntry, hs1]
      split <;> rfl
    obtain ⟨a, b⟩ := insertEntry_spec i1 { id := s1.nextId, key := k, val := v } i1.nid hk1 _ rfl
    rw [hr]
    refine ⟨a, rfl, b.mem_iff.mpr (by simp), fun ⟨e, he, hek⟩ => absurd hek (hall e he), fun _ => ⟨rfl, ?_⟩⟩
    exact b.trans (List.Perm.cons _ p1)

end Morfuse.HashSet
