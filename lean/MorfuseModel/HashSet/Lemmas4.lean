import MorfuseModel.HashSet.Lemmas3
/-!
# Lemmas for the `con::set` model, part 4: assignment through the reference, `remove`
-/
namespace Morfuse.HashSet
variable {κ ν : Type} [DecidableEq κ] {hash : κ → Nat}

/-- `entry->Value() = v` for the entry with key `k`, every other entry untouched -/
def upd (k : κ) (v : ν) (e : Entry κ ν) : Entry κ ν := if e.key = k then { e with val := v } else e

@[simp] theorem upd_key (k : κ) (v : ν) (e : Entry κ ν) : (upd k v e).key = e.key := by
  unfold upd; split <;> rfl
@[simp] theorem upd_id (k : κ) (v : ν) (e : Entry κ ν) : (upd k v e).id = e.id := by
  unfold upd; split <;> rfl

/-- entries outside the bucket of `k` do not have key `k` -/
theorem Inv.rest_ne {s : State κ ν} (h : Inv hash s) (k : κ) :
    ∀ y ∈ (s.table.set (hash k % s.tableLength) []).flatten, y.key ≠ k := by
  intro y hy hyk
  have hi := h.idx_lt k
  have hp := flatten_perm_getD s.table (hash k % s.tableLength) hi
  have hy' : y ∈ ents s := hp.mem_iff.mpr (List.mem_append_right _ hy)
  have hyb : y ∈ s.table.getD (hash k % s.tableLength) [] := by
    have := h.mem_bucket hy'
    rwa [hyk] at this
  -- `y` would occur twice among the keys
  have hnd := ((hp.map (·.key)).nodup_iff).mp h.nodup
  rw [List.map_append, List.nodup_append] at hnd
  exact hnd.2.2 _ (List.mem_map_of_mem hyb) _ (List.mem_map_of_mem hy) rfl

theorem setVal_spec {s : State κ ν} (h : Inv hash s) (k : κ) (v : ν) :
    Inv hash (setVal hash s k v) ∧ (ents (setVal hash s k v)).Perm ((ents s).map (upd k v)) := by
  have hi := h.idx_lt k
  obtain ⟨i, hidef⟩ : ∃ i, i = hash k % s.tableLength := ⟨_, rfl⟩
  have htab : (setVal hash s k v).table = s.table.set i ((s.table.getD i []).map (upd k v)) := by
    have hu : (fun e : Entry κ ν => if e.key = k then { e with val := v } else e) = upd k v := by
      funext e; rfl
    simp only [setVal, setBucket, bucket, hidef, hu]
  rw [← hidef] at hi
  have hrest : ∀ y ∈ (s.table.set i []).flatten, upd k v y = y := by
    intro y hy
    have := h.rest_ne k y (by rw [← hidef]; exact hy)
    simp [upd, this]
  have hperm : (ents (setVal hash s k v)).Perm ((ents s).map (upd k v)) := by
    simp only [ents, htab]
    refine (flatten_set_perm s.table i _ hi).trans ?_
    have h1 := (flatten_perm_getD s.table i hi).map (upd k v)
    rw [List.map_append] at h1
    refine List.Perm.trans ?_ h1.symm
    refine List.Perm.append_left _ ?_
    rw [List.map_congr_left hrest, List.map_id']
  have hkeys : ((ents (setVal hash s k v)).map (·.key)).Perm ((ents s).map (·.key)) := by
    refine (hperm.map _).trans ?_
    rw [List.map_map]
    have : ((fun e : Entry κ ν => e.key) ∘ upd k v) = fun e => e.key := by funext e; simp
    rw [this]
  refine ⟨?_, hperm⟩
  refine
    { len := by rw [htab]; simp [h.len, setVal, setBucket], pos := h.pos, place := ?_,
      nodup := (hkeys.nodup_iff).mpr h.nodup,
      count := by rw [hperm.length_eq]; simp [setVal, setBucket, h.count], inl1 := h.inl1, ids := ?_,
      nid := h.nid, de := ?_, led := h.led }
  · intro b c hb x hx
    show hash x.key % s.tableLength = b
    rw [htab] at hb
    by_cases hbi : b = i
    · subst hbi
      rw [List.getElem?_set_self hi] at hb
      cases hb
      obtain ⟨y, hy, rfl⟩ := List.mem_map.mp hx
      have hg : s.table[b]? = some (s.table.getD b []) := by
        simp [List.getD_eq_getElem?_getD, List.getElem?_eq_getElem hi]
      simpa using h.place _ _ hg y hy
    · rw [List.getElem?_set_ne (Ne.symm hbi)] at hb
      exact h.place b c hb x hx
  · intro x hx
    obtain ⟨y, hy, rfl⟩ := List.mem_map.mp (hperm.mem_iff.mp hx)
    simpa using h.ids y hy
  · intro hd
    have hd' : defaultEntryPtr s = 0 := by
      by_cases hinl : s.inl = true
      · have hl1 := h.inl1 hinl
        have h0 : i = 0 := by rw [hidef, hl1]; exact Nat.mod_one _
        subst h0
        have hlen : 0 < s.table.length := by rw [h.len, hl1]; exact Nat.one_pos
        have e1 : (setVal hash s k v).inl = true := hinl
        simp only [defaultEntryPtr, e1, if_true, bucket_def, htab, List.getElem?_set_self hlen, Option.getD_some] at hd
        simp only [defaultEntryPtr, hinl, if_true, bucket_def]
        cases hc : s.table[0]?.getD [] with
        | nil => rfl
        | cons y r =>
          rw [List.getD_eq_getElem?_getD, hc] at hd
          simp only [List.map_cons, headId, upd_id] at hd
          simpa [headId] using hd
      · have hf : s.inl = false := by simpa using hinl
        have e1 : (setVal hash s k v).inl = false := hf
        simpa [defaultEntryPtr, e1, hf, setVal, setBucket] using hd
    have := h.de hd'
    have hp := hperm
    rw [this] at hp
    exact List.Perm.eq_nil (by simpa using hp)

/-! ### remove -/

theorem unlink_none {k : κ} : ∀ {c : List (Entry κ ν)} {p : Nat}, unlink k c p = none ↔ ∀ e ∈ c, e.key ≠ k
  | [], p => by simp [unlink]
  | e :: rest, p => by
    simp only [unlink]
    split
    · rename_i hk; simp [hk]
    · rename_i hk
      simp only [Option.map_eq_none_iff, List.mem_cons, forall_eq_or_imp]
      rw [unlink_none]
      exact ⟨fun h => ⟨hk, h⟩, fun h => h.2⟩

theorem unlink_some {k : κ} : ∀ {c : List (Entry κ ν)} {p q : Nat} {x : Entry κ ν} {r : List (Entry κ ν)},
    unlink k c p = some (q, x, r) → x.key = k ∧ c.Perm (x :: r) ∧ (∀ y ∈ r, y ∈ c)
  | [], p, q, x, r, h => by simp [unlink] at h
  | e :: rest, p, q, x, r, h => by
    simp only [unlink] at h
    split at h
    · rename_i hk
      simp only [Option.some.injEq, Prod.mk.injEq] at h
      obtain ⟨_, rfl, rfl⟩ := h
      exact ⟨hk, List.Perm.refl _, fun y hy => List.mem_cons_of_mem _ hy⟩
    · simp only [Option.map_eq_some_iff] at h
      obtain ⟨⟨q', x', r'⟩, h1, h2⟩ := h
      simp only [Prod.mk.injEq] at h2
      obtain ⟨rfl, rfl, rfl⟩ := h2
      obtain ⟨a, b, c⟩ := unlink_some h1
      refine ⟨a, ?_, ?_⟩
      · exact (List.Perm.cons e b).trans (List.Perm.swap _ _ _)
      · intro y hy
        rcases List.mem_cons.mp hy with rfl | hy'
        · exact List.mem_cons_self ..
        · exact List.mem_cons_of_mem _ (c y hy')

theorem remove_absent {s : State κ ν} (h : Inv hash s) (k : κ) (hk : ∀ e ∈ ents s, e.key ≠ k) :
    remove hash s k = (s, false) := by
  have : unlink k (bucket s (hash k % s.tableLength)) 0 = none :=
    unlink_none.mpr fun e he => hk e (bucket_sub_ents he)
  simp [remove, this]

theorem remove_present {s : State κ ν} (h : Inv hash s) (k : κ) (x : Entry κ ν) (hx : x ∈ ents s) (hxk : x.key = k) :
    (remove hash s k).2 = true ∧ Inv hash (remove hash s k).1 ∧
      (x :: ents (remove hash s k).1).Perm (ents s) := by
  have hi := h.idx_lt k
  obtain ⟨i, hidef⟩ : ∃ i, i = hash k % s.tableLength := ⟨_, rfl⟩
  have hxb : x ∈ bucket s i := by rw [hidef, ← hxk]; exact h.mem_bucket hx
  cases hu : unlink k (bucket s i) 0 with
  | none => exact absurd hxk (unlink_none.mp hu x hxb)
  | some t =>
    obtain ⟨q, x', r⟩ := t
    obtain ⟨u1, u2, u3⟩ := unlink_some hu
    have hxx : x' = x := by
      have hx'b : x' ∈ bucket s i := u2.mem_iff.mpr (List.mem_cons_self ..)
      exact nodup_map_inj h.nodup (bucket_sub_ents hx'b) hx (by rw [u1, hxk])
    subst hxx
    rw [← hidef] at hi
    -- the state after the operation
    obtain ⟨s', hs'⟩ : ∃ s', s' = (remove hash s k).1 := ⟨_, rfl⟩
    have hrem : remove hash s k = (s', true) := by
      rw [hs']; simp only [remove, ← hidef, hu]
    have htab : s'.table = s.table.set i r := by
      rw [hs']; simp only [remove, ← hidef, hu, setBucket]; split <;> rfl
    have f1 : s'.tableLength = s.tableLength ∧ s'.inl = s.inl ∧ s'.count = s.count - 1 ∧ s'.nextId = s.nextId ∧
        s'.ctor = s.ctor ∧ s'.dtor = s.dtor + 1 := by
      rw [hs']; simp only [remove, ← hidef, hu, setBucket]; split <;> simp
    obtain ⟨g1, g2, g3, g4, g5, g6⟩ := f1
    have hperm : (x' :: ents s').Perm (ents s) := by
      simp only [ents, htab]
      have h1 := flatten_perm_getD s.table i hi
      have h2 := flatten_set_perm s.table i r hi
      refine List.Perm.trans ?_ h1.symm
      refine (List.Perm.cons _ h2).trans ?_
      rw [← List.cons_append]
      exact List.Perm.append_right _ (by simpa [bucket] using u2.symm)
    rw [hrem]
    refine ⟨rfl, ?_, hperm⟩
    have hcnt : (ents s).length = (ents s').length + 1 := by rw [← hperm.length_eq]; simp
    have hnd : ((x' :: ents s').map (·.key)).Nodup := ((hperm.map _).nodup_iff).mpr h.nodup
    refine
      { len := by rw [htab, g1]; simp [h.len], pos := by rw [g1]; exact h.pos, place := ?_,
        nodup := (List.nodup_cons.mp (by simpa using hnd)).2,
        count := by rw [g3, h.count, hcnt]; simp, inl1 := by rw [g1, g2]; exact h.inl1, ids := ?_,
        nid := by rw [g4]; exact h.nid, de := ?_,
        led := by rw [g5, g6, g3]; have := h.led; have := h.count; omega }
    · intro b c hb y hy
      rw [g1]
      rw [htab] at hb
      by_cases hbi : b = i
      · subst hbi
        rw [List.getElem?_set_self hi] at hb
        cases hb
        have hg : s.table[b]? = some (bucket s b) := bucket_eq hi
        exact h.place _ _ hg y (u3 y hy)
      · rw [List.getElem?_set_ne (Ne.symm hbi)] at hb
        exact h.place b c hb y hy
    · intro y hy
      exact h.ids y (hperm.mem_iff.mp (List.mem_cons_of_mem _ hy))
    · intro hd
      by_cases hinl : s.inl = true
      · -- one bucket: the table is `[r]`
        have hl1 := h.inl1 hinl
        have h0 : i = 0 := by rw [hidef, hl1]; exact Nat.mod_one _
        subst h0
        have hlen : s.table.length = 1 := by rw [h.len, hl1]
        have e1 : s'.inl = true := by rw [g2]; exact hinl
        simp only [defaultEntryPtr, e1, if_true, bucket_def, htab,
          List.getElem?_set_self (by omega : 0 < s.table.length), Option.getD_some] at hd
        have hr : r = [] := headId_pos (fun y hy => h.ids y (bucket_sub_ents (u3 y hy))) hd
        subst hr
        obtain ⟨c0, hc0⟩ : ∃ c0, s.table = [c0] := by
          match s.table, hlen with
          | [c0], _ => exact ⟨c0, rfl⟩
        simp [ents, htab, hc0]
      · exfalso
        have hf : s.inl = false := by simpa using hinl
        have e1 : s'.inl = false := by rw [g2]; exact hf
        -- the word `defaultEntry` is not null afterwards
        have hne : ents s ≠ [] := fun e => by rw [e] at hx; cases hx
        have hd0 : s.defaultEntry ≠ 0 := fun e => hne (h.de (by simp [defaultEntryPtr, hf, e]))
        have hhead : headId (bucket s i) ≠ 0 := by
          intro e
          have := headId_pos (fun y hy => h.ids y (bucket_sub_ents hy)) e
          rw [this] at hxb; cases hxb
        have : s'.defaultEntry ≠ 0 := by
          rw [hs']; simp only [remove, ← hidef, hu, setBucket]
          split
          · simp only
            split
            · rename_i hq; simp [hq]
            · simp [hhead]
          · exact hd0
        simp only [defaultEntryPtr, e1] at hd
        exact this (by simpa using hd)

end Morfuse.HashSet
