/-!
# Model of `con::set<KeyT, ValueT, HashT, KeyEqT, AllocatorT>` and `con::map` / `set_enum` / `map_enum`
(include/morfuse/Container/set.h)

`κ` is the key type, `ν` the value type (`ValueT()` is `default`), `hash : κ → Nat` is
`HashT()(key)` converted to `size_t` (the C++ computes `intptr_t % uintptr_t`, an unsigned
remainder) and `primes` is `con::set_primes` as laid out in the object file.  `hash` and `primes` are
parameters: nothing depends on which hash function is used, colliding keys are not a special case.

Entries.  `NewEntry` gives every entry a fresh identity `id` (its address; `0` is `nullptr`).  A
bucket chain `table[i] → e₁ → e₂ → … → nullptr` is the list `[e₁, e₂, …]`: `entry->Next()` is the tail,
`entry->SetNext(table[index]); table[index] = entry` is `e :: chain`, the unlink in `remove`
(`prev->SetNext(entry->Next())` / `table[index] = entry->Next()`) is erasing the element.  What the
list form cannot express — a cyclic or shared chain — is never produced by the code as written
(every `SetNext` is of one of the three forms above, `resize` saves `e->Next()` before relinking).

Aliasing.  A fresh / cleared set has `table = &defaultEntry`, `tableLength = 1`: `table[0]` and
`defaultEntry` are the same word.  `inl = true` is that situation; then the one chain is
`table[0]` and the value of `defaultEntry` is its head (`defaultEntryPtr`).  `resize` always moves to
a heap table (`inl = false`); from then on `defaultEntry` is a word of its own that the code only
ever tests against `nullptr` (`insertEntry`) and compares with the entry being removed.  It may
dangle after `remove` of a bucket head (`defaultEntry = prev ? prev : table[index]` re-assigns the
entry that is about to be deleted); it is never dereferenced.

`%`.  The only partial arithmetic in set.h is `% tableLength`; `Props/C18.lean` proves
`tableLength ≥ 1` in every reachable state, so Lean's total `%` never differs from the C++.

The value returned by `addKeyValue` / `operator[]` is a reference; assignment through it is `setVal`.
Enumeration is the state machine of `set_enum::NextElement`, valid while the set is not modified.
-/
namespace Morfuse.HashSet

structure Entry (κ ν : Type) where
  id : Nat
  key : κ
  val : ν

structure State (κ ν : Type) where
  table : List (List (Entry κ ν)) := [[]]
  inl : Bool := true                 -- `table == &defaultEntry`
  tableLength : Nat := 1
  threshold : Nat := 1
  count : Nat := 0
  tableLengthIndex : Nat := 0
  defaultEntry : Nat := 0            -- meaningful when `inl = false`; `0` = nullptr
  nextId : Nat := 1                  -- next fresh entry identity
  ctor : Nat := 0                    -- entries constructed by `NewEntry`
  dtor : Nat := 0                    -- entries destroyed by `DeleteEntry`

variable {κ ν : Type}

/-- `set::set()` -/
def init : State κ ν := {}

/-- the chain hanging off `table[b]` -/
def bucket (s : State κ ν) (b : Nat) : List (Entry κ ν) := s.table.getD b []

/-- `table[b] = <head of c>` -/
def setBucket (s : State κ ν) (b : Nat) (c : List (Entry κ ν)) : State κ ν :=
  { s with table := s.table.set b c }

def headId : List (Entry κ ν) → Nat
  | [] => 0
  | e :: _ => e.id

/-- the value of the word `defaultEntry` -/
def defaultEntryPtr (s : State κ ν) : Nat := if s.inl then headId (bucket s 0) else s.defaultEntry

section
variable [DecidableEq κ]

/-- `for (entry = table[index]; entry; entry = entry->Next()) if (KeyEqT()(entry->Key(), key)) return entry;` -/
def findIn (c : List (Entry κ ν)) (key : κ) : Option (Entry κ ν) := c.find? (fun e => e.key = key)

/-- `findKeyEntry(key)` -/
def findKeyEntry (hash : κ → Nat) (s : State κ ν) (key : κ) : Option (Entry κ ν) :=
  findIn (bucket s (hash key % s.tableLength)) key

/-- `findKeyValue(key)` (`nullptr` = `none`) -/
def findKeyValue (hash : κ → Nat) (s : State κ ν) (key : κ) : Option ν :=
  (findKeyEntry hash s key).map (·.val)

/-- inner loop of `resize`: `for (e = oldTable[i-1]; e; e = old) { old = e->Next();
    index = HashT()(e->Key()) % tableLength; e->SetNext(table[index]); table[index] = e; }` -/
def pushChain (hash : κ → Nat) (n : Nat) (tbl : List (List (Entry κ ν))) (c : List (Entry κ ν)) :
    List (List (Entry κ ν)) :=
  c.foldl (fun t e => t.set (hash e.key % n) (e :: t.getD (hash e.key % n) [])) tbl

/-- outer loop of `resize`: `for (i = oldTableLength; i > 0; i--)` over `oldTable[i-1]` -/
def rehashAll (hash : κ → Nat) (n : Nat) (oldTable : List (List (Entry κ ν))) :
    Nat → List (List (Entry κ ν)) → List (List (Entry κ ν))
  | 0, tbl => tbl
  | i + 1, tbl => rehashAll hash n oldTable i (pushChain hash n tbl (oldTable.getD i []))

/-- `resize(newCount)` -/
def resize (hash : κ → Nat) (s : State κ ν) (newCount : Nat) : State κ ν :=
  if newCount ≤ 1 then s
  else
    let de := defaultEntryPtr s
    -- `new Entry*[tableLength]()`: zero-initialised
    let tbl := rehashAll hash newCount s.table s.tableLength (List.replicate newCount [])
    -- `if (oldTableLength > 1) FreeTable(oldTable)`
    { s with table := tbl, inl := false, tableLength := newCount, threshold := newCount, defaultEntry := de }

/-- the `for` loop of `rehash` over `set_primes`: `(newLen, some i)` when it broke out at slot `i`,
    `(last slot read, none)` when it ran off the end -/
def scanPrimes (tl : Nat) : List Nat → Nat → Nat → Nat × Option Nat
  | [], _, newLen => (newLen, none)
  | p :: ps, i, _ => if p > tl then (p, some i) else scanPrimes tl ps (i + 1) p

/-- `rehash()` -/
def rehash (hash : κ → Nat) (primes : List Nat) (s : State κ ν) : State κ ν :=
  match scanPrimes s.tableLength primes 0 0 with
  | (newLen, some i) => resize hash { s with tableLengthIndex := i } newLen
  | (newLen, none) => resize hash s newLen

/-- `insertEntry(entry, index)` -/
def insertEntry (s : State κ ν) (e : Entry κ ν) (index : Nat) : State κ ν :=
  if defaultEntryPtr s = 0 then
    -- defaultEntry = &entry; entry.SetNext(nullptr); table[index] = &entry;
    let s := if s.inl then s else { s with defaultEntry := e.id }
    setBucket s index [e]
  else
    -- entry.SetNext(table[index]); table[index] = &entry;
    setBucket s index (e :: bucket s index)

/-- `addNewKeyEntry(key[, initVal], index)`: `increment`, `NewEntry`, `insertEntry` -/
def addNewKeyEntry (hash : κ → Nat) (primes : List Nat) (s : State κ ν) (key : κ) (v : ν) (index : Nat) :
    State κ ν × Entry κ ν :=
  -- increment(key, index)
  let (s, index) :=
    if s.count ≥ s.threshold then
      let s := rehash hash primes s
      (s, hash key % s.tableLength)
    else (s, index)
  let s := { s with count := s.count + 1 }
  let e : Entry κ ν := { id := s.nextId, key := key, val := v }
  let s := { s with nextId := s.nextId + 1, ctor := s.ctor + 1 }
  (insertEntry s e index, e)

/-- `addKeyEntry(key[, initVal])`: the entry found or created -/
def addKeyEntry (hash : κ → Nat) (primes : List Nat) (s : State κ ν) (key : κ) (v : ν) :
    State κ ν × Entry κ ν :=
  let index := hash key % s.tableLength
  match findIn (bucket s index) key with
  | some e => (s, e)
  | none => addNewKeyEntry hash primes s key v index

/-- assignment through the reference `addKeyValue` returned: `entry->Value() = v` -/
def setVal (hash : κ → Nat) (s : State κ ν) (key : κ) (v : ν) : State κ ν :=
  let index := hash key % s.tableLength
  setBucket s index ((bucket s index).map fun e => if e.key = key then { e with val := v } else e)

/-- the loop of `remove`: `for (entry = table[index]; entry; entry = entry->Next())` with `prev`
    trailing; `(prev, entry, the chain with entry unlinked)` for the first entry whose key matches -/
def unlink (key : κ) : List (Entry κ ν) → Nat → Option (Nat × Entry κ ν × List (Entry κ ν))
  | [], _ => none
  | e :: rest, prev =>
    if e.key = key then some (prev, e, rest)
    else (unlink key rest e.id).map fun (p, x, r) => (p, x, e :: r)

/-- `remove(key)` -/
def remove (hash : κ → Nat) (s : State κ ν) (key : κ) : State κ ν × Bool :=
  let index := hash key % s.tableLength
  let c := bucket s index
  match unlink key c 0 with
  | none => (s, false)
  | some (prev, entry, c') =>
    -- `if (defaultEntry == entry)`; when `table == &defaultEntry` the assignment below re-assigns
    -- `table[index]`, i.e. `defaultEntry` itself (`prev` is null there: `entry` is the head)
    let s :=
      if defaultEntryPtr s = entry.id ∧ ¬ s.inl then
        -- defaultEntry = prev ? prev : table[index];
        let d := if prev ≠ 0 then prev else headId c
        -- for (i = 0; i < tableLength && !defaultEntry; i++) for (e = table[i]; e; e = e->Next()) { if (e == entry) continue; defaultEntry = e; break; }
        let d := if d = 0 then
            match s.table.flatten.find? (fun e => e.id ≠ entry.id) with
            | some e => e.id
            | none => 0
          else d
        { s with defaultEntry := d }
      else s
    -- prev ? prev->SetNext(entry->Next()) : table[index] = entry->Next();  (aliases defaultEntry when inl)
    let s := setBucket s index c'
    -- count--; DeleteEntry(entry);
    ({ s with count := s.count - 1, dtor := s.dtor + 1 }, true)

end

/-- `clear()`: every entry reachable from the table is deleted, the heap table is freed -/
def clear (s : State κ ν) : State κ ν :=
  { (init : State κ ν) with nextId := s.nextId, ctor := s.ctor, dtor := s.dtor + s.table.flatten.length }

/-- `shrink()` -/
def shrink [DecidableEq κ] (hash : κ → Nat) (s : State κ ν) : State κ ν :=
  if s.count ≠ 0 then resize hash s s.count else clear s

/-! ### enumeration (`set_enum`; `map_enum` forwards to it) -/

structure Enum (κ ν : Type) where
  idx : Nat                          -- m_Index
  rest : List (Entry κ ν)            -- the chain starting at m_NextEntry
  cur : Option (Entry κ ν)           -- m_CurrentEntry

/-- `set_enum::set_enum(set&)` (`*this = set` on a fresh object) -/
def enumStart (s : State κ ν) : Enum κ ν := { idx := s.tableLength, rest := [], cur := none }

/-- `set_enum::set_enum()`: bound to no set, `m_Index = 0`, no current / prefetched entry -/
def enumDefault : Enum κ ν := { idx := 0, rest := [], cur := none }

/-- `set_enum::operator=(set&)` on an EXISTING enumerator `e` — bound to this set, to another one or to
    none; fresh, in the middle of a collision chain (`e.rest ≠ []`: a prefetched `m_NextEntry`) or at its
    end — statement by statement:
    `m_Set = &set; m_Index = m_Set->tableLength; m_CurrentEntry = nullptr; m_NextEntry = nullptr;`
    (`map_enum::operator=(map&)` is `m_Set_Enum = map.m_set`).  `m_Set` is the `s` later calls are given. -/
def enumRebind (s : State κ ν) (e : Enum κ ν) : Enum κ ν :=
  { e with idx := s.tableLength, cur := none, rest := [] }

/-- `while (1) { if (!m_Index) break; m_Index--; m_NextEntry = table[m_Index]; if (m_NextEntry) break; }` -/
def advance (s : State κ ν) : Nat → Nat × List (Entry κ ν)
  | 0 => (0, [])
  | i + 1 =>
    match bucket s i with
    | [] => advance s i
    | c => (i, c)

/-- `set_enum::NextElement()` -/
def enumNext (s : State κ ν) (e : Enum κ ν) : Enum κ ν × Option (Entry κ ν) :=
  let (idx, rest) := if e.rest.isEmpty then advance s e.idx else (e.idx, e.rest)
  match rest with
  | [] => ({ idx := idx, rest := [], cur := none }, none)
  | x :: r => ({ idx := idx, rest := r, cur := some x }, some x)

/-- the entries in the order a full sweep of `NextElement` visits them -/
def enumAll (s : State κ ν) : List (Entry κ ν) :=
  (List.range s.tableLength).reverse.flatMap (bucket s)

/-! ### operations -/

inductive Op (κ ν : Type)
  | put (k : κ) (v : ν)          -- m[k] = v
  | touch (k : κ)                -- m[k]                      (creates with ValueT())
  | addInit (k : κ) (v : ν)      -- set.addKeyValue(k, v)     (keeps an existing value)
  | find (k : κ)
  | remove (k : κ)
  | resize (n : Nat)
  | shrink
  | clear

section
variable [DecidableEq κ] [Inhabited ν]

def step (hash : κ → Nat) (primes : List Nat) (s : State κ ν) : Op κ ν → State κ ν
  | .put k v => setVal hash (addKeyEntry hash primes s k default).1 k v
  | .touch k => (addKeyEntry hash primes s k default).1
  | .addInit k v => (addKeyEntry hash primes s k v).1
  | .find _ => s
  | .remove k => (remove hash s k).1
  | .resize n => resize hash s n
  | .shrink => shrink hash s
  | .clear => clear s

def run (hash : κ → Nat) (primes : List Nat) : State κ ν → List (Op κ ν) → State κ ν
  | s, [] => s
  | s, op :: ops => run hash primes (step hash primes s op) ops

def Reachable (hash : κ → Nat) (primes : List Nat) (s : State κ ν) : Prop :=
  ∃ ops, run hash primes init ops = s
end

end Morfuse.HashSet
