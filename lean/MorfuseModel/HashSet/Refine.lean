import MorfuseModel.HashSet.Lemmas4
/-!
# `con::set` / `con::map`: every operation is the finite-map operation; enumeration visits every
entry exactly once
-/
namespace Morfuse.HashSet
variable {κ ν : Type} [DecidableEq κ] {hash : κ → Nat}

/-! ### the abstract specification: a finite map as a lookup function -/

namespace Spec
variable [Inhabited ν]
def step (m : κ → Option ν) : Op κ ν → (κ → Option ν)
  | .put k v => fun x => if x = k then some v else m x
  | .touch k => fun x => if x = k then some ((m k).getD default) else m x
  | .addInit k v => fun x => if x = k then some ((m k).getD v) else m x
  | .find _ => m
  | .remove k => fun x => if x = k then none else m x
  | .resize _ => m
  | .shrink => m
  | .clear => fun _ => none
end Spec

theorem maps_cons_perm {s s' : State κ ν} {e : Entry κ ν} (hp : (ents s').Perm (e :: ents s)) (x : κ) (w : ν) :
    Maps s' x w ↔ (e.key = x ∧ e.val = w) ∨ Maps s x w := by
  simp only [Maps]
  constructor
  · rintro ⟨y, hy, h2⟩
    rcases List.mem_cons.mp (hp.mem_iff.mp hy) with rfl | hy'
    · exact Or.inl h2
    · exact Or.inr ⟨y, hy', h2⟩
  · rintro (h2 | ⟨y, hy, h2⟩)
    · exact ⟨e, hp.mem_iff.mpr (List.mem_cons_self ..), h2⟩
    · exact ⟨y, hp.mem_iff.mpr (List.mem_cons_of_mem _ hy), h2⟩

theorem Inv.findVal_none_iff {s : State κ ν} (h : Inv hash s) (k : κ) :
    findKeyValue hash s k = none ↔ ∀ e ∈ ents s, e.key ≠ k := by
  simp only [findKeyValue, Option.map_eq_none_iff]
  exact h.find_none_iff k

/-- `addKeyValue(key[, init])`: the binding found, or a new one with the initial value -/
theorem addKeyEntry_find {s : State κ ν} (h : Inv hash s) (primes : List Nat) (k : κ) (v0 : ν) :
    Inv hash (addKeyEntry hash primes s k v0).1 ∧
    (∃ y ∈ ents (addKeyEntry hash primes s k v0).1, y.key = k) ∧
    (addKeyEntry hash primes s k v0).2.val = (findKeyValue hash s k).getD v0 ∧
    ∀ x, findKeyValue hash (addKeyEntry hash primes s k v0).1 x =
      if x = k then some ((findKeyValue hash s k).getD v0) else findKeyValue hash s x := by
  obtain ⟨a, b, c, d, e⟩ := addKeyEntry_spec h primes k v0
  refine ⟨a, ⟨_, c, b⟩, ?_, ?_⟩
  · cases hf : findKeyValue hash s k with
    | none =>
      have hall := (h.findVal_none_iff k).mp hf
      simpa using (e hall).1
    | some w =>
      obtain ⟨y, hy, hyk, hyv⟩ := (h.findVal_iff k w).mp hf
      have hs := d ⟨y, hy, hyk⟩
      rw [hs] at c
      have : (addKeyEntry hash primes s k v0).2 = y := nodup_map_inj h.nodup c hy (by rw [b, hyk])
      simp [this, hyv]
  · intro x
    cases hf : findKeyValue hash s k with
    | some w =>
      obtain ⟨y, hy, hyk, hyv⟩ := (h.findVal_iff k w).mp hf
      rw [d ⟨y, hy, hyk⟩]
      split
      · rename_i hx; subst hx; simpa using hf
      · rfl
    | none =>
      have hall := (h.findVal_none_iff k).mp hf
      obtain ⟨e1, e2⟩ := e hall
      split
      · rename_i hx; subst hx
        rw [a.findVal_iff]
        exact (maps_cons_perm e2 x _).mpr (Or.inl ⟨b, by simpa using e1⟩)
      · rename_i hx
        apply findVal_congr h a
        intro w
        rw [maps_cons_perm e2]
        constructor
        · rintro (⟨h1, _⟩ | h2)
          · exact absurd (b.symm.trans h1).symm hx
          · exact h2
        · exact Or.inr

theorem setVal_find {s : State κ ν} (h : Inv hash s) (k : κ) (v : ν) (hk : ∃ y ∈ ents s, y.key = k) :
    Inv hash (setVal hash s k v) ∧
    ∀ x, findKeyValue hash (setVal hash s k v) x = if x = k then some v else findKeyValue hash s x := by
  obtain ⟨a, b⟩ := setVal_spec h k v
  refine ⟨a, fun x => ?_⟩
  split
  · rename_i hx; subst hx
    rw [a.findVal_iff]
    obtain ⟨y, hy, hyk⟩ := hk
    refine ⟨upd x v y, b.mem_iff.mpr (List.mem_map_of_mem hy), by simp [hyk], by simp [upd, hyk]⟩
  · rename_i hx
    apply findVal_congr h a
    intro w
    simp only [Maps]
    constructor
    · rintro ⟨y, hy, h1, h2⟩
      obtain ⟨z, hz, rfl⟩ := List.mem_map.mp (b.mem_iff.mp hy)
      have hzk : z.key ≠ k := by intro e; rw [upd_key] at h1; exact hx (h1.symm.trans e)
      refine ⟨z, hz, by simpa using h1, ?_⟩
      simpa [upd, hzk] using h2
    · rintro ⟨z, hz, h1, h2⟩
      have hzk : z.key ≠ k := by intro e; exact hx (h1.symm.trans e)
      exact ⟨upd k v z, b.mem_iff.mpr (List.mem_map_of_mem hz), by simpa using h1, by simpa [upd, hzk] using h2⟩

theorem remove_find {s : State κ ν} (h : Inv hash s) (k : κ) :
    Inv hash (remove hash s k).1 ∧ (remove hash s k).2 = (findKeyValue hash s k).isSome ∧
    ∀ x, findKeyValue hash (remove hash s k).1 x = if x = k then none else findKeyValue hash s x := by
  cases hf : findKeyValue hash s k with
  | none =>
    have hall := (h.findVal_none_iff k).mp hf
    rw [remove_absent h k hall]
    refine ⟨h, rfl, fun x => ?_⟩
    split
    · rename_i hx; subst hx; exact hf
    · rfl
  | some w =>
    obtain ⟨y, hy, hyk, hyv⟩ := (h.findVal_iff k w).mp hf
    obtain ⟨r1, r2, r3⟩ := remove_present h k y hy hyk
    refine ⟨r2, by simpa using r1, fun x => ?_⟩
    have hnd : ((y :: ents (remove hash s k).1).map (·.key)).Nodup := ((r3.map _).nodup_iff).mpr h.nodup
    simp only [List.map_cons, List.nodup_cons, List.mem_map, not_exists, not_and] at hnd
    split
    · rename_i hx; subst hx
      rw [r2.findVal_none_iff]
      intro z hz hzk
      exact hnd.1 z hz (by rw [hzk, hyk])
    · rename_i hx
      apply findVal_congr h r2
      intro w'
      simp only [Maps]
      constructor
      · rintro ⟨z, hz, h2⟩
        exact ⟨z, r3.mem_iff.mp (List.mem_cons_of_mem _ hz), h2⟩
      · rintro ⟨z, hz, h1, h2⟩
        rcases List.mem_cons.mp (r3.mem_iff.mpr hz) with rfl | hz'
        · exact absurd (h1.symm.trans hyk) hx
        · exact ⟨z, hz', h1, h2⟩

variable [Inhabited ν]

/-- one step keeps the invariant and is the finite-map operation on the lookup function -/
theorem step_refines {s : State κ ν} (h : Inv hash s) (primes : List Nat) (op : Op κ ν) :
    Inv hash (step hash primes s op) ∧
    ∀ x, findKeyValue hash (step hash primes s op) x = Spec.step (findKeyValue hash s) op x := by
  cases op with
  | put k v =>
    obtain ⟨a, b, _, d⟩ := addKeyEntry_find h primes k (default : ν)
    obtain ⟨e, f⟩ := setVal_find a k v b
    refine ⟨e, fun x => ?_⟩
    simp only [step, Spec.step, f x, d x]
    split <;> rfl
  | touch k =>
    obtain ⟨a, _, _, d⟩ := addKeyEntry_find h primes k (default : ν)
    exact ⟨a, fun x => by simp only [step, Spec.step, d x]⟩
  | addInit k v =>
    obtain ⟨a, _, _, d⟩ := addKeyEntry_find h primes k v
    exact ⟨a, fun x => by simp only [step, Spec.step, d x]⟩
  | find k => exact ⟨h, fun _ => rfl⟩
  | remove k =>
    obtain ⟨a, _, c⟩ := remove_find h k
    exact ⟨a, fun x => by simp only [step, Spec.step, c x]⟩
  | resize n =>
    obtain ⟨a, b, _⟩ := resize_spec h n
    exact ⟨a, fun x => findVal_congr h a x (maps_perm b x)⟩
  | shrink =>
    obtain ⟨a, b⟩ := shrink_spec h
    exact ⟨a, fun x => findVal_congr h a x (maps_perm b x)⟩
  | clear =>
    obtain ⟨a, b⟩ := clear_spec s h
    refine ⟨a, fun x => ?_⟩
    simp only [step, Spec.step]
    rw [a.findVal_none_iff, b]
    intro e he; cases he

theorem reachable_inv {primes : List Nat} {s : State κ ν} (h : Reachable hash primes s) : Inv hash s := by
  obtain ⟨ops, rfl⟩ := h
  suffices ∀ (ops : List (Op κ ν)) (s : State κ ν), Inv hash s → Inv hash (run hash primes s ops) from
    this ops init (inv_init hash)
  intro ops
  induction ops with
  | nil => intro s hs; exact hs
  | cons op ops ih => intro s hs; exact ih _ (step_refines hs primes op).1

end Morfuse.HashSet
