import MorfuseModel.Lang.SemLemmas
/-!
# C03 — the grammar's desugarings mean the same in `Lang.Sem`

`a op= b`, `a++` / `a--` and `for (init; c; inc) body` are nodes of their own in `Lang.Syntax` with
their own evaluation rule; the real parser builds `Assignment(a, Func2Expr(op, a, b))`,
`Assignment(a, Func1Expr(inc, a))` and `StatementList[init, While(c, body, inc)]` instead.  The
lemmas here say that both spellings finish with the same result (for some amount of fuel — the two
spellings need different amounts, so equality is stated on finished runs).
-/
namespace Morfuse.Lang

/-- statement `s`, started in `(fr, st)`, finishes with `res` (normal / break / … / script error) -/
def StmtRuns (prog : Program) (s : Stmt) (fr : Frame) (st : St) (res : Res (Flow × Frame × St)) : Prop :=
  res ≠ .timeout ∧ ∃ n, exec prog n s fr st = res

/-- the statement list finishes with `res` -/
def ListRuns (prog : Program) (ss : List Stmt) (fr : Frame) (st : St) (res : Res (Flow × Frame × St)) : Prop :=
  res ≠ .timeout ∧ ∃ n, execList prog n ss fr st = res

theorem StmtRuns.unique {prog s fr st r1 r2} (h1 : StmtRuns prog s fr st r1) (h2 : StmtRuns prog s fr st r2) : r1 = r2 := by
  obtain ⟨hn1, n, e1⟩ := h1
  obtain ⟨hn2, m, e2⟩ := h2
  rcases Nat.le_total n m with h | h
  · have := exec_mono prog h s fr st (by rw [e1]; exact hn1)
    rw [e1, e2] at this; exact this.symm
  · have := exec_mono prog h s fr st (by rw [e2]; exact hn2)
    rw [e1, e2] at this; exact this

theorem evalExpr_bin (prog : Program) (n : Nat) (op : BinOp) (a b : Expr) (fr : Frame) (st : St) :
    evalExpr prog (n+1) (.bin op a b) fr st =
      (match evalExpr prog n a fr st with
        | .ok (va, st1) =>
            match evalExpr prog n b fr st1 with
            | .ok (vb, st2) => match binop op va vb with
                | .ok v => .ok (v, st2)
                | .error e => .err e
            | .err e => .err e
            | .timeout => .timeout
        | .err e => .err e
        | .timeout => .timeout) := by
  simp only [evalExpr]
  rfl

theorem opassign_forward (prog : Program) (op : BinOp) (lv : LVal) (e : Expr) (fr : Frame) (st : St) (k : Nat)
    (h : exec prog (k+1) (.opassign op lv e) fr st ≠ .timeout) :
    exec prog (k+2) (.assign lv (.bin op lv.toExpr e)) fr st = exec prog (k+1) (.opassign op lv e) fr st := by
  have hs := fun v fr st => store_mono prog (Nat.le_succ k) lv v fr st
  simp only [exec, evalExpr_bin] at h ⊢
  cases ha : evalExpr prog k lv.toExpr fr st with
  | timeout => simp [ha] at h
  | err x => simp [ha]
  | ok p =>
    obtain ⟨va, st1⟩ := p
    simp only [ha] at h ⊢
    cases hb : evalExpr prog k e fr st1 with
    | timeout => simp [hb] at h
    | err x => simp [hb]
    | ok q =>
      obtain ⟨vb, st2⟩ := q
      simp only [hb] at h ⊢
      cases hv : binop op va vb with
      | error x => simp [hv]
      | ok v =>
        simp only [hv] at h ⊢
        have h3 : store prog k lv v fr st2 ≠ .timeout := by
          intro hc; simp [hc] at h
        rw [hs v fr st2 h3]

theorem opassign_backward (prog : Program) (op : BinOp) (lv : LVal) (e : Expr) (fr : Frame) (st : St) (k : Nat)
    (h : exec prog (k+2) (.assign lv (.bin op lv.toExpr e)) fr st ≠ .timeout) :
    exec prog (k+2) (.opassign op lv e) fr st = exec prog (k+2) (.assign lv (.bin op lv.toExpr e)) fr st := by
  have he := fun e fr st => evalExpr_mono prog (Nat.le_succ k) e fr st
  simp only [exec, evalExpr_bin] at h ⊢
  cases ha : evalExpr prog k lv.toExpr fr st with
  | timeout => simp [ha] at h
  | err x =>
    have h1 := he lv.toExpr fr st (by simp [ha])
    simp [ha, h1]
  | ok p =>
    obtain ⟨va, st1⟩ := p
    have h1 := he lv.toExpr fr st (by simp [ha])
    rw [ha] at h1
    simp only [ha, h1] at h ⊢
    cases hb : evalExpr prog k e fr st1 with
    | timeout => simp [hb] at h
    | err x =>
      have h2 := he e fr st1 (by simp [hb])
      simp [hb, h2]
    | ok q =>
      obtain ⟨vb, st2⟩ := q
      have h2 := he e fr st1 (by simp [hb])
      rw [hb] at h2
      simp only [hb, h2] at h ⊢
      cases hv : binop op va vb <;> simp

/-- **`a op= b` ≡ `a = a op b`** on finished runs -/
theorem desugar_opassign (prog : Program) (op : BinOp) (lv : LVal) (e : Expr) (fr : Frame) (st : St)
    (res : Res (Flow × Frame × St)) :
    StmtRuns prog (.opassign op lv e) fr st res ↔ StmtRuns prog (.assign lv (.bin op lv.toExpr e)) fr st res := by
  constructor
  · rintro ⟨hne, n, hn⟩
    cases n with
    | zero => simp [exec] at hn; exact absurd hn.symm hne
    | succ k =>
      refine ⟨hne, k + 2, ?_⟩
      rw [opassign_forward prog op lv e fr st k (by rw [hn]; exact hne), hn]
  · rintro ⟨hne, n, hn⟩
    match n, hn with
    | 0, hn => simp [exec] at hn; exact absurd hn.symm hne
    | 1, hn => simp [exec, evalExpr] at hn; exact absurd hn.symm hne
    | k + 2, hn =>
      refine ⟨hne, k + 2, ?_⟩
      rw [opassign_backward prog op lv e fr st k (by rw [hn]; exact hne), hn]

/-! ## `a++` / `a--` -/

theorem evalExpr_int (prog : Program) (n : Nat) (v : BitVec 64) (fr : Frame) (st : St) :
    evalExpr prog (n+1) (.int v) fr st = .ok (.int v, st) := by
  simp only [evalExpr]

/-- `a++` ≡ `a += 1` (and `a--` ≡ `a -= 1`) whenever `a` holds an integer; on NIL `++` is a no-op while
    `NIL + 1` is a script error, on strings `++` converts — the equivalence is about integers only -/
theorem desugar_incr_aux (prog : Program) (lv : LVal) (fr : Frame) (st : St) (d : BitVec 64) (op : BinOp)
    (hop : ∀ x : BitVec 64, binop op (.int x) (.int 1) = .ok (.int (x + d)))
    (s : Stmt) (hs : ∀ n, exec prog (n+1) s fr st =
      (match evalExpr prog n lv.toExpr fr st with
        | .ok (va, st1) =>
            match unIncr d va with
            | .ok v =>
                match store prog n lv v fr st1 with
                | .ok (fr2, st2) => .ok (.normal, fr2, st2)
                | .err e => .err e
                | .timeout => .timeout
            | .error e => .err e
        | .err e => .err e
        | .timeout => .timeout))
    (hint : ∀ n va st1, evalExpr prog n lv.toExpr fr st = .ok (va, st1) → ∃ x, va = .int x)
    (res : Res (Flow × Frame × St)) :
    StmtRuns prog s fr st res ↔ StmtRuns prog (.opassign op lv (.int 1)) fr st res := by
  constructor
  · rintro ⟨hne, n, hn⟩
    cases n with
    | zero => simp [exec] at hn; exact absurd hn.symm hne
    | succ k =>
      refine ⟨hne, k + 2, ?_⟩
      rw [← hn, hs k]
      rw [hs k] at hn
      have he := evalExpr_mono prog (Nat.le_succ k) lv.toExpr fr st
      have hst := fun v fr st => store_mono prog (Nat.le_succ k) lv v fr st
      simp only [exec, evalExpr_int]
      cases ha : evalExpr prog k lv.toExpr fr st with
      | timeout => rw [ha] at hn; exact absurd hn.symm hne
      | err x => rw [he (by simp [ha]), ha]
      | ok p =>
        obtain ⟨va, st1⟩ := p
        obtain ⟨x, rfl⟩ := hint k va st1 ha
        rw [he (by simp [ha]), ha]
        rw [ha] at hn
        simp only [hop, unIncr] at hn ⊢
        have h3 : store prog k lv (.int (x + d)) fr st1 ≠ .timeout := by
          intro hc; rw [hc] at hn; exact absurd hn.symm hne
        rw [hst _ fr st1 h3]
        rfl
  · rintro ⟨hne, n, hn⟩
    match n, hn with
    | 0, hn => simp [exec] at hn; exact absurd hn.symm hne
    | 1, hn => simp [exec, evalExpr] at hn; exact absurd hn.symm hne
    | k + 2, hn =>
      refine ⟨hne, k + 2, ?_⟩
      rw [← hn, hs (k+1)]
      simp only [exec, evalExpr_int]
      cases ha : evalExpr prog (k+1) lv.toExpr fr st with
      | timeout => rfl
      | err x => rfl
      | ok p =>
        obtain ⟨va, st1⟩ := p
        obtain ⟨x, rfl⟩ := hint (k+1) va st1 ha
        simp only [hop, unIncr]
        rfl

theorem desugar_incr (prog : Program) (lv : LVal) (fr : Frame) (st : St)
    (hint : ∀ n va st1, evalExpr prog n lv.toExpr fr st = .ok (va, st1) → ∃ x, va = .int x)
    (res : Res (Flow × Frame × St)) :
    StmtRuns prog (.incr lv) fr st res ↔ StmtRuns prog (.opassign .add lv (.int 1)) fr st res :=
  desugar_incr_aux prog lv fr st 1 .add (fun x => by simp [binop]) (.incr lv) (fun n => by simp only [exec]; rfl) hint res

theorem desugar_decr (prog : Program) (lv : LVal) (fr : Frame) (st : St)
    (hint : ∀ n va st1, evalExpr prog n lv.toExpr fr st = .ok (va, st1) → ∃ x, va = .int x)
    (res : Res (Flow × Frame × St)) :
    StmtRuns prog (.decr lv) fr st res ↔ StmtRuns prog (.opassign .sub lv (.int 1)) fr st res :=
  desugar_incr_aux prog lv fr st (-1) .sub (fun x => by simp [binop, BitVec.sub_eq_add_neg]) (.decr lv)
    (fun n => by simp only [exec]; rfl) hint res

/-! ## `for` -/

def isNormal : Res (Flow × Frame × St) → Bool
  | .ok (.normal, _, _) => true
  | _ => false

theorem execList_cons (prog : Program) (n : Nat) (s : Stmt) (rest : List Stmt) (fr : Frame) (st : St) :
    execList prog (n+1) (s :: rest) fr st =
      (match exec prog n s fr st with
        | .ok (.normal, fr1, st1) => execList prog n rest fr1 st1
        | r => r) := by
  simp only [execList]
  rfl

theorem execList_nil (prog : Program) (n : Nat) (fr : Frame) (st : St) :
    execList prog (n+1) [] fr st = .ok (.normal, fr, st) := by
  simp only [execList]

/-- a list that runs to its end normally, followed by a second list -/
theorem execList_append_normal (prog : Program) (xs ys : List Stmt) :
    ∀ (a : Nat) (fr : Frame) (st : St) (fr1 : Frame) (st1 : St) (b : Nat) (r : Res (Flow × Frame × St)),
      execList prog a xs fr st = .ok (.normal, fr1, st1) → execList prog b ys fr1 st1 = r → r ≠ .timeout →
      ∃ N, execList prog N (xs ++ ys) fr st = r := by
  induction xs with
  | nil =>
    intro a fr st fr1 st1 b r h1 h2 _
    cases a with
    | zero => simp [execList] at h1
    | succ a =>
      rw [execList_nil] at h1
      simp only [Res.ok.injEq, Prod.mk.injEq, true_and] at h1
      obtain ⟨rfl, rfl⟩ := h1
      exact ⟨b, h2⟩
  | cons x xs ih =>
    intro a fr st fr1 st1 b r h1 h2 hr
    cases a with
    | zero => simp [execList] at h1
    | succ a =>
      rw [execList_cons] at h1
      cases hx : exec prog a x fr st with
      | timeout => simp [hx] at h1
      | err e => simp [hx] at h1
      | ok p =>
        obtain ⟨fl, fr', st'⟩ := p
        cases fl <;> simp only [hx] at h1 <;> try (simp at h1)
        obtain ⟨N, hN⟩ := ih a fr' st' fr1 st1 b r h1 h2 hr
        refine ⟨max a N + 1, ?_⟩
        rw [List.cons_append, execList_cons]
        have e1 := exec_mono prog (Nat.le_max_left a N) x fr st (by simp [hx])
        rw [e1, hx]
        simp only
        have e2 := execList_mono prog (Nat.le_max_right a N) (xs ++ ys) fr' st' (by rw [hN]; exact hr)
        rw [e2, hN]

/-- a list that stops early (break / continue / goto / throw / end / error): what follows is not run -/
theorem execList_append_abrupt (prog : Program) (xs ys : List Stmt) :
    ∀ (a : Nat) (fr : Frame) (st : St) (r : Res (Flow × Frame × St)),
      execList prog a xs fr st = r → r ≠ .timeout → isNormal r = false →
      execList prog a (xs ++ ys) fr st = r := by
  induction xs with
  | nil =>
    intro a fr st r h1 hr hn
    cases a with
    | zero => simp [execList] at h1; exact absurd h1.symm hr
    | succ a => rw [execList_nil] at h1; subst h1; simp [isNormal] at hn
  | cons x xs ih =>
    intro a fr st r h1 hr hn
    cases a with
    | zero => simp [execList] at h1; exact absurd h1.symm hr
    | succ a =>
      rw [execList_cons] at h1
      rw [List.cons_append, execList_cons]
      cases hx : exec prog a x fr st with
      | timeout => simp [hx] at h1 ⊢; exact h1
      | err e => simp [hx] at h1 ⊢; exact h1
      | ok p =>
        obtain ⟨fl, fr', st'⟩ := p
        cases fl <;> simp only [hx] at h1 ⊢ <;> try exact h1
        exact ih a fr' st' r h1 hr hn

/-- a finished run of `xs ++ ys` is a normal run of `xs` followed by a run of `ys`, or an early stop inside `xs` -/
theorem execList_append_split (prog : Program) (xs ys : List Stmt) :
    ∀ (n : Nat) (fr : Frame) (st : St) (r : Res (Flow × Frame × St)),
      execList prog n (xs ++ ys) fr st = r → r ≠ .timeout →
      (∃ fr1 st1, execList prog n xs fr st = .ok (.normal, fr1, st1) ∧ ∃ m, m ≤ n ∧ execList prog m ys fr1 st1 = r) ∨
      (execList prog n xs fr st = r ∧ isNormal r = false) := by
  induction xs with
  | nil =>
    intro n fr st r h hr
    cases n with
    | zero => simp [execList] at h; exact absurd h.symm hr
    | succ n =>
      left
      exact ⟨fr, st, execList_nil prog n fr st, n + 1, Nat.le_refl _, by simpa using h⟩
  | cons x xs ih =>
    intro n fr st r h hr
    cases n with
    | zero => simp [execList] at h; exact absurd h.symm hr
    | succ n =>
      rw [List.cons_append, execList_cons] at h
      rw [execList_cons]
      cases hx : exec prog n x fr st with
      | timeout => simp [hx] at h; exact absurd h.symm hr
      | err e => simp only [hx] at h ⊢; right; subst h; exact ⟨rfl, rfl⟩
      | ok p =>
        obtain ⟨fl, fr', st'⟩ := p
        cases fl <;> simp only [hx] at h ⊢ <;> try (right; subst h; exact ⟨rfl, rfl⟩)
        rcases ih n fr' st' r h hr with ⟨fr1, st1, h1, m, hm, h2⟩ | ⟨h1, h2⟩
        · left; exact ⟨fr1, st1, h1, m, Nat.le_succ_of_le hm, h2⟩
        · right; exact ⟨h1, h2⟩

theorem exec_while (prog : Program) (n : Nat) (c : Expr) (body inc : List Stmt) (fr : Frame) (st : St) :
    exec prog (n+1) (.while_ c body inc) fr st = execWhile prog n c body inc fr st := by
  simp only [exec]

theorem exec_block (prog : Program) (n : Nat) (ss : List Stmt) (fr : Frame) (st : St) :
    exec prog (n+1) (.block ss) fr st = execList prog n ss fr st := by
  simp only [exec]

theorem exec_for (prog : Program) (n : Nat) (init : List Stmt) (c : Expr) (inc body : List Stmt) (fr : Frame) (st : St) :
    exec prog (n+1) (.for_ init c inc body) fr st =
      (match execList prog n init fr st with
        | .ok (.normal, fr1, st1) => execWhile prog n c body inc fr1 st1
        | r => r) := by
  simp only [exec]
  rfl

/-- a one-statement list runs like the statement -/
theorem execList_single (prog : Program) (m : Nat) (s : Stmt) (fr : Frame) (st : St) :
    execList prog (m+2) [s] fr st = exec prog (m+1) s fr st := by
  rw [execList_cons]
  cases hx : exec prog (m+1) s fr st with
  | timeout => rfl
  | err e => rfl
  | ok p =>
    obtain ⟨fl, fr', st'⟩ := p
    cases fl <;> simp only [execList_nil]

theorem execList_single_inv (prog : Program) (m : Nat) (s : Stmt) (fr : Frame) (st : St) (r : Res (Flow × Frame × St))
    (h : execList prog m [s] fr st = r) (hr : r ≠ .timeout) : ∃ k, k + 1 ≤ m ∧ exec prog k s fr st = r := by
  cases m with
  | zero => simp [execList] at h; exact absurd h.symm hr
  | succ m =>
    rw [execList_cons] at h
    refine ⟨m, Nat.le_refl _, ?_⟩
    cases hx : exec prog m s fr st with
    | timeout => simp [hx] at h; exact h
    | err e => simp [hx] at h; exact h
    | ok p =>
      obtain ⟨fl, fr', st'⟩ := p
      cases fl <;> simp only [hx] at h <;> try exact h
      cases m with
      | zero => simp [exec] at hx
      | succ m => rw [execList_nil] at h; exact h

/-- **`for (init; c; inc) body` ≡ `{ init; While(c, body, inc) }`** (the tree the parser builds) on finished runs -/
theorem desugar_for (prog : Program) (init : List Stmt) (c : Expr) (inc body : List Stmt) (fr : Frame) (st : St)
    (res : Res (Flow × Frame × St)) :
    StmtRuns prog (.for_ init c inc body) fr st res ↔
      StmtRuns prog (.block (init ++ [.while_ c body inc])) fr st res := by
  constructor
  · rintro ⟨hne, n, hn⟩
    cases n with
    | zero => simp [exec] at hn; exact absurd hn.symm hne
    | succ n =>
      rw [exec_for] at hn
      refine ⟨hne, ?_⟩
      cases hi : execList prog n init fr st with
      | timeout => simp [hi] at hn; exact absurd hn.symm hne
      | err e =>
        simp only [hi] at hn
        refine ⟨n + 1, ?_⟩
        rw [exec_block, execList_append_abrupt prog init _ n fr st (.err e) hi (by simp) rfl, hn]
      | ok p =>
        obtain ⟨fl, fr1, st1⟩ := p
        cases fl
        case normal =>
          simp only [hi] at hn
          have hw : execList prog (n+2) [.while_ c body inc] fr1 st1 = res := by
            rw [execList_single, exec_while, hn]
          obtain ⟨N, hN⟩ := execList_append_normal prog init _ n fr st fr1 st1 (n+2) res hi hw hne
          exact ⟨N + 1, by rw [exec_block, hN]⟩
        all_goals
          simp only [hi] at hn
          refine ⟨n + 1, ?_⟩
          rw [exec_block, execList_append_abrupt prog init _ n fr st _ hi (by simp) rfl, hn]
  · rintro ⟨hne, n, hn⟩
    cases n with
    | zero => simp [exec] at hn; exact absurd hn.symm hne
    | succ n =>
      rw [exec_block] at hn
      refine ⟨hne, n + 1, ?_⟩
      rw [exec_for]
      rcases execList_append_split prog init _ n fr st res hn hne with ⟨fr1, st1, h1, m, hm, h2⟩ | ⟨h1, h2⟩
      · rw [h1]
        simp only
        obtain ⟨k, hk, h3⟩ := execList_single_inv prog m _ fr1 st1 res h2 hne
        cases k with
        | zero => simp [exec] at h3; exact absurd h3.symm hne
        | succ k =>
          rw [exec_while] at h3
          have := execWhile_mono prog (show k ≤ n by omega) c body inc fr1 st1 (by rw [h3]; exact hne)
          rw [this, h3]
      · rw [h1]
        cases res with
        | timeout => exact absurd rfl hne
        | err e => rfl
        | ok p =>
          obtain ⟨fl, fr', st'⟩ := p
          cases fl <;> first | rfl | (simp [isNormal] at h2)

end Morfuse.Lang
