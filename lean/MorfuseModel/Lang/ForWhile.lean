import MorfuseModel.Lang.NoCont
/-!
# C03 — `for (init; c; inc) body` ≡ `init; while (c) { body; inc }` when `body` has no `continue` of its own
-/
namespace Morfuse.Lang

theorem execWhile_unfold (prog : Program) (n : Nat) (c : Expr) (body inc : List Stmt) (fr : Frame) (st : St) :
    execWhile prog (n+1) c body inc fr st =
      (match evalExpr prog n c fr st with
        | .ok (vc, st1) =>
            if vc.truthy then
              match execList prog n body fr st1 with
              | .ok (.normal, fr2, st2) | .ok (.cont, fr2, st2) =>
                  match execList prog n inc fr2 st2 with
                  | .ok (.normal, fr3, st3) => execWhile prog n c body inc fr3 st3
                  | .ok (.brk, fr3, st3) => .ok (.normal, fr3, st3)
                  | r => r
              | .ok (.brk, fr2, st2) => .ok (.normal, fr2, st2)
              | r => r
            else .ok (.normal, fr, st1)
        | .err e => .err e
        | .timeout => .timeout) := by
  simp only [execWhile]
  rfl

/-- what one round of the loop does with the outcome `r` of "body then increment" -/
def afterRound (prog : Program) (k : Nat) (c : Expr) (body inc : List Stmt) : Res (Flow × Frame × St) → Res (Flow × Frame × St)
  | .ok (.normal, fr3, st3) => execWhile prog k c body inc fr3 st3
  | .ok (.brk, fr3, st3) => .ok (.normal, fr3, st3)
  | r => r

/-- the merged loop `while (c) { body; inc }`, one unfolding, in terms of the outcome of `body ++ inc` -/
theorem execWhile_merged (prog : Program) (n : Nat) (c : Expr) (bi : List Stmt) (fr : Frame) (st : St)
    (hn : freeContL bi = false) :
    execWhile prog (n+2) c bi [] fr st =
      (match evalExpr prog (n+1) c fr st with
        | .ok (vc, st1) =>
            if vc.truthy then afterRound prog (n+1) c bi [] (execList prog (n+1) bi fr st1)
            else .ok (.normal, fr, st1)
        | .err e => .err e
        | .timeout => .timeout) := by
  rw [execWhile_unfold]
  cases hc : evalExpr prog (n+1) c fr st with
  | timeout => rfl
  | err e => rfl
  | ok p =>
    obtain ⟨vc, st1⟩ := p
    simp only
    split
    · cases hb : execList prog (n+1) bi fr st1 with
      | timeout => rfl
      | err e => rfl
      | ok q =>
        obtain ⟨fl, fr2, st2⟩ := q
        cases fl <;> simp only [afterRound, execList_nil]
        exact absurd hb (execList_noCont prog bi hn (n+1) fr st1 fr2 st2)
    · rfl

theorem freeContL_append (xs ys : List Stmt) : freeContL (xs ++ ys) = (freeContL xs || freeContL ys) := by
  induction xs with
  | nil => simp [freeContL]
  | cons x xs ih => simp [freeContL, ih, Bool.or_assoc]

/-- outcome of "body, then increment" in the two-part loop -/
def roundOutcome (prog : Program) (n : Nat) (body inc : List Stmt) (fr : Frame) (st : St) : Res (Flow × Frame × St) :=
  match execList prog n body fr st with
  | .ok (.normal, fr2, st2) => execList prog n inc fr2 st2
  | r => r

theorem execWhile_round (prog : Program) (n : Nat) (c : Expr) (body inc : List Stmt) (fr : Frame) (st : St)
    (hB : freeContL body = false) :
    execWhile prog (n+1) c body inc fr st =
      (match evalExpr prog n c fr st with
        | .ok (vc, st1) =>
            if vc.truthy then afterRound prog n c body inc (roundOutcome prog n body inc fr st1)
            else .ok (.normal, fr, st1)
        | .err e => .err e
        | .timeout => .timeout) := by
  rw [execWhile_unfold]
  cases hc : evalExpr prog n c fr st with
  | timeout => rfl
  | err e => rfl
  | ok p =>
    obtain ⟨vc, st1⟩ := p
    simp only
    split
    · simp only [roundOutcome]
      cases hb : execList prog n body fr st1 with
      | timeout => rfl
      | err e => rfl
      | ok q =>
        obtain ⟨fl, fr2, st2⟩ := q
        cases fl <;> simp only [afterRound]
        all_goals exact absurd hb (execList_noCont prog body hB n fr st1 fr2 st2)
    · rfl

theorem roundOutcome_to_merged (prog : Program) (body inc : List Stmt) (n : Nat) (fr : Frame) (st : St)
    (r : Res (Flow × Frame × St)) (h : roundOutcome prog n body inc fr st = r) (hr : r ≠ .timeout) :
    ∃ N, execList prog N (body ++ inc) fr st = r := by
  simp only [roundOutcome] at h
  cases hb : execList prog n body fr st with
  | timeout => rw [hb] at h; exact absurd h.symm hr
  | err e =>
    rw [hb] at h
    exact ⟨n, by rw [execList_append_abrupt prog body inc n fr st (.err e) hb (by simp) rfl]; exact h⟩
  | ok q =>
    obtain ⟨fl, fr2, st2⟩ := q
    rw [hb] at h
    cases fl
    case normal => exact execList_append_normal prog body inc n fr st fr2 st2 n r hb h hr
    all_goals
      exact ⟨n, by rw [execList_append_abrupt prog body inc n fr st _ hb (by simp) rfl]; exact h⟩

theorem merged_to_roundOutcome (prog : Program) (body inc : List Stmt) (n : Nat) (fr : Frame) (st : St)
    (r : Res (Flow × Frame × St)) (h : execList prog n (body ++ inc) fr st = r) (hr : r ≠ .timeout) :
    roundOutcome prog n body inc fr st = r := by
  simp only [roundOutcome]
  rcases execList_append_split prog body inc n fr st r h hr with ⟨fr1, st1, h1, m, hm, h2⟩ | ⟨h1, h2⟩
  · rw [h1]
    simp only
    have := execList_mono prog hm inc fr1 st1 (by rw [h2]; exact hr)
    rw [this, h2]
  · rw [h1]
    cases r with
    | timeout => exact absurd rfl hr
    | err e => rfl
    | ok q =>
      obtain ⟨fl, fr2, st2⟩ := q
      cases fl <;> first | rfl | (simp [isNormal] at h2)

theorem roundOutcome_mono (prog : Program) {n m : Nat} (h : n ≤ m) (body inc : List Stmt) (fr : Frame) (st : St)
    (hr : roundOutcome prog n body inc fr st ≠ .timeout) :
    roundOutcome prog m body inc fr st = roundOutcome prog n body inc fr st := by
  simp only [roundOutcome] at hr ⊢
  cases hb : execList prog n body fr st with
  | timeout => rw [hb] at hr; exact absurd rfl hr
  | err e => rw [execList_mono prog h body fr st (by rw [hb]; simp), hb]
  | ok q =>
    obtain ⟨fl, fr2, st2⟩ := q
    rw [execList_mono prog h body fr st (by rw [hb]; simp), hb]
    rw [hb] at hr
    cases fl <;> try rfl
    simp only at hr ⊢
    exact execList_mono prog h inc fr2 st2 hr

/-- two-part loop ⟶ merged loop -/
theorem while_to_merged (prog : Program) (c : Expr) (body inc : List Stmt)
    (hB : freeContL body = false) (hI : freeContL inc = false) :
    ∀ (n : Nat) (fr : Frame) (st : St) (res : Res (Flow × Frame × St)),
      execWhile prog n c body inc fr st = res → res ≠ .timeout →
      ∃ m, execWhile prog m c (body ++ inc) [] fr st = res := by
  have hBI : freeContL (body ++ inc) = false := by rw [freeContL_append, hB, hI]; rfl
  intro n
  induction n with
  | zero => intro fr st res h hr; simp [execWhile] at h; exact absurd h.symm hr
  | succ n ih =>
    intro fr st res h hr
    rw [execWhile_round prog n c body inc fr st hB] at h
    cases hc : evalExpr prog n c fr st with
    | timeout => rw [hc] at h; exact absurd h.symm hr
    | err e =>
      rw [hc] at h
      refine ⟨n + 2, ?_⟩
      rw [execWhile_merged prog n c _ fr st hBI, evalExpr_mono prog (Nat.le_succ n) c fr st (by rw [hc]; simp), hc]
      exact h
    | ok p =>
      obtain ⟨vc, st1⟩ := p
      rw [hc] at h
      simp only at h
      by_cases ht : vc.truthy = true
      · simp only [ht, if_true] at h
        -- outcome of this round
        cases hro : roundOutcome prog n body inc fr st1 with
        | timeout => rw [hro] at h; simp [afterRound] at h; exact absurd h.symm hr
        | err e =>
          rw [hro] at h
          obtain ⟨N, hN⟩ := roundOutcome_to_merged prog body inc n fr st1 _ hro (by simp)
          refine ⟨max n N + 2, ?_⟩
          rw [execWhile_merged prog _ c _ fr st hBI,
            evalExpr_mono prog (show n ≤ max n N + 1 by omega) c fr st (by rw [hc]; simp), hc]
          simp only [ht, if_true]
          rw [execList_mono prog (show N ≤ max n N + 1 by omega) _ fr st1 (by rw [hN]; simp), hN]
          exact h
        | ok q =>
          obtain ⟨fl, fr3, st3⟩ := q
          rw [hro] at h
          obtain ⟨N, hN⟩ := roundOutcome_to_merged prog body inc n fr st1 _ hro (by simp)
          cases fl
          case normal =>
            simp only [afterRound] at h
            obtain ⟨m', hm'⟩ := ih fr3 st3 res h hr
            refine ⟨max (max n N) m' + 2, ?_⟩
            rw [execWhile_merged prog _ c _ fr st hBI,
              evalExpr_mono prog (show n ≤ max (max n N) m' + 1 by omega) c fr st (by rw [hc]; simp), hc]
            simp only [ht, if_true]
            rw [execList_mono prog (show N ≤ max (max n N) m' + 1 by omega) _ fr st1 (by rw [hN]; simp), hN]
            simp only [afterRound]
            rw [execWhile_mono prog (show m' ≤ max (max n N) m' + 1 by omega) c _ [] fr3 st3 (by rw [hm']; exact hr), hm']
          all_goals
            refine ⟨max n N + 2, ?_⟩
            rw [execWhile_merged prog _ c _ fr st hBI,
              evalExpr_mono prog (show n ≤ max n N + 1 by omega) c fr st (by rw [hc]; simp), hc]
            simp only [ht, if_true]
            rw [execList_mono prog (show N ≤ max n N + 1 by omega) _ fr st1 (by rw [hN]; simp), hN]
            exact h
      · simp only [ht] at h
        refine ⟨n + 2, ?_⟩
        rw [execWhile_merged prog n c _ fr st hBI, evalExpr_mono prog (Nat.le_succ n) c fr st (by rw [hc]; simp), hc]
        simp only [ht]
        exact h

/-- merged loop ⟶ two-part loop -/
theorem merged_to_while (prog : Program) (c : Expr) (body inc : List Stmt)
    (hB : freeContL body = false) (hI : freeContL inc = false) :
    ∀ (n : Nat) (fr : Frame) (st : St) (res : Res (Flow × Frame × St)),
      execWhile prog n c (body ++ inc) [] fr st = res → res ≠ .timeout →
      ∃ m, execWhile prog m c body inc fr st = res := by
  have hBI : freeContL (body ++ inc) = false := by rw [freeContL_append, hB, hI]; rfl
  intro n
  induction n with
  | zero => intro fr st res h hr; simp [execWhile] at h; exact absurd h.symm hr
  | succ n ih =>
    intro fr st res h hr
    cases n with
    | zero =>
      -- one unit of fuel: the condition cannot even be evaluated
      rw [execWhile_unfold] at h
      simp [evalExpr] at h
      exact absurd h.symm hr
    | succ n =>
      rw [execWhile_merged prog n c _ fr st hBI] at h
      cases hc : evalExpr prog (n+1) c fr st with
      | timeout => rw [hc] at h; exact absurd h.symm hr
      | err e =>
        rw [hc] at h
        refine ⟨n + 2, ?_⟩
        rw [execWhile_round prog (n+1) c body inc fr st hB, hc]
        exact h
      | ok p =>
        obtain ⟨vc, st1⟩ := p
        rw [hc] at h
        simp only at h
        by_cases ht : vc.truthy = true
        · simp only [ht, if_true] at h
          cases hbi : execList prog (n+1) (body ++ inc) fr st1 with
          | timeout => rw [hbi] at h; simp [afterRound] at h; exact absurd h.symm hr
          | err e =>
            rw [hbi] at h
            have hro := merged_to_roundOutcome prog body inc (n+1) fr st1 _ hbi (by simp)
            refine ⟨n + 2, ?_⟩
            rw [execWhile_round prog (n+1) c body inc fr st hB, hc]
            simp only [ht, if_true]
            rw [hro]
            exact h
          | ok q =>
            obtain ⟨fl, fr3, st3⟩ := q
            rw [hbi] at h
            have hro := merged_to_roundOutcome prog body inc (n+1) fr st1 _ hbi (by simp)
            cases fl
            case normal =>
              simp only [afterRound] at h
              obtain ⟨m', hm'⟩ := ih fr3 st3 res h hr
              refine ⟨max (n+1) m' + 1, ?_⟩
              rw [execWhile_round prog _ c body inc fr st hB,
                evalExpr_mono prog (show n + 1 ≤ max (n+1) m' by omega) c fr st (by rw [hc]; simp), hc]
              simp only [ht, if_true]
              rw [roundOutcome_mono prog (show n + 1 ≤ max (n+1) m' by omega) body inc fr st1 (by rw [hro]; simp), hro]
              simp only [afterRound]
              rw [execWhile_mono prog (show m' ≤ max (n+1) m' by omega) c body inc fr3 st3 (by rw [hm']; exact hr), hm']
            all_goals
              refine ⟨n + 2, ?_⟩
              rw [execWhile_round prog (n+1) c body inc fr st hB, hc]
              simp only [ht, if_true]
              rw [hro]
              exact h
        · simp only [ht] at h
          refine ⟨n + 2, ?_⟩
          rw [execWhile_round prog (n+1) c body inc fr st hB, hc]
          simp only [ht]
          exact h

/-- `While(c, body, inc)` and `while (c) { body; inc }` finish with the same results when neither part has a
    `continue` of its own -/
theorem while_merged_iff (prog : Program) (c : Expr) (body inc : List Stmt)
    (hB : freeContL body = false) (hI : freeContL inc = false) (fr : Frame) (st : St) (res : Res (Flow × Frame × St)) :
    StmtRuns prog (.while_ c body inc) fr st res ↔ StmtRuns prog (.while_ c (body ++ inc) []) fr st res := by
  constructor
  · rintro ⟨hr, n, hn⟩
    cases n with
    | zero => simp [exec] at hn; exact absurd hn.symm hr
    | succ n =>
      rw [exec_while] at hn
      obtain ⟨m, hm⟩ := while_to_merged prog c body inc hB hI n fr st res hn hr
      exact ⟨hr, m + 1, by rw [exec_while, hm]⟩
  · rintro ⟨hr, n, hn⟩
    cases n with
    | zero => simp [exec] at hn; exact absurd hn.symm hr
    | succ n =>
      rw [exec_while] at hn
      obtain ⟨m, hm⟩ := merged_to_while prog c body inc hB hI n fr st res hn hr
      exact ⟨hr, m + 1, by rw [exec_while, hm]⟩

/-- replacing the last statement of a block by an equivalent one -/
theorem block_last_congr (prog : Program) (xs : List Stmt) (s1 s2 : Stmt)
    (heq : ∀ fr st res, StmtRuns prog s1 fr st res → StmtRuns prog s2 fr st res)
    (fr : Frame) (st : St) (res : Res (Flow × Frame × St)) :
    StmtRuns prog (.block (xs ++ [s1])) fr st res → StmtRuns prog (.block (xs ++ [s2])) fr st res := by
  rintro ⟨hr, n, hn⟩
  cases n with
  | zero => simp [exec] at hn; exact absurd hn.symm hr
  | succ n =>
    rw [exec_block] at hn
    refine ⟨hr, ?_⟩
    rcases execList_append_split prog xs [s1] n fr st res hn hr with ⟨fr1, st1, h1, m, _, h2⟩ | ⟨h1, h2⟩
    · obtain ⟨k, _, h3⟩ := execList_single_inv prog m s1 fr1 st1 res h2 hr
      obtain ⟨_, k2, h4⟩ := heq fr1 st1 res ⟨hr, k, h3⟩
      cases k2 with
      | zero => simp [exec] at h4; exact absurd h4.symm hr
      | succ k2 =>
        have hw : execList prog (k2+2) [s2] fr1 st1 = res := by rw [execList_single, h4]
        obtain ⟨N, hN⟩ := execList_append_normal prog xs [s2] n fr st fr1 st1 (k2+2) res h1 hw hr
        exact ⟨N + 1, by rw [exec_block, hN]⟩
    · exact ⟨n + 1, by rw [exec_block, execList_append_abrupt prog xs [s2] n fr st res h1 hr h2]⟩

/-- **`for (init; c; inc) body` ≡ `init; while (c) { body; inc }`** when `body` (and `inc`) contain no `continue`
    that would bind to this loop -/
theorem desugar_for_while (prog : Program) (init : List Stmt) (c : Expr) (inc body : List Stmt)
    (hB : freeContL body = false) (hI : freeContL inc = false) (fr : Frame) (st : St) (res : Res (Flow × Frame × St)) :
    StmtRuns prog (.for_ init c inc body) fr st res ↔
      StmtRuns prog (.block (init ++ [.while_ c (body ++ inc) []])) fr st res := by
  rw [desugar_for]
  constructor
  · exact block_last_congr prog init _ _ (fun fr st res => (while_merged_iff prog c body inc hB hI fr st res).mp) fr st res
  · exact block_last_congr prog init _ _ (fun fr st res => (while_merged_iff prog c body inc hB hI fr st res).mpr) fr st res

end Morfuse.Lang
