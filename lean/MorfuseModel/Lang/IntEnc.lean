import MorfuseModel.Gen.IntEnc
/-!
# C03 — integer literals: `EmitInteger` (compiler) against `OP_STORE_INT*` (VM)

`encodeInt` is `ScriptEmitter::EmitInteger`: the first branch of the generated table whose bound
exceeds the value decides the opcode `OP_STORE_INTk` and how many low-order bytes of the value are
written (`WriteOpValue<T>(static_cast<T>(value))`, little endian).  `decodeWith` is what reads them
back: `ReadOpcodeValue<T>` (value of the read type `T`, signed or unsigned), converted to the
setter's parameter type (`setIntValue(uint32_t)` / `setLongValue(uint64_t)`), stored into the 64-bit
`long64Value`.  The tables (`Gen/IntEnc.lean`) are regenerated from the C++ on every run.
-/
namespace Morfuse.Lang.IntEnc
open Morfuse.Gen.IntEnc

/-- the `w` low-order bytes of `n`, least significant first -/
def toBytes (n : Nat) : Nat → List Nat
  | 0 => []
  | w + 1 => n % 256 :: toBytes (n / 256) w

def fromBytes : List Nat → Nat
  | [] => 0
  | b :: t => b + 256 * fromBytes t

/-- an emitted literal: `OP_STORE_INTk` and its operand bytes -/
structure Code where
  k : Nat
  bytes : List Nat
  deriving Repr, DecidableEq

def firstBranch (n : Nat) : List (Nat × Nat × Nat) → Option (Nat × Nat)
  | [] => none
  | (bound, k, w) :: t => if n < bound then some (k, w) else firstBranch n t

/-- `ScriptEmitter::EmitInteger(uint64_t value)` -/
def encodeInt (v : BitVec 64) : Code :=
  if emitZeroFirst && v.toNat == 0 then ⟨0, []⟩
  else match firstBranch v.toNat emitBranches with
    | some (k, w) => ⟨k, toBytes v.toNat w⟩
    | none => ⟨emitElse.1, toBytes v.toNat emitElse.2⟩

def findDecoder (k : Nat) : List (Nat × Nat × Bool × Nat × Bool) → Option (Nat × Bool × Nat × Bool)
  | [] => none
  | (k', d) :: t => if k' = k then some d else findDecoder k t

/-- value of a `bits`-wide two's-complement / unsigned quantity with bit pattern `raw % 2^bits` -/
def interpret (raw : Nat) (bits : Nat) (signed : Bool) : Int :=
  let m := raw % 2 ^ bits
  if signed && decide (2 ^ (bits - 1) ≤ m) then (m : Int) - (2 ^ bits : Nat) else (m : Int)

/-- read the operand with the read type, pass it to the setter, store into `long64Value` -/
def decodeWith (tbl : List (Nat × Nat × Bool × Nat × Bool)) (c : Code) : Option (BitVec 64) :=
  match findDecoder c.k tbl with
  | none => none
  | some (nbytes, rsigned, pbits, psigned) =>
      if c.bytes.length ≠ nbytes then none
      else
        let readVal := interpret (fromBytes c.bytes) (8 * nbytes) rsigned
        let param := interpret (readVal % (2 ^ pbits : Nat)).toNat pbits psigned
        some (BitVec.ofInt 64 param)

/-- `ScriptVM::Process`, `case OP_STORE_INT*` -/
def decodeInt (c : Code) : Option (BitVec 64) := decodeWith vmDecoders c

/-- `ScriptEmitter::EvalPrevValue` (what unary-minus folding reads back from the code buffer) -/
def decodeFold (c : Code) : Option (BitVec 64) := decodeWith foldDecoders c

/-- widths the emitter can choose from -/
def widths : List Nat := emitBranches.map (fun b => b.2.2) ++ [emitElse.2]

/-- `EmitFunc1(OP_UN_MINUS)` on a literal: read the previous literal back, negate, emit again -/
def foldNeg (c : Code) : Option Code :=
  (decodeFold c).map fun v => encodeInt (-v)

end Morfuse.Lang.IntEnc
