import MorfuseModel.Lang.IntEnc
/-! lemmas behind `C03_literal_roundtrip` -/
namespace Morfuse.Lang.IntEnc
open Morfuse.Gen.IntEnc

theorem toBytes_length (n w : Nat) : (toBytes n w).length = w := by
  induction w generalizing n with
  | zero => rfl
  | succ w ih => simp [toBytes, ih]

theorem fromBytes_toBytes (n w : Nat) : fromBytes (toBytes n w) = n % 256 ^ w := by
  induction w generalizing n with
  | zero => simp [toBytes, fromBytes, Nat.mod_one]
  | succ w ih =>
    simp only [toBytes, fromBytes, ih]
    rw [Nat.pow_succ', Nat.mod_mul]

theorem interpret_unsigned (raw bits : Nat) (h : raw < 2 ^ bits) : interpret raw bits false = (raw : Int) := by
  simp [interpret, Nat.mod_eq_of_lt h]

/-- reading `w` bytes of `n < 256^w` unsigned and storing through an unsigned parameter of `pbits ≥ 8w` bits gives `n` back -/
theorem decode_unsigned (tbl : List (Nat × Nat × Bool × Nat × Bool)) (k w pbits n : Nat)
    (hd : findDecoder k tbl = some (w, false, pbits, false)) (hn : n < 256 ^ w) (hp : 256 ^ w ≤ 2 ^ pbits)
    (h64 : n < 2 ^ 64) :
    decodeWith tbl ⟨k, toBytes n w⟩ = some (BitVec.ofNat 64 n) := by
  have h8 : (256 : Nat) ^ w = 2 ^ (8 * w) := by
    rw [show (256 : Nat) = 2 ^ 8 by rfl, ← Nat.pow_mul]
  simp only [decodeWith, hd, toBytes_length, ne_eq, not_true_eq_false, ↓reduceIte, fromBytes_toBytes]
  have h1 : n % 256 ^ w = n := Nat.mod_eq_of_lt hn
  rw [h1, interpret_unsigned n (8 * w) (by rw [← h8]; exact hn)]
  have h2 : ((n : Int) % ((2 ^ pbits : Nat) : Int)).toNat = n := by
    have : n < 2 ^ pbits := Nat.lt_of_lt_of_le hn hp
    rw [Int.ofNat_mod_ofNat, Int.toNat_natCast, Nat.mod_eq_of_lt this]
  rw [h2, interpret_unsigned n pbits (Nat.lt_of_lt_of_le hn hp)]
  simp [BitVec.ofInt_natCast]

end Morfuse.Lang.IntEnc
