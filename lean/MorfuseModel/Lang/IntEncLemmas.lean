import MorfuseModel.Lang.IntEnc
/-! lemmas behind `C03_literal_roundtrip` -/
namespace Morfuse.Lang.IntEnc
open Morfuse.Gen.IntEnc

theorem toBytes_length (n w : Nat) : (toBytes n w).length = w := by
  induction w generalizing n with
  | zero => rfl
  | succ w ih => simp [toBytes, ih]

theorem fromBytes_toBytes (n w : Nat) : fromBytes (toBytes n w) = n % 256 ^ w := by
  induction w generalizing n with
  | zero => simp [toBytes, fromBytes, Nat.mod_one]
  | succ w ih =>
    simp only [toBytes, fromBytes, ih]
    rw [Nat.pow_succ', Nat.mod_mul]

theorem interpret_unsigned (raw bits : Nat) (h : raw < 2 ^ bits) : interpret raw bits false = (raw : Int) := by
  simp [interpret, Nat.mod_eq_of_lt h]

/-- reading `w` bytes of `n < 256^w` unsigned and storing through an unsigned parameter of `pbits ≥ 8w` bits gives `n` back -/
theorem decode_unsigned (tbl : List (Nat × Nat × Bool × Nat × Bool)) (k w pbits n : Nat)
    (hd : findDecoder k tbl = some (w, false, pbits, false)) (hn : n < 256 ^ w) (hp : 256 ^ w ≤ 2 ^ pbits)
    (h64 : n < 2 ^ 64) :
    decodeWith tbl ⟨k, toBytes n w⟩ = some (BitVec.ofNat 64 n) := by
  have h8 : (256 : Nat) ^ w = 2 ^ (8 * w) := by
    rw [show (256 : Nat) = 2 ^ 8 by rfl, ← Nat.pow_mul]
  simp only [decodeWith, hd, toBytes_length, ne_eq, not_true_eq_false, ↓reduceIte, fromBytes_toBytes]
  have h1 : n % 256 ^ w = n := Nat.mod_eq_of_lt hn
  rw [h1, interpret_unsigned n (8 * w) (by rw [← h8]; exact hn)]
  have h2 : ((n : Int) % ((2 ^ pbits : Nat) : Int)).toNat = n := by
    have : n < 2 ^ pbits := Nat.lt_of_lt_of_le hn hp
    rw [Int.ofNat_mod_ofNat, Int.toNat_natCast, Nat.mod_eq_of_lt this]
  rw [h2, interpret_unsigned n pbits (Nat.lt_of_lt_of_le hn hp)]
  simp [BitVec.ofInt_natCast]

/-- what the emitter does with a literal, spelled out: the chosen opcode's decoder reads exactly the
    bytes written, unsigned, into a parameter wide enough for them -/
theorem encode_spec (v : BitVec 64) :
    ∃ k w p, encodeInt v = ⟨k, toBytes v.toNat w⟩ ∧ v.toNat < 256 ^ w ∧ 256 ^ w ≤ 2 ^ p ∧
      findDecoder k vmDecoders = some (w, false, p, false) ∧
      findDecoder k foldDecoders = some (w, false, p, false) := by
  have hv : v.toNat < 2 ^ 64 := v.isLt
  by_cases h0 : v.toNat = 0
  · exact ⟨0, 0, 32, by simp [encodeInt, emitZeroFirst, h0, toBytes], by simp [h0], by decide, by decide, by decide⟩
  · by_cases h1 : v.toNat < 256
    · exact ⟨1, 1, 32, by simp [encodeInt, emitZeroFirst, h0, emitBranches, firstBranch, h1], by simpa using h1,
        by decide, by decide, by decide⟩
    · by_cases h2 : v.toNat < 65536
      · exact ⟨2, 2, 32, by simp [encodeInt, emitZeroFirst, h0, emitBranches, firstBranch, h1, h2], by simpa using h2,
          by decide, by decide, by decide⟩
      · by_cases h3 : v.toNat < 16777216
        · exact ⟨3, 3, 32, by simp [encodeInt, emitZeroFirst, h0, emitBranches, firstBranch, h1, h2, h3],
            by simpa using h3, by decide, by decide, by decide⟩
        · by_cases h4 : v.toNat < 4294967296
          · exact ⟨4, 4, 32, by simp [encodeInt, emitZeroFirst, h0, emitBranches, firstBranch, h1, h2, h3, h4],
              by simpa using h4, by decide, by decide, by decide⟩
          · exact ⟨8, 8, 64, by simp [encodeInt, emitZeroFirst, h0, emitBranches, firstBranch, h1, h2, h3, h4, emitElse],
              by simpa using hv, by decide, by decide, by decide⟩

end Morfuse.Lang.IntEnc
