import MorfuseModel.Lang.Desugar
/-!
# C03 — statements without a `continue` of their own never finish with `continue`

`freeCont` is the syntactic test the layout generator uses before it spells `for (init; c; inc) body`
as `init; while (c) { body; inc }`.
-/
namespace Morfuse.Lang

mutual
/-- does the statement contain a `continue` that would bind to an enclosing loop? -/
def freeCont : Stmt → Bool
  | .cont => true
  | .block ss => freeContL ss
  | .ite _ t e => freeContL t || freeContL e
  | .switch _ b => freeContL b
  | .try_ b h => freeContL b || freeContL h
  | .while_ _ _ inc => freeContL inc
  | .for_ init _ inc _ => freeContL init || freeContL inc
  | _ => false
def freeContL : List Stmt → Bool
  | [] => false
  | s :: r => freeCont s || freeContL r
end

def isCont : Res (Flow × Frame × St) → Bool
  | .ok (.cont, _, _) => true
  | _ => false

theorem freeContL_of_dropToCase {l : String} : ∀ {ss rest : List Stmt}, dropToCase l ss = some rest → freeContL ss = false →
    freeContL rest = false := by
  intro ss
  induction ss with
  | nil => intro rest h; simp [dropToCase] at h
  | cons s t ih =>
    intro rest h hf
    simp only [freeContL, Bool.or_eq_false_iff] at hf
    cases s <;> simp only [dropToCase] at h <;> try exact ih h hf.2
    split at h
    · cases h; exact hf.2
    · exact ih h hf.2

theorem freeContL_of_dropToLabel {l : String} : ∀ {ss rest : List Stmt}, dropToLabel l ss = some rest → freeContL ss = false →
    freeContL rest = false := by
  intro ss
  induction ss with
  | nil => intro rest h; simp [dropToLabel] at h
  | cons s t ih =>
    intro rest h hf
    have hf' := hf
    simp only [freeContL, Bool.or_eq_false_iff] at hf
    cases s <;> simp only [dropToLabel] at h <;> try exact ih h hf.2
    split at h
    · cases h; exact hf'
    · exact ih h hf.2

/-- the four statement-level functions never answer `continue` on `continue`-free input -/
structure NoContAt (prog : Program) (n : Nat) : Prop where
  exec : ∀ s fr st, freeCont s = false → isCont (exec prog n s fr st) = false
  execList : ∀ ss fr st, freeContL ss = false → isCont (execList prog n ss fr st) = false
  execWhile : ∀ c b i fr st, freeContL i = false → isCont (execWhile prog n c b i fr st) = false
  execDo : ∀ b c fr st, isCont (execDo prog n b c fr st) = false

theorem noCont_zero (prog : Program) : NoContAt prog 0 :=
  ⟨by intros; simp [Lang.exec, isCont], by intros; simp [Lang.execList, isCont],
   by intros; simp [Lang.execWhile, isCont], by intros; simp [Lang.execDo, isCont]⟩

theorem noCont_succ (prog : Program) (n : Nat) (ih : NoContAt prog n) : NoContAt prog (n+1) := by
  have ih1 := ih.exec
  have ih2 := ih.execList
  have ih3 := ih.execWhile
  have ih4 := ih.execDo
  refine ⟨?_, ?_, ?_, ?_⟩
  · intro s fr st hf
    cases s with
    | cont => simp [freeCont] at hf
    | block ss => simp only [Lang.exec]; exact ih2 ss fr st (by simpa [freeCont] using hf)
    | ite c t e =>
      simp only [freeCont, Bool.or_eq_false_iff] at hf
      simp only [Lang.exec]
      split
      · split
        · exact ih2 _ _ _ hf.1
        · exact ih2 _ _ _ hf.2
      · rfl
      · rfl
    | while_ c b i => simp only [Lang.exec]; exact ih3 c b i fr st (by simpa [freeCont] using hf)
    | for_ init c inc body =>
      simp only [freeCont, Bool.or_eq_false_iff] at hf
      simp only [Lang.exec]
      have h1 := ih2 init fr st hf.1
      split
      · exact ih3 _ _ _ _ _ hf.2
      · exact h1
    | dowhile b c => simp only [Lang.exec]; exact ih4 b c fr st
    | switch e body =>
      simp only [freeCont] at hf
      simp only [Lang.exec]
      split
      · split
        · split
          · rename_i rest hrest
            have hr : freeContL rest = false := by
              cases h1 : dropToCase _ body with
              | some r1 => rw [h1] at hrest; simp at hrest; subst hrest; exact freeContL_of_dropToCase h1 hf
              | none =>
                rw [h1] at hrest
                simp at hrest
                exact freeContL_of_dropToCase hrest hf
            have h2 := fun st' => ih2 rest fr st' hr
            split
            · rfl
            · exact h2 _
          · rfl
        · rfl
      · rfl
      · rfl
    | try_ body handler =>
      simp only [freeCont, Bool.or_eq_false_iff] at hf
      simp only [Lang.exec]
      have h1 := ih2 body fr st hf.1
      split
      · split
        · rename_i rest hrest
          exact ih2 rest _ _ (freeContL_of_dropToLabel hrest hf.2)
        · rfl
      · exact h1
    | end_ e => cases e <;> simp only [Lang.exec] <;> (try rfl) <;> (split <;> rfl)
    | assign lv e => simp only [Lang.exec]; (repeat' split) <;> rfl
    | opassign op lv e => simp only [Lang.exec]; (repeat' split) <;> rfl
    | incr lv => simp only [Lang.exec]; (repeat' split) <;> rfl
    | decr lv => simp only [Lang.exec]; (repeat' split) <;> rfl
    | brk => simp [Lang.exec, isCont]
    | case_ l => simp [Lang.exec, isCont]
    | label nm ps => simp [Lang.exec, isCont]
    | throw nm args => simp only [Lang.exec]; (repeat' split) <;> rfl
    | goto nm => simp [Lang.exec, isCont]
    | print nl args => simp only [Lang.exec]; (repeat' split) <;> rfl
    | call k l args => simp only [Lang.exec]; (repeat' split) <;> rfl
  · intro ss fr st hf
    cases ss with
    | nil => simp [Lang.execList, isCont]
    | cons s rest =>
      simp only [freeContL, Bool.or_eq_false_iff] at hf
      rw [execList_cons]
      have h1 := ih1 s fr st hf.1
      split
      · exact ih2 _ _ _ hf.2
      · exact h1
  · intro c b i fr st hf
    simp only [Lang.execWhile]
    cases hc : evalExpr prog n c fr st with
    | timeout => rfl
    | err e => rfl
    | ok p =>
      obtain ⟨vc, st1⟩ := p
      simp only
      split
      · cases hb : execList prog n b fr st1 with
        | timeout => rfl
        | err e => rfl
        | ok q =>
          obtain ⟨fl, fr2, st2⟩ := q
          have hinc := ih2 i fr2 st2 hf
          cases fl <;> simp only <;> first
            | rfl
            | (split
               · exact ih3 _ _ _ _ _ hf
               · rfl
               · exact hinc)
      · rfl
  · intro b c fr st
    simp only [Lang.execDo]
    cases hb : execList prog n b fr st with
    | timeout => rfl
    | err e => rfl
    | ok q =>
      obtain ⟨fl, fr2, st2⟩ := q
      cases fl <;> simp only <;> first
        | rfl
        | (split
           · split
             · exact ih4 _ _ _ _
             · rfl
           · rfl
           · rfl)

theorem noCont (prog : Program) : ∀ n, NoContAt prog n
  | 0 => noCont_zero prog
  | n + 1 => noCont_succ prog n (noCont prog n)

/-- a `continue`-free statement list never finishes with `continue` -/
theorem execList_noCont (prog : Program) (ss : List Stmt) (h : freeContL ss = false) (n : Nat) (fr : Frame) (st : St)
    (fr' : Frame) (st' : St) : execList prog n ss fr st ≠ .ok (.cont, fr', st') := by
  intro hc
  have := (noCont prog n).execList ss fr st h
  rw [hc] at this
  simp [isCont] at this

end Morfuse.Lang
