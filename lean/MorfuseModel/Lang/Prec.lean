/-!
# C03 — token-level grammar of expressions: precedence-climbing parser and minimal-bracket printer

The expression part of `src/Parser/yyParser.yy` as far as nesting is concerned: eighteen binary
operators, all `%left`, on precedence levels given by a function `lv` (the real table is regenerated
into `Gen/Precedence.lean`, see `Lang.PrecTable`), three prefix operators that apply to primaries
only (`nonident_prim_expr: TOKEN_NEG nonident_prim_expr | …`), brackets, and opaque atoms (literals,
variables, `a[i]`, `.size`: they nest through brackets of their own and are closed units for the
operator grammar).

`parse` is what an LALR parser with those `%left` declarations does (shift on higher precedence,
reduce on equal or lower); `print` inserts brackets only where the tree needs them.
`C03_precedence_roundtrip`: `parse (print e) = e` for every tree, for every level assignment.
-/
namespace Morfuse.Lang.Prec

/-- binary operators (`Func2Expr` opcodes plus `&&`, `||`) -/
inductive Op where
  | lor | land | bor | bxor | band | eq | ne | lt | gt | le | ge | shl | shr | add | sub | mul | div | mod
  deriving Repr, DecidableEq, Inhabited

inductive UnOp where
  | neg | compl | not
  deriving Repr, DecidableEq, Inhabited

inductive PT where
  | atom (n : Nat)
  | un (u : UnOp) (a : PT)
  | bin (op : Op) (a b : PT)
  deriving Repr, DecidableEq, Inhabited

inductive Tok where
  | atom (n : Nat)
  | lp
  | rp
  | op (o : Op)
  | un (u : UnOp)
  deriving Repr, DecidableEq, Inhabited

section
variable (lv : Op → Nat)

/-! ## printer -/

mutual
/-- `e` where an operand of level `need` or tighter is expected -/
def pr (need : Nat) : PT → List Tok
  | .atom n => [.atom n]
  | .un u a => .un u :: prPrim a
  | .bin op a b =>
      if lv op < need then .lp :: (pr (lv op) a ++ .op op :: pr (lv op + 1) b) ++ [.rp]
      else pr (lv op) a ++ .op op :: pr (lv op + 1) b
/-- `e` as a primary (operand of a prefix operator) -/
def prPrim : PT → List Tok
  | .atom n => [.atom n]
  | .un u a => .un u :: prPrim a
  | .bin op a b => .lp :: (pr (lv op) a ++ .op op :: pr (lv op + 1) b) ++ [.rp]
end

def print (e : PT) : List Tok := pr lv 0 e

/-! ## parser (fuel-indexed; `parse` supplies enough fuel) -/

mutual
def parsePrim : Nat → List Tok → Option (PT × List Tok)
  | 0, _ => none
  | n + 1, toks =>
    match toks with
    | .atom k :: r => some (.atom k, r)
    | .un u :: r =>
        match parsePrim n r with
        | some (a, r') => some (.un u a, r')
        | none => none
    | .lp :: r =>
        match parseExpr n 0 r with
        | some (e, .rp :: r') => some (e, r')
        | _ => none
    | _ => none
/-- an expression whose top-level operators all have level ≥ `min` -/
def parseExpr : Nat → Nat → List Tok → Option (PT × List Tok)
  | 0, _, _ => none
  | n + 1, min, toks =>
    match parsePrim n toks with
    | some (p, r) => parseLoop n min p r
    | none => none
/-- having read `lhs`: while the next token is an operator of level ≥ `min`, read its right operand
    one level tighter (left associativity) and fold -/
def parseLoop : Nat → Nat → PT → List Tok → Option (PT × List Tok)
  | 0, _, _, _ => none
  | n + 1, min, lhs, toks =>
    match toks with
    | .op o :: r =>
        if lv o ≥ min then
          match parseExpr n (lv o + 1) r with
          | some (rhs, r') => parseLoop n min (.bin o lhs rhs) r'
          | none => none
        else some (lhs, toks)
    | _ => some (lhs, toks)
end

/-- the whole token list must be one expression -/
def parse (toks : List Tok) : Option PT :=
  match parseExpr lv (3 * toks.length + 3) 0 toks with
  | some (e, []) => some e
  | _ => none

end

end Morfuse.Lang.Prec
