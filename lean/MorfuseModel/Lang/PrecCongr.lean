import MorfuseModel.Lang.PrecLemmas
import MorfuseModel.Lang.PrecTable
/-! printing depends on the level function only through the order it induces on the operators -/
namespace Morfuse.Lang.Prec

/-- where an operand sits: whole expression, left or right operand of `o` -/
inductive Ctx where
  | top | left (o : Op) | right (o : Op)

def needOf (lv : Op → Nat) : Ctx → Nat
  | .top => 0
  | .left o => lv o
  | .right o => lv o + 1

theorem lt_needOf_congr (l1 l2 : Op → Nat) (h : ∀ a b, l1 a < l1 b ↔ l2 a < l2 b) (op : Op) (c : Ctx) :
    l1 op < needOf l1 c ↔ l2 op < needOf l2 c := by
  cases c with
  | top => simp [needOf]
  | left o => exact h op o
  | right o =>
    simp only [needOf]
    have := h o op
    omega

theorem pr_congr (l1 l2 : Op → Nat) (h : ∀ a b, l1 a < l1 b ↔ l2 a < l2 b) (e : PT) :
    (∀ c, pr l1 (needOf l1 c) e = pr l2 (needOf l2 c) e) ∧ prPrim l1 e = prPrim l2 e := by
  induction e with
  | atom n => simp [pr, prPrim]
  | un u a ih => simp [pr, prPrim, ih.2]
  | bin op a b iha ihb =>
    have ha := iha.1 (.left op)
    have hb := ihb.1 (.right op)
    simp only [needOf] at ha hb
    constructor
    · intro c
      have hc := lt_needOf_congr l1 l2 h op c
      simp only [pr, ha, hb]
      by_cases h1 : l1 op < needOf l1 c
      · have h2 := hc.mp h1
        simp [h1, h2]
      · have h2 : ¬ l2 op < needOf l2 c := fun x => h1 (hc.mpr x)
        simp [h1, h2]
    · simp only [prPrim, ha, hb]

theorem print_congr (l1 l2 : Op → Nat) (h : ∀ a b, l1 a < l1 b ↔ l2 a < l2 b) (e : PT) :
    print l1 e = print l2 e := (pr_congr l1 l2 h e).1 .top

end Morfuse.Lang.Prec

namespace Morfuse.Lang.PrecTable
open Morfuse.Lang.Prec

/-- the generated table and the reference order the operators identically (from the `decide`d obligation) -/
theorem gen_iso_ref (a b : Op) : refLv a < refLv b ↔ genLv a < genLv b := by
  have h := gen_order_eq_ref
  rw [List.all_eq_true] at h
  have h1 := h a (allOps_complete a)
  rw [List.all_eq_true] at h1
  have h2 := h1 b (allOps_complete b)
  simp only [beq_iff_eq, decide_eq_decide] at h2
  exact h2.symm

end Morfuse.Lang.PrecTable
