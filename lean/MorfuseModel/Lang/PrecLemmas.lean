import MorfuseModel.Lang.Prec

namespace Morfuse.Lang.Prec

section
variable (lv : Op → Nat)

/-! ## unfolding lemmas -/

theorem parsePrim_succ (n : Nat) (toks : List Tok) :
    parsePrim lv (n + 1) toks =
      match toks with
      | .atom k :: r => some (.atom k, r)
      | .un u :: r =>
          match parsePrim lv n r with
          | some (a, r') => some (.un u a, r')
          | none => none
      | .lp :: r =>
          match parseExpr lv n 0 r with
          | some (e, .rp :: r') => some (e, r')
          | _ => none
      | _ => none := by
  rw [parsePrim.eq_def]; rfl

theorem parseLoop_succ (n min : Nat) (lhs : PT) (toks : List Tok) :
    parseLoop lv (n + 1) min lhs toks =
      match toks with
      | .op o :: r =>
          if lv o ≥ min then
            match parseExpr lv n (lv o + 1) r with
            | some (rhs, r') => parseLoop lv n min (.bin o lhs rhs) r'
            | none => none
          else some (lhs, toks)
      | _ => some (lhs, toks) := by
  rw [parseLoop.eq_def]; rfl

/-! ## fuel monotonicity -/

theorem fuel_succ (n : Nat) :
    (∀ toks res, parsePrim lv n toks = some res → parsePrim lv (n + 1) toks = some res) ∧
    (∀ min toks res, parseExpr lv n min toks = some res → parseExpr lv (n + 1) min toks = some res) ∧
    (∀ min lhs toks res, parseLoop lv n min lhs toks = some res →
        parseLoop lv (n + 1) min lhs toks = some res) := by
  induction n with
  | zero => simp [parsePrim, parseExpr, parseLoop]
  | succ n ih =>
    obtain ⟨ihP, ihE, ihL⟩ := ih
    refine ⟨?_, ?_, ?_⟩
    · intro toks res h
      rw [parsePrim_succ] at h ⊢
      split at h
      · exact h
      · split at h
        · rename_i hp
          simp only [ihP _ _ hp]; exact h
        · cases h
      · split at h
        · rename_i hp
          simp only [ihE _ _ _ hp]; exact h
        · cases h
      · cases h
    · intro min toks res h
      rw [parseExpr] at h ⊢
      split at h
      · rename_i hp
        simp only [ihP _ _ hp]; exact ihL _ _ _ _ h
      · cases h
    · intro min lhs toks res h
      rw [parseLoop_succ] at h ⊢
      split at h
      · rename_i o r
        by_cases hge : lv o ≥ min
        · simp only [hge, if_true] at h ⊢
          split at h
          · rename_i hp
            simp only [ihE _ _ _ hp]; exact ihL _ _ _ _ h
          · cases h
        · simp only [hge, if_false] at h ⊢; exact h
      · exact h

theorem parsePrim_mono {n m : Nat} (h : n ≤ m) {toks res} :
    parsePrim lv n toks = some res → parsePrim lv m toks = some res := by
  induction h with
  | refl => exact id
  | step _ ih => exact fun hh => (fuel_succ lv _).1 _ _ (ih hh)

theorem parseExpr_mono {n m : Nat} (h : n ≤ m) {min toks res} :
    parseExpr lv n min toks = some res → parseExpr lv m min toks = some res := by
  induction h with
  | refl => exact id
  | step _ ih => exact fun hh => (fuel_succ lv _).2.1 _ _ _ (ih hh)

theorem parseLoop_mono {n m : Nat} (h : n ≤ m) {min lhs toks res} :
    parseLoop lv n min lhs toks = some res → parseLoop lv m min lhs toks = some res := by
  induction h with
  | refl => exact id
  | step _ ih => exact fun hh => (fuel_succ lv _).2.2 _ _ _ _ (ih hh)

/-! ## fuel-free big-step relations and their rules -/

def PP (toks : List Tok) (res : PT × List Tok) : Prop := ∃ n, parsePrim lv n toks = some res
def PE (min : Nat) (toks : List Tok) (res : PT × List Tok) : Prop :=
  ∃ n, parseExpr lv n min toks = some res
def PL (min : Nat) (lhs : PT) (toks : List Tok) (res : PT × List Tok) : Prop :=
  ∃ n, parseLoop lv n min lhs toks = some res

/-- the loop stops in front of `rest` -/
def Stop (need : Nat) (rest : List Tok) : Prop := ∀ o r, rest = .op o :: r → lv o < need

theorem Stop.mono {a b : Nat} {rest : List Tok} (h : Stop lv a rest) (hab : a ≤ b) :
    Stop lv b rest := fun o r e => Nat.lt_of_lt_of_le (h o r e) hab

theorem Stop.rp (need : Nat) (rest : List Tok) : Stop lv need (.rp :: rest) := by
  intro o r e; cases e

theorem Stop.nil (need : Nat) : Stop lv need [] := by
  intro o r e; cases e

theorem Stop.op {need : Nat} {o : Op} (r : List Tok) (h : lv o < need) :
    Stop lv need (.op o :: r) := by
  intro o' r' e; cases e; exact h

theorem PP.atom (k : Nat) (r : List Tok) : PP lv (.atom k :: r) (.atom k, r) :=
  ⟨1, by rw [parsePrim_succ]⟩

theorem PP.un (u : UnOp) {r a r'} (h : PP lv r (a, r')) : PP lv (.un u :: r) (.un u a, r') := by
  obtain ⟨n, hn⟩ := h
  exact ⟨n + 1, by rw [parsePrim_succ]; simp only [hn]⟩

theorem PP.paren {r e r'} (h : PE lv 0 r (e, .rp :: r')) : PP lv (.lp :: r) (e, r') := by
  obtain ⟨n, hn⟩ := h
  exact ⟨n + 1, by rw [parsePrim_succ]; simp only [hn]⟩

theorem PE.mk {min toks p r res} (hp : PP lv toks (p, r)) (hl : PL lv min p r res) :
    PE lv min toks res := by
  obtain ⟨n, hn⟩ := hp
  obtain ⟨m, hm⟩ := hl
  refine ⟨max n m + 1, ?_⟩
  rw [parseExpr]
  simp only [parsePrim_mono lv (Nat.le_max_left n m) hn]
  exact parseLoop_mono lv (Nat.le_max_right n m) hm

theorem PL.stop {min lhs toks} (h : Stop lv min toks) : PL lv min lhs toks (lhs, toks) := by
  refine ⟨1, ?_⟩
  rw [parseLoop_succ]
  split
  · rename_i o r
    have := h o r rfl
    have : ¬ lv o ≥ min := by omega
    simp only [this, if_false]
  · rfl

theorem PL.step {min lhs o r rhs r' res} (hge : min ≤ lv o) (he : PE lv (lv o + 1) r (rhs, r'))
    (hl : PL lv min (.bin o lhs rhs) r' res) : PL lv min lhs (.op o :: r) res := by
  obtain ⟨n, hn⟩ := he
  obtain ⟨m, hm⟩ := hl
  refine ⟨max n m + 1, ?_⟩
  rw [parseLoop_succ]
  have hge' : lv o ≥ min := hge
  simp only [hge', if_true, parseExpr_mono lv (Nat.le_max_left n m) hn]
  exact parseLoop_mono lv (Nat.le_max_right n m) hm

/-! ## the invariant -/

/-- `parsePrim` reads exactly the tokens of `prPrim e` -/
def PrimOK (e : PT) : Prop := ∀ rest, PP lv (prPrim lv e ++ rest) (e, rest)

/-- after the tokens of `pr m e` (`need ≤ m`) the loop at level `need` is in the state `lhs = e` -/
def InvOK (e : PT) : Prop :=
  ∀ need m rest res, need ≤ m →
    (∀ op a b, e = .bin op a b → m ≤ lv op → Stop lv (lv op + 1) rest) →
    PL lv need e rest res →
    ∃ p r, PP lv (pr lv m e ++ rest) (p, r) ∧ PL lv need p r res

theorem full_of_inv {e : PT} (h : InvOK lv e) (need : Nat) (rest : List Tok)
    (hs : Stop lv need rest) : PE lv need (pr lv need e ++ rest) (e, rest) := by
  obtain ⟨p, r, hp, hl⟩ := h need need rest (e, rest) (Nat.le_refl _)
    (fun op a b _ hle => hs.mono lv (by omega)) (PL.stop lv hs)
  exact PE.mk lv hp hl

theorem core_bin {op : Op} {a b : PT} (ha : InvOK lv a) (hb : InvOK lv b)
    (need : Nat) (rest : List Tok) (res : PT × List Tok) (hneed : need ≤ lv op)
    (hs : Stop lv (lv op + 1) rest) (hl : PL lv need (.bin op a b) rest res) :
    ∃ p r, PP lv (pr lv (lv op) a ++ .op op :: pr lv (lv op + 1) b ++ rest) (p, r) ∧
      PL lv need p r res := by
  have hB : PE lv (lv op + 1) (pr lv (lv op + 1) b ++ rest) (b, rest) :=
    full_of_inv lv hb _ _ hs
  have hA : PL lv need a (.op op :: (pr lv (lv op + 1) b ++ rest)) res := PL.step lv hneed hB hl
  obtain ⟨p, r, hp, hl'⟩ := ha need (lv op) _ res hneed
    (fun op' a' b' _ hle => Stop.op lv _ (by omega)) hA
  refine ⟨p, r, ?_, hl'⟩
  simpa [List.append_assoc] using hp

theorem prim_inv (e : PT) : PrimOK lv e ∧ InvOK lv e := by
  induction e with
  | atom k =>
    refine ⟨fun rest => ?_, fun need m rest res _ _ hl => ⟨.atom k, rest, ?_, hl⟩⟩
    · simpa [prPrim] using PP.atom lv k rest
    · simpa [pr] using PP.atom lv k rest
  | un u a iha =>
    have hP : PrimOK lv (.un u a) := by
      intro rest
      simpa [prPrim] using PP.un lv u (iha.1 rest)
    refine ⟨hP, fun need m rest res _ _ hl => ⟨.un u a, rest, ?_, hl⟩⟩
    have := hP rest
    simpa [pr, prPrim] using this
  | bin op a b iha ihb =>
    have hP : PrimOK lv (.bin op a b) := by
      intro rest
      obtain ⟨p, r, hp, hl⟩ := core_bin lv iha.2 ihb.2 0 (.rp :: rest) (.bin op a b, .rp :: rest)
        (Nat.zero_le _) (Stop.rp lv _ _) (PL.stop lv (Stop.rp lv _ _))
      have := PP.paren lv (PE.mk lv hp hl)
      simpa [prPrim, List.append_assoc] using this
    refine ⟨hP, fun need m rest res hnm hside hl => ?_⟩
    by_cases hlt : lv op < m
    · refine ⟨.bin op a b, rest, ?_, hl⟩
      have := hP rest
      simpa [pr, prPrim, hlt] using this
    · have hle : m ≤ lv op := by omega
      obtain ⟨p, r, hp, hl'⟩ := core_bin lv iha.2 ihb.2 need rest res (by omega)
        (hside op a b rfl hle) hl
      refine ⟨p, r, ?_, hl'⟩
      simpa [pr, hlt, List.append_assoc] using hp

theorem parseExpr_print (e : PT) : PE lv 0 (print lv e) (e, []) := by
  have := full_of_inv lv (prim_inv lv e).2 0 [] (Stop.nil lv 0)
  simpa [print] using this

/-! ## a successful run needs fuel at most three times the number of tokens it consumes -/

theorem fuel_bound (n : Nat) :
    (∀ toks e rest, parsePrim lv n toks = some (e, rest) →
      rest.length < toks.length ∧
      ∀ m, 3 * (toks.length - rest.length) ≤ m → parsePrim lv m toks = some (e, rest)) ∧
    (∀ min toks e rest, parseExpr lv n min toks = some (e, rest) →
      rest.length < toks.length ∧
      ∀ m, 3 * (toks.length - rest.length) + 1 ≤ m → parseExpr lv m min toks = some (e, rest)) ∧
    (∀ min lhs toks e rest, parseLoop lv n min lhs toks = some (e, rest) →
      rest.length ≤ toks.length ∧
      ∀ m, 3 * (toks.length - rest.length) + 1 ≤ m →
        parseLoop lv m min lhs toks = some (e, rest)) := by
  induction n with
  | zero => simp [parsePrim, parseExpr, parseLoop]
  | succ n ih =>
    obtain ⟨ihP, ihE, ihL⟩ := ih
    refine ⟨?_, ?_, ?_⟩
    · intro toks e rest h
      rw [parsePrim_succ] at h
      split at h
      · simp only [Option.some.injEq, Prod.mk.injEq] at h
        obtain ⟨rfl, rfl⟩ := h
        refine ⟨by simp, fun m hm => ?_⟩
        obtain ⟨m', rfl⟩ : ∃ m', m = m' + 1 := ⟨m - 1, by simp at hm; omega⟩
        rw [parsePrim_succ]
      · split at h
        · rename_i hp
          simp only [Option.some.injEq, Prod.mk.injEq] at h
          obtain ⟨rfl, rfl⟩ := h
          obtain ⟨hlen, hm0⟩ := ihP _ _ _ hp
          refine ⟨by simp; omega, fun m hm => ?_⟩
          obtain ⟨m', rfl⟩ : ∃ m', m = m' + 1 := ⟨m - 1, by simp at hm; omega⟩
          rw [parsePrim_succ]
          simp only [hm0 m' (by simp at hm; omega)]
        · cases h
      · split at h
        · rename_i hp
          simp only [Option.some.injEq, Prod.mk.injEq] at h
          obtain ⟨rfl, rfl⟩ := h
          obtain ⟨hlen, hm0⟩ := ihE _ _ _ _ hp
          simp only [List.length_cons] at hlen hm0
          refine ⟨by simp; omega, fun m hm => ?_⟩
          obtain ⟨m', rfl⟩ : ∃ m', m = m' + 1 := ⟨m - 1, by simp at hm; omega⟩
          rw [parsePrim_succ]
          simp only [hm0 m' (by simp at hm; omega)]
        · cases h
      · cases h
    · intro min toks e rest h
      rw [parseExpr] at h
      split at h
      · rename_i p r hp
        obtain ⟨hlen1, hm1⟩ := ihP _ _ _ hp
        obtain ⟨hlen2, hm2⟩ := ihL _ _ _ _ _ h
        refine ⟨by omega, fun m hm => ?_⟩
        obtain ⟨m', rfl⟩ : ∃ m', m = m' + 1 := ⟨m - 1, by omega⟩
        rw [parseExpr]
        simp only [hm1 m' (by omega)]
        exact hm2 m' (by omega)
      · cases h
    · intro min lhs toks e rest h
      rw [parseLoop_succ] at h
      split at h
      · rename_i o r
        by_cases hge : lv o ≥ min
        · simp only [hge, if_true] at h
          split at h
          · rename_i rhs r' hp
            obtain ⟨hlen1, hm1⟩ := ihE _ _ _ _ hp
            obtain ⟨hlen2, hm2⟩ := ihL _ _ _ _ _ h
            refine ⟨by simp; omega, fun m hm => ?_⟩
            obtain ⟨m', rfl⟩ : ∃ m', m = m' + 1 := ⟨m - 1, by omega⟩
            rw [parseLoop_succ]
            simp only [List.length_cons] at hm
            simp only [hge, if_true, hm1 m' (by omega)]
            exact hm2 m' (by omega)
          · cases h
        · simp only [hge, if_false, Option.some.injEq, Prod.mk.injEq] at h
          obtain ⟨rfl, rfl⟩ := h
          refine ⟨Nat.le_refl _, fun m hm => ?_⟩
          obtain ⟨m', rfl⟩ : ∃ m', m = m' + 1 := ⟨m - 1, by omega⟩
          rw [parseLoop_succ]
          simp only [hge, if_false]
      · rename_i hno
        simp only [Option.some.injEq, Prod.mk.injEq] at h
        obtain ⟨rfl, rfl⟩ := h
        refine ⟨Nat.le_refl _, fun m hm => ?_⟩
        obtain ⟨m', rfl⟩ : ∃ m', m = m' + 1 := ⟨m - 1, by omega⟩
        rw [parseLoop_succ]
        split
        · rename_i o r
          exact absurd rfl (hno o r)
        · rfl

/-! ## the round trip -/

theorem parse_print (lv : Op → Nat) (e : PT) : parse lv (print lv e) = some e := by
  obtain ⟨n, hn⟩ := parseExpr_print lv e
  have h := ((fuel_bound lv n).2.1 0 _ _ _ hn).2 (3 * (print lv e).length + 3)
    (by simp only [List.length_nil]; omega)
  unfold parse
  simp only [h]

end

end Morfuse.Lang.Prec
