import MorfuseModel.Gen.Precedence
import MorfuseModel.Lang.Prec
/-!
# C03 — the precedence table of the real grammar against the language's reference order

`Gen/Precedence.lean` is regenerated from the `%left/%right/%nonassoc/%precedence` lines of
`src/Parser/yyParser.yy` on every run.  `refLv` is the precedence the language has (C order; what the
program generator prints with and what `Lang.Sem` means by an expression).  The obligations below
are re-checked by `lake build`: every binary operator token is declared `%left`, and the generated
levels order the operators exactly as the reference does — so the parser model instantiated with
either function accepts the same trees (`C03_precedence_roundtrip` holds for any level function).
-/
namespace Morfuse.Lang.PrecTable
open Morfuse.Lang.Prec

def tokenOf : Op → String
  | .lor => "TOKEN_LOGICAL_OR" | .land => "TOKEN_LOGICAL_AND"
  | .bor => "TOKEN_BITWISE_OR" | .bxor => "TOKEN_BITWISE_EXCL_OR" | .band => "TOKEN_BITWISE_AND"
  | .eq => "TOKEN_EQUALITY" | .ne => "TOKEN_INEQUALITY"
  | .lt => "TOKEN_LESS_THAN" | .gt => "TOKEN_GREATER_THAN"
  | .le => "TOKEN_LESS_THAN_OR_EQUAL" | .ge => "TOKEN_GREATER_THAN_OR_EQUAL"
  | .shl => "TOKEN_SHIFT_LEFT" | .shr => "TOKEN_SHIFT_RIGHT"
  | .add => "TOKEN_PLUS" | .sub => "TOKEN_MINUS"
  | .mul => "TOKEN_MULTIPLY" | .div => "TOKEN_DIVIDE" | .mod => "TOKEN_MODULUS"

def unTokenOf : UnOp → String
  | .neg => "TOKEN_NEG" | .compl => "TOKEN_COMPLEMENT" | .not => "TOKEN_NOT"

/-- the *last* declaration of a token wins in bison (a later `%right` overrides an earlier `%token`);
    tokens are declared with a precedence at most once in this grammar, so first = last -/
def lookup (tok : String) : List (Nat × String × String) → Option (Nat × String)
  | [] => none
  | (l, a, t) :: rest => if t = tok then some (l, a) else lookup tok rest

def genLv (o : Op) : Nat := ((lookup (tokenOf o) Morfuse.Gen.Precedence.table).map (·.1)).getD 0
def genAssoc (o : Op) : String := ((lookup (tokenOf o) Morfuse.Gen.Precedence.table).map (·.2)).getD "missing"
def genUnLv (u : UnOp) : Nat := ((lookup (unTokenOf u) Morfuse.Gen.Precedence.table).map (·.1)).getD 0

/-- reference precedence of the language, loosest first -/
def refLv : Op → Nat
  | .lor => 1 | .land => 2 | .bor => 3 | .bxor => 4 | .band => 5
  | .eq | .ne => 6 | .lt | .gt | .le | .ge => 7 | .shl | .shr => 8 | .add | .sub => 9
  | .mul | .div | .mod => 10

def allOps : List Op :=
  [.lor, .land, .bor, .bxor, .band, .eq, .ne, .lt, .gt, .le, .ge, .shl, .shr, .add, .sub, .mul, .div, .mod]

theorem allOps_complete (o : Op) : o ∈ allOps := by cases o <;> simp [allOps]

/-- obligation on the generated table: every binary operator is `%left` -/
theorem gen_all_left : allOps.all (fun o => genAssoc o == "left") = true := by decide

/-- obligation on the generated table: it orders the operators as the reference does -/
theorem gen_order_eq_ref :
    allOps.all (fun a => allOps.all (fun b => decide (genLv a < genLv b) == decide (refLv a < refLv b))) = true := by
  decide

/-- obligation on the generated table: the prefix operators are declared tighter than every binary operator -/
theorem gen_unary_tighter :
    allOps.all (fun a => [UnOp.neg, .compl, .not].all (fun u => decide (genLv a < genUnLv u))) = true := by decide

end Morfuse.Lang.PrecTable
