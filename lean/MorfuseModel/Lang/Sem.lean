import MorfuseModel.Lang.Value
/-!
# C03 — `Lang.Sem`: executable, fuel-indexed reference semantics of the core language

Big-step evaluator over the syntax tree.  Every function takes the fuel first and spends one unit
per recursive call, so the definitions are structurally recursive on the fuel; `Res.timeout` is the
answer when it runs out, and `C03_fuel_mono` says that more fuel never changes any other answer.

What the rules are taken from (the code decides where the design text and the code differ):

* expressions — `ScriptEmitter::EmitValue` evaluation order (left operand first, arguments left to
  right) and the `ScriptVariable` operators (`Lang.Value`);
* `&&` / `||` — `EmitAndJump` / `EmitOrJump`: the left operand is cast to 0/1, the right one is
  evaluated only when needed and cast to 0/1;
* assignment — `EmitAssignmentStatement`: right-hand side first, then the reference chain of the
  l-value (`OP_STORE_FIELD_REF`, `OP_STORE_ARRAY_REF`: a NIL cell on the way becomes an array and
  gets the entry), then `setArrayAtRef` (assigning NIL erases the entry);
* `if / while / for / do / break / continue` — `EmitIfJump`, `EmitWhileJump` (`continue` lands before
  the increment), `EmitDoWhileJump` (`continue` lands before the condition);
* `switch` — `ScriptVM::Switch`: the value's string form is looked up among the case labels of the
  body, else `default`, else the statement is skipped; execution falls through following labels;
* `try / catch / throw` — `ScriptVM::EventThrow` + `ProgramScript::GetCatchStateScript`: the
  innermost enclosing `try` whose catch block defines the label, searched outwards; the thrower's
  arguments bind to the label's parameters;
* labels — `EmitLabelParameterList`: running over a label binds its parameters to the next unread
  arguments of the thread (NIL when exhausted); `goto` (`ScriptVM::EventGoto`) replaces the
  argument list by the label name itself;
* threads — `thread l args` (`ScriptClass::CreateThreadInternal`) runs `l` in the caller's group,
  `waitthread l args` (`Listener::CreateThreadInternal`) in a fresh group; both bind `args`; the
  value is what the callee's `end v` delivers, NIL otherwise.  Calls are synchronous here: the
  typed generator never lets a callee started by `thread` suspend (see notes/C03-design.md).
-/
namespace Morfuse.Lang

/-- engine-wide state a script can observe -/
structure St where
  level : Vars := []
  game : Vars := []
  parm : Vars := []
  /-- variables of every `ScriptClass` (group) created so far -/
  groups : List Vars := []
  heap : Heap := []
  /-- bytes written to the Output stream -/
  out : String := ""
  deriving Repr, Inhabited, DecidableEq

/-- per-thread state: `local` variables, the group, and the argument list (`fastEvent`, `fastIndex`) -/
structure Frame where
  locals : Vars := []
  group : Nat := 0
  args : List Val := []
  fastIndex : Nat := 0
  deriving Repr, Inhabited, DecidableEq

inductive Flow where
  | normal
  | brk
  | cont
  | goto (l : String)
  | throw (l : String) (args : List Val)
  | ended (v : Option Val)
  deriving Repr, DecidableEq, Inhabited

inductive Res (α : Type) where
  | ok (a : α)
  | err (e : Err)
  | timeout
  deriving Repr, Inhabited, DecidableEq

instance : Monad Res where
  pure := .ok
  bind r f := match r with
    | .ok a => f a
    | .err e => .err e
    | .timeout => .timeout

def liftE {α} : Except Err α → Res α
  | .ok a => .ok a
  | .error e => .err e

/-! ## variables and cells -/

def readVar (fr : Frame) (st : St) (sc : Scope) (name : String) : Val :=
  (alookup name (match sc with
    | .loc => fr.locals
    | .grp => st.groups.getD fr.group []
    | .lvl => st.level
    | .game => st.game
    | .parm => st.parm)).getD .nil

def writeVar (fr : Frame) (st : St) (sc : Scope) (name : String) (v : Val) : Frame × St :=
  match sc with
  | .loc => ({ fr with locals := aset name v fr.locals }, st)
  | .grp => (fr, { st with groups := st.groups.set fr.group (aset name v (st.groups.getD fr.group [])) })
  | .lvl => (fr, { st with level := aset name v st.level })
  | .game => (fr, { st with game := aset name v st.game })
  | .parm => (fr, { st with parm := aset name v st.parm })

/-- a storage cell an l-value denotes (`Ref` values of the VM) -/
inductive Cell where
  | var (sc : Scope) (name : String)
  | elem (h : Nat) (k : Key)
  deriving Repr, DecidableEq, Inhabited

def readCell (fr : Frame) (st : St) : Cell → Val
  | .var sc n => readVar fr st sc n
  | .elem h k => (alookup k (st.heap.getD h [])).getD .nil

def writeCell (fr : Frame) (st : St) (c : Cell) (v : Val) : Frame × St :=
  match c with
  | .var sc n => writeVar fr st sc n v
  | .elem h k => (fr, { st with heap := st.heap.set h (aset k v (st.heap.getD h [])) })

/-- `OP_STORE_ARRAY_REF` (`ScriptVariable::operator[]`, non-const): a NIL cell becomes a new array;
    the entry is created (NIL) when missing -/
def refIndex (fr : Frame) (st : St) (c : Cell) (k : Key) : Except Err (Cell × Frame × St) :=
  match readCell fr st c with
  | .nil =>
      let h := st.heap.length
      let st1 := { st with heap := st.heap ++ [[(k, Val.nil)]] }
      let (fr2, st2) := writeCell fr st1 c (.arr h)
      .ok (.elem h k, fr2, st2)
  | .arr h =>
      let hd := st.heap.getD h []
      match alookup k hd with
      | some _ => .ok (.elem h k, fr, st)
      | none => .ok (.elem h k, fr, { st with heap := st.heap.set h (hd ++ [(k, Val.nil)]) })
  | v => .error (.type ("[]= " ++ typeName v))

/-- `OP_LOAD_ARRAY_VAR` (`setArrayAtRef`): store into / erase from the array in cell `c` -/
def storeIndex (fr : Frame) (st : St) (c : Cell) (k : Key) (x : Val) : Except Err (Frame × St) :=
  match readCell fr st c with
  | .nil =>
      let h := st.heap.length
      let st1 := { st with heap := st.heap ++ [if x = .nil then [] else [(k, x)]] }
      .ok (writeCell fr st1 c (.arr h))
  | .arr h =>
      let hd := st.heap.getD h []
      .ok (fr, { st with heap := st.heap.set h (if x = .nil then aerase k hd else aset k x hd) })
  | v => .error (.type ("[]= " ++ typeName v))

/-- `OP_MARK_STACK_POS; (OP_STORE_PARAM; OP_LOAD_*_VAR)*; OP_RESTORE_STACK_POS` -/
def bindParams (fr : Frame) (st : St) : List (Scope × String) → Frame × St
  | [] => (fr, st)
  | (sc, n) :: ps =>
      let (v, fr1) :=
        if fr.fastIndex < fr.args.length then (fr.args.getD fr.fastIndex .nil, { fr with fastIndex := fr.fastIndex + 1 })
        else (Val.nil, fr)
      let (fr2, st2) := writeVar fr1 st sc n v
      bindParams fr2 st2 ps

/-- statements from the marker `label name` on (marker included: it binds the parameters) -/
def dropToLabel (name : String) : List Stmt → Option (List Stmt)
  | [] => none
  | s :: rest =>
      match s with
      | .label n _ => if n = name then some (s :: rest) else dropToLabel name rest
      | _ => dropToLabel name rest

/-- statements after the marker `case l` -/
def dropToCase (l : String) : List Stmt → Option (List Stmt)
  | [] => none
  | s :: rest =>
      match s with
      | .case_ n => if n = l then some rest else dropToCase l rest
      | _ => dropToCase l rest

def printLine (nl : Bool) (vs : List Val) : String :=
  " ".intercalate (vs.map Val.stringValue) ++ (if nl then "\n" else "")

mutual

def evalExpr (prog : Program) : Nat → Expr → Frame → St → Res (Val × St)
  | 0, _, _, _ => .timeout
  | n + 1, e, fr, st =>
    match e with
    | .int v => .ok (.int v, st)
    | .str s => .ok (.str s, st)
    | .nil => .ok (.nil, st)
    | .var sc name => .ok (readVar fr st sc name, st)
    | .index a i =>
        match evalExpr prog n a fr st with
        | .ok (va, st1) =>
            match evalExpr prog n i fr st1 with
            | .ok (vi, st2) => match indexVal st2.heap va vi with
                | .ok v => .ok (v, st2)
                | .error e => .err e
            | .err e => .err e
            | .timeout => .timeout
        | .err e => .err e
        | .timeout => .timeout
    | .size a =>
        match evalExpr prog n a fr st with
        | .ok (va, st1) => .ok (unSize st1.heap va, st1)
        | .err e => .err e
        | .timeout => .timeout
    | .bin op a b =>
        match evalExpr prog n a fr st with
        | .ok (va, st1) =>
            match evalExpr prog n b fr st1 with
            | .ok (vb, st2) => match binop op va vb with
                | .ok v => .ok (v, st2)
                | .error e => .err e
            | .err e => .err e
            | .timeout => .timeout
        | .err e => .err e
        | .timeout => .timeout
    | .land a b =>
        match evalExpr prog n a fr st with
        | .ok (va, st1) =>
            if va.truthy then
              match evalExpr prog n b fr st1 with
              | .ok (vb, st2) => .ok (boolVal vb.truthy, st2)
              | .err e => .err e
              | .timeout => .timeout
            else .ok (boolVal false, st1)
        | .err e => .err e
        | .timeout => .timeout
    | .lor a b =>
        match evalExpr prog n a fr st with
        | .ok (va, st1) =>
            if va.truthy then .ok (boolVal true, st1)
            else
              match evalExpr prog n b fr st1 with
              | .ok (vb, st2) => .ok (boolVal vb.truthy, st2)
              | .err e => .err e
              | .timeout => .timeout
        | .err e => .err e
        | .timeout => .timeout
    | .not a =>
        match evalExpr prog n a fr st with
        | .ok (va, st1) => .ok (boolVal (!va.truthy), st1)
        | .err e => .err e
        | .timeout => .timeout
    | .neg a =>
        match evalExpr prog n a fr st with
        | .ok (va, st1) => match unNeg va with
            | .ok v => .ok (v, st1)
            | .error e => .err e
        | .err e => .err e
        | .timeout => .timeout
    | .compl a =>
        match evalExpr prog n a fr st with
        | .ok (va, st1) => match unCompl va with
            | .ok v => .ok (v, st1)
            | .error e => .err e
        | .err e => .err e
        | .timeout => .timeout
    | .call k label args =>
        match evalArgs prog n args fr st with
        | .ok (vs, st1) =>
            match callThread prog n k label vs fr st1 with
            | .ok (r, st2) => .ok (r.getD .nil, st2)
            | .err e => .err e
            | .timeout => .timeout
        | .err e => .err e
        | .timeout => .timeout

def evalArgs (prog : Program) : Nat → List Expr → Frame → St → Res (List Val × St)
  | 0, _, _, _ => .timeout
  | _ + 1, [], _, st => .ok ([], st)
  | n + 1, e :: es, fr, st =>
    match evalExpr prog n e fr st with
    | .ok (v, st1) =>
        match evalArgs prog n es fr st1 with
        | .ok (vs, st2) => .ok (v :: vs, st2)
        | .err e => .err e
        | .timeout => .timeout
    | .err e => .err e
    | .timeout => .timeout

/-- the reference chain of an l-value (`EmitRef`) -/
def refOf (prog : Program) : Nat → LVal → Frame → St → Res (Cell × Frame × St)
  | 0, _, _, _ => .timeout
  | n + 1, lv, fr, st =>
    match lv with
    | .var sc name => .ok (.var sc name, fr, st)
    | .idx b i =>
        match refOf prog n b fr st with
        | .ok (c, fr1, st1) =>
            match evalExpr prog n i fr1 st1 with
            | .ok (vi, st2) =>
                match vi.toKey with
                | .ok k => liftE (refIndex fr1 st2 c k)
                | .error e => .err e
            | .err e => .err e
            | .timeout => .timeout
        | .err e => .err e
        | .timeout => .timeout

/-- `EmitAssignmentStatement` with the value already computed -/
def store (prog : Program) : Nat → LVal → Val → Frame → St → Res (Frame × St)
  | 0, _, _, _, _ => .timeout
  | n + 1, lv, v, fr, st =>
    match lv with
    | .var sc name => .ok (writeVar fr st sc name v)
    | .idx b i =>
        match refOf prog n b fr st with
        | .ok (c, fr1, st1) =>
            match evalExpr prog n i fr1 st1 with
            | .ok (vi, st2) =>
                match vi.toKey with
                | .ok k => liftE (storeIndex fr1 st2 c k v)
                | .error e => .err e
            | .err e => .err e
            | .timeout => .timeout
        | .err e => .err e
        | .timeout => .timeout

def exec (prog : Program) : Nat → Stmt → Frame → St → Res (Flow × Frame × St)
  | 0, _, _, _ => .timeout
  | n + 1, s, fr, st =>
    match s with
    | .assign lv e =>
        match evalExpr prog n e fr st with
        | .ok (v, st1) =>
            match store prog n lv v fr st1 with
            | .ok (fr2, st2) => .ok (.normal, fr2, st2)
            | .err e => .err e
            | .timeout => .timeout
        | .err e => .err e
        | .timeout => .timeout
    | .opassign op lv e =>
        match evalExpr prog n lv.toExpr fr st with
        | .ok (va, st1) =>
            match evalExpr prog n e fr st1 with
            | .ok (vb, st2) =>
                match binop op va vb with
                | .ok v =>
                    match store prog n lv v fr st2 with
                    | .ok (fr3, st3) => .ok (.normal, fr3, st3)
                    | .err e => .err e
                    | .timeout => .timeout
                | .error e => .err e
            | .err e => .err e
            | .timeout => .timeout
        | .err e => .err e
        | .timeout => .timeout
    | .incr lv =>
        match evalExpr prog n lv.toExpr fr st with
        | .ok (va, st1) =>
            match unIncr 1 va with
            | .ok v =>
                match store prog n lv v fr st1 with
                | .ok (fr2, st2) => .ok (.normal, fr2, st2)
                | .err e => .err e
                | .timeout => .timeout
            | .error e => .err e
        | .err e => .err e
        | .timeout => .timeout
    | .decr lv =>
        match evalExpr prog n lv.toExpr fr st with
        | .ok (va, st1) =>
            match unIncr (-1) va with
            | .ok v =>
                match store prog n lv v fr st1 with
                | .ok (fr2, st2) => .ok (.normal, fr2, st2)
                | .err e => .err e
                | .timeout => .timeout
            | .error e => .err e
        | .err e => .err e
        | .timeout => .timeout
    | .block ss => execList prog n ss fr st
    | .ite c t e =>
        match evalExpr prog n c fr st with
        | .ok (vc, st1) => if vc.truthy then execList prog n t fr st1 else execList prog n e fr st1
        | .err e => .err e
        | .timeout => .timeout
    | .while_ c body inc => execWhile prog n c body inc fr st
    | .for_ init c inc body =>
        match execList prog n init fr st with
        | .ok (.normal, fr1, st1) => execWhile prog n c body inc fr1 st1
        | r => r
    | .dowhile body c => execDo prog n body c fr st
    | .brk => .ok (.brk, fr, st)
    | .cont => .ok (.cont, fr, st)
    | .switch e body =>
        match evalExpr prog n e fr st with
        | .ok (v, st1) =>
            match switchLabel v with
            | .ok l =>
                match (dropToCase l body).orElse (fun _ => dropToCase "default" body) with
                | some rest =>
                    match execList prog n rest fr st1 with
                    | .ok (.brk, fr2, st2) => .ok (.normal, fr2, st2)
                    | r => r
                | none => .ok (.normal, fr, st1)
            | .error e => .err e
        | .err e => .err e
        | .timeout => .timeout
    | .case_ _ => .ok (.normal, fr, st)
    | .try_ body handler =>
        match execList prog n body fr st with
        | .ok (.throw l args, fr1, st1) =>
            match dropToLabel l handler with
            | some rest => execList prog n rest { fr1 with args := args, fastIndex := 0 } st1
            | none => .ok (.throw l args, fr1, st1)
        | r => r
    | .label _ params =>
        let (fr1, st1) := bindParams fr st params
        .ok (.normal, fr1, st1)
    | .throw name args =>
        match evalArgs prog n args fr st with
        | .ok (vs, st1) => .ok (.throw name vs, fr, st1)
        | .err e => .err e
        | .timeout => .timeout
    | .goto name => .ok (.goto name, fr, st)
    | .end_ none => .ok (.ended none, fr, st)
    | .end_ (some e) =>
        match evalExpr prog n e fr st with
        | .ok (v, st1) => .ok (.ended (some v), fr, st1)
        | .err e => .err e
        | .timeout => .timeout
    | .print nl args =>
        match evalArgs prog n args fr st with
        | .ok (vs, st1) => .ok (.normal, fr, { st1 with out := st1.out ++ printLine nl vs })
        | .err e => .err e
        | .timeout => .timeout
    | .call k label args =>
        match evalArgs prog n args fr st with
        | .ok (vs, st1) =>
            match callThread prog n k label vs fr st1 with
            | .ok (_, st2) => .ok (.normal, fr, st2)
            | .err e => .err e
            | .timeout => .timeout
        | .err e => .err e
        | .timeout => .timeout

def execList (prog : Program) : Nat → List Stmt → Frame → St → Res (Flow × Frame × St)
  | 0, _, _, _ => .timeout
  | _ + 1, [], fr, st => .ok (.normal, fr, st)
  | n + 1, s :: rest, fr, st =>
    match exec prog n s fr st with
    | .ok (.normal, fr1, st1) => execList prog n rest fr1 st1
    | r => r

/-- `EmitWhileJump`: condition, body, (`continue` target) increment, back -/
def execWhile (prog : Program) : Nat → Expr → List Stmt → List Stmt → Frame → St → Res (Flow × Frame × St)
  | 0, _, _, _, _, _ => .timeout
  | n + 1, c, body, inc, fr, st =>
    match evalExpr prog n c fr st with
    | .ok (vc, st1) =>
        if vc.truthy then
          match execList prog n body fr st1 with
          | .ok (.normal, fr2, st2) | .ok (.cont, fr2, st2) =>
              match execList prog n inc fr2 st2 with
              | .ok (.normal, fr3, st3) => execWhile prog n c body inc fr3 st3
              | .ok (.brk, fr3, st3) => .ok (.normal, fr3, st3)
              | r => r
          | .ok (.brk, fr2, st2) => .ok (.normal, fr2, st2)
          | r => r
        else .ok (.normal, fr, st1)
    | .err e => .err e
    | .timeout => .timeout

/-- `EmitDoWhileJump`: body, (`continue` target) condition, back -/
def execDo (prog : Program) : Nat → List Stmt → Expr → Frame → St → Res (Flow × Frame × St)
  | 0, _, _, _, _ => .timeout
  | n + 1, body, c, fr, st =>
    match execList prog n body fr st with
    | .ok (.normal, fr1, st1) | .ok (.cont, fr1, st1) =>
        match evalExpr prog n c fr1 st1 with
        | .ok (vc, st2) => if vc.truthy then execDo prog n body c fr1 st2 else .ok (.normal, fr1, st2)
        | .err e => .err e
        | .timeout => .timeout
    | .ok (.brk, fr1, st1) => .ok (.normal, fr1, st1)
    | r => r

/-- run a thread from `label` until it ends; `goto` restarts the search from the top level -/
def runFrom (prog : Program) : Nat → String → Frame → St → Res (Option Val × St)
  | 0, _, _, _ => .timeout
  | n + 1, label, fr, st =>
    match dropToLabel label prog with
    | none => .err (.label label)
    | some rest =>
        match execList prog n rest fr st with
        | .ok (.normal, _, st1) => .ok (none, st1)
        | .ok (.ended v, _, st1) => .ok (v, st1)
        | .ok (.goto l, fr1, st1) => runFrom prog n l { fr1 with args := [.str l], fastIndex := 0 } st1
        | .ok (.throw l _, _, _) => .err (.uncaught l)
        | .ok (.brk, _, _) => .err (.flow "break")
        | .ok (.cont, _, _) => .err (.flow "continue")
        | .err e => .err e
        | .timeout => .timeout

def callThread (prog : Program) : Nat → CallKind → String → List Val → Frame → St → Res (Option Val × St)
  | 0, _, _, _, _, _ => .timeout
  | n + 1, k, label, args, fr, st =>
    match k with
    | .thread => runFrom prog n label { locals := [], group := fr.group, args := args, fastIndex := 0 } st
    | .waitthread =>
        runFrom prog n label { locals := [], group := st.groups.length, args := args, fastIndex := 0 }
          { st with groups := st.groups ++ [[]] }

end

/-- what the host sees: `ExecuteThread(script, Event(args), label)` on a fresh engine -/
def runProgram (fuel : Nat) (prog : Program) (label : String) (args : List Val) : Res (Option Val × St) :=
  runFrom prog fuel label { locals := [], group := 0, args := args, fastIndex := 0 } { groups := [[]] }

end Morfuse.Lang
