import MorfuseModel.Lang.Sem
/-!
# C03 — fuel monotonicity of the reference semantics (`Lang.Sem`)

A result other than `timeout` does not change when more fuel is given.
-/
namespace Morfuse.Lang

/-- the ten statements "a finished result at fuel `n` is also the result at fuel `m`" -/
structure FuelMono (prog : Program) (n m : Nat) : Prop where
  evalExpr : ∀ e fr st, evalExpr prog n e fr st ≠ .timeout → Lang.evalExpr prog m e fr st = Lang.evalExpr prog n e fr st
  evalArgs : ∀ es fr st, evalArgs prog n es fr st ≠ .timeout → Lang.evalArgs prog m es fr st = Lang.evalArgs prog n es fr st
  refOf : ∀ lv fr st, refOf prog n lv fr st ≠ .timeout → Lang.refOf prog m lv fr st = Lang.refOf prog n lv fr st
  store : ∀ lv v fr st, store prog n lv v fr st ≠ .timeout → Lang.store prog m lv v fr st = Lang.store prog n lv v fr st
  exec : ∀ s fr st, exec prog n s fr st ≠ .timeout → Lang.exec prog m s fr st = Lang.exec prog n s fr st
  execList : ∀ ss fr st, execList prog n ss fr st ≠ .timeout → Lang.execList prog m ss fr st = Lang.execList prog n ss fr st
  execWhile : ∀ c b i fr st, execWhile prog n c b i fr st ≠ .timeout → Lang.execWhile prog m c b i fr st = Lang.execWhile prog n c b i fr st
  execDo : ∀ b c fr st, execDo prog n b c fr st ≠ .timeout → Lang.execDo prog m b c fr st = Lang.execDo prog n b c fr st
  runFrom : ∀ l fr st, runFrom prog n l fr st ≠ .timeout → Lang.runFrom prog m l fr st = Lang.runFrom prog n l fr st
  callThread : ∀ k l a fr st, callThread prog n k l a fr st ≠ .timeout → Lang.callThread prog m k l a fr st = Lang.callThread prog n k l a fr st

/-- after one unfolding: split the finished run along its sub-results, then rewrite with the hypotheses -/
local macro "fuel_finish" : tactic =>
  `(tactic| all_goals ((repeat' split at $(Lean.mkIdent `h):ident) <;> simp_all))

theorem evalExpr_step {prog : Program} {n m : Nat} (ih : FuelMono prog n m) (e : Expr) (fr : Frame) (st : St)
    (h : evalExpr prog (n+1) e fr st ≠ .timeout) :
    evalExpr prog (m+1) e fr st = evalExpr prog (n+1) e fr st := by
  have ih1 := ih.evalExpr
  have ih2 := ih.evalArgs
  have ih3 := ih.callThread
  clear ih
  cases e <;> simp only [evalExpr] at h ⊢
  fuel_finish

theorem evalArgs_step {prog : Program} {n m : Nat} (ih : FuelMono prog n m) (es : List Expr) (fr : Frame) (st : St)
    (h : evalArgs prog (n+1) es fr st ≠ .timeout) :
    evalArgs prog (m+1) es fr st = evalArgs prog (n+1) es fr st := by
  have ih1 := ih.evalExpr
  have ih2 := ih.evalArgs
  clear ih
  cases es <;> simp only [evalArgs] at h ⊢
  fuel_finish

theorem refOf_step {prog : Program} {n m : Nat} (ih : FuelMono prog n m) (lv : LVal) (fr : Frame) (st : St)
    (h : refOf prog (n+1) lv fr st ≠ .timeout) :
    refOf prog (m+1) lv fr st = refOf prog (n+1) lv fr st := by
  have ih1 := ih.evalExpr
  have ih2 := ih.refOf
  clear ih
  cases lv <;> simp only [refOf] at h ⊢
  fuel_finish

theorem store_step {prog : Program} {n m : Nat} (ih : FuelMono prog n m) (lv : LVal) (v : Val) (fr : Frame) (st : St)
    (h : store prog (n+1) lv v fr st ≠ .timeout) :
    store prog (m+1) lv v fr st = store prog (n+1) lv v fr st := by
  have ih1 := ih.evalExpr
  have ih2 := ih.refOf
  clear ih
  cases lv <;> simp only [store] at h ⊢
  fuel_finish

theorem execList_step {prog : Program} {n m : Nat} (ih : FuelMono prog n m) (ss : List Stmt) (fr : Frame) (st : St)
    (h : execList prog (n+1) ss fr st ≠ .timeout) :
    execList prog (m+1) ss fr st = execList prog (n+1) ss fr st := by
  have ih1 := ih.exec
  have ih2 := ih.execList
  clear ih
  cases ss <;> simp only [execList] at h ⊢
  fuel_finish

theorem execWhile_step {prog : Program} {n m : Nat} (ih : FuelMono prog n m) (c : Expr) (b i : List Stmt)
    (fr : Frame) (st : St) (h : execWhile prog (n+1) c b i fr st ≠ .timeout) :
    execWhile prog (m+1) c b i fr st = execWhile prog (n+1) c b i fr st := by
  have ih1 := ih.evalExpr
  have ih2 := ih.execList
  have ih3 := ih.execWhile
  clear ih
  simp only [execWhile] at h ⊢
  fuel_finish

theorem execDo_step {prog : Program} {n m : Nat} (ih : FuelMono prog n m) (b : List Stmt) (c : Expr)
    (fr : Frame) (st : St) (h : execDo prog (n+1) b c fr st ≠ .timeout) :
    execDo prog (m+1) b c fr st = execDo prog (n+1) b c fr st := by
  have ih1 := ih.evalExpr
  have ih2 := ih.execList
  have ih3 := ih.execDo
  clear ih
  simp only [execDo] at h ⊢
  fuel_finish

theorem runFrom_step {prog : Program} {n m : Nat} (ih : FuelMono prog n m) (l : String)
    (fr : Frame) (st : St) (h : runFrom prog (n+1) l fr st ≠ .timeout) :
    runFrom prog (m+1) l fr st = runFrom prog (n+1) l fr st := by
  have ih1 := ih.execList
  have ih2 := ih.runFrom
  clear ih
  simp only [runFrom] at h ⊢
  fuel_finish

theorem callThread_step {prog : Program} {n m : Nat} (ih : FuelMono prog n m) (k : CallKind) (l : String)
    (a : List Val) (fr : Frame) (st : St) (h : callThread prog (n+1) k l a fr st ≠ .timeout) :
    callThread prog (m+1) k l a fr st = callThread prog (n+1) k l a fr st := by
  have ih1 := ih.runFrom
  clear ih
  cases k <;> simp only [callThread] at h ⊢
  fuel_finish

theorem exec_step {prog : Program} {n m : Nat} (ih : FuelMono prog n m) (s : Stmt) (fr : Frame) (st : St)
    (h : exec prog (n+1) s fr st ≠ .timeout) :
    exec prog (m+1) s fr st = exec prog (n+1) s fr st := by
  have ih1 := ih.evalExpr
  have ih2 := ih.evalArgs
  have ih3 := ih.store
  have ih4 := ih.execList
  have ih5 := ih.execWhile
  have ih6 := ih.execDo
  have ih7 := ih.callThread
  clear ih
  cases s
  case end_ o => cases o <;> simp only [exec] at h ⊢ <;> fuel_finish
  case switch e body =>
    simp only [exec] at h ⊢
    (repeat' split at h) <;> simp_all [-Option.or_eq_some_iff, -Option.or_eq_none_iff]
  all_goals simp only [exec] at h ⊢
  fuel_finish

/-- nothing finishes without fuel, so there is nothing to preserve -/
theorem FuelMono.zero (prog : Program) (m : Nat) : FuelMono prog 0 m := by
  constructor <;> intros <;> simp_all [Lang.evalExpr, Lang.evalArgs, Lang.refOf, Lang.store, Lang.exec,
    Lang.execList, Lang.execWhile, Lang.execDo, Lang.runFrom, Lang.callThread]

/-- the step of the simultaneous induction: the ten one-level unfoldings -/
theorem FuelMono.succ {prog : Program} {n m : Nat} (ih : FuelMono prog n m) : FuelMono prog (n+1) (m+1) where
  evalExpr e fr st := evalExpr_step ih e fr st
  evalArgs es fr st := evalArgs_step ih es fr st
  refOf lv fr st := refOf_step ih lv fr st
  store lv v fr st := store_step ih lv v fr st
  exec s fr st := exec_step ih s fr st
  execList ss fr st := execList_step ih ss fr st
  execWhile c b i fr st := execWhile_step ih c b i fr st
  execDo b c fr st := execDo_step ih b c fr st
  runFrom l fr st := runFrom_step ih l fr st
  callThread k l a fr st := callThread_step ih k l a fr st

/-- fuel monotonicity of all ten functions -/
theorem fuelMono (prog : Program) : ∀ {n m : Nat}, n ≤ m → FuelMono prog n m
  | 0, m, _ => FuelMono.zero prog m
  | n + 1, 0, h => absurd h (by omega)
  | n + 1, m + 1, h => (fuelMono prog (Nat.le_of_succ_le_succ h)).succ

/-- one more unit of fuel never changes a finished result — all ten functions at once -/
theorem fuel_succ (prog : Program) : ∀ n : Nat,
    (∀ e fr st, evalExpr prog n e fr st ≠ .timeout → evalExpr prog (n+1) e fr st = evalExpr prog n e fr st) ∧
    (∀ es fr st, evalArgs prog n es fr st ≠ .timeout → evalArgs prog (n+1) es fr st = evalArgs prog n es fr st) ∧
    (∀ lv fr st, refOf prog n lv fr st ≠ .timeout → refOf prog (n+1) lv fr st = refOf prog n lv fr st) ∧
    (∀ lv v fr st, store prog n lv v fr st ≠ .timeout → store prog (n+1) lv v fr st = store prog n lv v fr st) ∧
    (∀ s fr st, exec prog n s fr st ≠ .timeout → exec prog (n+1) s fr st = exec prog n s fr st) ∧
    (∀ ss fr st, execList prog n ss fr st ≠ .timeout → execList prog (n+1) ss fr st = execList prog n ss fr st) ∧
    (∀ c b i fr st, execWhile prog n c b i fr st ≠ .timeout → execWhile prog (n+1) c b i fr st = execWhile prog n c b i fr st) ∧
    (∀ b c fr st, execDo prog n b c fr st ≠ .timeout → execDo prog (n+1) b c fr st = execDo prog n b c fr st) ∧
    (∀ l fr st, runFrom prog n l fr st ≠ .timeout → runFrom prog (n+1) l fr st = runFrom prog n l fr st) ∧
    (∀ k l a fr st, callThread prog n k l a fr st ≠ .timeout → callThread prog (n+1) k l a fr st = callThread prog n k l a fr st) := by
  intro n
  have h := fuelMono prog (Nat.le_succ n)
  exact ⟨h.evalExpr, h.evalArgs, h.refOf, h.store, h.exec, h.execList, h.execWhile, h.execDo, h.runFrom,
    h.callThread⟩

theorem evalExpr_mono (prog : Program) {n m : Nat} (h : n ≤ m) (e : Expr) (fr : Frame) (st : St) :
    evalExpr prog n e fr st ≠ .timeout → evalExpr prog m e fr st = evalExpr prog n e fr st :=
  (fuelMono prog h).evalExpr e fr st

theorem evalArgs_mono (prog : Program) {n m : Nat} (h : n ≤ m) (es : List Expr) (fr : Frame) (st : St) :
    evalArgs prog n es fr st ≠ .timeout → evalArgs prog m es fr st = evalArgs prog n es fr st :=
  (fuelMono prog h).evalArgs es fr st

theorem refOf_mono (prog : Program) {n m : Nat} (h : n ≤ m) (lv : LVal) (fr : Frame) (st : St) :
    refOf prog n lv fr st ≠ .timeout → refOf prog m lv fr st = refOf prog n lv fr st :=
  (fuelMono prog h).refOf lv fr st

theorem store_mono (prog : Program) {n m : Nat} (h : n ≤ m) (lv : LVal) (v : Val) (fr : Frame) (st : St) :
    store prog n lv v fr st ≠ .timeout → store prog m lv v fr st = store prog n lv v fr st :=
  (fuelMono prog h).store lv v fr st

theorem exec_mono (prog : Program) {n m : Nat} (h : n ≤ m) (s : Stmt) (fr : Frame) (st : St) :
    exec prog n s fr st ≠ .timeout → exec prog m s fr st = exec prog n s fr st :=
  (fuelMono prog h).exec s fr st

theorem execList_mono (prog : Program) {n m : Nat} (h : n ≤ m) (ss : List Stmt) (fr : Frame) (st : St) :
    execList prog n ss fr st ≠ .timeout → execList prog m ss fr st = execList prog n ss fr st :=
  (fuelMono prog h).execList ss fr st

theorem execWhile_mono (prog : Program) {n m : Nat} (h : n ≤ m) (c : Expr) (b i : List Stmt) (fr : Frame) (st : St) :
    execWhile prog n c b i fr st ≠ .timeout → execWhile prog m c b i fr st = execWhile prog n c b i fr st :=
  (fuelMono prog h).execWhile c b i fr st

theorem execDo_mono (prog : Program) {n m : Nat} (h : n ≤ m) (b : List Stmt) (c : Expr) (fr : Frame) (st : St) :
    execDo prog n b c fr st ≠ .timeout → execDo prog m b c fr st = execDo prog n b c fr st :=
  (fuelMono prog h).execDo b c fr st

theorem runFrom_mono (prog : Program) {n m : Nat} (h : n ≤ m) (l : String) (fr : Frame) (st : St) :
    runFrom prog n l fr st ≠ .timeout → runFrom prog m l fr st = runFrom prog n l fr st :=
  (fuelMono prog h).runFrom l fr st

theorem callThread_mono (prog : Program) {n m : Nat} (h : n ≤ m) (k : CallKind) (l : String) (a : List Val)
    (fr : Frame) (st : St) :
    callThread prog n k l a fr st ≠ .timeout → callThread prog m k l a fr st = callThread prog n k l a fr st :=
  (fuelMono prog h).callThread k l a fr st

theorem runProgram_mono {n m : Nat} (h : n ≤ m) (prog : Program) (label : String) (args : List Val) :
    runProgram n prog label args ≠ .timeout → runProgram m prog label args = runProgram n prog label args :=
  runFrom_mono prog h label _ _

/-- two runs with different fuel that both finish give the same answer -/
theorem runProgram_deterministic (n m : Nat) (prog : Program) (label : String) (args : List Val) :
    runProgram n prog label args ≠ .timeout → runProgram m prog label args ≠ .timeout →
    runProgram n prog label args = runProgram m prog label args := by
  intro hn hm
  rcases Nat.le_total n m with h | h
  · exact (runProgram_mono h prog label args hn).symm
  · exact runProgram_mono h prog label args hm

end Morfuse.Lang
