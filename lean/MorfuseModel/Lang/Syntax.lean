/-!
# C03 — abstract syntax of the core script language

The tree that the reference semantics (`Lang.Sem`) evaluates.  It is the parse tree the real parser
builds (`src/Parser/yyParser.yy`) restricted to the core language, before the grammar's own
desugarings: `a += b`, `a++` and `for` are kept as nodes of their own (`opassign`, `incr`, `decr`,
`for_`) so that `C03_desugar` can state that they mean the same as the expansions the grammar
actions build (`Assignment(a, Func2Expr(op, a, b))`, `StatementList[init, While(c, body, inc)]`).
-/
namespace Morfuse.Lang

/-- the five variable scopes of the core language (`TOKEN_LISTENER` values; `self`/`owner` are not
    part of the typed fragment) -/
inductive Scope where
  | loc | grp | lvl | game | parm
  deriving Repr, DecidableEq, Inhabited

/-- binary operators that become `Func2Expr` nodes (one opcode each) -/
inductive BinOp where
  | bor | bxor | band | eq | ne | lt | gt | le | ge | shl | shr | add | sub | mul | div | mod
  deriving Repr, DecidableEq, Inhabited

/-- `thread label args` runs the callee in the caller's group, `waitthread label args` in a new
    group (`ScriptClass::CreateThreadInternal` vs `Listener::CreateThreadInternal`) -/
inductive CallKind where
  | thread | waitthread
  deriving Repr, DecidableEq, Inhabited

inductive Expr where
  | int (v : BitVec 64)
  | str (s : String)
  | nil
  | var (sc : Scope) (name : String)
  | index (a i : Expr)
  | size (a : Expr)
  | bin (op : BinOp) (a b : Expr)
  | land (a b : Expr)
  | lor (a b : Expr)
  | not (a : Expr)
  | neg (a : Expr)
  | compl (a : Expr)
  | call (k : CallKind) (label : String) (args : List Expr)
  deriving Repr, Inhabited

/-- what may stand left of `=`: a field of a scope object, or an element of such an l-value -/
inductive LVal where
  | var (sc : Scope) (name : String)
  | idx (base : LVal) (i : Expr)
  deriving Repr, Inhabited

/-- the r-value spelling of an l-value (`a += b` reads what it writes) -/
def LVal.toExpr : LVal → Expr
  | .var sc n => .var sc n
  | .idx b i => .index b.toExpr i

inductive Stmt where
  | assign (lv : LVal) (e : Expr)
  | opassign (op : BinOp) (lv : LVal) (e : Expr)
  | incr (lv : LVal)
  | decr (lv : LVal)
  /-- `{ … }` (a `StatementList` node) -/
  | block (ss : List Stmt)
  | ite (c : Expr) (t e : List Stmt)
  /-- the parse-tree `While(cond, body, inc)`: `continue` in `body` jumps to `inc` -/
  | while_ (c : Expr) (body inc : List Stmt)
  | for_ (init : List Stmt) (c : Expr) (inc body : List Stmt)
  | dowhile (body : List Stmt) (c : Expr)
  | brk
  | cont
  /-- `body` holds `case_` markers at its top level -/
  | switch (e : Expr) (body : List Stmt)
  /-- `case <int>:`, `case <string>:` or `default:`; the label text as the compiler stores it -/
  | case_ (label : String)
  /-- `handler` holds `label` markers at its top level -/
  | try_ (body handler : List Stmt)
  /-- `name p1 p2 …:` — a thread entry / goto target / catch entry; executing it binds the parameters -/
  | label (name : String) (params : List (Scope × String))
  | throw (name : String) (args : List Expr)
  | goto (name : String)
  | end_ (e : Option Expr)
  | print (newline : Bool) (args : List Expr)
  | call (k : CallKind) (label : String) (args : List Expr)
  deriving Repr, Inhabited

/-- a program: the top-level statement list; thread entry points are the `label`s at this level -/
abbrev Program := List Stmt

end Morfuse.Lang
