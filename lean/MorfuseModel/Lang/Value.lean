import MorfuseModel.Lang.Syntax
/-!
# C03 — values, array holders and the operators of `ScriptVariable`

Transcribed from `src/Script/ScriptVariable.cpp` for the kinds the typed fragment uses (NIL, 64-bit
integer, string — `String` and `ConstString` are one kind here, they differ only in storage —, char
(the result of indexing a string) and array).  Every `case A + B*Max` the C++ does not list is a
script error (`Except.error`).  Integer `+ - *` wrap (signed overflow in the C++: hardware behaviour,
recorded in DESIGN.md 7.10.1); division by `-1` negates with wrap-around and `% -1` is `0` (the C++
special-cases them since `INT64_MIN / -1` trapped); shift counts are masked to six bits.
-/
namespace Morfuse.Lang

/-- array keys: `Hash<ScriptVariable>` accepts strings, integers (and listeners, not in the fragment) -/
inductive Key where
  | int (v : BitVec 64)
  | str (s : String)
  deriving Repr, DecidableEq, Inhabited

inductive Val where
  | nil
  | int (v : BitVec 64)
  | str (s : String)
  | chr (c : UInt8)
  /-- reference to a shared `ScriptArrayHolder` -/
  | arr (h : Nat)
  deriving Repr, DecidableEq, Inhabited

abbrev Holder := List (Key × Val)
abbrev Heap := List Holder
abbrev Vars := List (String × Val)

/-- script errors (a warning on the real engine; the statement is abandoned) and reachable UB -/
inductive Err where
  | type (what : String)
  | divZero
  | ub (what : String)
  | badKey
  | index (what : String)
  | label (name : String)
  | uncaught (name : String)
  | flow (what : String)
  deriving Repr, DecidableEq, Inhabited

def Err.toString : Err → String
  | .type w => "type:" ++ w
  | .divZero => "divZero"
  | .ub w => "ub:" ++ w
  | .badKey => "badKey"
  | .index w => "index:" ++ w
  | .label n => "label:" ++ n
  | .uncaught n => "uncaught:" ++ n
  | .flow w => "flow:" ++ w

/-! ## association lists -/

def alookup {α β} [DecidableEq α] (k : α) : List (α × β) → Option β
  | [] => none
  | (k', v) :: t => if k' = k then some v else alookup k t

def aset {α β} [DecidableEq α] (k : α) (v : β) : List (α × β) → List (α × β)
  | [] => [(k, v)]
  | (k', v') :: t => if k' = k then (k, v) :: t else (k', v') :: aset k v t

def aerase {α β} [DecidableEq α] (k : α) : List (α × β) → List (α × β)
  | [] => []
  | (k', v') :: t => if k' = k then t else (k', v') :: aerase k t

/-! ## conversions (`stringValue`, `booleanValue`, `constStringValue`) -/

def intMin : BitVec 64 := BitVec.intMin 64

/-- `str(int64_t)` -/
def intToString (v : BitVec 64) : String := toString v.toInt

def chrToString (c : UInt8) : String := String.singleton (Char.ofNat c.toNat)

/-- `ScriptVariable::stringValue` -/
def Val.stringValue : Val → String
  | .nil => "NIL"
  | .int v => intToString v
  | .str s => s
  | .chr c => chrToString c
  | .arr _ => "Type: 'array'"

/-- `ScriptVariable::booleanValue` -/
def Val.truthy : Val → Bool
  | .nil => false
  | .int v => v != 0
  | .str s => s != ""
  | .chr _ => true
  | .arr _ => true

def boolVal (b : Bool) : Val := .int (if b then 1 else 0)

/-- `char` is signed on the target: the value `==` / `<` compare -/
def chrInt (c : UInt8) : BitVec 64 := (BitVec.ofNat 8 c.toNat).signExtend 64

/-- `Hash<ScriptVariable>`: which values may be array keys -/
def Val.toKey : Val → Except Err Key
  | .int v => .ok (.int v)
  | .str s => .ok (.str s)
  | _ => .error .badKey

/-! ## operators -/

def strEq (a b : String) : Bool := (a == "" && b == "") || a == b

/-- `ScriptVariable::operator==` (anything not listed there is `false`) -/
def valEq : Val → Val → Bool
  | .nil, .nil => true
  | .int a, .int b => a == b
  | .int a, .chr c => a == chrInt c
  | .chr c, .int a => chrInt c == a
  | .chr a, .chr b => a == b
  | .str a, .str b => strEq a b
  | .int a, .str b => strEq (intToString a) b
  | .str a, .int b => strEq a (intToString b)
  | .chr a, .str b => strEq (chrToString a) b
  | .str a, .chr b => strEq a (chrToString b)
  | _, _ => false

def isStringy : Val → Bool
  | .int _ | .str _ | .chr _ => true
  | _ => false

def typeName : Val → String
  | .nil => "none" | .int _ => "int" | .str _ => "string" | .chr _ => "char" | .arr _ => "array"

def typeErr (op : String) (a b : Val) : Except Err Val :=
  .error (.type (op ++ " " ++ typeName a ++ " " ++ typeName b))

/-- `count & 63`: the C++ masks the shift count (it used to be undefined outside 0..63) -/
def shiftCount (n : BitVec 64) : Nat := n.toNat % 64

/-- the sixteen `Func2Expr` operators on two evaluated operands (`b op= a` of the VM with `b` the
    left operand) -/
def binop (op : BinOp) (a b : Val) : Except Err Val :=
  match op, a, b with
  | .add, .int x, .int y => .ok (.int (x + y))
  | .add, .str x, .str y => .ok (.str (x ++ y))
  | .add, .str x, .int y => .ok (.str (x ++ intToString y))
  | .add, .str x, .chr y => .ok (.str (x ++ chrToString y))
  | .add, .int x, .str y => .ok (.str (intToString x ++ y))
  | .add, .chr x, .str y => .ok (.str (chrToString x ++ y))
  | .sub, .int x, .int y => .ok (.int (x - y))
  | .mul, .int x, .int y => .ok (.int (x * y))
  | .div, .int x, .int y =>
      if y == 0 then .error .divZero
      else if y == -1 then .ok (.int (-x))          -- `INT64_MIN / -1` wraps (the C++ special-cases the divisor -1)
      else .ok (.int (x.sdiv y))
  | .mod, .int x, .int y =>
      if y == 0 then .error .divZero
      else if y == -1 then .ok (.int 0)
      else .ok (.int (x.srem y))
  | .band, .int x, .int y => .ok (.int (x &&& y))
  | .bor, .int x, .int y => .ok (.int (x ||| y))
  | .bxor, .int x, .int y => .ok (.int (x ^^^ y))
  | .shl, .int x, .int y => .ok (.int (x <<< shiftCount y))
  | .shr, .int x, .int y => .ok (.int (x.sshiftRight (shiftCount y)))
  | .eq, x, y => .ok (boolVal (valEq x y))
  | .ne, x, y => .ok (boolVal (!valEq x y))
  | .lt, .int x, .int y => .ok (boolVal (x.slt y))
  | .gt, .int x, .int y => .ok (boolVal (y.slt x))
  | .le, .int x, .int y => .ok (boolVal (x.sle y))
  | .ge, .int x, .int y => .ok (boolVal (y.sle x))
  | .lt, .chr x, .chr y => .ok (boolVal ((chrInt x).slt (chrInt y)))
  | .gt, .chr x, .chr y => .ok (boolVal ((chrInt y).slt (chrInt x)))
  | .le, .chr x, .chr y => .ok (boolVal ((chrInt x).sle (chrInt y)))
  | .ge, .chr x, .chr y => .ok (boolVal ((chrInt y).sle (chrInt x)))
  | op, x, y => typeErr (reprStr op) x y

/-! ### numeric reading of a string (`longValue()` / `intValue()` = `strtoll(s, nullptr, 10)`)

A `String` of this model stands for a byte string, one `Char` below 256 per byte (`chrToString`,
`indexVal` and `unSize` all read it that way). -/

def strBytes (s : String) : List UInt8 := s.toList.map fun c => c.toNat.toUInt8

def isSpaceB (c : UInt8) : Bool := c == 32 || (9 ≤ c && c ≤ 13)
def isDigitB (c : UInt8) : Bool := 48 ≤ c && c ≤ 57
def digitsNat (ds : List UInt8) : Nat := ds.foldl (fun acc c => acc * 10 + (c.toNat - 48)) 0

/-- `strtoll(s, nullptr, 10)`: the C string (up to the first NUL), white space, optional sign, decimal
    digits as far as they go (none: 0), saturating at `INT64_MIN` / `INT64_MAX` -/
def strToLong (s : String) : BitVec 64 :=
  let b := ((strBytes s).takeWhile (· != 0)).dropWhile isSpaceB
  let (neg, b) := match b with
    | 45 :: t => (true, t)
    | 43 :: t => (false, t)
    | _ => (false, b)
  let n := digitsNat (b.takeWhile isDigitB)
  if neg then
    if n ≥ 2 ^ 63 then BitVec.ofNat 64 (2 ^ 63) else BitVec.ofInt 64 (-(n : Int))
  else
    if n ≥ 2 ^ 63 then BitVec.ofNat 64 (2 ^ 63 - 1) else BitVec.ofNat 64 n

/-- `intValue()` of a string: the low 32 bits of `strtoll`, as an unsigned number -/
def strToUInt (s : String) : BitVec 32 := (strToLong s).truncate 32

/-- `ScriptVariable::minus`: an integer is negated, a string goes through `longValue()`
    (`-"5"` is `-5`, `-"abc"` is `0`); NIL, chars and arrays cannot be cast -/
def unNeg : Val → Except Err Val
  | .int x => .ok (.int (-x))
  | .str s => .ok (.int (-(strToLong s)))
  | v => .error (.type ("neg " ++ typeName v))

/-- `ScriptVariable::complement`: an integer is complemented on 64 bits, a string goes through
    `intValue()` (`uint32_t`): `~"5"` is `4294967290` -/
def unCompl : Val → Except Err Val
  | .int x => .ok (.int (~~~x))
  | .str s => .ok (.int ((~~~(strToUInt s)).zeroExtend 64))
  | v => .error (.type ("~ " ++ typeName v))

/-- `operator++(int)` / `operator--(int)`: NIL stays NIL, integers wrap on 64 bits, a string becomes
    `setIntValue(intValue() ± 1)` (32 bits, unsigned: `"0"--` is `4294967295`) -/
def unIncr (d : BitVec 64) : Val → Except Err Val
  | .nil => .ok .nil
  | .int x => .ok (.int (x + d))
  | .str s => .ok (.int ((strToUInt s + d.truncate 32).zeroExtend 64))
  | v => .error (.type ("++ " ++ typeName v))

/-- `OP_UN_SIZE` (`ScriptVariable::size`): `-1` for NIL, length of a string, entries of an array, else 1 -/
def unSize (heap : Heap) : Val → Val
  | .nil => .int (-1)
  | .str s => .int (BitVec.ofNat 64 s.length)
  | .arr h => .int (BitVec.ofNat 64 ((heap.getD h []).length))
  | _ => .int 1

/-- `evalArrayAt`: r-value indexing -/
def indexVal (heap : Heap) (a i : Val) : Except Err Val :=
  match a with
  | .nil => .ok .nil
  | .str s =>
      -- `index.longValue()`: an integer, or a string read by `strtoll` (`"abc"["1"]` is `'b'`)
      let charAt (n : BitVec 64) : Except Err Val :=
        if n.toNat < s.length then
          .ok (.chr (UInt8.ofNat ((s.toList.getD n.toNat 'x').toNat)))
        else .error (.index "String")
      match i with
      | .int n => charAt n
      | .str t => charAt (strToLong t)
      | _ => .error (.type "string index")
  | .arr h => do
      let k ← i.toKey
      .ok ((alookup k (heap.getD h [])).getD .nil)
  | v => .error (.type ("[] " ++ typeName v))

/-- the label a `switch` looks up: `constStringValue()` of the switched value -/
def switchLabel : Val → Except Err String
  | .arr _ => .error (.type "switch array")
  | v => .ok v.stringValue

end Morfuse.Lang
