import MorfuseModel.Emit.Model
import MorfuseModel.Emit.Master
import MorfuseModel.Emit.MasterLemmas
import MorfuseModel.Emit.Fixup
import MorfuseModel.Emit.ArenaFits
import MorfuseModel.Emit.SimFits
import MorfuseModel.Gen.OpcodeTable
/-!
# C01 — compilation is total: any source text is accepted or cleanly rejected

Property theorems only.  The model (`Emit/Model.lean`) is the compiler proper — `ScriptEmitter` with the
counting and the program manager, `ScriptCompiler::Preallocate`, and the registry logic of
`ScriptMaster::GetProgramScript`; the generated lexer / parser is covered by the correspondence run (outcome
classes under ASan with hook H3), not by a theorem.
-/
namespace Morfuse.Props.C01
open Morfuse.Emit

/-- **Termination of the emitter is a checked obligation.**  `emit`, `emitList`, `emitRef` (and the
sub-emitter runs inside `try` / `switch`) are ordinary Lean definitions by structural recursion over the
parse tree — no `partial`, no fuel —, so for every tree and every emitter state they return: a new state or
one of the listed errors. -/
theorem emit_total (n : Node) (s : St) : (∃ s', emit n s = .ok s') ∨ (∃ e, emit n s = .error e) := by
  cases h : emit n s with
  | ok s' => exact .inl ⟨s', rfl⟩
  | error e => exact .inr ⟨e, rfl⟩

/-- the same for a whole compile (counting pass, `Preallocate`, program pass) -/
theorem compile_total (dev : Bool) (root : Node) :
    (∃ c, compile dev root = .ok c) ∨ (∃ e, compile dev root = .error e) := by
  cases h : compile dev root with
  | ok c => exact .inl ⟨c, rfl⟩
  | error e => exact .inr ⟨e, rfl⟩

set_option maxRecDepth 100000 in
example : (match emit (.list (.cons (.while_ (.int 1) (.list (.cons .brk .nil)) .none) .nil)) (St.init true) with
    | .ok s' => s'.info.progLength == 18 | .error _ => false) = true := by decide

/-- **The break / continue fix-up tables are never indexed outside their capacity.**
(`apucBreakJumpLocations[BREAK_JUMP_LOCATION_COUNT]`, `apucContinueJumpLocations[CONTINUE_JUMP_LOCATION_COUNT]`; the
capacities are regenerated from `Compiler.h` into `Gen/EmitConsts.lean`.)  For **every** parse tree and every emitter
state whose two counters are within the tables — in particular the initial state of either pass and of the
counting sub-emitters of `try` / `switch` —
1. the emitter (either manager) never reads or writes `apucBreakJumpLocations[i]` / `apucContinueJumpLocations[i]`
   with `i ≥` capacity (the model's `Ub.breakIndex` / `Ub.continueIndex` outcomes), and leaves both counters
   within the tables;
2. the same for a whole compile (counting pass, `Preallocate`, program pass);
3. `AddBreakJumpLocation` / `AddContinueJumpLocation` store only below the capacity, and at capacity raise the
   modelled `BreakJumpLocOverflow` / `ContinueJumpLocOverflow` instead of storing. -/
theorem C01_fixup_tables_bounded :
    (∀ (n : Node) (s : St), s.nBrk ≤ Gen.EmitConsts.breakMax → s.nCont ≤ Gen.EmitConsts.continueMax →
      match emit n s with
      | .ok s' => s'.nBrk ≤ Gen.EmitConsts.breakMax ∧ s'.nCont ≤ Gen.EmitConsts.continueMax
      | .error e => e ≠ .ub .breakIndex ∧ e ≠ .ub .continueIndex)
    ∧ (∀ (dev : Bool) (root : Node),
        compile dev root ≠ .error (.ub .breakIndex) ∧ compile dev root ≠ .error (.ub .continueIndex))
    ∧ (∀ (s : St) (p : Nat),
        (s.nBrk < Gen.EmitConsts.breakMax → ∃ s', s.addBreak p = .ok s' ∧ s'.nBrk = s.nBrk + 1) ∧
        (¬ s.nBrk < Gen.EmitConsts.breakMax → s.addBreak p = .error .breakOverflow) ∧
        (s.nCont < Gen.EmitConsts.continueMax → ∃ s', s.addContinue p = .ok s' ∧ s'.nCont = s.nCont + 1) ∧
        (¬ s.nCont < Gen.EmitConsts.continueMax → s.addContinue p = .error .continueOverflow)) := by
  refine ⟨?_, ?_, ?_⟩
  · intro n s hb hc
    have h := (pb_all n).e s ⟨hb, hc⟩
    cases hr : emit n s with
    | ok s' => rw [hr] at h; exact h
    | error e => rw [hr] at h; exact h
  · intro dev root
    have h := compile_EB dev root
    constructor
    · intro hc; rw [hc] at h; exact h.1 rfl
    · intro hc; rw [hc] at h; exact h.2 rfl
  · intro s p
    refine ⟨?_, ?_, ?_, ?_⟩
    · intro h; refine ⟨{ s with brk := s.brk.set s.nBrk p, nBrk := s.nBrk + 1 }, by simp [St.addBreak, h], rfl⟩
    · intro h; simp [St.addBreak, h]
    · intro h; refine ⟨{ s with cont := s.cont.set s.nCont p, nCont := s.nCont + 1 }, by simp [St.addContinue, h], rfl⟩
    · intro h; simp [St.addContinue, h]

/-- non-vacuity: a full break table rejects the next `break` with the modelled error; a table with one free slot
takes it -/
example : ({ St.init true with nBrk := Gen.EmitConsts.breakMax } : St).addBreak 7 = .error .breakOverflow := by
  simp [St.addBreak, Gen.EmitConsts.breakMax]
example : (({ St.init true with nBrk := 99 } : St).addBreak 7).toOption.map (·.nBrk) = some 100 := by
  simp [St.addBreak, Gen.EmitConsts.breakMax, Except.toOption]

/-- **No allocation of a compile runs past the arena that `Preallocate` reserved** (`PreAllocator::Alloc` has an
assert-only bound; hook H3 kind 0).  For **every** parse tree and both settings of developer mode, the model of
`ScriptCompiler::Compile` — counting pass, `Preallocate` (source map, the two reserved containers, the program
buffer, the main label table), program pass (one entry per label, one table per switch / catch state script sized by
its counting sub-emitter, container slots) — never asks the bump allocator for more than is left
(`Ub.arenaOverflow` is never the outcome).  The proof goes through the shape of the tree (`Node.syn`): the counting
pass counts exactly the labels / switches / catches of the tree (`mc_all`), the program pass takes exactly
`syn.arena` bytes given room in the current label set, the containers and the arena (`mp_all`: no `rehash`, no
container growth), and `arenaFormula` covers `Preallocate`'s own requests plus `syn.arena` (`fixed_le`).
Sizes (`sizeof StateScript / CatchBlock / Entry / void* / sourcePosMap_t`) are regenerated from the built binary. -/
theorem C01_arena_fits (dev : Bool) (root : Node) : compile dev root ≠ .error (.ub .arenaOverflow) := by
  intro h
  have := compile_EA dev root
  rw [h] at this
  exact this rfl

/-- the pieces the proof of `C01_arena_fits` is made of, for one tree: what the counting pass reports, and what the
program pass consumes when it is given room -/
theorem C01_arena_accounting (root : Node) :
    (match emitRoot root (St.init true) with
      | .ok c => c.info.numLabels + c.info.numCaseLabels = root.syn.lab ∧ c.info.numSwitches = root.syn.sw ∧
          c.info.numCatches = root.syn.ca
      | .error e => e ≠ .ub .arenaOverflow)
    ∧ (∀ s : St, PPre root.syn (frA s) →
        match emit root s with
        | .ok s' => s'.arenaUsed = s.arenaUsed + root.syn.arena ∧ s'.swCont = { s.swCont with num := s.swCont.num + root.syn.sw }
            ∧ s'.caCont = { s.caCont with num := s.caCont.num + root.syn.ca }
        | .error e => e ≠ .ub .arenaOverflow) := by
  constructor
  · have h := emitRoot_count root
    cases hr : emitRoot root (St.init true) with
    | ok c => rw [hr] at h; exact h
    | error e => rw [hr] at h; exact h
  · intro s hp
    have h := (mp_all root).e s hp
    cases hr : emit root s with
    | ok s' =>
      rw [hr] at h
      obtain ⟨_, _, h3, _, _, h6, h7, h8, h9⟩ := h
      refine ⟨h3, ?_, ?_⟩
      · cases hs : s'.swCont; cases ht : s.swCont; simp_all [frA]
      · cases hs : s'.caCont; cases ht : s.caCont; simp_all [frA]
    | error e => rw [hr] at h; exact h

set_option maxRecDepth 100000 in
/-- non-vacuity: a `try` whose catch block holds two labels (the shape of the old arena overflow): the tree's
contribution is two entries and one table of two slots, one catch block -/
example : (Node.try_ (.list .nil) (.list (.cons (.label 1 false .nil) (.cons (.label 2 false .nil) .nil)))).syn.arena
    = 2 * Gen.EmitConsts.szEntry + 2 * Gen.EmitConsts.szPtr := by decide

/-- **The code written by the program pass fits the length computed by the counting pass** — full statement:
for every tree `compile dev root ≠ .error (.ub .codeOverflow)` (and `≠ .ub .fixupOutside`, `≠ .ub .codeUnderflow`):
`WriteOpcodeValue` never writes past `prog_end_ptr` (assert-only; hook H3 kind 1).

*Proved here (the `_partial`):* the two managers account for bytes as the argument needs —
1. program manager: a write of `bs` overflows **iff** `pos + |bs| > progLength`, and otherwise advances the code
   position by exactly `|bs|` and stays within the buffer (the model's overflow outcome is exactly the H3 condition);
2. counting manager: a write adds exactly `|bs|` to `progLength`, a forward move adds exactly its distance, and a
   move back (`AbsorbPrevOpcode`) never takes anything off: the counting pass reports the *gross* number of bytes it
   wrote or skipped, never less than its net position.

*Superseded by `C01_code_fits` below (the simulation is proved there); kept as the statement of the managers' byte
accounting.  What was missing then:* the simulation between the two passes — that from related states both managers take the same peephole
decisions (they read the same previous-opcode window; `EvalPrevValue` reads the same bytes from the 32-byte ring as
from the buffer) except for the `LOAD_x_VAR → LOAD_STORE_x_VAR` fusion, where both branches account for 9 bytes, so
that `gross(program pass) = progLength(counting pass)` and hence `pos ≤ progLength` at every write.  This is
*compared* on every generated tree instead: `progLength`, bytes written and every code byte of the real compiler
equal the model's, hook H3 never fires, and a model outcome `UB:codeOverflow` would differ from the engine's. -/
theorem C01_code_fits_partial (s : St) (bs : List Nat) (k : Nat) :
    (s.counting = false →
      (s.write bs = .error (.ub .codeOverflow) ↔ s.pos + bs.length > s.progLen) ∧
      (∀ s', s.write bs = .ok s' → s'.pos = s.pos + bs.length ∧ s'.pos ≤ s'.progLen ∧ s'.progLen = s.progLen))
    ∧ (s.counting = true →
      (∃ s', s.write bs = .ok s' ∧ s'.info.progLength = s.info.progLength + bs.length) ∧
      (s.moveFwd k).info.progLength = s.info.progLength + k ∧
      (∃ s', s.moveBack k = .ok s' ∧ s'.info.progLength = s.info.progLength)) := by
  constructor
  · intro hc
    unfold St.write
    simp only [hc, Bool.false_eq_true, ↓reduceIte]
    by_cases h : s.pos + bs.length > s.progLen
    · simp [h]
    · simp only [h, ↓reduceIte, iff_false]
      refine ⟨by simp, ?_⟩
      intro s' hs
      injection hs with hs
      subst hs
      exact ⟨rfl, Nat.le_of_not_gt h, rfl⟩
  · intro hc
    refine ⟨?_, ?_, ?_⟩
    · unfold St.write
      simp only [hc, ↓reduceIte]
      refine ⟨_, rfl, ?_⟩
      have : ∀ (l : List Nat) (t : St), (t.ringWrite l).info = t.info := by
        intro l
        induction l with
        | nil => intro t; rfl
        | cons b l ih => intro t; unfold St.ringWrite; rw [ih]
      rw [this]
    · unfold St.moveFwd; simp [hc]
    · unfold St.moveBack; simp [hc]

/-- **The code written by the program pass fits the length computed by the counting pass.**  For every parse tree of the
shape the parser produces (`Node.plain`, decidable, evaluated by the driver on every dumped tree — the check demands it of
each) and both developer modes, a whole compile never writes past the buffer of `progLength` bytes that `Preallocate` made
from the counting pass's result: `Ub.codeOverflow` is never the outcome (`WriteOpcodeValue`'s assert-only bound, hook H3
kind 1) — not in the counting pass (it has no buffer), not in `Preallocate`, not in the program pass.

`Node.plain` asks two things of a tree, both true of everything the grammar builds: the listener byte of a field on a
listener is one of the seven listeners (`≤ 6`), and the operand of a unary minus is an expression — a literal, or a node of
a kind whose emission ends in an opcode without operand-literal (`Node.evOk`: fields, operators with operator opcodes,
array access, commands with a result, strings, `NIL`, `NULL`, vectors, listeners, constant arrays, `!`, `&&`, `||`), or again a
unary minus on such an operand.  Everything else is unrestricted: labels with parameters, assignments, reads of variables
(the `LOAD_x_VAR → LOAD_STORE_x_VAR` fusion included), `if`, `if/else`, `while`, `for`, `do`, `break`, `continue`, `switch`,
`try` / `catch`, all operators, literals of every width, negative literals and nested minus (constant folding through
`EvalPrevValue`), commands with any number of arguments.  Outside are only trees no source text yields (a minus applied to
a statement, listener byte 7 …): for arbitrary opcode bytes in the tree the statement is not expected to hold.

The proof is a simulation of the two passes: a coupling `Rel` of a counting state and a program state (the decisions
readable from the previous-opcode windows, compared by depth so that the fusion's one-slot shift does not matter:
`Emit/Window.lean`; `progLength` of the one = gross bytes of the other; code position ≤ gross bytes; equal fix-up counters
and flags; the ring and the buffer in shape), kept by every primitive in lock-step (`Emit/Sim.lean`), by the fusion site
whichever branch each pass takes (`Emit/Fuse.lean`), by the state scripts and counting sub-emitters of `try` / `switch`
(`Emit/SimNest.lean`), by unary minus — either manager reads back the literal it has just written (`Emit/Bytes.lean`),
reads nothing after an operand that ends in a non-literal opcode (`Emit/WinOk.lean`, `Emit/TopNL.lean`), and the agreement
of what `EvalPrevValue` reads is carried through nested minuses (`MSP.ev`, `Emit/SimNeg.lean`) — and by every constructor
(`Emit/SimEmit*.lean`); `progLength` is monotone (`Emit/Mono.lean`) and a counting emitter never reports a code overflow
(`Emit/NoCO.lean`), for all trees. -/
theorem C01_code_fits (dev : Bool) (root : Node) (hpl : root.plain = true) :
    compile dev root ≠ .error (.ub .codeOverflow) :=
  plain_compile_fits dev root hpl

/-- the name under which the statement was registered while its class was still growing -/
theorem C01_code_fits_partial2 (dev : Bool) (root : Node) (hpl : root.plain = true) :
    compile dev root ≠ .error (.ub .codeOverflow) :=
  C01_code_fits dev root hpl

set_option maxRecDepth 100000 in
/-- a realistic program of the class:
`local.i = 0; while (local.i < 5) { if (local.i == 3) { break }; println "x" 7; local.i = 1 }` -/
example : (Node.list (.cons (.assign (.field 1 1 0 0 (.listener 2)) (.int 0))
    (.cons (.while_ (.f2 90 (.field 2 2 0 0 (.listener 2)) (.int 5))
      (.list (.cons (.if_ (.f2 88 (.field 2 2 0 0 (.listener 2)) (.int 3)) (.list (.cons .brk .nil)))
        (.cons (.cmd 3 true (.cons (.str 4) (.cons (.int 7) .nil)))
          (.cons (.assign (.field 1 1 0 0 (.listener 2)) (.int 1)) .nil)))) .none) .nil))).plain = true := by decide

/-- so are `-local.x`, `-(local.a + 1)` and `-(-5)`; a minus on a statement-like node is not -/
example : (Node.f1 Gen.EmitConsts.OP_UN_MINUS (.field 1 1 0 0 (.listener 2))).plain = true
    ∧ (Node.f1 Gen.EmitConsts.OP_UN_MINUS (.f2 Gen.EmitConsts.OP_BIN_PLUS (.field 1 1 0 0 (.listener 2)) (.int 1))).plain = true
    ∧ (Node.f1 Gen.EmitConsts.OP_UN_MINUS (.f1 Gen.EmitConsts.OP_UN_MINUS (.int 5))).plain = true
    ∧ (Node.f1 Gen.EmitConsts.OP_UN_MINUS .brk).plain = false := by decide

/-- negative literals are in the class: `local.a = -5`, `local.b = -1.5` -/
example : (Node.list (.cons (.assign (.field 1 1 0 0 (.listener 2)) (.f1 Gen.EmitConsts.OP_UN_MINUS (.int 5)))
    (.cons (.assign (.field 2 2 0 0 (.listener 2)) (.f1 Gen.EmitConsts.OP_UN_MINUS (.float 1069547520))) .nil))).plain = true := by decide

/-- **The two regenerated opcode tables are the same table.**  `Gen/EmitConsts.lean` (C01's translator: `OpcodeInfo[]`
read through its accessors in the built binary) and `Gen/OpcodeTable.lean` (C02's translator: the rows of
`ScriptOpcodes.cpp`) agree entry by entry — length, stack offset, external flag — for every opcode of `opcode_e`, and
on `OP_PREVIOUS`: the emitter model (C01) and the verifier / VM model (C02) decode with the same numbers. -/
theorem C01_opcode_tables_agree (o : Bytecode.Gen.Opcode) :
    Gen.EmitConsts.opLenTbl[o.code]? = some o.tableLength ∧ Gen.EmitConsts.opStackTbl[o.code]? = some o.tableStack ∧
    Gen.EmitConsts.opExtTbl[o.code]? = some o.tableExternal ∧ o.code < Gen.EmitConsts.opPrevious ∧
    Gen.EmitConsts.opPrevious = Bytecode.Gen.OP_PREVIOUS ∧ Gen.EmitConsts.opLenTbl.size = Bytecode.Gen.OP_PREVIOUS := by
  cases o <;> decide

example : Gen.EmitConsts.opLenTbl[Gen.EmitConsts.OP_SWITCH]? = some Bytecode.Gen.Opcode.OP_SWITCH.tableLength :=
  (C01_opcode_tables_agree .OP_SWITCH).1

/-- non-vacuity: a one-byte buffer takes one byte and refuses the second -/
example : ((({ St.init false with progLen := 1, buf := Tbl.mk' 1 0 } : St).write [7]).toOption.map (·.pos)) = some 1 := by
  simp [St.write, St.init, Except.toOption]
example : ({ St.init false with progLen := 1, pos := 1 } : St).write [7] = .error (.ub .codeOverflow) := by
  simp [St.write, St.init]

/-- **A rejected load is clean** (`GetProgramScript` + `GetProgramScriptInternal` + `Load`).  Whenever the
call really loads (`name` not registered, or `recompile`) and the load fails — the parser rejects the text or
the compiler throws — then
1. the caller gets exactly that error;
2. `name` stays registered, with `successCompile = false`;
3. every other entry of the registry is unchanged;
4. asking again for `name` (no `recompile`) reports "not properly loaded" and changes nothing;
5. a different, not yet registered script whose load succeeds is handed out with `successCompile = true`,
   and the failed entry is still there afterwards. -/
theorem C01_reject_is_clean (m : Master) (name : Nat) (src : Source) (rc : Bool) (e : LoadErr)
    (hload : m.find name = none ∨ rc = true) (hfail : (load m.dev src).2 = .error e) :
    let m' := (m.get name src rc).1
    (m.get name src rc).2 = .error e
    ∧ (m'.find name).map (·.successCompile) = some false
    ∧ (∀ other, other ≠ name → m'.find other = m.find other)
    ∧ (∀ src2, m'.get name src2 false = (m', .error .notLoaded))
    ∧ (∀ name2 src2, name2 ≠ name → m'.find name2 = none → (load m.dev src2).2 = .ok () →
        ∃ sc, (m'.get name2 src2 false).2 = .ok sc ∧ sc.successCompile = true
          ∧ (((m'.get name2 src2 false).1).find name).map (·.successCompile) = some false) := by
  -- what the failing load leaves behind
  have hsc : (load m.dev src).1.successCompile = false := by
    unfold load at hfail ⊢
    cases src with
    | none => rfl
    | some root =>
      simp only at hfail ⊢
      cases hc : compile m.dev root with
      | ok c => rw [hc] at hfail; simp at hfail
      | error e' => rfl
  -- the call goes through `GetProgramScriptInternal`
  have hget : m.get name src rc =
      ((if (m.find name).isSome then m.erase name else m).put name (load m.dev src).1, .error e) := by
    unfold Master.get
    rcases hload with h | h
    · rw [h]
      cases rc <;> simp [hfail, Master.erase_dev] <;> (cases hl : load m.dev src; simp_all)
    · subst h
      cases hf : m.find name <;> simp [hfail, Master.erase_dev] <;> (cases hl : load m.dev src; simp_all)
  have hdev : ((if (m.find name).isSome then m.erase name else m).put name (load m.dev src).1).dev = m.dev := by
    split <;> simp [Master.put_dev, Master.erase_dev]
  simp only [hget]
  refine ⟨trivial, ?_, ?_, ?_, ?_⟩
  · simp [Master.find_put_self, hsc]
  · intro other ho
    rw [Master.find_put_other _ _ _ _ ho]
    split
    · exact Master.find_erase_other _ _ _ ho
    · rfl
  · intro src2
    unfold Master.get
    simp [Master.find_put_self, hsc]
  · intro name2 src2 hne hnone hok
    unfold Master.get
    rw [hnone]
    simp only [Option.isSome_none, Bool.false_eq_true, ↓reduceIte, hdev]
    cases hl : load m.dev src2 with
    | mk sc r =>
      have hr : r = .ok () := by simpa [hl] using hok
      subst hr
      have hs : sc.successCompile = true := by
        unfold load at hl
        cases src2 with
        | none => simp at hl
        | some root =>
          simp only at hl
          cases hc : compile m.dev root with
          | ok c => rw [hc] at hl; simp at hl; rw [← hl]
          | error e' => rw [hc] at hl; simp at hl
      refine ⟨sc, rfl, hs, ?_⟩
      simp only
      rw [Master.find_put_other _ _ _ _ (Ne.symm hne), Master.find_put_self]
      simp [hsc]

/-- non-vacuity: a parse error on an empty registry -/
example : ((({} : Master).get 7 none false).1.find 7).map (·.successCompile) = some false := by rfl
example : (((({} : Master).get 7 none false).1).get 7 none false).2 = .error .notLoaded := by rfl

end Morfuse.Props.C01
